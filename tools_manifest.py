#!/usr/bin/env python3
"""Regenerates MANIFEST.json from lean/obligations.json and the table below (run after editing either)."""
import json, os
V = os.path.dirname(os.path.abspath(__file__))
ob = json.load(open(os.path.join(V, "lean", "obligations.json")))
props = [json.loads(l) for l in open(os.path.join(V, "properties.jsonl")) if l.strip()]
TEXT = json.load(open(os.path.join(V, "manifest_text.json")))
checks, na = [], []
for p in props:
    pid = p["id"]
    if pid in ob and ob[pid]["theorems"] and pid in TEXT:
        t = TEXT[pid]
        checks.append({
            "property_id": pid,
            "quick_cmd": f"./check {pid} quick",
            "thorough_cmd": f"./check {pid} thorough",
            "evidence_file": f"/verif/evidence/{pid}.json",
            "replay_cmd_template": "./check replay {path}",
            "engine": "lean4-proof+correspondence",
            "level_claimed": {"category": "proof", "text": t["level"], "design_ref": f"DESIGN.md §9 {pid}"},
            "level_note": t["note"],
            "technique": t["technique"],
        })
    else:
        na.append({"property_id": pid, "reason": TEXT.get(pid, {}).get("pending", "not claimed yet in this round: model, correspondence stream and Go-side oracles exist (./check runs), the Lean property theorems are still being written")})
m = {
    "version": 1,
    "setup_cmd": "./check setup",
    "hooks": {"guard": "verif", "enable": "none needed: every property is observable through exported API; the harness is a separate Go module with `replace github.com/celestiaorg/go-square/v2 => /repo`",
              "baseline_off_cmd": "cd /repo && GOFLAGS=-mod=mod GOPROXY=off go test -vet=off -count=1 ./...",
              "source_commits": [], "add_only": True},
    "engines": [{"name": "lean4-proof+correspondence", "path": "/verif/check",
                 "serves_properties": [c["property_id"] for c in checks],
                 "kind_free_text": "Lean 4 theorems about a hand-written executable model (lean/GoSquare), tied to /repo on every run by (a) a differential correspondence check: Go harness (harness/) vs the compiled Lean driver over a line protocol, (b) Gen/Facts.lean regenerated from the compiled package and proved equal to the model's literals, (c) Gen/Src.lean: the integer functions translated from the Go syntax trees by /verif/translator on every run and proved equal to the model definitions (Tie/*.lean); Go-side property oracles search for failing inputs"}],
    "checks": checks,
    "not_applicable": na,
    "notes": "See DESIGN.md. `./check <id> quick|thorough` honours VERIF_SEED, VERIF_TIER and VERIF_REPO. /repo carries 7 `fix:` commits (KNOWN_FINDINGS.txt `fixed:` lines); KF1 is the one recorded known finding.",
}
json.dump(m, open(os.path.join(V, "MANIFEST.json"), "w"), indent=1)
print("claimed:", [c["property_id"] for c in checks], "not claimed:", [n["property_id"] for n in na])
