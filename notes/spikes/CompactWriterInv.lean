namespace Spike
abbrev Bytes := List UInt8

/-- payload capacity of the share with index k in a compact sequence -/
def cap (k : Nat) : Nat := if k = 0 then 474 else 478

theorem cap_pos (k : Nat) : 0 < cap k := by unfold cap; split <;> omega

structure St where
  full : List Bytes
  pend : Bytes
deriving Repr

/-- the Go write loop (payload only): AddData / stackPending / final stack on exact fill -/
def write (st : St) (raw : Bytes) : St :=
  let avail := cap st.full.length - st.pend.length
  if h : raw.length ≤ avail then
    let p := st.pend ++ raw
    if p.length = cap st.full.length then ⟨st.full ++ [p], []⟩ else ⟨st.full, p⟩
  else if h0 : avail = 0 then st   -- unreachable under the invariant
  else write ⟨st.full ++ [st.pend ++ raw.take avail], []⟩ (raw.drop avail)
termination_by raw.length
decreasing_by simp only [List.length_drop]; omega

/-- invariant: stacked payloads ++ pending payload = bytes written; stacked shares are exactly full;
    the pending one is not full -/
structure Inv (st : St) (D : Bytes) : Prop where
  bytes : st.full.flatten ++ st.pend = D
  fullLen : ∀ i (h : i < st.full.length), (st.full[i]).length = cap i
  pendLt : st.pend.length < cap st.full.length

theorem inv_init : Inv ⟨[], []⟩ [] := ⟨rfl, by simp, by simp [cap]⟩

theorem fullLen_snoc {full : List Bytes} {p : Bytes}
    (hf : ∀ i (h : i < full.length), (full[i]).length = cap i) (hp : p.length = cap full.length) :
    ∀ i (h : i < (full ++ [p]).length), ((full ++ [p])[i]).length = cap i := by
  intro i h
  by_cases hi : i < full.length
  · rw [List.getElem_append_left hi]; exact hf i hi
  · have : i = full.length := by simp at h; omega
    subst this
    simp [hp]

theorem write_inv (st : St) (D raw : Bytes) (h : Inv st D) : Inv (write st raw) (D ++ raw) := by
  induction hn : raw.length using Nat.strongRecOn generalizing st D raw with
  | _ n ih =>
    subst hn
    have hp := h.pendLt
    rw [write]
    simp only
    split
    · rename_i hle
      split
      · rename_i heq
        refine ⟨?_, fullLen_snoc h.fullLen heq, by simp [cap_pos]⟩
        simp [← h.bytes, List.append_assoc]
      · rename_i hne
        refine ⟨?_, h.fullLen, ?_⟩
        · simp [← h.bytes, List.append_assoc]
        · simp only [List.length_append] at hne ⊢; omega
    · rename_i hgt
      split
      · omega
      · rename_i hav
        have hlen : (st.pend ++ raw.take (cap st.full.length - st.pend.length)).length = cap st.full.length := by
          simp only [List.length_append, List.length_take]; omega
        have hinv : Inv ⟨st.full ++ [st.pend ++ raw.take (cap st.full.length - st.pend.length)], []⟩
            (D ++ raw.take (cap st.full.length - st.pend.length)) :=
          ⟨by simp [← h.bytes, List.append_assoc], fullLen_snoc h.fullLen hlen, by simp [cap_pos]⟩
        have := ih (raw.drop (cap st.full.length - st.pend.length)).length
          (by simp only [List.length_drop]; omega) _ _ _ hinv rfl
        simpa [List.append_assoc, List.take_append_drop] using this

/-- every history of writes keeps the invariant for the concatenation of what was written -/
theorem writes_inv (raws : List Bytes) : Inv (raws.foldl write ⟨[], []⟩) raws.flatten := by
  suffices ∀ st D, Inv st D → Inv (raws.foldl write st) (D ++ raws.flatten) by simpa using this _ _ inv_init
  induction raws with
  | nil => intro st D h; simpa using h
  | cons r rs ih => intro st D h; simpa [List.append_assoc] using ih _ _ (write_inv st D r h)

end Spike
