namespace Spike

abbrev Bytes := List UInt8

def uvarint (n : Nat) : Bytes :=
  if h : n < 128 then [n.toUInt8] else (n % 128 + 128).toUInt8 :: uvarint (n / 128)
termination_by n
decreasing_by omega

/-- Go's binary.Uvarint-like reader (no overflow handling here), fuel = bytes left -/
def readUvarintAux : Bytes → Nat → Nat → Option (Nat × Bytes)
  | [], _, _ => none
  | b :: rest, shift, acc =>
    if b < 128 then some (acc + b.toNat <<< shift, rest)
    else readUvarintAux rest (shift + 7) (acc + (b.toNat - 128) <<< shift)

def readUvarint (bs : Bytes) : Option (Nat × Bytes) := readUvarintAux bs 0 0

theorem readAux_uvarint (n : Nat) (rest : Bytes) (shift acc : Nat) :
    readUvarintAux (uvarint n ++ rest) shift acc = some (acc + n <<< shift, rest) := by
  induction n using Nat.strongRecOn generalizing shift acc with
  | _ n ih =>
    rw [uvarint]
    split
    · rename_i h
      simp only [List.cons_append, List.nil_append, readUvarintAux]
      have : n.toUInt8 < 128 := by
        rw [UInt8.lt_iff_toNat_lt]; simp; omega
      simp only [this, if_true]
      have : n.toUInt8.toNat = n := by simp; omega
      rw [this]
    · rename_i h
      simp only [List.cons_append, readUvarintAux]
      have hb : ¬ ((n % 128 + 128).toUInt8 < 128) := by
        rw [UInt8.lt_iff_toNat_lt]; simp; omega
      simp only [hb, if_false]
      rw [ih (n / 128) (by omega)]
      congr 2
      have : (n % 128 + 128).toUInt8.toNat = n % 128 + 128 := by simp; omega
      rw [this]
      simp only [Nat.shiftLeft_eq]
      have h2 : n = n % 128 + 128 * (n / 128) := by omega
      rw [Nat.pow_add]
      generalize 2 ^ shift = p
      rw [Nat.add_sub_cancel]
      have h3 : n / 128 * (p * 2 ^ 7) = (128 * (n / 128)) * p := by
        rw [Nat.mul_comm p, ← Nat.mul_assoc, Nat.mul_comm (n / 128)]
      rw [h3, Nat.add_assoc, ← Nat.add_mul, ← h2]

theorem read_uvarint (n : Nat) (rest : Bytes) : readUvarint (uvarint n ++ rest) = some (n, rest) := by
  simp [readUvarint, readAux_uvarint]

end Spike
