namespace Spike

/-! Design-time spike: the three phases of `CompactShareCounter.Add` (share/counter.go:19-66)
    transliterated, and the step lemma against the closed-form position `posOf`. -/

def phase1 (s r d : Nat) : Nat × Nat × Nat :=
  if s = 0 then
    if d ≥ 474 - r then (s + 1, 0, d - (474 - r)) else (s, r + d, 0)
  else (s, r, d)

def phase2 (s r d : Nat) : Nat × Nat × Nat :=
  if d ≥ 478 - r then (s + 1, 0, d - (478 - r)) else (s, r + d, 0)

def phase3 (s r d : Nat) : Nat × Nat :=
  if d > 0 then (s + d / 478, d % 478) else (s, r)

def step (s r d : Nat) : Nat × Nat :=
  let (s1, r1, d1) := phase1 s r d
  let (s2, r2, d2) := phase2 s1 r1 d1
  phase3 s2 r2 d2

/-- (stacked shares, bytes used in the pending share) after T bytes -/
def posOf (T : Nat) : Nat × Nat :=
  if T < 474 then (0, T) else (1 + (T - 474) / 478, (T - 474) % 478)

theorem step_pos (T d : Nat) : step (posOf T).1 (posOf T).2 d = posOf (T + d) := by
  unfold step phase1 phase2 phase3 posOf
  by_cases h1 : T < 474
  · simp only [h1, if_true]
    by_cases h2 : d ≥ 474 - T
    · simp only [h2, if_true]
      have hT : ¬ (T + d < 474) := by omega
      by_cases h3 : d - (474 - T) ≥ 478 - 0
      · simp only [h3, if_true]
        by_cases h4 : d - (474 - T) - (478 - 0) > 0
        · simp only [h4, if_true, hT, if_false]
          ext <;> simp <;> omega
        · simp only [h4, if_false, hT]
          ext <;> simp <;> omega
      · simp only [h3, if_false]
        simp [hT]
        omega
    · simp only [h2, if_false]
      have : (0 ≥ 478 - (T + d)) = False := by simp; omega
      simp [this]
      omega
  · simp only [h1, if_false]
    have hs : ¬ (1 + (T - 474) / 478 = 0) := by omega
    have hT : ¬ (T + d < 474) := by omega
    simp only [hs, if_false, hT]
    by_cases h3 : d ≥ 478 - (T - 474) % 478
    · simp only [h3, if_true]
      by_cases h4 : d - (478 - (T - 474) % 478) > 0
      · simp only [h4, if_true]
        ext <;> simp <;> omega
      · simp only [h4, if_false]
        ext <;> simp <;> omega
    · simp only [h3, if_false]
      have : ¬ (0 > 0) := by omega
      simp only [this, if_false]
      ext <;> simp <;> omega

end Spike
