import GoSquare.Model.Builder
import GoSquare.Model.Nmt
import GoSquare.Spec.Format
import GoSquare.Spec.Layout
import GoSquare.Model.Json
/-! Line-protocol driver: one operation per input line, one canonical result line per operation.
    It runs the *same definitions the theorems are about* (`GoSquare.Model.*`, `GoSquare.Spec.*`).
    The Go harness (/verif/harness) runs the real code on the same lines; outputs are diffed. -/
open GoSquare

namespace Driver

def hexDigit (c : UInt8) : Option UInt8 :=
  if 48 ≤ c ∧ c ≤ 57 then some (c - 48)
  else if 97 ≤ c ∧ c ≤ 102 then some (c - 87)
  else none

def unhex (s : String) : Option Bytes :=
  if s == "-" then some []
  else
    let b := s.toUTF8
    if b.size % 2 ≠ 0 then none
    else Id.run do
      let mut out : Array UInt8 := Array.mkEmpty (b.size / 2)
      for i in [0:b.size / 2] do
        match hexDigit b[2*i]!, hexDigit b[2*i+1]! with
        | some h, some l => out := out.push (h * 16 + l)
        | _, _ => return none
      return some out.toList

def hexChars : Array Char := #['0','1','2','3','4','5','6','7','8','9','a','b','c','d','e','f']

def hex (b : Bytes) : String :=
  if b.isEmpty then "-"
  else String.ofList (b.foldr (fun (x : UInt8) acc => hexChars[x.toNat / 16]! :: hexChars[x.toNat % 16]! :: acc) [])

def hex64 (v : UInt64) : String :=
  String.ofList ((List.range 16).map (fun i => hexChars[((v >>> ((15 - i) * 4).toUInt64) &&& 15).toNat]!))

def dig (b : Bytes) : String := hex64 (fnv64 b)

/-- digest of a list of byte strings: count and FNV over length-prefixed concatenation. -/
def digList (l : List Bytes) : String :=
  let h := l.foldl (fun h b => (b.foldl (fun h x => (h ^^^ x.toUInt64) * 1099511628211)
      (((h ^^^ (b.length % 256).toUInt64) * 1099511628211 ^^^ (b.length / 256 % 256).toUInt64) * 1099511628211)))
    14695981039346656037
  s!"n={l.length} H={hex64 h}"

def unhexList (s : String) : Option (List Bytes) :=
  if s == "." then some [] else (s.splitOn ",").mapM unhex

def resStr {α} (f : α → String) : Res α → String
  | .ok v => "ok " ++ f v
  | .error .err => "err"
  | .error .panic => "panic"

def optStr {α} (f : α → String) : Option α → String
  | some v => "ok " ++ f v
  | none => "err"

def b2s (b : Bool) : String := if b then "1" else "0"

/-- result of a canonical-fragment JSON decoder; `outside` is never compared by the harness -/
def jresStr {α} (f : α → String) : Json.R α → String
  | .ok v => "ok " ++ f v
  | .err => "err"
  | .outside => "outside"

def blobStr (b : Blob) : String :=
  s!"{hex b.ns}:{b.ver}:{match b.signer with | none => "nil" | some s => hex s}:{b.data.length}:{dig b.data}"

/-- blob spec `ns:ver:signer|nil:data` (all hex). -/
def parseBlobSpec (s : String) : Option (Bytes × Nat × Option Bytes × Bytes) :=
  match s.splitOn ":" with
  | [ns, ver, signer, data] => do
    let ns ← unhex ns
    let ver ← ver.toNat?
    let signer ← if signer == "nil" then some none else (unhex signer).map some
    let data ← unhex data
    some (ns, ver, signer, data)
  | _ => none

/-- the harness's mock PFB decoder: tx = [count] ++ count × be32 sizes ++ filler. -/
def mockPfbDecoder (tx : Bytes) : Res (List Nat) :=
  match tx with
  | [] => .error .err
  | c :: rest =>
    let n := c.toNat
    if rest.length < 4 * n then .error .err
    else .ok ((List.range n).map (fun i => readBe32 (rest.drop (4 * i))))

structure St where
  css : Option CompactSplitter := none
  sss : List Bytes := []
  cnt : Counter := {}
  b : Option Builder := none
  R : List Bytes := []

def natList (l : List Nat) : String := ",".intercalate (l.map toString)

/-- counter: reach total `T` by one large add and unit adds of empty data (1 byte each). -/
def counterGoto (T : Nat) : Counter := Id.run do
  let mut c : Counter := {}
  if T = 0 then return c
  -- largest L with L + delimLen L ≤ T
  let mut L := T - 1
  while L + uvarintLen L > T do
    L := L - 1
  c := (c.add L).1
  for _ in [0:T - (L + uvarintLen L)] do
    c := (c.add 0).1
  return c

def mixU (h : UInt64) (v : Nat) : UInt64 :=
  let h := (h ^^^ (v % 4294967296).toUInt64) * 1099511628211
  (h ^^^ (v / 4294967296 % 4294967296).toUInt64) * 1099511628211

def mixI (h : UInt64) (v : Int) : UInt64 := mixU h (if v < 0 then (v + 18446744073709551616).toNat else v.toNat)

def arith1 (fn : String) (args : List Nat) : String :=
  match fn, args with
  | "rup", [n] => toString (roundUpPow2 n)
  | "rdown", [n] => optStr toString (roundDownPow2 n)
  | "ispow", [n] => b2s (isPowerOfTwo n)
  | "minsq", [n] => toString (blobMinSquareSize n)
  | "stw", [n, t] => toString (subTreeWidth n t)
  | "rumo", [c, v] => toString (roundUpByMultipleOf c v)
  | "nsi", [c, n, t] => toString (nextShareIndex c n t)
  | "mmr", [n, m] => natList (mmrSizes n m)
  | "csn", [n] => toString (compactSharesNeeded n)
  | "ssn", [n] => toString (sparseSharesNeeded n)
  | "ssnws", [n, s] => toString (sparseSharesNeededWithSigner n (s == 1))
  | "abc", [n] => toString (availableBytesFromCompactShares n)
  | "abs", [n] => toString (availableBytesFromSparseShares n)
  | "delim", [n] => toString (uvarintLen n)
  | _, _ => "bad-op"

def arithVal (fn : String) (args : List Nat) : Nat :=
  match fn, args with
  | "rup", [n] => roundUpPow2 n
  | "rdown", [n] => (roundDownPow2 n).getD 0
  | "ispow", [n] => if isPowerOfTwo n then 1 else 0
  | "minsq", [n] => blobMinSquareSize n
  | "stw", [n, t] => subTreeWidth n t
  | "rumo", [c, v] => roundUpByMultipleOf c v
  | "nsi", [c, n, t] => nextShareIndex c n t
  | "mmr", [n, m] => (mmrSizes n m).foldl (fun a x => a * 31 + x) 7 % 18446744073709551616
  | "csn", [n] => compactSharesNeeded n
  | "ssn", [n] => sparseSharesNeeded n
  | "ssnws", [n, s] => sparseSharesNeededWithSigner n (s == 1)
  | "abc", [n] => availableBytesFromCompactShares n
  | "abs", [n] => availableBytesFromSparseShares n
  | "delim", [n] => uvarintLen n
  | _, _ => 0

def seqStr (q : Sequence) : String := s!"{hex q.ns}/{q.shares.length}/{(digList q.shares)}"

def decodedStr : Decoded → String
  | .normal => "normal"
  | .badBlobTx => "bad"
  | .blobTx bt => s!"blobtx tx={bt.tx.length}:{dig bt.tx} blobs=[{",".intercalate (bt.blobs.map blobStr)}]"

def shareDecode (s : Bytes) : String :=
  let rd := Share.rawData s
  s!"ns={hex (Share.ns s)} ver={Share.version s} start={b2s (Share.isSequenceStart s)} compact={b2s (Share.isCompactShare s)} " ++
  s!"seqlen={Share.sequenceLen s} signer={match Share.signer s with | none => "nil" | some x => hex x} pad={b2s (Share.isPadding s)} " ++
  s!"sup={b2s (Share.checkVersionSupported s)} raw={rd.length}:{dig rd} rawres={resStr (fun b => s!"{b.length}:{dig b}") (Share.rawDataUsingReserved s)}"

def step (st : St) (line : String) : St × String :=
  let toks := (line.trimAscii.toString.splitOn " ").filter (· ≠ "")
  match toks with
  | [] => (st, "")
  | "case" :: _ => ({}, "case")
  | "arith" :: "grid" :: fn :: lo :: hi :: rest =>
    match lo.toNat?, hi.toNat?, rest.mapM String.toNat? with
    | some lo, some hi, some extra =>
      let h := (List.range (hi - lo)).foldl (fun h i => mixU h (arithVal fn ((lo + i) :: extra))) 14695981039346656037
      (st, hex64 h)
    | _, _, _ => (st, "bad-op")
  | "arith" :: "bsu" :: cur :: thr :: lens :: [] =>
    match cur.toNat?, thr.toNat?, (if lens == "." then some [] else (lens.splitOn ",").mapM String.toNat?) with
    | some c, some t, some ls =>
      let (u, idx) := blobSharesUsed c t ls
      (st, s!"{u} [{natList idx}]")
    | _, _, _ => (st, "bad-op")
  | "arith" :: fn :: args =>
    match args.mapM String.toNat? with
    | some as => (st, arith1 fn as)
    | none => (st, "bad-op")
  | ["cnt", "new"] => ({ st with cnt := {} }, "ok")
  | ["cnt", "add", n] =>
    match n.toNat? with
    | some n =>
      let (c, d) := st.cnt.add n
      ({ st with cnt := c }, s!"diff={d} size={c.size} rem={c.remainder}")
    | none => (st, "bad-op")
  | ["cnt", "revert"] =>
    let c := st.cnt.revert
    ({ st with cnt := c }, s!"size={c.size} rem={c.remainder}")
  | ["cnt", "step", t, n] =>
    match t.toNat?, n.toNat? with
    | some t, some n =>
      let c0 := counterGoto t
      let (c, d) := c0.add n
      let r := c.revert
      (st, s!"from={c0.size}/{c0.remainder} diff={d} size={c.size} rem={c.remainder} rsize={r.size} rrem={r.remainder}")
    | _, _ => (st, "bad-op")
  | ["cnt", "sweep", t, lo, hi] =>
    match t.toNat?, lo.toNat?, hi.toNat? with
    | some t, some lo, some hi =>
      let c0 := counterGoto t
      let h := (List.range (hi - lo)).foldl (fun h i =>
        let (c, d) := c0.add (lo + i)
        let r := c.revert
        mixU (mixU (mixU (mixU (mixI h d) c.size) c.remainder) r.size) r.remainder) 14695981039346656037
      (st, s!"from={c0.size}/{c0.remainder} {hex64 h}")
    | _, _, _ => (st, "bad-op")
  | ["ns", "cmp", a, b] =>
    match unhex a, unhex b with
    | some a, some b =>
      (st, s!"{Ns.compare a b} eq={b2s (Ns.equals a b)} lt={b2s (Ns.isLessThan a b)} le={b2s (Ns.isLessOrEqualThan a b)} gt={b2s (Ns.isGreaterThan a b)} ge={b2s (Ns.isGreaterOrEqualThan a b)}")
    | _, _ => (st, "bad-op")
  | ["ns", "class", a] =>
    match unhex a with
    | some n =>
      (st, s!"tx={b2s (Ns.isTx n)} pfb={b2s (Ns.isPayForBlob n)} prp={b2s (Ns.isPrimaryReservedPadding n)} tail={b2s (Ns.isTailPadding n)} par={b2s (Ns.isParityShares n)} pr={b2s (Ns.isPrimaryReserved n)} sr={b2s (Ns.isSecondaryReserved n)} res={b2s (Ns.isReserved n)} use={b2s (Ns.isUsableNamespace n)} vfd={b2s (Ns.validateForData n)} vfb={b2s (Ns.validateForBlob n)}")
    | none => (st, "bad-op")
  | ["ns", "new", v, id] =>
    match v.toNat?, unhex id with
    | some v, some id => (st, optStr hex (Ns.new v.toUInt8 id))
    | _, _ => (st, "bad-op")
  | ["ns", "frombytes", b] =>
    match unhex b with
    | some b => (st, optStr hex (Ns.fromBytes b))
    | none => (st, "bad-op")
  | ["ns", "newv0", b] =>
    match unhex b with
    | some b => (st, optStr hex (Ns.newV0 b))
    | none => (st, "bad-op")
  | ["ns", "addint", n, v] =>
    match unhex n, v.toInt? with
    | some n, some v => (st, optStr hex (Ns.addInt n v))
    | _, _ => (st, "bad-op")
  | ["share", "decode", s] =>
    match unhex s with
    | some s => (st, shareDecode s)
    | none => (st, "bad-op")
  | ["share", "info", v, s] =>
    match v.toNat? with
    | some v => (st, resStr (fun b => toString b.toNat) (newInfoByte v (s == "1")))
    | none => (st, "bad-op")
  | ["share", "parseinfo", v] =>
    match v.toNat? with
    | some v =>
      (st, resStr (fun b => s!"{b.toNat} ver={b.toNat / 2} start={b2s (b.toNat % 2 == 1)}") (parseInfoByte v.toUInt8))
    | none => (st, "bad-op")
  | ["share", "newres", v] =>
    match v.toNat? with
    | some v => (st, resStr hex (newReservedBytes v))
    | none => (st, "bad-op")
  | ["share", "parseres", v] =>
    match unhex v with
    | some v => (st, resStr toString (parseReservedBytes v))
    | none => (st, "bad-op")
  | ["share", "pad", ns, ver, n] =>
    match unhex ns, ver.toNat?, n.toNat? with
    | some ns, some ver, some n =>
      match namespacePaddingShares ns ver n with
      | .ok l => ({ st with R := l }, "ok " ++ digList l)
      | .error _ => (st, "err")
    | _, _, _ => (st, "bad-op")
  | ["share", "respad", n] =>
    match n.toNat? with
    | some n => match reservedPaddingShares n with
      | .ok l => ({ st with R := l }, "ok " ++ digList l)
      | .error _ => (st, "err")
    | none => (st, "bad-op")
  | ["share", "tailpad", n] =>
    match n.toNat? with
    | some n => match tailPaddingShares n with
      | .ok l => ({ st with R := l }, "ok " ++ digList l)
      | .error _ => (st, "err")
    | none => (st, "bad-op")
  -- compact splitter
  | ["css", "new", ns, ver] =>
    match unhex ns, ver.toNat? with
    | some ns, some ver =>
      match CompactSplitter.new ns ver with
      | .ok c => ({ st with css := some c }, "ok")
      | .error e => (st, resStr (fun _ => "") (.error e : Res Unit))
    | _, _ => (st, "bad-op")
  | ["css", "write", tx] =>
    match unhex tx, st.css with
    | some tx, some c =>
      match c.writeTx tx with
      | .ok c => ({ st with css := some c }, "ok")
      | .error e => (st, resStr (fun _ => "") (.error e : Res Unit))
    | _, _ => (st, "bad-op")
  | ["css", "export"] =>
    match st.css with
    | some c =>
      match c.exportShares with
      | .ok (c, l) => ({ st with css := some c, R := l }, "ok " ++ digList l ++ s!" seqlen={(l.head?.map Share.sequenceLen).getD 0}")
      | .error e => (st, resStr (fun _ => "") (.error e : Res Unit))
    | none => (st, "bad-op")
  | ["css", "count"] =>
    match st.css with
    | some c => (st, toString c.count)
    | none => (st, "bad-op")
  | ["css", "ranges", off] =>
    match st.css, off.toNat? with
    | some c, some off =>
      let rs := (c.shareRanges off).map (fun e => s!"{dig e.1}:{e.2.1}-{e.2.2}")
      (st, " ".intercalate (rs.toArray.qsort (· < ·)).toList)
    | _, _ => (st, "bad-op")
  -- sparse splitter
  | ["sss", "new"] => ({ st with sss := [] }, "ok")
  | ["sss", "write", spec] =>
    match parseBlobSpec spec with
    | some (ns, ver, signer, data) =>
      match sparseWrite st.sss { ns, data, ver, signer } with
      | .ok l => ({ st with sss := l }, s!"ok {l.length}")
      | .error e => (st, resStr (fun _ => "") (.error e : Res Unit))
    | none => (st, "bad-op")
  | ["sss", "pad", n] =>
    match n.toNat? with
    | some n =>
      match sparseWritePadding st.sss n with
      | .ok l => ({ st with sss := l }, s!"ok {l.length}")
      | .error e => (st, resStr (fun _ => "") (.error e : Res Unit))
    | none => (st, "bad-op")
  | ["sss", "export"] => ({ st with R := st.sss }, "ok " ++ digList st.sss)
  -- register R
  | ["sh", "set", l] =>
    match unhexList l with
    | some l => ({ st with R := l }, "ok " ++ digList l)
    | none => (st, "bad-op")
  | ["sh", "append", l] =>
    match unhexList l with
    | some l => ({ st with R := st.R ++ l }, "ok " ++ digList (st.R ++ l))
    | none => (st, "bad-op")
  | ["sh", "wrap", a, z] =>
    match a.toNat?, z.toNat? with
    | some a, some z =>
      match reservedPaddingShares a, tailPaddingShares z with
      | .ok pa, .ok pz => let l := pa ++ st.R ++ pz; ({ st with R := l }, "ok " ++ digList l)
      | _, _ => (st, "err")
    | _, _ => (st, "bad-op")
  | ["sh", "sub", lo, hi] =>
    match lo.toNat?, hi.toNat? with
    | some lo, some hi =>
      let l := (st.R.drop lo).take (hi - lo)
      ({ st with R := l }, "ok " ++ digList l)
    | _, _ => (st, "bad-op")
  | ["sh", "parsetxs", lo, hi] =>
    match lo.toNat?, hi.toNat? with
    | some lo, some hi =>
      (st, resStr (fun l => digList l ++ " [" ++ ",".intercalate (l.map (fun t => toString t.length)) ++ "]")
        (parseTxs ((st.R.drop lo).take (hi - lo))))
    | _, _ => (st, "bad-op")
  | ["sh", "parseblobs", lo, hi] =>
    match lo.toNat?, hi.toNat? with
    | some lo, some hi =>
      (st, resStr (fun l => s!"[{",".intercalate (l.map blobStr)}]") (parseBlobs ((st.R.drop lo).take (hi - lo))))
    | _, _ => (st, "bad-op")
  | ["sh", "parseshares", ign] =>
    (st, resStr (fun l => s!"[{" ".intercalate (l.map seqStr)}]") (parseShares st.R (ign == "1")))
  | ["sh", "seqraw", lo, hi] =>
    match lo.toNat?, hi.toNat? with
    | some lo, some hi =>
      let sh := (st.R.drop lo).take (hi - lo)
      let q : Sequence := { ns := (sh.head?.map Share.ns).getD [], shares := sh }
      (st, resStr (fun d => s!"{d.length}:{dig d}") q.rawData)
    | _, _ => (st, "bad-op")
  | ["sh", "range", ns] =>
    match unhex ns with
    | some ns => let r := getShareRangeForNamespace st.R ns; (st, s!"{r.1}-{r.2}")
    | none => (st, "bad-op")
  | ["sh", "decode", i] =>
    match i.toNat? with
    | some i => (st, shareDecode (st.R.getD i []))
    | none => (st, "bad-op")
  | ["sh", "wpfbs"] =>
    (st, resStr (fun l => digList l) (wrappedPFBs st.R))
  | ["sh", "deconstruct"] =>
    (st, resStr (fun l => digList l ++ " [" ++ ",".intercalate (l.map (fun t => toString t.length)) ++ "]") (deconstruct st.R mockPfbDecoder))
  | ["sh", "isempty"] => (st, b2s (squareIsEmpty st.R))
  | ["sh", "rowroot", side, i] =>
    match side.toNat?, i.toNat? with
    | some side, some i =>
      let row := (st.R.drop (side * i)).take side
      (st, hex (Nmt.root (row.map (fun s => Share.ns s ++ s))))
    | _, _ => (st, "bad-op")
  -- proto
  | ["proto", "blobtx", b] =>
    match unhex b with
    | some b => (st, decodedStr (unmarshalBlobTx b))
    | none => (st, "bad-op")
  | ["proto", "iw", b] =>
    match unhex b with
    | some b =>
      (st, match unmarshalIndexWrapper b with
        | none => "none"
        | some w => s!"ok tx={w.tx.length}:{dig w.tx} idx=[{natList w.shareIndexes}]")
    | none => (st, "bad-op")
  | ["proto", "blob", b] =>
    match unhex b with
    | some b => (st, optStr blobStr (Blob.unmarshal b))
    | none => (st, "bad-op")
  | ["proto", "newblob", spec] =>
    match parseBlobSpec spec with
    | some (ns, ver, signer, data) => (st, optStr blobStr (Blob.new ns data ver signer))
    | none => (st, "bad-op")
  | ["proto", "mblob", spec] =>
    match parseBlobSpec spec with
    | some (ns, ver, signer, data) => (st, hex (Blob.marshal { ns, data, ver, signer }))
    | none => (st, "bad-op")
  | ["proto", "mblobtx", tx, specs] =>
    match unhex tx, (if specs == "." then some [] else (specs.splitOn ";").mapM parseBlobSpec) with
    | some tx, some bs =>
      let blobs := bs.map (fun (ns, ver, signer, data) => ({ ns, data, ver, signer } : Blob))
      (st, optStr (fun b => s!"{b.length}:{dig b}") (marshalBlobTx tx blobs))
    | _, _ => (st, "bad-op")
  | ["proto", "miw", tx, idx] =>
    match unhex tx, (if idx == "." then some [] else (idx.splitOn ",").mapM String.toNat?) with
    | some tx, some idx => (st, hex (marshalIndexWrapper tx idx))
    | _, _ => (st, "bad-op")
  -- json (encoders complete; decoders on the canonical fragment, "outside" elsewhere)
  | ["json", "b64enc", b] =>
    match unhex b with
    | some b => (st, hex (Json.b64Encode b))
    | none => (st, "bad-op")
  | ["json", "b64dec", b] =>
    match unhex b with
    | some b => (st, optStr hex (Json.b64Decode b))
    | none => (st, "bad-op")
  | ["json", "mns", b] =>
    match unhex b with
    | some b => (st, hex (Json.marshalNs b))
    | none => (st, "bad-op")
  | ["json", "uns", b] =>
    match unhex b with
    | some b => (st, jresStr hex (Json.unmarshalNs b))
    | none => (st, "bad-op")
  | ["json", "mshare", b] =>
    match unhex b with
    | some b => (st, dig (Json.marshalShare b))
    | none => (st, "bad-op")
  | ["json", "ushare", b] =>
    match unhex b with
    | some b => (st, jresStr dig (Json.unmarshalShare b))
    | none => (st, "bad-op")
  | ["json", "mblob", spec] =>
    match parseBlobSpec spec with
    | some (ns, ver, signer, data) => (st, hex (Json.marshalBlob { ns, data, ver, signer }))
    | none => (st, "bad-op")
  | ["json", "ublob", b] =>
    match unhex b with
    | some b => (st, jresStr blobStr (Json.unmarshalBlob b))
    | none => (st, "bad-op")
  -- builder
  | ["b", "new", mx, thr] =>
    match mx.toNat?, thr.toNat? with
    | some mx, some thr =>
      match Builder.new mx thr with
      | .ok b => ({ st with b := some b }, "ok")
      | .error _ => ({ st with b := none }, "err")
    | _, _ => (st, "bad-op")
  | ["b", "tx", tx] =>
    match unhex tx, st.b with
    | some tx, some b =>
      match unmarshalBlobTx tx with
      | .normal =>
        let (b, ok) := b.appendTx tx
        ({ st with b := some b }, s!"tx acc={b2s ok} size={b.currentSize}")
      | .blobTx bt =>
        let (b, ok) := b.appendBlobTx bt
        ({ st with b := some b }, s!"btx acc={b2s ok} size={b.currentSize}")
      | .badBlobTx => (st, "bad")
    | _, _ => (st, "bad-op")
  | ["b", "export"] =>
    match st.b with
    | some b =>
      match b.exportSquare with
      | .ok (b, sq) => ({ st with b := some b, R := sq }, s!"ok {digList sq}")
      | .error e => (st, resStr (fun _ => "") (.error e : Res Unit))
    | none => (st, "bad-op")
  | ["b", "txrange", i] =>
    match i.toInt?, st.b with
    | some i, some b =>
      match b.findTxShareRange i with
      | .ok (b, s, e) => ({ st with b := some b }, s!"ok {s}-{e}")
      | .error e => (st, resStr (fun _ => "") (.error e : Res Unit))
    | _, _ => (st, "bad-op")
  | ["b", "blobidx", p, j] =>
    match p.toInt?, j.toInt?, st.b with
    | some p, some j, some b =>
      match b.findBlobStartingIndex p j with
      | .ok (b, v) => ({ st with b := some b }, s!"ok {v}")
      | .error e => (st, resStr (fun _ => "") (.error e : Res Unit))
    | _, _, _ => (st, "bad-op")
  | ["b", "bloblen", p, j] =>
    match p.toInt?, j.toInt?, st.b with
    | some p, some j, some b => (st, resStr toString (b.blobShareLength p j))
    | _, _, _ => (st, "bad-op")
  | ["b", "wpfb", i] =>
    match i.toInt?, st.b with
    | some i, some b =>
      match b.getWrappedPFB i with
      | .ok (b, w) => ({ st with b := some b }, s!"ok tx={w.tx.length}:{dig w.tx} idx=[{natList w.shareIndexes}]")
      | .error e => (st, resStr (fun _ => "") (.error e : Res Unit))
    | _, _ => (st, "bad-op")
  | ["b", "info"] =>
    match st.b with
    | some b => (st, s!"size={b.currentSize} txs={b.txs.length} pfbs={b.pfbs.length} empty={b2s b.isEmpty}")
    | none => (st, "bad-op")
  -- square
  | ["sq", "build", mx, thr, txs] =>
    match mx.toNat?, thr.toNat?, unhexList txs with
    | some mx, some thr, some txs =>
      match build unmarshalBlobTx txs mx thr with
      | .ok (sq, kept) => ({ st with R := sq }, s!"ok {digList sq} kept={digList kept}")
      | .error e => (st, resStr (fun _ => "") (.error e : Res Unit))
    | _, _, _ => (st, "bad-op")
  | ["sq", "construct", mx, thr, txs] =>
    match mx.toNat?, thr.toNat?, unhexList txs with
    | some mx, some thr, some txs =>
      match construct unmarshalBlobTx txs mx thr with
      | .ok sq => ({ st with R := sq }, s!"ok {digList sq}")
      | .error e => (st, resStr (fun _ => "") (.error e : Res Unit))
    | _, _, _ => (st, "bad-op")
  | ["sq", "spec", mx, thr, txs] =>
    match mx.toNat?, thr.toNat?, unhexList txs with
    | some mx, some thr, some txs =>
      match Spec.construct unmarshalBlobTx txs mx thr with
      | some sq => ({ st with R := sq }, s!"ok {digList sq}")
      | none => (st, "err")
    | _, _, _ => (st, "bad-op")
  | ["sq", "specbuild", mx, thr, txs] =>
    match mx.toNat?, thr.toNat?, unhexList txs with
    | some mx, some thr, some txs =>
      match Spec.build unmarshalBlobTx txs mx thr with
      | some (sq, kept) => ({ st with R := sq }, s!"ok {digList sq} kept={digList kept}")
      | none => (st, "err")
    | _, _, _ => (st, "bad-op")
  | ["sq", "txrange", mx, thr, i, txs] =>
    match mx.toNat?, thr.toNat?, i.toInt?, unhexList txs with
    | some mx, some thr, some i, some txs =>
      (st, resStr (fun r => s!"{r.1}-{r.2}") (txShareRange unmarshalBlobTx txs i mx thr))
    | _, _, _, _ => (st, "bad-op")
  | ["sq", "blobrange", mx, thr, i, j, txs] =>
    match mx.toNat?, thr.toNat?, i.toInt?, j.toInt?, unhexList txs with
    | some mx, some thr, some i, some j, some txs =>
      (st, resStr (fun r => s!"{r.1}-{r.2}") (blobShareRange unmarshalBlobTx txs i j mx thr))
    | _, _, _, _, _ => (st, "bad-op")
  | ["spec", "compact", ns, txs] =>
    match unhex ns, unhexList txs with
    | some ns, some txs => let l := Spec.compactSeq ns txs; ({ st with R := l }, "ok " ++ digList l)
    | _, _ => (st, "bad-op")
  | ["spec", "sparse", spec] =>
    match parseBlobSpec spec with
    | some (ns, ver, signer, data) =>
      let l := Spec.sparseSeq { ns, data, ver, signer }
      ({ st with R := l }, "ok " ++ digList l)
    | none => (st, "bad-op")
  | ["commit", "roots", spec, thr] =>
    match parseBlobSpec spec, thr.toNat? with
    | some (ns, ver, signer, data), some thr =>
      (st, resStr (fun l => ",".intercalate (l.map hex)) (generateSubtreeRoots { ns, data, ver, signer } thr))
    | _, _ => (st, "bad-op")
  | _ => (st, "bad-op")

partial def loop (hin hout : IO.FS.Stream) (st : St) : IO Unit := do
  let line ← hin.getLine
  if line.isEmpty then return ()
  let (st', out) := step st line
  hout.putStrLn out
  hout.flush
  loop hin hout st'

end Driver

def main : IO Unit := do
  let hin ← IO.getStdin
  let hout ← IO.getStdout
  Driver.loop hin hout {}
