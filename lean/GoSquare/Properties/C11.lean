import GoSquare.Proofs.CompactSub
import GoSquare.Properties.C09
/-! # C11 — compact shares parse correctly out of context

For every list of non-empty transactions, both compact namespaces, and EVERY contiguous sub-range
`[lo, hi)` of the specified (= exported, C09 `writer_eq_spec`) share sequence, `ParseTxs` of the
sub-range returns exactly the transactions that begin inside the range and are complete within
it, in order — including ranges that begin in a share lying wholly inside one long transaction
(reserved bytes 0: the share is skipped, F3) and ranges that end inside a length delimiter (F7). -/
namespace GoSquare.C11
open GoSquare Spec

/-- the transactions of `us` (the first one starting at stream offset `pos`) that begin at or
    after `A` and end at or before `B`: the property's right-hand side, as a plain filter -/
def within (A B : Nat) : Nat → List Bytes → List Bytes
  | _, [] => []
  | pos, u :: us =>
    if A ≤ pos ∧ pos + uvarintLen u.length + u.length ≤ B then u :: within A B (pos + uvarintLen u.length + u.length) us
    else within A B (pos + uvarintLen u.length + u.length) us

/-- the same set, computed the way the reader finds it: skip the units beginning before `A`,
    then take complete units while they fit -/
def sub (A B : Nat) : Nat → List Bytes → List Bytes
  | _, [] => []
  | pos, u :: us =>
    if pos < A then sub A B (pos + uvarintLen u.length + u.length) us else prefixFit (B - pos) (u :: us)

theorem within_nil_of_lt (A B : Nat) : ∀ (us : List Bytes) (pos : Nat), B < pos → within A B pos us = []
  | [], _, _ => rfl
  | u :: us, pos, h => by
    rw [within, if_neg (by omega)]
    exact within_nil_of_lt A B us _ (by omega)

theorem within_eq_prefixFit (A B : Nat) : ∀ (us : List Bytes) (pos : Nat), A ≤ pos →
    within A B pos us = prefixFit (B - pos) us
  | [], _, _ => rfl
  | u :: us, pos, h => by
    have := uvarintLen_pos u.length
    rw [within, prefixFit]
    by_cases hfit : pos + uvarintLen u.length + u.length ≤ B
    · rw [if_pos ⟨h, hfit⟩, if_pos (by omega), within_eq_prefixFit A B us _ (by omega)]
      congr 2; omega
    · rw [if_neg (fun hc => hfit hc.2), if_neg (by omega)]
      exact within_nil_of_lt A B us _ (by omega)

theorem sub_eq_within (A B : Nat) : ∀ (us : List Bytes) (pos : Nat), sub A B pos us = within A B pos us
  | [], _ => rfl
  | u :: us, pos => by
    rw [sub]
    by_cases h : pos < A
    · rw [if_pos h, within, if_neg (by omega)]
      exact sub_eq_within A B us _
    · rw [if_neg h, within_eq_prefixFit A B (u :: us) pos (by omega)]

/-- the reader never invents a transaction: the selected ones are a sublist of what was written -/
theorem within_sublist (A B : Nat) : ∀ (us : List Bytes) (pos : Nat), (within A B pos us).Sublist us
  | [], _ => List.Sublist.refl _
  | u :: us, pos => by
    rw [within]
    split
    · exact List.Sublist.cons₂ u (within_sublist A B us _)
    · exact List.Sublist.cons u (within_sublist A B us _)

/-- peeling the collected bytes -/
theorem peel_sub (A B : Nat) : ∀ (us : List Bytes) (pos z fuel : Nat) (R : Bytes),
    (∀ u ∈ us, u ≠ [] ∧ u.length < 2 ^ 63) →
    R = (match (unitStarts pos us).find? (fun s => decide (A ≤ s)) with
      | some s => ((unitStream us ++ zeros z).drop (s - pos)).take (B - s)
      | none => []) →
    R.length + 1 ≤ fuel → parseRawData fuel R [] = .ok (sub A B pos us)
  | [], pos, z, fuel, R, _, hR, hf => by
    simp only [unitStarts, List.find?_nil] at hR
    subst hR
    cases fuel with
    | zero => simp at hf
    | succ n => simp [parseRawData, parseDelimiter, sub, bind, Except.bind]
  | u :: us, pos, z, fuel, R, hu, hR, hf => by
    rw [sub]
    simp only [unitStarts, List.find?_cons] at hR
    by_cases h : pos < A
    · have hd : decide (A ≤ pos) = false := by simp; omega
      rw [if_pos h]
      rw [hd] at hR
      simp only at hR
      apply peel_sub A B us (pos + uvarintLen u.length + u.length) z fuel R (fun x hx => hu x (by simp [hx])) ?_ hf
      rw [hR]
      cases hfd : (unitStarts (pos + uvarintLen u.length + u.length) us).find? (fun s => decide (A ≤ s)) with
      | none => rfl
      | some s =>
        have hmem := List.mem_of_find?_eq_some hfd
        have hge := (unitStarts_sorted us (pos + uvarintLen u.length + u.length)).2 s hmem
        simp only
        have hst : unitStream (u :: us) ++ zeros z = (uvarint u.length ++ u) ++ (unitStream us ++ zeros z) := by
          simp [unitStream, List.append_assoc]
        have hl : (uvarint u.length ++ u).length = uvarintLen u.length + u.length := by simp [uvarint_length]
        have e : s - pos = (uvarintLen u.length + u.length) + (s - (pos + uvarintLen u.length + u.length)) := by omega
        rw [hst, e, ← List.drop_drop, List.drop_left' hl]
    · have hd : decide (A ≤ pos) = true := by simp; omega
      rw [if_neg h]
      rw [hd] at hR
      simp only [Nat.sub_self, List.drop_zero] at hR
      subst hR
      simpa using parseRawData_truncated (u :: us) z (B - pos) fuel [] hu hf

/-- **C11.** Parsing any contiguous sub-range `[lo, hi)` of the specified compact sequence returns
    exactly the transactions that begin at or after the first payload byte of share `lo` and end
    at or before the last payload byte of share `hi - 1`, in order. -/
theorem parse_subrange (ns : Bytes) (hc : CompactNs ns) (units : List Bytes) (hne : units ≠ [])
    (hu : C09.NonEmptyUnits units) (hlt : (unitStream units).length < 4294967296)
    (lo hi : Nat) (hlo : lo < hi) (hhi : hi ≤ (Spec.compactSeq ns units).length) :
    parseTxs (((Spec.compactSeq ns units).drop lo).take (hi - lo)) =
      .ok (within (compactOff lo) (compactOff hi) 0 units) := by
  have hpos : 0 < (unitStream units).length := by
    cases units with
    | nil => exact absurd rfl hne
    | cons u us =>
      have := uvarintLen_pos u.length
      simp [unitStream, uvarint_length]; omega
  rw [compactSeq_eq] at hhi ⊢
  simp only [List.length_map, List.length_range] at hhi
  generalize hD : unitStream units = D at *
  generalize hS : unitStarts 0 units = S
  generalize hn : compactCount D.length = n at *
  obtain ⟨hb1, hb2⟩ := C09.compactCount_bounds D.length hpos
  rw [hn] at hb1 hb2
  have hsorted : S.Pairwise (· < ·) := by rw [← hS]; exact (unitStarts_sorted units 0).1
  -- the sub-range as a map over consecutive indexes
  have hsub : (((List.range n).map (specShare ns D S)).drop lo).take (hi - lo) =
      (List.range' lo (hi - lo)).map (specShare ns D S) := by
    rw [← List.map_drop, ← List.map_take, List.range_eq_range', List.drop_range', List.take_range'_of_length_ge (by omega)]
    simp
  rw [hsub]
  obtain ⟨m, hm⟩ : ∃ m, hi - lo = m + 1 := ⟨hi - lo - 1, by omega⟩
  have hex := extract_sub ns hc D S hsorted n hb1 hb2 (hi - lo) lo (by omega)
  have hlohi : lo + (hi - lo) = hi := by omega
  rw [hlohi] at hex
  unfold parseTxs parseCompactShares
  have h1 : ((List.range' lo (hi - lo)).map (specShare ns D S)).isEmpty = false := by
    rw [hm, List.range'_succ]; rfl
  have h2 : ((List.range' lo (hi - lo)).map (specShare ns D S)).any (fun s => decide (Share.version s ≠ 0)) = false := by
    rw [List.any_eq_false]; intro s hs
    obtain ⟨j, _, rfl⟩ := List.mem_map.mp hs
    simp [(spec_share_accessors ns hc D S j).1]
  simp only [h1, Bool.false_eq_true, if_false, h2, hex, res_bind_ok]
  rw [← sub_eq_within]
  apply peel_sub (compactOff lo) (compactOff hi) units 0 (compactOff n - D.length) _ _ hu ?_ (Nat.le_refl _)
  rw [hS, hD]
  cases S.find? (fun s => decide (compactOff lo ≤ s)) with
  | none => rfl
  | some s => simp only [padded, Nat.sub_zero]

/-- **C11 (nothing fabricated).** Whatever the sub-range, only written transactions come back, in
    their original order. -/
theorem parse_subrange_sublist (ns : Bytes) (hc : CompactNs ns) (units : List Bytes) (hne : units ≠ [])
    (hu : C09.NonEmptyUnits units) (hlt : (unitStream units).length < 4294967296)
    (lo hi : Nat) (hlo : lo < hi) (hhi : hi ≤ (Spec.compactSeq ns units).length) :
    ∃ r, parseTxs (((Spec.compactSeq ns units).drop lo).take (hi - lo)) = .ok r ∧ r.Sublist units :=
  ⟨_, parse_subrange ns hc units hne hu hlt lo hi hlo hhi, within_sublist _ _ units 0⟩

/-- **C11 on the model of the code.** The shares the splitter exports are the specified ones
    (C09), so the statement holds for sub-ranges of `Export()`. -/
theorem parse_subrange_of_export (ns : Bytes) (hc : CompactNs ns) (units : List Bytes) (hne : units ≠ [])
    (hu : C09.NonEmptyUnits units) (hlt : (unitStream units).length < 4294967296)
    (lo hi : Nat) (hlo : lo < hi) :
    ∃ c0 c shares, CompactSplitter.new ns 0 = .ok c0 ∧ units.foldlM (fun w t => w.writeTx t) c0 = .ok c ∧
      c.exportShares.map (·.2) = .ok shares ∧
      (hi ≤ shares.length → parseTxs ((shares.drop lo).take (hi - lo)) =
        .ok (within (compactOff lo) (compactOff hi) 0 units)) := by
  obtain ⟨c0, c, h0, h1, h2, _⟩ := C09.writer_eq_spec ns hc units hlt
  exact ⟨c0, c, _, h0, h1, h2, fun hhi => parse_subrange ns hc units hne hu hlt lo hi hlo hhi⟩

/-- the full range gives every transaction back (consistency with C09) -/
example : within 0 1000 0 [[1, 2, 3], [4, 5]] = [[1, 2, 3], [4, 5]] := by decide +kernel
/-- a range starting after the first unit's start drops it; one ending inside the second drops that -/
example : within 1 1000 0 [[1, 2, 3], [4, 5]] = [[4, 5]] := by decide +kernel
example : within 0 6 0 [[1, 2, 3], [4, 5]] = [[1, 2, 3]] := by decide +kernel

end GoSquare.C11

namespace GoSquare.C11
/-- non-vacuity on real bytes: a 600-byte transaction then a 2-byte one; share 1 alone begins
    inside the first transaction and yields exactly the second -/
example : (match parseTxs (((Spec.compactSeq txNamespace [List.replicate 600 7, [1, 2]]).drop 1).take 1) with
    | .ok r => r == [[1, 2]] | .error _ => false) = true := by
  decide +kernel
example : (match parseTxs (((Spec.compactSeq txNamespace [List.replicate 600 7, [1, 2]]).drop 0).take 1) with
    | .ok r => r == [] | .error _ => false) = true := by
  decide +kernel
end GoSquare.C11
