import GoSquare.Proofs.Proto
import GoSquare.Proofs.SparseParse
/-! # C19 — blob, transaction-wrapper serialisations round-trip; blob acceptance

protobuf-go's wire codec is modelled (Model/Proto.lean: deterministic encoder, total decoder);
these theorems are about that model, which the PROTO correspondence stream compares with the
real library byte-for-byte on valid and malformed inputs. JSON is not modelled (see evidence). -/
namespace GoSquare.C19
open GoSquare GoSquare.Proto

theorem eq_nil_of_length_zero {v : Bytes} (h : v.length = 0) : v = [] := List.eq_nil_of_length_eq_zero h

/-! ### BlobProto -/

def blobFields (p : BlobProto) : List (Nat × Val) :=
  optBytes 1 p.namespaceId ++ optBytes 2 p.data ++ optVarint 3 p.shareVersion ++ optVarint 4 p.namespaceVersion ++
    optBytes 5 p.signer

theorem blob_marshal_eq (p : BlobProto) : p.marshal = ((blobFields p).map encField).flatten := by
  simp only [BlobProto.marshal, blobFields, encBytesField_eq, encVarintField_eq, List.map_append, List.flatten_append]

/-- sizes a Go program can hold -/
structure SmallBlob (p : BlobProto) : Prop where
  ns : p.namespaceId.length < 2 ^ 63
  data : p.data.length < 2 ^ 63
  signer : p.signer.length < 2 ^ 63
  sv : p.shareVersion < 4294967296
  nv : p.namespaceVersion < 4294967296

theorem optBytes_ok (num : Nat) (v : Bytes) (h1 : 1 ≤ num) (h2 : num ≤ 536870911) (h3 : v.length < 2 ^ 63) :
    ∀ f ∈ optBytes num v, FieldOk f := by
  intro f hf; unfold optBytes at hf; split at hf
  · simp at hf
  · simp at hf; subst hf; exact ⟨h1, h2, h3⟩
theorem optVarint_ok (num v : Nat) (h1 : 1 ≤ num) (h2 : num ≤ 536870911) (h3 : v < 2 ^ 63) :
    ∀ f ∈ optVarint num v, FieldOk f := by
  intro f hf; unfold optVarint at hf; split at hf
  · simp at hf
  · simp at hf; subst hf; exact ⟨h1, h2, h3⟩

theorem blobFields_ok (p : BlobProto) (hs : SmallBlob p) : ∀ f ∈ blobFields p, FieldOk f := by
  intro f hf
  have b32 : (4294967296 : Nat) ≤ 2 ^ 63 := by decide
  simp only [blobFields, List.mem_append] at hf
  rcases hf with (((hf | hf) | hf) | hf) | hf
  · exact optBytes_ok 1 _ (by omega) (by omega) hs.ns f hf
  · exact optBytes_ok 2 _ (by omega) (by omega) hs.data f hf
  · exact optVarint_ok 3 _ (by omega) (by omega) (by have := hs.sv; omega) f hf
  · exact optVarint_ok 4 _ (by omega) (by omega) (by have := hs.nv; omega) f hf
  · exact optBytes_ok 5 _ (by omega) (by omega) hs.signer f hf

/-- **C19 (BlobProto wire round trip).** -/
theorem blobProto_roundtrip (p : BlobProto) (hs : SmallBlob p) : BlobProto.unmarshal p.marshal = some p := by
  unfold BlobProto.unmarshal
  rw [blob_marshal_eq, parseFields_enc _ (blobFields_ok p hs)]
  simp only [blobFields, List.foldlM_append]
  have u1 : u32v p.shareVersion = p.shareVersion := Nat.mod_eq_of_lt hs.sv
  have u2 : u32v p.namespaceVersion = p.namespaceVersion := Nat.mod_eq_of_lt hs.nv
  obtain ⟨a, b, c, d, e⟩ := p
  simp only [optBytes, optVarint] at *
  by_cases ha : a.length = 0 <;> by_cases hb : b.length = 0 <;> by_cases hc : c = 0 <;> by_cases hd : d = 0 <;>
    by_cases he : e.length = 0 <;>
    simp [ha, hb, hc, hd, he, BlobProto.applyField, u1, u2, List.foldlM_cons, List.foldlM_nil, bind, pure] <;>
    simp_all [eq_nil_of_length_zero]

/-! ### IndexWrapper -/

theorem packedU32_roundtrip : ∀ (idx : List Nat) (fuel : Nat), (∀ v ∈ idx, v < 4294967296) →
    ((idx.map uvarint).flatten).length + 1 ≤ fuel →
    packedU32 fuel ((idx.map uvarint).flatten) = some idx
  | [], fuel, _, h => by
    cases fuel with
    | zero => simp at h
    | succ n => simp [packedU32]
  | v :: vs, fuel, hv, h => by
    cases fuel with
    | zero => simp at h
    | succ n =>
      have hlt := hv v (by simp)
      have b32 : (4294967296 : Nat) ≤ 2 ^ 63 := by decide
      simp only [List.map_cons, List.flatten_cons, List.length_append, uvarint_length] at h ⊢
      have hpos := uvarintLen_pos v
      rw [packedU32]
      have hne : ¬ (uvarint v ++ (vs.map uvarint).flatten).length = 0 := by
        intro h0; rw [List.length_append, uvarint_length] at h0; omega
      simp only [hne, if_false]
      rw [consumeVarint_uvarint v (by omega)]
      simp only
      rw [packedU32_roundtrip vs n (fun x hx => hv x (by simp [hx])) (by omega)]
      simp [u32v, Nat.mod_eq_of_lt hlt]

def iwFields (w : IndexWrapper) : List (Nat × Val) :=
  optBytes 1 w.tx ++ (if w.shareIndexes.length = 0 then [] else [(2, .bytes (w.shareIndexes.map uvarint).flatten)]) ++
    optBytes 3 w.typeId

theorem iw_marshal_eq (w : IndexWrapper) : w.marshal = ((iwFields w).map encField).flatten := by
  simp only [IndexWrapper.marshal, iwFields, encBytesField_eq, List.map_append, List.flatten_append]
  split <;> simp [encField, tagBytes]

structure SmallIW (w : IndexWrapper) : Prop where
  tx : w.tx.length < 2 ^ 63
  idx : ∀ v ∈ w.shareIndexes, v < 4294967296
  packed : ((w.shareIndexes.map uvarint).flatten).length < 2 ^ 63
  typeLen : w.typeId.length < 2 ^ 63
  typeUtf8 : utf8Valid w.typeId = true

theorem iwFields_ok (w : IndexWrapper) (hs : SmallIW w) : ∀ f ∈ iwFields w, FieldOk f := by
  intro f hf
  simp only [iwFields, List.mem_append] at hf
  rcases hf with (hf | hf) | hf
  · exact optBytes_ok 1 _ (by omega) (by omega) hs.tx f hf
  · split at hf
    · simp at hf
    · simp at hf; subst hf; exact ⟨by omega, by omega, hs.packed⟩
  · exact optBytes_ok 3 _ (by omega) (by omega) hs.typeLen f hf

/-- **C19 (IndexWrapper wire round trip).** -/
theorem indexWrapper_roundtrip (w : IndexWrapper) (hs : SmallIW w) : IndexWrapper.unmarshal w.marshal = some w := by
  unfold IndexWrapper.unmarshal
  rw [iw_marshal_eq, parseFields_enc _ (iwFields_ok w hs)]
  simp only [iwFields, List.foldlM_append]
  have hp := packedU32_roundtrip w.shareIndexes _ hs.idx (Nat.le_refl _)
  have hu := hs.typeUtf8
  obtain ⟨a, b, c⟩ := w
  simp only [optBytes] at *
  by_cases ha : a.length = 0 <;> by_cases hb : b.length = 0 <;> by_cases hc : c.length = 0 <;>
    simp [ha, hb, hc, IndexWrapper.applyField, hp, hu, List.foldlM_cons, List.foldlM_nil, bind, pure] <;>
    simp_all [eq_nil_of_length_zero, List.eq_nil_of_length_eq_zero]

/-- **C19 (index wrapper round trip through the go-square API).** -/
theorem unmarshalIndexWrapper_marshal (tx : Bytes) (idx : List Nat) (h1 : tx.length < 2 ^ 63)
    (h2 : ∀ v ∈ idx, v < 4294967296) (h3 : ((idx.map uvarint).flatten).length < 2 ^ 63) :
    unmarshalIndexWrapper (marshalIndexWrapper tx idx) = some (newIndexWrapper tx idx) := by
  unfold unmarshalIndexWrapper marshalIndexWrapper
  rw [indexWrapper_roundtrip _ ⟨h1, h2, h3, (by show indexWrapperTypeId.length < 2 ^ 63; decide), (by show utf8Valid indexWrapperTypeId = true; decide)⟩]
  simp [newIndexWrapper]

/-! ### BlobTx -/

def btxFields (p : BlobTxProto) : List (Nat × Val) :=
  optBytes 1 p.tx ++ p.blobs.map (fun b => (2, Val.bytes b.marshal)) ++ optBytes 3 p.typeId

theorem btx_marshal_eq (p : BlobTxProto) : p.marshal = ((btxFields p).map encField).flatten := by
  simp only [BlobTxProto.marshal, btxFields, encBytesField_eq, List.map_append, List.flatten_append, List.map_map]
  congr 2

structure SmallBTx (p : BlobTxProto) : Prop where
  tx : p.tx.length < 2 ^ 63
  blobs : ∀ b ∈ p.blobs, SmallBlob b ∧ b.marshal.length < 2 ^ 63
  typeLen : p.typeId.length < 2 ^ 63
  typeUtf8 : utf8Valid p.typeId = true

theorem btxFields_ok (p : BlobTxProto) (hs : SmallBTx p) : ∀ f ∈ btxFields p, FieldOk f := by
  intro f hf
  simp only [btxFields, List.mem_append, List.mem_map] at hf
  rcases hf with (hf | ⟨b, hb, rfl⟩) | hf
  · exact optBytes_ok 1 _ (by omega) (by omega) hs.tx f hf
  · exact ⟨by omega, by omega, (hs.blobs b hb).2⟩
  · exact optBytes_ok 3 _ (by omega) (by omega) hs.typeLen f hf

theorem foldl_blobs : ∀ (bs : List BlobProto) (p : BlobTxProto), (∀ b ∈ bs, SmallBlob b) →
    (bs.map (fun b => (2, Val.bytes b.marshal))).foldlM BlobTxProto.applyField p = some { p with blobs := p.blobs ++ bs }
  | [], p, _ => by simp
  | b :: bs, p, h => by
    simp only [List.map_cons, List.foldlM_cons, BlobTxProto.applyField, blobProto_roundtrip b (h b (by simp)),
      Option.map_some, bind, Option.bind]
    rw [foldl_blobs bs _ (fun x hx => h x (by simp [hx]))]
    simp [List.append_assoc]

/-- **C19 (BlobTx wire round trip).** -/
theorem blobTxProto_roundtrip (p : BlobTxProto) (hs : SmallBTx p) : BlobTxProto.unmarshal p.marshal = some p := by
  unfold BlobTxProto.unmarshal
  rw [btx_marshal_eq, parseFields_enc _ (btxFields_ok p hs)]
  simp only [btxFields, List.foldlM_append]
  have hu := hs.typeUtf8
  have hb := fun q => foldl_blobs p.blobs q (fun b hb => (hs.blobs b hb).1)
  obtain ⟨a, b, c⟩ := p
  simp only [optBytes] at *
  by_cases ha : a.length = 0 <;> by_cases hc : c.length = 0 <;>
    simp [ha, hc, BlobTxProto.applyField, hb, hu, List.foldlM_cons, List.foldlM_nil, bind, pure] <;>
    simp_all [eq_nil_of_length_zero]

/-! ### blob acceptance -/

/-- **C19 (blob construction accepts exactly ...).** Non-empty data, non-empty version-0
    namespace, share version 0 without signer (Go: nil) or share version 1 with a 20-byte signer. -/
theorem newBlob_accepts_iff (ns data : Bytes) (ver : Nat) (signer : Option Bytes) :
    (Blob.new ns data ver signer).isSome = true ↔
      data ≠ [] ∧ ns ≠ [] ∧ Ns.version ns = 0 ∧
      ((ver = 0 ∧ signer = none) ∨ (ver = 1 ∧ ∃ s, signer = some s ∧ s.length = 20)) := by
  unfold Blob.new
  by_cases hd : data.length = 0
  · have : data = [] := eq_nil_of_length_zero hd
    simp [hd, this]
  · have hdn : data ≠ [] := fun e => hd (by simp [e])
    by_cases hn : ns.length = 0
    · have : ns = [] := eq_nil_of_length_zero hn
      simp [hd, hn, this]
    · have hnn : ns ≠ [] := fun e => hn (by simp [e])
      by_cases hv : Ns.version ns = 0
      · by_cases h0 : ver = 0
        · subst h0
          cases signer <;> simp [hd, hn, hv, hdn, hnn]
        · by_cases h1 : ver = 1
          · subst h1
            cases signer with
            | none => simp [hd, hn, hv, hdn, hnn]
            | some s => by_cases hl : s.length = 20 <;> simp [hd, hn, hv, hdn, hnn, hl]
          · simp [hd, hn, hv, hdn, hnn, h0, h1]
      · simp [hd, hn, hv, hdn, hnn]

/-- the same predicate through protobuf: additionally share version ≤ 127, namespace version ≤ 255
    and a well-formed (version, id) pair; an empty `signer` field is "no signer" -/
theorem blobFromProto_accepts_iff (pb : BlobProto) :
    (Blob.fromProto pb).isSome = true ↔
      pb.namespaceVersion ≤ 255 ∧ pb.shareVersion ≤ 127 ∧
      ∃ ns, Ns.new pb.namespaceVersion.toUInt8 pb.namespaceId = some ns ∧
        (Blob.new ns pb.data pb.shareVersion (if pb.signer.length = 0 then none else some pb.signer)).isSome = true := by
  unfold Blob.fromProto
  by_cases h1 : pb.namespaceVersion > 255
  · simp [h1]; omega
  · by_cases h2 : pb.shareVersion > 127
    · simp [h1, h2]; omega
    · simp only [h1, h2, if_false]
      cases Ns.new pb.namespaceVersion.toUInt8 pb.namespaceId with
      | none => simp
      | some ns =>
        constructor
        · intro h; exact ⟨by omega, by omega, ns, rfl, h⟩
        · intro ⟨_, _, ns', he, h⟩; cases he; exact h

/-! ### no confusion between the two wrappers -/

/-- **C19 (a blob transaction is never recognised as an index wrapper).** -/
theorem blobTx_is_not_indexWrapper (tx : Bytes) (blobs : List Blob) (bytes : Bytes)
    (hm : marshalBlobTx tx blobs = some bytes)
    (hs : SmallBTx { tx, blobs := blobs.map Blob.toProto, typeId := blobTxTypeId }) :
    unmarshalIndexWrapper bytes = none := by
  unfold marshalBlobTx at hm
  split at hm
  · cases hm
  · split at hm
    · cases hm
    · simp only [Option.some.injEq] at hm
      subst hm
      unfold unmarshalIndexWrapper IndexWrapper.unmarshal
      rw [btx_marshal_eq, parseFields_enc _ (btxFields_ok _ hs)]
      simp only [btxFields, List.foldlM_append, optBytes]
      -- whatever the first fields do, the last one sets type_id to "BLOB"
      have key : ∀ (o : Option IndexWrapper),
          (o.bind (fun x => [(3, Val.bytes blobTxTypeId)].foldlM IndexWrapper.applyField x)) = none ∨
          ∃ w, (o.bind (fun x => [(3, Val.bytes blobTxTypeId)].foldlM IndexWrapper.applyField x)) = some w ∧
            w.typeId = blobTxTypeId := by
        intro o
        cases o with
        | none => exact Or.inl rfl
        | some x =>
          right
          refine ⟨{ x with typeId := blobTxTypeId }, ?_, rfl⟩
          simp [List.foldlM_cons, IndexWrapper.applyField, show utf8Valid blobTxTypeId = true by decide, bind, pure]
      have hlen : ¬ blobTxTypeId.length = 0 := by decide
      simp only [hlen, if_false, bind] at key ⊢
      rcases key _ with h | ⟨w, h, ht⟩
      · rw [h]
      · rw [h]
        have : w.typeId ≠ indexWrapperTypeId := by rw [ht]; decide
        simp [this]

/-- **C19 (an index wrapper is never recognised as a blob transaction).** -/
theorem indexWrapper_is_not_blobTx (tx : Bytes) (idx : List Nat) (h1 : tx.length < 2 ^ 63)
    (h2 : ∀ v ∈ idx, v < 4294967296) (h3 : ((idx.map uvarint).flatten).length < 2 ^ 63) :
    unmarshalBlobTx (marshalIndexWrapper tx idx) = .normal := by
  unfold unmarshalBlobTx marshalIndexWrapper BlobTxProto.unmarshal
  have hs : SmallIW (newIndexWrapper tx idx) :=
    ⟨h1, h2, h3, (by show indexWrapperTypeId.length < 2 ^ 63; decide), (by show utf8Valid indexWrapperTypeId = true; decide)⟩
  rw [iw_marshal_eq, parseFields_enc _ (iwFields_ok _ hs)]
  simp only [iwFields, List.foldlM_append, optBytes, newIndexWrapper]
  have key : ∀ (o : Option BlobTxProto),
      (o.bind (fun x => [(3, Val.bytes indexWrapperTypeId)].foldlM BlobTxProto.applyField x)) = none ∨
      ∃ w, (o.bind (fun x => [(3, Val.bytes indexWrapperTypeId)].foldlM BlobTxProto.applyField x)) = some w ∧
        w.typeId = indexWrapperTypeId := by
    intro o
    cases o with
    | none => exact Or.inl rfl
    | some x =>
      right
      refine ⟨{ x with typeId := indexWrapperTypeId }, ?_, rfl⟩
      simp [List.foldlM_cons, BlobTxProto.applyField, show utf8Valid indexWrapperTypeId = true by decide, bind, pure]
  have hlen : ¬ indexWrapperTypeId.length = 0 := by decide
  simp only [hlen, if_false, bind] at key ⊢
  rcases key _ with h | ⟨w, h, ht⟩
  · rw [h]
  · rw [h]
    have : w.typeId ≠ blobTxTypeId := by rw [ht]; decide
    simp [this]

/-! ### API level: blobs and blob transactions -/

/-- a blob as the protobuf route can carry it: valid (C08) in a well-formed namespace -/
structure ProtoBlob (b : Blob) : Prop where
  valid : b.BlobValid
  nsValid : Ns.validate b.ns = true

theorem fromProto_toProto (b : Blob) (hb : ProtoBlob b) : Blob.fromProto (Blob.toProto b) = some b := by
  obtain ⟨⟨⟨hns, hnc, hver, hsig, hd1, hd2⟩, hnt, hnr, hnv⟩, hval⟩ := hb
  obtain ⟨bns, bdata, bver, bsigner⟩ := b
  simp only at *
  cases bns with
  | nil => simp at hns
  | cons h t =>
    have hh : h.toNat.toUInt8 = h := by simp
    have h255 : ¬ h.toNat > 255 := by have := h.toNat_lt; omega
    have hv127 : ¬ bver > 127 := by omega
    have hnew : Ns.new h t = some (h :: t) := by simp [Ns.new, hval]
    simp only [Blob.fromProto, Blob.toProto, Ns.version, Ns.id, List.headD_cons, List.drop_succ_cons, List.drop_zero,
      h255, hv127, if_false, hh, hnew]
    have hd0 : ¬ bdata.length = 0 := by omega
    have hv0 : (h :: t : Bytes).headD 0 = h := rfl
    have hnv' : h.toNat = 0 := by simpa [Ns.version] using hnv
    rcases hver with h0 | h1
    · have hs := hsig.1 h0
      subst h0; subst hs
      simp [Blob.new, hd0, Ns.version, hnv']
    · obtain ⟨sg, hs, hl⟩ := hsig.2 h1
      subst h1; subst hs
      have : ¬ sg.length = 0 := by omega
      simp [Blob.new, hd0, Ns.version, hnv', hl, this]

/-- **C19 (blob protobuf round trip).** -/
theorem blob_roundtrip (b : Blob) (hb : ProtoBlob b) (hs : SmallBlob b.toProto) : Blob.unmarshal b.marshal = some b := by
  unfold Blob.unmarshal Blob.marshal
  rw [blobProto_roundtrip _ hs]
  exact fromProto_toProto b hb

theorem mapM_fromProto : ∀ (blobs : List Blob), (∀ b ∈ blobs, ProtoBlob b) →
    (blobs.map Blob.toProto).mapM Blob.fromProto = some blobs
  | [], _ => rfl
  | b :: bs, h => by
    rw [List.map_cons, List.mapM_cons, fromProto_toProto b (h b (by simp)),
      mapM_fromProto bs (fun x hx => h x (by simp [hx]))]
    rfl

/-- **C19 (blob transaction round trip).** `UnmarshalBlobTx(MarshalBlobTx(tx, blobs…))` returns
    the same inner transaction and equal blobs, and reports "is a blob tx". -/
theorem unmarshalBlobTx_marshal (tx : Bytes) (blobs : List Blob) (hne : blobs ≠ [])
    (hb : ∀ b ∈ blobs, ProtoBlob b)
    (hs : SmallBTx { tx, blobs := blobs.map Blob.toProto, typeId := blobTxTypeId }) :
    ∃ bytes, marshalBlobTx tx blobs = some bytes ∧ unmarshalBlobTx bytes = .blobTx { tx, blobs } := by
  have hlen : ¬ blobs.length = 0 := fun e => hne (List.eq_nil_of_length_eq_zero e)
  have hdata : blobs.any (fun b => decide (b.data.length = 0)) = false := by
    rw [List.any_eq_false]
    intro b hbm
    have := (hb b hbm).valid.valid.dataPos
    have h0 : ¬ b.data.length = 0 := by omega
    simp [h0]
  have hm : marshalBlobTx tx blobs =
      some ({ tx, blobs := blobs.map Blob.toProto, typeId := blobTxTypeId } : BlobTxProto).marshal := by
    unfold marshalBlobTx
    rw [if_neg hlen, hdata]
    simp
  refine ⟨_, hm, ?_⟩
  unfold unmarshalBlobTx
  rw [blobTxProto_roundtrip _ hs]
  have h2 : ¬ (blobs.map Blob.toProto).length = 0 := by simpa using hlen
  simp only [ne_eq, not_true_eq_false, if_false, h2, mapM_fromProto blobs hb]

/-- non-vacuity -/
example : unmarshalIndexWrapper (marshalIndexWrapper [1, 2, 3] [16384, 7]) = some (newIndexWrapper [1, 2, 3] [16384, 7]) :=
  unmarshalIndexWrapper_marshal _ _ (by decide) (by decide) (by simp [uvarint])

end GoSquare.C19
