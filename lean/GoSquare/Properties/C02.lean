import GoSquare.Proofs.DeconstructSquare
import GoSquare.Proofs.DeconstructParts
import GoSquare.Properties.C03
import GoSquare.Proofs.C07Core
/-! # C02 — constructing then deconstructing a square returns the original transactions

For every ordered list of non-empty ordinary transactions followed by canonically encoded blob
transactions (blob-valid user namespaces, share versions 0 and 1, any number of blobs of any size)
that `Construct` accepts: `Deconstruct (Construct txs) = txs`, byte for byte, in order. The empty
list maps to the one-share tail-padding square and back to the empty list. -/
namespace GoSquare.C02
open GoSquare Builder Spec

theorem unit_le_stream : ∀ (units : List Bytes) (u : Bytes), u ∈ units → u.length ≤ (unitStream units).length
  | [], _, h => by cases h
  | x :: xs, u, h => by
    simp only [unitStream, List.map_cons, List.flatten_cons, List.length_append] at *
    rcases List.mem_cons.mp h with rfl | h
    · omega
    · have := unit_le_stream xs u h
      simp only [unitStream] at this; omega

theorem marshal_ne_nil (iw : Proto.IndexWrapper) (h : iw.typeId = indexWrapperTypeId) : iw.marshal ≠ [] := by
  intro hc
  have := congrArg List.length hc
  unfold Proto.IndexWrapper.marshal at this
  simp only [List.length_append, h, Proto.encBytesField, List.length_nil] at this
  have h4 : ¬ (indexWrapperTypeId.length = 0) := by decide
  simp only [h4, if_false, List.length_append] at this
  have : 0 < indexWrapperTypeId.length := by decide
  omega

/-- `Deconstruct` of the closed-form square of `N` and `bl` -/
theorem deconstruct_isSquareOf (dec : Bytes → Decoded) (pfbDec : Bytes → Res (List Nat)) (hdec : DecValid dec)
    (hus : C03.DecUser dec) (max thr : Nat) (hmax : Nat.isPowerOfTwo max) (hsz : 478 * (max * max) < 4294967296)
    (N bl : List Bytes) (hN : C09.NonEmptyUnits N) (hbl : ∀ r ∈ bl, CanonBlobTx dec pfbDec r)
    (hfit : closedEstimate thr N (bl.map (decB dec)) ≤ max * max)
    (sq : List Bytes) (h : IsSquareOf dec thr N bl sq) : deconstruct sq pfbDec = .ok (N ++ bl) := by
  have hblb : ∀ r ∈ bl, dec r = .blobTx (decB dec r) := fun r hr => (hbl r hr).isBlobTx
  have hv := decValid_kept dec hdec bl hblb
  have hwf := C03.wellFormed_of_isSquareOf dec hdec hus max thr hmax hsz N bl hblb hfit sq h
  rcases h with ⟨rfl, rfl, rfl⟩ | ⟨hne, rfl, g1, g2, g4⟩
  · -- the empty square
    unfold deconstruct squareIsEmpty
    rw [emptySquare_eq]
    simp
  · generalize hB : bl.map (decB dec) = B at *
    generalize hss : blobMinSquareSize (closedEstimate thr N B) = ss at *
    -- sizes
    have hsqlen : (squareOf thr N B ss).length < 4294967296 := by
      obtain ⟨s, _, hs2, hs3⟩ := hwf.side
      have : s * s ≤ max * max := Nat.mul_le_mul hs2 hs2
      omega
    have hle1 : txShareCount N ≤ closedEstimate thr N B := by unfold closedEstimate txShareCount; omega
    have hle2 : pfbShareCount B ≤ closedEstimate thr N B := by unfold closedEstimate pfbShareCount; omega
    have hst1 : (unitStream N).length < 4294967296 := by
      have := stream_le_shares (unitStream N).length
      rw [← compactSeq_length txNamespace, ← txShareCount_eq] at this
      omega
    have hst2 : (unitStream ((patched thr N B).map (·.marshal))).length < 4294967296 := by
      have := stream_le_shares (unitStream ((patched thr N B).map (·.marshal))).length
      rw [← compactSeq_length payForBlobNamespace] at this
      omega
    -- the three parts and their namespaces
    have hform : squareOf thr N B ss = compactSeq txNamespace N ++
        compactSeq payForBlobNamespace ((patched thr N B).map (·.marshal)) ++
        (List.replicate (firstIdx thr (startOf N B) (sortedElems thr B) -
            ((compactSeq txNamespace N).length + (compactSeq payForBlobNamespace ((patched thr N B).map (·.marshal))).length))
          (paddingShare primaryReservedPaddingNamespace 0) ++
         region thr (startOf N B) none (sortedElems thr B) ++
         List.replicate (ss * ss - (firstIdx thr (startOf N B) (sortedElems thr B) +
            (region thr (startOf N B) none (sortedElems thr B)).length)) (paddingShare tailPaddingNamespace 0)) := by
      simp only [squareOf, List.append_assoc]
    have h1 : ∀ s ∈ compactSeq txNamespace N, Share.ns s = txNamespace :=
      fun s hs => (compactSeq_shares txNamespace ⟨by decide, by decide⟩ N s hs).2
    have h2 : ∀ s ∈ compactSeq payForBlobNamespace ((patched thr N B).map (·.marshal)), Share.ns s = payForBlobNamespace :=
      fun s hs => (compactSeq_shares payForBlobNamespace ⟨by decide, by decide⟩ _ s hs).2
    have hvalid : ∀ e ∈ sortedElems thr B, e.blob.Valid ∧ UserNs e.blob.ns := by
      intro e he
      obtain ⟨t, ht, hbt⟩ := sortedElems_mem thr B e he
      refine ⟨(hv t ht _ hbt).valid, ?_⟩
      rw [← hB] at ht
      obtain ⟨r, hr, rfl⟩ := List.mem_map.mp ht
      exact hus r _ (hblb r hr) _ hbt
    have h3 : ∀ s ∈ (List.replicate (firstIdx thr (startOf N B) (sortedElems thr B) -
            ((compactSeq txNamespace N).length + (compactSeq payForBlobNamespace ((patched thr N B).map (·.marshal))).length))
          (paddingShare primaryReservedPaddingNamespace 0) ++
         region thr (startOf N B) none (sortedElems thr B) ++
         List.replicate (ss * ss - (firstIdx thr (startOf N B) (sortedElems thr B) +
            (region thr (startOf N B) none (sortedElems thr B)).length)) (paddingShare tailPaddingNamespace 0)),
        cmpBytes (Share.ns s) payForBlobNamespace = 1 := by
      intro s hs
      rcases List.mem_append.mp hs with hs | hs
      · rcases List.mem_append.mp hs with hs | hs
        · rw [List.eq_of_mem_replicate hs, (paddingShare_wf _ 0 (by decide)).2]; decide
        · obtain ⟨_, hor⟩ := region_shares thr (sortedElems thr B) (startOf N B) none (fun e he => (hvalid e he).1)
            (fun p hp => by cases hp) s hs
          rcases hor with ⟨p, hp, _⟩ | ⟨e, he, hns⟩
          · cases hp
          · obtain ⟨hlo, _⟩ := (hvalid e he).2
            rw [hns]
            have hpr : cmpBytes payForBlobNamespace primaryReservedPaddingNamespace ≤ 0 := by decide
            have := cmpBytes_le_trans _ _ _ hpr (by omega : cmpBytes primaryReservedPaddingNamespace e.blob.ns ≤ 0)
            have hsw := cmpBytes_swap payForBlobNamespace e.blob.ns
            rcases cmpBytes_range e.blob.ns payForBlobNamespace with hc | hc | hc
            · omega
            · exfalso
              have heq := (cmpBytes_eq_iff _ _).mp hc
              rw [heq] at hlo; revert hlo; decide
            · exact hc
      · rw [List.eq_of_mem_replicate hs, (paddingShare_wf _ 0 (by decide)).2]; decide
    have etx : compactSeq txNamespace N = [] ↔ N = [] := by
      rw [← List.length_eq_zero_iff, ← txShareCount_eq]
      unfold txShareCount
      rw [C07.sizeOf_eq_zero]; exact C07.unit_sum_eq_zero (fun t : Bytes => t.length) N
    have hplen : (patched thr N B).length = bl.length := by
      unfold patched; rw [(patchAll_frame thr _ _ _).1]; unfold worstWrappers; rw [← hB]; simp
    have epfb : compactSeq payForBlobNamespace ((patched thr N B).map (·.marshal)) = [] ↔ bl = [] := by
      constructor
      · intro hc
        cases hbl' : bl with
        | nil => rfl
        | cons r rs =>
          exfalso
          have hp0 : 0 < (patched thr N B).length := by rw [hplen, hbl']; simp
          obtain ⟨iw, hiw⟩ : ∃ iw, (patched thr N B)[0]? = some iw := ⟨_, List.getElem?_eq_getElem hp0⟩
          have hty : iw.typeId = indexWrapperTypeId := by
            have hw0 : (worstWrappers B)[0]? = some (newIndexWrapper (decB dec r).tx (worstCaseShareIndexes (decB dec r).blobs.length)) := by
              rw [← hB, hbl']; rfl
            obtain ⟨iw', h1', _, h3', _⟩ := (patchAll_frame thr (sortedElems thr B) (startOf N B) (worstWrappers B)).2 0 _ hw0
            unfold patched at hiw
            rw [hiw] at h1'
            simp only [Option.some.injEq] at h1'
            subst h1'
            rw [h3']; rfl
          have hmne := marshal_ne_nil iw hty
          have hlen0 := congrArg List.length hc
          rw [compactSeq_length, List.length_nil] at hlen0
          have hstream := stream_le_shares (unitStream ((patched thr N B).map (·.marshal))).length
          rw [hlen0] at hstream
          have hmem : iw.marshal ∈ (patched thr N B).map (·.marshal) :=
            List.mem_map.mpr ⟨iw, List.mem_of_getElem? hiw, rfl⟩
          have := unit_le_stream _ _ hmem
          have : 0 < iw.marshal.length := List.length_pos_iff.mpr hmne
          omega
      · intro hb
        have : patched thr N B = [] := List.eq_nil_of_length_eq_zero (by rw [hplen, hb]; rfl)
        rw [this]; rfl
    have hdp := deconstruct_parts _ _ _ pfbDec h1 h2 h3 (fun hc => hne ⟨etx.mp hc.1, epfb.mp hc.2⟩)
    rw [← hform] at hdp
    rw [hdp]
    -- the ordinary transactions
    have hptx : parseTxs (compactSeq txNamespace N) = .ok N := by
      by_cases hN0 : N = []
      · subst hN0; rfl
      · exact C09.parse_spec txNamespace ⟨by decide, by decide⟩ N hN0 hN hst1
    by_cases hb0 : bl = []
    · rw [if_pos (epfb.mpr hb0), hptx, hb0, List.append_nil]
    · rw [if_neg (fun hc => hb0 (epfb.mp hc)), hptx]
      -- the wrapped PFBs
      have hpne : (patched thr N B).map (·.marshal) ≠ [] := by
        intro hc
        have := congrArg List.length hc
        simp only [List.length_map, hplen, List.length_nil] at this
        exact hb0 (List.eq_nil_of_length_eq_zero this)
      have htyall : ∀ iw ∈ patched thr N B, iw.typeId = indexWrapperTypeId := by
        intro iw hiw
        obtain ⟨p, hp, rfl⟩ := List.mem_iff_getElem.mp hiw
        have hpw : p < (worstWrappers B).length := by
          have := (patchAll_frame thr (sortedElems thr B) (startOf N B) (worstWrappers B)).1
          unfold patched at hp; omega
        obtain ⟨iw', h1', _, h3', _⟩ := (patchAll_frame thr (sortedElems thr B) (startOf N B) (worstWrappers B)).2 p _
          (List.getElem?_eq_getElem hpw)
        have : (patched thr N B)[p]? = some (patched thr N B)[p] := List.getElem?_eq_getElem hp
        unfold patched at this
        rw [this] at h1'
        simp only [Option.some.injEq] at h1'
        unfold patched
        rw [h1', h3']
        simp [worstWrappers, newIndexWrapper]
      have hunits : C09.NonEmptyUnits ((patched thr N B).map (·.marshal)) := by
        intro u hu
        obtain ⟨iw, hiw, rfl⟩ := List.mem_map.mp hu
        refine ⟨marshal_ne_nil iw (htyall iw hiw), ?_⟩
        have := unit_le_stream _ _ hu
        have : (4294967296 : Nat) < 2 ^ 63 := by decide
        omega
      rw [C09.parse_spec payForBlobNamespace ⟨by decide, by decide⟩ _ hpne hunits hst2]
      simp only [bind, Except.bind]
      -- every wrapper satisfies what the loop needs
      let ws : List (Proto.IndexWrapper × List Blob × Bytes) :=
        ((patched thr N B).zip bl).map (fun x => (x.1, (decB dec x.2).blobs, x.2))
      have hws1 : ws.map (·.1.marshal) = (patched thr N B).map (·.marshal) := by
        simp only [ws, List.map_map]
        have : ((patched thr N B).zip bl).map ((fun x : Proto.IndexWrapper × List Blob × Bytes => x.1.marshal) ∘
            fun x => (x.1, (decB dec x.2).blobs, x.2)) = (((patched thr N B).zip bl).map Prod.fst).map (·.marshal) := by
          rw [List.map_map]; rfl
        rw [this, List.map_fst_zip (by omega)]
      have hws2 : ws.map (·.2.2) = bl := by
        simp only [ws, List.map_map]
        have : ((patched thr N B).zip bl).map ((fun x : Proto.IndexWrapper × List Blob × Bytes => x.2.2) ∘
            fun x => (x.1, (decB dec x.2).blobs, x.2)) = ((patched thr N B).zip bl).map Prod.snd := rfl
        rw [this, List.map_snd_zip (by omega)]
      have hwsok : ∀ w ∈ ws, PfbOK (squareOf thr N B ss) pfbDec w.1 w.2.1 w.2.2 := by
        intro w hw
        obtain ⟨x, hx, rfl⟩ := List.mem_map.mp hw
        obtain ⟨p, hp, hxp⟩ := List.mem_iff_getElem.mp hx
        rw [List.getElem_zip] at hxp
        have hp1 : p < (patched thr N B).length := by simp at hp; omega
        have hp2 : p < bl.length := by simp at hp; omega
        subst hxp
        simp only
        subst hB
        exact pfbOK_of_patched dec pfbDec thr N bl ss hv g1 hsqlen p bl[p] _ (List.getElem?_eq_getElem hp2)
          (List.getElem?_eq_getElem hp1) (hbl _ (List.getElem_mem hp2))
      rw [← hws1, deconstructPfbs_spec _ pfbDec ws hwsok, hws2]

/-- **C02.** `Deconstruct (Construct txs) = txs`. -/
theorem deconstruct_construct (dec : Bytes → Decoded) (pfbDec : Bytes → Res (List Nat)) (hdec : DecValid dec)
    (hus : C03.DecUser dec) (txs : List Bytes) (max thr : Nat) (hmax : Nat.isPowerOfTwo max)
    (hsz : 478 * (max * max) < 4294967296)
    (hord : ∀ t ∈ txs, dec t = .normal → t ≠ [] ∧ t.length < 2 ^ 63)
    (hcanon : ∀ t ∈ txs, dec t = .blobTx (decB dec t) → CanonBlobTx dec pfbDec t)
    (sq : List Bytes) (h : construct dec txs max thr = .ok sq) : deconstruct sq pfbDec = .ok txs := by
  obtain ⟨N, bl, e, hN, hbl, hfit, hsq⟩ := construct_square dec hdec txs max thr hsz sq h
  rw [e]
  exact deconstruct_isSquareOf dec pfbDec hdec hus max thr hmax hsz N bl
    (fun u hu => hord u (by rw [e]; simp [hu]) (hN u hu))
    (fun r hr => hcanon r (by rw [e]; simp [hr]) (hbl r hr)) hfit sq hsq

/-- **C02 (empty list).** `Construct []` is the one-share tail-padding square and deconstructs to `[]`. -/
theorem empty_roundtrip (dec : Bytes → Decoded) (pfbDec : Bytes → Res (List Nat)) :
    construct dec [] 4 64 = .ok [paddingShare tailPaddingNamespace 0] ∧
    deconstruct [paddingShare tailPaddingNamespace 0] pfbDec = .ok [] := by
  constructor
  · have hnew : Builder.new 4 64 = .ok { maxSquareSize := 4, thr := 64 } := by
      unfold Builder.new; simp; decide
    unfold construct Builder.newWithTxs
    simp only [hnew, bind, Except.bind, appendAll, Builder.exportSquare, exportCore, Counter.size]
    simp [emptySquare_eq]
  · unfold deconstruct squareIsEmpty; rw [emptySquare_eq]; simp

/-- non-vacuity of the blob-transaction hypothesis with the modelled real decoder: whatever
    `MarshalBlobTx` produces from an inner transaction and proto-representable blobs is a canonical
    blob transaction for `UnmarshalBlobTx`, provided the PFB decoder reports the blob sizes. -/
theorem canon_of_marshal (pfbDec : Bytes → Res (List Nat)) (tx : Bytes) (blobs : List Blob) (hne : blobs ≠ [])
    (hb : ∀ b ∈ blobs, C19.ProtoBlob b)
    (hs : C19.SmallBTx { tx, blobs := blobs.map Blob.toProto, typeId := blobTxTypeId })
    (hsz : pfbDec tx = .ok (blobs.map (·.data.length))) (hcount : blobs.length < 4294967296) :
    ∃ raw, marshalBlobTx tx blobs = some raw ∧ CanonBlobTx unmarshalBlobTx pfbDec raw := by
  obtain ⟨raw, hm, hu⟩ := C19.unmarshalBlobTx_marshal tx blobs hne hb hs
  have hd : decB unmarshalBlobTx raw = { tx, blobs } := by simp [decB, hu]
  exact ⟨raw, hm, ⟨by rw [hd]; exact hu, by rw [hd]; exact hne, by rw [hd]; exact hsz, by rw [hd]; exact hm,
    by rw [hd]; exact hs.tx, by rw [hd]; exact hcount⟩⟩

end GoSquare.C02
