import GoSquare.Proofs.C12Core
import GoSquare.Proofs.TxRange
import GoSquare.Proofs.RangeParse
import GoSquare.Proofs.BlobRange
/-! # C12 — transaction and blob share ranges are exact

`Proofs/C12Core.lean` (namespace `GoSquare.C12`): the splitter's per-transaction range is exactly
the shares holding a byte of the transaction's length-prefixed encoding. `Proofs/TxRange.lean`:
the builder's `FindTxShareRange` / `square.TxShareRange` report exactly that range, for ordinary
transactions and for wrapped pay-for-blob transactions as written in the square; out-of-range
indexes are errors. `Proofs/RangeParse.lean`: parsing just the reported shares yields a list
containing the transaction (via C11). `Proofs/BlobRange.lean`: blob ranges are exactly the blob's
shares (C04). -/
namespace GoSquare.C12
open GoSquare Builder Spec

/-- **C12 (the reported range is the set of shares holding a byte of the unit).** -/
theorem range_is_the_set_of_shares (X len k : Nat) (hlen : 1 ≤ len) :
    (shareOf X ≤ k ∧ k < shareOf (X + len - 1) + 1) ↔ ∃ off, X ≤ off ∧ off < X + len ∧ shareOf off = k :=
  TxRange.mem_range_iff X len k hlen

/-- **C12 (`FindTxShareRange` on an exported builder).** -/
theorem findTxShareRange_is_exact (b : Builder) (hd : b.done = true) (i : Nat) :
    (∀ (hi : i < b.txs.length),
      b.findTxShareRange (i : Int) = .ok (b,
        shareOf (TxRange.before (b.txs.map List.length) i),
        shareOf (TxRange.before (b.txs.map List.length) i + TxRange.unitLen (b.txs[i]).length - 1) + 1)) ∧
    (∀ (hi : i < b.pfbs.length),
      let T := compactSharesNeeded (TxRange.before (b.txs.map List.length) b.txs.length)
      b.findTxShareRange ((b.txs.length + i : Nat) : Int) = .ok (b,
        T + shareOf (TxRange.before (b.pfbs.map (·.size)) i),
        T + shareOf (TxRange.before (b.pfbs.map (·.size)) i + TxRange.unitLen (b.pfbs[i]).size - 1) + 1)) :=
  TxRange.findTxShareRange_exact b hd i

/-- **C12 (out-of-range indexes yield errors).** -/
theorem findTxShareRange_rejects (b : Builder) (hd : b.done = true) (i : Int)
    (h : i < 0 ∨ (b.txs.length + b.pfbs.length : Int) ≤ i) : b.findTxShareRange i = .error .err :=
  TxRange.findTxShareRange_out_of_range b hd i h

/-- **C12 (parsing just the reported shares yields the transaction).** -/
theorem parsing_the_range_yields_the_tx (ns : Bytes) (hc : CompactNs ns) (units : List Bytes) (hne : units ≠ [])
    (hu : C09.NonEmptyUnits units) (hlt : (unitStream units).length < 4294967296) (i : Nat) (hi : i < units.length) :
    let S := (unitStream (units.take i)).length
    let E := S + (uvarintLen (units[i]).length + (units[i]).length)
    let lo := shareOf S
    let hi' := shareOf (E - 1) + 1
    lo < hi' ∧ hi' ≤ (compactSeq ns units).length ∧
    ∃ r, parseTxs (((compactSeq ns units).drop lo).take (hi' - lo)) = .ok r ∧ units[i] ∈ r :=
  RangeParse.parse_range_contains_tx ns hc units hne hu hlt i hi

end GoSquare.C12
