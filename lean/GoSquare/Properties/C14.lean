import GoSquare.Proofs.C14Core
import GoSquare.Proofs.BuilderHistory
/-! # C14 — incremental APIs are history-independent

`Proofs/C14Core.lean` (namespace `GoSquare.C14`): the shares finally exported by a compact share
splitter depend only on the transactions written, not on exports or counts performed between
writes. `Proofs/BuilderHistory.lean`: the square finally exported by a builder depends only on
the sequence of accepted appends — not on exports, range or index queries, wrapped-PFB lookups or
refused appends interleaved between them, whatever state a failing export or query leaves behind
(untouched, exported, or partially exported). -/
namespace GoSquare.C14
open GoSquare Builder Spec BuilderHistory

/-- **C14 (builder).** For every interleaving `ops` of {append tx, append blob tx (accepted or
    refused), export, tx range, blob index, blob length, wrapped PFB} from a new builder: the
    finally exported square (or error) is the one a builder fed only the accepted appends exports. -/
theorem builder_export_depends_only_on_accepted_appends (err : Builder → BuilderHistory.Op → Builder)
    (herr : ∀ b op, ErrState b (err b op)) (max thr : Nat) (b0 : Builder) (h0 : Builder.new max thr = .ok b0)
    (ops : List BuilderHistory.Op) :
    (BuilderHistory.run err b0 ops).exportSquare.map (·.2) =
      (BuilderHistory.run err b0 (acceptedOps err b0 ops)).exportSquare.map (·.2) :=
  export_depends_only_on_accepted err herr max thr b0 h0 ops

/-- **C14 (builder, two histories).** Histories with the same accepted appends export the same square. -/
theorem builder_same_accepted_same_export (err1 err2 : Builder → BuilderHistory.Op → Builder)
    (herr1 : ∀ b op, ErrState b (err1 b op)) (herr2 : ∀ b op, ErrState b (err2 b op))
    (max thr : Nat) (b0 : Builder) (h0 : Builder.new max thr = .ok b0) (ops1 ops2 : List BuilderHistory.Op)
    (h : acceptedOps err1 b0 ops1 = acceptedOps err2 b0 ops2) :
    (BuilderHistory.run err1 b0 ops1).exportSquare.map (·.2) = (BuilderHistory.run err2 b0 ops2).exportSquare.map (·.2) :=
  same_accepted_same_export err1 err2 herr1 herr2 max thr b0 h0 ops1 ops2 h

end GoSquare.C14
