import GoSquare.Proofs.Namespace
import GoSquare.Proofs.AddInt
/-! # C18 — namespace order, classification and arithmetic are exact

`<` on `List UInt8` is Lean core's lexicographic order, i.e. the byte-wise lexicographic order of
the property. Statements hold for byte strings of any length (namespaces have 29 bytes). -/
namespace GoSquare.C18
open GoSquare

/-- **C18 (comparison is the lexicographic order).** -/
theorem compare_spec (a b : Bytes) :
    (Ns.compare a b = -1 ↔ a < b) ∧ (Ns.compare a b = 0 ↔ a = b) ∧ (Ns.compare a b = 1 ↔ b < a) ∧
    (Ns.compare a b = -1 ∨ Ns.compare a b = 0 ∨ Ns.compare a b = 1) :=
  ⟨cmpBytes_lt_iff a b, cmpBytes_eq_iff a b, cmpBytes_gt_iff a b, cmpBytes_range a b⟩

/-- **C18 (total order).** antisymmetric, total, transitive. -/
theorem compare_total_order (a b c : Bytes) :
    Ns.compare b a = - Ns.compare a b ∧
    (Ns.compare a b ≤ 0 ∨ Ns.compare b a ≤ 0) ∧
    (Ns.compare a b ≤ 0 → Ns.compare b a ≤ 0 → a = b) ∧
    (Ns.compare a b ≤ 0 → Ns.compare b c ≤ 0 → Ns.compare a c ≤ 0) := by
  refine ⟨cmpBytes_swap a b, ?_, ?_, cmpBytes_le_trans a b c⟩
  · have := cmpBytes_swap a b
    unfold Ns.compare; omega
  · intro h1 h2
    have := cmpBytes_swap a b
    unfold Ns.compare at h1 h2
    exact (cmpBytes_eq_iff a b).mp (by omega)

/-- **C18 (predicates agree with the order).** -/
theorem predicates_spec (a b : Bytes) :
    (Ns.equals a b = true ↔ a = b) ∧
    (Ns.isLessThan a b = true ↔ a < b) ∧
    (Ns.isGreaterThan a b = true ↔ b < a) ∧
    (Ns.isLessOrEqualThan a b = true ↔ ¬ b < a) ∧
    (Ns.isGreaterOrEqualThan a b = true ↔ ¬ a < b) := by
  have hr := cmpBytes_range a b
  refine ⟨by simp [Ns.equals], ?_, ?_, ?_, ?_⟩
  · simp [Ns.isLessThan, Ns.compare, cmpBytes_lt_iff]
  · simp [Ns.isGreaterThan, Ns.compare, cmpBytes_gt_iff]
  · rw [← cmpBytes_gt_iff a b]; unfold Ns.isLessOrEqualThan Ns.compare; rw [decide_eq_true_iff]; omega
  · rw [← cmpBytes_lt_iff a b]; unfold Ns.isGreaterOrEqualThan Ns.compare; rw [decide_eq_true_iff]; omega

/-- **C18 (reserved / padding / parity / tx / pay-for-blob predicates hold exactly on their values
    or intervals).** -/
theorem classification_spec (n : Bytes) :
    (Ns.isTx n = true ↔ n = txNamespace) ∧
    (Ns.isPayForBlob n = true ↔ n = payForBlobNamespace) ∧
    (Ns.isPrimaryReservedPadding n = true ↔ n = primaryReservedPaddingNamespace) ∧
    (Ns.isTailPadding n = true ↔ n = tailPaddingNamespace) ∧
    (Ns.isParityShares n = true ↔ n = paritySharesNamespace) ∧
    (Ns.isPrimaryReserved n = true ↔ ¬ maxPrimaryReservedNamespace < n) ∧
    (Ns.isSecondaryReserved n = true ↔ ¬ n < minSecondaryReservedNamespace) ∧
    (Ns.isReserved n = true ↔ (¬ maxPrimaryReservedNamespace < n ∨ ¬ n < minSecondaryReservedNamespace)) ∧
    (Ns.isUsableNamespace n = true ↔ n ≠ paritySharesNamespace ∧ n ≠ tailPaddingNamespace) := by
  have p1 := (predicates_spec n maxPrimaryReservedNamespace).2.2.2.1
  have p2 := (predicates_spec n minSecondaryReservedNamespace).2.2.2.2
  refine ⟨by simp [Ns.isTx, Ns.equals], by simp [Ns.isPayForBlob, Ns.equals],
    by simp [Ns.isPrimaryReservedPadding, Ns.equals], by simp [Ns.isTailPadding, Ns.equals],
    by simp [Ns.isParityShares, Ns.equals], p1, p2, ?_, ?_⟩
  · simp only [Ns.isReserved, Bool.or_eq_true, Ns.isPrimaryReserved, Ns.isSecondaryReserved, p1, p2]
  · simp [Ns.isUsableNamespace, Ns.isParityShares, Ns.isTailPadding, Ns.equals]

/-- a byte string starting with 0 is below every byte string starting with 255 -/
theorem lt_of_head_zero {n : Bytes} (h : Ns.version n = 0) (m : Bytes) : n < 255 :: m := by
  cases n with
  | nil => simp
  | cons x xs =>
    simp only [Ns.version, List.headD_cons] at h
    have hx : x = 0 := UInt8.toNat_inj.mp (by simpa using h)
    subst hx
    rw [List.cons_lt_cons_iff]; left; decide

/-- **C18 (blob validation).** Accepted are exactly the version-0 namespaces strictly above the
    primary reserved range. -/
theorem validateForBlob_spec (n : Bytes) :
    Ns.validateForBlob n = true ↔ Ns.version n = 0 ∧ maxPrimaryReservedNamespace < n := by
  obtain ⟨_, _, _, h4, h5, h6, h7, h8, h9⟩ := classification_spec n
  constructor
  · intro h
    simp only [Ns.validateForBlob, Ns.validateForData, Bool.and_eq_true, Bool.not_eq_true', beq_iff_eq] at h
    obtain ⟨⟨_, hres⟩, hv⟩ := h
    refine ⟨hv, ?_⟩
    have : ¬ (Ns.isReserved n = true) := by simp [hres]
    rw [h8] at this
    exact Decidable.not_not.mp (fun hc => this (Or.inl hc))
  · intro ⟨hv, hgt⟩
    have hsec : n < minSecondaryReservedNamespace := lt_of_head_zero hv _
    have hne1 : n ≠ paritySharesNamespace := by
      intro e; rw [e] at hv; revert hv; decide
    have hne2 : n ≠ tailPaddingNamespace := by
      intro e; rw [e] at hv; revert hv; decide
    have hres : Ns.isReserved n = false := by
      have : ¬ (Ns.isReserved n = true) := by rw [h8]; intro hc; cases hc with
        | inl h => exact h hgt
        | inr h => exact h hsec
      simpa using this
    have huse : Ns.isUsableNamespace n = true := h9.mpr ⟨hne1, hne2⟩
    simp [Ns.validateForBlob, Ns.validateForData, huse, hres, hv]

/-- **C18 (constructors accept exactly well-formed (version, id) pairs).** -/
theorem new_spec (v : UInt8) (id : Bytes) :
    Ns.new v id = (if id.length = 28 ∧ (v = 255 ∨ (v = 0 ∧ id.take 18 = List.replicate 18 0)) then some (v :: id) else none) := by
  unfold Ns.new Ns.validate Ns.version Ns.id
  simp only [List.headD_cons, List.drop_succ_cons, List.drop_zero]
  by_cases hl : id.length = 28
  · by_cases h0 : v = 0
    · subst h0; simp [hl]
    · by_cases h255 : v = 255
      · subst h255; simp [hl]
      · have a : ¬ (v.toNat = 0) := fun h => h0 (UInt8.toNat_inj.mp (by simpa using h))
        have b : ¬ (v.toNat = 255) := fun h => h255 (UInt8.toNat_inj.mp (by simpa using h))
        simp [hl, h0, h255, a, b]
  · simp [hl]

theorem fromBytes_spec (b : Bytes) :
    Ns.fromBytes b = (if b.length = 29 ∧ Ns.validate b = true then some b else none) := by
  simp [Ns.fromBytes]

/-- non-vacuity: a user namespace is blob-valid, the reserved ones are not -/
example : Ns.validateForBlob (Ns.newV0 [1, 0]).get! = true := by decide
example : Ns.validateForBlob txNamespace = false ∧ Ns.validateForBlob primaryReservedPaddingNamespace = false ∧
    Ns.validateForBlob tailPaddingNamespace = false := by decide


/-- **C18 (AddInt is exact big-endian addition).** For a namespace of (at least 8, in particular)
    29 bytes and every Go `int` addend: the result exists exactly when value + addend lies in
    `[0, 256^len)`, has the same length and the big-endian value `value + addend`; otherwise an
    error (overflow / underflow). -/
theorem addInt_spec (n r : Bytes) (val : Int) (hlen : n.length = 29)
    (hlo : -(2 ^ 63 : Int) ≤ val) (hhi : val < 2 ^ 63) :
    (Ns.addInt n val = some r ↔ r.length = n.length ∧ (beVal r : Int) = (beVal n : Int) + val) ∧
    (Ns.addInt n val = none ↔ (beVal n : Int) + val < 0 ∨ 256 ^ n.length ≤ (beVal n : Int) + val) :=
  ⟨addInt_eq_some_iff n r val (by omega) hlo hhi, addInt_eq_none_iff n val (by omega) hlo hhi⟩

/-- **C18 (adding the negation undoes it).** -/
theorem addInt_undo (n r : Bytes) (val : Int) (hlen : n.length = 29)
    (hlo : -(2 ^ 63 : Int) < val) (hhi : val < 2 ^ 63) (h : Ns.addInt n val = some r) :
    Ns.addInt r (-val) = some n := addInt_neg_undoes n r val (by omega) hlo hhi h

end GoSquare.C18
