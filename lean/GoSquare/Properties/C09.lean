import GoSquare.Proofs.CompactParse
import GoSquare.Proofs.C14Core
/-! # C09 — transactions survive the compact-share encoding round trip

(1) the model of `CompactShareSplitter` writes exactly `Spec.compactSeq` (for every list of
transactions, both compact namespaces); (2) `ParseTxs` of that sequence returns exactly the
transactions, in order; (3) the sequence-length field is the number of length-prefixed bytes and
(4) the number of shares is the minimum that holds them. -/
namespace GoSquare.C09
open GoSquare Spec

/-- **C09/C10 (writer = specification).** `NewCompactShareSplitter`, `WriteTx` for every
    transaction, `Export` produce exactly the specified compact sequence. -/
theorem writer_eq_spec (ns : Bytes) (hc : CompactNs ns) (units : List Bytes)
    (hlt : (unitStream units).length < 4294967296) :
    ∃ c0 c, CompactSplitter.new ns 0 = .ok c0 ∧ units.foldlM (fun w t => w.writeTx t) c0 = .ok c ∧
      c.exportShares.map (·.2) = .ok (Spec.compactSeq ns units) ∧
      c.count = compactSharesNeeded (unitStream units).length := by
  obtain ⟨c0, hnew, hN0, _⟩ := new_spec ns hc
  obtain ⟨c, hw, hN⟩ := writeAll_spec ns (zeros 4) hc units c0 [] hN0
  simp only [List.nil_append] at hN
  obtain ⟨c', x', hex, _⟩ := export_spec ns (zeros 4) hc c units hN (by simp) hlt
  exact ⟨c0, c, hnew, hw, by simp [hex, Except.map], count_spec ns _ hc c units hN⟩

/-- a list of transactions as C09 quantifies over it -/
def NonEmptyUnits (units : List Bytes) : Prop := ∀ u ∈ units, u ≠ [] ∧ u.length < 2 ^ 63

theorem extract_found : ∀ (l : List Bytes), extractRawData l true = .ok (l.map Share.rawData).flatten
  | [] => rfl
  | s :: l => by
    rw [extractRawData]
    simp only [Bool.not_true, Bool.false_eq_true, if_false, extract_found l, res_bind_ok, List.map_cons, List.flatten_cons]

theorem resOf_first (units : List Bytes) (h : units ≠ []) : resOf (unitStarts 0 units) 0 = 38 := by
  cases units with
  | nil => exact absurd rfl h
  | cons u us => simp [unitStarts, resOf, compactOff, compactCap, compactHdr]

theorem compactCount_pos {T : Nat} (h : 0 < T) : 1 ≤ compactCount T := by
  unfold compactCount
  have : ¬ T = 0 := by omega
  simp only [this, if_false]; split <;> omega

theorem compactCount_bounds (T : Nat) (h : 0 < T) :
    compactOff (compactCount T - 1) < T ∧ T ≤ compactOff (compactCount T) := by
  rw [compactCount_eq_sizeOf]
  unfold sizeOf posOf compactOff
  by_cases h1 : T < 474
  · have : ¬ T = 0 := by omega
    simp [h1, this]; omega
  · simp only [h1, if_false]
    by_cases h2 : (T - 474) % 478 = 0
    · simp only [h2, if_true]
      have hne : ¬ (1 + (T - 474) / 478 = 0) := by omega
      simp only [hne, if_false]
      constructor
      · by_cases h3 : 1 + (T - 474) / 478 - 1 = 0
        · simp [h3]; omega
        · simp only [h3, if_false]; omega
      · omega
    · simp only [h2, if_false]
      have hne : ¬ (1 + (T - 474) / 478 + 1 = 0) := by omega
      have hne2 : ¬ (1 + (T - 474) / 478 + 1 - 1 = 0) := by omega
      simp only [hne, hne2, if_false]
      omega

/-- what the reader collects from the whole specified sequence: the unit stream, zero padded -/
theorem extract_full (ns : Bytes) (hc : CompactNs ns) (units : List Bytes) (hne : units ≠ [])
    (hlt : (unitStream units).length < 4294967296) (hpos : 0 < (unitStream units).length) :
    ∃ z, extractRawData (Spec.compactSeq ns units) false = .ok (unitStream units ++ zeros z) ∧
      ∀ s ∈ Spec.compactSeq ns units, Share.version s = 0 := by
  rw [compactSeq_eq]
  generalize hD : unitStream units = D at *
  generalize hS : unitStarts 0 units = S
  have hres0 : resOf S 0 = 38 := by rw [← hS]; exact resOf_first units hne
  generalize hn : compactCount D.length = n
  have hn1 : 1 ≤ n := by rw [← hn]; exact compactCount_pos hpos
  obtain ⟨hb1, hb2⟩ := compactCount_bounds D.length hpos
  rw [hn] at hb1 hb2
  -- accessors of every share
  have hacc : ∀ j, Share.version (specShare ns D S j) = 0 ∧ Share.rawData (specShare ns D S j) = compactPayload D j := by
    intro j
    by_cases hj : j = 0
    · subst hj
      obtain ⟨a, b, _, _⟩ := first_compact_accessors ns (be32 D.length) (compactPayload D 0) (resOf S 0) hc (by simp)
        (by rw [compactPayload_length]; rfl) (resOf_lt S 0) _ (specShare_form0 ns D S hc.len)
      exact ⟨a, b⟩
    · obtain ⟨a, b, _⟩ := cont_compact_accessors ns (compactPayload D j) (resOf S j) hc
        (by rw [compactPayload_length]; simp [compactCap, hj]) (resOf_lt S j) _ (specShare_formJ ns D S j hj hc.len)
      exact ⟨a, b⟩
  refine ⟨compactOff n - D.length, ?_, ?_⟩
  · obtain ⟨m, rfl⟩ : ∃ m, n = m + 1 := ⟨n - 1, by omega⟩
    rw [List.range_succ_eq_map, List.map_cons, extractRawData]
    simp only [Bool.not_false, if_true]
    obtain ⟨_, _, hru, _⟩ := first_compact_accessors ns (be32 D.length) (compactPayload D 0) (resOf S 0) hc (by simp)
      (by rw [compactPayload_length]; rfl) (resOf_lt S 0) _ (specShare_form0 ns D S hc.len)
    rw [hru, hres0, res_bind_ok]
    have h38 : (specShare ns D S 0).drop 38 = compactPayload D 0 := by
      rw [specShare_form0 ns D S hc.len]
      have : (ns ++ infoByte 0 true :: (be32 D.length ++ (be32 (resOf S 0) ++ compactPayload D 0))) =
          (ns ++ [infoByte 0 true] ++ be32 D.length ++ be32 (resOf S 0)) ++ compactPayload D 0 := by
        simp only [List.append_assoc, List.cons_append, List.nil_append]
      rw [this, List.drop_left' (by simp [hc.len])]
    simp only [show ¬ ((38 : Nat) = 0) by omega, if_false, h38]
    have hne0 : (compactPayload D 0).isEmpty = false := by
      have := compactPayload_length D 0
      cases hcp : compactPayload D 0 with
      | nil => rw [hcp] at this; simp [compactCap] at this
      | cons a b => rfl
    rw [hne0]
    simp only [Bool.not_false, extract_found, res_bind_ok, List.map_map]
    have hmap : (List.range m).map (Share.rawData ∘ specShare ns D S ∘ Nat.succ) =
        (List.range m).map (compactPayload D ∘ Nat.succ) := by
      apply List.map_congr_left
      intro j _
      exact (hacc (j + 1)).2
    rw [hmap]
    have hall := payload_concat D (m + 1) (by intro _; simpa using Nat.le_of_lt hb1)
    rw [List.range_succ_eq_map, List.map_cons, List.flatten_cons, List.map_map] at hall
    rw [hall, List.take_of_length_le hb2]
  · intro s hs
    obtain ⟨j, _, rfl⟩ := List.mem_map.mp hs
    exact (hacc j).1

/-- **C09 (round trip).** Parsing the specified sequence of any non-empty list of non-empty
    transactions returns exactly those transactions, in order. -/
theorem parse_spec (ns : Bytes) (hc : CompactNs ns) (units : List Bytes) (hne : units ≠ [])
    (hu : NonEmptyUnits units) (hlt : (unitStream units).length < 4294967296) :
    parseTxs (Spec.compactSeq ns units) = .ok units := by
  have hpos : 0 < (unitStream units).length := by
    cases units with
    | nil => exact absurd rfl hne
    | cons u us =>
      have := uvarintLen_pos u.length
      simp [unitStream, uvarint_length]; omega
  obtain ⟨z, hex, hver⟩ := extract_full ns hc units hne hlt hpos
  have hcnt : 1 ≤ (Spec.compactSeq ns units).length := by
    rw [compactSeq_eq, List.length_map, List.length_range]; exact compactCount_pos hpos
  unfold parseTxs parseCompactShares
  have h1 : (Spec.compactSeq ns units).isEmpty = false := by
    cases hcs : Spec.compactSeq ns units with
    | nil => rw [hcs] at hcnt; simp at hcnt
    | cons a b => rfl
  have h2 : (Spec.compactSeq ns units).any (fun s => decide (Share.version s ≠ 0)) = false := by
    rw [List.any_eq_false]; intro s hs; simp [hver s hs]
  simp only [h1, Bool.false_eq_true, if_false, h2, hex, res_bind_ok]
  simpa using parseRawData_units units z _ [] hu (Nat.le_refl _)

/-- **C09 (end to end on the model of the code).** Write with the model of the splitter, export,
    parse: the transactions come back. -/
theorem roundtrip (ns : Bytes) (hc : CompactNs ns) (units : List Bytes) (hne : units ≠ [])
    (hu : NonEmptyUnits units) (hlt : (unitStream units).length < 4294967296) :
    ∃ c0 c shares, CompactSplitter.new ns 0 = .ok c0 ∧ units.foldlM (fun w t => w.writeTx t) c0 = .ok c ∧
      c.exportShares.map (·.2) = .ok shares ∧ parseTxs shares = .ok units := by
  obtain ⟨c0, c, h0, h1, h2, _⟩ := writer_eq_spec ns hc units hlt
  exact ⟨c0, c, _, h0, h1, h2, parse_spec ns hc units hne hu hlt⟩

/-- **C09 (sequence length and minimal share count).** The first share declares exactly the
    number of length-prefixed bytes; the sequence has `CompactSharesNeeded` of them shares, which is
    the minimum: one share fewer cannot hold them. -/
theorem seqLen_and_minimal (ns : Bytes) (hc : CompactNs ns) (units : List Bytes) (hne : units ≠ [])
    (hlt : (unitStream units).length < 4294967296) :
    (Spec.compactSeq ns units).length = compactSharesNeeded (unitStream units).length ∧
    (∀ s0 ∈ (Spec.compactSeq ns units).head?, Share.sequenceLen s0 = (unitStream units).length) ∧
    (unitStream units).length ≤ availableBytesFromCompactShares (Spec.compactSeq ns units).length ∧
    availableBytesFromCompactShares ((Spec.compactSeq ns units).length - 1) < (unitStream units).length := by
  have hpos : 0 < (unitStream units).length := by
    cases units with
    | nil => exact absurd rfl hne
    | cons u us =>
      have := uvarintLen_pos u.length
      simp [unitStream, uvarint_length]; omega
  have hlen : (Spec.compactSeq ns units).length = compactCount (unitStream units).length := by
    rw [compactSeq_eq, List.length_map, List.length_range]
  obtain ⟨hb1, hb2⟩ := compactCount_bounds _ hpos
  have hc1 := compactCount_pos hpos
  have hav : ∀ n, availableBytesFromCompactShares n = compactOff n := by
    intro n; unfold availableBytesFromCompactShares compactOff
    by_cases h0 : n = 0
    · simp [h0]
    · by_cases h1 : n = 1
      · simp [h1]
      · simp [h0, h1]; omega
  refine ⟨by rw [hlen, compactCount_eq_sizeOf, sizeOf_eq_compactSharesNeeded], ?_, by rw [hlen, hav]; exact hb2,
    by rw [hlen, hav]; exact hb1⟩
  intro s0 hs0
  rw [compactSeq_eq] at hs0
  obtain ⟨m, hm⟩ : ∃ m, compactCount (unitStream units).length = m + 1 :=
    ⟨compactCount (unitStream units).length - 1, by omega⟩
  rw [hm, List.range_succ_eq_map] at hs0
  simp only [List.map_cons, List.head?_cons, Option.mem_def, Option.some.injEq] at hs0
  subst hs0
  obtain ⟨_, _, _, hsl⟩ := first_compact_accessors ns (be32 (unitStream units).length) (compactPayload _ 0)
    (resOf (unitStarts 0 units) 0) hc (by simp) (by rw [compactPayload_length]; rfl) (resOf_lt _ 0) _
    (specShare_form0 ns _ _ hc.len)
  rw [hsl]; exact readBe32_be32 _ hlt _

/-- non-vacuity -/
example : NonEmptyUnits [[1, 2, 3], [4, 5]] := by
  intro u hu; simp at hu; rcases hu with rfl | rfl <;> simp

end GoSquare.C09
