import GoSquare.Proofs.SparseParse
/-! # C08 — blobs survive the sparse-share encoding round trip (share versions 0 and 1)

The writer is proved equal to the specified format (`sparseWrite_eq_spec`, Proofs/Sparse.lean);
here the reader is proved to invert it, for any sequence of valid blobs, any amount of namespace
padding after each blob, reserved padding before and tail padding after them, every data length. -/
namespace GoSquare.C08
open GoSquare Spec

/-- the sequence record the reader assembles for a blob (payload still zero padded) -/
def SeqOf (b : Blob) (q : SparseSeq) : Prop :=
  ∃ k, q = { ns := b.ns, ver := b.ver, data := b.data ++ zeros k, seqLen := b.data.length, signer := b.signer }

theorem paddingShare_isPad (ns : Bytes) (ver : Nat) (hns : ns.length = 29) (hv : ver = 0 ∨ ver = 1) :
    IsPad (paddingShare ns ver) := by
  have hv' : ver ≤ 127 := by omega
  have hform : paddingShare ns ver = ns ++ infoByte ver true :: (be32 0 ++ zeros 478) := by
    have e : 512 - (ns ++ [infoByte ver true] ++ be32 0).length = 478 := by
      simp only [List.length_append, List.length_cons, List.length_nil, hns, be32_length]
    simp only [paddingShare, fill]; rw [e]; simp only [List.append_assoc, List.cons_append, List.nil_append]
  obtain ⟨d1, d2, d3⟩ := decoded_of_cons ns ver true (be32 0 ++ zeros 478) hns hv'
  rw [← hform] at d1 d2 d3
  have hseq : Share.sequenceLen (paddingShare ns ver) = 0 := by
    simp only [Share.sequenceLen, d3, Bool.not_true, Bool.false_eq_true, if_false]
    rw [hform, drop30_of_cons _ _ _ hns, readBe32_be32 _ (by omega)]
  constructor
  · rw [Share.checkVersionSupported, d2]; rcases hv with h | h <;> simp [h]
  · simp [Share.isPadding, Share.isNamespacePadding, d3, hseq]

/-- the reader on the shares of one blob followed by padding -/
theorem parse_blob (b : Blob) (hb : b.BlobValid) (pads rest : List Bytes) (seqs : List SparseSeq)
    (hp : ∀ p ∈ pads, IsPad p) :
    ∃ q, SeqOf b q ∧ parseSparseLoop (sparseSeq b ++ pads ++ rest) seqs = parseSparseLoop rest (seqs ++ [q]) := by
  have hf := spec_first_share b hb
  simp only at hf
  obtain ⟨hfirst, hmk⟩ := hf
  generalize hsg : (if b.ver = 1 then b.signer.getD [] else ([] : Bytes)) = signer at hfirst hmk
  have hcap : 1 ≤ 478 - signer.length := by
    obtain ⟨⟨_, _, hver, hsig, _, _⟩, _⟩ := hb
    rcases hver with h | h
    · have : ¬ b.ver = 1 := by omega
      rw [← hsg]; simp [this]
    · obtain ⟨sg, hs, hl⟩ := hsig.2 h
      rw [← hsg]; simp [h, hs, hl]
  obtain ⟨k, hk⟩ := reassemble (478 - signer.length) hcap b.data
  refine ⟨_, ⟨k, rfl⟩, ?_⟩
  have hseq : sparseSeq b = fill (b.ns ++ [infoByte b.ver true] ++ be32 b.data.length ++ signer ++ b.data.take (478 - signer.length)) ::
      (chunksOf 482 (b.data.drop (478 - signer.length))).map (fun c => fill (b.ns ++ [infoByte b.ver false] ++ c)) := by
    simp only [sparseSeq, hsg]
  rw [hseq, List.cons_append, List.cons_append, loop_first _ _ _ hfirst, hmk, List.append_assoc,
    loop_cont _ _ _ _ (by
      intro c hc
      obtain ⟨c0, hc0, rfl⟩ := List.mem_map.mp hc
      exact (spec_cont_share b hb c0 (chunksOf_le 482 _ c0 hc0)).1),
    loop_pad _ _ _ hp]
  congr 3
  rw [List.map_map]
  have : (List.map (Share.rawData ∘ fun c => fill (b.ns ++ [infoByte b.ver false] ++ c))
      (chunksOf 482 (b.data.drop (478 - signer.length)))) =
      (chunksOf 482 (b.data.drop (478 - signer.length))).map contPayload := by
    apply List.map_congr_left
    intro c hc
    exact (spec_cont_share b hb c (chunksOf_le 482 _ c hc)).2
  rw [this]
  simp only
  rw [hk]

/-- pointwise relation of two lists (core has no `Forall₂`) -/
inductive All2 {α β : Type} (R : α → β → Prop) : List α → List β → Prop
  | nil : All2 R [] []
  | cons {a b l₁ l₂} : R a b → All2 R l₁ l₂ → All2 R (a :: l₁) (b :: l₂)

/-- blobs with `k` namespace padding shares after each -/
def layout (bs : List (Blob × Nat)) : List Bytes :=
  (bs.map (fun e => sparseSeq e.1 ++ List.replicate e.2 (paddingShare e.1.ns e.1.ver))).flatten

theorem parse_layout : ∀ (bs : List (Blob × Nat)) (rest : List Bytes) (seqs : List SparseSeq),
    (∀ e ∈ bs, e.1.BlobValid) →
    ∃ qs, All2 (fun q e => SeqOf e.1 q) qs bs ∧
      parseSparseLoop (layout bs ++ rest) seqs = parseSparseLoop rest (seqs ++ qs)
  | [], rest, seqs, _ => ⟨[], All2.nil, by simp [layout]⟩
  | e :: es, rest, seqs, h => by
    have hb := h e (by simp)
    have hpads : ∀ p ∈ List.replicate e.2 (paddingShare e.1.ns e.1.ver), IsPad p := by
      intro p hp
      rw [(List.mem_replicate.mp hp).2]
      exact paddingShare_isPad _ _ hb.valid.nsLen hb.valid.ver
    obtain ⟨q, hq, h1⟩ := parse_blob e.1 hb _ (layout es ++ rest) seqs hpads
    obtain ⟨qs, hqs, h2⟩ := parse_layout es rest (seqs ++ [q]) (fun x hx => h x (by simp [hx]))
    refine ⟨q :: qs, All2.cons hq hqs, ?_⟩
    have : layout (e :: es) ++ rest =
        sparseSeq e.1 ++ List.replicate e.2 (paddingShare e.1.ns e.1.ver) ++ (layout es ++ rest) := by
      simp [layout, List.append_assoc]
    rw [this, h1, h2, List.append_assoc]; rfl

theorem seqToBlob_of (b : Blob) (hb : b.BlobValid) (q : SparseSeq) (hq : SeqOf b q) : seqToBlob q = .ok b := by
  obtain ⟨k, rfl⟩ := hq
  obtain ⟨⟨hns, hnc, hver, hsig, hd1, hd2⟩, hnt, hnr, hnv⟩ := hb
  have h1 : ¬ (b.data.length > (b.data ++ zeros k).length) := by simp
  have hsl : slice (b.data ++ zeros k) 0 b.data.length = .ok b.data := by
    simp [slice]
  simp only [seqToBlob, h1, if_false, hsl, bind, Except.bind]
  have hd0 : ¬ b.data.length = 0 := by omega
  have hn0 : ¬ b.ns.length = 0 := by omega
  have hv0 : ¬ Ns.version b.ns ≠ 0 := by simp [hnv]
  rcases hver with h | h
  · simp [Blob.new, hd0, hn0, hnv, h, hsig.1 h]
    cases b; simp_all
  · obtain ⟨sg, hs, hl⟩ := hsig.2 h
    simp [Blob.new, hd0, hn0, hnv, h, hs, hl]
    cases b; simp_all

theorem mapM_seqToBlob : ∀ (qs : List SparseSeq) (bs : List (Blob × Nat)),
    All2 (fun q e => SeqOf e.1 q) qs bs → (∀ e ∈ bs, e.1.BlobValid) →
    qs.mapM seqToBlob = .ok (bs.map (·.1))
  | _, _, All2.nil, _ => rfl
  | _, _, All2.cons (a := q) (b := e) (l₁ := qs) (l₂ := es) hq hqs, h => by
    rw [List.mapM_cons, seqToBlob_of e.1 (h e (by simp)) q hq,
      mapM_seqToBlob qs es hqs (fun x hx => h x (by simp [hx]))]
    rfl

/-- **C08.** For any sequence of valid blobs in blob-valid namespaces (share version 0, or 1 with
    a 20-byte signer, any data length ≥ 1), with `k_i` namespace padding shares written after blob
    `i`, `a` reserved padding shares before and `z` tail padding shares after them, parsing the
    shares returns exactly the original blobs — namespace, data, share version, signer — in order. -/
theorem roundtrip (bs : List (Blob × Nat)) (a z : Nat) (hv : ∀ e ∈ bs, e.1.BlobValid) :
    parseSparseShares
      (List.replicate a (paddingShare primaryReservedPaddingNamespace 0) ++ layout bs ++
        List.replicate z (paddingShare tailPaddingNamespace 0)) = .ok (bs.map (·.1)) := by
  generalize hl : List.replicate a (paddingShare primaryReservedPaddingNamespace 0) ++ layout bs ++
        List.replicate z (paddingShare tailPaddingNamespace 0) = l
  unfold parseSparseShares
  by_cases h0 : l.length = 0
  · simp only [h0, if_true]
    have : layout bs = [] := by
      have := congrArg List.length hl
      simp only [List.length_append] at this
      exact List.eq_nil_of_length_eq_zero (by omega)
    cases bs with
    | nil => rfl
    | cons e es =>
      exfalso
      have hne : sparseSeq e.1 ≠ [] := by simp [sparseSeq]
      simp [layout] at this
      exact hne this.1
  · simp only [h0, if_false, bind, Except.bind]
    have hpa : ∀ p ∈ List.replicate a (paddingShare primaryReservedPaddingNamespace 0), IsPad p := by
      intro p hp; rw [(List.mem_replicate.mp hp).2]
      exact paddingShare_isPad _ _ (by decide) (Or.inl rfl)
    have hpz : ∀ p ∈ List.replicate z (paddingShare tailPaddingNamespace 0), IsPad p := by
      intro p hp; rw [(List.mem_replicate.mp hp).2]
      exact paddingShare_isPad _ _ (by decide) (Or.inl rfl)
    obtain ⟨qs, hqs, hparse⟩ := parse_layout bs (List.replicate z (paddingShare tailPaddingNamespace 0)) [] hv
    rw [← hl, List.append_assoc, loop_pad _ _ _ hpa, hparse]
    have : List.replicate z (paddingShare tailPaddingNamespace 0) = List.replicate z (paddingShare tailPaddingNamespace 0) ++ [] := by simp
    rw [this, loop_pad _ _ _ hpz]
    simp only [parseSparseLoop, List.nil_append]
    rw [mapM_seqToBlob qs bs hqs hv]

/-! ### the writer side: what `SparseShareSplitter` produces is that layout -/

/-- `Write(blob)` then `WriteNamespacePaddingShares(k)` for every (blob, k) -/
def writeAll : List (Blob × Nat) → List Bytes → Res (List Bytes)
  | [], acc => .ok acc
  | e :: rest, acc => do
    let s ← sparseWrite acc e.1
    let s ← sparseWritePadding s e.2
    writeAll rest s

theorem writeAll_eq_layout : ∀ (bs : List (Blob × Nat)) (acc : List Bytes), (∀ e ∈ bs, e.1.BlobValid) →
    writeAll bs acc = .ok (acc ++ layout bs)
  | [], acc, _ => by simp [writeAll, layout]
  | e :: es, acc, h => by
    have hb := h e (by simp)
    have hne : sparseSeq e.1 ≠ [] := by simp [sparseSeq]
    have hpad : sparseWritePadding (acc ++ sparseSeq e.1) e.2 =
        .ok (acc ++ sparseSeq e.1 ++ List.replicate e.2 (paddingShare e.1.ns e.1.ver)) := by
      unfold sparseWritePadding
      by_cases hk : e.2 = 0
      · simp [hk]
      · simp only [hk, if_false]
        have hlast : (acc ++ sparseSeq e.1).getLast? = some ((sparseSeq e.1).getLast hne) := by
          rw [List.getLast?_append, List.getLast?_eq_some_getLast hne]; rfl
        have hmem : (sparseSeq e.1).getLast hne ∈ sparseSeq e.1 := List.getLast_mem hne
        rw [hlast]
        simp only [(sparseSeq_shares e.1 hb.valid _ hmem).2, sparseSeq_version e.1 hb _ hmem]
        rw [namespacePaddingShares_eq_spec _ _ _ hb.valid.nsLen (by have := hb.valid.ver; omega) hb.valid.notCompact]
        rfl
    simp only [writeAll, sparseWrite_eq_spec acc e.1 hb.valid, hpad, bind, Except.bind]
    rw [writeAll_eq_layout es _ (fun x hx => h x (by simp [hx]))]
    simp [layout, List.append_assoc]

/-- **C08 (end to end on the model of the code).** Write the blobs and padding with the model of
    `SparseShareSplitter`, parse the exported shares: the original blobs come back. -/
theorem write_then_parse (bs : List (Blob × Nat)) (hv : ∀ e ∈ bs, e.1.BlobValid) :
    ∃ shares, writeAll bs [] = .ok shares ∧ parseSparseShares shares = .ok (bs.map (·.1)) := by
  refine ⟨layout bs, by simpa using writeAll_eq_layout bs [] hv, ?_⟩
  have := roundtrip bs 0 0 hv
  simpa using this

/-- non-vacuity: a version-1 blob spanning two shares is `BlobValid` -/
example : ({ ns := List.replicate 28 0 ++ [7], data := List.replicate 500 1, ver := 1,
             signer := some (List.replicate 20 9) } : Blob).BlobValid where
  valid := {
    nsLen := by simp
    notCompact := by decide
    ver := Or.inr rfl
    signer := And.intro (fun h => absurd h (by decide)) (fun _ => Exists.intro _ (And.intro rfl (by simp)))
    dataPos := by rw [List.length_replicate]; omega
    dataLt := by rw [List.length_replicate]; omega }
  notTail := by decide
  notResPad := by decide
  nsVer := by decide

end GoSquare.C08
