import GoSquare.Proofs.C05Core
import GoSquare.Proofs.CommitSquare
/-! # C05 — commitments computed from a blob in isolation match the row trees of the square

`Proofs/C05Core.lean` (namespace `GoSquare.C05`) proves the structural theorems over an ARBITRARY
hash (aligned block = inner node of its row tree; every mountain-range chunk of an aligned blob;
the commitment is the Merkle root of exactly the subtree roots). `Proofs/CommitSquare.lean`
instantiates them on every square `Construct` returns, using the C03/C04 refinement: the blob's own
shares sit verbatim at the recorded, width-aligned index of a `2^k × 2^k` square, and the leaves of
the row tree (`Share.ns s ++ s`) coincide with the leaves of the commitment tree (`blob.ns ++ s`)
on those shares. -/
namespace GoSquare.C05
open GoSquare Builder Spec

/-- **C05 on `Construct`, arbitrary hash functions.** For every blob `(p, j)` of a constructed
    square there are its recorded index `idx` and its subtree roots `roots` (computed from the blob
    alone) such that every root is the inner node of the square row's tree over the same shares and
    no subtree spans two rows (`CommitSquare.RowInnerNodes`). -/
theorem construct_subtree_roots {D : Type} (leafH : Bytes → D) (nodeH : D → D → D) (emptyH : D)
    (dec : Bytes → Decoded) (hdec : DecValid dec) (txs : List Bytes) (max thr : Nat)
    (hsz : 478 * (max * max) < 4294967296) (ht : 1 ≤ thr) (sq : List Bytes)
    (h : construct dec txs max thr = .ok sq) :
    ∃ k N bl, sq.length = 2 ^ k * 2 ^ k ∧ txs = N ++ bl ∧
      ∀ (p j : Nat) (raw : Bytes) (b : Blob), bl[p]? = some raw → (decB dec raw).blobs[j]? = some b →
        ∃ idx iw roots, (patched thr N (bl.map (decB dec)))[p]? = some iw ∧ iw.tx = (decB dec raw).tx ∧
          iw.shareIndexes[j]? = some (u32 idx) ∧
          (sq.drop idx).take (sparseSeq b).length = sparseSeq b ∧
          subtreeRootsWith (Nmt.rootWith leafH nodeH emptyH) b thr = .ok roots ∧
          CommitSquare.RowInnerNodes leafH nodeH emptyH sq k idx (CommitSquare.blobLeaves b)
            (mmrSizes (sparseSeq b).length (subTreeWidth (sparseSeq b).length thr)) roots :=
  CommitSquare.construct_subtree_roots_are_row_inner_nodes leafH nodeH emptyH dec hdec txs max thr hsz ht sq h

end GoSquare.C05
