import GoSquare.Proofs.C07Core
import GoSquare.Proofs.SpecLayout
/-! # C07 — Build and Construct are the specified layout function, byte for byte

`Spec.Layout` is an independent executable specification written from the layout rules (closed-form
share counts, insertion sort, `place`, `blobRegion`, index lookup by coordinates; no counters, no
splitters, no in-place patching). `Proofs/C07Core.lean` proves that selection, estimate and side
coincide; `Proofs/StableSort.lean` that the specification's insertion sort and the code's stable
sort give the same order (uniqueness of stable sorting); `Proofs/SpecLayout.lean` that
`Spec.layout` equals the closed form `squareOf` which `Build`/`Construct` are proved to return. -/
namespace GoSquare.C07
open GoSquare Builder Spec

/-- **C07 (`Build` = the specification).** -/
theorem build_is_the_specified_layout (dec : Bytes → Decoded) (hdec : DecValid dec) (txs : List Bytes) (max thr : Nat)
    (ht : 1 ≤ thr) (hcfg : Spec.validConfig max = true) (hsz : 478 * (max * max) < 4294967296)
    (sq kept : List Bytes) (h : build dec txs max thr = .ok (sq, kept)) :
    Spec.build dec txs max thr = some (sq, kept) :=
  SpecLayout.build_eq_spec dec hdec txs max thr ht hcfg hsz sq kept h

/-- **C07 (`Construct` = the specification).** -/
theorem construct_is_the_specified_layout (dec : Bytes → Decoded) (hdec : DecValid dec) (txs : List Bytes) (max thr : Nat)
    (ht : 1 ≤ thr) (hcfg : Spec.validConfig max = true) (hsz : 478 * (max * max) < 4294967296)
    (sq : List Bytes) (h : construct dec txs max thr = .ok sq) :
    Spec.construct dec txs max thr = some sq :=
  SpecLayout.construct_eq_spec dec hdec txs max thr ht hcfg hsz sq h

end GoSquare.C07
