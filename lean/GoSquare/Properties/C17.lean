import GoSquare.Model.Heap
import GoSquare.Proofs.Bytes
/-! # C17 — read-only operations do not modify their inputs (PARTIAL: heap model of the
accumulation pattern)

What is proved: in a model of Go slices over one flat memory (`Model/Heap.lean`), the pattern all
go-square readers use to collect payload —
`var data []byte; for … { data = append(data, view...) }` starting from nil (after the `fix:`
commit also in `parseSparseShares`, which now copies the first payload) — never writes below the
original heap size, whatever the capacities and sharing of the input views and whatever the
runtime's growth decisions. A counterexample shows that starting the accumulation from a *view*
with spare capacity (the pre-fix code) does modify the caller's memory.

What the model cannot exhibit: thread interleavings (the step to "no data race" is the Go memory
model: no writes to pre-existing memory + no package-level writes), and the construct / commit
paths, which are covered by the dynamic ALIAS stream (flat-buffer snapshots, concurrent readers,
`-race` in the thorough tier) only. -/
namespace GoSquare.C17
open GoSquare GoSquare.Heap

/-- a slice that cannot alias the first `n` bytes: nil, or allocated at or above `n` -/
def Above (n : Nat) (h : Heap) (s : Slice) : Prop := s = nilSlice ∨ (n ≤ s.off ∧ s.InBounds h)

theorem store_frame (h : Heap) (a : Nat) (xs : Bytes) (n : Nat) (hn : n ≤ a) (ha : a + xs.length ≤ h.length) :
    (store h a xs).take n = h.take n ∧ (store h a xs).length = h.length := by
  unfold store
  constructor
  · rw [List.append_assoc, List.take_append_of_le_length (by simp [List.length_take]; omega), List.take_take]
    congr 1; omega
  · simp only [List.length_append, List.length_take, List.length_drop]; omega

/-- **one append.** Appending to a slice that is nil or lies above `n` leaves the first `n` bytes
    of memory unchanged, never shrinks memory, and yields a slice that again lies above `n`. -/
theorem goAppend_frame (h : Heap) (s : Slice) (xs : Bytes) (extra n : Nat) (hn : n ≤ h.length)
    (hs : Above n h s) :
    (goAppend h s xs extra).1.take n = h.take n ∧ h.length ≤ (goAppend h s xs extra).1.length ∧
    Above n (goAppend h s xs extra).1 (goAppend h s xs extra).2 := by
  unfold goAppend
  by_cases hfit : s.len + xs.length ≤ s.cap
  · rw [if_pos hfit]
    rcases hs with rfl | ⟨hoff, hlc, hin⟩
    · have hx : xs = [] := by
        simp only [nilSlice, Nat.zero_add, Nat.le_zero] at hfit
        exact List.eq_nil_of_length_eq_zero hfit
      subst hx
      refine ⟨by simp [store, nilSlice], by simp [store, nilSlice], Or.inl (by simp [nilSlice])⟩
    · obtain ⟨f1, f2⟩ := store_frame h (s.off + s.len) xs n (by omega) (by omega)
      refine ⟨f1, ?_, Or.inr ⟨hoff, ?_, ?_⟩⟩
      · show h.length ≤ (store h (s.off + s.len) xs).length; omega
      · show s.len + xs.length ≤ s.cap; exact hfit
      · show s.off + s.cap ≤ (store h (s.off + s.len) xs).length; omega
  · rw [if_neg hfit]
    refine ⟨?_, by simp only [List.length_append]; omega, Or.inr ⟨hn, ?_, ?_⟩⟩
    · rw [List.append_assoc, List.take_append_of_le_length hn]
    · show s.len + xs.length ≤ s.len + xs.length + extra; omega
    · show h.length + (s.len + xs.length + extra) ≤ (h ++ (load h s ++ xs) ++ zeros extra).length
      rcases hs with rfl | ⟨_, hlc, hin⟩
      · simp [load, nilSlice]
      · have : (load h s).length = s.len := by
          simp only [load, List.length_take, List.length_drop]; omega
        simp only [List.length_append, zeros_length, this]; omega

/-- **C17 (accumulation pattern, every input layout).** Collecting any number of views — slices
    anywhere in memory, overlapping or not, with any capacities — into an accumulator that starts
    nil (or fresh) never changes the first `n` bytes of memory, for every `n` up to the heap size
    at the start: no byte that existed before the call is written. -/
theorem accumulate_frame : ∀ (views : List Slice) (h : Heap) (acc : Slice) (extras : List Nat) (n : Nat),
    n ≤ h.length → Above n h acc →
    (accumulate h acc views extras).1.take n = h.take n
  | [], _, _, _, _, _, _ => rfl
  | v :: vs, h, acc, extras, n, hn, ha => by
    obtain ⟨f1, f2, f3⟩ := goAppend_frame h acc (load h v) (extras.headD 0) n hn ha
    simp only [accumulate]
    rw [accumulate_frame vs _ _ extras.tail n (by omega) f3, f1]

/-- the whole pre-existing memory is untouched when the accumulator starts nil -/
theorem accumulate_from_nil_preserves_memory (views : List Slice) (h : Heap) (extras : List Nat) :
    (accumulate h nilSlice views extras).1.take h.length = h := by
  have := accumulate_frame views h nilSlice extras h.length (Nat.le_refl _) (Or.inl rfl)
  simpa using this

/-- **the pre-fix pattern is NOT frame-preserving** (documents F6): accumulating into a *view* of
    the first share (spare capacity behind it) overwrites the bytes that follow the view. -/
example :
    let h : Heap := [1, 2, 3, 4, 5, 6]
    let view0 : Slice := ⟨0, 2, 6⟩         -- bytes [1,2], capacity to the end of the buffer
    let view1 : Slice := ⟨4, 2, 2⟩         -- bytes [5,6]
    (accumulate h view0 [view1] []).1 = [1, 2, 5, 6, 5, 6] := by decide

/-- non-vacuity: the fixed pattern on the same memory leaves it intact and collects [1,2,5,6] -/
example :
    let h : Heap := [1, 2, 3, 4, 5, 6]
    let r := accumulate h nilSlice [⟨0, 2, 6⟩, ⟨4, 2, 2⟩] []
    r.1.take 6 = h ∧ load r.1 r.2 = [1, 2, 5, 6] := by decide

end GoSquare.C17
