import GoSquare.Proofs.BuildSquare
import GoSquare.Proofs.SquareWF
import GoSquare.Proofs.C06Core
import GoSquare.Properties.C18
/-! # C03 — every produced square is a well-formed, namespace-ordered power-of-two square

`Build`/`Construct` return the closed-form square `squareOf` (`build_square`, `construct_square`):
  tx shares ‖ pay-for-blob shares ‖ reserved padding ‖ blobs with their namespace padding ‖ tail padding,
where every piece that is not one of the two compact sequences or a blob's own shares is
`replicate _ (paddingShare ns ver)` — the canonical padding share (sequence start, length 0,
zero filled: `Spec.paddingShare`, C10). Here: the side is a power of two not exceeding the
maximum, there are exactly side² shares, each of 512 bytes, in non-decreasing namespace order. -/
namespace GoSquare.C03
open GoSquare Builder Spec

/-- what C03 claims of a square -/
structure WellFormed (max : Nat) (sq : List Bytes) : Prop where
  side : ∃ s, Nat.isPowerOfTwo s ∧ s ≤ max ∧ sq.length = s * s
  size : ∀ x ∈ sq, x.length = 512
  order : (sq.map Share.ns).Pairwise (fun a b => cmpBytes a b ≤ 0)

/-- blobs returned by the decoder lie in user namespaces (`ValidateForBlob`) -/
def DecUser (dec : Bytes → Decoded) : Prop := ∀ t bt, dec t = .blobTx bt → ∀ b ∈ bt.blobs, UserNs b.ns

theorem sizeOf_pos {T : Nat} (h : 0 < T) : 1 ≤ sizeOf T := by
  unfold sizeOf posOf; split <;> split <;> simp_all <;> omega

theorem wellFormed_of_isSquareOf (dec : Bytes → Decoded) (hdec : DecValid dec) (hus : DecUser dec)
    (max thr : Nat) (hmax : Nat.isPowerOfTwo max) (hsz : 478 * (max * max) < 4294967296)
    (N bl : List Bytes) (hbl : ∀ r ∈ bl, dec r = .blobTx (decB dec r))
    (hfit : closedEstimate thr N (bl.map (decB dec)) ≤ max * max)
    (sq : List Bytes) (h : IsSquareOf dec thr N bl sq) : WellFormed max sq := by
  have hv := decValid_kept dec hdec bl hbl
  have hu : ∀ t ∈ bl.map (decB dec), ∀ b ∈ t.blobs, UserNs b.ns := by
    intro t ht b hb
    obtain ⟨r, hr, rfl⟩ := List.mem_map.mp ht
    exact hus r _ (hbl r hr) b hb
  rcases h with ⟨_, _, rfl⟩ | ⟨hne, rfl, g1, g2, _⟩
  · -- the empty square: one tail padding share
    refine ⟨⟨1, ⟨0, rfl⟩, ?_, rfl⟩, ?_, by simp⟩
    · obtain ⟨k, rfl⟩ := hmax; exact Nat.one_le_two_pow
    · intro x hx; simp at hx; subst hx
      exact (paddingShare_wf tailPaddingNamespace 0 (by decide)).1
  · have hpos : 1 ≤ closedEstimate thr N (bl.map (decB dec)) := by
      unfold closedEstimate
      by_cases hN : N = []
      · have hb : bl ≠ [] := fun hc => hne ⟨hN, hc⟩
        cases bl with
        | nil => exact absurd rfl hb
        | cons r rs =>
          have : 1 ≤ sizeOf (((r :: rs).map (decB dec)).map (fun t => unitBytes (worstLen t))).sum := by
            apply sizeOf_pos
            simp only [List.map_cons, List.sum_cons]
            have := uvarintLen_pos (worstLen (decB dec r))
            unfold unitBytes; omega
          omega
      · cases N with
        | nil => exact absurd rfl hN
        | cons r rs =>
          have : 1 ≤ sizeOf (((r :: rs)).map (fun t => unitBytes t.length)).sum := by
            apply sizeOf_pos
            simp only [List.map_cons, List.sum_cons]
            have := uvarintLen_pos r.length
            unfold unitBytes; omega
          omega
    have h52 : closedEstimate thr N (bl.map (decB dec)) ≤ 2 ^ 52 := by
      have : (2:Nat) ^ 52 = 4503599627370496 := by decide
      omega
    obtain ⟨s1, _, _, s4⟩ := C06.side_is_minimal_and_bounded _ max hpos h52 hmax hfit
    exact ⟨⟨_, s1, s4, squareOf_length thr N _ _ g1 g2⟩, squareOf_shares_512 thr N _ _ hv,
      squareOf_ns_sorted thr N _ _ hv hu⟩

/-- **C03 (`Build`).** -/
theorem build_wellformed (dec : Bytes → Decoded) (hdec : DecValid dec) (hus : DecUser dec) (txs : List Bytes)
    (max thr : Nat) (hmax : Nat.isPowerOfTwo max) (hsz : 478 * (max * max) < 4294967296) (sq kept : List Bytes)
    (h : build dec txs max thr = .ok (sq, kept)) : WellFormed max sq := by
  obtain ⟨N, bl, _, _, hbl, hfit, hsq⟩ := build_square dec hdec txs max thr hsz sq kept h
  exact wellFormed_of_isSquareOf dec hdec hus max thr hmax hsz N bl hbl hfit sq hsq

/-- **C03 (`Construct`).** -/
theorem construct_wellformed (dec : Bytes → Decoded) (hdec : DecValid dec) (hus : DecUser dec) (txs : List Bytes)
    (max thr : Nat) (hmax : Nat.isPowerOfTwo max) (hsz : 478 * (max * max) < 4294967296) (sq : List Bytes)
    (h : construct dec txs max thr = .ok sq) : WellFormed max sq := by
  obtain ⟨N, bl, _, _, hbl, hfit, hsq⟩ := construct_square dec hdec txs max thr hsz sq h
  exact wellFormed_of_isSquareOf dec hdec hus max thr hmax hsz N bl hbl hfit sq hsq

/-- every namespace `ValidateForBlob` accepts is a user namespace in the sense used above -/
theorem userNs_of_validateForBlob (n : Bytes) (h : Ns.validateForBlob n = true) : UserNs n := by
  obtain ⟨hv, hgt⟩ := (C18.validateForBlob_spec n).mp h
  have h1 : cmpBytes primaryReservedPaddingNamespace n = -1 := (cmpBytes_lt_iff _ _).mpr hgt
  have h2 : cmpBytes n minSecondaryReservedNamespace = -1 := (cmpBytes_lt_iff _ _).mpr (C18.lt_of_head_zero hv _)
  have h3 : cmpBytes minSecondaryReservedNamespace tailPaddingNamespace ≤ 0 := by decide
  have h4 := cmpBytes_le_trans n _ _ (by omega) h3
  refine ⟨by omega, ?_⟩
  rcases cmpBytes_range n tailPaddingNamespace with hc | hc | hc
  · omega
  · exfalso
    have := (cmpBytes_eq_iff _ _).mp hc
    rw [this] at hv; revert hv; decide
  · omega

/-- a user namespace as `ValidateForBlob` accepts it satisfies `UserNs` (non-vacuity) -/
example : UserNs (List.replicate 19 0 ++ List.replicate 10 1) := by unfold UserNs; decide

end GoSquare.C03
