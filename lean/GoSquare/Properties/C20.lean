import GoSquare.Proofs.C20Core
import GoSquare.Proofs.Tiling
/-! # C20 — namespace range lookup and sequence parsing agree with the square

`Proofs/C20Core.lean` (namespace `GoSquare.C20`): on any namespace-ordered share list the lookup
returns exactly the run of the queried namespace, `(0,0)` when absent. `Proofs/Tiling.lean`:
`ParseShares` tiles every constructed square exactly — consecutive sequences, each of one
namespace and of the length its first share declares — and with padding ignored yields precisely
the transaction sequence, the pay-for-blob sequence and one sequence per blob in square order
whose payload is the blob's data. -/
namespace GoSquare.C20
open GoSquare Builder Spec

/-- **C20 (tiling of every constructed square).** -/
theorem parseShares_tiles_constructed_squares (dec : Bytes → Decoded) (hdec : DecValid dec) (max thr : Nat)
    (hsz : 478 * (max * max) < 4294967296) (N bl : List Bytes)
    (hblb : ∀ r ∈ bl, dec r = .blobTx (decB dec r)) (hfit : closedEstimate thr N (bl.map (decB dec)) ≤ max * max)
    (sq : List Bytes) (h : IsSquareOf dec thr N bl sq) :
    parseShares sq true = .ok (Tiling.dataSeqs thr N (bl.map (decB dec))) ∧
    ∃ qs, parseShares sq false = .ok qs ∧ (qs.map (·.shares)).flatten = sq ∧ (∀ q ∈ qs, Tiling.Good q) ∧
      qs.filter (fun q => !q.isPadding) = Tiling.dataSeqs thr N (bl.map (decB dec)) :=
  Tiling.parseShares_isSquareOf dec hdec max thr hsz N bl hblb hfit sq h

/-- **C20 (payloads).** The payload of a blob's sequence is the blob's data. -/
theorem blob_sequence_payload (b : Blob) (hb : b.BlobValid) : (Tiling.blobSeq b).rawData = .ok b.data :=
  Tiling.blobSeq_rawData b hb

end GoSquare.C20
