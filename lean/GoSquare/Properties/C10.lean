import GoSquare.Properties.C08
import GoSquare.Proofs.CompactSub
/-! # C10 — share wire format is byte-exact per the share specification

`Spec.Format` is written field by field from the share specification, independently of the Go
writer and reader. Here: the sparse (blob) writer and the padding constructors emit exactly the
specified bytes; the accessors decode exactly the specified fields; the info byte and the reserved
bytes are exact for ALL values. (The compact writer against `Spec.compactSeq` is C09's file.) -/
namespace GoSquare.C10
open GoSquare Spec

/-- **C10 (blob shares).** The sparse writer emits exactly the specified sequence: 29-byte
    namespace, info byte, sequence length and (version 1) signer in the first share only, payload,
    zero fill. -/
theorem blob_shares_are_as_specified (acc : List Bytes) (b : Blob) (hb : b.Valid) :
    sparseWrite acc b = .ok (acc ++ Spec.sparseSeq b) := sparseWrite_eq_spec acc b hb

/-- **C10 (padding shares).** Namespace, reserved and tail padding are the specified padding
    share: sequence start, length 0, zero filled. -/
theorem padding_shares_are_as_specified (ns : Bytes) (ver n : Nat) (hns : ns.length = 29) (hv : ver ≤ 127)
    (hc : isCompactNs ns = false) :
    namespacePaddingShares ns ver n = .ok (List.replicate n (Spec.paddingShare ns ver)) :=
  namespacePaddingShares_eq_spec ns ver n hns hv hc

theorem reserved_and_tail_padding (n : Nat) :
    reservedPaddingShares n = .ok (List.replicate n (Spec.paddingShare primaryReservedPaddingNamespace 0)) ∧
    tailPaddingShares n = .ok (List.replicate n (Spec.paddingShare tailPaddingNamespace 0)) :=
  ⟨namespacePaddingShares_eq_spec _ 0 n (by decide) (by omega) (by decide),
   namespacePaddingShares_eq_spec _ 0 n (by decide) (by omega) (by decide)⟩

/-- **C10 (info byte, all 256 values).** Every byte parses to itself: version = byte >> 1 (at most
    127), start flag = byte & 1, and `NewInfoByte` re-packs them as `version << 1 | start`. -/
theorem infoByte_all (b : UInt8) :
    parseInfoByte b = .ok b ∧ newInfoByte (b.toNat / 2) (b.toNat % 2 == 1) = .ok b := by
  have key : newInfoByte (b.toNat / 2) (b.toNat % 2 == 1) = .ok b := by
    unfold newInfoByte
    have hlt := b.toNat_lt
    have : ¬ b.toNat / 2 > 127 := by omega
    simp only [this, if_false]
    congr 1
    apply UInt8.toNat_inj.mp
    by_cases h : b.toNat % 2 = 1
    · simp [h]; omega
    · have h0 : b.toNat % 2 = 0 := by omega
      simp [h0]; omega
  exact ⟨by unfold parseInfoByte; exact key, key⟩

theorem newInfoByte_rejects (v : Nat) (s : Bool) : (newInfoByte v s = .error .err) ↔ v > 127 := by
  unfold newInfoByte; by_cases h : v > 127 <;> simp [h]

/-- **C10 (reserved bytes, all values).** 4-byte big endian, accepted exactly below the share size. -/
theorem reservedBytes_spec (r : Nat) (h : r < 4294967296) :
    (newReservedBytes r = .ok (be32 r) ↔ r < 512) ∧
    (parseReservedBytes (be32 r) = .ok r ↔ r < 512) ∧ (r ≥ 512 → parseReservedBytes (be32 r) = .error .err) := by
  have hrb : readBe32 (be32 r) = r := by simpa using readBe32_be32 r h []
  refine ⟨?_, ?_, ?_⟩
  · unfold newReservedBytes; split <;> simp <;> omega
  · unfold parseReservedBytes; simp [hrb]
  · intro hge; unfold parseReservedBytes; simp [hrb]; omega

/-- **C10 (accessors on blob shares).** On every specified share of a valid blob the accessors
    return exactly the fields that were encoded: namespace, version, start flag, sequence length
    (first share only), signer (first share of version 1 only), payload, "not padding". -/
theorem accessors_on_blob_shares (b : Blob) (hb : b.BlobValid) :
    let signer : Bytes := if b.ver = 1 then b.signer.getD [] else []
    let cap0 := 478 - signer.length
    let first := fill (b.ns ++ [infoByte b.ver true] ++ be32 b.data.length ++ signer ++ b.data.take cap0)
    (Share.ns first = b.ns ∧ Share.version first = b.ver ∧ Share.isSequenceStart first = true ∧
      Share.sequenceLen first = b.data.length ∧ Share.signer first = b.signer ∧ Share.isPadding first = false ∧
      Share.rawData first = b.data.take cap0 ++ zeros (cap0 - (b.data.take cap0).length)) ∧
    (∀ c, c.length ≤ 482 →
      let s := fill (b.ns ++ [infoByte b.ver false] ++ c)
      Share.isSequenceStart s = false ∧ Share.isPadding s = false ∧
      Share.rawData s = c ++ zeros (512 - (30 + c.length))) := by
  intro signer cap0 first
  have hf := spec_first_share b hb
  simp only at hf
  obtain ⟨⟨_, h2, h3⟩, hmk⟩ := hf
  refine ⟨⟨?_, ?_, h3, ?_, ?_, h2, ?_⟩, ?_⟩
  · have := congrArg SparseSeq.ns hmk; simp only [mkSeq] at this; exact this
  · have := congrArg SparseSeq.ver hmk; simp only [mkSeq] at this; exact this
  · have := congrArg SparseSeq.seqLen hmk; simp only [mkSeq] at this; exact this
  · have := congrArg SparseSeq.signer hmk; simp only [mkSeq] at this; exact this
  · have := congrArg SparseSeq.data hmk; simp only [mkSeq] at this; exact this
  · intro c hc
    obtain ⟨⟨_, a2, a3⟩, a4⟩ := spec_cont_share b hb c hc
    exact ⟨a3, a2, a4⟩

/-- **C10 (accessors on padding shares).** -/
theorem accessors_on_padding (ns : Bytes) (ver : Nat) (hns : ns.length = 29) (hv : ver = 0 ∨ ver = 1) :
    Share.isPadding (Spec.paddingShare ns ver) = true := (C08.paddingShare_isPad ns ver hns hv).2

/-- **C10 (accessors on compact shares).** On EVERY share of a specified compact sequence (= what the
    compact writer emits, C09), whatever the transactions: share version 0; the payload accessor
    returns the share's slice of the zero-padded unit stream; entering through the reserved bytes
    returns nothing when no unit starts in the share and otherwise the payload from the first unit
    start. -/
theorem accessors_on_compact_shares (ns : Bytes) (hc : CompactNs ns) (D : Bytes) (S : List Nat) (j : Nat) :
    Share.version (specShare ns D S j) = 0 ∧ Share.rawData (specShare ns D S j) = compactPayload D j ∧
    Share.rawDataUsingReserved (specShare ns D S j) =
      .ok (if resOf S j = 0 then [] else (compactPayload D j).drop (resOf S j - compactHdr j)) :=
  spec_share_accessors ns hc D S j

end GoSquare.C10
