import GoSquare.Proofs.Bytes
import GoSquare.Model.Builder
/-! # C16 — decoders are total: malformed input yields an error, never a panic

The decoder entry points are modelled *panic-aware*: every data-dependent Go slice expression is
a checked `slice` / `sliceFrom` that returns `.error .panic` when Go would panic, and every loop
runs on explicit fuel whose exhaustion is also `.panic`. The theorems say that outcome is
unreachable for ANY list of 512-byte shares (no other assumption on their contents).
protobuf-go and encoding/json are modelled as total functions (trusted not to panic). -/
namespace GoSquare.C16
open GoSquare

/-- the outcome is a value or an error, not a panic -/
def NoPanic {α} (r : Res α) : Prop := r ≠ .error .panic

theorem noPanic_ok {α} (v : α) : NoPanic (.ok v : Res α) := by simp [NoPanic]
theorem noPanic_err {α} : NoPanic (.error .err : Res α) := by simp [NoPanic]

theorem noPanic_bind {α β} {r : Res α} {f : α → Res β} (h1 : NoPanic r) (h2 : ∀ v, r = .ok v → NoPanic (f v)) :
    NoPanic (r >>= f) := by
  cases r with
  | ok v => exact h2 v rfl
  | error e =>
    cases e with
    | err => simp [NoPanic, bind, Except.bind]
    | panic => exact absurd rfl h1

theorem slice_ok {α} (s : List α) (a b : Nat) (h : a ≤ b ∧ b ≤ s.length) : ∃ v, slice s a b = .ok v := by
  simp [slice, h]
theorem sliceFrom_ok {α} (s : List α) (a : Nat) (h : a ≤ s.length) : ∃ v, sliceFrom s a = .ok v := by
  simp [sliceFrom, h]

/-! ### varint delimiter -/

/-- a varint that the reader accepts after `k` bytes has a value below `128^k` -/
theorem readUvarintAux_bound : ∀ (bs : Bytes) (i shift acc v n : Nat), shift = 7 * i → acc < 2 ^ (7 * i) →
    readUvarintAux bs i shift acc = some (v, n) → v < 2 ^ (7 * n) ∧ i < n ∧ n ≤ i + bs.length
  | [], _, _, _, _, _, _, _, h => by simp [readUvarintAux] at h
  | b :: rest, i, shift, acc, v, n, hs, ha, h => by
    rw [readUvarintAux] at h
    by_cases h10 : i ≥ 10
    · simp [h10] at h
    · simp only [h10, if_false] at h
      by_cases hb : b < 128
      · simp only [hb, if_true] at h
        by_cases h9 : i = 9 ∧ b > 1
        · simp [h9] at h
        · simp only [h9, if_false, Option.some.injEq, Prod.mk.injEq] at h
          obtain ⟨rfl, rfl⟩ := h
          have hbn : b.toNat < 128 := by rwa [UInt8.lt_iff_toNat_lt] at hb
          refine ⟨?_, by omega, by simp⟩
          subst hs
          have e : 2 ^ (7 * (i + 1)) = 2 ^ (7 * i) * 128 := by
            rw [Nat.mul_add, Nat.pow_add]
          rw [e]
          have : b.toNat * 2 ^ (7 * i) ≤ 127 * 2 ^ (7 * i) := Nat.mul_le_mul_right _ (by omega)
          omega
      · simp only [hb, if_false] at h
        have hbn : ¬ b.toNat < 128 := by rwa [UInt8.lt_iff_toNat_lt] at hb
        have hb256 := b.toNat_lt
        have := readUvarintAux_bound rest (i + 1) (shift + 7) (acc + (b.toNat - 128) * 2 ^ shift) v n
          (by omega) (by
            subst hs
            have e : 2 ^ (7 * (i + 1)) = 2 ^ (7 * i) * 128 := by
              rw [Nat.mul_add, Nat.pow_add]
            rw [e]
            have : (b.toNat - 128) * 2 ^ (7 * i) ≤ 127 * 2 ^ (7 * i) := Nat.mul_le_mul_right _ (by omega)
            omega) h
        simp only [List.length_cons]
        omega

theorem uvarintLen_le_of_lt : ∀ (k m : Nat), m < 128 ^ k → 1 ≤ k → uvarintLen m ≤ k := by
  intro k
  induction k with
  | zero => intro m _ hk; omega
  | succ k ih =>
    intro m hm _
    rw [uvarintLen]
    split
    · omega
    · rename_i h128
      have : m / 128 < 128 ^ k := by
        rw [Nat.pow_succ] at hm
        exact (Nat.div_lt_iff_lt_mul (by omega)).mpr hm
      have hk1 : 1 ≤ k := by
        rcases Nat.eq_zero_or_pos k with h0 | h0
        · subst h0; simp at this; omega
        · exact h0
      have := ih (m / 128) this hk1
      omega

/-- `parseDelimiter` never panics, and it consumes at least one byte of a non-empty input -/
theorem parseDelimiter_spec (input : Bytes) :
    NoPanic (parseDelimiter input) ∧
    ∀ rest n, parseDelimiter input = .ok (rest, n) → n ≠ 0 → rest.length + 1 ≤ input.length := by
  unfold parseDelimiter
  by_cases h0 : input.length = 0
  · simp [h0, NoPanic]
  · simp only [h0, if_false]
    cases hr : readUvarint (input.take (min 10 input.length) ++ zeros (10 - min 10 input.length)) with
    | none => simp [NoPanic]
    | some p =>
      obtain ⟨v, c⟩ := p
      simp only
      have hb := readUvarintAux_bound _ 0 0 0 v c rfl (by simp) (by simpa [readUvarint] using hr)
      by_cases hc : c > min 10 input.length
      · simp [hc, NoPanic]
      · simp only [hc, if_false]
        have hvl : uvarintLen v ≤ c := uvarintLen_le_of_lt c v (by
          have : (128:Nat) ^ c = 2 ^ (7 * c) := by rw [Nat.pow_mul]
          rw [this]; exact hb.1) (by omega)
        have hle : uvarintLen v ≤ input.length := by
          have : min 10 input.length ≤ input.length := Nat.min_le_right _ _
          omega
        have hpos := uvarintLen_pos v
        simp only [sliceFrom, hle, if_true, bind, Except.bind]
        refine ⟨by simp [NoPanic], ?_⟩
        intro rest n heq _
        simp only [Except.ok.injEq, Prod.mk.injEq] at heq
        obtain ⟨rfl, rfl⟩ := heq
        simp only [List.length_drop]; omega

theorem parseRawData_noPanic : ∀ (fuel : Nat) (raw : Bytes) (units : List Bytes), raw.length + 1 ≤ fuel →
    NoPanic (parseRawData fuel raw units)
  | 0, _, _, h => by omega
  | fuel + 1, raw, units, h => by
    rw [parseRawData]
    obtain ⟨hnp, hlen⟩ := parseDelimiter_spec raw
    apply noPanic_bind hnp
    intro p hp
    obtain ⟨actual, unitLen⟩ := p
    simp only
    by_cases hz : unitLen = 0
    · simp [hz, NoPanic]
    · simp only [hz, if_false]
      by_cases hgt : unitLen > actual.length
      · simp [hgt, NoPanic]
      · simp only [hgt, if_false]
        apply parseRawData_noPanic
        have := hlen actual unitLen hp hz
        simp only [List.length_drop]; omega

/-! ### compact shares -/

theorem guarded_sliceFrom (s : Bytes) (i : Nat) :
    NoPanic (if s.length < i then (.error .err : Res Bytes) else sliceFrom s i) := by
  by_cases h : s.length < i
  · simp [h, NoPanic]
  · have : i ≤ s.length := by omega
    simp [h, NoPanic, sliceFrom, this]

theorem rawDataUsingReserved_noPanic (s : Bytes) (hs : s.length = 512) : NoPanic (Share.rawDataUsingReserved s) := by
  unfold Share.rawDataUsingReserved Share.rawDataStartIndexUsingReserved
  simp only
  generalize hidx : (30 + (if Share.isSequenceStart s = true then 4 else 0) +
      if (Share.isSequenceStart s && Share.version s == 1) = true then 20 else 0) = idx
  have hi : idx ≤ 54 := by rw [← hidx]; split <;> split <;> omega
  by_cases hc : Share.isCompactShare s = true
  · simp only [hc, if_true]
    obtain ⟨rb, hrb⟩ := slice_ok s idx (idx + 4) ⟨by omega, by omega⟩
    simp only [hrb, bind, Except.bind]
    unfold parseReservedBytes
    by_cases hl : rb.length ≠ 4
    · simp [hl, NoPanic]
    · simp only [hl, if_false]
      by_cases h512 : 512 ≤ readBe32 rb
      · simp [h512, NoPanic]
      · simp only [h512, if_false]
        by_cases hz : readBe32 rb = 0
        · simp [hz, NoPanic]
        · simp only [hz, if_false]
          exact guarded_sliceFrom _ _
  · simp only [hc, Bool.false_eq_true, if_false, bind, Except.bind]
    by_cases hz : idx = 0
    · simp [hz, NoPanic]
    · simp only [hz, if_false]
      exact guarded_sliceFrom _ _

theorem extractRawData_noPanic : ∀ (shares : List Bytes) (found : Bool), (∀ s ∈ shares, s.length = 512) →
    NoPanic (extractRawData shares found)
  | [], _, _ => by simp [extractRawData, NoPanic]
  | s :: rest, found, h => by
    rw [extractRawData]
    by_cases hf : found = true
    · simp only [hf, Bool.not_true, Bool.false_eq_true, if_false]
      apply noPanic_bind (extractRawData_noPanic rest true (fun x hx => h x (by simp [hx])))
      intro v _; exact noPanic_ok _
    · simp only [hf, Bool.not_false, if_true]
      apply noPanic_bind (rawDataUsingReserved_noPanic s (h s (by simp)))
      intro raw _
      apply noPanic_bind (extractRawData_noPanic rest _ (fun x hx => h x (by simp [hx])))
      intro v _; exact noPanic_ok _

/-- **C16 (ParseTxs).** -/
theorem parseTxs_total (shares : List Bytes) (h : ∀ s ∈ shares, s.length = 512) : NoPanic (parseTxs shares) := by
  unfold parseTxs parseCompactShares
  split
  · exact noPanic_ok _
  · split
    · exact noPanic_err
    · apply noPanic_bind (extractRawData_noPanic shares false h)
      intro raw _
      exact parseRawData_noPanic _ _ _ (Nat.le_refl _)

/-! ### sparse shares, sequences -/

theorem parseSparseLoop_noPanic : ∀ (shares : List Bytes) (seqs : List SparseSeq), NoPanic (parseSparseLoop shares seqs)
  | [], _ => by simp [parseSparseLoop, NoPanic]
  | s :: rest, seqs => by
    rw [parseSparseLoop]
    split
    · exact noPanic_err
    · split
      · exact parseSparseLoop_noPanic rest seqs
      · split
        · exact parseSparseLoop_noPanic rest _
        · split
          · exact noPanic_err
          · exact parseSparseLoop_noPanic rest _

theorem seqToBlob_noPanic (q : SparseSeq) : NoPanic (seqToBlob q) := by
  unfold seqToBlob
  split
  · exact noPanic_err
  · rename_i h
    obtain ⟨d, hd⟩ := slice_ok q.data 0 q.seqLen ⟨by omega, by omega⟩
    simp only [hd, bind, Except.bind]
    split <;> simp [NoPanic]

theorem mapM_noPanic {α β} (f : α → Res β) (hf : ∀ a, NoPanic (f a)) : ∀ (l : List α), NoPanic (l.mapM f)
  | [] => by simp [NoPanic, List.mapM_nil, pure, Except.pure]
  | a :: l => by
    rw [List.mapM_cons]
    apply noPanic_bind (hf a)
    intro v _
    apply noPanic_bind (mapM_noPanic f hf l)
    intro vs _; simp [NoPanic, pure, Except.pure]

/-- **C16 (ParseBlobs).** For every share list whatsoever. -/
theorem parseBlobs_total (shares : List Bytes) : NoPanic (parseBlobs shares) := by
  unfold parseBlobs parseSparseShares
  split
  · exact noPanic_ok _
  · apply noPanic_bind (parseSparseLoop_noPanic shares [])
    intro seqs _
    exact mapM_noPanic _ seqToBlob_noPanic seqs

theorem parseSharesLoop_noPanic : ∀ (shares : List Bytes) (seqs : List Sequence) (cur : Sequence),
    NoPanic (parseSharesLoop shares seqs cur)
  | [], _, _ => by simp [parseSharesLoop, NoPanic]
  | s :: rest, seqs, cur => by
    rw [parseSharesLoop]
    split
    · exact parseSharesLoop_noPanic rest _ _
    · split
      · exact noPanic_err
      · exact parseSharesLoop_noPanic rest _ _

/-- **C16 (ParseShares).** -/
theorem parseShares_total (shares : List Bytes) (ign : Bool) : NoPanic (parseShares shares ign) := by
  unfold parseShares
  apply noPanic_bind (parseSharesLoop_noPanic shares [] _)
  intro p _
  obtain ⟨seqs, cur⟩ := p
  simp only
  split <;> split <;> simp [NoPanic]

/-- **C16 (Sequence.RawData).** -/
theorem sequenceRawData_total (q : Sequence) : NoPanic q.rawData := by
  unfold Sequence.rawData
  simp only
  generalize (q.shares.foldl (fun acc s => acc ++ Share.rawData s) []) = data
  have : NoPanic q.sequenceLen := by unfold Sequence.sequenceLen; split <;> simp [NoPanic]
  apply noPanic_bind this
  intro n _
  split
  · exact noPanic_err
  · rename_i h
    obtain ⟨d, hd⟩ := slice_ok data 0 n ⟨by omega, by omega⟩
    rw [hd]; exact noPanic_ok _

/-! ### range lookup, wrapped PFBs, Deconstruct -/

theorem rangeLoop_bounds (q : Bytes) (total : Nat) : ∀ (l : List Bytes) (i : Nat) (start : Option Nat),
    i + l.length = total → (∀ st, start = some st → st ≤ i) →
    (rangeLoop q total l i start).1 ≤ (rangeLoop q total l i start).2 ∧ (rangeLoop q total l i start).2 ≤ total
  | [], i, none, _, _ => by simp [rangeLoop]
  | [], i, some st, h, hs => by
    have := hs st rfl
    simp only [List.length_nil, Nat.add_zero] at h
    simp [rangeLoop]; omega
  | s :: rest, i, start, h, hs => by
    rw [rangeLoop]
    simp only [List.length_cons] at h
    split
    · rename_i hc
      simp only [Bool.and_eq_true] at hc
      obtain ⟨st, hst⟩ := Option.isSome_iff_exists.mp hc.2
      have := hs st hst
      simp [hst]; omega
    · apply rangeLoop_bounds q total rest (i + 1) _ (by omega)
      intro st hst
      split at hst
      · simp at hst; omega
      · have := hs st hst; omega

theorem getShareRange_bounds (l : List Bytes) (q : Bytes) :
    (getShareRangeForNamespace l q).1 ≤ (getShareRangeForNamespace l q).2 ∧
    (getShareRangeForNamespace l q).2 ≤ l.length := by
  unfold getShareRangeForNamespace
  cases l with
  | nil => simp
  | cons s0 rest =>
    simp only
    split
    · simp
    · split
      · simp
      · exact rangeLoop_bounds q _ (s0 :: rest) 0 none (by simp) (by intro st h; cases h)

theorem slice_mem {α} {s v : List α} {a b : Nat} (h : slice s a b = .ok v) : ∀ x ∈ v, x ∈ s := by
  unfold slice at h
  split at h
  · simp only [Except.ok.injEq] at h
    subst h
    intro x hx
    exact List.mem_of_mem_drop (List.mem_of_mem_take hx)
  · cases h

/-- **C16 (Square.WrappedPFBs).** -/
theorem wrappedPFBs_total (s : List Bytes) (h : ∀ x ∈ s, x.length = 512) : NoPanic (wrappedPFBs s) := by
  unfold wrappedPFBs
  have hb := getShareRange_bounds s payForBlobNamespace
  generalize getShareRangeForNamespace s payForBlobNamespace = r at hb
  obtain ⟨st, en⟩ := r
  simp only at hb ⊢
  simp only [bind, Except.bind, pure, Except.pure]
  split
  · exact noPanic_ok _
  · obtain ⟨sub, hsub⟩ := slice_ok s st en ⟨hb.1, hb.2⟩
    simp only [hsub]
    exact parseTxs_total sub (fun x hx => h x (slice_mem hsub x hx))

theorem deconstructBlobs_noPanic (s : List Bytes) : ∀ (idx sizes : List Nat), idx.length = sizes.length →
    NoPanic (deconstructBlobs s idx sizes)
  | [], _, _ => by simp [deconstructBlobs, NoPanic]
  | i :: is, [], h => by simp at h
  | i :: is, z :: zs, h => by
    rw [deconstructBlobs]
    simp only [bind, Except.bind, pure, Except.pure]
    split
    · exact noPanic_err
    · rename_i h1
      split
      · exact noPanic_err
      · rename_i h2
        obtain ⟨sub, hsub⟩ := slice_ok s i (i + sparseSharesNeededWithSigner z (Share.version (s.getD i []) == 1))
          ⟨by omega, by omega⟩
        simp only [hsub]
        have hp := parseBlobs_total sub
        cases hpb : parseBlobs sub with
        | error e =>
          cases e with
          | err => simp [NoPanic]
          | panic => exact absurd hpb hp
        | ok parsed =>
          simp only
          split
          · have := deconstructBlobs_noPanic s is zs (by simpa using h)
            cases hr : deconstructBlobs s is zs with
            | error e =>
              cases e with
              | err => simp [NoPanic]
              | panic => exact absurd hr this
            | ok v => simp [NoPanic]
          · exact noPanic_err

theorem deconstructPfbs_noPanic (s : List Bytes) (pfbDec : Bytes → Res (List Nat)) (hdec : ∀ t, NoPanic (pfbDec t)) :
    ∀ (ws : List Bytes), NoPanic (deconstructPfbs s pfbDec ws)
  | [] => by simp [deconstructPfbs, NoPanic]
  | w :: rest => by
    rw [deconstructPfbs]
    split
    · exact noPanic_err
    · rename_i iw _
      simp only [bind, Except.bind, pure, Except.pure]
      split
      · exact noPanic_err
      · have hd := hdec iw.tx
        cases hs : pfbDec iw.tx with
        | error e =>
          cases e with
          | err => simp [NoPanic]
          | panic => exact absurd hs hd
        | ok sizes =>
          simp only
          split
          · exact noPanic_err
          · rename_i hlen
            have hb := deconstructBlobs_noPanic s iw.shareIndexes sizes (by
              simp only [ne_eq, Decidable.not_not] at hlen; omega)
            cases hbl : deconstructBlobs s iw.shareIndexes sizes with
            | error e =>
              cases e with
              | err => simp [NoPanic]
              | panic => exact absurd hbl hb
            | ok blobs =>
              simp only
              split
              · exact noPanic_err
              · have := deconstructPfbs_noPanic s pfbDec hdec rest
                cases hr : deconstructPfbs s pfbDec rest with
                | error e =>
                  cases e with
                  | err => simp [NoPanic]
                  | panic => exact absurd hr this
                | ok v => simp [NoPanic]

/-- **C16 (Deconstruct).** For every square of 512-byte shares and every PFB decoder that itself
    does not panic — including squares whose wrapped PFBs carry arbitrary share indexes and whose
    inner transactions declare arbitrary blob sizes. -/
theorem deconstruct_total (s : List Bytes) (pfbDec : Bytes → Res (List Nat)) (h : ∀ x ∈ s, x.length = 512)
    (hdec : ∀ t, NoPanic (pfbDec t)) : NoPanic (deconstruct s pfbDec) := by
  unfold deconstruct
  split
  · exact noPanic_ok _
  · have hb := getShareRange_bounds s txNamespace
    generalize getShareRangeForNamespace s txNamespace = r at hb
    obtain ⟨txS, txE⟩ := r
    simp only at hb ⊢
    simp only [bind, Except.bind, pure, Except.pure]
    split
    · exact noPanic_err
    · obtain ⟨after, hafter⟩ := sliceFrom_ok s txE hb.2
      simp only [hafter]
      have hal : after.length = s.length - txE := by
        simp only [sliceFrom, hb.2, if_true, Except.ok.injEq] at hafter
        rw [← hafter, List.length_drop]
      have hw := getShareRange_bounds after payForBlobNamespace
      generalize getShareRangeForNamespace after payForBlobNamespace = rw at hw
      obtain ⟨wS, wE⟩ := rw
      simp only at hw ⊢
      obtain ⟨txSub, htx⟩ := slice_ok s txS txE ⟨hb.1, hb.2⟩
      have htxp := parseTxs_total txSub (fun x hx => h x (slice_mem htx x hx))
      split
      · simp only [htx]; exact htxp
      · split
        · exact noPanic_err
        · simp only [htx]
          cases hpt : parseTxs txSub with
          | error e =>
            cases e with
            | err => simp [NoPanic]
            | panic => exact absurd hpt htxp
          | ok txs =>
            simp only
            obtain ⟨wSub, hws⟩ := slice_ok s (wS + txE) (wE + txE) ⟨by omega, by omega⟩
            simp only [hws]
            have hwp := parseTxs_total wSub (fun x hx => h x (slice_mem hws x hx))
            cases hpw : parseTxs wSub with
            | error e =>
              cases e with
              | err => simp [NoPanic]
              | panic => exact absurd hpw hwp
            | ok wpfbs =>
              simp only
              have := deconstructPfbs_noPanic s pfbDec hdec wpfbs
              cases hr : deconstructPfbs s pfbDec wpfbs with
              | error e =>
                cases e with
                | err => simp [NoPanic]
                | panic => exact absurd hr this
              | ok v => simp [NoPanic]

/-- non-vacuity: a share declaring a sequence length far beyond the data present is an error
    (evaluated: the model computes `.error .err`, not `.panic`) -/
example : (match parseBlobs [List.replicate 28 0 ++ [7] ++ [1] ++ be32 4096 ++ zeros 478] with
    | .error .err => true | _ => false) = true := by
  decide +kernel

end GoSquare.C16
