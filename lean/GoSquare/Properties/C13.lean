import GoSquare.Proofs.Counter
/-! # C13 — share-count predictions equal what the encoders produce (counter and closed forms)

Property theorems only; helper lemmas live in `GoSquare/Proofs/Counter.lean`.
The encoder side (`(exportAll txs).length = compactSharesNeeded T`, `(sparseShares b).length =
sparseSharesNeededWithSigner …`) is in `Properties/C09.lean` / `Properties/C08.lean`. -/
namespace GoSquare.C13
open GoSquare

/-- operations of a counter history -/
inductive Op where
  | add (n : Nat)
  | revert
  deriving Repr

def step (c : Counter) : Op → Counter
  | .add n => (c.add n).1
  | .revert => c.revert

/-- the counter after a history, from `NewCompactShareCounter()` -/
def run (ops : List Op) : Counter := ops.foldl step {}

/-- what a history *means*: the data lengths still counted, and whether the last operation was
    an add. A revert cancels the immediately preceding add; at the start, or directly after
    another revert, it does nothing ("only works the first time after an add", counter.go). -/
def effStep (s : List Nat × Bool) : Op → List Nat × Bool
  | .add n => (s.1 ++ [n], true)
  | .revert => if s.2 then (s.1.dropLast, false) else (s.1, false)

def eff (ops : List Op) : List Nat := (ops.foldl effStep ([], false)).1

/-- bytes a list of transactions occupies in a compact sequence: each is length-prefixed -/
def total (lens : List Nat) : Nat := (lens.map (fun n => n + uvarintLen n)).sum

theorem total_append (a : List Nat) (n : Nat) : total (a ++ [n]) = total a + (n + uvarintLen n) := by
  simp [total]

theorem total_dropLast_add (a : List Nat) (n : Nat) : total (a ++ [n]).dropLast = total a := by
  simp

/-- invariant of the history induction -/
structure Inv (c : Counter) (s : List Nat × Bool) : Prop where
  cur : c.At (total s.1)
  lastAdd : s.2 = true → c.lastShares = (posOf (total s.1.dropLast)).1 ∧ c.lastRemainder = (posOf (total s.1.dropLast)).2
  lastOther : s.2 = false → c.lastShares = c.shares ∧ c.lastRemainder = c.remainder

theorem inv_step (c : Counter) (s : List Nat × Bool) (op : Op) (h : Inv c s) : Inv (step c op) (effStep s op) := by
  cases op with
  | add n =>
    have ha := Counter.add_at c (total s.1) n h.cur
    refine ⟨?_, ?_, ?_⟩
    · simpa [step, effStep, total_append] using ha.1
    · intro _
      simp only [step, effStep, List.dropLast_concat]
      rw [ha.2.1, ha.2.2, h.cur.1, h.cur.2]; exact ⟨rfl, rfl⟩
    · intro hf; simp [effStep] at hf
  | revert =>
    by_cases hl : s.2 = true
    · obtain ⟨h1, h2⟩ := h.lastAdd hl
      refine ⟨?_, ?_, ?_⟩
      · simp only [step, effStep, hl, if_true, Counter.revert, Counter.At]
        exact ⟨h1, h2⟩
      · intro hf; simp [effStep, hl] at hf
      · intro _; simp [step, Counter.revert]
    · have hl' : s.2 = false := by simpa using hl
      obtain ⟨h1, h2⟩ := h.lastOther hl'
      refine ⟨?_, ?_, ?_⟩
      · simp only [step, effStep, hl', Counter.revert, Counter.At]
        rw [h1, h2]; exact h.cur
      · intro hf; simp [effStep, hl'] at hf
      · intro _; simp [step, Counter.revert]

theorem inv_run (ops : List Op) : Inv (run ops) (ops.foldl effStep ([], false)) := by
  suffices ∀ c s, Inv c s → Inv (ops.foldl step c) (ops.foldl effStep s) from
    this {} ([], false) ⟨⟨rfl, rfl⟩, (by intro h; cases h), (by intro _; exact ⟨rfl, rfl⟩)⟩
  induction ops with
  | nil => intro c s h; exact h
  | cons op ops ih => intro c s h; exact ih _ _ (inv_step c s op h)

/-- **C13 (counter, every history).** After any sequence of additions and single-step reverts the
    counter holds exactly the position the effective transactions' total length implies: its
    share count is the closed form `compactSharesNeeded`, its remainder the in-share offset. -/
theorem counter_history (ops : List Op) :
    (run ops).size = compactSharesNeeded (total (eff ops)) ∧
    (run ops).remainder = (posOf (total (eff ops))).2 := by
  have h := (inv_run ops).cur
  exact ⟨by rw [Counter.size_of_at h, sizeOf_eq_compactSharesNeeded]; rfl, h.2⟩

/-- **C13 (increment).** `Add` returns exactly the change of the share count, in every state. -/
theorem add_increment (c : Counter) (n : Nat) :
    (c.add n).2 = ((c.add n).1.size : Int) - (c.size : Int) := Counter.add_diff c n

/-- **C13 (revert).** A revert directly after an add restores share count and remainder. -/
theorem add_revert (c : Counter) (n : Nat) :
    ((c.add n).1.revert).shares = c.shares ∧ ((c.add n).1.revert).remainder = c.remainder := by
  simp [Counter.add, Counter.revert]

/-- **C13 (closed forms are exact inverses, compact).** `n` shares hold exactly
    `available n` bytes: that many bytes need `n` shares and one more byte needs `n + 1`. -/
theorem compact_inverse (n : Nat) (hn : 1 ≤ n) :
    compactSharesNeeded (availableBytesFromCompactShares n) = n ∧
    compactSharesNeeded (availableBytesFromCompactShares n + 1) = n + 1 := by
  unfold compactSharesNeeded availableBytesFromCompactShares
  by_cases h1 : n = 1
  · subst h1; simp
  · have h0 : n ≠ 0 := by omega
    simp only [h0, h1, if_false]
    constructor
    · have e : (n - 1) * 478 + 474 - 474 = (n - 1) * 478 := by omega
      have a : ¬ ((n - 1) * 478 + 474 = 0) := by omega
      have b : ¬ ((n - 1) * 478 + 474 < 474) := by omega
      simp only [a, b, if_false, e, Nat.mul_mod_left, Nat.mul_div_left _ (by omega : 0 < 478)]
      simp; omega
    · have e : (n - 1) * 478 + 474 + 1 - 474 = (n - 1) * 478 + 1 := by omega
      have a : ¬ ((n - 1) * 478 + 474 + 1 = 0) := by omega
      have b : ¬ ((n - 1) * 478 + 474 + 1 < 474) := by omega
      simp only [a, b, if_false, e]
      have m : ((n - 1) * 478 + 1) % 478 = 1 := by omega
      have d : ((n - 1) * 478 + 1) / 478 = n - 1 := by omega
      simp [m, d]; omega

/-- **C13 (closed forms are exact inverses, sparse).** -/
theorem sparse_inverse (n : Nat) (hn : 1 ≤ n) :
    sparseSharesNeeded (availableBytesFromSparseShares n) = n ∧
    sparseSharesNeeded (availableBytesFromSparseShares n + 1) = n + 1 := by
  unfold sparseSharesNeeded sparseSharesNeededWithSigner availableBytesFromSparseShares
  by_cases h1 : n = 1
  · subst h1; simp
  · have h0 : n ≠ 0 := by omega
    simp only [h0, h1, if_false]
    constructor
    · have e : (n - 1) * 482 + 478 - 478 = (n - 1) * 482 := by omega
      have a : ¬ ((n - 1) * 482 + 478 = 0) := by omega
      have b : ¬ ((n - 1) * 482 + 478 < 478) := by omega
      simp only [a, b, if_false, e, Nat.mul_mod_left, Nat.mul_div_left _ (by omega : 0 < 482), Bool.false_eq_true]
      simp; omega
    · have e : (n - 1) * 482 + 478 + 1 - 478 = (n - 1) * 482 + 1 := by omega
      have a : ¬ ((n - 1) * 482 + 478 + 1 = 0) := by omega
      have b : ¬ ((n - 1) * 482 + 478 + 1 < 478) := by omega
      simp only [a, b, if_false, e, Bool.false_eq_true]
      have m : ((n - 1) * 482 + 1) % 482 = 1 := by omega
      have d : ((n - 1) * 482 + 1) / 482 = n - 1 := by omega
      simp [m, d]; omega

/-- non-vacuity: a concrete history with a cancelled add, a dead revert and a share overflow -/
example : eff [.add 100, .add 400, .revert, .revert, .add 500] = [100, 500] := by decide
example : (run [.add 100, .add 400, .revert, .revert, .add 500]).size = 2 := by
  simp [run, step, Counter.add, Counter.revert, Counter.advance, Counter.size, uvarintLen]

end GoSquare.C13
