import GoSquare.Proofs.Builder
/-! # C01 — proposer-built and validator-reconstructed squares are byte-identical

`Build` greedily keeps transactions; `Construct` of exactly the kept list succeeds and yields the
same square. Proved for EVERY transaction list, every classifier `dec` (the protobuf decoder is a
parameter), every configuration: the builder's accept decision is a function of the closed-form
worst-case estimate of what was kept so far (Proofs/Builder.lean), the estimate is monotone, so
replaying the kept list — ordinary transactions first, blob transactions after — accepts
everything and reaches a builder that agrees with Build's on every field `Export` reads.
Determinism ("repeating either operation yields the same bytes") is by construction: `build` and
`construct` are functions. -/
namespace GoSquare.C01
open GoSquare

/-- `Export`'s square depends only on the fields `exportCore` reads -/
theorem export_congr (b1 b2 : Builder) (h1 : b1.thr = b2.thr) (h2 : b1.currentSize = b2.currentSize)
    (h3 : b1.txs = b2.txs) (h4 : b1.pfbs = b2.pfbs) (h5 : b1.blobs = b2.blobs)
    (h6 : b1.txCounter.size = b2.txCounter.size) (h7 : b1.pfbCounter.size = b2.pfbCounter.size) :
    b1.exportSquare.map (·.2) = b2.exportSquare.map (·.2) := by
  unfold Builder.exportSquare
  rw [h1, h2, h3, h4, h5, h6, h7]
  cases Builder.exportCore b2.thr b2.currentSize b2.txs b2.pfbs b2.blobs b2.txCounter.size b2.pfbCounter.size with
  | error e => rfl
  | ok r =>
    obtain ⟨upd, sq⟩ := r
    cases upd with
    | none => rfl
    | some p => rfl

theorem kept_export_eq (b1 b2 : Builder) (N : List Bytes) (B : List BlobTx) (k1 : Kept b1 N B) (k2 : Kept b2 N B)
    (ht : b1.thr = b2.thr) : b1.exportSquare.map (·.2) = b2.exportSquare.map (·.2) := by
  apply export_congr b1 b2 ht
  · rw [k1.size, k2.size, ht]
  · rw [k1.txs, k2.txs]
  · rw [k1.pfbs, k2.pfbs]
  · rw [k1.blobs, k2.blobs, ht]
  · rw [Counter.size_of_at k1.txC, Counter.size_of_at k2.txC]
  · rw [Counter.size_of_at k1.pfbC, Counter.size_of_at k2.pfbC]

/-- replaying the kept ordinary transactions: everything is accepted -/
theorem replay_normals (dec : Bytes → Decoded) (N : List Bytes) (B : List BlobTx) (tail : List Bytes) :
    ∀ (suf pre : List Bytes) (b : Builder), pre ++ suf = N → Kept b pre [] → (∀ r ∈ N, dec r = .normal) →
    closedEstimate b.thr N B ≤ b.maxSquareSize * b.maxSquareSize →
    ∃ b', Builder.appendAll dec (suf ++ tail) b false = Builder.appendAll dec tail b' false ∧ Kept b' N [] ∧
      b'.thr = b.thr ∧ b'.maxSquareSize = b.maxSquareSize
  | [], pre, b, hp, hk, _, _ => ⟨b, by simp, by rw [← hp]; simpa using hk, rfl, rfl⟩
  | t :: suf, pre, b, hp, hk, hn, hfit => by
    have hdt : dec t = .normal := hn t (by rw [← hp]; simp)
    obtain ⟨hiff, hacc, _⟩ := appendTx_spec b pre [] t hk
    have hpre : pre ++ [t] = N.take (pre.length + 1) := by
      rw [← hp, show pre ++ t :: suf = (pre ++ [t]) ++ suf by simp, List.take_left' (by simp)]
    have hle : closedEstimate b.thr (pre ++ [t]) [] ≤ b.maxSquareSize * b.maxSquareSize := by
      have := closedEstimate_mono b.thr N B (pre.length + 1) 0
      rw [← hpre] at this; simp only [List.take_zero] at this; omega
    have ha : (b.appendTx t).2 = true := hiff.mpr hle
    obtain ⟨hk1, ht1, hm1⟩ := hacc ha
    obtain ⟨b', he, hk', ht', hm'⟩ := replay_normals dec N B tail suf (pre ++ [t]) (b.appendTx t).1
      (by rw [← hp]; simp) hk1 hn (by rw [ht1, hm1]; exact hfit)
    refine ⟨b', ?_, hk', by rw [ht', ht1], by rw [hm', hm1]⟩
    rw [List.cons_append, Builder.appendAll, hdt]
    simp only [Bool.false_eq_true, if_false]
    generalize hr : b.appendTx t = r at ha he
    obtain ⟨r1, r2⟩ := r
    simp only at ha he ⊢
    rw [ha]; simp only [if_true]; exact he

/-- replaying the kept blob transactions: everything is accepted -/
theorem replay_blobs (dec : Bytes → Decoded) (N : List Bytes) (Braw : List Bytes) :
    ∀ (suf pre : List Bytes) (b : Builder) (seen : Bool), pre ++ suf = Braw → Kept b N (pre.map (decB dec)) →
    (∀ r ∈ Braw, dec r = .blobTx (decB dec r)) →
    closedEstimate b.thr N (Braw.map (decB dec)) ≤ b.maxSquareSize * b.maxSquareSize →
    ∃ b', Builder.appendAll dec suf b seen = .ok b' ∧ Kept b' N (Braw.map (decB dec)) ∧ b'.thr = b.thr
  | [], pre, b, seen, hp, hk, _, _ => ⟨b, rfl, by rw [← hp]; simpa using hk, rfl⟩
  | t :: suf, pre, b, seen, hp, hk, hb, hfit => by
    have hdt : dec t = .blobTx (decB dec t) := hb t (by rw [← hp]; simp)
    obtain ⟨hiff, hacc, _⟩ := appendBlobTx_spec b N (pre.map (decB dec)) (decB dec t) hk
    have hpre : pre.map (decB dec) ++ [decB dec t] = (Braw.map (decB dec)).take (pre.length + 1) := by
      rw [← hp, show pre ++ t :: suf = (pre ++ [t]) ++ suf by simp, List.map_append, List.map_append,
        List.take_left' (by simp)]
      rfl
    have hle : closedEstimate b.thr N (pre.map (decB dec) ++ [decB dec t]) ≤ b.maxSquareSize * b.maxSquareSize := by
      have := closedEstimate_mono b.thr N (Braw.map (decB dec)) N.length (pre.length + 1)
      rw [← hpre, List.take_length] at this; omega
    have ha : (b.appendBlobTx (decB dec t)).2 = true := hiff.mpr hle
    obtain ⟨hk1, ht1, hm1⟩ := hacc ha
    obtain ⟨b', he, hk', ht'⟩ := replay_blobs dec N Braw suf (pre ++ [t]) (b.appendBlobTx (decB dec t)).1 true
      (by rw [← hp]; simp) (by rw [List.map_append]; exact hk1) hb (by rw [ht1, hm1]; exact hfit)
    refine ⟨b', ?_, hk', by rw [ht', ht1]⟩
    rw [Builder.appendAll, hdt]
    simp only
    generalize hr : b.appendBlobTx (decB dec t) = r at ha he
    obtain ⟨r1, r2⟩ := r
    simp only at ha he ⊢
    rw [ha]; simp only [if_true]; exact he

/-- **C01.** If `Build` returns a square and a kept list, then: the kept list is the kept ordinary
    transactions followed by the kept blob transactions, each a subsequence of the input's ordinary
    (blob) transactions in input order; and `Construct` of exactly that list succeeds with a
    byte-identical square. -/
theorem build_then_construct (dec : Bytes → Decoded) (txs : List Bytes) (max thr : Nat)
    (sq : List Bytes) (kept : List Bytes) (h : build dec txs max thr = .ok (sq, kept)) :
    (∃ kn kb, kept = kn ++ kb ∧
      kn.Sublist (txs.filter (fun t => dec t == .normal)) ∧ kb.Sublist (txs.filter (fun t => dec t != .normal)) ∧
      (∀ r ∈ kn, dec r = .normal) ∧ (∀ r ∈ kb, ∃ bt, dec r = .blobTx bt)) ∧
    construct dec kept max thr = .ok sq := by
  unfold build at h
  cases hnew : Builder.new max thr with
  | error e => rw [hnew] at h; cases h
  | ok b0 =>
    rw [hnew] at h
    simp only [bind, Except.bind] at h
    obtain ⟨hk0, ht0, hm0⟩ := kept_new max thr b0 hnew
    cases hloop : buildLoop dec txs b0 [] [] with
    | error e => rw [hloop] at h; cases h
    | ok r =>
      obtain ⟨b, n, bl⟩ := r
      rw [hloop] at h
      simp only at h
      cases hexp : b.exportSquare with
      | error e => rw [hexp] at h; cases h
      | ok r2 =>
        obtain ⟨b2, sq2⟩ := r2
        rw [hexp] at h
        simp only [Except.ok.injEq, Prod.mk.injEq] at h
        obtain ⟨rfl, rfl⟩ := h
        obtain ⟨hk, hthr, hmax, hbl, hn, ⟨kn, hkn, hn'⟩, ⟨kb, hkb, hb'⟩⟩ := buildLoop_spec dec txs b0 [] [] b n bl
          (by simpa using hk0) (by simp) (by simp) hloop
        simp only [List.nil_append] at hn' hb'
        rw [← hn'] at hkn
        rw [← hb'] at hkb
        clear hn' hb'
        refine ⟨⟨n, bl, rfl, hkn, hkb, hn, fun r hr => ⟨_, hbl r hr⟩⟩, ?_⟩
        -- replay the kept list through Construct
        have hfit : closedEstimate b0.thr n (bl.map (decB dec)) ≤ b0.maxSquareSize * b0.maxSquareSize := by
          rw [← hthr, ← hmax]; exact hk.fit
        obtain ⟨b1, he1, hk1, ht1, hm1⟩ := replay_normals dec n (bl.map (decB dec)) bl n [] b0 (by simp)
          (by simpa using hk0) hn hfit
        obtain ⟨b3, he3, hk3, ht3⟩ := replay_blobs dec n bl bl [] b1 false (by simp) (by simpa using hk1) hbl
          (by rw [ht1, hm1]; exact hfit)
        have hsame := kept_export_eq b3 b n (bl.map (decB dec)) hk3 hk (by rw [ht3, ht1, hthr])
        unfold construct Builder.newWithTxs
        simp only [hnew, bind, Except.bind, he1, he3]
        rw [hexp] at hsame
        cases hx : b3.exportSquare with
        | error e => rw [hx] at hsame; cases hsame
        | ok r3 =>
          rw [hx] at hsame
          simp only [Except.map, Except.ok.injEq] at hsame
          simp [hsame]

/-- non-vacuity: `build` succeeds on the empty list (the 1x1 tail padding square) -/
example : (match build (fun _ => .normal) [] 4 64 with | .ok r => r.2 == [] && r.1.length == 1 | .error _ => false) = true := by
  decide +kernel

end GoSquare.C01
