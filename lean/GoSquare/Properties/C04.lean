import GoSquare.Proofs.C04Core
import GoSquare.Proofs.BlobRange
import GoSquare.Proofs.WrappedPFBs
/-! # C04 — recorded blob share indexes are truthful and satisfy the alignment rule

The statements live in `Proofs/C04Core.lean` (namespace `GoSquare.C04`: `every_blob_is_placed`,
`recorded_index_is_truthful`, `ranges_disjoint_and_ordered`, `construct_indexes`) and
`Proofs/BlobRange.lean` (`blobShareRange_spec`). This module gathers them. -/
namespace GoSquare.C04
open GoSquare Builder Spec

/-- **C04 (the blob-range query returns exactly that range).** -/
theorem blobShareRange_returns_the_range (dec : Bytes → Decoded) (hdec : DecValid dec) (txs : List Bytes) (max thr : Nat)
    (hsz : 478 * (max * max) < 4294967296) (b0 : Builder) (hb0 : Builder.newWithTxs dec max thr txs = .ok b0) :
    ∃ N bl, txs = N ++ bl ∧ (∀ r ∈ N, dec r = .normal) ∧ (∀ r ∈ bl, dec r = .blobTx (decB dec r)) ∧
      ∀ (p j : Nat) (raw : Bytes) (blob : Blob), bl[p]? = some raw → (decB dec raw).blobs[j]? = some blob →
        ∀ (sq : List Bytes) (b1 : Builder), b0.exportSquare = .ok (b1, sq) →
        ∃ k idx, Placed thr N (bl.map (decB dec)) k (newElement blob p j thr) idx ∧
          blobShareRange dec txs ((N.length + p : Nat) : Int) ((j : Nat) : Int) max thr =
            .ok (u32 idx, u32 idx + (sparseSeq blob).length) :=
  blobShareRange_spec dec hdec txs max thr hsz b0 hb0

/-- **C04 (the index is recorded in the square).** `Square.WrappedPFBs` — parsing the square's own
    pay-for-blob shares — returns exactly the marshalled wrappers `patched thr N B` in which
    `recorded_index_is_truthful` locates every index; each unmarshals to itself (C19). -/
theorem wrappedPFBs_are_the_recorded_wrappers (thr : Nat) (N : List Bytes) (B : List BlobTx) (ss : Nat)
    (hv : ∀ t ∈ B, ∀ bl ∈ t.blobs, bl.BlobValid) (hu : ∀ t ∈ B, ∀ bl ∈ t.blobs, UserNs bl.ns)
    (hB : B ≠ []) (hst2 : (unitStream ((patched thr N B).map (·.marshal))).length < 4294967296) :
    wrappedPFBs (squareOf thr N B ss) = .ok ((patched thr N B).map (·.marshal)) :=
  WrappedPFBs.wrappedPFBs_squareOf thr N B ss hv hu hB hst2

end GoSquare.C04
