import GoSquare.Proofs.Json
/-! # C19, JSON part — namespaces, shares and blobs survive their JSON encoding; acceptance through JSON

`Model/Json.lean` models `base64.StdEncoding` and the output of `encoding/json` for the three
`MarshalJSON` methods completely, and the three `UnmarshalJSON` methods on the canonical fragment
of JSON (what the encoders emit, plus members in any order, duplicates, `null`, explicit empty
strings, numbers up to any size). The JSON correspondence stream compares encoders byte-for-byte
and decoders on every document of the fragment; documents outside it are answered `outside` by the
model and are covered by Go-side oracles only. -/
namespace GoSquare.C19
open GoSquare GoSquare.Json GoSquare.Proto

/-- **C19 (base64).** every byte string survives `EncodeToString` / `DecodeString`. -/
theorem base64_roundtrip (b : Bytes) : b64Decode (b64Encode b) = some b := JsonProofs.b64_roundtrip b

/-- **C19 (JSON round trips).** A namespace `NewNamespaceFromBytes` accepts, a 512-byte share and a blob
    the constructors accept (valid blob in a well-formed namespace) each decode from their own
    `MarshalJSON` output to the value that was encoded. -/
theorem json_roundtrips :
    (∀ ns : Bytes, Ns.fromBytes ns = some ns → unmarshalNs (marshalNs ns) = .ok ns) ∧
    (∀ s : Bytes, s.length = 512 → unmarshalShare (marshalShare s) = .ok s) ∧
    (∀ b : Blob, ProtoBlob b → unmarshalBlob (marshalBlob b) = .ok b) :=
  ⟨JsonProofs.ns_json_roundtrip, JsonProofs.share_json_roundtrip, JsonProofs.blob_json_roundtrip⟩

theorem blobNew_fields (ns data : Bytes) (ver : Nat) (signer : Option Bytes) (b : Blob)
    (h : Blob.new ns data ver signer = some b) : b = { ns, data, ver, signer } := by
  unfold Blob.new at h
  repeat' split at h
  all_goals first | (cases h; done) | (cases h; rfl) | (simp only [Option.some.injEq] at h; exact h.symm)

/-- **C19 (acceptance through JSON).** Whatever `Blob.UnmarshalJSON` returns satisfies the acceptance
    predicate of `NewBlob`: non-empty data, a well-formed version-0 namespace, and share version 0
    without signer or share version 1 with a 20-byte signer. No JSON document of the modelled fragment
    produces any other blob. -/
theorem json_blob_accepted (doc : Bytes) (b : Blob) (h : unmarshalBlob doc = .ok b) :
    b.data ≠ [] ∧ Ns.validate b.ns = true ∧ Ns.version b.ns = 0 ∧
      ((b.ver = 0 ∧ b.signer = none) ∨ (b.ver = 1 ∧ ∃ s, b.signer = some s ∧ s.length = 20)) := by
  obtain ⟨pb, hpb⟩ := JsonProofs.unmarshalBlob_ok doc b h
  have hacc := (blobFromProto_accepts_iff pb).mp (by rw [hpb]; rfl)
  obtain ⟨_, _, ns, hns, hnew⟩ := hacc
  have hb : Blob.fromProto pb = Blob.new ns pb.data pb.shareVersion (if pb.signer.length = 0 then none else some pb.signer) := by
    unfold Blob.fromProto
    rw [if_neg (by omega), if_neg (by omega), hns]
  rw [hb] at hpb
  have hf := blobNew_fields _ _ _ _ b hpb
  have hv : Ns.validate ns = true := by
    unfold Ns.new at hns
    simp only at hns
    split at hns
    · simp only [Option.some.injEq] at hns; subst hns; assumption
    · cases hns
  have hiff := (newBlob_accepts_iff ns pb.data pb.shareVersion (if pb.signer.length = 0 then none else some pb.signer)).mp
    (by rw [hpb]; rfl)
  obtain ⟨hd, _, hver, hs⟩ := hiff
  subst hf
  exact ⟨hd, hv, hver, hs⟩

/-- non-vacuity: a concrete accepted version-1 blob round-trips through JSON -/
def sampleBlob : Blob :=
  { ns := 0 :: (List.replicate 18 0 ++ [1, 2, 3, 4, 5, 6, 7, 8, 9, 10]), data := [1, 2, 3], ver := 1,
    signer := some (List.replicate 20 7) }
theorem sampleBlob_proto : ProtoBlob sampleBlob := by
  refine ⟨⟨⟨by decide, by decide, Or.inr rfl, ⟨?_, ?_⟩, by decide, by decide⟩, by decide, by decide, by decide⟩, by decide⟩
  · intro h; exact absurd h (by decide)
  · intro _; exact ⟨_, rfl, by decide⟩
example : unmarshalBlob (marshalBlob sampleBlob) = .ok sampleBlob :=
  JsonProofs.blob_json_roundtrip sampleBlob sampleBlob_proto

end GoSquare.C19
