import GoSquare.Proofs.C06Core
import GoSquare.Proofs.BuildTotal
/-! # C06 — capacity accounting never under-counts; greedy building never fails

`Proofs/C06Core.lean` (namespace `GoSquare.C06`): the estimate invariant over every append
history, refusal iff, refused = observably unchanged, minimal side ≤ max, padding ≤ reservation.
`Proofs/ExportTotal.lean` / `Proofs/BuildTotal.lean`: none of `Export`'s defensive checks can fire
on a reachable state (maxSquareSize ≤ 512), the occupied shares never exceed the estimate, and
`Build` returns no error whenever every blob transaction decodes. -/
namespace GoSquare.C06
open GoSquare Builder Spec

/-- **C06 (greedy building returns no error).** -/
theorem build_returns_no_error (dec : Bytes → Decoded) (hdec : DecValid dec) (txs : List Bytes)
    (hall : ∀ t ∈ txs, dec t ≠ .badBlobTx) (max thr : Nat) (ht : 1 ≤ thr)
    (hcfg : isPowerOfTwo max = true) (hmaxp : Nat.isPowerOfTwo max) (hmax : max ≤ 512) :
    ∃ sq kept, build dec txs max thr = .ok (sq, kept) :=
  BuildTotal.build_never_errs dec hdec txs hall max thr ht hcfg hmaxp hmax

/-- **C06 (Export of every reachable state succeeds, and the estimate covers what is occupied).**
    After ANY history that kept `N` and `B`: `Export` returns a square; it is the closed-form
    square; the last occupied share index + 1 is at most the estimate, the estimate at most side²,
    the side at most the maximum; everything after the occupied part is tail padding. -/
theorem export_within_estimate (b : Builder) (N : List Bytes) (B : List BlobTx) (hk : Kept b N B)
    (hv : ∀ t ∈ B, ∀ bl ∈ t.blobs, bl.BlobValid) (ht : 1 ≤ b.thr)
    (hmaxp : Nat.isPowerOfTwo b.maxSquareSize) (hmax : b.maxSquareSize ≤ 512) :
    ∃ b' sq, b.exportSquare = .ok (b', sq) ∧
      ((N = [] ∧ B = [] ∧ sq = [paddingShare tailPaddingNamespace 0] ∧ b' = b) ∨
       (¬ (N = [] ∧ B = []) ∧
        let ss := blobMinSquareSize (closedEstimate b.thr N B)
        let occupied := firstIdx b.thr (startOf N B) (sortedElems b.thr B) +
          (region b.thr (startOf N B) none (sortedElems b.thr B)).length
        sq = squareOf b.thr N B ss ∧ occupied ≤ closedEstimate b.thr N B ∧
        closedEstimate b.thr N B ≤ ss * ss ∧ ss ≤ b.maxSquareSize ∧
        sq.drop occupied = List.replicate (ss * ss - occupied) (paddingShare tailPaddingNamespace 0))) :=
  ExportTotal.export_succeeds_within_estimate b N B hk hv ht hmaxp hmax

end GoSquare.C06
