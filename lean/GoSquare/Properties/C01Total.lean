import GoSquare.Properties.C01
import GoSquare.Proofs.DecLocal
/-! # C01, unconditional form

`C01.build_then_construct` starts from "`Build` returned a square"; `C06.build_returns_no_error`
shows that it always does when every blob transaction decodes into blobs in user namespaces
(`maxSquareSize ≤ 512`). Together: for every such transaction list `Build` succeeds, and
`Construct` of the kept list succeeds with the byte-identical square. -/
namespace GoSquare.C01
open GoSquare Builder

/-- **C01 (no premise about `Build` succeeding).** Hypotheses about the decoder only on the
    transactions of the list. -/
theorem build_and_construct_agree (dec : Bytes → Decoded) (txs : List Bytes) (hdec : DecLocal.DecValidOn dec txs)
    (hall : ∀ t ∈ txs, dec t ≠ .badBlobTx) (max thr : Nat) (ht : 1 ≤ thr)
    (hcfg : isPowerOfTwo max = true) (hmaxp : Nat.isPowerOfTwo max) (hmax : max ≤ 512) :
    ∃ sq kept, build dec txs max thr = .ok (sq, kept) ∧ construct dec kept max thr = .ok sq ∧
      ∃ kn kb, kept = kn ++ kb ∧
        kn.Sublist (txs.filter (fun t => dec t == .normal)) ∧ kb.Sublist (txs.filter (fun t => dec t != .normal)) ∧
        (∀ r ∈ kn, dec r = .normal) ∧ (∀ r ∈ kb, ∃ bt, dec r = .blobTx bt) := by
  obtain ⟨sq, kept, h⟩ := DecLocal.build_returns_no_error_on dec txs hdec hall max thr ht hcfg hmaxp hmax
  obtain ⟨hk, hc⟩ := build_then_construct dec txs max thr sq kept h
  exact ⟨sq, kept, h, hc, hk⟩

/-- the same with the modelled real decoder (`tx.UnmarshalBlobTx`): every transaction is an ordinary
    one or the `MarshalBlobTx` of valid blobs in user namespaces -/
theorem build_and_construct_agree_unmarshalBlobTx (txs : List Bytes)
    (h : ∀ t ∈ txs, unmarshalBlobTx t = .normal ∨ DecLocal.MarshalledValid t) (max thr : Nat) (ht : 1 ≤ thr)
    (hcfg : isPowerOfTwo max = true) (hmaxp : Nat.isPowerOfTwo max) (hmax : max ≤ 512) :
    ∃ sq kept, build unmarshalBlobTx txs max thr = .ok (sq, kept) ∧ construct unmarshalBlobTx kept max thr = .ok sq := by
  obtain ⟨h1, _, h3⟩ := DecLocal.decOn_unmarshalBlobTx txs h
  obtain ⟨sq, kept, hb, hc, _⟩ := build_and_construct_agree unmarshalBlobTx txs h1 h3 max thr ht hcfg hmaxp hmax
  exact ⟨sq, kept, hb, hc⟩

end GoSquare.C01
