import GoSquare.Proofs.Sqrt
/-! # C15 — subtree-width, mountain-range and alignment arithmetic obey their laws

Go `int`s are unbounded naturals here; every theorem states the bound it needs (`2^63` for the
64-bit doubling loop, `2^52` for the floating-point side computation — the property's own bound). -/
namespace GoSquare.C15
open GoSquare

/-- a power of two: `Nat.isPowerOfTwo n ↔ ∃ k, n = 2 ^ k` (Lean core) -/
abbrev Pow2 (n : Nat) : Prop := Nat.isPowerOfTwo n

theorem pow2_two_pow (k : Nat) : Pow2 (2 ^ k) := ⟨k, rfl⟩

/-- **C15 (RoundUpPowerOfTwo).** The least power of two at or above the input. -/
theorem roundUp_least_pow2 (n : Nat) (h : n ≤ 2 ^ 63) :
    Pow2 (roundUpPow2 n) ∧ n ≤ roundUpPow2 n ∧ ∀ p, Pow2 p → n ≤ p → roundUpPow2 n ≤ p := by
  obtain ⟨j, he, hle, _⟩ := roundUpPow2_spec n h
  refine ⟨he ▸ pow2_two_pow j, he ▸ hle, ?_⟩
  rintro p ⟨m, rfl⟩ hp
  exact roundUpPow2_least n h m hp

/-- **C15 (RoundDownPowerOfTwo).** Error exactly for 0; otherwise the greatest power of two at or
    below the input. -/
theorem roundDown_greatest_pow2 (n : Nat) (h : n ≤ 2 ^ 63) :
    (roundDownPow2 n = none ↔ n = 0) ∧
    (1 ≤ n → ∃ j, roundDownPow2 n = some (2 ^ j) ∧ 2 ^ j ≤ n ∧ n < 2 ^ (j + 1)) := by
  constructor
  · unfold roundDownPow2; by_cases h0 : n = 0 <;> simp [h0]; split <;> simp
  · intro h1
    obtain ⟨j, he, hle, hor⟩ := roundUpPow2_spec n h
    unfold roundDownPow2
    have h0 : n ≠ 0 := by omega
    simp only [h0, if_false, he]
    by_cases heq : 2 ^ j = n
    · exact ⟨j, by simp [heq], by omega, by rw [Nat.pow_succ]; omega⟩
    · have hj : j ≠ 0 := by
        intro hj; subst hj; simp at hle heq; omega
      have hlt : 2 ^ (j - 1) < n := by rcases hor with h | h; exact absurd h hj; exact h
      have e : 2 ^ j = 2 ^ (j - 1) * 2 := by rw [← Nat.pow_succ]; congr 1; omega
      refine ⟨j - 1, ?_, by omega, ?_⟩
      · rw [if_neg heq, e, Nat.mul_div_cancel _ (by omega : 0 < 2)]
      · have : j - 1 + 1 = j := by omega
        rw [this]; omega

/-- **C15 (IsPowerOfTwo).** The bit trick holds exactly on powers of two. -/
theorem isPowerOfTwo_spec (n : Nat) : isPowerOfTwo n = true ↔ Pow2 n := by
  show isPowerOfTwo n = true ↔ Nat.isPowerOfTwo n
  rw [← Nat.ne_zero_and_sub_one_eq_zero_iff_isPowerOfTwo]
  simp [isPowerOfTwo]
  constructor <;> intro ⟨a, b⟩ <;> exact ⟨b, a⟩

/-- ⌈√n⌉ is the least `c` with `c² ≥ n` -/
theorem ceilSqrt_spec (n : Nat) (h : 1 ≤ n) :
    n ≤ ceilSqrt n * ceilSqrt n ∧ (ceilSqrt n - 1) * (ceilSqrt n - 1) < n ∧ 1 ≤ ceilSqrt n := by
  unfold ceilSqrt
  have a1 := Nat.sqrt_le n
  have a2 := Nat.lt_succ_sqrt n
  have hpos : 1 ≤ Nat.sqrt n := by
    rcases Nat.eq_zero_or_pos (Nat.sqrt n) with h0 | h0
    · rw [h0] at a2; simp at a2; omega
    · exact h0
  by_cases hsq : Nat.sqrt n * Nat.sqrt n = n
  · simp only [hsq, if_true]
    refine ⟨by omega, ?_, hpos⟩
    have : (Nat.sqrt n - 1) * (Nat.sqrt n - 1) < Nat.sqrt n * Nat.sqrt n :=
      Nat.mul_self_lt_mul_self (by omega)
    omega
  · simp only [hsq, if_false]
    exact ⟨Nat.le_of_lt a2, by simp; omega, by omega⟩

/-- **C15 (minimal side, incl. the floating-point computation).** For every share count up to
    `2^52`, `BlobMinSquareSize` / `square.Size` return the least power of two `s` with `s*s ≥ n`. -/
theorem minSquare_least (n : Nat) (h1 : 1 ≤ n) (h : n ≤ 2 ^ 52) :
    Pow2 (blobMinSquareSize n) ∧ n ≤ blobMinSquareSize n * blobMinSquareSize n ∧
    ∀ p, Pow2 p → n ≤ p * p → blobMinSquareSize n ≤ p := by
  have hf : f64OfNat n = n := f64OfNat_exact n (Nat.lt_of_le_of_lt h (by decide))
  have hc : ceilSqrtF64 n = ceilSqrt n := ceilSqrtF64_exact n h1 h
  obtain ⟨c1, c2, c3⟩ := ceilSqrt_spec n h1
  have hcb : ceilSqrt n ≤ 2 ^ 63 := by
    have : ceilSqrt n - 1 < 2 ^ 26 := by
      apply Nat.mul_self_lt_mul_self_iff.mp
      calc (ceilSqrt n - 1) * (ceilSqrt n - 1) < n := c2
        _ ≤ 2 ^ 52 := h
        _ = 2 ^ 26 * 2 ^ 26 := by decide
    have : (2:Nat) ^ 26 + 1 ≤ 2 ^ 63 := by decide
    omega
  unfold blobMinSquareSize
  rw [hf, hc]
  obtain ⟨p1, p2, p3⟩ := roundUp_least_pow2 (ceilSqrt n) hcb
  refine ⟨p1, ?_, ?_⟩
  · exact Nat.le_trans c1 (Nat.mul_self_le_mul_self p2)
  · intro p hp hnp
    apply p3 p hp
    -- (c-1)² < n ≤ p² gives c - 1 < p
    have : (ceilSqrt n - 1) * (ceilSqrt n - 1) < p * p := Nat.lt_of_lt_of_le c2 hnp
    have := Nat.mul_self_lt_mul_self_iff.mp this
    omega

/-- `BlobMinSquareSize(0) = 1` (the loop starts at 1) -/
theorem minSquare_zero : blobMinSquareSize 0 = 1 := by decide

/-- the float model reproduces where binary64 stops being exact (agrees with the Go code) -/
theorem minSquare_beyond : blobMinSquareSize (2 ^ 52 + 1) = 2 ^ 26 := by decide +kernel

/-- ⌈n / t⌉ as the code computes it -/
theorem ceilDiv_code (n t : Nat) (ht : 1 ≤ t) :
    (if n % t != 0 then n / t + 1 else n / t) = (n + t - 1) / t := by
  have hdm := Nat.div_add_mod n t
  have hlt := Nat.mod_lt n ht
  by_cases h : n % t = 0
  · simp only [h, bne_self_eq_false, Bool.false_eq_true, if_false]
    symm; apply Nat.div_eq_of_lt_le
    · rw [Nat.mul_comm]; omega
    · rw [Nat.add_mul, Nat.one_mul, Nat.mul_comm]; omega
  · have : (n % t != 0) = true := by simp [h]
    simp only [this, if_true]
    symm; apply Nat.div_eq_of_lt_le
    · rw [Nat.add_mul, Nat.one_mul, Nat.mul_comm]; omega
    · rw [Nat.add_mul, Nat.add_mul, Nat.one_mul, Nat.mul_comm]; omega

/-- ⌈n/v⌉ ≤ t ↔ ⌈n/t⌉ ≤ v: "at most t subtree roots of width v" is "v at least ⌈n/t⌉" -/
theorem ceilDiv_le_iff (n t v : Nat) (ht : 1 ≤ t) (hv : 1 ≤ v) :
    (n + v - 1) / v ≤ t ↔ (n + t - 1) / t ≤ v := by
  have key : ∀ a b : Nat, 1 ≤ b → ((n + b - 1) / b ≤ a ↔ n ≤ a * b) := by
    intro a b hb
    rw [Nat.div_le_iff_le_mul_add_pred hb, Nat.mul_comm b a]
    omega
  rw [key t v hv, key v t ht, Nat.mul_comm]

/-- **C15 (SubTreeWidth).** A power of two, no larger than the minimal square side, and equal to
    the least power of two `w` with `⌈n/w⌉ ≤ t` unless capped by that side. -/
theorem subTreeWidth_spec (n t : Nat) (hn : 1 ≤ n) (hn52 : n ≤ 2 ^ 52) (ht : 1 ≤ t) :
    Pow2 (subTreeWidth n t) ∧
    subTreeWidth n t ≤ blobMinSquareSize n ∧
    subTreeWidth n t = min (roundUpPow2 ((n + t - 1) / t)) (blobMinSquareSize n) ∧
    (Pow2 (roundUpPow2 ((n + t - 1) / t)) ∧ (n + roundUpPow2 ((n + t - 1) / t) - 1) / roundUpPow2 ((n + t - 1) / t) ≤ t ∧
      ∀ w, Pow2 w → (n + w - 1) / w ≤ t → roundUpPow2 ((n + t - 1) / t) ≤ w) := by
  have hs : subTreeWidth n t = min (roundUpPow2 ((n + t - 1) / t)) (blobMinSquareSize n) := by
    unfold subTreeWidth
    simp only
    rw [ceilDiv_code n t ht]
  have hsb : (n + t - 1) / t ≤ 2 ^ 63 := by
    have : (n + t - 1) / t ≤ n := by
      rw [Nat.div_le_iff_le_mul_add_pred ht]
      have : n * 1 ≤ n * t := Nat.mul_le_mul_left n ht
      rw [Nat.mul_comm t n]
      omega
    have : (2:Nat) ^ 52 ≤ 2 ^ 63 := by decide
    omega
  obtain ⟨p1, p2, p3⟩ := roundUp_least_pow2 _ hsb
  obtain ⟨m1, _, _⟩ := minSquare_least n hn hn52
  have hpos : 1 ≤ roundUpPow2 ((n + t - 1) / t) := roundUpPow2_pos _ hsb
  refine ⟨?_, ?_, hs, p1, ?_, ?_⟩
  · rw [hs]; rcases Nat.le_total (roundUpPow2 ((n + t - 1) / t)) (blobMinSquareSize n) with h | h
    · rw [Nat.min_eq_left h]; exact p1
    · rw [Nat.min_eq_right h]; exact m1
  · rw [hs]; exact Nat.min_le_right _ _
  · exact (ceilDiv_le_iff n t _ ht hpos).mpr p2
  · intro w hw hle
    obtain ⟨k, rfl⟩ := hw
    exact p3 _ ⟨k, rfl⟩ ((ceilDiv_le_iff n t _ ht (Nat.two_pow_pos k)).mp hle)

/-- **C15 (NextShareIndex / RoundUpByMultipleOf).** The least multiple of the width at or after
    the cursor. -/
theorem nextShareIndex_least (cursor n t : Nat) (hw : 0 < subTreeWidth n t) :
    subTreeWidth n t ∣ nextShareIndex cursor n t ∧ cursor ≤ nextShareIndex cursor n t ∧
    ∀ m, subTreeWidth n t ∣ m → cursor ≤ m → nextShareIndex cursor n t ≤ m := by
  obtain ⟨a, b, _⟩ := roundUpByMultipleOf_spec cursor _ hw
  exact ⟨a, b, fun m hd hc => roundUpByMultipleOf_least cursor _ m hw hd hc⟩

theorem subTreeWidth_pos (n t : Nat) (hn : 1 ≤ n) (hn52 : n ≤ 2 ^ 52) (ht : 1 ≤ t) : 0 < subTreeWidth n t := by
  obtain ⟨⟨k, hk⟩, _⟩ := subTreeWidth_spec n t hn hn52 ht
  rw [hk]; exact Nat.two_pow_pos k

/-- the mountain-range loop: every size is a power of two, at most the width and at most what is
    left; the sizes sum to the total and never increase. -/
theorem mmrAux_spec (w : Nat) (hw : Pow2 w) : ∀ (fuel total : Nat), total ≤ fuel → total ≤ 2 ^ 63 →
    (∀ x ∈ mmrSizesAux fuel total w, Pow2 x ∧ x ≤ w ∧ x ≤ total) ∧
    (mmrSizesAux fuel total w).sum = total ∧
    (mmrSizesAux fuel total w).Pairwise (· ≥ ·)
  | 0, total, h, _ => by
    have : total = 0 := by omega
    subst this; simp [mmrSizesAux]
  | fuel + 1, total, h, hb => by
    obtain ⟨k, hk⟩ := hw
    have hwpos : 0 < w := hk ▸ Nat.two_pow_pos k
    rw [mmrSizesAux]
    by_cases h0 : total = 0
    · simp [h0]
    · simp only [h0, if_false]
      by_cases hge : total ≥ w
      · simp only [hge, if_true]
        obtain ⟨i1, i2, i3⟩ := mmrAux_spec w ⟨k, hk⟩ fuel (total - w) (by omega) (by omega)
        refine ⟨?_, ?_, ?_⟩
        · intro x hx
          rcases List.mem_cons.mp hx with rfl | hx
          · exact ⟨⟨k, hk⟩, Nat.le_refl _, hge⟩
          · obtain ⟨a, b, c⟩ := i1 x hx
            exact ⟨a, b, by omega⟩
        · simp [i2]; omega
        · rw [List.pairwise_cons]
          exact ⟨fun x hx => (i1 x hx).2.1, i3⟩
      · simp only [hge, if_false]
        obtain ⟨j, hj, hjl, hju⟩ := (roundDown_greatest_pow2 total hb).2 (by omega)
        rw [hj]
        simp only
        obtain ⟨i1, i2, i3⟩ := mmrAux_spec w ⟨k, hk⟩ fuel (total - 2 ^ j) (by
          have := Nat.two_pow_pos j; omega) (by omega)
        have hlt : total - 2 ^ j < 2 ^ j := by rw [Nat.pow_succ] at hju; omega
        refine ⟨?_, ?_, ?_⟩
        · intro x hx
          rcases List.mem_cons.mp hx with rfl | hx
          · exact ⟨⟨j, rfl⟩, by omega, hjl⟩
          · obtain ⟨a, b, c⟩ := i1 x hx
            exact ⟨a, b, by omega⟩
        · simp [i2]; omega
        · rw [List.pairwise_cons]
          exact ⟨fun x hx => by have := (i1 x hx).2.2; omega, i3⟩

/-- **C15 (MerkleMountainRangeSizes).** For a power-of-two width the sizes are non-increasing
    powers of two not exceeding the width, and they sum to `n`. -/
theorem mmr_spec (n w : Nat) (hw : Pow2 w) (hn : n ≤ 2 ^ 63) :
    (∀ x ∈ mmrSizes n w, Pow2 x ∧ x ≤ w) ∧ (mmrSizes n w).sum = n ∧ (mmrSizes n w).Pairwise (· ≥ ·) := by
  obtain ⟨a, b, c⟩ := mmrAux_spec w hw n n (Nat.le_refl _) hn
  exact ⟨fun x hx => ⟨(a x hx).1, (a x hx).2.1⟩, b, c⟩

/-- non-vacuity: the ADR-013 example (11 shares, threshold 3 → width 4, mountains 4,4,2,1) -/
example : subTreeWidth 11 3 = 4 ∧ mmrSizes 11 4 = [4, 4, 2, 1] ∧ nextShareIndex 13 11 3 = 16 := by decide +kernel

end GoSquare.C15
