import GoSquare.Model.Bytes
/-! Declarative reference arithmetic, written from ADR-013 / the data-square-layout rules
    (not from the Go code): least powers of two, minimal square side, subtree width,
    mountain-range sizes, alignment. -/
namespace GoSquare.Spec

/-- least power of two ≥ n (n ≥ 0), by search. -/
def leastPow2GeAux : Nat → Nat → Nat → Nat
  | 0, p, _ => p
  | fuel + 1, p, n => if n ≤ p then p else leastPow2GeAux fuel (2 * p) n

def leastPow2Ge (n : Nat) : Nat := leastPow2GeAux n 1 n

/-- greatest power of two ≤ n (n ≥ 1). -/
def greatestPow2Le (n : Nat) : Nat := 2 ^ Nat.log2 n

/-- ⌈a / b⌉ -/
def ceilDiv (a b : Nat) : Nat := (a + b - 1) / b

/-- minimal square side: least power of two `s` with `s * s ≥ n`. -/
def minSideAux : Nat → Nat → Nat → Nat
  | 0, s, _ => s
  | fuel + 1, s, n => if n ≤ s * s then s else minSideAux fuel (2 * s) n

def minSide (n : Nat) : Nat := minSideAux n 1 n

/-- subtree width: least power of two `w` with ⌈n / w⌉ ≤ thr, capped by the minimal side. -/
def subTreeWidth (n thr : Nat) : Nat := min (leastPow2Ge (ceilDiv n thr)) (minSide n)

/-- least multiple of `w` that is ≥ c. -/
def alignUp (c w : Nat) : Nat := ceilDiv c w * w

/-- mountain range: repeatedly take `w` while at least `w` remain, then the binary
    decomposition of the rest, largest first. -/
def mmr : Nat → Nat → Nat → List Nat
  | 0, _, _ => []
  | fuel + 1, n, w =>
    if n = 0 then []
    else if w ≤ n then w :: mmr fuel (n - w) w
    else greatestPow2Le n :: mmr fuel (n - greatestPow2Le n) w

end GoSquare.Spec
