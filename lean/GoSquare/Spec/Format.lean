import GoSquare.Model.Split
/-! The share wire format, written field by field from the share specification
    (celestia-app specs/shares.md), independently of the Go writer *and* reader.

    share   := namespace(29) ‖ info(1) ‖ [seqLen(4, big endian)]   -- first share of a sequence
               ‖ [signer(20)]                                     -- first share, version 1
               ‖ [reserved(4, big endian)]                        -- compact shares
               ‖ payload ‖ zero fill to 512
    info    := version << 1 | sequenceStart                        -/
namespace GoSquare.Spec

def infoByte (ver : Nat) (start : Bool) : UInt8 := (ver * 2 + (if start then 1 else 0)).toUInt8

def fill (pre : Bytes) : Bytes := pre ++ zeros (512 - pre.length)

/-- consecutive chunks of `n` bytes (the last one may be shorter); `[]` for empty data. -/
def chunksOf (n : Nat) (d : Bytes) : List Bytes :=
  if h : d = [] ∨ n = 0 then [] else d.take n :: chunksOf n (d.drop n)
termination_by d.length
decreasing_by
  have h1 : d ≠ [] := fun e => h (Or.inl e)
  have h2 : n ≠ 0 := fun e => h (Or.inr e)
  have : 0 < d.length := List.length_pos_iff.mpr h1
  simp only [List.length_drop]; omega

/-- sparse (blob) sequence. -/
def sparseSeq (b : Blob) : List Bytes :=
  let signer : Bytes := if b.ver = 1 then b.signer.getD [] else []
  let cap0 := 478 - signer.length
  let first := fill (b.ns ++ [infoByte b.ver true] ++ be32 b.data.length ++ signer ++ b.data.take cap0)
  let rest := (chunksOf 482 (b.data.drop cap0)).map
    (fun c => fill (b.ns ++ [infoByte b.ver false] ++ c))
  first :: rest

/-- padding share of a namespace: sequence start, length 0, zero payload. -/
def paddingShare (ns : Bytes) (ver : Nat) : Bytes := fill (ns ++ [infoByte ver true] ++ be32 0)

/-- byte offsets at which the length-prefixed units start in the unit stream. -/
def unitStarts : Nat → List Bytes → List Nat
  | _, [] => []
  | off, u :: us => off :: unitStarts (off + uvarintLen u.length + u.length) us

/-- the unit stream of a compact sequence. -/
def unitStream (units : List Bytes) : Bytes := (units.map (fun u => uvarint u.length ++ u)).flatten

/-- payload offset (in the stream) and capacity of compact share `k`. -/
def compactOff (k : Nat) : Nat := if k = 0 then 0 else 474 + (k - 1) * 478
def compactCap (k : Nat) : Nat := if k = 0 then 474 else 478
def compactHdr (k : Nat) : Nat := if k = 0 then 38 else 34

/-- number of compact shares for a stream of `T` bytes. -/
def compactCount (T : Nat) : Nat := if T = 0 then 0 else if T ≤ 474 then 1 else 1 + (T - 474 + 477) / 478

/-- compact (transaction) sequence: share `k` carries stream bytes
    `[compactOff k, compactOff k + compactCap k)`; its reserved bytes hold the in-share offset of
    the first unit starting in it (0 if none); the first share holds the stream length. -/
def compactSeq (ns : Bytes) (units : List Bytes) : List Bytes :=
  let D := unitStream units
  let starts := unitStarts 0 units
  (List.range (compactCount D.length)).map fun k =>
    let off := compactOff k
    let cap := compactCap k
    let reserved := match starts.find? (fun s => off ≤ s ∧ s < off + cap) with
      | some s => compactHdr k + (s - off)
      | none => 0
    fill (ns ++ [infoByte 0 (k == 0)] ++ (if k = 0 then be32 D.length else []) ++ be32 reserved ++
          (D.drop off).take cap)

end GoSquare.Spec
