import GoSquare.Spec.Arith
import GoSquare.Spec.Format
import GoSquare.Model.Proto
/-! The data-square layout, written from the data-square-layout rules (celestia-app
    specs/data_square_layout.md, ADR-013/ADR-020) as a *closed-form* reference: no counters, no
    incremental splitters, no mutable index patching. C07 states `Model.construct = Spec.construct`
    and `Model.build = Spec.build`; the driver also runs this executable Spec against the bytes of
    the real Go `Construct`/`Build`. -/
namespace GoSquare.Spec
open GoSquare.Proto

/-- number of shares of a blob: ⌈(len − cap₀) / 482⌉ + 1 with cap₀ = 478, or 458 with a signer. -/
def blobShares (b : Blob) : Nat :=
  let cap0 := if b.ver = 1 then 458 else 478
  if b.data.length ≤ cap0 then 1 else 1 + ceilDiv (b.data.length - cap0) 482

/-- bytes a unit occupies in a compact sequence: varint length prefix + body. -/
def unitBytes (n : Nat) : Nat := uvarintLen n + n

/-- a blob transaction as the layout sees it. -/
structure PTx where
  raw : Bytes
  tx : Bytes
  blobs : List Blob

/-- the placeholder index used to size wrapped PFBs before the real indexes are known. -/
def placeholderIndex : Nat := 16384

def wrap (tx : Bytes) (idx : List Nat) : Bytes :=
  ({ tx, shareIndexes := idx, typeId := indexWrapperTypeId } : IndexWrapper).marshal

def worstWrapLen (p : PTx) : Nat := (wrap p.tx (List.replicate p.blobs.length placeholderIndex)).length

/-- worst-case number of shares after keeping `normals` and `ptxs`. -/
def estimate (thr : Nat) (normals : List Bytes) (ptxs : List PTx) : Nat :=
  compactCount ((normals.map (fun t => unitBytes t.length)).sum) +
  compactCount ((ptxs.map (fun p => unitBytes (worstWrapLen p))).sum) +
  ((ptxs.map (fun p => (p.blobs.map (fun b => blobShares b + (subTreeWidth (blobShares b) thr - 1))).sum)).sum)

/-- greedy selection in input order: a transaction is kept iff the estimate with it still fits. -/
def select (dec : Bytes → Decoded) (max thr : Nat) :
    List Bytes → List Bytes → List PTx → Option (List Bytes × List PTx)
  | [], n, p => some (n, p)
  | t :: rest, n, p =>
    match dec t with
    | .badBlobTx => none
    | .normal =>
      if estimate thr (n ++ [t]) p ≤ max * max then select dec max thr rest (n ++ [t]) p
      else select dec max thr rest n p
    | .blobTx bt =>
      let q : PTx := { raw := t, tx := bt.tx, blobs := bt.blobs }
      if estimate thr n (p ++ [q]) ≤ max * max then select dec max thr rest n (p ++ [q])
      else select dec max thr rest n p

/-- a blob with its (transaction, position) coordinates. -/
structure PBlob where
  blob : Blob
  txPos : Nat
  blobPos : Nat

def allBlobs (ptxs : List PTx) : List PBlob :=
  (ptxs.mapIdx (fun i p => p.blobs.mapIdx (fun j b => ({ blob := b, txPos := i, blobPos := j } : PBlob)))).flatten

/-- insertion into a list sorted by namespace, after all elements with a namespace ≤ (stable). -/
def insertSorted (x : PBlob) : List PBlob → List PBlob
  | [] => [x]
  | y :: ys => if cmpBytes x.blob.ns y.blob.ns < 0 then x :: y :: ys else y :: insertSorted x ys

/-- stable sort by namespace (insertion sort: the definition of "stable" made executable). -/
def stableSort (l : List PBlob) : List PBlob := l.foldl (fun acc x => insertSorted x acc) []

/-- start indexes: each blob at the least multiple of its subtree width at or after the cursor. -/
def place (thr : Nat) : Nat → List PBlob → List (PBlob × Nat)
  | _, [] => []
  | cursor, b :: bs =>
    let n := blobShares b.blob
    let idx := alignUp cursor (subTreeWidth n thr)
    (b, idx) :: place thr (idx + n) bs

/-- the blob region starting at `start`: gaps are padding with the namespace and share version
    of the *preceding* blob. -/
def blobRegion : Nat → Option Blob → List (PBlob × Nat) → List Bytes
  | _, _, [] => []
  | cursor, prev, (b, idx) :: rest =>
    let pad := match prev with
      | some p => List.replicate (idx - cursor) (paddingShare p.ns p.ver)
      | none => []
    pad ++ sparseSeq b.blob ++ blobRegion (idx + blobShares b.blob) (some b.blob) rest

/-- the whole square for kept transactions. -/
def layout (thr : Nat) (normals : List Bytes) (ptxs : List PTx) : Option (List Bytes) :=
  if normals.isEmpty ∧ ptxs.isEmpty then some [paddingShare tailPaddingNamespace 0]
  else
    let side := minSide (estimate thr normals ptxs)
    let txShares := compactSeq txNamespace normals
    let worstStart := compactCount ((normals.map (fun t => unitBytes t.length)).sum) +
      compactCount ((ptxs.map (fun p => unitBytes (worstWrapLen p))).sum)
    let placed := place thr worstStart (stableSort (allBlobs ptxs))
    let idxOf := fun (i j : Nat) =>
      match placed.find? (fun e => e.1.txPos == i && e.1.blobPos == j) with
      | some e => e.2
      | none => 0
    let pfbs := ptxs.mapIdx (fun i p => wrap p.tx ((List.range p.blobs.length).map (idxOf i)))
    let pfbShares := compactSeq payForBlobNamespace pfbs
    let firstBlob := match placed.head? with
      | some e => e.2
      | none => worstStart
    let used := txShares.length + pfbShares.length
    if firstBlob < used then none
    else
      let resPad := if placed.isEmpty then [] else
        List.replicate (firstBlob - used) (paddingShare primaryReservedPaddingNamespace 0)
      let body := txShares ++ pfbShares ++ resPad ++ blobRegion firstBlob none placed
      if side * side < body.length then none
      else some (body ++ List.replicate (side * side - body.length) (paddingShare tailPaddingNamespace 0))

def validConfig (max : Nat) : Bool := max ≠ 0 && (max &&& (max - 1)) == 0

/-- `Build`: select greedily, lay out; kept list = kept normals then kept blob txs. -/
def build (dec : Bytes → Decoded) (txs : List Bytes) (max thr : Nat) : Option (List Bytes × List Bytes) :=
  if !validConfig max then none
  else
    match select dec max thr txs [] [] with
    | none => none
    | some (n, p) => (layout thr n p).map (fun sq => (sq, n ++ p.map (·.raw)))

/-- `Construct`: every transaction must be kept, and no ordinary transaction may follow a blob
    transaction. -/
def construct (dec : Bytes → Decoded) (txs : List Bytes) (max thr : Nat) : Option (List Bytes) :=
  if !validConfig max then none
  else
    let kinds := txs.map (fun t => match dec t with | .normal => 0 | _ => 1)
    if kinds ≠ kinds.mergeSort (· ≤ ·) then none
    else
      match select dec max thr txs [] [] with
      | none => none
      | some (n, p) =>
        if n.length + p.length ≠ txs.length then none else layout thr n p

end GoSquare.Spec
