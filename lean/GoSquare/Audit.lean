/- GENERATED from lean/obligations.json by /verif/check. `lake env lean GoSquare/Audit.lean` prints the
   axioms every registered property theorem depends on; accepted: propext, Classical.choice, Quot.sound. -/
import GoSquare.Properties.C01
import GoSquare.Properties.C02
import GoSquare.Properties.C03
import GoSquare.Properties.C04
import GoSquare.Properties.C05
import GoSquare.Properties.C06
import GoSquare.Properties.C07
import GoSquare.Properties.C08
import GoSquare.Properties.C09
import GoSquare.Properties.C10
import GoSquare.Properties.C11
import GoSquare.Properties.C12
import GoSquare.Properties.C13
import GoSquare.Properties.C14
import GoSquare.Properties.C15
import GoSquare.Properties.C16
import GoSquare.Properties.C17
import GoSquare.Properties.C18
import GoSquare.Properties.C19
import GoSquare.Properties.C20
import GoSquare.Proofs.DecLocal
import GoSquare.Proofs.HeapRefine
import GoSquare.Properties.C01Total
import GoSquare.Properties.C19Json
#print axioms GoSquare.C01.build_then_construct
#print axioms GoSquare.C01.kept_export_eq
#print axioms GoSquare.C01.replay_normals
#print axioms GoSquare.C01.replay_blobs
#print axioms GoSquare.buildLoop_spec
#print axioms GoSquare.appendTx_spec
#print axioms GoSquare.appendBlobTx_spec
#print axioms GoSquare.C01.build_and_construct_agree
#print axioms GoSquare.C01.build_and_construct_agree_unmarshalBlobTx
#print axioms GoSquare.C02.deconstruct_construct
#print axioms GoSquare.C02.deconstruct_isSquareOf
#print axioms GoSquare.C02.empty_roundtrip
#print axioms GoSquare.C02.canon_of_marshal
#print axioms GoSquare.deconstruct_parts
#print axioms GoSquare.deconstructPfbs_spec
#print axioms GoSquare.deconstructBlobs_spec
#print axioms GoSquare.pfbOK_of_patched
#print axioms GoSquare.construct_square
#print axioms GoSquare.C09.parse_spec
#print axioms GoSquare.C19.unmarshalIndexWrapper_marshal
#print axioms GoSquare.C08.roundtrip
#print axioms GoSquare.C20.lookup_returns_the_run
#print axioms GoSquare.DecLocal.deconstruct_construct_on
#print axioms GoSquare.DecLocal.deconstruct_construct_unmarshalBlobTx
#print axioms GoSquare.DecLocal.construct_congr
#print axioms GoSquare.C03.build_wellformed
#print axioms GoSquare.C03.construct_wellformed
#print axioms GoSquare.C03.wellFormed_of_isSquareOf
#print axioms GoSquare.C03.userNs_of_validateForBlob
#print axioms GoSquare.build_square
#print axioms GoSquare.construct_square
#print axioms GoSquare.export_kept
#print axioms GoSquare.exportCore_layout
#print axioms GoSquare.writeSquare_concat
#print axioms GoSquare.blobLoop_spec
#print axioms GoSquare.squareOf_shares_512
#print axioms GoSquare.squareOf_ns_sorted
#print axioms GoSquare.squareOf_length
#print axioms GoSquare.sortedElems_ns_sorted
#print axioms GoSquare.DecLocal.build_wellformed_on
#print axioms GoSquare.DecLocal.construct_wellformed_on
#print axioms GoSquare.DecLocal.construct_wellformed_unmarshalBlobTx
#print axioms GoSquare.DecLocal.decOn_unmarshalBlobTx
#print axioms GoSquare.C04.every_blob_is_placed
#print axioms GoSquare.C04.recorded_index_is_truthful
#print axioms GoSquare.C04.ranges_disjoint_and_ordered
#print axioms GoSquare.C04.construct_indexes
#print axioms GoSquare.C04.blobShareRange_returns_the_range
#print axioms GoSquare.construct_square
#print axioms GoSquare.build_square
#print axioms GoSquare.squareOf_blob_at
#print axioms GoSquare.patched_records
#print axioms GoSquare.placeIdx_aligned'
#print axioms GoSquare.placeIdx_ordered
#print axioms GoSquare.sortedElems_sorted
#print axioms GoSquare.sortedElems_stable
#print axioms GoSquare.allElements_keys
#print axioms GoSquare.C04.wrappedPFBs_are_the_recorded_wrappers
#print axioms GoSquare.C05.aligned_block_is_row_inner_node
#print axioms GoSquare.C05.subtree_roots_are_row_inner_nodes
#print axioms GoSquare.C05.chunks_getElem
#print axioms GoSquare.C05.commitment_is_merkle_root_of_subtree_roots
#print axioms GoSquare.Nmt.aligned_inner
#print axioms GoSquare.C05.construct_subtree_roots
#print axioms GoSquare.CommitSquare.construct_commitments
#print axioms GoSquare.CommitSquare.placed_blob_subtree
#print axioms GoSquare.CommitSquare.blob_leaves_eq_square_leaves
#print axioms GoSquare.CommitSquare.subtreeRootsWith_eq
#print axioms GoSquare.C06.estimate_invariant
#print axioms GoSquare.C06.estimate_le_max_squared
#print axioms GoSquare.C06.refused_iff
#print axioms GoSquare.C06.refused_unchanged
#print axioms GoSquare.C06.side_is_minimal_and_bounded
#print axioms GoSquare.C06.padding_within_reservation
#print axioms GoSquare.appendTx_spec
#print axioms GoSquare.appendBlobTx_spec
#print axioms GoSquare.C06.build_returns_no_error
#print axioms GoSquare.C06.export_within_estimate
#print axioms GoSquare.ExportTotal.export_succeeds
#print axioms GoSquare.ExportTotal.occupied_le_estimate
#print axioms GoSquare.ExportTotal.blobLoop_total
#print axioms GoSquare.ExportTotal.patched_size_le
#print axioms GoSquare.ExportTotal.writeSquare_total
#print axioms GoSquare.DecLocal.build_returns_no_error_on
#print axioms GoSquare.DecLocal.build_returns_no_error_unmarshalBlobTx
#print axioms GoSquare.C07.build_selection_and_side
#print axioms GoSquare.C07.select_eq
#print axioms GoSquare.C07.estimate_eq
#print axioms GoSquare.C07.minSide_eq
#print axioms GoSquare.C07.subTreeWidth_eq
#print axioms GoSquare.C07.blobShares_eq
#print axioms GoSquare.C07.leastPow2Ge_eq
#print axioms GoSquare.exportCore_length
#print axioms GoSquare.writeSquare_length
#print axioms GoSquare.C07.build_is_the_specified_layout
#print axioms GoSquare.C07.construct_is_the_specified_layout
#print axioms GoSquare.SpecLayout.layout_eq_squareOf
#print axioms GoSquare.StableSort.stableSort_eq_mergeSort
#print axioms GoSquare.StableSort.stable_sort_unique
#print axioms GoSquare.SpecLayout.pfbs_eq
#print axioms GoSquare.build_square
#print axioms GoSquare.construct_square
#print axioms GoSquare.DecLocal.build_is_the_specified_layout_on
#print axioms GoSquare.DecLocal.construct_is_the_specified_layout_on
#print axioms GoSquare.DecLocal.spec_construct_congr
#print axioms GoSquare.C08.roundtrip
#print axioms GoSquare.C08.write_then_parse
#print axioms GoSquare.C08.writeAll_eq_layout
#print axioms GoSquare.sparseWrite_eq_spec
#print axioms GoSquare.C08.parse_blob
#print axioms GoSquare.C09.writer_eq_spec
#print axioms GoSquare.C09.parse_spec
#print axioms GoSquare.C09.roundtrip
#print axioms GoSquare.C09.seqLen_and_minimal
#print axioms GoSquare.export_spec
#print axioms GoSquare.writeTx_spec
#print axioms GoSquare.parseRawData_units
#print axioms GoSquare.C10.blob_shares_are_as_specified
#print axioms GoSquare.C10.padding_shares_are_as_specified
#print axioms GoSquare.C10.reserved_and_tail_padding
#print axioms GoSquare.C10.infoByte_all
#print axioms GoSquare.C10.newInfoByte_rejects
#print axioms GoSquare.C10.reservedBytes_spec
#print axioms GoSquare.C10.accessors_on_blob_shares
#print axioms GoSquare.C10.accessors_on_padding
#print axioms GoSquare.C09.writer_eq_spec
#print axioms GoSquare.C09.seqLen_and_minimal
#print axioms GoSquare.C10.accessors_on_compact_shares
#print axioms GoSquare.C11.parse_subrange
#print axioms GoSquare.C11.parse_subrange_sublist
#print axioms GoSquare.C11.parse_subrange_of_export
#print axioms GoSquare.C11.sub_eq_within
#print axioms GoSquare.extract_sub
#print axioms GoSquare.parseRawData_truncated
#print axioms GoSquare.parseDelimiter_cut
#print axioms GoSquare.C09.writer_eq_spec
#print axioms GoSquare.C12.splitter_range_exact
#print axioms GoSquare.C12.sharesNeeded_eq_shareOf_last
#print axioms GoSquare.C12.shareOf_closed_form
#print axioms GoSquare.C13.counter_history
#print axioms GoSquare.C12.range_is_the_set_of_shares
#print axioms GoSquare.C12.findTxShareRange_is_exact
#print axioms GoSquare.C12.findTxShareRange_rejects
#print axioms GoSquare.C12.parsing_the_range_yields_the_tx
#print axioms GoSquare.TxRange.txShareRange_spec
#print axioms GoSquare.TxRange.findTxShareRange_kept
#print axioms GoSquare.blobShareRange_spec
#print axioms GoSquare.C13.counter_history
#print axioms GoSquare.C13.add_increment
#print axioms GoSquare.C13.add_revert
#print axioms GoSquare.C13.compact_inverse
#print axioms GoSquare.C13.sparse_inverse
#print axioms GoSquare.sparseSeq_length
#print axioms GoSquare.toShares_length
#print axioms GoSquare.count_spec
#print axioms GoSquare.C09.writer_eq_spec
#print axioms GoSquare.C14.splitter_history_independent
#print axioms GoSquare.C14.same_writes_same_export
#print axioms GoSquare.C14.J_step
#print axioms GoSquare.export_spec
#print axioms GoSquare.C14.builder_export_depends_only_on_accepted_appends
#print axioms GoSquare.C14.builder_same_accepted_same_export
#print axioms GoSquare.BuilderHistory.accepted_history
#print axioms GoSquare.BuilderHistory.export_twice
#print axioms GoSquare.BuilderHistory.mergeSort_append_congr
#print axioms GoSquare.BuilderHistory.patchAll_congr
#print axioms GoSquare.C15.roundUp_least_pow2
#print axioms GoSquare.C15.roundDown_greatest_pow2
#print axioms GoSquare.C15.isPowerOfTwo_spec
#print axioms GoSquare.C15.minSquare_least
#print axioms GoSquare.C15.minSquare_zero
#print axioms GoSquare.C15.minSquare_beyond
#print axioms GoSquare.C15.subTreeWidth_spec
#print axioms GoSquare.C15.nextShareIndex_least
#print axioms GoSquare.C15.subTreeWidth_pos
#print axioms GoSquare.C15.mmr_spec
#print axioms GoSquare.ceilSqrtF64_exact
#print axioms GoSquare.C16.parseTxs_total
#print axioms GoSquare.C16.parseBlobs_total
#print axioms GoSquare.C16.parseShares_total
#print axioms GoSquare.C16.sequenceRawData_total
#print axioms GoSquare.C16.wrappedPFBs_total
#print axioms GoSquare.C16.deconstruct_total
#print axioms GoSquare.C16.parseDelimiter_spec
#print axioms GoSquare.C16.getShareRange_bounds
#print axioms GoSquare.C17.goAppend_frame
#print axioms GoSquare.C17.accumulate_frame
#print axioms GoSquare.C17.accumulate_from_nil_preserves_memory
#print axioms GoSquare.HeapRefine.accumulate_from_nil_result
#print axioms GoSquare.HeapRefine.accumulate_from_nil_refines
#print axioms GoSquare.HeapRefine.accumulate_from_nil_views_unchanged
#print axioms GoSquare.HeapRefine.goAppend_result
#print axioms GoSquare.C18.compare_spec
#print axioms GoSquare.C18.compare_total_order
#print axioms GoSquare.C18.predicates_spec
#print axioms GoSquare.C18.classification_spec
#print axioms GoSquare.C18.validateForBlob_spec
#print axioms GoSquare.C18.new_spec
#print axioms GoSquare.C18.fromBytes_spec
#print axioms GoSquare.C18.addInt_spec
#print axioms GoSquare.C18.addInt_undo
#print axioms GoSquare.addInt_exact
#print axioms GoSquare.addLoop_inv
#print axioms GoSquare.beVal_inj
#print axioms GoSquare.C19.blobProto_roundtrip
#print axioms GoSquare.C19.indexWrapper_roundtrip
#print axioms GoSquare.C19.blobTxProto_roundtrip
#print axioms GoSquare.C19.unmarshalIndexWrapper_marshal
#print axioms GoSquare.C19.blob_roundtrip
#print axioms GoSquare.C19.unmarshalBlobTx_marshal
#print axioms GoSquare.C19.newBlob_accepts_iff
#print axioms GoSquare.C19.blobFromProto_accepts_iff
#print axioms GoSquare.C19.blobTx_is_not_indexWrapper
#print axioms GoSquare.C19.indexWrapper_is_not_blobTx
#print axioms GoSquare.Proto.parseFields_enc
#print axioms GoSquare.readUvarint_uvarint
#print axioms GoSquare.C19.base64_roundtrip
#print axioms GoSquare.C19.json_roundtrips
#print axioms GoSquare.C19.json_blob_accepted
#print axioms GoSquare.JsonProofs.blobProto_json_roundtrip
#print axioms GoSquare.JsonProofs.b64Encode_injective
#print axioms GoSquare.JsonProofs.unmarshalNs_ok
#print axioms GoSquare.JsonProofs.unmarshalShare_ok
#print axioms GoSquare.C20.lookup_returns_the_run
#print axioms GoSquare.C20.sorted_decomposition
#print axioms GoSquare.C20.lookup_on_sorted
#print axioms GoSquare.C20.parseShares_tiles_constructed_squares
#print axioms GoSquare.C20.blob_sequence_payload
#print axioms GoSquare.Tiling.parseShares_blocks
#print axioms GoSquare.Tiling.parseShares_squareOf
#print axioms GoSquare.Tiling.parseShares_construct
#print axioms GoSquare.Tiling.parseShares_build
#print axioms GoSquare.Tiling.dataSeqs_payloads
