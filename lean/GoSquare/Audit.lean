/- GENERATED from lean/obligations.json by /verif/check. `lake env lean GoSquare/Audit.lean` prints the
   axioms every registered property theorem depends on; accepted: propext, Classical.choice, Quot.sound. -/
import GoSquare.Properties.C13
#print axioms GoSquare.C13.counter_history
#print axioms GoSquare.C13.add_increment
#print axioms GoSquare.C13.add_revert
#print axioms GoSquare.C13.compact_inverse
#print axioms GoSquare.C13.sparse_inverse
