import GoSquare.Model.Split
/-! proto/blob/v1 messages, tx/blob_tx.go, tx/index_wrapper.go and the blob codec of share/blob.go.
    protobuf-go (v1.36.6) is *modelled*: a deterministic encoder (fields in number order, proto3
    zero values omitted, packed repeated scalars) and a total decoder written from
    internal/impl/decode.go and encoding/protowire/wire.go (unknown fields and wrong wire types
    skipped, last scalar wins, repeated appended, packed or unpacked repeated uint32, field
    numbers 1..2^29-1, groups skipped with matching end tag, UTF-8 validation of strings). -/
namespace GoSquare
namespace Proto

/-! ### wire -/

inductive Val where
  | varint (v : Nat)
  | fixed64
  | bytes (b : Bytes)
  | group
  | fixed32
  deriving Repr, Inhabited

/-- `protowire.ConsumeVarint`: value and rest. -/
def consumeVarint (b : Bytes) : Option (Nat × Bytes) :=
  match readUvarint b with
  | none => none
  | some (v, n) => some (v, b.drop n)

/-- `protowire.ConsumeBytes`. -/
def consumeBytes (b : Bytes) : Option (Bytes × Bytes) :=
  match consumeVarint b with
  | none => none
  | some (m, rest) => if m > rest.length then none else some (rest.take m, rest.drop m)

/-- `protowire.ConsumeTag` as used *inside unknown groups* (numbers up to MaxInt32). -/
def consumeTagInGroup (b : Bytes) : Option (Nat × Nat × Bytes) :=
  match consumeVarint b with
  | none => none
  | some (v, rest) =>
    let num := v / 8
    if num > 2147483647 ∨ num < 1 then none else some (num, v % 8, rest)

/-- `protowire.consumeFieldValueD`: returns the rest after the value. `fuel` bounds the work by
    the input length; `depth` is protobuf-go's recursion limit (10000). -/
def skipValue : Nat → (num typ : Nat) → Bytes → (depth : Nat) → Option Bytes
  | 0, _, _, _, _ => none
  | fuel + 1, num, typ, b, depth =>
    match typ with
    | 0 => (consumeVarint b).map (·.2)
    | 5 => if b.length < 4 then none else some (b.drop 4)
    | 1 => if b.length < 8 then none else some (b.drop 8)
    | 2 => (consumeBytes b).map (·.2)
    | 3 => skipGroup fuel num b depth
    | _ => none
where
  /-- the `for` loop of the StartGroup case: `depth` is the depth of the enclosing call. -/
  skipGroup : Nat → Nat → Bytes → Nat → Option Bytes
    | 0, _, _, _ => none
    | fuel + 1, num, b, depth =>
      match consumeTagInGroup b with
      | none => none
      | some (num2, typ2, rest) =>
        if typ2 = 4 then (if num ≠ num2 then none else some rest)
        else if typ2 = 3 ∧ depth = 0 then none        -- recursion limit
        else
          match skipValue fuel num2 typ2 rest (depth - 1) with
          | none => none
          | some rest' => skipGroup fuel num rest' depth

/-- One top-level field: (number, wire type, value, rest). `none` = errDecode. An end-group
    tag at message level is always an error (group tag 0). -/
def nextField (b : Bytes) : Option (Nat × Nat × Val × Bytes) :=
  match consumeVarint b with
  | none => none
  | some (tag, rest) =>
    let num := tag / 8
    let typ := tag % 8
    if num < 1 ∨ num > 536870911 then none
    else
      match typ with
      | 0 => (consumeVarint rest).map (fun (v, r) => (num, typ, Val.varint v, r))
      | 1 => if rest.length < 8 then none else some (num, typ, Val.fixed64, rest.drop 8)
      | 5 => if rest.length < 4 then none else some (num, typ, Val.fixed32, rest.drop 4)
      | 2 => (consumeBytes rest).map (fun (v, r) => (num, typ, Val.bytes v, r))
      | 3 => (skipValue (rest.length + 1) num 3 rest 10000).map (fun r => (num, typ, Val.group, r))
      | _ => none

/-- all top-level fields of a message, in order. -/
def fields : Nat → Bytes → Option (List (Nat × Val))
  | 0, _ => none
  | fuel + 1, b =>
    if b.length = 0 then some []
    else
      match nextField b with
      | none => none
      | some (num, _, v, rest) => (fields fuel rest).map (fun fs => (num, v) :: fs)

def parseFields (b : Bytes) : Option (List (Nat × Val)) := fields (b.length + 1) b

/-! ### UTF-8 (Go `utf8.Valid`) -/

def utf8Valid : Bytes → Bool
  | [] => true
  | b0 :: rest =>
    let c := b0.toNat
    if c < 0x80 then utf8Valid rest
    else if 0xC2 ≤ c ∧ c ≤ 0xDF then
      match rest with
      | b1 :: r => (0x80 ≤ b1.toNat ∧ b1.toNat ≤ 0xBF) && utf8Valid r
      | _ => false
    else if 0xE0 ≤ c ∧ c ≤ 0xEF then
      match rest with
      | b1 :: b2 :: r =>
        let lo := if c = 0xE0 then 0xA0 else 0x80
        let hi := if c = 0xED then 0x9F else 0xBF
        (lo ≤ b1.toNat ∧ b1.toNat ≤ hi) && (0x80 ≤ b2.toNat ∧ b2.toNat ≤ 0xBF) && utf8Valid r
      | _ => false
    else if 0xF0 ≤ c ∧ c ≤ 0xF4 then
      match rest with
      | b1 :: b2 :: b3 :: r =>
        let lo := if c = 0xF0 then 0x90 else 0x80
        let hi := if c = 0xF4 then 0x8F else 0xBF
        (lo ≤ b1.toNat ∧ b1.toNat ≤ hi) && (0x80 ≤ b2.toNat ∧ b2.toNat ≤ 0xBF) &&
          (0x80 ≤ b3.toNat ∧ b3.toNat ≤ 0xBF) && utf8Valid r
      | _ => false
    else false

/-! ### messages -/

structure BlobProto where
  namespaceId : Bytes := []
  data : Bytes := []
  shareVersion : Nat := 0
  namespaceVersion : Nat := 0
  signer : Bytes := []
  deriving Repr, Inhabited, DecidableEq

structure BlobTxProto where
  tx : Bytes := []
  blobs : List BlobProto := []
  typeId : Bytes := []
  deriving Repr, Inhabited, DecidableEq

structure IndexWrapper where
  tx : Bytes := []
  shareIndexes : List Nat := []
  typeId : Bytes := []
  deriving Repr, Inhabited, DecidableEq

def tagBytes (num typ : Nat) : Bytes := uvarint (num * 8 + typ)
def encBytesField (num : Nat) (v : Bytes) : Bytes :=
  if v.length = 0 then [] else tagBytes num 2 ++ uvarint v.length ++ v
def encVarintField (num v : Nat) : Bytes :=
  if v = 0 then [] else tagBytes num 0 ++ uvarint v

/-- `proto.Marshal(&BlobProto{…})`. -/
def BlobProto.marshal (p : BlobProto) : Bytes :=
  encBytesField 1 p.namespaceId ++ encBytesField 2 p.data ++ encVarintField 3 p.shareVersion ++
    encVarintField 4 p.namespaceVersion ++ encBytesField 5 p.signer

/-- an embedded message is written even when empty (tag + length 0). -/
def encMessageField (num : Nat) (m : Bytes) : Bytes := tagBytes num 2 ++ uvarint m.length ++ m

def BlobTxProto.marshal (p : BlobTxProto) : Bytes :=
  encBytesField 1 p.tx ++ (p.blobs.map (fun b => encMessageField 2 b.marshal)).flatten ++
    encBytesField 3 p.typeId

def IndexWrapper.marshal (p : IndexWrapper) : Bytes :=
  encBytesField 1 p.tx ++
    (if p.shareIndexes.length = 0 then []
     else
       let packed := (p.shareIndexes.map uvarint).flatten
       tagBytes 2 2 ++ uvarint packed.length ++ packed) ++
    encBytesField 3 p.typeId

/-- `proto.Size`. -/
def IndexWrapper.size (p : IndexWrapper) : Nat := p.marshal.length

def u32v (v : Nat) : Nat := v % 4294967296

def BlobProto.applyField (p : BlobProto) : Nat × Val → Option BlobProto
  | (1, .bytes b) => some { p with namespaceId := b }
  | (2, .bytes b) => some { p with data := b }
  | (3, .varint v) => some { p with shareVersion := u32v v }
  | (4, .varint v) => some { p with namespaceVersion := u32v v }
  | (5, .bytes b) => some { p with signer := b }
  | _ => some p

/-- `proto.Unmarshal(b, &BlobProto{})`. -/
def BlobProto.unmarshal (b : Bytes) : Option BlobProto :=
  match parseFields b with
  | none => none
  | some fs => fs.foldlM BlobProto.applyField {}

/-- packed `repeated uint32` payload. -/
def packedU32 : Nat → Bytes → Option (List Nat)
  | 0, _ => none
  | fuel + 1, b =>
    if b.length = 0 then some []
    else
      match consumeVarint b with
      | none => none
      | some (v, rest) => (packedU32 fuel rest).map (fun vs => u32v v :: vs)

def BlobTxProto.applyField (p : BlobTxProto) : Nat × Val → Option BlobTxProto
  | (1, .bytes b) => some { p with tx := b }
  | (2, .bytes b) => (BlobProto.unmarshal b).map (fun m => { p with blobs := p.blobs ++ [m] })
  | (3, .bytes b) => if utf8Valid b then some { p with typeId := b } else none
  | _ => some p

def BlobTxProto.unmarshal (b : Bytes) : Option BlobTxProto :=
  match parseFields b with
  | none => none
  | some fs => fs.foldlM BlobTxProto.applyField {}

def IndexWrapper.applyField (p : IndexWrapper) : Nat × Val → Option IndexWrapper
  | (1, .bytes b) => some { p with tx := b }
  | (2, .bytes b) => (packedU32 (b.length + 1) b).map (fun vs => { p with shareIndexes := p.shareIndexes ++ vs })
  | (2, .varint v) => some { p with shareIndexes := p.shareIndexes ++ [u32v v] }
  | (3, .bytes b) => if utf8Valid b then some { p with typeId := b } else none
  | _ => some p

def IndexWrapper.unmarshal (b : Bytes) : Option IndexWrapper :=
  match parseFields b with
  | none => none
  | some fs => fs.foldlM IndexWrapper.applyField {}

end Proto

open Proto

def blobTxTypeId : Bytes := [0x42, 0x4C, 0x4F, 0x42]         -- "BLOB"
def indexWrapperTypeId : Bytes := [0x49, 0x4E, 0x44, 0x58]   -- "INDX"

/-- `share.NewBlobFromProto`. An empty protobuf `bytes` field is Go's nil (no signer). -/
def Blob.fromProto (pb : BlobProto) : Option Blob :=
  if pb.namespaceVersion > 255 then none
  else if pb.shareVersion > 127 then none
  else
    match Ns.new pb.namespaceVersion.toUInt8 pb.namespaceId with
    | none => none
    | some ns => Blob.new ns pb.data pb.shareVersion (if pb.signer.length = 0 then none else some pb.signer)

def Blob.toProto (b : Blob) : BlobProto :=
  { namespaceId := Ns.id b.ns, data := b.data, shareVersion := b.ver,
    namespaceVersion := Ns.version b.ns, signer := b.signer.getD [] }

/-- `Blob.Marshal`. -/
def Blob.marshal (b : Blob) : Bytes := b.toProto.marshal

/-- `share.UnmarshalBlob`. -/
def Blob.unmarshal (bs : Bytes) : Option Blob :=
  match BlobProto.unmarshal bs with
  | none => none
  | some pb => Blob.fromProto pb

structure BlobTx where
  tx : Bytes
  blobs : List Blob
  deriving Repr, Inhabited, DecidableEq

/-- Result of `tx.UnmarshalBlobTx`: `(blobTx, isBlobTx, err)` collapses to three classes. -/
inductive Decoded where
  | normal                 -- isBlobTx = false (whatever the error)
  | blobTx (b : BlobTx)    -- isBlobTx = true, err = nil
  | badBlobTx              -- isBlobTx = true, err ≠ nil
  deriving Repr, Inhabited, DecidableEq

/-- `tx.UnmarshalBlobTx`. -/
def unmarshalBlobTx (bs : Bytes) : Decoded :=
  match BlobTxProto.unmarshal bs with
  | none => .normal
  | some p =>
    if p.typeId ≠ blobTxTypeId then .normal
    else if p.blobs.length = 0 then .badBlobTx
    else
      match p.blobs.mapM Blob.fromProto with
      | none => .badBlobTx
      | some blobs => .blobTx { tx := p.tx, blobs }

/-- `tx.MarshalBlobTx(tx, blobs...)`: error iff no blobs (blobs are non-nil, non-empty by type). -/
def marshalBlobTx (tx : Bytes) (blobs : List Blob) : Option Bytes :=
  if blobs.length = 0 then none
  else if blobs.any (fun b => b.data.length = 0) then none
  else some ({ tx, blobs := blobs.map Blob.toProto, typeId := blobTxTypeId } : BlobTxProto).marshal

/-- `tx.UnmarshalIndexWrapper`: `some` iff the second result is true. -/
def unmarshalIndexWrapper (bs : Bytes) : Option IndexWrapper :=
  match IndexWrapper.unmarshal bs with
  | none => none
  | some w => if w.typeId ≠ indexWrapperTypeId then none else some w

def newIndexWrapper (tx : Bytes) (idx : List Nat) : IndexWrapper :=
  { tx, shareIndexes := idx, typeId := indexWrapperTypeId }

/-- `tx.MarshalIndexWrapper`. -/
def marshalIndexWrapper (tx : Bytes) (idx : List Nat) : Bytes := (newIndexWrapper tx idx).marshal

end GoSquare
