import GoSquare.Model.Bytes
/-! Integer arithmetic of go-square: inclusion/blob_share_commitment_rules.go,
    inclusion/commitment.go (MerkleMountainRangeSizes), square.go (Size, RoundUpPowerOfTwo),
    builder.go (IsPowerOfTwo), share/share_sequence.go (shares needed), share/utils.go
    (available bytes), share/counter.go. Go `int`/`uint64` are unbounded `Nat` here; every
    theorem that needs a bound states it. -/
namespace GoSquare

/-- `RoundUpPowerOfTwo`: `result := 1; for result < input { result <<= 1 }`. The loop is given
    `fuel` iterations; `roundUpPow2` supplies 64 (the width of a Go int). -/
def roundUpPow2Aux : Nat → Nat → Nat → Nat
  | 0, result, _ => result
  | fuel + 1, result, input => if result < input then roundUpPow2Aux fuel (result * 2) input else result

def roundUpPow2 (input : Nat) : Nat := roundUpPow2Aux 64 1 input

/-- `RoundDownPowerOfTwo`: error iff input ≤ 0. -/
def roundDownPow2 (input : Nat) : Option Nat :=
  if input = 0 then none
  else
    let up := roundUpPow2 input
    if up = input then some up else some (up / 2)

/-- `IsPowerOfTwo`: `input&(input-1) == 0 && input != 0`. -/
def isPowerOfTwo (input : Nat) : Bool := (input &&& (input - 1)) == 0 && input != 0

/-- `float64(n)`: round to nearest even on 53 significant bits (exact below 2^53). -/
def f64OfNat (n : Nat) : Nat :=
  let b := Nat.log2 n + 1          -- bit length (n > 0)
  if n = 0 ∨ b ≤ 53 then n
  else
    let sh := b - 53
    let q := n / 2 ^ sh
    let r := n % 2 ^ sh
    let half := 2 ^ (sh - 1)
    let q' := if r > half ∨ (r = half ∧ q % 2 = 1) then q + 1 else q
    q' * 2 ^ sh

/-- `int(math.Ceil(math.Sqrt(x)))` for an integer-valued binary64 `x`, with `math.Sqrt` the
    IEEE-754 correctly rounded square root: scale so the integer square root has 53 bits, round to
    nearest (a tie is impossible), then take the ceiling. -/
def ceilSqrtF64 (x : Nat) : Nat :=
  if x = 0 then 0
  else
    let r0 := Nat.sqrt x
    let b := Nat.log2 r0 + 1        -- bit length of ⌊√x⌋ (≥ 1)
    let s := 53 - b                 -- x < 2^106 in every use
    let sx := x * 4 ^ s
    let q := Nat.sqrt sx            -- ⌊√x · 2^s⌋, 53 bits
    let r := if sx - q * q > q then q + 1 else q
    (r + 2 ^ s - 1) / 2 ^ s

/-- `inclusion.BlobMinSquareSize` and `square.Size`. -/
def blobMinSquareSize (shareCount : Nat) : Nat :=
  roundUpPow2 (ceilSqrtF64 (f64OfNat shareCount))

/-- `inclusion.SubTreeWidth`. Go panics on `subtreeRootThreshold = 0` (integer division by zero);
    every property quantifies over thresholds ≥ 1 and the model returns Lean's `n / 0 = 0` there. -/
def subTreeWidth (shareCount thr : Nat) : Nat :=
  let s := shareCount / thr
  let s := if shareCount % thr != 0 then s + 1 else s
  let s := roundUpPow2 s
  min s (blobMinSquareSize shareCount)

/-- `inclusion.RoundUpByMultipleOf`. -/
def roundUpByMultipleOf (cursor v : Nat) : Nat :=
  if cursor % v = 0 then cursor else (cursor / v + 1) * v

/-- `inclusion.NextShareIndex`. -/
def nextShareIndex (cursor blobShareLen thr : Nat) : Nat :=
  roundUpByMultipleOf cursor (subTreeWidth blobShareLen thr)

/-- `inclusion.BlobSharesUsedNonInteractiveDefaults`. -/
def blobSharesUsedAux (thr : Nat) : Nat → List Nat → Nat × List Nat
  | cursor, [] => (cursor, [])
  | cursor, l :: ls =>
    let c := nextShareIndex cursor l thr
    let (fin, idx) := blobSharesUsedAux thr (c + l) ls
    (fin, c :: idx)

def blobSharesUsed (cursor thr : Nat) (lens : List Nat) : Nat × List Nat :=
  let (fin, idx) := blobSharesUsedAux thr cursor lens
  (fin - cursor, idx)

/-- `inclusion.MerkleMountainRangeSizes` (no error is possible: `RoundDownPowerOfTwo` is only
    called on a positive remainder). A `maxTreeSize` of 0 makes the Go loop spin forever; the model
    stops after `total` steps. -/
def mmrSizesAux : Nat → Nat → Nat → List Nat
  | 0, _, _ => []
  | fuel + 1, total, maxTree =>
    if total = 0 then []
    else if total ≥ maxTree then maxTree :: mmrSizesAux fuel (total - maxTree) maxTree
    else
      match roundDownPow2 total with
      | none => []
      | some t => t :: mmrSizesAux fuel (total - t) maxTree

def mmrSizes (total maxTree : Nat) : List Nat := mmrSizesAux total total maxTree

/-! ### share counts -/

/-- `share.CompactSharesNeeded`. -/
def compactSharesNeeded (sequenceLen : Nat) : Nat :=
  if sequenceLen = 0 then 0
  else if sequenceLen < 474 then 1
  else
    let remaining := sequenceLen - 474
    let cont := remaining / 478
    let cont := if remaining % 478 > 0 then cont + 1 else cont
    1 + cont

/-- `share.SparseSharesNeededWithSigner` (added by the `fix:` commit for F2). -/
def sparseSharesNeededWithSigner (sequenceLen : Nat) (containsSigner : Bool) : Nat :=
  if sequenceLen = 0 then 0
  else
    let first := if containsSigner then 478 - 20 else 478
    if sequenceLen < first then 1
    else
      let remaining := sequenceLen - first
      let cont := remaining / 482
      let cont := if remaining % 482 > 0 then cont + 1 else cont
      1 + cont

/-- `share.SparseSharesNeeded`. -/
def sparseSharesNeeded (sequenceLen : Nat) : Nat := sparseSharesNeededWithSigner sequenceLen false

/-- `share.AvailableBytesFromCompactShares` (argument is a Go int; negative handled by the driver). -/
def availableBytesFromCompactShares (n : Nat) : Nat :=
  if n = 0 then 0 else if n = 1 then 474 else (n - 1) * 478 + 474

/-- `share.AvailableBytesFromSparseShares`. -/
def availableBytesFromSparseShares (n : Nat) : Nat :=
  if n = 0 then 0 else if n = 1 then 478 else (n - 1) * 482 + 478

/-! ### share/counter.go -/

structure Counter where
  lastShares : Nat := 0
  lastRemainder : Nat := 0
  shares : Nat := 0
  remainder : Nat := 0
  deriving DecidableEq, Repr, Inhabited

/-- the three phases of `CompactShareCounter.Add` on (shares, remainder) for `d` more bytes:
    fill the first share, fill the current continuation share, then whole continuation shares. -/
def Counter.advance (shares remainder d : Nat) : Nat × Nat :=
  -- first share
  let (s1, r1, d1) :=
    if shares = 0 then
      if d ≥ 474 - remainder then (shares + 1, 0, d - (474 - remainder))
      else (shares, remainder + d, 0)
    else (shares, remainder, d)
  -- fill the current continuation share
  let (s2, r2, d2) :=
    if d1 ≥ 478 - r1 then (s1 + 1, 0, d1 - (478 - r1)) else (s1, r1 + d1, 0)
  -- whole continuation shares
  if d2 > 0 then (s2 + d2 / 478, d2 % 478) else (s2, r2)

/-- `CompactShareCounter.Add`: returns the new state and the (signed) share increment. -/
def Counter.add (c : Counter) (dataLen : Nat) : Counter × Int :=
  let d := dataLen + uvarintLen dataLen
  let p := Counter.advance c.shares c.remainder d
  let diff : Int := (p.1 : Int) - (c.shares : Int)
  let diff := if c.remainder = 0 ∧ p.2 > 0 then diff + 1 else if c.remainder > 0 ∧ p.2 = 0 then diff - 1 else diff
  ({ lastShares := c.shares, lastRemainder := c.remainder, shares := p.1, remainder := p.2 }, diff)

def Counter.revert (c : Counter) : Counter :=
  { c with shares := c.lastShares, remainder := c.lastRemainder }

def Counter.size (c : Counter) : Nat := if c.remainder = 0 then c.shares else c.shares + 1

end GoSquare
