import GoSquare.Gen.Facts
import GoSquare.Model.Builder
import GoSquare.Spec.Layout
/-! The tie between the hand-written model and the regenerated facts: every literal the model
    (and the Spec) uses is *proved equal* to the value `harness -facts` read from the package
    compiled from /repo's working tree. If a constant, a reserved namespace, a type id, the list
    of supported versions or the placeholder share index changes in the source, this module stops
    compiling and the check reports the broken obligation (DESIGN.md §4.2, §5). -/
namespace GoSquare.FactsTie
open GoSquare GoSquare.Facts

-- share layout
example : ShareSize = 512 := rfl
example : NamespaceSize = 29 := rfl
example : NamespaceIDSize = 28 := rfl
example : NamespaceVersionSize = 1 := rfl
example : VersionIndex = 0 := rfl
example : ShareInfoBytes = 1 := rfl
example : SequenceLenBytes = 4 := rfl
example : ShareReservedBytes = 4 := rfl
example : CompactShareReservedBytes = 4 := rfl
example : SignerSize = 20 := rfl
example : MaxShareVersion = 127 := rfl
example : ShareVersionZero = 0 := rfl
example : ShareVersionOne = 1 := rfl
example : DefaultShareVersion = 0 := rfl
example : MinSquareSize = 1 := rfl
example : MinShareCount = 1 := rfl
example : NamespaceVersionZero = 0 := rfl
example : NamespaceVersionMax = 255 := rfl
example : NamespaceVersionZeroPrefixSize = 18 := rfl
example : NamespaceVersionZeroIDSize = 10 := rfl
-- capacities used by the counter, the closed forms, the splitters and the Spec
example : FirstCompactShareContentSize = 474 := rfl
example : ContinuationCompactShareContentSize = 478 := rfl
example : FirstSparseShareContentSize = 478 := rfl
example : ContinuationSparseShareContentSize = 482 := rfl
example : FirstCompactShareContentSize = ShareSize - NamespaceSize - ShareInfoBytes - SequenceLenBytes - ShareReservedBytes := rfl
example : FirstSparseShareContentSize - SignerSize = 458 := rfl
-- reserved namespaces
example : TxNamespace = txNamespace := by decide
example : IntermediateStateRootsNamespace = intermediateStateRootsNamespace := by decide
example : PayForBlobNamespace = payForBlobNamespace := by decide
example : PrimaryReservedPaddingNamespace = primaryReservedPaddingNamespace := by decide
example : MaxPrimaryReservedNamespace = maxPrimaryReservedNamespace := by decide
example : MinSecondaryReservedNamespace = minSecondaryReservedNamespace := by decide
example : TailPaddingNamespace = tailPaddingNamespace := by decide
example : ParitySharesNamespace = paritySharesNamespace := by decide
example : NamespaceVersionZeroPrefix = List.replicate 18 0 := by decide
-- supported versions (Share.checkVersionSupported, sparseWrite, Ns.validateForBlob)
example : SupportedShareVersions = [0, 1] := by decide
example : SupportedBlobNamespaceVersions = [0] := by decide
-- type ids
example : ProtoBlobTxTypeID = blobTxTypeId := by decide
example : ProtoIndexWrapperTypeID = indexWrapperTypeId := by decide
-- placeholder share index of the worst-case PFB estimate
example : WorstCaseShareIndex = worstCaseShareIndex := by decide
example : WorstCaseShareIndex = Spec.placeholderIndex := by decide

end GoSquare.FactsTie
