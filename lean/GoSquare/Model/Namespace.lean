import GoSquare.Model.Bytes
/-! share/namespace.go and the reserved namespaces of share/consts.go. A namespace is its byte
    string (`Namespace.data`); well-formed ones have 29 bytes. -/
namespace GoSquare

def primaryReservedNamespace (last : UInt8) : Bytes := 0 :: (List.replicate 27 0 ++ [last])
def secondaryReservedNamespace (last : UInt8) : Bytes := 255 :: (List.replicate 27 255 ++ [last])

def txNamespace : Bytes := primaryReservedNamespace 0x01
def intermediateStateRootsNamespace : Bytes := primaryReservedNamespace 0x02
def payForBlobNamespace : Bytes := primaryReservedNamespace 0x04
def primaryReservedPaddingNamespace : Bytes := primaryReservedNamespace 0xFF
def maxPrimaryReservedNamespace : Bytes := primaryReservedNamespace 0xFF
def minSecondaryReservedNamespace : Bytes := secondaryReservedNamespace 0x00
def tailPaddingNamespace : Bytes := secondaryReservedNamespace 0xFE
def paritySharesNamespace : Bytes := secondaryReservedNamespace 0xFF

namespace Ns

def compare (a b : Bytes) : Int := cmpBytes a b
def equals (a b : Bytes) : Bool := a == b
def isLessThan (a b : Bytes) : Bool := compare a b == -1
def isLessOrEqualThan (a b : Bytes) : Bool := compare a b < 1
def isGreaterThan (a b : Bytes) : Bool := compare a b == 1
def isGreaterOrEqualThan (a b : Bytes) : Bool := compare a b > -1

/-- `Namespace.Version` (`data[0]`; only called on non-empty data in the modelled paths). -/
def version (n : Bytes) : Nat := (n.headD 0).toNat
def id (n : Bytes) : Bytes := n.drop 1

def isTx (n : Bytes) : Bool := equals n txNamespace
def isPayForBlob (n : Bytes) : Bool := equals n payForBlobNamespace
def isPrimaryReservedPadding (n : Bytes) : Bool := equals n primaryReservedPaddingNamespace
def isTailPadding (n : Bytes) : Bool := equals n tailPaddingNamespace
def isParityShares (n : Bytes) : Bool := equals n paritySharesNamespace
def isPrimaryReserved (n : Bytes) : Bool := isLessOrEqualThan n maxPrimaryReservedNamespace
def isSecondaryReserved (n : Bytes) : Bool := isGreaterOrEqualThan n minSecondaryReservedNamespace
def isReserved (n : Bytes) : Bool := isPrimaryReserved n || isSecondaryReserved n
def isUsableNamespace (n : Bytes) : Bool := !isParityShares n && !isTailPadding n

/-- `validateVersionSupported` then `validateID`. -/
def validate (n : Bytes) : Bool :=
  (version n == 0 || version n == 255) &&
  (id n).length == 28 &&
  (version n != 0 || (id n).take 18 == List.replicate 18 0)

/-- `NewNamespace(version, id)`: `some ns` iff accepted. -/
def new (version : UInt8) (id : Bytes) : Option Bytes :=
  let n := version :: id
  if validate n then some n else none

/-- `NewNamespaceFromBytes`. -/
def fromBytes (b : Bytes) : Option Bytes :=
  if b.length = 29 ∧ validate b then some b else none

/-- `NewV0Namespace(subID)`. -/
def newV0 (subID : Bytes) : Option Bytes :=
  if subID.length > 10 then none
  else fromBytes (List.replicate (29 - subID.length) 0 ++ subID)

/-- `ValidateForData`. -/
def validateForData (n : Bytes) : Bool := isUsableNamespace n

/-- `ValidateForBlob`: usable, not reserved, version supported for blobs (only 0). -/
def validateForBlob (n : Bytes) : Bool :=
  validateForData n && !isReserved n && version n == 0

/-- One step of `AddInt`'s byte loop, least significant byte first. `neg` selects subtraction.
    Returns the result bytes (least significant first) and the final carry. -/
def addLoop (neg : Bool) : List UInt8 → List UInt8 → Int → List UInt8 × Int
  | [], _, carry => ([], carry)
  | a :: as, bs, carry =>
    let b : UInt8 := bs.headD 0
    let sum : Int := if neg then (a.toNat : Int) - b.toNat + carry else (a.toNat : Int) + b.toNat + carry
    let (sum, carry) :=
      if sum > 255 then (sum - 256, (1 : Int)) else if sum < 0 then (sum + 256, (-1 : Int)) else (sum, (0 : Int))
    let (rest, c) := addLoop neg as bs.tail carry
    (sum.toNat.toUInt8 :: rest, c)

/-- `Namespace.AddInt(val)` for a 29-byte namespace and a Go `int` (int64). `uint64(-val)` of
    `MinInt64` wraps to `2^63`, which the `% 2^64` reproduces. -/
def addInt (n : Bytes) (val : Int) : Option Bytes :=
  if val = 0 then some n
  else
    let mag : Nat := (if val > 0 then val.toNat else (-val).toNat) % 18446744073709551616
    let addend : Bytes := zeros 21 ++ be64 mag
    let (res, carry) := addLoop (val < 0) n.reverse addend.reverse 0
    if carry ≠ 0 then none else some res.reverse

end Ns
end GoSquare
