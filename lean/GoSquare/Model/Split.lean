import GoSquare.Model.Share
/-! share/split_compact_shares.go, split_sparse_shares.go, blob.go (the Blob value and its
    validation). State machines are state-passing; every Go `error` return is kept. -/
namespace GoSquare

/-! ### Blob -/

/-- `share.Blob`. `signer = none` is Go's nil slice (observable: `NewBlob` tests `signer != nil`). -/
structure Blob where
  ns : Bytes
  data : Bytes
  ver : Nat
  signer : Option Bytes
  deriving DecidableEq, Repr, Inhabited

/-- `NewBlob(ns, data, shareVersion, signer)`: `some` iff accepted. -/
def Blob.new (ns data : Bytes) (ver : Nat) (signer : Option Bytes) : Option Blob :=
  if data.length = 0 then none
  else if ns.length = 0 then none
  else if Ns.version ns ≠ 0 then none
  else if ver = 0 then (if signer.isSome then none else some { ns, data, ver, signer })
  else if ver = 1 then
    (if (signer.getD []).length ≠ 20 then none else some { ns, data, ver, signer })
  else none

/-- `uint32(len(data))`. -/
def u32 (n : Nat) : Nat := n % 4294967296

/-! ### SparseShareSplitter -/

/-- the `for rawData != nil` loop of `SparseShareSplitter.Write`. -/
def sparseLoop (ns : Bytes) (ver : Nat) : Nat → ShareBuilder → Bytes → List Bytes → Res (List Bytes)
  | 0, _, _, _ => .error .panic            -- out of fuel: unreachable, see `sparseWrite`
  | fuel + 1, b, data, acc =>
    let (b, left) := b.addData data
    match left with
    | none => do
      let (b, _) := b.zeroPadIfNecessary
      let s ← b.build
      .ok (acc ++ [s])
    | some rest => do
      let s ← b.build
      let nb ← ShareBuilder.new ns ver false
      sparseLoop ns ver fuel nb rest (acc ++ [s])

/-- `SparseShareSplitter.Write(blob)` on the splitter's share list. -/
def sparseWrite (shares : List Bytes) (blob : Blob) : Res (List Bytes) :=
  if !(blob.ver == 0 || blob.ver == 1) then .error .err
  else do
    let b ← ShareBuilder.new blob.ns blob.ver true
    let b ← b.writeSequenceLen (u32 blob.data.length)
    let b := if blob.ver = 1 then b.writeSigner (blob.signer.getD []) else b
    sparseLoop blob.ns blob.ver (blob.data.length + 1) b blob.data shares

/-- `Blob.ToShares`. -/
def Blob.toShares (b : Blob) : Res (List Bytes) := sparseWrite [] b

/-- `SparseShareSplitter.WriteNamespacePaddingShares(count)` for count ≥ 0. -/
def sparseWritePadding (shares : List Bytes) (count : Nat) : Res (List Bytes) :=
  if count = 0 then .ok shares
  else
    match shares.getLast? with
    | none => .error .err
    | some last => do
      let pad ← namespacePaddingShares (Share.ns last) (Share.version last) count
      .ok (shares ++ pad)

/-! ### CompactShareSplitter -/

structure CompactSplitter where
  shares : List Bytes
  sb : ShareBuilder
  ns : Bytes
  ver : Nat
  done : Bool
  /-- `shareRanges`, keyed by the transaction bytes (Go: by their SHA-256), last write wins. -/
  ranges : List (Bytes × Nat × Nat)
  deriving Repr, Inhabited

namespace CompactSplitter

/-- `NewCompactShareSplitter` (Go panics if the builder cannot be made: version > 127). -/
def new (ns : Bytes) (ver : Nat) : Res CompactSplitter := do
  let sb ← (ShareBuilder.new ns ver true).mapError (fun _ => Err.panic)
  .ok { shares := [], sb, ns, ver, done := false, ranges := [] }

def isEmpty (c : CompactSplitter) : Bool := c.shares.length == 0 && c.sb.isEmptyShare

/-- `Count`. -/
def count (c : CompactSplitter) : Nat :=
  if !c.sb.isEmptyShare && !c.done then c.shares.length + 1 else c.shares.length

/-- `stackPending`. -/
def stackPending (c : CompactSplitter) : Res CompactSplitter := do
  let s ← c.sb.build
  let sb ← ShareBuilder.new c.ns c.ver false
  .ok { c with shares := c.shares ++ [s], sb }

/-- `reopen` (introduced by the `fix:` for F4): drop the zero-padded copy `Export` appended. -/
def reopen (c : CompactSplitter) : CompactSplitter :=
  if c.done then
    { c with shares := if !c.sb.isEmptyShare then c.shares.dropLast else c.shares, done := false }
  else c

/-- the `for { AddData … stackPending }` loop of `write`. -/
def addLoop : Nat → CompactSplitter → Bytes → Res CompactSplitter
  | 0, _, _ => .error .panic             -- out of fuel: unreachable
  | fuel + 1, c, data =>
    let (sb, left) := c.sb.addData data
    match left with
    | none => .ok { c with sb }
    | some rest => do
      let c ← stackPending { c with sb }
      addLoop fuel c rest

/-- `write(rawData)`. -/
def write (c : CompactSplitter) (raw : Bytes) : Res CompactSplitter := do
  let c := c.reopen
  let sb ← c.sb.maybeWriteReservedBytes
  let c ← addLoop (raw.length + 2) { c with sb } raw
  if c.sb.availableBytes = 0 then c.stackPending else .ok c

/-- `MarshalDelimitedTx`. -/
def marshalDelimitedTx (tx : Bytes) : Bytes := uvarint tx.length ++ tx

def setRange (rs : List (Bytes × Nat × Nat)) (k : Bytes) (v : Nat × Nat) : List (Bytes × Nat × Nat) :=
  if rs.any (fun e => e.1 == k) then rs.map (fun e => if e.1 == k then (k, v) else e) else rs ++ [(k, v)]

/-- `WriteTx`. -/
def writeTx (c : CompactSplitter) (tx : Bytes) : Res CompactSplitter := do
  let raw := marshalDelimitedTx tx
  let c := c.reopen
  let startShare := c.shares.length
  let c ← c.write raw
  let endShare := c.count
  .ok { c with ranges := setRange c.ranges tx (startShare, endShare) }

/-- `sequenceLen(bytesOfPadding)` as `uint32`. -/
def sequenceLen (c : CompactSplitter) (bytesOfPadding : Nat) : Nat :=
  if c.shares.length = 0 then 0
  else if c.shares.length = 1 then u32 (474 - bytesOfPadding)
  else u32 (474 + (c.shares.length - 1) * 478 - bytesOfPadding)

/-- `writeSequenceLen`: re-import the first share and patch bytes 30..33. -/
def writeSeqLen (c : CompactSplitter) (n : Nat) : Res CompactSplitter :=
  if c.isEmpty then .ok c
  else
    match c.shares with
    | [] => .error .panic
    | s0 :: rest => do
      let b ← ShareBuilder.new c.ns c.ver true
      let b := { b with raw := s0 }
      let b ← b.writeSequenceLen n
      let s0' ← b.build
      .ok { c with shares := s0' :: rest }

/-- `Export` (after the `fix:` for F4: a zero-padded *copy* of the pending share is appended, the
    pending builder itself is kept so later writes continue in it). -/
def exportShares (c : CompactSplitter) : Res (CompactSplitter × List Bytes) :=
  if c.isEmpty then .ok (c, [])
  else if c.done then .ok (c, c.shares)
  else do
    let (c, pad) ←
      if !c.sb.isEmptyShare then do
        let (p, n) := c.sb.zeroPadIfNecessary
        let s ← p.build
        pure ({ c with shares := c.shares ++ [s] }, n)
      else pure (c, 0)
    let c ← c.writeSeqLen (c.sequenceLen pad)
    let c := { c with done := true }
    .ok (c, c.shares)

/-- `ShareRanges(offset)`, as a list in first-write order (the harness sorts the Go map). -/
def shareRanges (c : CompactSplitter) (offset : Nat) : List (Bytes × Nat × Nat) :=
  c.ranges.map (fun e => (e.1, e.2.1 + offset, e.2.2 + offset))

end CompactSplitter
end GoSquare
