import GoSquare.Model.Proto
/-! JSON encodings of namespaces, shares and blobs (`MarshalJSON` / `UnmarshalJSON`).

The library delegates to `encoding/json`, which writes a `[]byte` as a base64 string
(`base64.StdEncoding`, padded) and the generated `BlobProto` struct as an object with
`omitempty` members in field order. The ENCODERS are modelled completely (byte-exact).
The DECODERS are modelled on the *canonical fragment* of JSON only: no white space, no escape
sequences, no control characters, member names exactly as in the struct tags, integers written
with digits only. On every other document the model answers `outside` and says nothing (the
Go-side oracles of the PROTO stream cover those). Core Lean only: linked into the driver. -/
namespace GoSquare.Json
open GoSquare GoSquare.Proto

/-! ### base64.StdEncoding -/

/-- the alphabet `A-Z a-z 0-9 + /` -/
def encChar (i : Nat) : UInt8 :=
  if i < 26 then (65 + i).toUInt8
  else if i < 52 then (97 + (i - 26)).toUInt8
  else if i < 62 then (48 + (i - 52)).toUInt8
  else if i = 62 then 43 else 47

/-- `decodeMap` of the encoding: `none` for a byte outside the alphabet -/
def decChar (c : UInt8) : Option Nat :=
  let n := c.toNat
  if 65 ≤ n ∧ n ≤ 90 then some (n - 65)
  else if 97 ≤ n ∧ n ≤ 122 then some (n - 97 + 26)
  else if 48 ≤ n ∧ n ≤ 57 then some (n - 48 + 52)
  else if n = 43 then some 62
  else if n = 47 then some 63
  else none

/-- `base64.StdEncoding.EncodeToString` -/
def b64Encode : Bytes → Bytes
  | a :: b :: c :: rest =>
    encChar (a.toNat / 4) :: encChar (a.toNat % 4 * 16 + b.toNat / 16) ::
      encChar (b.toNat % 16 * 4 + c.toNat / 64) :: encChar (c.toNat % 64) :: b64Encode rest
  | [a, b] => [encChar (a.toNat / 4), encChar (a.toNat % 4 * 16 + b.toNat / 16), encChar (b.toNat % 16 * 4), 61]
  | [a] => [encChar (a.toNat / 4), encChar (a.toNat % 4 * 16), 61, 61]
  | [] => []

/-- quanta of four characters; padding `=` only in the last quantum; the decoder is not in strict
    mode, so the unused low bits of the last character before the padding are ignored -/
def b64DecodeCore : Bytes → Option Bytes
  | [] => some []
  | [c0, c1, 61, 61] =>
    match decChar c0, decChar c1 with
    | some a, some b => some [(a * 4 + b / 16).toUInt8]
    | _, _ => none
  | [c0, c1, c2, 61] =>
    match decChar c0, decChar c1, decChar c2 with
    | some a, some b, some c => some [(a * 4 + b / 16).toUInt8, (b % 16 * 16 + c / 4).toUInt8]
    | _, _, _ => none
  | c0 :: c1 :: c2 :: c3 :: rest =>
    match decChar c0, decChar c1, decChar c2, decChar c3, b64DecodeCore rest with
    | some a, some b, some c, some d, some r =>
      some ((a * 4 + b / 16).toUInt8 :: (b % 16 * 16 + c / 4).toUInt8 :: (c % 4 * 64 + d).toUInt8 :: r)
    | _, _, _, _, _ => none
  | _ => none

/-- `base64.StdEncoding.DecodeString`: carriage returns and line feeds are skipped wherever they stand -/
def b64Decode (s : Bytes) : Option Bytes := b64DecodeCore (s.filter (fun c => c != 10 && c != 13))

/-! ### JSON values of the canonical fragment -/

/-- outcome of a decoder: a value, a Go `error`, or "the document is outside the modelled fragment" -/
inductive R (α : Type) where
  | ok (a : α)
  | err
  | outside
  deriving Repr, DecidableEq, Inhabited

def quote : UInt8 := 34
def nullLit : Bytes := [110, 117, 108, 108]   -- null

/-- `json.Marshal` of a non-nil `[]byte` -/
def jsonOfBytes (b : Bytes) : Bytes := quote :: (b64Encode b ++ [quote])

/-- the characters of a string literal after its opening quote, up to the closing quote, and what
    follows it; `none` when an escape, a control character or the end of input comes first -/
def strBody : Bytes → Option (Bytes × Bytes)
  | [] => none
  | c :: rest =>
    if c = quote then some ([], rest)
    else if c = 92 ∨ c < 32 then none
    else match strBody rest with
      | some (s, r) => some (c :: s, r)
      | none => none

def digits : Bytes → Bytes × Bytes
  | [] => ([], [])
  | c :: rest => if 48 ≤ c ∧ c ≤ 57 then let (d, r) := digits rest; (c :: d, r) else ([], c :: rest)

def natOfDigits (d : Bytes) : Nat := d.foldl (fun acc c => acc * 10 + (c.toNat - 48)) 0

/-- `strconv.AppendUint(…, 10)` -/
def natToDigits (n : Nat) : Bytes := (Nat.toDigits 10 n).map (fun ch => ch.toNat.toUInt8)

/-- a `[]byte` destination: `null` gives nil (`none`), a string is base64 -/
def bytesValue (doc : Bytes) : R (Option Bytes × Bytes) :=
  match doc with
  | 110 :: 117 :: 108 :: 108 :: rest => .ok (none, rest)
  | 34 :: rest =>
    match strBody rest with
    | none => .outside
    | some (s, r) =>
      match b64Decode s with
      | none => .err
      | some b => .ok (some b, r)
  | _ => .outside

/-- a `uint32` destination: `null` leaves it alone (`none`); digits only; a value that does not fit is an error -/
def u32Value (doc : Bytes) : R (Option Nat × Bytes) :=
  match doc with
  | 110 :: 117 :: 108 :: 108 :: rest => .ok (none, rest)
  | _ =>
    match digits doc with
    | ([], _) => .outside
    | (d, r) =>
      if d.length > 1 ∧ d.head? = some 48 then .outside          -- leading zero: not a JSON number
      else match r with
        | 46 :: _ => .outside                                     -- fraction
        | 101 :: _ => .outside                                    -- exponent
        | 69 :: _ => .outside
        | _ => if natOfDigits d < 4294967296 then .ok (some (natOfDigits d), r) else .err

/-- `json.Unmarshal(doc, &buf)` for `var buf []byte`, whole document -/
def unmarshalBytes (doc : Bytes) : R (Option Bytes) :=
  match bytesValue doc with
  | .ok (v, []) => .ok v
  | .ok (_, _ :: _) => .outside
  | .err => .err
  | .outside => .outside

/-! ### Namespace and Share -/

/-- `Namespace.MarshalJSON` (of a constructed namespace: 29 bytes, never nil) -/
def marshalNs (ns : Bytes) : Bytes := jsonOfBytes ns

/-- `Namespace.UnmarshalJSON` -/
def unmarshalNs (doc : Bytes) : R Bytes :=
  match unmarshalBytes doc with
  | .ok v => match Ns.fromBytes (v.getD []) with
    | some ns => .ok ns
    | none => .err
  | .err => .err
  | .outside => .outside

/-- `Share.MarshalJSON` -/
def marshalShare (s : Bytes) : Bytes := jsonOfBytes s

/-- `Share.UnmarshalJSON`: the size check is the only validation -/
def unmarshalShare (doc : Bytes) : R Bytes :=
  match unmarshalBytes doc with
  | .ok v => if (v.getD []).length = 512 then .ok (v.getD []) else .err
  | .err => .err
  | .outside => .outside

/-! ### BlobProto and Blob -/

def keyNamespaceId : Bytes := "namespace_id".toUTF8.toList
def keyData : Bytes := "data".toUTF8.toList
def keyShareVersion : Bytes := "share_version".toUTF8.toList
def keyNamespaceVersion : Bytes := "namespace_version".toUTF8.toList
def keySigner : Bytes := "signer".toUTF8.toList

def memberBytes (key v : Bytes) : List Bytes :=
  if v.length = 0 then [] else [quote :: (key ++ [quote, 58] ++ jsonOfBytes v)]
def memberU32 (key : Bytes) (v : Nat) : List Bytes :=
  if v = 0 then [] else [quote :: (key ++ [quote, 58] ++ natToDigits v)]

def joinComma : List Bytes → Bytes
  | [] => []
  | [m] => m
  | m :: ms => m ++ 44 :: joinComma ms

/-- `json.Marshal(&BlobProto{…})`: members in field order, empty ones omitted -/
def marshalBlobProto (p : BlobProto) : Bytes :=
  123 :: (joinComma (memberBytes keyNamespaceId p.namespaceId ++ memberBytes keyData p.data ++
    memberU32 keyShareVersion p.shareVersion ++ memberU32 keyNamespaceVersion p.namespaceVersion ++
    memberBytes keySigner p.signer) ++ [125])

/-- `Blob.MarshalJSON` -/
def marshalBlob (b : Blob) : Bytes := marshalBlobProto b.toProto

/-- what `json.Unmarshal` leaves in a `BlobProto`: the message, and whether `Signer` is an empty but
    non-nil slice (an explicit `""`), which `NewBlob` tells apart from nil (for every other field
    only the length matters) -/
structure DecodedProto where
  pb : BlobProto
  signerEmptyNonNil : Bool
  deriving Repr, DecidableEq, Inhabited

/-- one member `"key":value`; returns the updated message and the rest of the document -/
def member (p : DecodedProto) (doc : Bytes) : R (DecodedProto × Bytes) :=
  match doc with
  | 34 :: rest =>
    match strBody rest with
    | none => .outside
    | some (key, 58 :: v) =>
      if key = keyNamespaceId then
        match bytesValue v with
        | .ok (b, r) => .ok ({ p with pb := { p.pb with namespaceId := b.getD [] } }, r)
        | .err => .err
        | .outside => .outside
      else if key = keyData then
        match bytesValue v with
        | .ok (b, r) => .ok ({ p with pb := { p.pb with data := b.getD [] } }, r)
        | .err => .err
        | .outside => .outside
      else if key = keySigner then
        match bytesValue v with
        | .ok (b, r) => .ok ({ pb := { p.pb with signer := b.getD [] }, signerEmptyNonNil := (b == some []) }, r)
        | .err => .err
        | .outside => .outside
      else if key = keyShareVersion then
        match u32Value v with
        | .ok (n, r) => .ok ({ p with pb := { p.pb with shareVersion := n.getD p.pb.shareVersion } }, r)
        | .err => .err
        | .outside => .outside
      else if key = keyNamespaceVersion then
        match u32Value v with
        | .ok (n, r) => .ok ({ p with pb := { p.pb with namespaceVersion := n.getD p.pb.namespaceVersion } }, r)
        | .err => .err
        | .outside => .outside
      else .outside                                               -- unknown or differently spelled member
    | some (_, _) => .outside
  | _ => .outside

/-- members separated by commas up to the closing brace, which must end the document -/
def members : Nat → DecodedProto → Bytes → R DecodedProto
  | 0, _, _ => .outside
  | fuel + 1, p, doc =>
    match member p doc with
    | .ok (p', [125]) => .ok p'
    | .ok (p', 44 :: rest) => members fuel p' rest
    | .ok (_, _) => .outside
    | .err => .err
    | .outside => .outside

def emptyProto : DecodedProto :=
  { pb := { namespaceId := [], data := [], shareVersion := 0, namespaceVersion := 0, signer := [] }, signerEmptyNonNil := false }

/-- `json.Unmarshal(doc, &BlobProto{})` on the canonical fragment -/
def unmarshalBlobProto (doc : Bytes) : R DecodedProto :=
  match doc with
  | [123, 125] => .ok emptyProto
  | 123 :: rest => members doc.length emptyProto rest
  | _ => .outside

/-- `Blob.UnmarshalJSON`. A signer that is empty but not nil is refused by `NewBlob` for every share
    version (version 0 takes no signer, version 1 wants 20 bytes, other versions are unsupported). -/
def unmarshalBlob (doc : Bytes) : R Blob :=
  match unmarshalBlobProto doc with
  | .ok d =>
    if d.signerEmptyNonNil then .err
    else match Blob.fromProto d.pb with
      | some b => .ok b
      | none => .err
  | .err => .err
  | .outside => .outside

end GoSquare.Json
