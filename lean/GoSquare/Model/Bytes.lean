/-! Byte-level primitives of the go-square model: byte strings, big-endian uint32, Go varints,
    checked Go slice expressions. Core Lean only (this file is linked into the driver). -/
namespace GoSquare

abbrev Bytes := List UInt8

/-- Outcome classes of a Go call that can fail: an `error` value, or a run-time panic
    (slice bounds, index out of range). Error *text* is never modelled. -/
inductive Err where
  | err
  | panic
  deriving DecidableEq, Repr, Inhabited

abbrev Res := Except Err

def Res.isPanic {α} : Res α → Bool
  | .error .panic => true
  | _ => false

def zeros (n : Nat) : Bytes := List.replicate n 0

/-- Go slice expression `s[a:b]` (for slices whose capacity equals their length). -/
def slice {α} (s : List α) (a b : Nat) : Res (List α) :=
  if a ≤ b ∧ b ≤ s.length then .ok ((s.drop a).take (b - a)) else .error .panic

/-- Go slice expression `s[a:]`. -/
def sliceFrom {α} (s : List α) (a : Nat) : Res (List α) :=
  if a ≤ s.length then .ok (s.drop a) else .error .panic

/-- `binary.BigEndian.PutUint32` of `uint32(n)`. -/
def be32 (n : Nat) : Bytes :=
  [(n / 16777216 % 256).toUInt8, (n / 65536 % 256).toUInt8, (n / 256 % 256).toUInt8, (n % 256).toUInt8]

/-- `binary.BigEndian.Uint32` of the first four bytes. -/
def readBe32 : Bytes → Nat
  | a :: b :: c :: d :: _ => a.toNat * 16777216 + b.toNat * 65536 + c.toNat * 256 + d.toNat
  | _ => 0

/-- `binary.BigEndian.PutUint64`. -/
def be64 (n : Nat) : Bytes := be32 (n / 4294967296) ++ be32 (n % 4294967296)

/-- `binary.PutUvarint` (canonical base-128 little-endian varint). -/
def uvarint (n : Nat) : Bytes :=
  if n < 128 then [n.toUInt8] else (n % 128 + 128).toUInt8 :: uvarint (n / 128)
termination_by n
decreasing_by omega

/-- number of bytes `binary.PutUvarint` writes (`delimLen`). -/
def uvarintLen (n : Nat) : Nat :=
  if n < 128 then 1 else 1 + uvarintLen (n / 128)
termination_by n
decreasing_by omega

/-- `binary.ReadUvarint` over a byte buffer: `some (value, bytesConsumed)`, or `none` on EOF or
    overflow (more than 10 bytes, or a 10th byte above 1). `i` counts bytes already read. -/
def readUvarintAux : Bytes → (i shift acc : Nat) → Option (Nat × Nat)
  | [], _, _, _ => none
  | b :: rest, i, shift, acc =>
    if i ≥ 10 then none
    else if b < 128 then
      if i = 9 ∧ b > 1 then none else some (acc + b.toNat * 2 ^ shift, i + 1)
    else readUvarintAux rest (i + 1) (shift + 7) (acc + (b.toNat - 128) * 2 ^ shift)

def readUvarint (bs : Bytes) : Option (Nat × Nat) := readUvarintAux bs 0 0 0

/-- `bytes.Compare`: -1, 0, 1. -/
def cmpBytes : Bytes → Bytes → Int
  | [], [] => 0
  | [], _ :: _ => -1
  | _ :: _, [] => 1
  | a :: as, b :: bs => if a < b then -1 else if b < a then 1 else cmpBytes as bs

/-- FNV-1a 64 over bytes: used only by the driver to print digests of shares. -/
def fnv64 (bs : Bytes) : UInt64 :=
  bs.foldl (fun h b => (h ^^^ b.toUInt64) * 1099511628211) 14695981039346656037

end GoSquare
