import GoSquare.Model.Bytes
/-! A small model of Go slices over one flat memory, for C17: a slice is (offset, length,
    capacity) into the heap; `append` writes in place while the capacity allows and otherwise
    allocates at the end of the heap. This is the part of Go's semantics that decides whether a
    "read-only" function can modify the caller's buffers: appending to a *view* with spare
    capacity writes into the memory that follows the view. -/
namespace GoSquare.Heap

abbrev Heap := List UInt8

structure Slice where
  off : Nat
  len : Nat
  cap : Nat
  deriving Repr, DecidableEq

/-- Go's nil slice -/
def nilSlice : Slice := ⟨0, 0, 0⟩

/-- the slice lies inside the heap -/
def Slice.InBounds (s : Slice) (h : Heap) : Prop := s.len ≤ s.cap ∧ s.off + s.cap ≤ h.length

def load (h : Heap) (s : Slice) : Bytes := (h.drop s.off).take s.len

/-- store `xs` at address `a` (inside the heap) -/
def store (h : Heap) (a : Nat) (xs : Bytes) : Heap := h.take a ++ xs ++ h.drop (a + xs.length)

/-- Go `append(s, xs...)`: in place if the capacity allows, else a fresh allocation (any growth
    policy: `extra` spare bytes). Returns the new heap and the resulting slice. -/
def goAppend (h : Heap) (s : Slice) (xs : Bytes) (extra : Nat) : Heap × Slice :=
  if s.len + xs.length ≤ s.cap then
    (store h (s.off + s.len) xs, { s with len := s.len + xs.length })
  else
    (h ++ (load h s ++ xs) ++ zeros extra,
     { off := h.length, len := s.len + xs.length, cap := s.len + xs.length + extra })

/-- the accumulation pattern of the readers:
    `var data []byte; for _, v := range views { data = append(data, read(v)...) }`
    (`extras` are the arbitrary growth decisions of the runtime) -/
def accumulate : Heap → Slice → List Slice → List Nat → Heap × Slice
  | h, acc, [], _ => (h, acc)
  | h, acc, v :: vs, extras =>
    let (h', acc') := goAppend h acc (load h v) (extras.headD 0)
    accumulate h' acc' vs extras.tail

end GoSquare.Heap
