import GoSquare.Model.Parse
import GoSquare.Model.Proto
/-! builder.go and square.go: the square builder state machine, Export, WriteSquare, Build,
    Construct, Deconstruct, TxShareRange, BlobShareRange. State-passing; every defensive
    error of the Go code is kept as `.error .err`. -/
namespace GoSquare

structure Element where
  blob : Blob
  pfbIndex : Nat
  blobIndex : Nat
  numShares : Nat
  maxPadding : Nat
  deriving Repr, Inhabited, DecidableEq

/-- `newElement` (after the `fix:` for F2: the share count is signer-aware). -/
def newElement (blob : Blob) (pfbIndex blobIndex thr : Nat) : Element :=
  let numShares := sparseSharesNeededWithSigner (u32 blob.data.length) (blob.ver == 1)
  { blob, pfbIndex, blobIndex, numShares, maxPadding := subTreeWidth numShares thr - 1 }

def Element.maxShareOffset (e : Element) : Nat := e.numShares + e.maxPadding

/-- `worstCaseShareIndexes`: 128 * 128 for every blob. -/
def worstCaseShareIndex : Nat := 128 * 128
def worstCaseShareIndexes (blobs : Nat) : List Nat := List.replicate blobs worstCaseShareIndex

structure Builder where
  maxSquareSize : Nat
  thr : Nat
  currentSize : Int := 0
  txs : List Bytes := []
  pfbs : List Proto.IndexWrapper := []
  blobs : List Element := []
  txCounter : Counter := {}
  pfbCounter : Counter := {}
  done : Bool := false
  deriving Repr, Inhabited

namespace Builder

/-- `NewBuilder(maxSquareSize, threshold)` without txs: error unless a positive power of two. -/
def new (maxSquareSize thr : Nat) : Res Builder :=
  if maxSquareSize = 0 then .error .err
  else if !isPowerOfTwo maxSquareSize then .error .err
  else .ok { maxSquareSize, thr }

def canFit (b : Builder) (shareNum : Int) : Bool :=
  b.currentSize + shareNum ≤ (b.maxSquareSize * b.maxSquareSize : Nat)

def isEmpty (b : Builder) : Bool := b.txCounter.size == 0 && b.pfbCounter.size == 0

/-- `AppendTx`. -/
def appendTx (b : Builder) (tx : Bytes) : Builder × Bool :=
  let (c, lenChange) := b.txCounter.add tx.length
  let b := { b with txCounter := c }
  if b.canFit lenChange then
    ({ b with txs := b.txs ++ [tx], currentSize := b.currentSize + lenChange, done := false }, true)
  else ({ b with txCounter := b.txCounter.revert }, false)

/-- `AppendBlobTx`. -/
def appendBlobTx (b : Builder) (t : BlobTx) : Builder × Bool :=
  let iw := newIndexWrapper t.tx (worstCaseShareIndexes t.blobs.length)
  let (c, pfbShareDiff) := b.pfbCounter.add iw.size
  let b := { b with pfbCounter := c }
  let elems := t.blobs.mapIdx (fun idx blob => newElement blob b.pfbs.length idx b.thr)
  let maxBlobShareCount := (elems.map Element.maxShareOffset).sum
  if b.canFit (pfbShareDiff + maxBlobShareCount) then
    ({ b with blobs := b.blobs ++ elems, pfbs := b.pfbs ++ [iw],
              currentSize := b.currentSize + (pfbShareDiff + maxBlobShareCount), done := false }, true)
  else ({ b with pfbCounter := b.pfbCounter.revert }, false)

/-- Go `copy(dst[i:], src)`. -/
def copyAt {α} (dst : List α) (i : Nat) (src : List α) : Res (List α) :=
  if i > dst.length then .error .panic
  else
    let n := min src.length (dst.length - i)
    .ok (dst.take i ++ src.take n ++ dst.drop (i + n))

/-- `WriteSquare`. Unset entries of `make([]share.Share, total)` are the empty byte string. -/
def writeSquare (txW pfbW : CompactSplitter) (blobShares : List Bytes)
    (nonReservedStart squareSize : Nat) : Res (List Bytes) := do
  let totalShares := squareSize * squareSize
  let pfbStartIndex := txW.count
  let paddingStartIndex := pfbStartIndex + pfbW.count
  if nonReservedStart < paddingStartIndex then throw .err
  let padding ← (reservedPaddingShares (nonReservedStart - paddingStartIndex)).mapError (fun _ => Err.panic)
  let endOfLastBlob := nonReservedStart + blobShares.length
  if totalShares < endOfLastBlob then throw .err
  let (_, txShares) ← txW.exportShares
  let (_, pfbShares) ← pfbW.exportShares
  let sq : List Bytes := List.replicate totalShares []
  let sq ← copyAt sq 0 txShares
  let sq ← copyAt sq pfbStartIndex pfbShares
  let sq ← if blobShares.length > 0 then do
      let sq ← copyAt sq paddingStartIndex padding
      copyAt sq nonReservedStart blobShares
    else pure sq
  if totalShares > endOfLastBlob then do
    let tail ← (tailPaddingShares (totalShares - endOfLastBlob)).mapError (fun _ => Err.panic)
    copyAt sq endOfLastBlob tail
  else pure sq

def emptySquare : Res (List Bytes) := (tailPaddingShares 1).mapError (fun _ => Err.panic)

/-- namespace order used by `sort.SliceStable` in `Export` (`less = bytes.Compare < 0`). -/
def elemLe (a b : Element) : Bool := cmpBytes a.blob.ns b.blob.ns ≤ 0

structure BlobLoopState where
  cursor : Nat
  nonReservedStart : Nat
  endOfLastBlob : Nat
  pfbs : List Proto.IndexWrapper
  shares : List Bytes

/-- the blob loop of `Export`. -/
def blobLoop (thr : Nat) : List Element → Nat → BlobLoopState → Res BlobLoopState
  | [], _, st => .ok st
  | e :: rest, i, st => do
    let cursor := nextShareIndex st.cursor e.numShares thr
    let nonReservedStart := if i = 0 then cursor else st.nonReservedStart
    let padding := cursor - st.endOfLastBlob
    if padding > e.maxPadding then throw .err
    if e.pfbIndex ≥ st.pfbs.length then throw .panic
    let pfbs := st.pfbs.modify e.pfbIndex (fun iw => { iw with shareIndexes := iw.shareIndexes.set e.blobIndex (u32 cursor) })
    let shares ← if i > 0 then sparseWritePadding st.shares padding else pure st.shares
    let shares ← sparseWrite shares e.blob
    let cursor := cursor + e.numShares
    blobLoop thr rest (i + 1) { cursor, nonReservedStart, endOfLastBlob := cursor, pfbs, shares }

/-- the computation of `Export` as a function of exactly the builder fields it reads:
    `none` = the builder is empty (the 1x1 tail-padding square, no state change), otherwise the
    sorted blobs and the wrapped PFBs with their recorded indexes, and the square. -/
def exportCore (thr : Nat) (currentSize : Int) (txs : List Bytes) (pfbs : List Proto.IndexWrapper)
    (blobs : List Element) (txSize pfbSize : Nat) :
    Res (Option (List Element × List Proto.IndexWrapper) × List Bytes) :=
  if txSize == 0 && pfbSize == 0 then do
    let sq ← emptySquare
    .ok (none, sq)
  else do
    let ss := blobMinSquareSize currentSize.toNat
    let blobs := blobs.mergeSort elemLe
    let txW0 ← CompactSplitter.new txNamespace 0
    let txW ← txs.foldlM (fun w tx => w.writeTx tx) txW0
    let start := txSize + pfbSize
    let st ← blobLoop thr blobs 0
      { cursor := start, nonReservedStart := start, endOfLastBlob := start, pfbs := pfbs, shares := [] }
    let pfbW0 ← CompactSplitter.new payForBlobNamespace 0
    let pfbW ← st.pfbs.foldlM (fun w iw => w.writeTx iw.marshal) pfbW0
    if pfbSize < pfbW.count then throw .err
    let sq ← writeSquare txW pfbW st.shares st.nonReservedStart ss
    .ok (some (blobs, st.pfbs), sq)

/-- `Export`: the new builder state (sorted blobs, recorded indexes, done flag) and the square. -/
def exportSquare (b : Builder) : Res (Builder × List Bytes) := do
  let (upd, sq) ← exportCore b.thr b.currentSize b.txs b.pfbs b.blobs b.txCounter.size b.pfbCounter.size
  match upd with
  | none => .ok (b, sq)
  | some (blobs, pfbs) => .ok ({ b with blobs, pfbs, done := true }, sq)

/-- export only when not done (the `if !b.done { b.Export() }` idiom); keeps the state. -/
def ensureExported (b : Builder) : Res Builder :=
  if b.done then .ok b else do
    let (b, _) ← b.exportSquare
    .ok b

/-- `FindBlobStartingIndex(pfbIndex, blobIndex)` with Go ints. -/
def findBlobStartingIndex (b : Builder) (pfbIndex blobIndex : Int) : Res (Builder × Nat) :=
  if pfbIndex < b.txs.length then .error .err
  else
    let p := (pfbIndex - b.txs.length).toNat
    if p ≥ b.pfbs.length then .error .err
    else if blobIndex < 0 then .error .err
    else do
      let b ← b.ensureExported
      match b.pfbs[p]? with
      | none => .error .panic
      | some iw =>
        match iw.shareIndexes[blobIndex.toNat]? with
        | none => .error .err
        | some v => .ok (b, v)

/-- `BlobShareLength`. -/
def blobShareLength (b : Builder) (pfbIndex blobIndex : Int) : Res Nat :=
  if pfbIndex < b.txs.length then .error .err
  else
    let p := (pfbIndex - b.txs.length).toNat
    if p ≥ b.pfbs.length then .error .err
    else if blobIndex < 0 then .error .err
    else
      match b.blobs.find? (fun e => e.pfbIndex == p && e.blobIndex == blobIndex.toNat) with
      | none => .error .err
      | some e => .ok e.numShares

/-- `FindTxShareRange(txIndex)`. -/
def findTxShareRange (b : Builder) (txIndex : Int) : Res (Builder × Nat × Nat) := do
  let b ← b.ensureExported
  if txIndex < 0 then throw .err
  let ti := txIndex.toNat
  if ti ≥ b.txs.length + b.pfbs.length then throw .err
  let sizes : List Nat := b.txs.map List.length ++ b.pfbs.map (·.size)
  let step := fun (acc : Counter × Counter) (p : Nat × Nat) =>
    if p.1 < b.txs.length then ((acc.1.add p.2).1, acc.2) else (acc.1, (acc.2.add p.2).1)
  let indexed := (List.range sizes.length).zip sizes
  let (txC, pfbC) := (indexed.take ti).foldl step ({}, {})
  let start : Int := (txC.size + pfbC.size : Nat) - 1
  let sz := sizes.getD ti 0
  let (start, txC, pfbC) :=
    if ti < b.txs.length then
      ((if txC.remainder = 0 then start + 1 else start), (txC.add sz).1, pfbC)
    else
      ((if pfbC.remainder = 0 then start + 1 else start), txC, (pfbC.add sz).1)
  .ok (b, start.toNat, txC.size + pfbC.size)

/-- `GetWrappedPFB`. -/
def getWrappedPFB (b : Builder) (txIndex : Int) : Res (Builder × Proto.IndexWrapper) :=
  if txIndex < 0 then .error .err
  else if txIndex < b.txs.length then .error .err
  else if txIndex.toNat ≥ b.txs.length + b.pfbs.length then .error .err
  else do
    let b ← b.ensureExported
    match b.pfbs[txIndex.toNat - b.txs.length]? with
    | none => .error .panic
    | some iw => .ok (b, iw)

/-- the tx loop of `NewBuilder(max, thr, txs...)`. -/
def appendAll (dec : Bytes → Decoded) : List Bytes → Builder → Bool → Res Builder
  | [], b, _ => .ok b
  | t :: rest, b, seenBlob =>
    match dec t with
    | .badBlobTx => .error .err
    | .blobTx bt =>
      let (b, ok) := b.appendBlobTx bt
      if ok then appendAll dec rest b true else .error .err
    | .normal =>
      if seenBlob then .error .err
      else
        let (b, ok) := b.appendTx t
        if ok then appendAll dec rest b false else .error .err

def newWithTxs (dec : Bytes → Decoded) (maxSquareSize thr : Nat) (txs : List Bytes) : Res Builder := do
  let b ← Builder.new maxSquareSize thr
  appendAll dec txs b false

end Builder

/-! ### square.go -/

/-- the tx loop of `Build`: (builder, kept normal txs, kept blob txs). -/
def buildLoop (dec : Bytes → Decoded) : List Bytes → Builder → List Bytes → List Bytes →
    Res (Builder × List Bytes × List Bytes)
  | [], b, n, bl => .ok (b, n, bl)
  | t :: rest, b, n, bl =>
    match dec t with
    | .badBlobTx => .error .err
    | .blobTx bt =>
      let (b, ok) := b.appendBlobTx bt
      buildLoop dec rest b n (if ok then bl ++ [t] else bl)
    | .normal =>
      let (b, ok) := b.appendTx t
      buildLoop dec rest b (if ok then n ++ [t] else n) bl

/-- `square.Build`: the square and the kept transactions. -/
def build (dec : Bytes → Decoded) (txs : List Bytes) (maxSquareSize thr : Nat) :
    Res (List Bytes × List Bytes) := do
  let b ← Builder.new maxSquareSize thr
  let (b, n, bl) ← buildLoop dec txs b [] []
  let (_, sq) ← b.exportSquare
  .ok (sq, n ++ bl)

/-- `square.Construct`. -/
def construct (dec : Bytes → Decoded) (txs : List Bytes) (maxSquareSize thr : Nat) : Res (List Bytes) := do
  let b ← Builder.newWithTxs dec maxSquareSize thr txs
  let (_, sq) ← b.exportSquare
  .ok sq

/-- `square.TxShareRange`. -/
def txShareRange (dec : Bytes → Decoded) (txs : List Bytes) (txIndex : Int) (maxSquareSize thr : Nat) :
    Res (Nat × Nat) := do
  let b ← Builder.newWithTxs dec maxSquareSize thr txs
  let (_, s, e) ← b.findTxShareRange txIndex
  .ok (s, e)

/-- `square.BlobShareRange`. -/
def blobShareRange (dec : Bytes → Decoded) (txs : List Bytes) (txIndex blobIndex : Int)
    (maxSquareSize thr : Nat) : Res (Nat × Nat) := do
  let b ← Builder.newWithTxs dec maxSquareSize thr txs
  let (b, start) ← b.findBlobStartingIndex txIndex blobIndex
  let len ← b.blobShareLength txIndex blobIndex
  .ok (start, start + len)

/-- `Square.IsEmpty`: equal to the 1x1 tail-padding square. -/
def squareIsEmpty (s : List Bytes) : Bool :=
  match Builder.emptySquare with
  | .ok e => s == e
  | .error _ => false

/-- `Square.WrappedPFBs`. -/
def wrappedPFBs (s : List Bytes) : Res (List Bytes) := do
  let (st, en) := getShareRangeForNamespace s payForBlobNamespace
  if st = 0 ∧ en = 0 then .ok []
  else
    let sub ← slice s st en
    parseTxs sub

/-- the blob loop of `Deconstruct` for one wrapped PFB (bounds checks and signer-aware share
    count added by the `fix:` commits for F5 and F2). -/
def deconstructBlobs (s : List Bytes) : List Nat → List Nat → Res (List Blob)
  | [], _ => .ok []
  | shareIndex :: idxRest, sizes =>
    match sizes with
    | [] => .error .panic
    | size :: sizeRest => do
      if shareIndex ≥ s.length then throw .err
      let first := s.getD shareIndex []
      let en := shareIndex + sparseSharesNeededWithSigner size (Share.version first == 1)
      if en > s.length then throw .err
      let sub ← slice s shareIndex en
      let parsed ← parseBlobs sub
      match parsed with
      | [b] => do
        let rest ← deconstructBlobs s idxRest sizeRest
        .ok (b :: rest)
      | _ => .error .err

/-- the wrapped-PFB loop of `Deconstruct`. -/
def deconstructPfbs (s : List Bytes) (pfbDec : Bytes → Res (List Nat)) : List Bytes → Res (List Bytes)
  | [] => .ok []
  | w :: rest =>
    match unmarshalIndexWrapper w with
    | none => .error .err
    | some iw => do
      if iw.shareIndexes.length = 0 then throw .err
      let sizes ← pfbDec iw.tx
      if sizes.length ≠ iw.shareIndexes.length then throw .err
      let blobs ← deconstructBlobs s iw.shareIndexes sizes
      match marshalBlobTx iw.tx blobs with
      | none => .error .err
      | some bytes => do
        let more ← deconstructPfbs s pfbDec rest
        .ok (bytes :: more)

/-- `square.Deconstruct`. -/
def deconstruct (s : List Bytes) (pfbDec : Bytes → Res (List Nat)) : Res (List Bytes) :=
  if squareIsEmpty s then .ok []
  else do
    let (txS, txE) := getShareRangeForNamespace s txNamespace
    if txS ≠ 0 then throw .err
    let afterTx ← sliceFrom s txE
    let (wS, wE) := getShareRangeForNamespace afterTx payForBlobNamespace
    if wS = 0 ∧ wE = 0 then
      let sub ← slice s txS txE
      parseTxs sub
    else do
      if wS ≠ 0 then throw .err
      let txSub ← slice s txS txE
      let txs ← parseTxs txSub
      let wSub ← slice s (wS + txE) (wE + txE)
      let wpfbs ← parseTxs wSub
      let blobTxs ← deconstructPfbs s pfbDec wpfbs
      .ok (txs ++ blobTxs)

end GoSquare
