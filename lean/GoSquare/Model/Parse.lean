import GoSquare.Model.Split
/-! share/parse_compact_shares.go, parse_sparse_shares.go, parse.go, share_sequence.go,
    range.go, utils.go (parseDelimiter). These are the decoder entry points of C16: every
    data-dependent slice expression is a checked `slice`, so "never panics" is a statement
    about these definitions. -/
namespace GoSquare

/-- `parseDelimiter` (after the `fix:` for F7). Returns (input without delimiter, unit length). -/
def parseDelimiter (input : Bytes) : Res (Bytes × Nat) :=
  if input.length = 0 then .ok (input, 0)
  else
    let l := min 10 input.length
    let delimiter := input.take l ++ zeros (10 - l)
    match readUvarint delimiter with
    | none => .error .err
    | some (dataLen, consumed) =>
      if consumed > l then .ok ([], 0)      -- the delimiter is cut off by the end of the input
      else do
        let rest ← sliceFrom input (uvarintLen dataLen)
        .ok (rest, dataLen)

/-- `parseRawData`: split off units until a zero delimiter or an incomplete unit. -/
def parseRawData : Nat → Bytes → List Bytes → Res (List Bytes)
  | 0, _, _ => .error .panic                -- out of fuel: unreachable (each unit consumes ≥ 1 byte)
  | fuel + 1, raw, units => do
    let (actual, unitLen) ← parseDelimiter raw
    if unitLen = 0 then .ok units
    else if unitLen > actual.length then .ok units
    else parseRawData fuel (actual.drop unitLen) (units ++ [actual.take unitLen])

/-- `extractRawData` (after the `fix:` for F3): leading shares in which no unit starts are
    skipped; the first share with a unit start is entered through its reserved bytes.
    `found` is Go's `foundUnitStart`. -/
def extractRawData : List Bytes → Bool → Res Bytes
  | [], _ => .ok []
  | s :: rest, found =>
    if !found then do
      let raw ← Share.rawDataUsingReserved s
      let more ← extractRawData rest (!raw.isEmpty)
      .ok (raw ++ more)
    else do
      let more ← extractRawData rest true
      .ok (Share.rawData s ++ more)

/-- `parseCompactShares` / `ParseTxs`. -/
def parseCompactShares (shares : List Bytes) : Res (List Bytes) :=
  if shares.isEmpty then .ok []
  else if shares.any (fun s => Share.version s ≠ 0) then .error .err
  else do
    let raw ← extractRawData shares false
    parseRawData (raw.length + 1) raw []

def parseTxs := parseCompactShares

/-! ### sparse -/

structure SparseSeq where
  ns : Bytes
  ver : Nat
  data : Bytes
  seqLen : Nat
  signer : Option Bytes
  deriving Repr, Inhabited

/-- the share loop of `parseSparseShares`. -/
def parseSparseLoop : List Bytes → List SparseSeq → Res (List SparseSeq)
  | [], seqs => .ok seqs
  | s :: rest, seqs =>
    if !(Share.checkVersionSupported s) then .error .err
    else if Share.isPadding s then parseSparseLoop rest seqs
    else if Share.isSequenceStart s then
      parseSparseLoop rest (seqs ++ [{ ns := Share.ns s, ver := Share.version s, data := Share.rawData s,
                                       seqLen := Share.sequenceLen s, signer := Share.signer s }])
    else
      match seqs.getLast? with
      | none => .error .err
      | some prev =>
        parseSparseLoop rest (seqs.dropLast ++ [{ prev with data := prev.data ++ Share.rawData s }])

def seqToBlob (q : SparseSeq) : Res Blob :=
  if q.seqLen > q.data.length then .error .err      -- bounds check added by the `fix:` for F5
  else do
    let d ← slice q.data 0 q.seqLen
    match Blob.new q.ns d q.ver q.signer with
    | none => .error .err
    | some b => .ok b

/-- `parseSparseShares` / `ParseBlobs`. -/
def parseSparseShares (shares : List Bytes) : Res (List Blob) :=
  if shares.length = 0 then .ok []
  else do
    let seqs ← parseSparseLoop shares []
    seqs.mapM seqToBlob

def parseBlobs := parseSparseShares

/-! ### sequences -/

structure Sequence where
  ns : Bytes
  shares : List Bytes
  deriving Repr, Inhabited, DecidableEq

def Sequence.isPadding (q : Sequence) : Bool :=
  match q.shares with
  | [s] => Share.isPadding s
  | _ => false

/-- `numberOfSharesNeeded` (after the `fix:` for F2: signer-aware for version-1 first shares). -/
def numberOfSharesNeeded (first : Bytes) : Nat :=
  if Share.isCompactShare first then compactSharesNeeded (Share.sequenceLen first)
  else sparseSharesNeededWithSigner (Share.sequenceLen first) (Share.version first == 1)

def Sequence.validSequenceLen (q : Sequence) : Bool :=
  match q.shares with
  | [] => false
  | first :: _ => q.isPadding || q.shares.length == numberOfSharesNeeded first

/-- `Sequence.SequenceLen`. -/
def Sequence.sequenceLen (q : Sequence) : Res Nat :=
  match q.shares with
  | [] => .error .err
  | first :: _ => .ok (Share.sequenceLen first)

/-- `Sequence.RawData` (bounds check added by the `fix:` for F5). -/
def Sequence.rawData (q : Sequence) : Res Bytes := do
  let data := q.shares.foldl (fun acc s => acc ++ Share.rawData s) []
  let n ← q.sequenceLen
  if n > data.length then .error .err
  else slice data 0 n

/-- the first loop of `ParseShares`: (finished sequences, current sequence). -/
def parseSharesLoop : List Bytes → List Sequence → Sequence → Res (List Sequence × Sequence)
  | [], seqs, cur => .ok (seqs, cur)
  | s :: rest, seqs, cur =>
    if Share.isSequenceStart s then
      let seqs := if cur.shares.length > 0 then seqs ++ [cur] else seqs
      parseSharesLoop rest seqs { ns := Share.ns s, shares := [s] }
    else if cur.ns != Share.ns s then .error .err
    else parseSharesLoop rest seqs { cur with shares := cur.shares ++ [s] }

/-- `ParseShares(shares, ignorePadding)`. -/
def parseShares (shares : List Bytes) (ignorePadding : Bool) : Res (List Sequence) := do
  let (seqs, cur) ← parseSharesLoop shares [] { ns := [], shares := [] }
  let seqs := if cur.shares.length > 0 then seqs ++ [cur] else seqs
  if seqs.any (fun q => !q.validSequenceLen) then .error .err
  else .ok (seqs.filter (fun q => !(ignorePadding && q.isPadding)))

/-! ### range.go -/

/-- the scan loop of `GetShareRangeForNamespace`: `start = none` is Go's -1; `total = len(shares)`. -/
def rangeLoop (q : Bytes) (total : Nat) : List Bytes → Nat → Option Nat → Nat × Nat
  | [], _, none => (0, 0)
  | [], _, some st => (st, total)
  | s :: rest, i, start =>
    if Ns.isGreaterThan (Share.ns s) q && start.isSome then (start.getD 0, i)
    else
      let start := if Ns.equals q (Share.ns s) && start.isNone then some i else start
      rangeLoop q total rest (i + 1) start

/-- `GetShareRangeForNamespace`: (Start, End), `(0,0)` = EmptyRange. -/
def getShareRangeForNamespace (shares : List Bytes) (q : Bytes) : Nat × Nat :=
  match shares with
  | [] => (0, 0)
  | s0 :: _ =>
    if Ns.isLessThan q (Share.ns s0) then (0, 0)
    else if Ns.isGreaterThan q (Share.ns (shares.getLast?.getD s0)) then (0, 0)
    else rangeLoop q shares.length shares 0 none

end GoSquare
