import GoSquare.Model.Sha256
import GoSquare.Model.Arith
import GoSquare.Model.Split
/-! celestiaorg/nmt v0.22.2 as used by inclusion/commitment.go (modelled, not verified):
    `nmt.New(sha256.New(), NamespaceIDSize(29), IgnoreMaxNamespace(true))`, `Push`, `Root`.
    The tree recursion is generic in the leaf and node hash so that C05 can be proved for every
    hash function; `Nmt.root` instantiates it with SHA-256. -/
namespace GoSquare
namespace Nmt

/-- `getSplitPoint`: the largest power of two strictly below `n` (n ≥ 2). -/
def splitPoint (n : Nat) : Nat :=
  let k := 2 ^ Nat.log2 n
  if k = n then k / 2 else k

theorem splitPoint_lt {n : Nat} (h : 2 ≤ n) : 0 < splitPoint n ∧ splitPoint n < n := by
  unfold splitPoint
  have h0 : n ≠ 0 := by omega
  have hle : 2 ^ Nat.log2 n ≤ n := Nat.log2_self_le h0
  have hpos : 0 < 2 ^ Nat.log2 n := Nat.pow_pos (by omega)
  simp only
  split
  · rename_i heq
    rw [heq]; omega
  · rename_i hne
    omega

/-- `computeRoot` over a list of leaves, for arbitrary leaf / node / empty hashes. -/
def rootWith {α D : Type} (leafH : α → D) (nodeH : D → D → D) (emptyH : D) : List α → D
  | [] => emptyH
  | [x] => leafH x
  | x :: y :: rest =>
    let l := x :: y :: rest
    let k := splitPoint l.length
    nodeH (rootWith leafH nodeH emptyH (l.take k)) (rootWith leafH nodeH emptyH (l.drop k))
termination_by l => l.length
decreasing_by
  all_goals
    have h := @splitPoint_lt (x :: y :: rest).length (by simp)
    simp only [List.length_take, List.length_drop]
    omega

def maxNs : Bytes := List.replicate 29 255

/-- `HashLeaf`: ns ‖ ns ‖ sha256(0x00 ‖ leaf). -/
def hashLeaf (leaf : Bytes) : Bytes :=
  leaf.take 29 ++ leaf.take 29 ++ Sha.sha256 (0 :: leaf)

/-- `HashNode` with `IgnoreMaxNamespace(true)` (namespace-order validation is a precondition:
    go-square only pushes leaves of one namespace, or rows in namespace order). -/
def hashNode (l r : Bytes) : Bytes :=
  let lMin := l.take 29
  let lMax := (l.drop 29).take 29
  let rMin := r.take 29
  let rMax := (r.drop 29).take 29
  let mx := if rMin == maxNs then lMax else rMax
  lMin ++ mx ++ Sha.sha256 (1 :: (l ++ r))

def emptyRoot : Bytes := List.replicate 58 0 ++ Sha.sha256 []

def root (leaves : List Bytes) : Bytes := rootWith hashLeaf hashNode emptyRoot leaves

end Nmt

/-- the chunking of `GenerateSubtreeRoots`: consecutive chunks of the given sizes. -/
def chunks {α} : List α → List Nat → List (List α)
  | _, [] => []
  | l, n :: ns => l.take n :: chunks (l.drop n) ns

/-- `inclusion.GenerateSubtreeRoots` generic in the tree-root function. -/
def subtreeRootsWith {D} (rootOf : List Bytes → D) (blob : Blob) (thr : Nat) : Res (List D) := do
  let shares ← blob.toShares
  let w := subTreeWidth shares.length thr
  let sizes := mmrSizes shares.length w
  .ok ((chunks shares sizes).map (fun c => rootOf (c.map (fun s => blob.ns ++ s))))

def generateSubtreeRoots (blob : Blob) (thr : Nat) : Res (List Bytes) :=
  subtreeRootsWith Nmt.root blob thr

/-- `inclusion.CreateCommitment` for a caller-supplied Merkle-root function. -/
def createCommitment {D} (blob : Blob) (merkleRoot : List Bytes → D) (thr : Nat) : Res D := do
  let roots ← generateSubtreeRoots blob thr
  .ok (merkleRoot roots)

end GoSquare
