import GoSquare.Model.Namespace
import GoSquare.Model.Arith
/-! share/share.go, info_byte.go, reserved_bytes.go, share_builder.go, padding.go.
    A share is its 512-byte string. Accessors use Go's constant offsets; on a 512-byte share
    none of them can leave the buffer, which `Share.accessors_in_bounds` (Proofs) makes explicit. -/
namespace GoSquare

/-- `NewInfoByte(version, isSequenceStart)`; error iff version > 127. -/
def newInfoByte (version : Nat) (isStart : Bool) : Res UInt8 :=
  if version > 127 then .error .err
  else .ok (version * 2 + (if isStart then 1 else 0)).toUInt8

/-- `ParseInfoByte`: never fails for a byte (version = b>>1 ≤ 127). -/
def parseInfoByte (b : UInt8) : Res UInt8 := newInfoByte (b.toNat / 2) (b.toNat % 2 == 1)

/-- `NewReservedBytes(byteIndex)`. -/
def newReservedBytes (byteIndex : Nat) : Res Bytes :=
  if byteIndex ≥ 512 then .error .err else .ok (be32 byteIndex)

/-- `ParseReservedBytes`. -/
def parseReservedBytes (b : Bytes) : Res Nat :=
  if b.length ≠ 4 then .error .err
  else
    let i := readBe32 b
    if 512 ≤ i then .error .err else .ok i

namespace Share

def ns (s : Bytes) : Bytes := s.take 29
def infoByte (s : Bytes) : UInt8 := s.getD 29 0
def version (s : Bytes) : Nat := (infoByte s).toNat / 2
def isSequenceStart (s : Bytes) : Bool := (infoByte s).toNat % 2 == 1
def isCompactShare (s : Bytes) : Bool := Ns.isTx (ns s) || Ns.isPayForBlob (ns s)
def checkVersionSupported (s : Bytes) : Bool := version s == 0 || version s == 1

/-- `GetSigner`: `none` models Go's nil. -/
def signer (s : Bytes) : Option Bytes :=
  if version s ≠ 1 then none
  else if !isSequenceStart s then none
  else some ((s.drop 34).take 20)

def sequenceLen (s : Bytes) : Nat :=
  if !isSequenceStart s then 0 else readBe32 (s.drop 30)

def isNamespacePadding (s : Bytes) : Bool := isSequenceStart s && sequenceLen s == 0
def isPadding (s : Bytes) : Bool :=
  isNamespacePadding s || Ns.isTailPadding (ns s) || Ns.isPrimaryReservedPadding (ns s)

/-- `rawDataStartIndex` (after the `fix:` for F1: the signer offset applies to the first share only). -/
def rawDataStartIndex (s : Bytes) : Nat :=
  30 + (if isSequenceStart s then 4 else 0) + (if isCompactShare s then 4 else 0) +
    (if isSequenceStart s && version s == 1 then 20 else 0)

def rawData (s : Bytes) : Bytes := s.drop (rawDataStartIndex s)

/-- `rawDataStartIndexUsingReserved`. -/
def rawDataStartIndexUsingReserved (s : Bytes) : Res Nat :=
  let index := 30 + (if isSequenceStart s then 4 else 0) +
    (if isSequenceStart s && version s == 1 then 20 else 0)
  if isCompactShare s then do
    let rb ← slice s index (index + 4)
    parseReservedBytes rb
  else .ok index

/-- `RawDataUsingReserved`. -/
def rawDataUsingReserved (s : Bytes) : Res Bytes := do
  let i ← rawDataStartIndexUsingReserved s
  if i = 0 then .ok []
  else if s.length < i then .error .err
  else sliceFrom s i

end Share

/-! ### share_builder.go -/

structure ShareBuilder where
  ns : Bytes
  ver : Nat
  isFirst : Bool
  isCompact : Bool
  raw : Bytes
  deriving DecidableEq, Repr, Inhabited

def isCompactNs (ns : Bytes) : Bool := Ns.isTx ns || Ns.isPayForBlob ns

/-- `newBuilder` (`prepareCompactShare` / `prepareSparseShare`). -/
def ShareBuilder.new (ns : Bytes) (ver : Nat) (isFirst : Bool) : Res ShareBuilder := do
  let info ← newInfoByte ver isFirst
  let compact := isCompactNs ns
  let raw := ns ++ [info] ++ (if isFirst then zeros 4 else []) ++ (if compact then zeros 4 else [])
  .ok { ns, ver, isFirst, isCompact := compact, raw }

namespace ShareBuilder

def availableBytes (b : ShareBuilder) : Nat := 512 - b.raw.length

/-- `AddData`: returns the builder and the leftover (`none` = Go's nil: everything fitted). -/
def addData (b : ShareBuilder) (data : Bytes) : ShareBuilder × Option Bytes :=
  let left := 512 - b.raw.length
  if data.length ≤ left then ({ b with raw := b.raw ++ data }, none)
  else ({ b with raw := b.raw ++ data.take left }, some (data.drop left))

/-- `Build` = `NewShare(rawShareData)`. -/
def build (b : ShareBuilder) : Res Bytes :=
  if b.raw.length = 512 then .ok b.raw else .error .err

def isEmptyShare (b : ShareBuilder) : Bool :=
  b.raw.length == 30 + (if b.isCompact then 4 else 0) + (if b.isFirst then 4 else 0)

def zeroPadIfNecessary (b : ShareBuilder) : ShareBuilder × Nat :=
  if b.raw.length ≥ 512 then (b, 0)
  else ({ b with raw := b.raw ++ zeros (512 - b.raw.length) }, 512 - b.raw.length)

def indexOfReservedBytes (b : ShareBuilder) : Nat := if b.isFirst then 34 else 30

/-- overwrite `raw[i .. i+v.length)` by `v` (Go: a loop of indexed stores). -/
def overwrite (raw : Bytes) (i : Nat) (v : Bytes) : Res Bytes :=
  if i + v.length ≤ raw.length then .ok (raw.take i ++ v ++ raw.drop (i + v.length)) else .error .panic

/-- `MaybeWriteReservedBytes`. -/
def maybeWriteReservedBytes (b : ShareBuilder) : Res ShareBuilder :=
  if !b.isCompact then .error .err
  else do
    let i := b.indexOfReservedBytes
    let cur ← slice b.raw i (i + 4)
    let r ← parseReservedBytes cur
    if r ≠ 0 then .ok b
    else do
      let rb ← newReservedBytes b.raw.length
      let raw ← overwrite b.raw i rb
      .ok { b with raw }

/-- `WriteSequenceLen`. -/
def writeSequenceLen (b : ShareBuilder) (n : Nat) : Res ShareBuilder :=
  if !b.isFirst then .error .err
  else do
    let raw ← overwrite b.raw 30 (be32 n)
    .ok { b with raw }

/-- `WriteSigner`. -/
def writeSigner (b : ShareBuilder) (signer : Bytes) : ShareBuilder :=
  if !b.isFirst || b.ver ≠ 1 then b else { b with raw := b.raw ++ signer }

end ShareBuilder

/-! ### padding.go -/

/-- `NamespacePaddingShare(ns, shareVersion)`. -/
def namespacePaddingShare (ns : Bytes) (ver : Nat) : Res Bytes := do
  let b ← ShareBuilder.new ns ver true
  let b ← b.writeSequenceLen 0
  let (b, _) := b.addData (zeros 478)
  b.build

/-- `NamespacePaddingShares(ns, shareVersion, n)` for n ≥ 0. -/
def namespacePaddingShares (ns : Bytes) (ver : Nat) (n : Nat) : Res (List Bytes) := do
  if n = 0 then .ok []
  else
    let s ← namespacePaddingShare ns ver
    .ok (List.replicate n s)

def reservedPaddingShares (n : Nat) : Res (List Bytes) :=
  namespacePaddingShares primaryReservedPaddingNamespace 0 n
def tailPaddingShares (n : Nat) : Res (List Bytes) :=
  namespacePaddingShares tailPaddingNamespace 0 n

end GoSquare
