import GoSquare.Proofs.ExportKept
import GoSquare.Proofs.C06Core
/-! (C04) where every blob sits: the start index recorded for a blob is the index at which the
    blob's own share encoding appears verbatim in the square; that index is a multiple of the
    blob's subtree width; blob ranges are pairwise disjoint and ordered. -/
namespace GoSquare
open Builder Spec

/-! ### arithmetic: the aligned index never goes backwards (no side condition needed) -/

theorem roundUpPow2Aux_pos' : ∀ (fuel r input : Nat), 1 ≤ r → 1 ≤ roundUpPow2Aux fuel r input
  | 0, r, input, h => by simpa [roundUpPow2Aux] using h
  | fuel + 1, r, input, h => by
    rw [roundUpPow2Aux]
    by_cases hlt : r < input
    · simp only [hlt, if_true]
      exact roundUpPow2Aux_pos' fuel (r * 2) input (by omega)
    · simp only [hlt, if_false]; exact h

theorem roundUpPow2_pos' (n : Nat) : 1 ≤ roundUpPow2 n :=
  roundUpPow2Aux_pos' 64 1 n (Nat.le_refl 1)

/-- the subtree width is positive, whatever the arguments -/
theorem subTreeWidth_pos' (n thr : Nat) : 0 < subTreeWidth n thr := by
  unfold subTreeWidth blobMinSquareSize
  simp only []
  have h1 := roundUpPow2_pos' (if (n % thr != 0) = true then n / thr + 1 else n / thr)
  have h2 := roundUpPow2_pos' (ceilSqrtF64 (f64OfNat n))
  omega

theorem le_nextShareIndex (cur n thr : Nat) : cur ≤ nextShareIndex cur n thr := by
  obtain ⟨_, h, _⟩ := roundUpByMultipleOf_spec cur (subTreeWidth n thr) (subTreeWidth_pos' n thr)
  exact h

theorem nextShareIndex_aligned (cur n thr : Nat) :
    nextShareIndex cur n thr % subTreeWidth n thr = 0 := by
  obtain ⟨h, _, _⟩ := roundUpByMultipleOf_spec cur (subTreeWidth n thr) (subTreeWidth_pos' n thr)
  exact Nat.mod_eq_zero_of_dvd h

/-! ### the recorded indexes -/

theorem placeIdx_length (thr : Nat) : ∀ (es : List Element) (cur : Nat), (placeIdx thr cur es).length = es.length
  | [], _ => rfl
  | e :: es, cur => by
    simp only [placeIdx, List.length_cons, placeIdx_length thr es]

/-- start indexes never go backwards: every index is ≥ the cursor -/
theorem placeIdx_ge (thr : Nat) : ∀ (es : List Element) (cur : Nat) (k : Nat) (hk : k < es.length),
    cur ≤ (placeIdx thr cur es)[k]'(by rw [placeIdx_length]; exact hk)
  | [], _, _, hk => by simp at hk
  | e :: es, cur, 0, _ => by
    simp only [placeIdx, List.getElem_cons_zero]
    exact le_nextShareIndex cur e.numShares thr
  | e :: es, cur, k + 1, hk => by
    simp only [placeIdx, List.getElem_cons_succ]
    have := placeIdx_ge thr es (nextShareIndex cur e.numShares thr + e.numShares) k
      (by simpa using hk)
    have := le_nextShareIndex cur e.numShares thr
    omega

/-- consecutive blob ranges do not overlap: blob `k` ends at or before the start of blob `k+1` -/
theorem placeIdx_disjoint (thr : Nat) : ∀ (es : List Element) (cur : Nat) (k : Nat) (hk : k + 1 < es.length),
    (placeIdx thr cur es)[k]'(by rw [placeIdx_length]; omega) + (es[k]'(by omega)).numShares ≤
      (placeIdx thr cur es)[k+1]'(by rw [placeIdx_length]; exact hk)
  | [], _, _, hk => by simp at hk
  | e :: es, cur, 0, hk => by
    simp only [placeIdx, List.getElem_cons_zero, List.getElem_cons_succ]
    exact placeIdx_ge thr es _ 0 (by simpa using hk)
  | e :: es, cur, k + 1, hk => by
    simp only [placeIdx, List.getElem_cons_succ]
    exact placeIdx_disjoint thr es _ k (by simpa using hk)

/-- blob ranges are ordered and pairwise disjoint: for `j < k`, blob `j` ends at or before the
    start of blob `k` -/
theorem placeIdx_ordered (thr : Nat) (es : List Element) (cur : Nat) (j : Nat) :
    ∀ (k : Nat) (hjk : j < k) (hk : k < es.length),
    (placeIdx thr cur es)[j]'(by rw [placeIdx_length]; omega) + (es[j]'(by omega)).numShares ≤
      (placeIdx thr cur es)[k]'(by rw [placeIdx_length]; exact hk) := by
  intro k
  induction k with
  | zero => intro hjk; omega
  | succ k ih =>
    intro hjk hk
    by_cases hj : j = k
    · subst hj
      exact placeIdx_disjoint thr es cur j hk
    · have h1 := ih (by omega) (by omega)
      have h2 := placeIdx_disjoint thr es cur k hk
      omega

/-- alignment: every start index is a multiple of the blob's subtree width.
    (The hypotheses `ht`, `hn` of the original statement are not needed: the model's
    `subTreeWidth` is positive for all arguments.) -/
theorem placeIdx_aligned' (thr : Nat) : ∀ (es : List Element) (cur : Nat) (k : Nat) (hk : k < es.length),
    (placeIdx thr cur es)[k]'(by rw [placeIdx_length]; exact hk) % subTreeWidth (es[k]).numShares thr = 0
  | [], _, _, hk => by simp at hk
  | e :: es, cur, 0, _ => by
    simp only [placeIdx, List.getElem_cons_zero]
    exact nextShareIndex_aligned cur e.numShares thr
  | e :: es, cur, k + 1, hk => by
    simp only [placeIdx, List.getElem_cons_succ]
    exact placeIdx_aligned' thr es _ k (by simpa using hk)

theorem placeIdx_aligned (thr : Nat) (_ht : 1 ≤ thr) (es : List Element) (cur : Nat)
    (_hn : ∀ e ∈ es, 1 ≤ e.numShares ∧ e.numShares ≤ 2 ^ 52) (k : Nat) (hk : k < es.length) :
    (placeIdx thr cur es)[k]'(by rw [placeIdx_length]; exact hk) % subTreeWidth (es[k]).numShares thr = 0 :=
  placeIdx_aligned' thr es cur k hk

/-! ### the blob region -/

theorem endCursor_ge (thr : Nat) : ∀ (es : List Element) (cur : Nat), cur ≤ endCursor thr cur es
  | [], _ => Nat.le_refl _
  | e :: es, cur => by
    simp only [endCursor]
    have := endCursor_ge thr es (nextShareIndex cur e.numShares thr + e.numShares)
    have := le_nextShareIndex cur e.numShares thr
    omega

/-- with padding before the first blob, the region runs from the cursor to the end cursor -/
theorem region_length_some (thr : Nat) : ∀ (es : List Element) (cur : Nat) (p : Blob),
    (∀ e ∈ es, EOK e) → (region thr cur (some p) es).length = endCursor thr cur es - cur
  | [], cur, p, _ => by simp [region, endCursor]
  | e :: es, cur, p, hok => by
    have hns := (hok e (by simp)).2
    have ih := region_length_some thr es (nextShareIndex cur e.numShares thr + e.numShares) e.blob
      (fun x hx => hok x (by simp [hx]))
    have h1 := le_nextShareIndex cur e.numShares thr
    have h2 := endCursor_ge thr es (nextShareIndex cur e.numShares thr + e.numShares)
    simp only [region, endCursor, List.length_append, List.length_replicate, ih, ← hns]
    omega

theorem region_length (thr : Nat) : ∀ (es : List Element) (cur : Nat) (prev : Option Blob),
    (∀ e ∈ es, EOK e) → es ≠ [] →
    (region thr cur prev es).length =
      endCursor thr cur es - (match prev with | some _ => cur | none => firstIdx thr cur es)
  | [], _, _, _, hne => absurd rfl hne
  | es, cur, some p, hok, _ => region_length_some thr es cur p hok
  | e :: es, cur, none, hok, _ => by
    have hns := (hok e (by simp)).2
    have ih := region_length_some thr es (nextShareIndex cur e.numShares thr + e.numShares) e.blob
      (fun x hx => hok x (by simp [hx]))
    have h2 := endCursor_ge thr es (nextShareIndex cur e.numShares thr + e.numShares)
    simp only [region, endCursor, firstIdx, List.length_append, List.nil_append, ih, ← hns]
    omega

/-- the region's first share sits at `base`, and no recorded index lies before it -/
theorem region_blob_at (thr : Nat) : ∀ (es : List Element) (cur : Nat) (prev : Option Blob),
    (∀ e ∈ es, EOK e) → ∀ (k : Nat) (hk : k < es.length),
    let base := match prev with | some _ => cur | none => firstIdx thr cur es
    let idx := (placeIdx thr cur es)[k]'(by rw [placeIdx_length]; exact hk)
    base ≤ idx ∧
    ((region thr cur prev es).drop (idx - base)).take (es[k]).numShares = sparseSeq (es[k]).blob
  | [], _, _, _, _, hk => by simp at hk
  | e :: es, cur, prev, hok, 0, _ => by
    have hns := (hok e (by simp)).2
    have h1 := le_nextShareIndex cur e.numShares thr
    simp only [placeIdx, List.getElem_cons_zero, region, firstIdx]
    cases prev with
    | none =>
      simp only [Nat.le_refl, Nat.sub_self, List.drop_zero, List.nil_append, true_and]
      rw [hns, List.take_left]
    | some p =>
      refine ⟨h1, ?_⟩
      simp only []
      have hl : nextShareIndex cur e.numShares thr - cur =
          (List.replicate (nextShareIndex cur e.numShares thr - cur) (paddingShare p.ns p.ver)).length := by
        simp
      rw [List.append_assoc]
      conv => lhs; arg 2; arg 1; rw [hl]
      rw [List.drop_left, hns, List.take_left]
  | e :: es, cur, prev, hok, k + 1, hk => by
    have hns := (hok e (by simp)).2
    have h1 := le_nextShareIndex cur e.numShares thr
    have hk' : k < es.length := by simpa using hk
    obtain ⟨ih1, ih2⟩ := region_blob_at thr es (nextShareIndex cur e.numShares thr + e.numShares) (some e.blob)
      (fun x hx => hok x (by simp [hx])) k hk'
    simp only at ih1 ih2
    simp only [placeIdx, List.getElem_cons_succ, region, firstIdx]
    generalize hidx : (placeIdx thr (nextShareIndex cur e.numShares thr + e.numShares) es)[k]'(by
      rw [placeIdx_length]; exact hk') = idx at ih1 ih2 ⊢
    cases prev with
    | none =>
      simp only [List.nil_append]
      refine ⟨by omega, ?_⟩
      have hd : idx - nextShareIndex cur e.numShares thr =
          (sparseSeq e.blob).length + (idx - (nextShareIndex cur e.numShares thr + e.numShares)) := by
        omega
      rw [hd, List.drop_length_add_append]
      exact ih2
    | some p =>
      simp only []
      refine ⟨by omega, ?_⟩
      have hd : idx - cur =
          (List.replicate (nextShareIndex cur e.numShares thr - cur) (paddingShare p.ns p.ver) ++
            sparseSeq e.blob).length + (idx - (nextShareIndex cur e.numShares thr + e.numShares)) := by
        simp only [List.length_append, List.length_replicate]
        omega
      rw [hd, List.drop_length_add_append]
      exact ih2

/-! ### the square -/

theorem eok_sortedElems (thr : Nat) (B : List BlobTx) (hv : ∀ t ∈ B, ∀ bl ∈ t.blobs, bl.BlobValid) :
    ∀ e ∈ sortedElems thr B, EOK e := by
  intro e he
  unfold sortedElems at he
  rw [List.mem_mergeSort] at he
  obtain ⟨t, ht, bl, hbl, p, j, rfl⟩ := mem_allElements thr B e he
  exact eok_newElement bl (hv t ht bl hbl) p j thr

/-- a window that lies inside `A` is not affected by what follows `A` -/
theorem take_drop_append_of_full {α : Type} (A T : List α) (d n : Nat)
    (h : ((A.drop d).take n).length = n) :
    ((A ++ T).drop d).take n = (A.drop d).take n := by
  rw [List.length_take, List.length_drop] at h
  rw [List.drop_append, List.take_append_of_le_length (by rw [List.length_drop]; omega)]

/-- (C04) in the square, blob `k` (in write order) sits verbatim at its start index -/
theorem squareOf_blob_at (thr : Nat) (N : List Bytes) (B : List BlobTx) (ss : Nat)
    (hv : ∀ t ∈ B, ∀ bl ∈ t.blobs, bl.BlobValid)
    (h1 : (compactSeq txNamespace N).length +
        (compactSeq payForBlobNamespace ((patched thr N B).map (·.marshal))).length ≤
        firstIdx thr (startOf N B) (sortedElems thr B))
    (k : Nat) (hk : k < (sortedElems thr B).length) :
    ((squareOf thr N B ss).drop ((placeIdx thr (startOf N B) (sortedElems thr B))[k]'(by rw [placeIdx_length]; exact hk))).take
        ((sortedElems thr B)[k]).numShares = sparseSeq ((sortedElems thr B)[k]).blob := by
  have hok := eok_sortedElems thr B hv
  obtain ⟨hb, hat⟩ := region_blob_at thr (sortedElems thr B) (startOf N B) none hok k hk
  simp only at hb hat
  have hns := (hok _ (List.getElem_mem hk)).2
  generalize hidx : (placeIdx thr (startOf N B) (sortedElems thr B))[k]'(by
    rw [placeIdx_length]; exact hk) = idx at hb hat ⊢
  unfold squareOf
  simp only []
  generalize hP : compactSeq txNamespace N ++
      compactSeq payForBlobNamespace ((patched thr N B).map (·.marshal)) ++
      List.replicate (firstIdx thr (startOf N B) (sortedElems thr B) -
        ((compactSeq txNamespace N).length +
          (compactSeq payForBlobNamespace ((patched thr N B).map (·.marshal))).length))
        (paddingShare primaryReservedPaddingNamespace 0) = P
  have hPl : P.length = firstIdx thr (startOf N B) (sortedElems thr B) := by
    rw [← hP]
    simp only [List.length_append, List.length_replicate]
    omega
  have hd : idx = P.length + (idx - firstIdx thr (startOf N B) (sortedElems thr B)) := by omega
  rw [List.append_assoc P, hd, List.drop_length_add_append]
  rw [take_drop_append_of_full _ _ _ _ (by rw [hat, hns])]
  exact hat

end GoSquare
