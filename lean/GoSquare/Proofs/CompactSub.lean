import GoSquare.Proofs.CompactParse
/-! The compact reader on a contiguous sub-range of the specified sequence (C11): delimiters cut by
    the end of the range, the truncated unit-peeling loop, payload windows. -/
namespace GoSquare
open Spec

/-- a complete delimiter followed by anything -/
theorem parseDelimiter_varint (n : Nat) (tail : Bytes) (hlt : n < 2 ^ 63) :
    parseDelimiter (uvarint n ++ tail) = .ok (tail, n) := by
  have hlen9 := uvarintLen_le_nine n hlt
  have hlpos := uvarintLen_pos n
  generalize hin : uvarint n ++ tail = input
  have hinlen : uvarintLen n ≤ input.length := by rw [← hin]; simp [uvarint_length]
  unfold parseDelimiter
  have h0 : ¬ input.length = 0 := by omega
  simp only [h0, if_false]
  have hlmin : uvarintLen n ≤ min 10 input.length := by
    rw [Nat.le_min]; constructor <;> omega
  have htake : input.take (min 10 input.length) =
      uvarint n ++ tail.take (min 10 input.length - uvarintLen n) := by
    generalize min 10 input.length = l at hlmin ⊢
    rw [← hin, List.take_append, uvarint_length, List.take_of_length_le (by rw [uvarint_length]; exact hlmin)]
  have hd : input.take (min 10 input.length) ++ zeros (10 - min 10 input.length) =
      uvarint n ++ (tail.take (min 10 input.length - uvarintLen n) ++ zeros (10 - min 10 input.length)) := by
    rw [htake, List.append_assoc]
  rw [hd, readUvarint_uvarint n hlt]
  simp only
  have hc : ¬ (uvarintLen n > min 10 input.length) := by omega
  rw [if_neg hc]
  simp only [sliceFrom]
  rw [if_pos (by omega), res_bind_ok, ← hin, ← uvarint_length, List.drop_left]

/-- the reader on a delimiter cut after `L` of its bytes, continued by a zero byte: it consumes
    `L + 1` bytes — one more than the input holds -/
theorem readUvarintAux_cut : ∀ (L n : Nat) (rest : Bytes) (i shift acc : Nat),
    L < uvarintLen n → i + L ≤ 9 →
    ∃ v, readUvarintAux ((uvarint n).take L ++ 0 :: rest) i shift acc = some (v, i + L + 1)
  | 0, n, rest, i, shift, acc, _, hi => by
    refine ⟨acc, ?_⟩
    simp only [List.take_zero, List.nil_append, readUvarintAux]
    have h1 : ¬ i ≥ 10 := by omega
    have h2 : (0 : UInt8) < 128 := by decide
    have h3 : ¬ (i = 9 ∧ (0 : UInt8) > 1) := by intro h; exact absurd h.2 (by decide)
    simp [h1, h2, h3]
  | L + 1, n, rest, i, shift, acc, hL, hi => by
    rw [uvarintLen] at hL
    rw [uvarint]
    by_cases h : n < 128
    · rw [if_pos h] at hL; omega
    · rw [if_neg h] at hL
      simp only [h, if_false, List.take_succ_cons, List.cons_append, readUvarintAux]
      have h1 : ¬ i ≥ 10 := by omega
      have h2 : ¬ ((n % 128 + 128).toUInt8 < 128) := by rw [UInt8.lt_iff_toNat_lt]; simp; omega
      simp only [h1, h2, if_false]
      obtain ⟨v, hv⟩ := readUvarintAux_cut L (n / 128) rest (i + 1) (shift + 7)
        (acc + ((n % 128 + 128).toUInt8.toNat - 128) * 2 ^ shift) (by omega) (by omega)
      refine ⟨v, ?_⟩
      rw [hv]
      have : i + 1 + L + 1 = i + (L + 1) + 1 := by omega
      rw [this]

/-- **a delimiter cut off by the end of the input yields no unit** (the F7 repair) -/
theorem parseDelimiter_cut (n L : Nat) (hlt : n < 2 ^ 63) (hL : L < uvarintLen n) :
    parseDelimiter ((uvarint n).take L) = .ok ([], 0) ∨ ((uvarint n).take L = [] ∧ parseDelimiter [] = .ok ([], 0)) := by
  have hlen9 := uvarintLen_le_nine n hlt
  by_cases hL0 : L = 0
  · right; subst hL0; simp [parseDelimiter]
  · left
    have hlen : ((uvarint n).take L).length = L := by
      rw [List.length_take, uvarint_length]; omega
    obtain ⟨v, hv⟩ := readUvarintAux_cut L n (zeros (10 - L - 1)) 0 0 0 hL (by omega)
    generalize (uvarint n).take L = input at hlen hv
    have hz : zeros (10 - L) = 0 :: zeros (10 - L - 1) := by
      have : 10 - L = (10 - L - 1) + 1 := by omega
      rw [this, zeros, List.replicate_succ]; simp [zeros]
    unfold parseDelimiter
    rw [if_neg (by omega)]
    simp only [hlen]
    have hm : min 10 L = L := by omega
    rw [hm, List.take_of_length_le (by omega), hz]
    unfold readUvarint
    rw [hv]
    simp only
    rw [if_pos (by omega)]

/-- the units that fit completely into the first `L` bytes of their stream -/
def prefixFit : Nat → List Bytes → List Bytes
  | _, [] => []
  | L, u :: us =>
    if uvarintLen u.length + u.length ≤ L then u :: prefixFit (L - (uvarintLen u.length + u.length)) us else []

/-- **the unit-peeling loop on a truncated stream**: exactly the complete units come out -/
theorem parseRawData_truncated : ∀ (us : List Bytes) (z L fuel : Nat) (acc : List Bytes),
    (∀ u ∈ us, u ≠ [] ∧ u.length < 2 ^ 63) → ((unitStream us ++ zeros z).take L).length + 1 ≤ fuel →
    parseRawData fuel ((unitStream us ++ zeros z).take L) acc = .ok (acc ++ prefixFit L us)
  | [], z, L, fuel, acc, _, hf => by
    cases fuel with
    | zero => omega
    | succ n =>
      rw [parseRawData]
      simp only [unitStream, List.map_nil, List.flatten_nil, List.nil_append, prefixFit, List.append_nil]
      have : (zeros z).take L = zeros (min L z) := by simp [zeros, List.take_replicate]
      rw [this]
      rcases parseDelimiter_zeros (min L z) with h | h <;> simp [h, res_bind_ok, bind, Except.bind]
  | u :: us, z, L, fuel, acc, h, hf => by
    cases fuel with
    | zero => omega
    | succ n =>
      obtain ⟨hu, hlt⟩ := h u (by simp)
      have hupos : 0 < u.length := List.length_pos_iff.mpr hu
      have hlpos := uvarintLen_pos u.length
      have hst : unitStream (u :: us) ++ zeros z = uvarint u.length ++ (u ++ (unitStream us ++ zeros z)) := by
        simp [unitStream, List.append_assoc]
      rw [parseRawData, hst, prefixFit]
      by_cases hfit : uvarintLen u.length + u.length ≤ L
      · -- the whole unit is inside
        rw [if_pos hfit]
        have htk : (uvarint u.length ++ (u ++ (unitStream us ++ zeros z))).take L =
            uvarint u.length ++ (u ++ (unitStream us ++ zeros z).take (L - (uvarintLen u.length + u.length))) := by
          rw [List.take_append, uvarint_length, List.take_of_length_le (by rw [uvarint_length]; omega),
            List.take_append, List.take_of_length_le (by omega), Nat.sub_sub]
        rw [htk, parseDelimiter_varint _ _ hlt, res_bind_ok]
        simp only
        have h1 : ¬ u.length = 0 := by omega
        have h2 : ¬ u.length > (u ++ (unitStream us ++ zeros z).take (L - (uvarintLen u.length + u.length))).length := by simp
        rw [if_neg h1, if_neg h2, List.drop_left, List.take_left]
        have hfuel : ((unitStream us ++ zeros z).take (L - (uvarintLen u.length + u.length))).length + 1 ≤ n := by
          rw [hst, htk] at hf
          simp only [List.length_append, uvarint_length] at hf
          omega
        rw [parseRawData_truncated us z (L - (uvarintLen u.length + u.length)) n (acc ++ [u])
          (fun x hx => h x (by simp [hx])) hfuel]
        simp [List.append_assoc]
      · rw [if_neg hfit, List.append_nil]
        by_cases hdl : uvarintLen u.length ≤ L
        · -- the delimiter is complete, the body is cut
          have htk : (uvarint u.length ++ (u ++ (unitStream us ++ zeros z))).take L =
              uvarint u.length ++ u.take (L - uvarintLen u.length) := by
            rw [List.take_append, uvarint_length, List.take_of_length_le (by rw [uvarint_length]; omega),
              List.take_append, (by omega : L - uvarintLen u.length - u.length = 0), List.take_zero,
              List.append_nil]
          rw [htk, parseDelimiter_varint _ _ hlt, res_bind_ok]
          simp only
          have h1 : ¬ u.length = 0 := by omega
          have h2 : u.length > (u.take (L - uvarintLen u.length)).length := by
            rw [List.length_take]; omega
          rw [if_neg h1, if_pos h2]
        · -- the delimiter itself is cut
          have htk : (uvarint u.length ++ (u ++ (unitStream us ++ zeros z))).take L = (uvarint u.length).take L := by
            rw [List.take_append, uvarint_length, (by omega : L - uvarintLen u.length = 0), List.take_zero,
              List.append_nil]
          rw [htk]
          rcases parseDelimiter_cut u.length L hlt (by omega) with hc | ⟨he, hc⟩
          · rw [hc, res_bind_ok]; simp
          · rw [he, hc, res_bind_ok]; simp


/-! ### payload windows of the zero-padded stream -/

/-- the unit stream padded with zeros up to the end of the last share -/
def padded (D : Bytes) (n : Nat) : Bytes := D ++ zeros (compactOff n - D.length)

theorem padded_length (D : Bytes) (n : Nat) (h : D.length ≤ compactOff n) : (padded D n).length = compactOff n := by
  simp [padded]; omega

theorem payload_window (D : Bytes) (n j : Nat) (hj : j < n) (hb1 : compactOff (n - 1) < D.length)
    (hb2 : D.length ≤ compactOff n) :
    compactPayload D j = ((padded D n).drop (compactOff j)).take (compactCap j) := by
  have hjo : compactOff j ≤ compactOff (n - 1) := compactOff_mono (by omega)
  have hsucc := compactOff_succ j
  unfold padded compactPayload
  rw [List.drop_append_of_le_length (by omega), List.take_append]
  congr 1
  simp only [zeros, List.take_replicate, List.length_take, List.length_drop]
  congr 1
  by_cases hfull : compactCap j ≤ D.length - compactOff j
  · omega
  · have hjn : j = n - 1 := by
      rcases Nat.lt_or_ge j (n - 1) with hl | hg
      · have := compactOff_mono (show j + 1 ≤ n - 1 by omega); omega
      · omega
    have : compactOff n = compactOff j + compactCap j := by
      have : n = j + 1 := by omega
      rw [this]; exact hsucc
    omega

theorem window_concat (D : Bytes) (n : Nat) (hb1 : compactOff (n - 1) < D.length) (hb2 : D.length ≤ compactOff n) :
    ∀ (m j : Nat), j + m ≤ n →
    ((List.range' j m).map (compactPayload D)).flatten =
      ((padded D n).drop (compactOff j)).take (compactOff (j + m) - compactOff j)
  | 0, j, _ => by simp
  | m + 1, j, h => by
    rw [List.range'_succ, List.map_cons, List.flatten_cons, window_concat D n hb1 hb2 m (j + 1) (by omega),
      payload_window D n j (by omega) hb1 hb2]
    have hsucc := compactOff_succ j
    have hmono := compactOff_mono (show j + 1 ≤ j + 1 + m by omega)
    have e1 : (padded D n).drop (compactOff (j + 1)) = ((padded D n).drop (compactOff j)).drop (compactCap j) := by
      rw [List.drop_drop, hsucc]
    have e2 : compactOff (j + (m + 1)) - compactOff j = compactCap j + (compactOff (j + 1 + m) - compactOff (j + 1)) := by
      have : j + (m + 1) = j + 1 + m := by omega
      rw [this]; omega
    rw [e1, e2, List.take_add]

theorem unitStarts_sorted : ∀ (us : List Bytes) (pos : Nat),
    (unitStarts pos us).Pairwise (· < ·) ∧ ∀ s ∈ unitStarts pos us, pos ≤ s
  | [], _ => by simp [unitStarts]
  | u :: us, pos => by
    obtain ⟨h1, h2⟩ := unitStarts_sorted us (pos + uvarintLen u.length + u.length)
    have := uvarintLen_pos u.length
    simp only [unitStarts, List.pairwise_cons, List.mem_cons]
    refine ⟨⟨fun s hs => ?_, h1⟩, fun s hs => ?_⟩
    · have := h2 s hs; omega
    · rcases hs with rfl | hs
      · exact Nat.le_refl _
      · have := h2 s hs; omega

/-- in a sorted list the first element inside the window `[A, B)` is the first element `≥ A` -/
theorem find_window_eq_find_ge : ∀ (S : List Nat) (A B s : Nat), S.Pairwise (· < ·) →
    S.find? (fun x => decide (A ≤ x ∧ x < B)) = some s → S.find? (fun x => decide (A ≤ x)) = some s
  | [], _, _, _, _, h => by cases h
  | x :: xs, A, B, s, hp, h => by
    rw [List.pairwise_cons] at hp
    rw [List.find?_cons] at h ⊢
    by_cases hx : A ≤ x ∧ x < B
    · simp only [hx, and_self, decide_true] at h
      simp only [hx.1, decide_true]
      exact h
    · simp only [hx, decide_false] at h
      have hs := List.find?_some h
      have hmem := List.mem_of_find?_eq_some h
      simp only [decide_eq_true_eq] at hs
      have hlt := hp.1 s hmem
      have hxA : ¬ A ≤ x := by
        intro hax
        have : ¬ x < B := fun hb => hx ⟨hax, hb⟩
        omega
      simp only [hxA, decide_false]
      exact find_window_eq_find_ge xs A B s hp.2 h

theorem find_ge_congr (S : List Nat) (A B : Nat) (h : ∀ s ∈ S, ¬ (A ≤ s ∧ s < B)) (hAB : A ≤ B) :
    S.find? (fun x => decide (A ≤ x)) = S.find? (fun x => decide (B ≤ x)) := by
  induction S with
  | nil => rfl
  | cons x xs ih =>
    rw [List.find?_cons, List.find?_cons]
    have hx := h x (by simp)
    have : decide (A ≤ x) = decide (B ≤ x) := by
      apply decide_eq_decide.mpr
      constructor
      · intro ha; rcases Nat.lt_or_ge x B with hb | hb
        · exact absurd ⟨ha, hb⟩ hx
        · exact hb
      · intro hb; omega
    rw [this, ih (fun s hs => h s (by simp [hs]))]


theorem extract_found' : ∀ (l : List Bytes), extractRawData l true = .ok (l.map Share.rawData).flatten
  | [] => rfl
  | s :: l => by
    rw [extractRawData]
    simp only [Bool.not_true, Bool.false_eq_true, if_false, extract_found' l, res_bind_ok, List.map_cons, List.flatten_cons]

/-- what the reader's accessors return on specified share `j` -/
theorem spec_share_accessors (ns : Bytes) (hc : CompactNs ns) (D : Bytes) (S : List Nat) (j : Nat) :
    Share.version (specShare ns D S j) = 0 ∧ Share.rawData (specShare ns D S j) = compactPayload D j ∧
    Share.rawDataUsingReserved (specShare ns D S j) =
      .ok (if resOf S j = 0 then [] else (compactPayload D j).drop (resOf S j - compactHdr j)) := by
  have hres : resOf S j ≠ 0 → compactHdr j ≤ resOf S j := by
    intro h; unfold resOf at h ⊢
    generalize S.find? (fun s => decide (compactOff j ≤ s ∧ s < compactOff j + compactCap j)) = o at h ⊢
    cases o with
    | none => exact absurd rfl h
    | some s => simp
  by_cases hj : j = 0
  · subst hj
    obtain ⟨a, b, c, _⟩ := first_compact_accessors ns (be32 D.length) (compactPayload D 0) (resOf S 0) hc (by simp)
      (by rw [compactPayload_length]; rfl) (resOf_lt S 0) _ (specShare_form0 ns D S hc.len)
    refine ⟨a, b, ?_⟩
    rw [c]
    by_cases hz : resOf S 0 = 0
    · simp [hz]
    · simp only [hz, if_false]
      congr 1
      have hh := hres hz
      have hform : specShare ns D S 0 = (ns ++ [infoByte 0 true] ++ be32 D.length ++ be32 (resOf S 0)) ++ compactPayload D 0 := by
        rw [specShare_form0 ns D S hc.len]; simp only [List.append_assoc, List.cons_append, List.nil_append]
      have hl : (ns ++ [infoByte 0 true] ++ be32 D.length ++ be32 (resOf S 0)).length = compactHdr 0 := by
        simp [hc.len, compactHdr]
      rw [hform]
      generalize ns ++ [infoByte 0 true] ++ be32 D.length ++ be32 (resOf S 0) = hd at hl
      have : (hd ++ compactPayload D 0).drop (resOf S 0) =
          ((hd ++ compactPayload D 0).drop (compactHdr 0)).drop (resOf S 0 - compactHdr 0) := by
        rw [List.drop_drop]; congr 1; omega
      rw [this, List.drop_left' hl]
  · obtain ⟨a, b, c⟩ := cont_compact_accessors ns (compactPayload D j) (resOf S j) hc
      (by rw [compactPayload_length]; simp [compactCap, hj]) (resOf_lt S j) _ (specShare_formJ ns D S j hj hc.len)
    refine ⟨a, b, ?_⟩
    rw [c]
    by_cases hz : resOf S j = 0
    · simp [hz]
    · simp only [hz, if_false]
      congr 1
      have hh := hres hz
      have hform : specShare ns D S j = (ns ++ [infoByte 0 false] ++ be32 (resOf S j)) ++ compactPayload D j := by
        rw [specShare_formJ ns D S j hj hc.len]; simp only [List.append_assoc, List.cons_append, List.nil_append]
      have hl : (ns ++ [infoByte 0 false] ++ be32 (resOf S j)).length = compactHdr j := by
        simp [hc.len, compactHdr, hj]
      rw [hform]
      generalize ns ++ [infoByte 0 false] ++ be32 (resOf S j) = hd at hl
      have : (hd ++ compactPayload D j).drop (resOf S j) =
          ((hd ++ compactPayload D j).drop (compactHdr j)).drop (resOf S j - compactHdr j) := by
        rw [List.drop_drop]; congr 1; omega
      rw [this, List.drop_left' hl]

/-- **what the reader collects from shares `[j, j+m)` of the specified sequence**: nothing up to
    the first unit start at or after the beginning of share `j`, then every payload byte to the
    end of share `j+m-1`. -/
theorem extract_sub (ns : Bytes) (hc : CompactNs ns) (D : Bytes) (S : List Nat) (hS : S.Pairwise (· < ·)) (n : Nat)
    (hb1 : compactOff (n - 1) < D.length) (hb2 : D.length ≤ compactOff n) :
    ∀ (m j : Nat), j + m ≤ n →
    extractRawData ((List.range' j m).map (specShare ns D S)) false =
      .ok (match S.find? (fun s => decide (compactOff j ≤ s)) with
        | some s => ((padded D n).drop s).take (compactOff (j + m) - s)
        | none => [])
  | 0, j, _ => by
    simp only [List.range'_zero, List.map_nil, extractRawData, Nat.add_zero]
    cases hf : S.find? (fun s => decide (compactOff j ≤ s)) with
    | none => rfl
    | some s =>
      have := List.find?_some hf
      simp only [decide_eq_true_eq] at this
      simp only [(by omega : compactOff j - s = 0), List.take_zero]
  | m + 1, j, h => by
    obtain ⟨_, hraw, hres⟩ := spec_share_accessors ns hc D S j
    rw [List.range'_succ, List.map_cons, extractRawData]
    simp only [Bool.not_false, if_true, hres, res_bind_ok]
    have hsucc := compactOff_succ j
    by_cases hz : resOf S j = 0
    · -- no unit starts in this share: it is skipped
      simp only [hz, if_true, List.isEmpty_nil, Bool.not_true]
      rw [extract_sub ns hc D S hS n hb1 hb2 m (j + 1) (by omega), res_bind_ok]
      have hno := (resOf_eq_zero_iff S j).mp hz
      rw [find_ge_congr S (compactOff j) (compactOff (j + 1)) (by rw [hsucc]; exact hno) (by omega)]
      have : j + 1 + m = j + (m + 1) := by omega
      simp only [this, List.nil_append]
    · -- the first unit start: enter through the reserved bytes
      simp only [hz, if_false]
      unfold resOf at hz
      cases hw : S.find? (fun s => decide (compactOff j ≤ s ∧ s < compactOff j + compactCap j)) with
      | none => rw [hw] at hz; exact absurd rfl hz
      | some s =>
        have hge := find_window_eq_find_ge S _ _ s hS hw
        have hin := List.find?_some hw
        simp only [decide_eq_true_eq] at hin
        have hr : resOf S j - compactHdr j = s - compactOff j := by
          unfold resOf; rw [hw]; simp
        rw [hge, hr, payload_window D n j (by omega) hb1 hb2, List.drop_take, List.drop_drop]
        have hso : compactOff j + (s - compactOff j) = s := by omega
        rw [hso]
        have hPl := padded_length D n hb2
        have hmono : compactOff (j + 1) ≤ compactOff n := compactOff_mono (by omega)
        have hne : (((padded D n).drop s).take (compactCap j - (s - compactOff j))).isEmpty = false := by
          cases hx : ((padded D n).drop s).take (compactCap j - (s - compactOff j)) with
          | nil =>
            have := congrArg List.length hx
            simp only [List.length_take, List.length_drop, hPl, List.length_nil] at this
            omega
          | cons a b => rfl
        rw [hne]
        simp only [Bool.not_false, extract_found', res_bind_ok, List.map_map]
        have hmap : (List.range' (j + 1) m).map (Share.rawData ∘ specShare ns D S) =
            (List.range' (j + 1) m).map (compactPayload D) := by
          apply List.map_congr_left
          intro k _
          exact (spec_share_accessors ns hc D S k).2.1
        rw [hmap, window_concat D n hb1 hb2 m (j + 1) (by omega)]
        have hmono2 := compactOff_mono (show j + 1 ≤ j + 1 + m by omega)
        have e1 : (padded D n).drop (compactOff (j + 1)) = ((padded D n).drop s).drop (compactCap j - (s - compactOff j)) := by
          rw [List.drop_drop]; congr 1; omega
        have e2 : compactOff (j + (m + 1)) - s = (compactCap j - (s - compactOff j)) + (compactOff (j + 1 + m) - compactOff (j + 1)) := by
          have : j + (m + 1) = j + 1 + m := by omega
          rw [this]; omega
        rw [e1, e2, List.take_add]

end GoSquare
