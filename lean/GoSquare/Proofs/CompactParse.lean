import GoSquare.Proofs.Compact
import GoSquare.Proofs.SparseParse
/-! The compact reader on the specified sequence (C09 round trip): accessors on specified compact
    shares, payload reassembly, the unit-peeling loop. -/
namespace GoSquare
open Spec

/-- payload bytes of specified share `j` as the reader sees them (zero filled in the last share) -/
def compactPayload (D : Bytes) (j : Nat) : Bytes :=
  (D.drop (compactOff j)).take (compactCap j) ++ zeros (compactCap j - ((D.drop (compactOff j)).take (compactCap j)).length)

theorem compactPayload_length (D : Bytes) (j : Nat) : (compactPayload D j).length = compactCap j := by
  have : ((D.drop (compactOff j)).take (compactCap j)).length ≤ compactCap j := by simp [List.length_take]; omega
  simp only [compactPayload, List.length_append, zeros_length]; omega

theorem specShare_form0 (ns D : Bytes) (S : List Nat) (hns : ns.length = 29) :
    specShare ns D S 0 = ns ++ infoByte 0 true :: (be32 D.length ++ (be32 (resOf S 0) ++ compactPayload D 0)) := by
  have hl : ((D.drop (compactOff 0)).take (compactCap 0)).length ≤ 474 := by simp [List.length_take, compactCap]; omega
  unfold specShare compactPayload
  rw [fill_append_zeros]
  simp only [beq_self_eq_true, if_true]
  have e : 512 - (ns ++ [infoByte 0 true] ++ be32 D.length ++ be32 (resOf S 0) ++
      (D.drop (compactOff 0)).take (compactCap 0)).length =
      compactCap 0 - ((D.drop (compactOff 0)).take (compactCap 0)).length := by
    simp only [List.length_append, List.length_cons, List.length_nil, be32_length, hns, compactCap, if_true] at hl ⊢
    omega
  rw [e]
  simp only [List.append_assoc, List.cons_append, List.nil_append]

theorem specShare_formJ (ns D : Bytes) (S : List Nat) (j : Nat) (hj : j ≠ 0) (hns : ns.length = 29) :
    specShare ns D S j = ns ++ infoByte 0 false :: (be32 (resOf S j) ++ compactPayload D j) := by
  have hcj : compactCap j = 478 := by simp [compactCap, hj]
  have hl : ((D.drop (compactOff j)).take (compactCap j)).length ≤ 478 := by simp [List.length_take, hcj]; omega
  have hb : (j == 0) = false := by simp [hj]
  unfold specShare compactPayload
  rw [fill_append_zeros]
  simp only [hb, hj, if_false, List.append_nil]
  have e : 512 - (ns ++ [infoByte 0 false] ++ be32 (resOf S j) ++ (D.drop (compactOff j)).take (compactCap j)).length =
      compactCap j - ((D.drop (compactOff j)).take (compactCap j)).length := by
    simp only [List.length_append, List.length_cons, List.length_nil, be32_length, hns]
    omega
  rw [e]
  simp only [List.append_assoc, List.cons_append, List.nil_append]

theorem parseReserved_be32 (r : Nat) (h : r < 512) : parseReservedBytes (be32 r) = .ok r := by
  have : readBe32 (be32 r) = r := by simpa using readBe32_be32 r (by omega) []
  simp [parseReservedBytes, this]; omega

/-- accessors on a first compact share `ns ‖ info(0,start) ‖ L ‖ R ‖ P` -/
theorem first_compact_accessors (ns L P : Bytes) (r : Nat) (hc : CompactNs ns) (hL : L.length = 4) (hP : P.length = 474)
    (hr : r < 512) (s : Bytes) (hs : s = ns ++ infoByte 0 true :: (L ++ (be32 r ++ P))) :
    Share.version s = 0 ∧ Share.rawData s = P ∧
    Share.rawDataUsingReserved s = .ok (if r = 0 then [] else s.drop r) ∧
    Share.sequenceLen s = readBe32 (L ++ (be32 r ++ P)) := by
  obtain ⟨d1, d2, d3⟩ := decoded_of_cons ns 0 true (L ++ (be32 r ++ P)) hc.len (by omega)
  rw [← hs] at d1 d2 d3
  have hcs : Share.isCompactShare s = true := by rw [isCompactShare_eq, d1]; exact hc.compact
  have hlen : s.length = 512 := by rw [hs]; simp [hc.len, hL, hP]
  have hd30 : s.drop 30 = L ++ (be32 r ++ P) := by rw [hs]; exact drop30_of_cons _ _ _ hc.len
  have hd34 : s.drop 34 = be32 r ++ P := by
    have : s.drop 34 = (s.drop 30).drop 4 := by simp [List.drop_drop]
    rw [this, hd30, List.drop_left' hL]
  have hd38 : s.drop 38 = P := by
    have : s.drop 38 = (s.drop 34).drop 4 := by simp [List.drop_drop]
    rw [this, hd34, List.drop_left' (be32_length _)]
  refine ⟨d2, ?_, ?_, ?_⟩
  · simp only [Share.rawData, Share.rawDataStartIndex, d3, hcs, d2, if_true, show ((0:Nat) == 1) = false from rfl,
      Bool.and_false, Bool.false_eq_true, if_false, Nat.add_zero]
    exact hd38
  · unfold Share.rawDataUsingReserved Share.rawDataStartIndexUsingReserved
    simp only [d3, hcs, d2, if_true, show ((0:Nat) == 1) = false from rfl, Bool.and_false, Bool.false_eq_true, if_false,
      Nat.add_zero]
    have hslice : slice s (30 + 4) (30 + 4 + 4) = .ok (be32 r) := by
      unfold slice
      rw [if_pos ⟨by omega, by omega⟩, hd34, show 30 + 4 + 4 - (30 + 4) = 4 by omega, List.take_left' (be32_length _)]
    rw [hslice, res_bind_ok, parseReserved_be32 r hr, res_bind_ok]
    by_cases hz : r = 0
    · simp [hz]
    · have hnl : ¬ s.length < r := by omega
      simp only [hz, if_false, hnl, sliceFrom]
      rw [if_pos (by omega)]
  · simp only [Share.sequenceLen, d3, Bool.not_true, Bool.false_eq_true, if_false]
    rw [hd30]

/-- accessors on a continuation compact share `ns ‖ info(0,false) ‖ R ‖ P` -/
theorem cont_compact_accessors (ns P : Bytes) (r : Nat) (hc : CompactNs ns) (hP : P.length = 478) (hr : r < 512)
    (s : Bytes) (hs : s = ns ++ infoByte 0 false :: (be32 r ++ P)) :
    Share.version s = 0 ∧ Share.rawData s = P ∧
    Share.rawDataUsingReserved s = .ok (if r = 0 then [] else s.drop r) := by
  obtain ⟨d1, d2, d3⟩ := decoded_of_cons ns 0 false (be32 r ++ P) hc.len (by omega)
  rw [← hs] at d1 d2 d3
  have hcs : Share.isCompactShare s = true := by rw [isCompactShare_eq, d1]; exact hc.compact
  have hlen : s.length = 512 := by rw [hs]; simp [hc.len, hP]
  have hd30 : s.drop 30 = be32 r ++ P := by rw [hs]; exact drop30_of_cons _ _ _ hc.len
  have hd34 : s.drop 34 = P := by
    have : s.drop 34 = (s.drop 30).drop 4 := by simp [List.drop_drop]
    rw [this, hd30, List.drop_left' (be32_length _)]
  refine ⟨d2, ?_, ?_⟩
  · simp only [Share.rawData, Share.rawDataStartIndex, d3, hcs, d2, if_true, show ((0:Nat) == 1) = false from rfl,
      Bool.and_false, Bool.false_eq_true, if_false, Nat.add_zero]
    exact hd34
  · unfold Share.rawDataUsingReserved Share.rawDataStartIndexUsingReserved
    simp only [d3, hcs, d2, if_true, show ((0:Nat) == 1) = false from rfl, Bool.and_false, Bool.false_eq_true, if_false,
      Nat.add_zero]
    have hslice : slice s 30 (30 + 4) = .ok (be32 r) := by
      unfold slice
      rw [if_pos ⟨by omega, by omega⟩, hd30, show 30 + 4 - 30 = 4 by omega, List.take_left' (be32_length _)]
    rw [hslice, res_bind_ok, parseReserved_be32 r hr, res_bind_ok]
    by_cases hz : r = 0
    · simp [hz]
    · have hnl : ¬ s.length < r := by omega
      simp only [hz, if_false, hnl, sliceFrom]
      rw [if_pos (by omega)]

/-! ### payload reassembly -/

theorem payload_concat (D : Bytes) : ∀ (m : Nat), (m ≠ 0 → compactOff (m - 1) ≤ D.length) →
    ((List.range m).map (compactPayload D)).flatten = D.take (compactOff m) ++ zeros (compactOff m - D.length)
  | 0, _ => by simp [compactOff, zeros]
  | m + 1, h => by
    have hm : compactOff m ≤ D.length := by simpa using h (by omega)
    have ih := payload_concat D m (by
      intro hm0
      have := compactOff_mono (show m - 1 ≤ m by omega); omega)
    rw [List.range_succ, List.map_append, List.flatten_append, ih]
    have hz : compactOff m - D.length = 0 := by omega
    rw [hz]
    simp only [zeros, List.replicate_zero, List.append_nil, List.map_cons, List.map_nil, List.flatten_cons,
      List.flatten_nil, compactPayload]
    rw [compactOff_succ, ← List.append_assoc, ← List.take_add]
    congr 2
    simp only [List.length_take, List.length_drop]
    omega

/-! ### the unit-peeling loop -/

theorem readUvarint_zeros10 : readUvarint (zeros 10) = some (0, 1) := by decide

theorem parseDelimiter_zeros (z : Nat) : parseDelimiter (zeros z) = .ok (zeros (z - 1), 0) ∨ parseDelimiter (zeros z) = .ok (zeros z, 0) := by
  unfold parseDelimiter
  by_cases h0 : (zeros z).length = 0
  · right; simp [h0]
  · left
    have hz : 1 ≤ z := by simp at h0; omega
    simp only [h0, if_false]
    have hd : (zeros z).take (min 10 (zeros z).length) ++ zeros (10 - min 10 (zeros z).length) = zeros 10 := by
      simp only [zeros, List.length_replicate, List.take_replicate, List.replicate_append_replicate]
      congr 1; omega
    rw [hd, readUvarint_zeros10]
    simp only
    have hc : ¬ (1 > min 10 (zeros z).length) := by simp; omega
    rw [if_neg hc]
    have hu : uvarintLen 0 = 1 := by rw [uvarintLen]; simp
    simp only [hu, sliceFrom]
    rw [if_pos (by simp; omega), res_bind_ok]
    simp [zeros, List.drop_replicate]

/-- peeling one complete, non-empty unit off the front -/
theorem parseDelimiter_unit (u rest : Bytes) (hu : u ≠ []) (hlt : u.length < 2 ^ 63) :
    parseDelimiter (uvarint u.length ++ u ++ rest) = .ok (u ++ rest, u.length) := by
  have hupos : 0 < u.length := List.length_pos_iff.mpr hu
  have hlen9 := uvarintLen_le_nine u.length hlt
  have hlpos := uvarintLen_pos u.length
  generalize hin : uvarint u.length ++ u ++ rest = input
  have hinlen : uvarintLen u.length + u.length ≤ input.length := by
    rw [← hin]; simp [uvarint_length]
  unfold parseDelimiter
  have h0 : ¬ input.length = 0 := by omega
  simp only [h0, if_false]
  have hlmin : uvarintLen u.length ≤ min 10 input.length := by
    rw [Nat.le_min]; constructor <;> omega
  have htake : input.take (min 10 input.length) =
      uvarint u.length ++ (u ++ rest).take (min 10 input.length - uvarintLen u.length) := by
    generalize min 10 input.length = l at hlmin ⊢
    rw [← hin, List.append_assoc, List.take_append, uvarint_length,
      List.take_of_length_le (by rw [uvarint_length]; exact hlmin)]
  have hd : input.take (min 10 input.length) ++ zeros (10 - min 10 input.length) =
      uvarint u.length ++ ((u ++ rest).take (min 10 input.length - uvarintLen u.length) ++ zeros (10 - min 10 input.length)) := by
    rw [htake, List.append_assoc]
  rw [hd, readUvarint_uvarint u.length hlt]
  simp only
  have hc : ¬ (uvarintLen u.length > min 10 input.length) := by omega
  rw [if_neg hc]
  simp only [sliceFrom]
  rw [if_pos (by omega), res_bind_ok, ← hin, List.append_assoc, ← uvarint_length, List.drop_left]

theorem parseRawData_units : ∀ (us : List Bytes) (z fuel : Nat) (acc : List Bytes),
    (∀ u ∈ us, u ≠ [] ∧ u.length < 2 ^ 63) → (unitStream us ++ zeros z).length + 1 ≤ fuel →
    parseRawData fuel (unitStream us ++ zeros z) acc = .ok (acc ++ us)
  | [], z, fuel, acc, _, hf => by
    cases fuel with
    | zero => omega
    | succ n =>
      rw [parseRawData]
      simp only [unitStream, List.map_nil, List.flatten_nil, List.nil_append]
      rcases parseDelimiter_zeros z with h | h <;> simp [h, res_bind_ok, bind, Except.bind]
  | u :: us, z, fuel, acc, h, hf => by
    cases fuel with
    | zero => omega
    | succ n =>
      obtain ⟨hu, hlt⟩ := h u (by simp)
      have hupos : 0 < u.length := List.length_pos_iff.mpr hu
      have hst : unitStream (u :: us) ++ zeros z = uvarint u.length ++ u ++ (unitStream us ++ zeros z) := by
        simp [unitStream, List.append_assoc]
      rw [parseRawData, hst, parseDelimiter_unit u _ hu hlt, res_bind_ok]
      simp only
      have h1 : ¬ u.length = 0 := by omega
      have h2 : ¬ u.length > (u ++ (unitStream us ++ zeros z)).length := by simp
      rw [if_neg h1, if_neg h2, List.drop_left, List.take_left]
      rw [parseRawData_units us z n (acc ++ [u]) (fun x hx => h x (by simp [hx])) (by
        rw [hst] at hf; simp only [List.length_append, uvarint_length] at hf ⊢
        have := uvarintLen_pos u.length; omega)]
      simp [List.append_assoc]

end GoSquare
