import GoSquare.Properties.C11
import GoSquare.Proofs.TxRange
/-! Parsing just the shares of a transaction's reported range yields a list containing that
    transaction (C12, last clause; uses the sub-range theorem of C11). -/
namespace GoSquare.RangeParse
open GoSquare Spec

theorem mem_within (A B : Nat) : ∀ (units : List Bytes) (pos i : Nat) (hi : i < units.length),
    A ≤ pos + (unitStream (units.take i)).length →
    pos + (unitStream (units.take i)).length + (uvarintLen (units[i]).length + (units[i]).length) ≤ B →
    units[i] ∈ C11.within A B pos units
  | [], _, i, hi, _, _ => by simp at hi
  | u :: us, pos, 0, _, hA, hB => by
    simp only [List.take_zero, unitStream, List.map_nil, List.flatten_nil, List.length_nil, Nat.add_zero,
      List.getElem_cons_zero] at hA hB ⊢
    rw [C11.within, if_pos ⟨hA, by omega⟩]
    simp
  | u :: us, pos, i + 1, hi, hA, hB => by
    have hst : (unitStream ((u :: us).take (i + 1))).length =
        uvarintLen u.length + u.length + (unitStream (us.take i)).length := by
      simp [unitStream, uvarint_length]; omega
    simp only [List.getElem_cons_succ] at hB ⊢
    rw [hst] at hA hB
    have ih := mem_within A B us (pos + uvarintLen u.length + u.length) i (by simpa using hi) (by omega) (by omega)
    rw [C11.within]
    split
    · exact List.mem_cons_of_mem _ ih
    · exact ih

/-- **C12 (parsing the reported range).** For transaction `i` of a compact sequence, the range
    `[share of its first byte, share of its last byte + 1)` lies inside the sequence, and parsing
    exactly those shares returns a list containing the transaction. -/
theorem parse_range_contains_tx (ns : Bytes) (hc : CompactNs ns) (units : List Bytes) (hne : units ≠ [])
    (hu : C09.NonEmptyUnits units) (hlt : (unitStream units).length < 4294967296) (i : Nat) (hi : i < units.length) :
    let S := (unitStream (units.take i)).length
    let E := S + (uvarintLen (units[i]).length + (units[i]).length)
    let lo := C12.shareOf S
    let hi' := C12.shareOf (E - 1) + 1
    lo < hi' ∧ hi' ≤ (compactSeq ns units).length ∧
    ∃ r, parseTxs (((compactSeq ns units).drop lo).take (hi' - lo)) = .ok r ∧ units[i] ∈ r := by
  intro S E lo hi'
  have hlpos := uvarintLen_pos (units[i]).length
  have hSE : S ≤ E - 1 := by omega
  have hmono := TxRange.shareOf_mono hSE
  -- the whole stream
  have hsplit : units = units.take i ++ units[i] :: units.drop (i + 1) := by
    rw [List.getElem_cons_drop, List.take_append_drop]
  have hT : E ≤ (unitStream units).length := by
    have happ : ∀ (a b : List Bytes), unitStream (a ++ b) = unitStream a ++ unitStream b := by
      intro a b; simp [unitStream]
    have hcons : ∀ (u : Bytes) (b : List Bytes), unitStream (u :: b) = uvarint u.length ++ u ++ unitStream b := by
      intro u b; simp [unitStream]
    have h1 : unitStream units = unitStream (units.take i) ++ unitStream (units[i] :: units.drop (i + 1)) := by
      rw [← happ, ← hsplit]
    have h2 : (unitStream (units[i] :: units.drop (i + 1))).length =
        (uvarintLen (units[i]).length + (units[i]).length) + (unitStream (units.drop (i + 1))).length := by
      rw [hcons, List.length_append, List.length_append, uvarint_length]
    have := congrArg List.length h1
    rw [List.length_append, h2] at this
    omega
  have hlen : (compactSeq ns units).length = C12.shareOf ((unitStream units).length - 1) + 1 := by
    rw [compactSeq_eq, List.length_map, List.length_range, compactCount_eq_sizeOf, sizeOf_eq_compactSharesNeeded,
      C12.sharesNeeded_eq_shareOf_last _ (by omega)]
  have hhi : hi' ≤ (compactSeq ns units).length := by
    rw [hlen]
    have := TxRange.shareOf_mono (show E - 1 ≤ (unitStream units).length - 1 by omega)
    omega
  refine ⟨by omega, hhi, _, C11.parse_subrange ns hc units hne hu hlt lo hi' (by omega) hhi, ?_⟩
  apply mem_within _ _ units 0 i hi
  · -- the unit begins at or after the first payload byte of its first share
    have := (posOf_fst_off S).1
    show compactOff (posOf S).1 ≤ 0 + S
    omega
  · -- and ends at or before the last payload byte of its last share
    have h2 := (posOf_fst_off (E - 1)).2.1
    have : compactOff (C12.shareOf (E - 1) + 1) = compactOff (posOf (E - 1)).1 + compactCap (posOf (E - 1)).1 := by
      rw [compactOff_succ]; rfl
    simp only [Nat.zero_add]
    show S + (uvarintLen (units[i]).length + (units[i]).length) ≤ compactOff hi'
    rw [this]; omega

end GoSquare.RangeParse
