import GoSquare.Proofs.C12Core
import GoSquare.Proofs.ExportKept
import GoSquare.Proofs.BlobRange
/-! # C12 (builder half) — `Builder.FindTxShareRange` is exact

For an exported builder the reported range of transaction `i` is
`[share of its first stream byte, share of its last stream byte + 1)`, where the pay-for-blob
sequence starts right after the shares of the transaction sequence; out-of-range indexes are
errors. -/
namespace GoSquare.TxRange
open GoSquare Builder Spec

/-- bytes of the stream before unit `i` -/
def before (sizes : List Nat) (i : Nat) : Nat := ((sizes.take i).map (fun n => uvarintLen n + n)).sum

/-- bytes of a unit itself (varint prefix + body) -/
def unitLen (n : Nat) : Nat := uvarintLen n + n

theorem before_zero (sizes : List Nat) : before sizes 0 = 0 := by
  simp [before]

theorem before_succ (sizes : List Nat) (i : Nat) (h : i < sizes.length) :
    before sizes (i + 1) = before sizes i + unitLen sizes[i] := by
  unfold before unitLen
  rw [List.take_add_one, List.getElem?_eq_getElem h]
  simp only [List.map_append, List.sum_append, Option.toList_some, List.map_cons, List.map_nil,
    List.sum_cons, List.sum_nil]
  omega

theorem unitLen_pos (n : Nat) : 1 ≤ unitLen n := by
  have := uvarintLen_pos n
  unfold unitLen; omega

/-- the step of the fold in `FindTxShareRange` -/
def step (ntx : Nat) (acc : Counter × Counter) (p : Nat × Nat) : Counter × Counter :=
  if p.1 < ntx then ((acc.1.add p.2).1, acc.2) else (acc.1, (acc.2.add p.2).1)

theorem at_zero : ({} : Counter).At 0 := by
  unfold Counter.At posOf; simp

/-- invariant of the fold: after `k` units the two counters have counted the streams of the
    first `min k |a|` transactions and of the first `k - |a|` wrapped PFBs. -/
theorem fold_inv (a p : List Nat) (k : Nat) (hk : k ≤ a.length + p.length) :
    ((((List.range (a ++ p).length).zip (a ++ p)).take k).foldl (step a.length) ({}, {})).1.At
        (before a (min k a.length)) ∧
    ((((List.range (a ++ p).length).zip (a ++ p)).take k).foldl (step a.length) ({}, {})).2.At
        (before p (k - a.length)) := by
  induction k with
  | zero => simp [before_zero, at_zero]
  | succ k ih =>
    have ih := ih (by omega)
    have hlen : k < ((List.range (a ++ p).length).zip (a ++ p)).length := by
      simp; omega
    rw [List.take_add_one, List.foldl_append, List.getElem?_eq_getElem hlen]
    simp only [Option.toList_some, List.foldl_cons, List.foldl_nil, List.getElem_zip, List.getElem_range]
    generalize (((List.range (a ++ p).length).zip (a ++ p)).take k).foldl (step a.length) ({}, {}) = acc at ih ⊢
    obtain ⟨c1, c2⟩ := acc
    obtain ⟨h1, h2⟩ := ih
    simp only at h1 h2
    unfold step
    by_cases hka : k < a.length
    · simp only [hka, if_true]
      have hm : min k a.length = k := by omega
      have hm' : min (k + 1) a.length = k + 1 := by omega
      rw [hm] at h1
      rw [hm', before_succ a k hka]
      have hz : k + 1 - a.length = 0 := by omega
      have hz' : k - a.length = 0 := by omega
      rw [hz]; rw [hz'] at h2
      refine ⟨?_, h2⟩
      rw [List.getElem_append_left hka]
      have := (Counter.add_at c1 _ a[k] h1).1
      unfold unitLen
      rw [Nat.add_comm (uvarintLen a[k])]
      exact this
    · simp only [hka, if_false]
      have hm : min k a.length = a.length := by omega
      have hm' : min (k + 1) a.length = a.length := by omega
      rw [hm] at h1
      rw [hm']
      refine ⟨h1, ?_⟩
      have hs : k + 1 - a.length = (k - a.length) + 1 := by omega
      have hkp : k - a.length < p.length := by omega
      rw [hs, before_succ p _ hkp]
      rw [List.getElem_append_right (by omega)]
      have := (Counter.add_at c2 _ p[k - a.length] h2).1
      unfold unitLen
      rw [Nat.add_comm (uvarintLen _)]
      exact this

/-- the pure computation of `FindTxShareRange` on the exported state -/
def rangeOf (a p : List Nat) (ti : Nat) : Nat × Nat :=
  let acc := ((((List.range (a ++ p).length).zip (a ++ p)).take ti).foldl (step a.length) ({}, {}))
  let start : Int := ((acc.1.size + acc.2.size : Nat) : Int) - 1
  let sz := (a ++ p).getD ti 0
  if ti < a.length then
    ((if acc.1.remainder = 0 then start + 1 else start).toNat, (acc.1.add sz).1.size + acc.2.size)
  else
    ((if acc.2.remainder = 0 then start + 1 else start).toNat, acc.1.size + (acc.2.add sz).1.size)

theorem ensureExported_done (b : Builder) (hd : b.done = true) : b.ensureExported = .ok b := by
  unfold Builder.ensureExported
  rw [hd]; rfl

/-- `FindTxShareRange` when `ensureExported` yields the state `b'` -/
theorem find_of_ensure (b b' : Builder) (he : b.ensureExported = .ok b') (ti : Nat)
    (hlt : ti < b'.txs.length + b'.pfbs.length) :
    b.findTxShareRange (ti : Int) =
      .ok (b', rangeOf (b'.txs.map List.length) (b'.pfbs.map (·.size)) ti) := by
  unfold Builder.findTxShareRange
  rw [he]
  simp only [bind, Except.bind, throw, throwThe, MonadExceptOf.throw]
  rw [if_neg (by omega), Int.toNat_natCast, if_neg (by omega)]
  unfold rangeOf
  simp only [List.length_map]
  by_cases h : ti < b'.txs.length
  · simp only [h, if_true]; rfl
  · simp only [h, if_false]; rfl

theorem find_error_of_ensure (b b' : Builder) (he : b.ensureExported = .ok b') (i : Int)
    (h : i < 0 ∨ (b'.txs.length + b'.pfbs.length : Int) ≤ i) : b.findTxShareRange i = .error .err := by
  unfold Builder.findTxShareRange
  rw [he]
  simp only [bind, Except.bind, throw, throwThe, MonadExceptOf.throw]
  by_cases h0 : i < 0
  · rw [if_pos h0]
  · rw [if_neg h0, if_pos (by omega)]

/-- the start computation: `size - 1`, or `size` when the unit starts a fresh share, is the share of
    the unit's first byte (`S` = shares of the other sequence that precede) -/
theorem start_eq (c : Counter) (X S n : Nat) (h : c.At X) (hn : n = S + c.size) :
    (if c.remainder = 0 then ((n : Nat) : Int) - 1 + 1 else ((n : Nat) : Int) - 1).toNat = S + C12.shareOf X := by
  have hsz := Counter.size_of_at h
  rw [hsz] at hn
  unfold sizeOf at hn
  rw [h.2]
  unfold C12.shareOf
  by_cases h0 : (posOf X).2 = 0
  · simp only [h0, if_true] at hn ⊢; omega
  · simp only [h0, if_false] at hn ⊢; omega

/-- the end computation: the size after adding the unit is one past the share of its last byte -/
theorem end_eq (c : Counter) (X n : Nat) (h : c.At X) :
    (c.add n).1.size = C12.shareOf (X + unitLen n - 1) + 1 := by
  have h' := (Counter.add_at c X n h).1
  rw [Counter.size_of_at h', sizeOf_eq_compactSharesNeeded]
  have := unitLen_pos n
  rw [C12.sharesNeeded_eq_shareOf_last _ (by unfold unitLen at this; omega)]
  unfold unitLen
  rw [Nat.add_comm n]

theorem size_at_zero (c : Counter) (h : c.At 0) : c.size = 0 := by
  rw [Counter.size_of_at h]; simp [sizeOf, posOf]

theorem rangeOf_left (a p : List Nat) (i : Nat) (hi : i < a.length) :
    rangeOf a p i =
      (C12.shareOf (before a i), C12.shareOf (before a i + unitLen a[i] - 1) + 1) := by
  obtain ⟨h1, h2⟩ := fold_inv a p i (by omega)
  unfold rangeOf
  generalize ((((List.range (a ++ p).length).zip (a ++ p)).take i).foldl (step a.length) ({}, {})) = acc at h1 h2 ⊢
  have hm : min i a.length = i := by omega
  have hz : i - a.length = 0 := by omega
  rw [hm] at h1
  rw [hz, before_zero] at h2
  have hs2 := size_at_zero _ h2
  have hg : (a ++ p).getD i 0 = a[i] := by
    rw [List.getD_eq_getElem?_getD, List.getElem?_append_left hi, List.getElem?_eq_getElem hi]; rfl
  simp only [hi, if_true, hg]
  rw [start_eq acc.1 (before a i) 0 _ h1 (by omega), end_eq acc.1 _ _ h1, hs2]
  simp

theorem rangeOf_right (a p : List Nat) (i : Nat) (hi : i < p.length) :
    rangeOf a p (a.length + i) =
      (compactSharesNeeded (before a a.length) + C12.shareOf (before p i),
       compactSharesNeeded (before a a.length) + C12.shareOf (before p i + unitLen p[i] - 1) + 1) := by
  obtain ⟨h1, h2⟩ := fold_inv a p (a.length + i) (by omega)
  unfold rangeOf
  generalize ((((List.range (a ++ p).length).zip (a ++ p)).take (a.length + i)).foldl (step a.length) ({}, {})) = acc at h1 h2 ⊢
  have hm : min (a.length + i) a.length = a.length := by omega
  have hz : a.length + i - a.length = i := by omega
  rw [hm] at h1
  rw [hz] at h2
  have hs1 : acc.1.size = compactSharesNeeded (before a a.length) := by
    rw [Counter.size_of_at h1, sizeOf_eq_compactSharesNeeded]
  have hg : (a ++ p).getD (a.length + i) 0 = p[i] := by
    rw [List.getD_eq_getElem?_getD, List.getElem?_append_right (by omega), hz, List.getElem?_eq_getElem hi]; rfl
  have hn : ¬ (a.length + i < a.length) := by omega
  simp only [hn, if_false, hg]
  rw [start_eq acc.2 (before p i) acc.1.size _ h2 rfl, end_eq acc.2 _ _ h2, hs1]
  simp only [Nat.add_assoc]

/-- the range theorem for any builder whose `ensureExported` yields `b'` (the `b'` is the state
    whose transactions and wrapped PFBs are in the square) -/
theorem findTxShareRange_exact_of_ensure (b b' : Builder) (he : b.ensureExported = .ok b') (i : Nat) :
    (∀ (hi : i < b'.txs.length),
      b.findTxShareRange (i : Int) = .ok (b',
        C12.shareOf (before (b'.txs.map List.length) i),
        C12.shareOf (before (b'.txs.map List.length) i + unitLen (b'.txs[i]).length - 1) + 1)) ∧
    (∀ (hi : i < b'.pfbs.length),
      let T := compactSharesNeeded (before (b'.txs.map List.length) b'.txs.length)
      b.findTxShareRange ((b'.txs.length + i : Nat) : Int) = .ok (b',
        T + C12.shareOf (before (b'.pfbs.map (·.size)) i),
        T + C12.shareOf (before (b'.pfbs.map (·.size)) i + unitLen (b'.pfbs[i]).size - 1) + 1)) := by
  constructor
  · intro hi
    rw [find_of_ensure b b' he i (by omega), rangeOf_left _ _ i (by simpa using hi)]
    simp only [List.getElem_map]
  · intro hi
    simp only
    rw [find_of_ensure b b' he _ (by omega)]
    have := rangeOf_right (b'.txs.map List.length) (b'.pfbs.map (·.size)) i (by simpa using hi)
    simp only [List.length_map, List.getElem_map] at this
    rw [this]

/-- **C12 (builder ranges).** On an exported builder, `FindTxShareRange` reports for every
    transaction exactly `[share of its first byte, share of its last byte + 1)`: ordinary
    transaction `i` occupies the stream bytes `[before, before + unitLen)` of the transaction
    sequence, blob transaction `i` (index `|txs| + i`) the bytes of its wrapped PFB in the
    pay-for-blob sequence, which starts right after the `T` shares of the transaction sequence. -/
theorem findTxShareRange_exact (b : Builder) (hd : b.done = true) (i : Nat) :
    (∀ (hi : i < b.txs.length),
      b.findTxShareRange (i : Int) = .ok (b,
        C12.shareOf (before (b.txs.map List.length) i),
        C12.shareOf (before (b.txs.map List.length) i + unitLen (b.txs[i]).length - 1) + 1)) ∧
    (∀ (hi : i < b.pfbs.length),
      let T := compactSharesNeeded (before (b.txs.map List.length) b.txs.length)
      b.findTxShareRange ((b.txs.length + i : Nat) : Int) = .ok (b,
        T + C12.shareOf (before (b.pfbs.map (·.size)) i),
        T + C12.shareOf (before (b.pfbs.map (·.size)) i + unitLen (b.pfbs[i]).size - 1) + 1)) :=
  findTxShareRange_exact_of_ensure b b (ensureExported_done b hd) i

/-- out-of-range indexes are errors -/
theorem findTxShareRange_out_of_range (b : Builder) (hd : b.done = true) (i : Int)
    (h : i < 0 ∨ (b.txs.length + b.pfbs.length : Int) ≤ i) : b.findTxShareRange i = .error .err :=
  find_error_of_ensure b b (ensureExported_done b hd) i h

/-! ### a range `[shareOf X, shareOf (X + len - 1) + 1)` is exactly the set of shares holding a byte -/

theorem shareOf_mono {a b : Nat} (h : a ≤ b) : C12.shareOf a ≤ C12.shareOf b := by
  rw [C12.shareOf_closed_form, C12.shareOf_closed_form]
  by_cases ha : a < 474
  · simp only [ha, if_true]; omega
  · have hb : ¬ b < 474 := by omega
    simp only [ha, hb, if_false]; omega

/-- share `k` lies in the reported range of a unit occupying the stream bytes `[X, X + len)` iff it
    holds at least one of these bytes -/
theorem mem_range_iff (X len k : Nat) (hlen : 1 ≤ len) :
    (C12.shareOf X ≤ k ∧ k < C12.shareOf (X + len - 1) + 1) ↔
      ∃ off, X ≤ off ∧ off < X + len ∧ C12.shareOf off = k := by
  constructor
  · rintro ⟨h1, h2⟩
    by_cases hk : k = C12.shareOf X
    · exact ⟨X, Nat.le_refl _, by omega, hk.symm⟩
    · refine ⟨474 + (k - 1) * 478, ?_, ?_, ?_⟩
      · rw [C12.shareOf_closed_form] at h1 hk
        by_cases hx : X < 474
        · omega
        · simp only [hx, if_false] at h1 hk; omega
      · rw [C12.shareOf_closed_form] at h2
        have : 1 ≤ k := by omega
        by_cases hx : X + len - 1 < 474
        · simp only [hx, if_true] at h2; omega
        · simp only [hx, if_false] at h2; omega
      · rw [C12.shareOf_closed_form]
        have : 1 ≤ k := by omega
        have hx : ¬ (474 + (k - 1) * 478 < 474) := by omega
        simp only [hx, if_false]; omega
  · rintro ⟨off, h1, h2, rfl⟩
    have := shareOf_mono h1
    have := shareOf_mono (show off ≤ X + len - 1 by omega)
    omega

/-! ### in terms of the unit streams written into the square -/

/-- `before` over the transaction lengths is the length of the unit stream of the first `i`
    transactions, i.e. the stream offset `unitStarts 0 us` of transaction `i` -/
theorem before_eq_unitStream (us : List Bytes) (i : Nat) :
    before (us.map List.length) i = (unitStream (us.take i)).length := by
  unfold before
  rw [unitStream_length, ← List.map_take, List.map_map]
  rfl

/-- the same for the wrapped PFBs: the units are their marshalled bytes -/
theorem before_pfbs_eq_unitStream (W : List Proto.IndexWrapper) (i : Nat) :
    before (W.map (·.size)) i = (unitStream ((W.map (·.marshal)).take i)).length := by
  rw [← before_eq_unitStream, List.map_map]
  rfl

/-- the pay-for-blob offset `T` is the number of shares of the transaction sequence in the square -/
theorem txShares_eq (N : List Bytes) :
    compactSharesNeeded (before (N.map List.length) N.length) = (compactSeq txNamespace N).length := by
  rw [compactSeq_length, before_eq_unitStream, List.take_length]

/-! ### builders that are not yet exported -/

theorem ensureExported_of_export (b b' : Builder) (sq : List Bytes) (hd : b.done = false)
    (h : b.exportSquare = .ok (b', sq)) :
    b.ensureExported = .ok b' ∧ b'.ensureExported = .ok b' := by
  have h1 : b.ensureExported = .ok b' := by
    unfold Builder.ensureExported
    rw [hd]
    simp only [Bool.false_eq_true, if_false]
    rw [h]
    rfl
  refine ⟨h1, ?_⟩
  unfold Builder.exportSquare at h
  obtain ⟨⟨upd, sq'⟩, _, h2⟩ := res_bind_ok' h
  cases upd with
  | none =>
    simp only [Except.ok.injEq, Prod.mk.injEq] at h2
    rw [← h2.1]; exact h2.1 ▸ h1
  | some v =>
    obtain ⟨blobs, pfbs⟩ := v
    simp only [Except.ok.injEq, Prod.mk.injEq] at h2
    rw [← h2.1]
    unfold Builder.ensureExported
    simp

/-- `FindTxShareRange` on a builder that still has to export is `FindTxShareRange` on the
    exported builder -/
theorem findTxShareRange_export (b b' : Builder) (sq : List Bytes) (hd : b.done = false)
    (h : b.exportSquare = .ok (b', sq)) (i : Int) :
    b.findTxShareRange i = b'.findTxShareRange i := by
  obtain ⟨h1, h2⟩ := ensureExported_of_export b b' sq hd h
  unfold Builder.findTxShareRange
  rw [h1, h2]

theorem patched_length (thr : Nat) (N : List Bytes) (B : List BlobTx) :
    (patched thr N B).length = B.length := by
  unfold patched
  rw [(patchAll_frame thr _ _ _).1]
  unfold worstWrappers
  rw [List.length_map]

/-- **C12 on a builder that has kept `N` and `B`** (not yet exported): the ranges in terms of the
    two compact sequences of the exported square `squareOf`, which are
    `compactSeq txNamespace N` (shares `[0, T)`) followed by
    `compactSeq payForBlobNamespace W`, `W` the marshalled wrapped PFBs with their recorded share
    indexes. Transaction `i` occupies the bytes
    `[|unitStream (take i)|, |unitStream (take i)| + unitLen)` of its sequence's unit stream. -/
theorem findTxShareRange_kept (b : Builder) (N : List Bytes) (B : List BlobTx) (hk : Kept b N B)
    (hv : ∀ t ∈ B, ∀ bl ∈ t.blobs, bl.BlobValid)
    (hsz : 478 * (b.maxSquareSize * b.maxSquareSize) < 4294967296)
    (hd : b.done = false) (b' : Builder) (sq : List Bytes) (h : b.exportSquare = .ok (b', sq)) :
    let W := (patched b.thr N B).map (·.marshal)
    let T := (compactSeq txNamespace N).length
    (∀ (i : Nat) (hi : i < N.length),
      b.findTxShareRange (i : Int) = .ok (b',
        C12.shareOf (unitStream (N.take i)).length,
        C12.shareOf ((unitStream (N.take i)).length + unitLen (N[i]).length - 1) + 1)) ∧
    (∀ (i : Nat) (hi : i < W.length),
      b.findTxShareRange ((N.length + i : Nat) : Int) = .ok (b',
        T + C12.shareOf (unitStream (W.take i)).length,
        T + C12.shareOf ((unitStream (W.take i)).length + unitLen (W[i]).length - 1) + 1)) ∧
    (∀ i : Int, i < 0 ∨ (N.length + B.length : Int) ≤ i → b.findTxShareRange i = .error .err) := by
  intro W T
  have he := (ensureExported_of_export b b' sq hd h).1
  have htx : b'.txs = N ∧ b'.pfbs = patched b.thr N B := by
    rcases export_kept b N B hk hv hsz b' sq h with ⟨hN, hB, _, hb⟩ | ⟨_, h2⟩
    · subst hN hB
      rw [hb]
      refine ⟨hk.txs, ?_⟩
      rw [hk.pfbs]
      exact (List.eq_nil_of_length_eq_zero (patched_length b.thr [] [])).symm
    · simp only at h2
      obtain ⟨_, _, g2, g3, _, _⟩ := h2
      exact ⟨g3, g2⟩
  obtain ⟨htx, hpf⟩ := htx
  refine ⟨?_, ?_, ?_⟩
  · intro i hi
    have := (findTxShareRange_exact_of_ensure b b' he i).1
    simp only [htx] at this
    rw [this hi, before_eq_unitStream]
  · intro i hi
    have hi' : i < (patched b.thr N B).length := by simpa [W] using hi
    have := (findTxShareRange_exact_of_ensure b b' he i).2
    simp only [htx, hpf] at this
    rw [this hi', before_pfbs_eq_unitStream, txShares_eq]
    simp only [W, List.getElem_map, Proto.IndexWrapper.size]
    rfl
  · intro i hi
    apply find_error_of_ensure b b' he
    rw [htx, hpf, patched_length]
    exact hi

/-- **C12 for `square.TxShareRange(txs, txIndex, max, thr)`**: the input list is `N ++ bl`
    (ordinary transactions, then blob transactions), the square is `squareOf thr N B ..` whose two
    compact sequences are `compactSeq txNamespace N` (shares `[0, T)`) and
    `compactSeq payForBlobNamespace W` (from share `T`), and the reported range of every index is
    exactly `[share of the unit's first byte, share of its last byte + 1)`; every other index is an
    error. -/
theorem txShareRange_spec (dec : Bytes → Decoded) (hdec : DecValid dec) (txs : List Bytes) (max thr : Nat)
    (hsz : 478 * (max * max) < 4294967296) (b0 : Builder) (hb0 : Builder.newWithTxs dec max thr txs = .ok b0) :
    ∃ N bl, txs = N ++ bl ∧ (∀ r ∈ N, dec r = .normal) ∧ (∀ r ∈ bl, dec r = .blobTx (decB dec r)) ∧
      ∀ (sq : List Bytes) (b1 : Builder), b0.exportSquare = .ok (b1, sq) →
        let W := (patched thr N (bl.map (decB dec))).map (·.marshal)
        let T := (compactSeq txNamespace N).length
        (∀ (i : Nat) (hi : i < N.length),
          txShareRange dec txs (i : Int) max thr = .ok (
            C12.shareOf (unitStream (N.take i)).length,
            C12.shareOf ((unitStream (N.take i)).length + unitLen (N[i]).length - 1) + 1)) ∧
        (∀ (i : Nat) (hi : i < W.length),
          txShareRange dec txs ((N.length + i : Nat) : Int) max thr = .ok (
            T + C12.shareOf (unitStream (W.take i)).length,
            T + C12.shareOf ((unitStream (W.take i)).length + unitLen (W[i]).length - 1) + 1)) ∧
        (∀ i : Int, i < 0 ∨ (txs.length : Int) ≤ i → txShareRange dec txs i max thr = .error .err) := by
  have hb0' := hb0
  unfold Builder.newWithTxs at hb0'
  obtain ⟨bn, hnew, hall⟩ := res_bind_ok' hb0'
  obtain ⟨hk0, ht0, hm0⟩ := kept_new max thr bn hnew
  obtain ⟨N, bl, e, hk, hthr, hmx, hbl, hn⟩ := appendAll_spec dec txs bn false [] [] b0
    (by simpa using hk0) (by simp) (by simp) hall
  simp only [List.nil_append] at hk hbl hn
  have hbthr : b0.thr = thr := by rw [hthr, ht0]
  have hbmax : b0.maxSquareSize = max := by rw [hmx, hm0]
  have hdone : b0.done = false := appendAll_done dec txs bn false b0 hall (new_done max thr bn hnew)
  refine ⟨N, bl, e, hn, hbl, ?_⟩
  intro sq b1 hexp
  have hv := decValid_kept dec hdec bl hbl
  have hmain := findTxShareRange_kept b0 N _ hk hv (by rw [hbmax]; exact hsz) hdone b1 sq hexp
  simp only [hbthr] at hmain
  obtain ⟨m1, m2, m3⟩ := hmain
  intro W T
  refine ⟨?_, ?_, ?_⟩
  · intro i hi
    unfold txShareRange
    rw [hb0]
    show (b0.findTxShareRange _ >>= _) = _
    rw [m1 i hi]
    rfl
  · intro i hi
    unfold txShareRange
    rw [hb0]
    show (b0.findTxShareRange _ >>= _) = _
    rw [m2 i hi]
    rfl
  · intro i hi
    unfold txShareRange
    rw [hb0]
    show (b0.findTxShareRange _ >>= _) = _
    rw [m3 i (by rw [e, List.length_append] at hi; simp only [List.length_map]; omega)]
    rfl

end GoSquare.TxRange
