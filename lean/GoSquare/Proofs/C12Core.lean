import GoSquare.Properties.C09
/-! # C12 — transaction share ranges are exact (compact splitter half)

The splitter's per-transaction range is exactly the set of shares holding a byte of the
transaction's length-prefixed encoding: from the share of its first byte to one past the share
of its last byte. (The builder's `FindTxShareRange` / `BlobShareRange` are decided by the BUILDER
correspondence stream and oracle; see the evidence file.) -/
namespace GoSquare.C12
open GoSquare Spec

/-- index of the compact share holding stream byte `off` -/
def shareOf (off : Nat) : Nat := (posOf off).1

theorem shareOf_closed_form (off : Nat) : shareOf off = if off < 474 then 0 else 1 + (off - 474) / 478 := by
  unfold shareOf posOf; split <;> rfl

/-- one past the share of the last byte = the share count of the stream up to that byte -/
theorem sharesNeeded_eq_shareOf_last (T : Nat) (h : 1 ≤ T) : compactSharesNeeded T = shareOf (T - 1) + 1 := by
  rw [← sizeOf_eq_compactSharesNeeded]
  unfold sizeOf shareOf posOf
  by_cases h1 : T < 474
  · have : T - 1 < 474 := by omega
    have h0 : ¬ T = 0 := by omega
    simp [h1, this, h0]
  · simp only [h1, if_false]
    by_cases h2 : T - 1 < 474
    · have : T = 474 := by omega
      subst this; simp
    · simp only [h2, if_false]
      by_cases h3 : (T - 474) % 478 = 0
      · simp only [h3, if_true]; omega
      · simp only [h3, if_false]; omega

/-- **C12 (splitter ranges).** Writing transaction `u` after the transactions `units` records for
    it exactly `[share of its first byte, share of its last byte + 1)`, where its bytes are the
    stream offsets `[T, T + len)`, `T` = bytes written before, `len` = varint prefix + body. -/
theorem splitter_range_exact (ns x : Bytes) (hc : CompactNs ns) (c : CompactSplitter) (units : List Bytes) (u : Bytes)
    (h : Normal ns x c units) :
    ∃ c', c.writeTx u = .ok c' ∧
      c'.ranges = CompactSplitter.setRange c.ranges u
        (shareOf (unitStream units).length,
         shareOf ((unitStream units).length + (uvarintLen u.length + u.length) - 1) + 1) := by
  obtain ⟨c', hw, hN', hr⟩ := writeTx_spec ns x hc c units u h
  refine ⟨c', hw, ?_⟩
  rw [hr]
  have h1 : c.shares.length = shareOf (unitStream units).length := by
    simp [h.1.shares, shareOf]
  have hpos := uvarintLen_pos u.length
  have h2 : c'.count = shareOf ((unitStream units).length + (uvarintLen u.length + u.length) - 1) + 1 := by
    rw [count_spec ns x hc c' _ hN', unitStream_append]
    simp only [List.length_append, uvarint_length]
    rw [sharesNeeded_eq_shareOf_last _ (by omega)]
  rw [h1, h2]

end GoSquare.C12
