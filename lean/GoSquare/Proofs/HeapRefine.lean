import GoSquare.Model.Heap
import GoSquare.Proofs.Bytes
import GoSquare.Properties.C17
/-! # C17 — the heap-level accumulation pattern computes the pure model's result

`Properties/C17.lean` proves the *frame* property of the readers' accumulation pattern
(`var data []byte; for _, v := range views { data = append(data, read(v)...) }`) on the flat-memory
model of Go slices. This file proves its *functional correctness*: the slice that the loop returns
holds exactly the concatenation of the contents the views had in the original heap — which is
what the pure model (used by every other property) takes the collected payload to be. The
statement holds for all view layouts (offsets, overlaps, spare capacities) and for all growth
decisions of the runtime. -/
namespace GoSquare.HeapRefine
open GoSquare GoSquare.Heap

/-! ## load / store -/

theorem load_length (h : Heap) (s : Slice) (hs : s.off + s.len ≤ h.length) :
    (load h s).length = s.len := by
  simp only [load, List.length_take, List.length_drop]; omega

theorem load_length_of_inBounds (h : Heap) (s : Slice) (hs : s.InBounds h) :
    (load h s).length = s.len :=
  load_length h s (by obtain ⟨h1, h2⟩ := hs; omega)

theorem store_length (h : Heap) (a : Nat) (xs : Bytes) (ha : a + xs.length ≤ h.length) :
    (store h a xs).length = h.length := by
  simp only [store, List.length_append, List.length_take, List.length_drop]; omega

/-- loading the region just stored returns the stored bytes -/
theorem load_store_same (h : Heap) (a : Nat) (xs : Bytes) (c : Nat) (ha : a ≤ h.length) :
    load (store h a xs) ⟨a, xs.length, c⟩ = xs := by
  have hl : (h.take a).length = a := by simp only [List.length_take]; omega
  simp only [load, store]
  rw [List.append_assoc, List.drop_left' hl, List.take_left' rfl]

/-- a store at or above the end of the loaded region does not change `load` -/
theorem load_store_above (h : Heap) (a : Nat) (xs : Bytes) (s : Slice)
    (hsa : s.off + s.len ≤ a) (ha : a ≤ h.length) :
    load (store h a xs) s = load h s := by
  have hl : (h.take a).length = a := by simp only [List.length_take]; omega
  simp only [load, store]
  rw [List.append_assoc, List.drop_append_of_le_length (by omega),
    List.take_append_of_le_length (by simp only [List.length_drop]; omega),
    List.drop_take, List.take_take]
  congr 1; omega

/-- a store entirely below the loaded region does not change `load` -/
theorem load_store_below (h : Heap) (a : Nat) (xs : Bytes) (s : Slice)
    (has : a + xs.length ≤ s.off) (ha : a + xs.length ≤ h.length) :
    load (store h a xs) s = load h s := by
  have hl : (h.take a ++ xs).length = a + xs.length := by
    simp only [List.length_append, List.length_take]; omega
  simp only [load, store]
  have hd : (h.take a ++ xs ++ h.drop (a + xs.length)).drop s.off = h.drop s.off := by
    have e : s.off = (a + xs.length) + (s.off - (a + xs.length)) := by omega
    rw [e, ← List.drop_drop, List.drop_left' hl, List.drop_drop]
  rw [hd]

/-- a store outside `[s.off, s.off + s.len)` does not change `load h s` -/
theorem load_store_disjoint (h : Heap) (a : Nat) (xs : Bytes) (s : Slice)
    (ha : a + xs.length ≤ h.length)
    (hdis : s.off + s.len ≤ a ∨ a + xs.length ≤ s.off) :
    load (store h a xs) s = load h s := by
  rcases hdis with hd | hd
  · exact load_store_above h a xs s hd (by omega)
  · exact load_store_below h a xs s hd ha

/-- loading inside the old heap is unchanged by appending to the heap -/
theorem load_append_left (h t : Heap) (s : Slice) (hs : s.off + s.len ≤ h.length) :
    load (h ++ t) s = load h s := by
  simp only [load]
  rw [List.drop_append_of_le_length (by omega),
    List.take_append_of_le_length (by simp only [List.length_drop]; omega)]

/-- a load only depends on the prefix of the heap that contains the slice -/
theorem load_take (h : Heap) (n : Nat) (s : Slice) (hs : s.off + s.len ≤ n) :
    load (h.take n) s = load h s := by
  simp only [load]
  rw [List.drop_take, List.take_take]
  congr 1; omega

/-- two heaps that agree on their first `n` bytes agree on every slice below `n` -/
theorem load_congr_prefix (h h' : Heap) (n : Nat) (s : Slice) (hs : s.off + s.len ≤ n)
    (hp : h'.take n = h.take n) : load h' s = load h s := by
  rw [← load_take h' n s hs, ← load_take h n s hs, hp]

/-- the nil slice is empty in every heap -/
theorem load_nil (h : Heap) : load h nilSlice = [] := by
  simp [load, nilSlice]

/-- loading the freshly allocated block at the end of the heap -/
theorem load_fresh (h ys zs : Heap) (c : Nat) :
    load (h ++ ys ++ zs) ⟨h.length, ys.length, c⟩ = ys := by
  simp only [load]
  rw [List.append_assoc, List.drop_left' rfl, List.take_left' rfl]

/-! ## one append -/

/-- the in-place branch: the old content of the slice followed by the new bytes -/
theorem load_store_extend (h : Heap) (s : Slice) (xs : Bytes)
    (hin : s.off + s.len ≤ h.length) :
    load (store h (s.off + s.len) xs) { s with len := s.len + xs.length } = load h s ++ xs := by
  have hl : (h.take (s.off + s.len)).length = s.off + s.len := by
    simp only [List.length_take]; omega
  simp only [load, store]
  rw [List.append_assoc, List.drop_append_of_le_length (by omega), List.drop_take,
    ← List.append_assoc]
  have e : s.off + s.len - s.off = s.len := by omega
  rw [e]
  have hlen : ((h.drop s.off).take s.len ++ xs).length = s.len + xs.length := by
    simp only [List.length_append, List.length_take, List.length_drop]; omega
  rw [List.take_left' hlen]

/-- **one append, content.** `append(s, xs...)` returns a slice holding the old content of `s`
    followed by `xs` — in place or after a reallocation, whatever the growth decision. -/
theorem goAppend_result (h : Heap) (s : Slice) (xs : Bytes) (extra : Nat) (hs : s.InBounds h) :
    load (goAppend h s xs extra).1 (goAppend h s xs extra).2 = load h s ++ xs := by
  obtain ⟨hlc, hin⟩ := hs
  unfold goAppend
  by_cases hfit : s.len + xs.length ≤ s.cap
  · rw [if_pos hfit]
    exact load_store_extend h s xs (by omega)
  · rw [if_neg hfit]
    have hlen : (load h s ++ xs).length = s.len + xs.length := by
      rw [List.length_append, load_length h s (by omega)]
    have := load_fresh h (load h s ++ xs) (zeros extra) (s.len + xs.length + extra)
    rw [hlen] at this
    exact this

/-- **one append, other slices.** A slice lying entirely below `n` keeps its content when one
    appends to a slice that is nil or allocated at or above `n`. -/
theorem goAppend_load_below (h : Heap) (s : Slice) (xs : Bytes) (extra n : Nat)
    (hn : n ≤ h.length) (hs : C17.Above n h s) (v : Slice) (hv : v.off + v.len ≤ n) :
    load (goAppend h s xs extra).1 v = load h v :=
  load_congr_prefix h _ n v hv (C17.goAppend_frame h s xs extra n hn hs).1

theorem inBounds_of_above {n : Nat} {h : Heap} {s : Slice} (hs : C17.Above n h s) :
    s.InBounds h := by
  rcases hs with rfl | ⟨_, hb⟩
  · exact ⟨Nat.le_refl _, Nat.zero_le _⟩
  · exact hb

/-! ## the loop -/

/-- **the loop invariant, generalised.** Starting from a heap `h` whose first `h0.length` bytes are
    `h0` and an accumulator that is nil or was allocated after `h0`, the loop returns the old
    content of the accumulator followed by the contents the views had in `h0`; the result is in
    bounds (and again nil or above `h0`), and `h0` is untouched. -/
theorem accumulate_result : ∀ (views : List Slice) (h0 h : Heap) (acc : Slice) (extras : List Nat),
    (∀ v ∈ views, v.InBounds h0) → h0.length ≤ h.length → h.take h0.length = h0 →
    C17.Above h0.length h acc →
    load (accumulate h acc views extras).1 (accumulate h acc views extras).2
        = load h acc ++ (views.map (load h0)).flatten ∧
      C17.Above h0.length (accumulate h acc views extras).1 (accumulate h acc views extras).2 ∧
      (accumulate h acc views extras).1.take h0.length = h0
  | [], h0, h, acc, extras, _, _, hp, ha => by
    simp only [accumulate, List.map_nil, List.flatten_nil, List.append_nil]
    exact ⟨trivial, ha, hp⟩
  | v :: vs, h0, h, acc, extras, hv, hn, hp, ha => by
    obtain ⟨f1, f2, f3⟩ := C17.goAppend_frame h acc (load h v) (extras.headD 0) h0.length hn ha
    have hvb : v.off + v.len ≤ h0.length := by
      obtain ⟨h1, h2⟩ := hv v (List.mem_cons_self ..); omega
    have hload : load h v = load h0 v := by
      have : load (h.take h0.length) v = load h v := load_take h h0.length v hvb
      rw [← this, hp]
    have hp' : (goAppend h acc (load h v) (extras.headD 0)).1.take h0.length = h0 := by
      rw [f1, hp]
    obtain ⟨r1, r2, r3⟩ := accumulate_result vs h0 _ _ extras.tail
      (fun w hw => hv w (List.mem_cons_of_mem _ hw)) (by omega) hp' f3
    simp only [accumulate]
    refine ⟨?_, r2, r3⟩
    rw [r1, goAppend_result h acc (load h v) (extras.headD 0) (inBounds_of_above ha), hload]
    simp only [List.map_cons, List.flatten_cons, List.append_assoc]

/-- **C17, functional correctness of the readers' accumulation pattern.** Accumulating from the
    nil slice returns a slice whose content is the concatenation of the contents the views had in
    the ORIGINAL heap — whatever the views' offsets, overlaps and capacities, and whatever the
    runtime's growth decisions; the result is in bounds and the original heap is untouched. -/
theorem accumulate_from_nil_result (h : Heap) (views : List Slice) (extras : List Nat)
    (hv : ∀ v ∈ views, v.InBounds h) :
    let r := accumulate h nilSlice views extras
    load r.1 r.2 = (views.map (load h)).flatten ∧ r.2.InBounds r.1 ∧
    r.1.take h.length = h := by
  obtain ⟨r1, r2, r3⟩ := accumulate_result views h h nilSlice extras hv (Nat.le_refl _)
    (List.take_length) (Or.inl rfl)
  refine ⟨?_, inBounds_of_above r2, r3⟩
  rw [r1, load_nil, List.nil_append]

/-- the same as a refinement statement: any pure function of the collected payload can be
    computed on the pure model's payload (the concatenation of the views' contents) -/
theorem accumulate_from_nil_refines {α : Type _} (f : Bytes → α) (h : Heap) (views : List Slice)
    (extras : List Nat) (hv : ∀ v ∈ views, v.InBounds h) :
    f (load (accumulate h nilSlice views extras).1 (accumulate h nilSlice views extras).2)
      = f ((views.map (load h)).flatten) := by
  rw [(accumulate_from_nil_result h views extras hv).1]

/-- the views themselves still read the same after the loop (no input was modified) -/
theorem accumulate_from_nil_views_unchanged (h : Heap) (views : List Slice) (extras : List Nat)
    (v : Slice) (hv : v.InBounds h) :
    load (accumulate h nilSlice views extras).1 v = load h v := by
  have hp := C17.accumulate_from_nil_preserves_memory views h extras
  have hb : v.off + v.len ≤ h.length := by obtain ⟨h1, h2⟩ := hv; omega
  rw [← load_take _ h.length v hb, hp]

/-- the length of the collected payload is the sum of the views' lengths -/
theorem accumulate_from_nil_len (h : Heap) (views : List Slice) (extras : List Nat)
    (hv : ∀ v ∈ views, v.InBounds h) :
    (accumulate h nilSlice views extras).2.len = (views.map (·.len)).sum := by
  obtain ⟨r1, r2, _⟩ := accumulate_from_nil_result h views extras hv
  have hl := load_length_of_inBounds _ _ r2
  rw [r1] at hl
  rw [← hl, List.length_flatten, List.map_map]
  congr 1
  apply List.map_congr_left
  intro v hvm
  exact load_length_of_inBounds h v (hv v hvm)

/-- non-vacuity: overlapping views with spare capacity, one in-place append and one reallocation -/
example :
    let h : Heap := [1, 2, 3, 4, 5, 6]
    let views : List Slice := [⟨0, 2, 6⟩, ⟨1, 3, 5⟩, ⟨4, 2, 2⟩]
    let r := accumulate h nilSlice views [4, 0, 7]
    load r.1 r.2 = [1, 2, 2, 3, 4, 5, 6] ∧ (views.map (load h)).flatten = [1, 2, 2, 3, 4, 5, 6] ∧
    r.1.take 6 = h ∧ r.2 = ⟨12, 7, 14⟩ := by decide

end GoSquare.HeapRefine
