import GoSquare.Properties.C01
import GoSquare.Proofs.C06Core
import GoSquare.Proofs.Compact
import GoSquare.Spec.Layout
import GoSquare.Proofs.Square
/-! # C07 — the accept/refuse rule, the estimate and the side are those of the specified layout
function (PARTIAL: the byte-for-byte equality `construct = Spec.construct` of the laid-out shares
is decided by running the executable `Spec` against the real bytes on every case, not by a theorem)

Proved here: the independent closed-form `Spec.estimate` (written from the layout rules: compact
share counts of length-prefixed bytes, wrapped PFBs sized with placeholder index 16384, every blob
reserving its share count plus subtree width − 1) equals the builder's running estimate, so
`Build` keeps exactly the transactions `Spec.select` keeps; and the side is `Spec.minSide` of that
estimate. -/
namespace GoSquare.C07
open GoSquare

theorem res_bind_ok'' {α β} {x : Res α} {f : α → Res β} {r : β} (h : (x >>= f) = .ok r) :
    ∃ a, x = .ok a ∧ f a = .ok r := by
  cases x with
  | error e => cases h
  | ok a => exact ⟨a, rfl, h⟩

/-! ### the Spec's arithmetic equals the code's -/

theorem leastPow2GeAux_spec : ∀ (fuel k n : Nat), n ≤ 2 ^ (k + fuel) →
    ∃ j, k ≤ j ∧ Spec.leastPow2GeAux fuel (2 ^ k) n = 2 ^ j ∧ n ≤ 2 ^ j ∧ (j = k ∨ 2 ^ (j - 1) < n)
  | 0, k, n, h => ⟨k, Nat.le_refl _, rfl, by simpa using h, Or.inl rfl⟩
  | fuel + 1, k, n, h => by
    rw [Spec.leastPow2GeAux]
    by_cases hle : n ≤ 2 ^ k
    · simp only [hle, if_true]; exact ⟨k, Nat.le_refl _, rfl, hle, Or.inl rfl⟩
    · simp only [hle, if_false]
      have : 2 * 2 ^ k = 2 ^ (k + 1) := by rw [Nat.pow_succ]; omega
      rw [this]
      obtain ⟨j, hj, he, hn, hor⟩ := leastPow2GeAux_spec fuel (k + 1) n (by
        have : k + 1 + fuel = k + (fuel + 1) := by omega
        rw [this]; exact h)
      refine ⟨j, by omega, he, hn, Or.inr ?_⟩
      rcases hor with rfl | hor
      · simp; omega
      · exact hor

theorem pow2_unique {j1 j2 n : Nat} (h1 : n ≤ 2 ^ j1) (o1 : j1 = 0 ∨ 2 ^ (j1 - 1) < n)
    (h2 : n ≤ 2 ^ j2) (o2 : j2 = 0 ∨ 2 ^ (j2 - 1) < n) : j1 = j2 := by
  have key : ∀ a b, n ≤ 2 ^ a → (b = 0 ∨ 2 ^ (b - 1) < n) → b ≤ a := by
    intro a b ha ob
    rcases ob with rfl | ob
    · omega
    · have := two_pow_lt_two_pow (Nat.lt_of_lt_of_le ob ha); omega
  have := key j1 j2 h1 o2
  have := key j2 j1 h2 o1
  omega

theorem leastPow2Ge_eq (n : Nat) (h : n ≤ 2 ^ 63) : Spec.leastPow2Ge n = roundUpPow2 n := by
  obtain ⟨j1, _, e1, h1, o1⟩ := leastPow2GeAux_spec n 0 n (by
    simp only [Nat.zero_add]; exact Nat.le_of_lt Nat.lt_two_pow_self)
  obtain ⟨j2, e2, h2, o2⟩ := roundUpPow2_spec n h
  have : j1 = j2 := pow2_unique h1 (by simpa using o1) h2 o2
  simp only [Nat.pow_zero] at e1
  rw [Spec.leastPow2Ge, e1, e2, this]

theorem minSideAux_spec : ∀ (fuel k n : Nat), n ≤ 2 ^ (k + fuel) * 2 ^ (k + fuel) →
    ∃ j, k ≤ j ∧ Spec.minSideAux fuel (2 ^ k) n = 2 ^ j ∧ n ≤ 2 ^ j * 2 ^ j ∧ (j = k ∨ 2 ^ (j - 1) * 2 ^ (j - 1) < n)
  | 0, k, n, h => ⟨k, Nat.le_refl _, rfl, by simpa using h, Or.inl rfl⟩
  | fuel + 1, k, n, h => by
    rw [Spec.minSideAux]
    by_cases hle : n ≤ 2 ^ k * 2 ^ k
    · simp only [hle, if_true]; exact ⟨k, Nat.le_refl _, rfl, hle, Or.inl rfl⟩
    · simp only [hle, if_false]
      have : 2 * 2 ^ k = 2 ^ (k + 1) := by rw [Nat.pow_succ]; omega
      rw [this]
      obtain ⟨j, hj, he, hn, hor⟩ := minSideAux_spec fuel (k + 1) n (by
        have : k + 1 + fuel = k + (fuel + 1) := by omega
        rw [this]; exact h)
      refine ⟨j, by omega, he, hn, Or.inr ?_⟩
      rcases hor with rfl | hor
      · simp; omega
      · exact hor

/-- the Spec's minimal side equals `BlobMinSquareSize` (incl. its floating-point computation) -/
theorem minSide_eq (n : Nat) (h1 : 1 ≤ n) (h : n ≤ 2 ^ 52) : Spec.minSide n = blobMinSquareSize n := by
  obtain ⟨j, _, e, hn, hor⟩ := minSideAux_spec n 0 n (by
    simp only [Nat.zero_add]
    have := @Nat.lt_two_pow_self n
    calc n ≤ 2 ^ n := Nat.le_of_lt this
      _ ≤ 2 ^ n * 2 ^ n := Nat.le_mul_of_pos_right _ (Nat.two_pow_pos n))
  simp only [Nat.pow_zero] at e
  obtain ⟨p1, p2, p3⟩ := C15.minSquare_least n h1 h
  rw [Spec.minSide, e]
  apply Nat.le_antisymm
  · -- 2^j ≤ blobMinSquareSize n: otherwise blobMinSquareSize n ≤ 2^(j-1), whose square is below n
    obtain ⟨m, hm⟩ := p1
    rcases Nat.lt_or_ge (2 ^ m) (2 ^ j) with hlt | hge
    · exfalso
      have hmj : m < j := two_pow_lt_two_pow hlt
      rcases hor with rfl | hor
      · omega
      · have : 2 ^ m ≤ 2 ^ (j - 1) := Nat.pow_le_pow_right (by omega) (by omega)
        have := Nat.mul_self_le_mul_self this
        rw [hm] at p2; omega
    · rw [hm]; exact hge
  · exact p3 _ ⟨j, rfl⟩ hn

/-- the Spec's subtree width equals `SubTreeWidth` -/
theorem subTreeWidth_eq (n thr : Nat) (hn : 1 ≤ n) (hn52 : n ≤ 2 ^ 52) (ht : 1 ≤ thr) :
    Spec.subTreeWidth n thr = subTreeWidth n thr := by
  obtain ⟨_, _, hs, _⟩ := C15.subTreeWidth_spec n thr hn hn52 ht
  have hsb : (n + thr - 1) / thr ≤ 2 ^ 63 := by
    have : (n + thr - 1) / thr ≤ n := by
      rw [Nat.div_le_iff_le_mul_add_pred ht]
      have : n * 1 ≤ n * thr := Nat.mul_le_mul_left n ht
      rw [Nat.mul_comm thr n]; omega
    have : (2:Nat) ^ 52 ≤ 2 ^ 63 := by decide
    omega
  rw [hs, Spec.subTreeWidth, Spec.ceilDiv, leastPow2Ge_eq _ hsb, minSide_eq n hn hn52]

/-- blobs as the estimate sees them -/
def BlobOK (b : Blob) : Prop := 1 ≤ b.data.length ∧ b.data.length < 4294967296 ∧ (b.ver = 0 ∨ b.ver = 1)

/-- the Spec's share count of a blob equals the builder's prediction -/
theorem blobShares_eq (b : Blob) (h : BlobOK b) :
    Spec.blobShares b = sparseSharesNeededWithSigner (u32 b.data.length) (b.ver == 1) := by
  obtain ⟨h1, h2, hv⟩ := h
  have hu : u32 b.data.length = b.data.length := Nat.mod_eq_of_lt h2
  rw [hu]
  unfold Spec.blobShares sparseSharesNeededWithSigner Spec.ceilDiv
  have h0 : ¬ b.data.length = 0 := by omega
  simp only [h0, if_false]
  rcases hv with hv | hv
  · have hne : ¬ b.ver = 1 := by omega
    simp only [hv, show ¬ ((0:Nat) = 1) by decide, if_false, show ((0:Nat) == 1) = false from rfl, Bool.false_eq_true]
    by_cases hlt : b.data.length < 478
    · have : b.data.length ≤ 478 := by omega
      simp [hlt, this]
    · simp only [hlt, if_false]
      by_cases heq : b.data.length ≤ 478
      · have : b.data.length = 478 := by omega
        simp [this]
      · simp only [heq, if_false]
        by_cases hm : (b.data.length - 478) % 482 > 0
        · simp only [hm, if_true]; omega
        · simp only [hm, if_false]; omega
  · simp only [hv, if_true, show ((1:Nat) == 1) = true from rfl]
    by_cases hlt : b.data.length < 478 - 20
    · have : b.data.length ≤ 458 := by omega
      simp [hlt, this]
    · simp only [hlt, if_false]
      by_cases heq : b.data.length ≤ 458
      · have : b.data.length = 458 := by omega
        simp [this]
      · simp only [heq, if_false]
        by_cases hm : (b.data.length - (478 - 20)) % 482 > 0
        · simp only [hm, if_true]; omega
        · simp only [hm, if_false]; omega


theorem blobShares_bounds (b : Blob) (h : BlobOK b) : 1 ≤ Spec.blobShares b ∧ Spec.blobShares b ≤ 2 ^ 52 := by
  obtain ⟨h1, h2, hv⟩ := h
  unfold Spec.blobShares Spec.ceilDiv
  simp only
  have hp : (2:Nat) ^ 52 = 4503599627370496 := by decide
  split <;> split <;> omega

/-- per blob: the Spec's reservation (shares + subtree width − 1) is the builder's -/
theorem reservation_eq_spec (thr : Nat) (ht : 1 ≤ thr) (b : Blob) (h : BlobOK b) :
    Spec.blobShares b + (Spec.subTreeWidth (Spec.blobShares b) thr - 1) = reservation thr b := by
  obtain ⟨hb1, hb2⟩ := blobShares_bounds b h
  rw [subTreeWidth_eq _ thr hb1 hb2 ht]
  unfold reservation newElement Element.maxShareOffset
  simp only
  rw [← blobShares_eq b h]

def toB (p : Spec.PTx) : BlobTx := { tx := p.tx, blobs := p.blobs }

theorem worstWrapLen_eq (p : Spec.PTx) : Spec.worstWrapLen p = worstLen (toB p) := rfl

theorem map_sum_congr {α} (f g : α → Nat) : ∀ (l : List α), (∀ x ∈ l, f x = g x) → (l.map f).sum = (l.map g).sum
  | [], _ => rfl
  | x :: l, h => by
    simp only [List.map_cons, List.sum_cons]
    rw [h x (by simp), map_sum_congr f g l (fun y hy => h y (by simp [hy]))]

/-- **C07 (estimate).** The Spec's closed-form worst-case estimate equals the builder's. -/
theorem estimate_eq (thr : Nat) (ht : 1 ≤ thr) (N : List Bytes) (P : List Spec.PTx)
    (hok : ∀ p ∈ P, ∀ b ∈ p.blobs, BlobOK b) :
    Spec.estimate thr N P = closedEstimate thr N (P.map toB) := by
  unfold Spec.estimate closedEstimate
  rw [compactCount_eq_sizeOf, compactCount_eq_sizeOf, List.map_map, List.map_map]
  have e1 : (N.map (fun t => Spec.unitBytes t.length)).sum = (N.map (fun t => unitBytes t.length)).sum :=
    map_sum_congr _ _ N (fun t _ => by unfold Spec.unitBytes unitBytes; omega)
  have e2 : (P.map (fun p => Spec.unitBytes (Spec.worstWrapLen p))).sum =
      (P.map ((fun t => unitBytes (worstLen t)) ∘ toB)).sum :=
    map_sum_congr _ _ P (fun p _ => by
      simp only [Function.comp]; rw [worstWrapLen_eq]; unfold Spec.unitBytes unitBytes; omega)
  have e3 : (P.map (fun p => (p.blobs.map (fun b => Spec.blobShares b + (Spec.subTreeWidth (Spec.blobShares b) thr - 1))).sum)).sum =
      (P.map ((fun t => (t.blobs.map (reservation thr)).sum) ∘ toB)).sum :=
    map_sum_congr _ _ P (fun p hp => by
      simp only [Function.comp, toB]
      exact map_sum_congr _ _ p.blobs (fun b hb => reservation_eq_spec thr ht b (hok p hp b hb)))
  rw [e1, e2, e3]

/-- a kept blob transaction as the Spec sees it -/
def toP (dec : Bytes → Decoded) (r : Bytes) : Spec.PTx := { raw := r, tx := (decB dec r).tx, blobs := (decB dec r).blobs }

theorem toB_toP (dec : Bytes → Decoded) (bl : List Bytes) : (bl.map (toP dec)).map toB = bl.map (decB dec) := by
  rw [List.map_map]; apply List.map_congr_left; intro r _; rfl

/-- the decoder's guarantee the estimate relies on (`blob.New` rejects empty data and unknown
    share versions; sizes are below 2^32) -/
def DecOK (dec : Bytes → Decoded) : Prop := ∀ t bt, dec t = .blobTx bt → ∀ b ∈ bt.blobs, BlobOK b

theorem toP_ok (dec : Bytes → Decoded) (hdec : DecOK dec) (bl : List Bytes) (hb : ∀ r ∈ bl, dec r = .blobTx (decB dec r)) :
    ∀ p ∈ bl.map (toP dec), ∀ b ∈ p.blobs, BlobOK b := by
  intro p hp b hbm
  obtain ⟨r, hr, rfl⟩ := List.mem_map.mp hp
  exact hdec r _ (hb r hr) b hbm

/-- **C07 (selection).** The loop of `Build` keeps exactly the transactions the Spec's greedy
    rule keeps: each transaction in input order, kept iff the closed-form estimate still fits. -/
theorem select_eq (dec : Bytes → Decoded) (hdec : DecOK dec) (thr : Nat) (ht : 1 ≤ thr) :
    ∀ (txs : List Bytes) (b : Builder) (n bl : List Bytes) (b' : Builder) (n' bl' : List Bytes),
    Kept b n (bl.map (decB dec)) → b.thr = thr → (∀ r ∈ bl, dec r = .blobTx (decB dec r)) →
    buildLoop dec txs b n bl = .ok (b', n', bl') →
    Spec.select dec b.maxSquareSize thr txs n (bl.map (toP dec)) = some (n', bl'.map (toP dec))
  | [], b, n, bl, b', n', bl', hk, hthr, hb, h => by
    simp only [buildLoop, Except.ok.injEq, Prod.mk.injEq] at h
    obtain ⟨rfl, rfl, rfl⟩ := h
    rfl
  | t :: rest, b, n, bl, b', n', bl', hk, hthr, hb, h => by
    rw [buildLoop] at h
    rw [Spec.select]
    cases hd : dec t with
    | badBlobTx => rw [hd] at h; cases h
    | normal =>
      rw [hd] at h
      simp only at h ⊢
      obtain ⟨hiff, hacc, href⟩ := appendTx_spec b n (bl.map (decB dec)) t hk
      rw [estimate_eq thr ht _ _ (toP_ok dec hdec bl hb), toB_toP]
      rw [hthr] at hiff
      by_cases ha : (b.appendTx t).2 = true
      · obtain ⟨hk1, ht1, hm1⟩ := hacc ha
        rw [ha] at h
        simp only [if_true] at h
        rw [if_pos (hiff.mp ha), ← hm1]
        exact select_eq dec hdec thr ht rest _ _ _ _ _ _ hk1 (by rw [ht1, hthr]) hb h
      · have ha' : (b.appendTx t).2 = false := by simpa using ha
        obtain ⟨hk1, ht1, hm1, _⟩ := href ha'
        rw [ha'] at h
        simp only [Bool.false_eq_true, if_false] at h
        rw [if_neg (fun hc => ha (hiff.mpr hc)), ← hm1]
        exact select_eq dec hdec thr ht rest _ _ _ _ _ _ hk1 (by rw [ht1, hthr]) hb h
    | blobTx bt =>
      rw [hd] at h
      simp only at h ⊢
      have hdb : decB dec t = bt := by simp [decB, hd]
      obtain ⟨hiff, hacc, href⟩ := appendBlobTx_spec b n (bl.map (decB dec)) bt hk
      have hq : bl.map (toP dec) ++ [({ raw := t, tx := bt.tx, blobs := bt.blobs } : Spec.PTx)] = (bl ++ [t]).map (toP dec) := by
        rw [List.map_append, List.map_cons, List.map_nil]; simp only [toP, hdb]
      have hb1 : ∀ r ∈ bl ++ [t], dec r = .blobTx (decB dec r) := by
        intro r hr; rcases List.mem_append.mp hr with hr | hr
        · exact hb r hr
        · simp at hr; rw [hr, hdb]; exact hd
      rw [hq, estimate_eq thr ht _ _ (toP_ok dec hdec _ hb1), toB_toP, List.map_append, List.map_cons, List.map_nil, hdb]
      rw [hthr] at hiff
      by_cases ha : (b.appendBlobTx bt).2 = true
      · obtain ⟨hk1, ht1, hm1⟩ := hacc ha
        rw [ha] at h
        simp only [if_true] at h
        rw [if_pos (hiff.mp ha), ← hm1]
        have hk1' : Kept (b.appendBlobTx bt).1 n ((bl ++ [t]).map (decB dec)) := by
          rw [List.map_append, List.map_cons, List.map_nil, hdb]; exact hk1
        exact select_eq dec hdec thr ht rest _ _ _ _ _ _ hk1' (by rw [ht1, hthr]) hb1 h
      · have ha' : (b.appendBlobTx bt).2 = false := by simpa using ha
        obtain ⟨hk1, ht1, hm1, _⟩ := href ha'
        rw [ha'] at h
        simp only [Bool.false_eq_true, if_false] at h
        rw [if_neg (fun hc => ha (hiff.mpr hc)), ← hm1]
        exact select_eq dec hdec thr ht rest _ _ _ _ _ _ hk1 (by rw [ht1, hthr]) hb h


theorem sizeOf_eq_zero (T : Nat) : sizeOf T = 0 ↔ T = 0 := by
  unfold sizeOf posOf
  by_cases h : T < 474
  · simp only [h, if_true]; split <;> omega
  · simp only [h, if_false]; split <;> omega

theorem unit_sum_eq_zero {α} (f : α → Nat) : ∀ (l : List α), (l.map (fun x => unitBytes (f x))).sum = 0 ↔ l = []
  | [] => by simp
  | x :: l => by
    simp only [List.map_cons, List.sum_cons, reduceCtorEq, iff_false]
    have := uvarintLen_pos (f x)
    unfold unitBytes; omega

/-- **C07 (selection, estimate, side — the proved part).** `Build` keeps exactly the transactions
    the specified greedy rule keeps, in the specified order (ordinary transactions first); the
    Spec's closed-form estimate of the kept set fits `max²`; and the square has exactly `side²`
    shares for the Spec's minimal power-of-two side of that estimate (one share if nothing is
    kept). The contents of those shares are compared with `Spec.layout` on every generated case
    by the correspondence run (`sq specbuild`), not by this theorem. -/
theorem build_selection_and_side (dec : Bytes → Decoded) (hdec : DecOK dec) (txs : List Bytes) (max thr : Nat)
    (ht : 1 ≤ thr) (hmax : max * max ≤ 2 ^ 52) (sq kept : List Bytes)
    (h : build dec txs max thr = .ok (sq, kept)) :
    ∃ n P, Spec.select dec max thr txs [] [] = some (n, P) ∧ kept = n ++ P.map (·.raw) ∧
      Spec.estimate thr n P ≤ max * max ∧
      sq.length = if n = [] ∧ P = [] then 1
        else Spec.minSide (Spec.estimate thr n P) * Spec.minSide (Spec.estimate thr n P) := by
  unfold build at h
  cases hnew : Builder.new max thr with
  | error e => rw [hnew] at h; cases h
  | ok b0 =>
    rw [hnew] at h
    simp only [bind, Except.bind] at h
    obtain ⟨hk0, ht0, hm0⟩ := kept_new max thr b0 hnew
    cases hloop : buildLoop dec txs b0 [] [] with
    | error e => rw [hloop] at h; cases h
    | ok r =>
      obtain ⟨b, n, bl⟩ := r
      rw [hloop] at h
      simp only at h
      cases hexp : b.exportSquare with
      | error e => rw [hexp] at h; cases h
      | ok r2 =>
        obtain ⟨b2, sq2⟩ := r2
        rw [hexp] at h
        simp only [Except.ok.injEq, Prod.mk.injEq] at h
        obtain ⟨rfl, rfl⟩ := h
        obtain ⟨hk, hthr, hmx, hbl, hn, _, _⟩ := buildLoop_spec dec txs b0 [] [] b n bl
          (by simpa using hk0) (by simp) (by simp) hloop
        have hsel := select_eq dec hdec thr ht txs b0 [] [] b n bl (by simpa using hk0) ht0 (by simp) hloop
        rw [hm0] at hsel
        simp only [List.map_nil] at hsel
        have hest : Spec.estimate thr n (bl.map (toP dec)) = closedEstimate thr n (bl.map (decB dec)) := by
          rw [estimate_eq thr ht _ _ (toP_ok dec hdec bl hbl), toB_toP]
        have hbthr : b.thr = thr := by rw [hthr, ht0]
        have hbmax : b.maxSquareSize = max := by rw [hmx, hm0]
        have hfit : closedEstimate thr n (bl.map (decB dec)) ≤ max * max := by
          rw [← hbthr, ← hbmax]; exact hk.fit
        refine ⟨n, bl.map (toP dec), hsel, ?_, by rw [hest]; exact hfit, ?_⟩
        · rw [List.map_map]; congr 1
          exact (List.map_id' bl).symm.trans (List.map_congr_left (fun r _ => rfl))
        · -- the length of the exported square
          unfold Builder.exportSquare at hexp
          obtain ⟨⟨upd, sq'⟩, hcore, hrest⟩ := C07.res_bind_ok'' hexp
          have hlen := exportCore_length _ _ _ _ _ _ _ _ _ hcore
          have hsq : sq' = sq2 := by
            cases upd with
            | none => simp only [Except.ok.injEq, Prod.mk.injEq] at hrest; exact hrest.2
            | some u => simp only [Except.ok.injEq, Prod.mk.injEq] at hrest; exact hrest.2
          subst hsq
          rw [hlen, Counter.size_of_at hk.txC, Counter.size_of_at hk.pfbC, hk.size, hbthr, Int.toNat_natCast]
          have e1 : (sizeOf (n.map (fun t => unitBytes t.length)).sum = 0) ↔ n = [] := by
            rw [sizeOf_eq_zero]; exact unit_sum_eq_zero (fun t : Bytes => t.length) n
          have e2 : (sizeOf ((bl.map (decB dec)).map (fun t => unitBytes (worstLen t))).sum = 0) ↔ bl.map (toP dec) = [] := by
            rw [sizeOf_eq_zero, unit_sum_eq_zero worstLen]; simp
          by_cases hne : n = [] ∧ bl.map (toP dec) = []
          · rw [if_pos hne, if_pos ⟨e1.mpr hne.1, e2.mpr hne.2⟩]
          · rw [if_neg hne, if_neg (fun hc => hne ⟨e1.mp hc.1, e2.mp hc.2⟩), hest]
            have hpos : 1 ≤ closedEstimate thr n (bl.map (decB dec)) := by
              unfold closedEstimate
              rcases Nat.eq_zero_or_pos (sizeOf (n.map (fun t => unitBytes t.length)).sum) with z1 | z1
              · rcases Nat.eq_zero_or_pos (sizeOf ((bl.map (decB dec)).map (fun t => unitBytes (worstLen t))).sum) with z2 | z2
                · exact absurd ⟨e1.mp z1, e2.mp z2⟩ hne
                · omega
              · omega
            rw [minSide_eq _ hpos (Nat.le_trans hfit hmax)]

end GoSquare.C07

namespace GoSquare.C07
/-- non-vacuity: the decoder guarantee is satisfiable, and a concrete build meets the theorem -/
example : DecOK (fun _ => Decoded.normal) := by intro t bt h; cases h
example : (match build (fun _ => .normal) [[1, 2, 3]] 4 64 with
    | .ok r => r.2 == [[1, 2, 3]] && r.1.length == 1 | .error _ => false) = true := by decide +kernel
end GoSquare.C07
