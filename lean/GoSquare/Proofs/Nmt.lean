import GoSquare.Model.Nmt
/-! Structural half of C05: in the NMT root recursion (split at the largest power of two strictly
    below the length, as celestiaorg/nmt's `getSplitPoint`) over a row whose length is a power of
    two, every aligned power-of-two range is an inner node, and its value is the root of that range
    computed in isolation. Leaf, node and empty hashes are arbitrary. -/
namespace GoSquare.Nmt

theorem splitPoint_pow (k : Nat) : splitPoint (2 ^ (k + 1)) = 2 ^ k := by
  unfold splitPoint
  have : Nat.log2 (2 ^ (k + 1)) = k + 1 := Nat.log2_two_pow
  simp only [this, if_true]
  rw [Nat.pow_succ]; omega

variable {α D : Type} (leafH : α → D) (nodeH : D → D → D) (emptyH : D)

/-- `Inner l off size v`: while computing `rootWith … l`, the recursion visits the node that covers
    leaves `[off, off+size)` and its value is `v`. -/
inductive Inner : List α → Nat → Nat → D → Prop
  | top (l : List α) : Inner l 0 l.length (rootWith leafH nodeH emptyH l)
  | left {l : List α} {off size : Nat} {v : D} : 2 ≤ l.length →
      Inner (l.take (splitPoint l.length)) off size v → Inner l off size v
  | right {l : List α} {off size : Nat} {v : D} : 2 ≤ l.length →
      Inner (l.drop (splitPoint l.length)) off size v → Inner l (splitPoint l.length + off) size v

theorem dvd_two_pow_of_le {j k : Nat} (h : j ≤ k) : 2 ^ j ∣ 2 ^ k := by
  obtain ⟨d, rfl⟩ := Nat.exists_eq_add_of_le h
  exact ⟨2 ^ d, by rw [Nat.pow_add]⟩

theorem aligned_inner (k : Nat) : ∀ (l : List α) (off j : Nat), l.length = 2 ^ k → j ≤ k →
    2 ^ j ∣ off → off + 2 ^ j ≤ l.length →
    Inner leafH nodeH emptyH l off (2 ^ j) (rootWith leafH nodeH emptyH ((l.drop off).take (2 ^ j))) := by
  induction k with
  | zero =>
    intro l off j hl hj hdvd hfit
    have hj0 : j = 0 := by omega
    subst hj0
    have hoff : off = 0 := by simp at hl hfit; omega
    subst hoff
    have : (l.drop 0).take (2 ^ 0) = l := by simp [List.take_of_length_le, hl]
    rw [this]
    have h1 : 2 ^ 0 = l.length := by simp [hl]
    rw [h1]; exact Inner.top l
  | succ k ih =>
    intro l off j hl hj hdvd hfit
    by_cases hjk : j = k + 1
    · subst hjk
      have hoff : off = 0 := by omega
      subst hoff
      have : (l.drop 0).take (2 ^ (k + 1)) = l := by simp [List.take_of_length_le, hl]
      rw [this, ← hl]; exact Inner.top l
    · have hj' : j ≤ k := by omega
      have hsp : splitPoint l.length = 2 ^ k := by rw [hl, splitPoint_pow]
      have h2 : 2 ≤ l.length := by
        rw [hl, Nat.pow_succ]; have := Nat.pow_pos (n := k) (show 0 < 2 by omega); omega
      have hhalf : 2 ^ j ∣ 2 ^ k := dvd_two_pow_of_le hj'
      have hlen2 : l.length = 2 ^ k + 2 ^ k := by rw [hl, Nat.pow_succ]; omega
      obtain ⟨a, ha⟩ := hdvd
      obtain ⟨b, hb⟩ := hhalf
      have hpj : 0 < 2 ^ j := Nat.pow_pos (by omega)
      by_cases hlt : off < 2 ^ k
      · -- the range lies in the left half
        have hfit' : off + 2 ^ j ≤ 2 ^ k := by
          rw [ha, hb] at *
          have : a < b := Nat.lt_of_mul_lt_mul_left hlt
          calc 2 ^ j * a + 2 ^ j = 2 ^ j * (a + 1) := by rw [Nat.mul_add, Nat.mul_one]
            _ ≤ 2 ^ j * b := Nat.mul_le_mul_left _ this
        have hlenL : (l.take (2 ^ k)).length = 2 ^ k := by simp [List.length_take]; omega
        have := ih (l.take (2 ^ k)) off j hlenL hj' ⟨a, ha⟩ (by omega)
        have heq : ((l.take (2 ^ k)).drop off).take (2 ^ j) = (l.drop off).take (2 ^ j) := by
          rw [List.drop_take, List.take_take]
          congr 1; omega
        rw [heq] at this
        exact Inner.left h2 (hsp ▸ this)
      · -- the range lies in the right half
        have hge : 2 ^ k ≤ off := by omega
        have hdvd' : 2 ^ j ∣ off - 2 ^ k := by
          refine ⟨a - b, ?_⟩
          rw [Nat.mul_sub, ← ha, ← hb]
        have hlenR : (l.drop (2 ^ k)).length = 2 ^ k := by simp [List.length_drop]; omega
        have := ih (l.drop (2 ^ k)) (off - 2 ^ k) j hlenR hj' hdvd' (by omega)
        have heq : ((l.drop (2 ^ k)).drop (off - 2 ^ k)) = l.drop off := by
          rw [List.drop_drop]; congr 1; omega
        rw [heq] at this
        rw [← hsp] at this
        have key := Inner.right h2 this
        have hoffeq : splitPoint l.length + (off - splitPoint l.length) = off := by rw [hsp]; omega
        rw [hoffeq] at key
        exact key

end GoSquare.Nmt
