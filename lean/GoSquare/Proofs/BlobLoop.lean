import GoSquare.Properties.C08
import GoSquare.Proofs.Builder
/-! The blob loop of `Export` in closed form: the shares it writes, the indexes it records. -/
namespace GoSquare
open Builder Spec

/-- padding written after a blob takes the blob's namespace and share version -/
theorem sparseWritePadding_after (X : List Bytes) (p : Blob) (hp : p.BlobValid) (k : Nat) :
    sparseWritePadding (X ++ sparseSeq p) k = .ok (X ++ sparseSeq p ++ List.replicate k (paddingShare p.ns p.ver)) := by
  have hne : sparseSeq p ≠ [] := by simp [sparseSeq]
  unfold sparseWritePadding
  by_cases hk : k = 0
  · simp [hk]
  · simp only [hk, if_false]
    have hlast : (X ++ sparseSeq p).getLast? = some ((sparseSeq p).getLast hne) := by
      rw [List.getLast?_append, List.getLast?_eq_some_getLast hne]; rfl
    have hmem : (sparseSeq p).getLast hne ∈ sparseSeq p := List.getLast_mem hne
    rw [hlast]
    simp only [(sparseSeq_shares p hp.valid _ hmem).2, sparseSeq_version p hp _ hmem]
    rw [namespacePaddingShares_eq_spec _ _ _ hp.valid.nsLen (by have := hp.valid.ver; omega) hp.valid.notCompact]
    rfl

/-- start index of every blob, in write order, from cursor `cur` -/
def placeIdx (thr : Nat) : Nat → List Element → List Nat
  | _, [] => []
  | cur, e :: es =>
    nextShareIndex cur e.numShares thr :: placeIdx thr (nextShareIndex cur e.numShares thr + e.numShares) es

def endCursor (thr : Nat) : Nat → List Element → Nat
  | cur, [] => cur
  | cur, e :: es => endCursor thr (nextShareIndex cur e.numShares thr + e.numShares) es

/-- the shares of the blob region: before every blob but the first, padding in the namespace and
    share version of the preceding blob up to the aligned start index; then the blob's shares -/
def region (thr : Nat) : Nat → Option Blob → List Element → List Bytes
  | _, _, [] => []
  | cur, prev, e :: es =>
    (match prev with
      | some p => List.replicate (nextShareIndex cur e.numShares thr - cur) (paddingShare p.ns p.ver)
      | none => []) ++
    sparseSeq e.blob ++ region thr (nextShareIndex cur e.numShares thr + e.numShares) (some e.blob) es

def patchOne (pfbs : List Proto.IndexWrapper) (e : Element) (idx : Nat) : List Proto.IndexWrapper :=
  pfbs.modify e.pfbIndex (fun iw => { iw with shareIndexes := iw.shareIndexes.set e.blobIndex (u32 idx) })

/-- the wrapped PFBs after every blob's start index has been recorded -/
def patchAll (thr : Nat) : Nat → List Element → List Proto.IndexWrapper → List Proto.IndexWrapper
  | _, [], p => p
  | cur, e :: es, p =>
    patchAll thr (nextShareIndex cur e.numShares thr + e.numShares) es (patchOne p e (nextShareIndex cur e.numShares thr))

/-- an element as `newElement` creates it from a blob-valid blob -/
def EOK (e : Element) : Prop := e.blob.BlobValid ∧ e.numShares = (sparseSeq e.blob).length

theorem patchOne_length (p : List Proto.IndexWrapper) (e : Element) (idx : Nat) : (patchOne p e idx).length = p.length := by
  simp [patchOne]

/-- **the blob loop in closed form** -/
theorem blobLoop_spec (thr : Nat) : ∀ (es : List Element) (i : Nat) (st st' : BlobLoopState) (prev : Option Blob),
    (∀ e ∈ es, EOK e) → st.cursor = st.endOfLastBlob →
    ((i = 0 ∧ prev = none ∧ st.shares = []) ∨
     (0 < i ∧ ∃ p X, prev = some p ∧ p.BlobValid ∧ st.shares = X ++ sparseSeq p)) →
    blobLoop thr es i st = .ok st' →
    st'.shares = st.shares ++ region thr st.cursor prev es ∧
    st'.pfbs = patchAll thr st.cursor es st.pfbs ∧
    st'.cursor = endCursor thr st.cursor es ∧ st'.endOfLastBlob = st'.cursor ∧
    st'.nonReservedStart = (if i = 0 then (match es with
        | [] => st.nonReservedStart
        | e :: _ => nextShareIndex st.cursor e.numShares thr) else st.nonReservedStart)
  | [], i, st, st', prev, _, hce, _, h => by
    simp only [blobLoop, Except.ok.injEq] at h
    subst h
    refine ⟨by simp [region], rfl, rfl, hce.symm, by split <;> rfl⟩
  | e :: rest, i, st, st', prev, hok, hce, hprev, h => by
    obtain ⟨hbv, hns⟩ := hok e (by simp)
    rw [blobLoop] at h
    simp only [bind, Except.bind, throw, throwThe, MonadExceptOf.throw, pure, Except.pure] at h
    split at h
    · cases h
    · split at h
      · cases h
      · rcases hprev with ⟨hi0, hpn, hsh⟩ | ⟨hipos, p, X, hpn, hpv, hsh⟩
        · -- the first blob: no padding
          subst hi0
          simp only [Nat.lt_irrefl, if_false, hsh, sparseWrite_eq_spec [] e.blob hbv.valid, List.nil_append, if_true,
            show ¬ (0 > 0) by omega] at h
          obtain ⟨r1, r2, r3, r4, r5⟩ := blobLoop_spec thr rest 1 _ st' (some e.blob)
            (fun x hx => hok x (by simp [hx])) rfl
            (Or.inr ⟨by omega, e.blob, [], rfl, hbv, by simp⟩) h
          simp only at r1 r2 r3 r5
          refine ⟨?_, ?_, ?_, r4, ?_⟩
          · rw [r1, hsh, hpn]; simp [region]
          · rw [r2]; rfl
          · rw [r3]; rfl
          · rw [r5]; simp
        · -- a later blob: padding in the namespace of the previous one
          have hi : i > 0 := hipos
          have hne : ¬ i = 0 := by omega
          simp only [hi, if_true, hne, if_false, hsh] at h
          rw [← hce, sparseWritePadding_after X p hpv] at h
          simp only [sparseWrite_eq_spec _ e.blob hbv.valid] at h
          obtain ⟨r1, r2, r3, r4, r5⟩ := blobLoop_spec thr rest (i + 1) _ st' (some e.blob)
            (fun x hx => hok x (by simp [hx])) rfl
            (Or.inr ⟨by omega, e.blob, X ++ sparseSeq p ++ List.replicate (nextShareIndex st.cursor e.numShares thr - st.cursor)
              (paddingShare p.ns p.ver), rfl, hbv, rfl⟩) h
          simp only at r1 r2 r3 r5
          have hne1 : ¬ i + 1 = 0 := by omega
          refine ⟨?_, ?_, ?_, r4, ?_⟩
          · rw [r1, hsh, hpn]; simp [region, List.append_assoc]
          · rw [r2]; rfl
          · rw [r3]; rfl
          · rw [r5]; simp [hne, hne1]

end GoSquare
