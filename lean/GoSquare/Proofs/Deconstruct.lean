import GoSquare.Properties.C08
import GoSquare.Properties.C19
import GoSquare.Model.Builder
/-! The loops of `Deconstruct` on a square in which every blob sits verbatim at its recorded index. -/
namespace GoSquare
open Builder Spec

theorem parseBlobs_single (b : Blob) (hb : b.BlobValid) : parseBlobs (sparseSeq b) = .ok [b] := by
  have := C08.roundtrip [(b, 0)] 0 0 (by intro e he; simp at he; subst he; exact hb)
  simpa [C08.layout, parseBlobs] using this

/-- a blob sits verbatim at index `idx` of `s` -/
def BlobAt (s : List Bytes) (idx : Nat) (b : Blob) : Prop :=
  idx + (sparseSeq b).length ≤ s.length ∧ (s.drop idx).take (sparseSeq b).length = sparseSeq b

/-- re-reading the blobs of one wrapped PFB: each blob sits verbatim at its recorded index, and
    the declared sizes are the blob sizes -/
theorem deconstructBlobs_spec (s : List Bytes) : ∀ (idxs : List Nat) (blobs : List Blob),
    idxs.length = blobs.length → (∀ b ∈ blobs, b.BlobValid) →
    (∀ (j idx : Nat) (b : Blob), idxs[j]? = some idx → blobs[j]? = some b → BlobAt s idx b) →
    deconstructBlobs s idxs (blobs.map (·.data.length)) = .ok blobs
  | [], [], _, _, _ => rfl
  | [], _ :: _, h, _, _ => by simp at h
  | _ :: _, [], h, _, _ => by simp at h
  | idx :: idxs, b :: blobs, hl, hv, hat => by
    have hb := hv b (by simp)
    obtain ⟨hle, heq⟩ := hat 0 idx b rfl rfl
    have hne : sparseSeq b ≠ [] := by simp [sparseSeq]
    have hpos : 0 < (sparseSeq b).length := List.length_pos_iff.mpr hne
    -- the first share of the blob is the share at the recorded index
    have hfirst : s.getD idx [] ∈ sparseSeq b := by
      have h1 : idx < s.length := by omega
      rw [List.getD_eq_getElem?_getD, List.getElem?_eq_getElem h1, Option.getD_some]
      have hm : s[idx] ∈ (s.drop idx).take (sparseSeq b).length := by
        rw [List.mem_iff_getElem]
        refine ⟨0, by simp only [List.length_take, List.length_drop]; omega, by simp⟩
      rw [heq] at hm
      exact hm
    have hver : Share.version (s.getD idx []) = b.ver := sparseSeq_version b hb _ hfirst
    have hcount : sparseSharesNeededWithSigner b.data.length (Share.version (s.getD idx []) == 1) = (sparseSeq b).length := by
      rw [hver]; exact (sparseSeq_length b hb.valid).symm
    rw [List.map_cons, deconstructBlobs]
    simp only [bind, Except.bind, throw, throwThe, MonadExceptOf.throw, hcount]
    rw [if_neg (by omega), if_neg (by omega)]
    have hslice : slice s idx (idx + (sparseSeq b).length) = .ok (sparseSeq b) := by
      unfold slice
      rw [if_pos ⟨by omega, by omega⟩]
      simp only [Nat.add_sub_cancel_left]
      rw [heq]
    rw [hslice]
    simp only [parseBlobs_single b hb]
    rw [deconstructBlobs_spec s idxs blobs (by simpa using hl) (fun x hx => hv x (by simp [hx]))
      (fun j i x h1 h2 => hat (j + 1) i x (by simpa using h1) (by simpa using h2))]

/-- one kept blob transaction as `Deconstruct` sees it -/
structure PfbOK (s : List Bytes) (pfbDec : Bytes → Res (List Nat)) (iw : Proto.IndexWrapper) (blobs : List Blob)
    (raw : Bytes) : Prop where
  unwrap : unmarshalIndexWrapper iw.marshal = some iw
  nonEmpty : iw.shareIndexes.length ≠ 0
  len : iw.shareIndexes.length = blobs.length
  sizes : pfbDec iw.tx = .ok (blobs.map (·.data.length))
  valid : ∀ b ∈ blobs, b.BlobValid
  blobAt : ∀ (j idx : Nat) (b : Blob), iw.shareIndexes[j]? = some idx → blobs[j]? = some b → BlobAt s idx b
  marshal : marshalBlobTx iw.tx blobs = some raw

/-- the wrapped-PFB loop of `Deconstruct` -/
theorem deconstructPfbs_spec (s : List Bytes) (pfbDec : Bytes → Res (List Nat)) :
    ∀ (ws : List (Proto.IndexWrapper × List Blob × Bytes)),
    (∀ w ∈ ws, PfbOK s pfbDec w.1 w.2.1 w.2.2) →
    deconstructPfbs s pfbDec (ws.map (·.1.marshal)) = .ok (ws.map (·.2.2))
  | [], _ => rfl
  | w :: ws, h => by
    have hw := h w (by simp)
    rw [List.map_cons, deconstructPfbs, hw.unwrap]
    simp only [bind, Except.bind, throw, throwThe, MonadExceptOf.throw, hw.sizes]
    rw [if_neg hw.nonEmpty, if_neg (by simp [hw.len])]
    simp only [deconstructBlobs_spec s w.1.shareIndexes w.2.1 hw.len hw.valid hw.blobAt, hw.marshal,
      deconstructPfbs_spec s pfbDec ws (fun x hx => h x (by simp [hx])), List.map_cons]

end GoSquare
