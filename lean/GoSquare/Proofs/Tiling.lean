import GoSquare.Proofs.SquareWF
import GoSquare.Proofs.BuildSquare
import GoSquare.Properties.C09
import GoSquare.Properties.C10
/-! C20 (second half): sequence parsing (`ParseShares`) tiles every constructed square exactly.

A *block* is a non-empty list of shares forming one sequence: the first share is a sequence start,
the others are continuation shares of the same namespace, and the length the first share declares
is consistent with the number of shares (`IsSeq`). `parseShares` of any concatenation of blocks
returns exactly the blocks, in order (`parseShares_blocks`): consecutive, exhaustive, one
namespace each. The specified compact sequence, the specified blob sequence and the padding share
are blocks; the square `squareOf` is a concatenation of such blocks (`squareBlocks`), and with
padding ignored what remains is the transaction sequence, the pay-for-blob sequence and one
sequence per blob in write order (`parseShares_squareOf`). -/
namespace GoSquare.Tiling
open GoSquare Builder Spec

/-- the sequence record `ParseShares` builds for a block: the namespace of its first share -/
def seqOf (blk : List Bytes) : Sequence := { ns := Share.ns (blk.headD []), shares := blk }

/-- `blk` is one sequence: a sequence-start share followed by continuation shares of the same
    namespace, the declared length consistent with the number of shares -/
structure IsSeq (blk : List Bytes) : Prop where
  shape : ∃ s rest, blk = s :: rest ∧ Share.isSequenceStart s = true ∧
    ∀ c ∈ rest, Share.isSequenceStart c = false ∧ Share.ns c = Share.ns s
  valid : (seqOf blk).validSequenceLen = true

/-- Go: `if len(currentSequence.Shares) > 0 { sequences = append(sequences, currentSequence) }` -/
def push (seqs : List Sequence) (cur : Sequence) : List Sequence :=
  if cur.shares.length > 0 then seqs ++ [cur] else seqs

theorem loop_conts : ∀ (rest more : List Bytes) (seqs : List Sequence) (cur : Sequence),
    (∀ c ∈ rest, Share.isSequenceStart c = false ∧ Share.ns c = cur.ns) →
    parseSharesLoop (rest ++ more) seqs cur = parseSharesLoop more seqs { cur with shares := cur.shares ++ rest }
  | [], more, seqs, cur, _ => by simp
  | c :: cs, more, seqs, cur, h => by
    obtain ⟨h1, h2⟩ := h c (by simp)
    simp only [List.cons_append, parseSharesLoop, h1, Bool.false_eq_true, if_false, h2, bne_self_eq_false]
    rw [loop_conts cs more seqs { ns := cur.ns, shares := cur.shares ++ [c] } (fun x hx => h x (by simp [hx]))]
    simp [List.append_assoc]

theorem loop_block (blk more : List Bytes) (seqs : List Sequence) (cur : Sequence) (h : IsSeq blk) :
    parseSharesLoop (blk ++ more) seqs cur = parseSharesLoop more (push seqs cur) (seqOf blk) := by
  obtain ⟨s, rest, rfl, hs, hc⟩ := h.shape
  simp only [List.cons_append, parseSharesLoop, hs, if_true]
  rw [loop_conts rest more _ _ hc]
  rfl

theorem seqOf_push (seqs : List Sequence) (blk : List Bytes) (h : IsSeq blk) :
    push seqs (seqOf blk) = seqs ++ [seqOf blk] := by
  obtain ⟨s, rest, rfl, _, _⟩ := h.shape
  simp [push, seqOf]

theorem loop_blocks : ∀ (blocks : List (List Bytes)) (seqs : List Sequence) (cur : Sequence),
    (∀ blk ∈ blocks, IsSeq blk) →
    ∃ p, parseSharesLoop blocks.flatten seqs cur = .ok p ∧ push p.1 p.2 = push seqs cur ++ blocks.map seqOf
  | [], seqs, cur, _ => ⟨(seqs, cur), by simp [parseSharesLoop], by simp⟩
  | blk :: bs, seqs, cur, h => by
    have hb := h blk (by simp)
    obtain ⟨p, hp, hq⟩ := loop_blocks bs (push seqs cur) (seqOf blk) (fun x hx => h x (by simp [hx]))
    refine ⟨p, ?_, ?_⟩
    · rw [List.flatten_cons, loop_block blk _ seqs cur hb]; exact hp
    · rw [hq, seqOf_push _ _ hb]; simp [List.append_assoc]

/-- **tiling.** `ParseShares` of a concatenation of blocks returns exactly the blocks, in order
    (minus the padding blocks when `ignorePadding`). -/
theorem parseShares_blocks (blocks : List (List Bytes)) (ignorePadding : Bool) (h : ∀ blk ∈ blocks, IsSeq blk) :
    parseShares blocks.flatten ignorePadding =
      .ok ((blocks.map seqOf).filter (fun q => !(ignorePadding && q.isPadding))) := by
  obtain ⟨p, hp, hq⟩ := loop_blocks blocks [] { ns := [], shares := [] } h
  have hq' : push p.1 p.2 = blocks.map seqOf := by rw [hq]; simp [push]
  have hvalid : ((blocks.map seqOf).any (fun q => !q.validSequenceLen)) = false := by
    rw [List.any_eq_false]
    intro q hqm
    obtain ⟨blk, hblk, rfl⟩ := List.mem_map.mp hqm
    simp [(h blk hblk).valid]
  unfold parseShares
  rw [hp]
  obtain ⟨seqs, cur⟩ := p
  simp only [res_bind_ok]
  rw [show (if cur.shares.length > 0 then seqs ++ [cur] else seqs) = blocks.map seqOf from hq', hvalid]
  rfl

/-- the same, on sequence records: if every record is a block and carries the namespace of its
    first share, `ParseShares` of the concatenated shares returns exactly the records -/
theorem parseShares_seqs (qs : List Sequence) (ignorePadding : Bool)
    (h : ∀ q ∈ qs, IsSeq q.shares ∧ seqOf q.shares = q) :
    parseShares (qs.map (·.shares)).flatten ignorePadding =
      .ok (qs.filter (fun q => !(ignorePadding && q.isPadding))) := by
  rw [parseShares_blocks _ _ (by
    intro blk hblk
    obtain ⟨q, hq, rfl⟩ := List.mem_map.mp hblk
    exact (h q hq).1)]
  have : (qs.map (·.shares)).map seqOf = qs := by
    rw [List.map_map]
    have : qs.map (seqOf ∘ fun q => q.shares) = qs.map id :=
      List.map_congr_left (fun q hq => (h q hq).2)
    rw [this, List.map_id]
  rw [this]

/-! ### padding shares -/

def padSeq (ns : Bytes) (ver : Nat) : Sequence := { ns := ns, shares := [paddingShare ns ver] }

theorem paddingShare_start (ns : Bytes) (ver : Nat) (hns : ns.length = 29) (hv : ver ≤ 127) :
    Share.isSequenceStart (paddingShare ns ver) = true := by
  have hform : paddingShare ns ver = ns ++ infoByte ver true :: (be32 0 ++ zeros 478) := by
    have e : 512 - (ns ++ [infoByte ver true] ++ be32 0).length = 478 := by
      simp only [List.length_append, List.length_cons, List.length_nil, hns, be32_length]
    simp only [paddingShare, fill]; rw [e]; simp only [List.append_assoc, List.cons_append, List.nil_append]
  rw [hform]
  exact (decoded_of_cons ns ver true _ hns hv).start

theorem padSeq_isPadding (ns : Bytes) (ver : Nat) (hns : ns.length = 29) (hv : ver = 0 ∨ ver = 1) :
    (padSeq ns ver).isPadding = true := by
  simp [padSeq, Sequence.isPadding, C10.accessors_on_padding ns ver hns hv]

/-- a padding share is a sequence of its own (declared length 0), and a padding sequence -/
theorem padSeq_good (ns : Bytes) (ver : Nat) (hns : ns.length = 29) (hv : ver = 0 ∨ ver = 1) :
    IsSeq (padSeq ns ver).shares ∧ seqOf (padSeq ns ver).shares = padSeq ns ver := by
  have hseq : seqOf (padSeq ns ver).shares = padSeq ns ver := by
    simp [seqOf, padSeq, (paddingShare_wf ns ver hns).2]
  refine ⟨⟨⟨paddingShare ns ver, [], rfl, paddingShare_start ns ver hns (by omega), by simp⟩, ?_⟩, hseq⟩
  rw [hseq]
  have := padSeq_isPadding ns ver hns hv
  simp only [Sequence.validSequenceLen, padSeq] at this ⊢
  simp [this]

theorem isSeq_padding (ns : Bytes) (ver : Nat) (hns : ns.length = 29) (hv : ver = 0 ∨ ver = 1) :
    IsSeq [paddingShare ns ver] := (padSeq_good ns ver hns hv).1

/-! ### blob sequences -/

def blobSeq (b : Blob) : Sequence := { ns := b.ns, shares := sparseSeq b }

/-- the first specified share of a blob -/
def sparseFirst (b : Blob) : Bytes :=
  fill (b.ns ++ [infoByte b.ver true] ++ be32 b.data.length ++ (if b.ver = 1 then b.signer.getD [] else []) ++
    b.data.take (478 - (if b.ver = 1 then b.signer.getD [] else ([] : Bytes)).length))

/-- the continuation shares -/
def sparseRest (b : Blob) : List Bytes :=
  (chunksOf 482 (b.data.drop (478 - (if b.ver = 1 then b.signer.getD [] else ([] : Bytes)).length))).map
    (fun c => fill (b.ns ++ [infoByte b.ver false] ++ c))

theorem sparseSeq_cons (b : Blob) : sparseSeq b = sparseFirst b :: sparseRest b := rfl

theorem sparseFirst_acc (b : Blob) (hb : b.BlobValid) :
    Share.ns (sparseFirst b) = b.ns ∧ Share.version (sparseFirst b) = b.ver ∧
    Share.isSequenceStart (sparseFirst b) = true ∧ Share.sequenceLen (sparseFirst b) = b.data.length ∧
    Share.isPadding (sparseFirst b) = false := by
  obtain ⟨⟨f1, f2, f3, f4, _, f6, _⟩, _⟩ := C10.accessors_on_blob_shares b hb
  exact ⟨f1, f2, f3, f4, f6⟩

theorem sparseRest_acc (b : Blob) (hb : b.BlobValid) :
    ∀ c ∈ sparseRest b, Share.isSequenceStart c = false ∧ Share.ns c = b.ns := by
  intro c hc
  have hns := (sparseSeq_shares b hb.valid c (by rw [sparseSeq_cons]; simp [hc])).2
  obtain ⟨ch, hch, rfl⟩ := List.mem_map.mp hc
  exact ⟨((C10.accessors_on_blob_shares b hb).2 ch (chunksOf_le 482 _ ch hch)).1, hns⟩

theorem blobSeq_not_padding (b : Blob) (hb : b.BlobValid) : (blobSeq b).isPadding = false := by
  simp only [blobSeq, Sequence.isPadding, sparseSeq_cons]
  split
  · rename_i s heq
    simp only [List.cons.injEq] at heq
    rw [← heq.1]; exact (sparseFirst_acc b hb).2.2.2.2
  · rfl

/-- the specified shares of a valid blob form one sequence: namespace `b.ns`, declared length
    `|b.data|`, exactly `SparseSharesNeeded` of it shares -/
theorem blobSeq_good (b : Blob) (hb : b.BlobValid) :
    IsSeq (blobSeq b).shares ∧ seqOf (blobSeq b).shares = blobSeq b := by
  obtain ⟨f1, f2, f3, f4, f5⟩ := sparseFirst_acc b hb
  have hseq : seqOf (blobSeq b).shares = blobSeq b := by
    simp [seqOf, blobSeq, sparseSeq_cons, f1]
  refine ⟨⟨⟨sparseFirst b, sparseRest b, rfl, f3, ?_⟩, ?_⟩, hseq⟩
  · intro c hc
    obtain ⟨h1, h2⟩ := sparseRest_acc b hb c hc
    exact ⟨h1, by rw [h2, f1]⟩
  · rw [hseq]
    have hlen := sparseSeq_length b hb.valid
    have hnc : Share.isCompactShare (sparseFirst b) = false := by
      rw [isCompactShare_eq, f1]; exact hb.valid.notCompact
    simp only [Sequence.validSequenceLen, blobSeq, sparseSeq_cons] at hlen ⊢
    simp [numberOfSharesNeeded, hnc, f2, f4, hlen]

theorem isSeq_sparse (b : Blob) (hb : b.BlobValid) : IsSeq (sparseSeq b) := (blobSeq_good b hb).1

/-! ### compact sequences -/

def compactSeqRec (ns : Bytes) (units : List Bytes) : Sequence := { ns := ns, shares := compactSeq ns units }

theorem compactSeq_nil (ns : Bytes) : compactSeq ns [] = [] := rfl

theorem unitStream_pos (units : List Bytes) (hne : units ≠ []) : 0 < (unitStream units).length := by
  cases units with
  | nil => exact absurd rfl hne
  | cons u us =>
    have := uvarintLen_pos u.length
    simp [unitStream, uvarint_length]; omega

/-- the specified compact sequence as first share and continuation shares -/
theorem compactSeq_cons (ns : Bytes) (units : List Bytes) (hne : units ≠ []) :
    ∃ m, compactSeq ns units = specShare ns (unitStream units) (unitStarts 0 units) 0 ::
      (List.range m).map (fun j => specShare ns (unitStream units) (unitStarts 0 units) (j + 1)) := by
  have hpos := C09.compactCount_pos (unitStream_pos units hne)
  obtain ⟨m, hm⟩ : ∃ m, compactCount (unitStream units).length = m + 1 :=
    ⟨compactCount (unitStream units).length - 1, by omega⟩
  refine ⟨m, ?_⟩
  rw [compactSeq_eq, hm, List.range_succ_eq_map, List.map_cons, List.map_map]
  rfl

theorem compactNs_cases (ns : Bytes) (hc : CompactNs ns) : ns = txNamespace ∨ ns = payForBlobNamespace := by
  have := hc.compact
  simp only [isCompactNs, Ns.isTx, Ns.isPayForBlob, Ns.equals, Bool.or_eq_true, beq_iff_eq] at this
  exact this

theorem compactNs_not_padding (ns : Bytes) (hc : CompactNs ns) :
    Ns.isTailPadding ns = false ∧ Ns.isPrimaryReservedPadding ns = false := by
  rcases compactNs_cases ns hc with rfl | rfl <;> exact ⟨by decide, by decide⟩

theorem compactFirst_acc (ns : Bytes) (hc : CompactNs ns) (units : List Bytes)
    (hlt : (unitStream units).length < 4294967296) :
    Share.ns (specShare ns (unitStream units) (unitStarts 0 units) 0) = ns ∧
    Share.isSequenceStart (specShare ns (unitStream units) (unitStarts 0 units) 0) = true ∧
    Share.sequenceLen (specShare ns (unitStream units) (unitStarts 0 units) 0) = (unitStream units).length := by
  have hform := specShare_form0 ns (unitStream units) (unitStarts 0 units) hc.len
  obtain ⟨d1, _, d3⟩ := decoded_of_cons ns 0 true
    (be32 (unitStream units).length ++ (be32 (resOf (unitStarts 0 units) 0) ++ compactPayload (unitStream units) 0))
    hc.len (by omega)
  rw [← hform] at d1 d3
  refine ⟨d1, d3, ?_⟩
  obtain ⟨_, _, _, hsl⟩ := first_compact_accessors ns (be32 (unitStream units).length) (compactPayload _ 0)
    (resOf (unitStarts 0 units) 0) hc (by simp) (by rw [compactPayload_length]; rfl) (resOf_lt _ 0) _ hform
  rw [hsl]; exact readBe32_be32 _ hlt _

theorem compactCont_acc (ns : Bytes) (hc : CompactNs ns) (D : Bytes) (S : List Nat) (j : Nat) (hj : j ≠ 0) :
    Share.ns (specShare ns D S j) = ns ∧ Share.isSequenceStart (specShare ns D S j) = false := by
  rw [specShare_formJ ns D S j hj hc.len]
  obtain ⟨d1, _, d3⟩ := decoded_of_cons ns 0 false (be32 (resOf S j) ++ compactPayload D j) hc.len (by omega)
  exact ⟨d1, d3⟩

/-- a non-empty compact sequence is not a padding sequence -/
theorem compactSeqRec_not_padding (ns : Bytes) (hc : CompactNs ns) (units : List Bytes) (hne : units ≠ [])
    (hlt : (unitStream units).length < 4294967296) : (compactSeqRec ns units).isPadding = false := by
  obtain ⟨m, hm⟩ := compactSeq_cons ns units hne
  obtain ⟨a1, a2, a3⟩ := compactFirst_acc ns hc units hlt
  obtain ⟨n1, n2⟩ := compactNs_not_padding ns hc
  have hpos := unitStream_pos units hne
  simp only [compactSeqRec, Sequence.isPadding, hm]
  split
  · rename_i s heq
    simp only [List.cons.injEq] at heq
    rw [← heq.1]
    have : ¬ (unitStream units).length = 0 := by omega
    simp [Share.isPadding, Share.isNamespacePadding, a1, a2, a3, n1, n2, this]
  · rfl

/-- the specified compact sequence of a non-empty list of units is one sequence: namespace `ns`,
    declared length = the stream length, exactly `CompactSharesNeeded` of it shares -/
theorem compactSeqRec_good (ns : Bytes) (hc : CompactNs ns) (units : List Bytes) (hne : units ≠ [])
    (hlt : (unitStream units).length < 4294967296) :
    IsSeq (compactSeqRec ns units).shares ∧ seqOf (compactSeqRec ns units).shares = compactSeqRec ns units := by
  obtain ⟨m, hm⟩ := compactSeq_cons ns units hne
  obtain ⟨a1, a2, a3⟩ := compactFirst_acc ns hc units hlt
  have hseq : seqOf (compactSeqRec ns units).shares = compactSeqRec ns units := by
    simp [seqOf, compactSeqRec, hm, a1]
  refine ⟨⟨⟨_, _, hm, a2, ?_⟩, ?_⟩, hseq⟩
  · intro c hcm
    obtain ⟨j, _, rfl⟩ := List.mem_map.mp hcm
    obtain ⟨b1, b2⟩ := compactCont_acc ns hc (unitStream units) (unitStarts 0 units) (j + 1) (by omega)
    exact ⟨b2, by rw [b1, a1]⟩
  · rw [hseq]
    have hlen := (C09.seqLen_and_minimal ns hc units hne hlt).1
    have hcs : Share.isCompactShare (specShare ns (unitStream units) (unitStarts 0 units) 0) = true := by
      rw [isCompactShare_eq, a1]; exact hc.compact
    simp only [Sequence.validSequenceLen, compactSeqRec, hm] at hlen ⊢
    simp [numberOfSharesNeeded, hcs, a3, hlen]

theorem isSeq_compact (ns : Bytes) (hc : CompactNs ns) (units : List Bytes) (hne : units ≠ [])
    (hlt : (unitStream units).length < 4294967296) : IsSeq (compactSeq ns units) :=
  (compactSeqRec_good ns hc units hne hlt).1

/-! ### the blob region and the square -/

/-- a record that is a block carrying the namespace of its first share -/
def Good (q : Sequence) : Prop := IsSeq q.shares ∧ seqOf q.shares = q

/-- the sequences of the blob region: before every blob but the first, one padding sequence per
    padding share (namespace and share version of the preceding blob); then the blob's sequence -/
def regionSeqs (thr : Nat) : Nat → Option Blob → List Element → List Sequence
  | _, _, [] => []
  | cur, prev, e :: es =>
    (match prev with
      | some p => List.replicate (nextShareIndex cur e.numShares thr - cur) (padSeq p.ns p.ver)
      | none => []) ++
    [blobSeq e.blob] ++ regionSeqs thr (nextShareIndex cur e.numShares thr + e.numShares) (some e.blob) es

theorem regionSeqs_cons (thr cur : Nat) (prev : Option Blob) (e : Element) (es : List Element) :
    regionSeqs thr cur prev (e :: es) =
      (match prev with
        | some p => List.replicate (nextShareIndex cur e.numShares thr - cur) (padSeq p.ns p.ver)
        | none => []) ++
      [blobSeq e.blob] ++ regionSeqs thr (nextShareIndex cur e.numShares thr + e.numShares) (some e.blob) es := rfl

theorem regionSeqs_flatten (thr : Nat) : ∀ (es : List Element) (cur : Nat) (prev : Option Blob),
    ((regionSeqs thr cur prev es).map (·.shares)).flatten = region thr cur prev es
  | [], _, _ => rfl
  | e :: es, cur, prev => by
    rw [region_cons, regionSeqs_cons, List.map_append, List.map_append, List.flatten_append, List.flatten_append,
      regionSeqs_flatten thr es]
    cases prev with
    | none => simp [blobSeq]
    | some p => simp [blobSeq, padSeq]

theorem regionSeqs_good (thr : Nat) : ∀ (es : List Element) (cur : Nat) (prev : Option Blob),
    (∀ e ∈ es, e.blob.BlobValid) → (∀ p, prev = some p → p.BlobValid) →
    ∀ q ∈ regionSeqs thr cur prev es, Good q
  | [], _, _, _, _, q, hq => by simp [regionSeqs] at hq
  | e :: es, cur, prev, hv, hp, q, hq => by
    have hev := hv e (by simp)
    rw [regionSeqs_cons] at hq
    rcases List.mem_append.mp hq with hq | hq
    · rcases List.mem_append.mp hq with hq | hq
      · cases prev with
        | none => simp at hq
        | some p =>
          simp only at hq
          rw [(List.mem_replicate.mp hq).2]
          have hpv := hp p rfl
          exact padSeq_good p.ns p.ver hpv.valid.nsLen hpv.valid.ver
      · simp only [List.mem_singleton] at hq
        rw [hq]; exact blobSeq_good e.blob hev
    · exact regionSeqs_good thr es _ (some e.blob) (fun x hx => hv x (by simp [hx]))
        (fun p hpe => by cases hpe; exact hev) q hq

theorem regionSeqs_filter (thr : Nat) : ∀ (es : List Element) (cur : Nat) (prev : Option Blob),
    (∀ e ∈ es, e.blob.BlobValid) → (∀ p, prev = some p → p.BlobValid) →
    (regionSeqs thr cur prev es).filter (fun q => !q.isPadding) = es.map (fun e => blobSeq e.blob)
  | [], _, _, _, _ => rfl
  | e :: es, cur, prev, hv, hp => by
    have hev := hv e (by simp)
    rw [regionSeqs_cons, List.filter_append, List.filter_append,
      regionSeqs_filter thr es _ (some e.blob) (fun x hx => hv x (by simp [hx])) (fun p hpe => by cases hpe; exact hev)]
    have h1 : (match prev with
        | some p => List.replicate (nextShareIndex cur e.numShares thr - cur) (padSeq p.ns p.ver)
        | none => []).filter (fun q : Sequence => !q.isPadding) = [] := by
      cases prev with
      | none => rfl
      | some p =>
        have hpv := hp p rfl
        simp [padSeq_isPadding p.ns p.ver hpv.valid.nsLen hpv.valid.ver]
    rw [h1]
    simp [blobSeq_not_padding e.blob hev]

/-- **the sequences of the square `squareOf thr N B ss`**, in square order: the transaction
    sequence (if there are transactions), the pay-for-blob sequence (if there are blob
    transactions), one sequence per reserved padding share, the blob region, one sequence per tail
    padding share -/
def squareSeqs (thr : Nat) (N : List Bytes) (B : List BlobTx) (ss : Nat) : List Sequence :=
  let txS := compactSeq txNamespace N
  let pfbS := compactSeq payForBlobNamespace ((patched thr N B).map (·.marshal))
  let first := firstIdx thr (startOf N B) (sortedElems thr B)
  let reg := region thr (startOf N B) none (sortedElems thr B)
  (if N = [] then [] else [compactSeqRec txNamespace N]) ++
  (if B = [] then [] else [compactSeqRec payForBlobNamespace ((patched thr N B).map (·.marshal))]) ++
  List.replicate (first - (txS.length + pfbS.length)) (padSeq primaryReservedPaddingNamespace 0) ++
  regionSeqs thr (startOf N B) none (sortedElems thr B) ++
  List.replicate (ss * ss - (first + reg.length)) (padSeq tailPaddingNamespace 0)

theorem patchAll_length (thr : Nat) : ∀ (es : List Element) (cur : Nat) (P : List Proto.IndexWrapper),
    (patchAll thr cur es P).length = P.length
  | [], _, _ => rfl
  | e :: es, cur, P => by rw [patchAll, patchAll_length thr es, patchOne_length]

theorem patched_length (thr : Nat) (N : List Bytes) (B : List BlobTx) : (patched thr N B).length = B.length := by
  simp [patched, patchAll_length, worstWrappers]

theorem patched_units_eq_nil_iff (thr : Nat) (N : List Bytes) (B : List BlobTx) :
    (patched thr N B).map (·.marshal) = [] ↔ B = [] := by
  rw [← List.length_eq_zero_iff, List.length_map, patched_length, List.length_eq_zero_iff]

/-- **the sequences tile the square**: their shares, concatenated in order, are the square -/
theorem squareSeqs_tile (thr : Nat) (N : List Bytes) (B : List BlobTx) (ss : Nat) :
    ((squareSeqs thr N B ss).map (·.shares)).flatten = squareOf thr N B ss := by
  have h1 : ((if N = [] then [] else [compactSeqRec txNamespace N]).map (·.shares)).flatten = compactSeq txNamespace N := by
    by_cases hN : N = []
    · subst hN; rfl
    · simp [hN, compactSeqRec]
  have h2 : ((if B = [] then [] else [compactSeqRec payForBlobNamespace ((patched thr N B).map (·.marshal))]).map
      (·.shares)).flatten = compactSeq payForBlobNamespace ((patched thr N B).map (·.marshal)) := by
    by_cases hB : B = []
    · rw [(patched_units_eq_nil_iff thr N B).mpr hB]; simp [hB, compactSeq_nil]
    · simp [hB, compactSeqRec]
  have h3 : ∀ k ns, ((List.replicate k (padSeq ns 0)).map (·.shares)).flatten = List.replicate k (paddingShare ns 0) := by
    intro k ns; simp [padSeq]
  simp only [squareSeqs, squareOf, List.map_append, List.flatten_append, h1, h2, h3, regionSeqs_flatten]

theorem sortedElems_blobValid (thr : Nat) (B : List BlobTx) (hv : ∀ t ∈ B, ∀ bl ∈ t.blobs, bl.BlobValid) :
    ∀ e ∈ sortedElems thr B, e.blob.BlobValid := by
  intro e he
  obtain ⟨t, ht, hbl⟩ := sortedElems_mem thr B e he
  exact hv t ht _ hbl

/-- every sequence of the square is a block: one namespace (that of the record), a sequence start
    followed by continuation shares, declared length consistent with the number of shares -/
theorem squareSeqs_good (thr : Nat) (N : List Bytes) (B : List BlobTx) (ss : Nat)
    (hv : ∀ t ∈ B, ∀ bl ∈ t.blobs, bl.BlobValid)
    (hst1 : (unitStream N).length < 4294967296)
    (hst2 : (unitStream ((patched thr N B).map (·.marshal))).length < 4294967296) :
    ∀ q ∈ squareSeqs thr N B ss, Good q := by
  intro q hq
  simp only [squareSeqs, List.mem_append, List.mem_replicate] at hq
  rcases hq with (((hq | hq) | hq) | hq) | hq
  · by_cases hN : N = []
    · simp [hN] at hq
    · simp only [hN, if_false, List.mem_singleton] at hq
      rw [hq]; exact compactSeqRec_good _ compactNs_tx N hN hst1
  · by_cases hB : B = []
    · simp [hB] at hq
    · simp only [hB, if_false, List.mem_singleton] at hq
      rw [hq]
      exact compactSeqRec_good _ compactNs_pfb _ (fun h => hB ((patched_units_eq_nil_iff thr N B).mp h)) hst2
  · rw [hq.2]; exact padSeq_good _ 0 (by decide) (Or.inl rfl)
  · exact regionSeqs_good thr _ _ none (sortedElems_blobValid thr B hv) (fun p h => by cases h) q hq
  · rw [hq.2]; exact padSeq_good _ 0 (by decide) (Or.inl rfl)

/-- **C20 (sequence parsing, padding kept).** `ParseShares(square, false)` returns exactly the
    sequences of the square, in square order. -/
theorem parseShares_squareOf_all (thr : Nat) (N : List Bytes) (B : List BlobTx) (ss : Nat)
    (hv : ∀ t ∈ B, ∀ bl ∈ t.blobs, bl.BlobValid)
    (hst1 : (unitStream N).length < 4294967296)
    (hst2 : (unitStream ((patched thr N B).map (·.marshal))).length < 4294967296) :
    parseShares (squareOf thr N B ss) false = .ok (squareSeqs thr N B ss) := by
  rw [← squareSeqs_tile, parseShares_seqs _ false (squareSeqs_good thr N B ss hv hst1 hst2)]
  simp

/-- **C20 (sequence parsing, padding ignored).** `ParseShares(square, true)` returns exactly the
    transaction sequence, the pay-for-blob sequence and one sequence per blob in write order, whose
    shares are the blob's specified shares. -/
theorem parseShares_squareOf (thr : Nat) (N : List Bytes) (B : List BlobTx) (ss : Nat)
    (hv : ∀ t ∈ B, ∀ bl ∈ t.blobs, bl.BlobValid)
    (hst1 : (unitStream N).length < 4294967296)
    (hst2 : (unitStream ((patched thr N B).map (·.marshal))).length < 4294967296) :
    parseShares (squareOf thr N B ss) true = .ok
      ((if N = [] then [] else [{ ns := txNamespace, shares := compactSeq txNamespace N }]) ++
       (if B = [] then [] else
          [{ ns := payForBlobNamespace, shares := compactSeq payForBlobNamespace ((patched thr N B).map (·.marshal)) }]) ++
       (sortedElems thr B).map (fun e => { ns := e.blob.ns, shares := sparseSeq e.blob })) := by
  rw [← squareSeqs_tile, parseShares_seqs _ true (squareSeqs_good thr N B ss hv hst1 hst2)]
  have hpadR : (padSeq primaryReservedPaddingNamespace 0).isPadding = true := padSeq_isPadding _ 0 (by decide) (Or.inl rfl)
  have hpadT : (padSeq tailPaddingNamespace 0).isPadding = true := padSeq_isPadding _ 0 (by decide) (Or.inl rfl)
  have h1 : (if N = [] then [] else [compactSeqRec txNamespace N]).filter (fun q => !q.isPadding) =
      (if N = [] then [] else [compactSeqRec txNamespace N]) := by
    by_cases hN : N = []
    · simp [hN]
    · simp [hN, compactSeqRec_not_padding _ compactNs_tx N hN hst1]
  have h2 : (if B = [] then [] else [compactSeqRec payForBlobNamespace ((patched thr N B).map (·.marshal))]).filter
      (fun q => !q.isPadding) =
      (if B = [] then [] else [compactSeqRec payForBlobNamespace ((patched thr N B).map (·.marshal))]) := by
    by_cases hB : B = []
    · simp [hB]
    · simp [hB, compactSeqRec_not_padding _ compactNs_pfb _ (fun h => hB ((patched_units_eq_nil_iff thr N B).mp h)) hst2]
  simp only [Bool.true_and, squareSeqs, List.filter_append, h1, h2, List.filter_replicate, hpadR, hpadT,
    regionSeqs_filter thr _ _ none (sortedElems_blobValid thr B hv) (fun p h => by cases h)]
  simp [compactSeqRec, blobSeq]

/-! ### payloads: `Sequence.RawData` of the blob and compact sequences -/

theorem foldl_rawData : ∀ (l : List Bytes) (init : Bytes),
    l.foldl (fun acc s => acc ++ Share.rawData s) init = init ++ (l.map Share.rawData).flatten
  | [], init => by simp
  | s :: l, init => by simp [foldl_rawData l, List.append_assoc]

theorem slice_prefix (d z : Bytes) : slice (d ++ z) 0 d.length = .ok d := by simp [slice]

/-- a sequence whose first share declares `|d|` and whose payloads concatenate to `d` followed by
    fill has payload `d` -/
theorem rawData_of (q : Sequence) (first : Bytes) (rest : List Bytes) (d z : Bytes) (hq : q.shares = first :: rest)
    (hlen : Share.sequenceLen first = d.length) (hdata : (q.shares.map Share.rawData).flatten = d ++ z) :
    q.rawData = .ok d := by
  have hn : ¬ (d.length > (d ++ z).length) := by simp
  simp only [Sequence.rawData, Sequence.sequenceLen, foldl_rawData, List.nil_append, hdata]
  rw [hq]
  simp only [res_bind_ok, hlen, hn, if_false]
  exact slice_prefix d z

/-- **the payload of a blob's sequence is the blob's data** -/
theorem blobSeq_rawData (b : Blob) (hb : b.BlobValid) : (blobSeq b).rawData = .ok b.data := by
  obtain ⟨⟨_, _, _, _, _, _, f7⟩, hcont⟩ := C10.accessors_on_blob_shares b hb
  have hcap : 1 ≤ 478 - (if b.ver = 1 then b.signer.getD [] else ([] : Bytes)).length := by
    obtain ⟨⟨_, _, hver, hsig, _, _⟩, _⟩ := hb
    rcases hver with h | h
    · have : ¬ b.ver = 1 := by omega
      simp [this]
    · obtain ⟨sg, hs, hl⟩ := hsig.2 h
      simp [h, hs, hl]
  obtain ⟨k, hk⟩ := reassemble _ hcap b.data
  refine rawData_of (blobSeq b) (sparseFirst b) (sparseRest b) b.data (zeros k) rfl (sparseFirst_acc b hb).2.2.2.1 ?_
  have hrest : (sparseRest b).map Share.rawData =
      (chunksOf 482 (b.data.drop (478 - (if b.ver = 1 then b.signer.getD [] else ([] : Bytes)).length))).map contPayload := by
    unfold sparseRest
    rw [List.map_map]
    apply List.map_congr_left
    intro c hc
    exact (hcont c (chunksOf_le 482 _ c hc)).2.2
  show ((sparseFirst b :: sparseRest b).map Share.rawData).flatten = _
  rw [List.map_cons, List.flatten_cons, hrest, ← hk]
  congr 1

theorem specShare_rawData (ns : Bytes) (hc : CompactNs ns) (D : Bytes) (S : List Nat) (j : Nat) :
    Share.rawData (specShare ns D S j) = compactPayload D j := by
  by_cases hj : j = 0
  · subst hj
    exact (first_compact_accessors ns (be32 D.length) (compactPayload D 0) (resOf S 0) hc (by simp)
      (by rw [compactPayload_length]; rfl) (resOf_lt S 0) _ (specShare_form0 ns D S hc.len)).2.1
  · exact (cont_compact_accessors ns (compactPayload D j) (resOf S j) hc
      (by rw [compactPayload_length]; simp [compactCap, hj]) (resOf_lt S j) _ (specShare_formJ ns D S j hj hc.len)).2.1

/-- **the payload of a compact sequence is the stream of its length-prefixed units** -/
theorem compactSeqRec_rawData (ns : Bytes) (hc : CompactNs ns) (units : List Bytes) (hne : units ≠ [])
    (hlt : (unitStream units).length < 4294967296) :
    (compactSeqRec ns units).rawData = .ok (unitStream units) := by
  obtain ⟨m, hm⟩ := compactSeq_cons ns units hne
  have hpos := unitStream_pos units hne
  obtain ⟨hb1, hb2⟩ := C09.compactCount_bounds _ hpos
  refine rawData_of (compactSeqRec ns units) _ _ (unitStream units)
    (zeros (compactOff (compactCount (unitStream units).length) - (unitStream units).length)) hm
    (compactFirst_acc ns hc units hlt).2.2 ?_
  show ((compactSeq ns units).map Share.rawData).flatten = _
  rw [compactSeq_eq, List.map_map]
  have : (List.range (compactCount (unitStream units).length)).map
      (Share.rawData ∘ specShare ns (unitStream units) (unitStarts 0 units)) =
      (List.range (compactCount (unitStream units).length)).map (compactPayload (unitStream units)) :=
    List.map_congr_left (fun j _ => specShare_rawData ns hc _ _ j)
  rw [this, payload_concat _ _ (fun _ => Nat.le_of_lt hb1), List.take_of_length_le hb2]

/-! ### on the squares `Build` / `Construct` return -/

/-- what is left of the square's sequences when padding is ignored -/
def dataSeqs (thr : Nat) (N : List Bytes) (B : List BlobTx) : List Sequence :=
  (if N = [] then [] else [compactSeqRec txNamespace N]) ++
  (if B = [] then [] else [compactSeqRec payForBlobNamespace ((patched thr N B).map (·.marshal))]) ++
  (sortedElems thr B).map (fun e => blobSeq e.blob)

theorem parseShares_squareOf' (thr : Nat) (N : List Bytes) (B : List BlobTx) (ss : Nat)
    (hv : ∀ t ∈ B, ∀ bl ∈ t.blobs, bl.BlobValid)
    (hst1 : (unitStream N).length < 4294967296)
    (hst2 : (unitStream ((patched thr N B).map (·.marshal))).length < 4294967296) :
    parseShares (squareOf thr N B ss) true = .ok (dataSeqs thr N B) :=
  parseShares_squareOf thr N B ss hv hst1 hst2

/-- the payloads of the data sequences of a square: the two unit streams, and for every blob, in
    write order, exactly the blob's data -/
theorem dataSeqs_payloads (thr : Nat) (N : List Bytes) (B : List BlobTx)
    (hv : ∀ t ∈ B, ∀ bl ∈ t.blobs, bl.BlobValid)
    (hst1 : (unitStream N).length < 4294967296)
    (hst2 : (unitStream ((patched thr N B).map (·.marshal))).length < 4294967296) :
    (N ≠ [] → (compactSeqRec txNamespace N).rawData = .ok (unitStream N)) ∧
    (B ≠ [] → (compactSeqRec payForBlobNamespace ((patched thr N B).map (·.marshal))).rawData =
      .ok (unitStream ((patched thr N B).map (·.marshal)))) ∧
    ∀ e ∈ sortedElems thr B, (blobSeq e.blob).rawData = .ok e.blob.data :=
  ⟨fun hN => compactSeqRec_rawData _ compactNs_tx N hN hst1,
   fun hB => compactSeqRec_rawData _ compactNs_pfb _ (fun h => hB ((patched_units_eq_nil_iff thr N B).mp h)) hst2,
   fun e he => blobSeq_rawData e.blob (sortedElems_blobValid thr B hv e he)⟩

/-- the one-share square of the empty transaction list: one tail-padding sequence, nothing when
    padding is ignored -/
theorem parseShares_emptySquare :
    parseShares [paddingShare tailPaddingNamespace 0] false = .ok [padSeq tailPaddingNamespace 0] ∧
    parseShares [paddingShare tailPaddingNamespace 0] true = .ok [] := by
  have hg : ∀ q ∈ [padSeq tailPaddingNamespace 0], IsSeq q.shares ∧ seqOf q.shares = q := by
    intro q hq
    rw [List.mem_singleton.mp hq]; exact padSeq_good _ 0 (by decide) (Or.inl rfl)
  have hp : (padSeq tailPaddingNamespace 0).isPadding = true := padSeq_isPadding _ 0 (by decide) (Or.inl rfl)
  have h1 := parseShares_seqs [padSeq tailPaddingNamespace 0] false hg
  have h2 := parseShares_seqs [padSeq tailPaddingNamespace 0] true hg
  simp only [List.map_cons, List.map_nil, List.flatten_cons, List.flatten_nil, List.append_nil, padSeq] at h1 h2
  refine ⟨by rw [h1]; simp [padSeq], ?_⟩
  rw [h2]
  simp only [padSeq] at hp
  simp [hp]

/-- **C20 on every square in closed form** (`IsSquareOf`: what `Build` and `Construct` return for
    the kept ordinary transactions `N` and blob transactions `bl`). -/
theorem parseShares_isSquareOf (dec : Bytes → Decoded) (hdec : DecValid dec) (max thr : Nat)
    (hsz : 478 * (max * max) < 4294967296) (N bl : List Bytes)
    (hblb : ∀ r ∈ bl, dec r = .blobTx (decB dec r))
    (hfit : closedEstimate thr N (bl.map (decB dec)) ≤ max * max)
    (sq : List Bytes) (h : IsSquareOf dec thr N bl sq) :
    parseShares sq true = .ok (dataSeqs thr N (bl.map (decB dec))) ∧
    ∃ qs, parseShares sq false = .ok qs ∧ (qs.map (·.shares)).flatten = sq ∧ (∀ q ∈ qs, Good q) ∧
      qs.filter (fun q => !q.isPadding) = dataSeqs thr N (bl.map (decB dec)) := by
  have hv := decValid_kept dec hdec bl hblb
  rcases h with ⟨rfl, rfl, rfl⟩ | ⟨hne, rfl, g1, g2, g4⟩
  · obtain ⟨e1, e2⟩ := parseShares_emptySquare
    have hd : dataSeqs thr [] (([] : List Bytes).map (decB dec)) = [] := by
      simp [dataSeqs, sortedElems, allElements]
    rw [hd]
    refine ⟨e2, [padSeq tailPaddingNamespace 0], e1, by simp [padSeq], ?_, ?_⟩
    · intro q hq
      rw [List.mem_singleton.mp hq]; exact padSeq_good _ 0 (by decide) (Or.inl rfl)
    · have hp : (padSeq tailPaddingNamespace 0).isPadding = true := padSeq_isPadding _ 0 (by decide) (Or.inl rfl)
      simp [hp]
  · generalize hB : bl.map (decB dec) = B at *
    have hle1 : txShareCount N ≤ closedEstimate thr N B := by unfold closedEstimate txShareCount; omega
    have hle2 : pfbShareCount B ≤ closedEstimate thr N B := by unfold closedEstimate pfbShareCount; omega
    have hst1 : (unitStream N).length < 4294967296 := by
      have := stream_le_shares (unitStream N).length
      rw [← compactSeq_length txNamespace, ← txShareCount_eq] at this
      omega
    have hst2 : (unitStream ((patched thr N B).map (·.marshal))).length < 4294967296 := by
      have := stream_le_shares (unitStream ((patched thr N B).map (·.marshal))).length
      rw [← compactSeq_length payForBlobNamespace] at this
      omega
    have htrue := parseShares_squareOf' thr N B (blobMinSquareSize (closedEstimate thr N B)) hv hst1 hst2
    refine ⟨htrue, squareSeqs thr N B _, parseShares_squareOf_all thr N B _ hv hst1 hst2, squareSeqs_tile thr N B _,
      squareSeqs_good thr N B _ hv hst1 hst2, ?_⟩
    have := parseShares_seqs _ true (squareSeqs_good thr N B (blobMinSquareSize (closedEstimate thr N B)) hv hst1 hst2)
    rw [squareSeqs_tile, htrue] at this
    simp only [Bool.true_and, Except.ok.injEq] at this
    exact this.symm

/-- **C20 (sequence parsing) on every square `Construct` returns.** -/
theorem parseShares_construct (dec : Bytes → Decoded) (hdec : DecValid dec) (txs : List Bytes) (max thr : Nat)
    (hsz : 478 * (max * max) < 4294967296) (sq : List Bytes) (h : construct dec txs max thr = .ok sq) :
    ∃ N bl, txs = N ++ bl ∧ (∀ r ∈ N, dec r = .normal) ∧ (∀ r ∈ bl, dec r = .blobTx (decB dec r)) ∧
      parseShares sq true = .ok (dataSeqs thr N (bl.map (decB dec))) ∧
      ∃ qs, parseShares sq false = .ok qs ∧ (qs.map (·.shares)).flatten = sq ∧ (∀ q ∈ qs, Good q) ∧
        qs.filter (fun q => !q.isPadding) = dataSeqs thr N (bl.map (decB dec)) := by
  obtain ⟨N, bl, e, hn, hbl, hfit, hsq⟩ := construct_square dec hdec txs max thr hsz sq h
  exact ⟨N, bl, e, hn, hbl, parseShares_isSquareOf dec hdec max thr hsz N bl hbl hfit sq hsq⟩

/-- **C20 (sequence parsing) on every square `Build` returns.** -/
theorem parseShares_build (dec : Bytes → Decoded) (hdec : DecValid dec) (txs : List Bytes) (max thr : Nat)
    (hsz : 478 * (max * max) < 4294967296) (sq kept : List Bytes) (h : build dec txs max thr = .ok (sq, kept)) :
    ∃ N bl, kept = N ++ bl ∧ (∀ r ∈ N, dec r = .normal) ∧ (∀ r ∈ bl, dec r = .blobTx (decB dec r)) ∧
      parseShares sq true = .ok (dataSeqs thr N (bl.map (decB dec))) ∧
      ∃ qs, parseShares sq false = .ok qs ∧ (qs.map (·.shares)).flatten = sq ∧ (∀ q ∈ qs, Good q) ∧
        qs.filter (fun q => !q.isPadding) = dataSeqs thr N (bl.map (decB dec)) := by
  obtain ⟨N, bl, e, hn, hbl, hfit, hsq⟩ := build_square dec hdec txs max thr hsz sq kept h
  exact ⟨N, bl, e, hn, hbl, parseShares_isSquareOf dec hdec max thr hsz N bl hbl hfit sq hsq⟩

/-- what `Good` says, spelled out: a non-empty run of shares all carrying the record's namespace,
    the first a sequence start, the others not, the declared length consistent with their number -/
theorem Good.spelled {q : Sequence} (h : Good q) :
    (∃ s rest, q.shares = s :: rest ∧ Share.isSequenceStart s = true ∧
      ∀ c ∈ rest, Share.isSequenceStart c = false) ∧
    (∀ s ∈ q.shares, Share.ns s = q.ns) ∧ q.validSequenceLen = true := by
  obtain ⟨⟨⟨s, rest, hs, h1, h2⟩, hval⟩, hq⟩ := h
  rw [hq] at hval
  refine ⟨⟨s, rest, hs, h1, fun c hc => (h2 c hc).1⟩, ?_, hval⟩
  intro x hx
  have hns : q.ns = Share.ns s := by rw [← hq]; simp [seqOf, hs]
  rw [hs] at hx
  rcases List.mem_cons.mp hx with rfl | hx
  · exact hns.symm
  · rw [(h2 x hx).2, hns]

end GoSquare.Tiling
