import GoSquare.Proofs.Patched
import GoSquare.Proofs.SortOrder
/-! # C14 (builder half) — the exported square depends only on the accepted appends

Operation histories on a builder — appends (accepted or refused), `Export`s, `FindTxShareRange`,
`FindBlobStartingIndex`, `BlobShareLength`, `GetWrappedPFB` queries, in any interleaving — are
compared with the history that consists of the accepted appends only. The final `Export` returns
the same result (square or error) for both. -/
namespace GoSquare.BuilderHistory
open GoSquare Builder Spec

/-! ### stable sorting after replacing a prefix by a list with the same stable sort -/

section StableSort
open List

/-- in the stable sort of a duplicate-free list, a pair that compares equivalent keeps its input order -/
theorem pair_of_sorted_tie {α : Type} {le : α → α → Bool}
    (trans : ∀ (a b c : α), le a b → le b c → le a c) (total : ∀ (a b : α), le a b || le b a)
    {l : List α} (hn : l.Nodup) {a b : α} (h : [a, b] <+ l.mergeSort le) (hba : le b a = true) : [a, b] <+ l := by
  have hp := mergeSort_stable_pairwise (le := le) (R := fun a b => [a, b] <+ l) trans total hn
    (List.pairwise_iff_forall_sublist.mpr (fun h => h))
  exact List.pairwise_iff_forall_sublist.mp hp h hba

/-- **stable sorting after replacing a prefix by a list with the same stable sort.**
    (In particular `A' = A.mergeSort le`: sorting, appending, sorting again is the same as
    appending and sorting once.) -/
theorem mergeSort_append_congr {α : Type} {le : α → α → Bool}
    (trans : ∀ (a b c : α), le a b → le b c → le a c) (total : ∀ (a b : α), le a b || le b a)
    {A A' C : List α} (hn : (A ++ C).Nodup) (h : A.mergeSort le = A'.mergeSort le) :
    (A ++ C).mergeSort le = (A' ++ C).mergeSort le := by
  have hAA' : A.Perm A' := ((List.mergeSort_perm A le).symm.trans (h ▸ List.Perm.refl _)).trans (List.mergeSort_perm A' le)
  have hperm : (A ++ C).Perm (A' ++ C) := hAA'.append_right C
  have hn' : (A' ++ C).Nodup := hperm.nodup hn
  have hnA : A.Nodup := (List.nodup_append.mp hn).1
  -- the common strict order: by `le`, ties by position in `A ++ C`
  let R : α → α → Prop := fun a b => le a b = true ∧ (le b a = true → [a, b] <+ A ++ C)
  have hs1 : ((A ++ C).mergeSort le).Pairwise R := by
    rw [List.pairwise_iff_forall_sublist]
    intro a b hab
    refine ⟨List.pairwise_iff_forall_sublist.mp (List.pairwise_mergeSort trans total (A ++ C)) hab, ?_⟩
    intro hba
    exact pair_of_sorted_tie trans total hn hab hba
  have hs2 : ((A' ++ C).mergeSort le).Pairwise R := by
    rw [List.pairwise_iff_forall_sublist]
    intro a b hab
    have hle : le a b = true := List.pairwise_iff_forall_sublist.mp (List.pairwise_mergeSort trans total (A' ++ C)) hab
    refine ⟨hle, ?_⟩
    intro hba
    have h' : [a, b] <+ A' ++ C := pair_of_sorted_tie trans total hn' hab hba
    rw [List.sublist_append_iff] at h' ⊢
    obtain ⟨l1, l2, hl, h1, h2⟩ := h'
    refine ⟨l1, l2, hl, ?_, h2⟩
    -- `l1` is a prefix of `[a, b]`
    match l1, hl, h1 with
    | [], _, _ => exact List.nil_sublist _
    | [x], hl, h1 =>
      exact List.singleton_sublist.mpr (hAA'.mem_iff.mpr (List.singleton_sublist.mp h1))
    | [x, y], hl, h1 =>
      simp only [List.cons_append, List.nil_append, List.cons.injEq] at hl
      obtain ⟨rfl, rfl, _⟩ := hl
      have : [a, b] <+ A'.mergeSort le := List.pair_sublist_mergeSort trans total hle h1
      rw [← h] at this
      exact pair_of_sorted_tie trans total hnA this hba
    | x :: y :: z :: t, hl, _ =>
      have := congrArg List.length hl
      simp at this
  refine List.Perm.eq_of_pairwise (le := R) ?_ hs1 hs2
    (((List.mergeSort_perm _ le).trans hperm).trans (List.mergeSort_perm _ le).symm)
  intro a b _ _ hab hba
  exact (pair_sublist_asymm hn (hab.2 hba.1) (hba.2 hab.1)).elim

end StableSort

/-! ### wrapped PFBs up to share-index values -/

/-- what `Export` never changes in a wrapped PFB: inner transaction, type id, number of share indexes -/
def frame (iw : Proto.IndexWrapper) : Bytes × Bytes × Nat := (iw.tx, iw.typeId, iw.shareIndexes.length)

theorem patchOne_frame_map (P : List Proto.IndexWrapper) (e : Element) (idx : Nat) :
    (patchOne P e idx).map frame = P.map frame := by
  apply List.ext_getElem?
  intro p
  rw [List.getElem?_map, List.getElem?_map, patchOne_getElem?]
  cases P[p]? with
  | none => rfl
  | some iw => by_cases hc : e.pfbIndex = p <;> simp [frame, hc]

theorem patchAll_frame_map (thr : Nat) : ∀ (es : List Element) (cur : Nat) (P : List Proto.IndexWrapper),
    (patchAll thr cur es P).map frame = P.map frame
  | [], _, _ => rfl
  | e :: es, cur, P => by
    rw [patchAll, patchAll_frame_map thr es, patchOne_frame_map]

theorem frame_getElem? {P P' : List Proto.IndexWrapper} (h : P.map frame = P'.map frame) {p : Nat}
    {iw : Proto.IndexWrapper} (hp : P[p]? = some iw) :
    ∃ iw', P'[p]? = some iw' ∧ iw'.tx = iw.tx ∧ iw'.typeId = iw.typeId ∧
      iw'.shareIndexes.length = iw.shareIndexes.length := by
  have := congrArg (fun l => l[p]?) h
  simp only [List.getElem?_map, hp, Option.map_some] at this
  cases h' : P'[p]? with
  | none => rw [h'] at this; cases this
  | some iw' =>
    rw [h'] at this
    simp only [Option.map_some, Option.some.injEq, frame, Prod.mk.injEq] at this
    exact ⟨iw', rfl, this.1.symm, this.2.1.symm, this.2.2.symm⟩

theorem placeIdx_length' (thr : Nat) : ∀ (es : List Element) (cur : Nat), (placeIdx thr cur es).length = es.length
  | [], _ => rfl
  | e :: es, cur => by simp only [placeIdx, List.length_cons, placeIdx_length' thr es]

/-- **the recorded indexes do not depend on the index values held before.** If the written elements
    have pairwise distinct keys, lie inside the wrappers and cover every index position, then
    patching two wrapper lists that differ only in index values gives the same list. -/
theorem patchAll_congr (thr : Nat) (es : List Element) (cur : Nat) (P P' : List Proto.IndexWrapper)
    (hpw : es.Pairwise (fun a b => ¬ (a.pfbIndex = b.pfbIndex ∧ a.blobIndex = b.blobIndex)))
    (hfr : P.map frame = P'.map frame)
    (hin : ∀ e ∈ es, ∃ iw, P[e.pfbIndex]? = some iw ∧ e.blobIndex < iw.shareIndexes.length)
    (hcov : ∀ p iw, P[p]? = some iw → ∀ j, j < iw.shareIndexes.length →
      ∃ e ∈ es, e.pfbIndex = p ∧ e.blobIndex = j) :
    patchAll thr cur es P = patchAll thr cur es P' := by
  have hlen : P.length = P'.length := by simpa using congrArg List.length hfr
  have hin' : ∀ e ∈ es, ∃ iw, P'[e.pfbIndex]? = some iw ∧ e.blobIndex < iw.shareIndexes.length := by
    intro e he
    obtain ⟨iw, h1, h2⟩ := hin e he
    obtain ⟨iw', g1, _, _, g4⟩ := frame_getElem? hfr h1
    exact ⟨iw', g1, by omega⟩
  apply List.ext_getElem?
  intro p
  cases hp : P[p]? with
  | none =>
    have h1 : P.length ≤ p := List.getElem?_eq_none_iff.mp hp
    rw [List.getElem?_eq_none_iff.mpr (by rw [(patchAll_frame thr es cur P).1]; exact h1),
      List.getElem?_eq_none_iff.mpr (by rw [(patchAll_frame thr es cur P').1]; omega)]
  | some iw =>
    obtain ⟨iw', hp', f1, f2, f3⟩ := frame_getElem? hfr hp
    obtain ⟨w, hw, a1, b1, c1⟩ := (patchAll_frame thr es cur P).2 p iw hp
    obtain ⟨w', hw', a2, b2, c2⟩ := (patchAll_frame thr es cur P').2 p iw' hp'
    rw [hw, hw']
    have hsi : w.shareIndexes = w'.shareIndexes := by
      apply List.ext_getElem?
      intro j
      by_cases hj : j < iw.shareIndexes.length
      · obtain ⟨e, he, rfl, rfl⟩ := hcov p iw hp j hj
        obtain ⟨k, hk, hek⟩ := List.getElem_of_mem he
        have hek' : es[k]? = some e := by rw [List.getElem?_eq_getElem hk, hek]
        have hpi : (placeIdx thr cur es)[k]? = some ((placeIdx thr cur es)[k]'(by rw [placeIdx_length']; exact hk)) :=
          List.getElem?_eq_getElem _
        obtain ⟨x, hx1, hx2⟩ := patchAll_lookup thr es cur P hpw hin k e _ hek' hpi
        obtain ⟨y, hy1, hy2⟩ := patchAll_lookup thr es cur P' hpw hin' k e _ hek' hpi
        rw [hw] at hx1
        rw [hw'] at hy1
        simp only [Option.some.injEq] at hx1 hy1
        subst hx1 hy1
        rw [hx2, hy2]
      · rw [List.getElem?_eq_none_iff.mpr (by omega), List.getElem?_eq_none_iff.mpr (by omega)]
    cases w
    cases w'
    simp_all

/-! ### the blob loop and `exportCore` -/

/-- the share writes of one round of the blob loop -/
def writeStep (i : Nat) (sh : List Bytes) (padding : Nat) (blob : Blob) : Res (List Bytes) :=
  (if i > 0 then sparseWritePadding sh padding else .ok sh) >>= fun s => sparseWrite s blob

/-- one round of the blob loop -/
theorem blobLoop_cons (thr : Nat) (e : Element) (rest : List Element) (i : Nat) (st : BlobLoopState) :
    blobLoop thr (e :: rest) i st =
      if nextShareIndex st.cursor e.numShares thr - st.endOfLastBlob > e.maxPadding then .error .err
      else if e.pfbIndex ≥ st.pfbs.length then .error .panic
      else (writeStep i st.shares (nextShareIndex st.cursor e.numShares thr - st.endOfLastBlob) e.blob) >>= fun sh =>
        blobLoop thr rest (i + 1)
          { cursor := nextShareIndex st.cursor e.numShares thr + e.numShares,
            nonReservedStart := if i = 0 then nextShareIndex st.cursor e.numShares thr else st.nonReservedStart,
            endOfLastBlob := nextShareIndex st.cursor e.numShares thr + e.numShares,
            pfbs := patchOne st.pfbs e (nextShareIndex st.cursor e.numShares thr),
            shares := sh } := by
  rw [blobLoop]
  simp only [bind, Except.bind, throw, throwThe, MonadExceptOf.throw, pure, Except.pure, writeStep]
  split
  · rfl
  · split
    · rfl
    · split
      · cases sparseWritePadding st.shares (nextShareIndex st.cursor e.numShares thr - st.endOfLastBlob) with
        | error x => rfl
        | ok v => rfl
      · rfl

/-- the wrappers the blob loop leaves behind are the closed-form `patchAll` (no validity assumption) -/
theorem blobLoop_pfbs (thr : Nat) : ∀ (es : List Element) (i : Nat) (st st' : BlobLoopState),
    blobLoop thr es i st = .ok st' → st'.pfbs = patchAll thr st.cursor es st.pfbs
  | [], i, st, st', h => by
    simp only [blobLoop, Except.ok.injEq] at h
    subst h; rfl
  | e :: rest, i, st, st', h => by
    rw [blobLoop_cons] at h
    split at h
    · cases h
    · split at h
      · cases h
      · obtain ⟨sh, _, h⟩ := res_bind_ok' h
        have := blobLoop_pfbs thr rest _ _ _ h
        rw [this]; rfl

/-- the blob loop reads the wrappers' list only through its length: with another list of the same
    length it fails identically or ends in the same state except for the (patched) wrappers -/
theorem blobLoop_swap (thr : Nat) : ∀ (es : List Element) (i c n eo : Nat) (sh : List Bytes)
    (P P' : List Proto.IndexWrapper), P.length = P'.length →
    blobLoop thr es i ⟨c, n, eo, P', sh⟩ =
      (blobLoop thr es i ⟨c, n, eo, P, sh⟩).map (fun f => { f with pfbs := patchAll thr c es P' })
  | [], i, c, n, eo, sh, P, P', _ => by
    simp only [blobLoop, Except.map, patchAll]
  | e :: rest, i, c, n, eo, sh, P, P', hl => by
    rw [blobLoop_cons, blobLoop_cons]
    simp only
    rw [← hl]
    split
    · rfl
    · split
      · rfl
      · cases writeStep i sh (nextShareIndex c e.numShares thr - eo) e.blob with
        | error x => rfl
        | ok v =>
          simp only [bind, Except.bind]
          rw [blobLoop_swap thr rest _ _ _ _ _ (patchOne P e (nextShareIndex c e.numShares thr))
              (patchOne P' e (nextShareIndex c e.numShares thr)) (by rw [patchOne_length, patchOne_length, hl])]
          rfl

/-- with wrappers that patch to the same list, the blob loop gives the same result -/
theorem blobLoop_congr (thr : Nat) (es : List Element) (i c n eo : Nat) (sh : List Bytes)
    (P P' : List Proto.IndexWrapper) (hl : P.length = P'.length)
    (hp : patchAll thr c es P = patchAll thr c es P') :
    blobLoop thr es i ⟨c, n, eo, P', sh⟩ = blobLoop thr es i ⟨c, n, eo, P, sh⟩ := by
  rw [blobLoop_swap thr es i c n eo sh P P' hl]
  cases h : blobLoop thr es i ⟨c, n, eo, P, sh⟩ with
  | error x => rfl
  | ok f =>
    have := blobLoop_pfbs thr es i _ f h
    simp only at this
    simp only [Except.map]
    rw [← hp, ← this]

/-- `exportCore` does not distinguish blob lists with the same stable sort, nor wrapper lists
    that patch to the same list -/
theorem exportCore_congr (thr : Nat) (cs : Int) (txs : List Bytes) (P P' : List Proto.IndexWrapper)
    (blobs blobs' : List Element) (ts ps : Nat)
    (hs : blobs'.mergeSort elemLe = blobs.mergeSort elemLe) (hl : P.length = P'.length)
    (hp : patchAll thr (ts + ps) (blobs.mergeSort elemLe) P = patchAll thr (ts + ps) (blobs.mergeSort elemLe) P') :
    exportCore thr cs txs P' blobs' ts ps = exportCore thr cs txs P blobs ts ps := by
  unfold exportCore
  simp only [hs, blobLoop_congr thr (blobs.mergeSort elemLe) 0 (ts + ps) (ts + ps) (ts + ps) [] P P' hl hp]

/-! ### observational equivalence of builder states -/

/-- **observational equivalence of builder states**: everything but the `done` flag, the counters'
    undo fields, the share-index VALUES held in the wrapped PFBs, and the order of the blob
    elements up to stable sorting. -/
structure Equiv (b r : Builder) : Prop where
  max : b.maxSquareSize = r.maxSquareSize
  thr : b.thr = r.thr
  size : b.currentSize = r.currentSize
  txs : b.txs = r.txs
  txS : b.txCounter.shares = r.txCounter.shares
  txR : b.txCounter.remainder = r.txCounter.remainder
  pfbS : b.pfbCounter.shares = r.pfbCounter.shares
  pfbR : b.pfbCounter.remainder = r.pfbCounter.remainder
  pfbs : b.pfbs.map frame = r.pfbs.map frame
  blobs : b.blobs.mergeSort elemLe = r.blobs.mergeSort elemLe

theorem Equiv.refl (b : Builder) : Equiv b b := ⟨rfl, rfl, rfl, rfl, rfl, rfl, rfl, rfl, rfl, rfl⟩

theorem Equiv.symm {a b : Builder} (h : Equiv a b) : Equiv b a :=
  ⟨h.max.symm, h.thr.symm, h.size.symm, h.txs.symm, h.txS.symm, h.txR.symm, h.pfbS.symm, h.pfbR.symm,
    h.pfbs.symm, h.blobs.symm⟩

theorem Equiv.trans {a b c : Builder} (h : Equiv a b) (g : Equiv b c) : Equiv a c :=
  ⟨h.max.trans g.max, h.thr.trans g.thr, h.size.trans g.size, h.txs.trans g.txs, h.txS.trans g.txS,
    h.txR.trans g.txR, h.pfbS.trans g.pfbS, h.pfbR.trans g.pfbR, h.pfbs.trans g.pfbs, h.blobs.trans g.blobs⟩

theorem Equiv.pfbs_length {a b : Builder} (h : Equiv a b) : a.pfbs.length = b.pfbs.length := by
  simpa using congrArg List.length h.pfbs

theorem counter_size_congr {c1 c2 : Counter} (hs : c1.shares = c2.shares) (hr : c1.remainder = c2.remainder) :
    c1.size = c2.size := by
  unfold Counter.size; rw [hs, hr]

/-- `Add` reads the share count and remainder only -/
theorem counter_add_congr {c1 c2 : Counter} (n : Nat) (hs : c1.shares = c2.shares) (hr : c1.remainder = c2.remainder) :
    (c1.add n).2 = (c2.add n).2 ∧ (c1.add n).1.shares = (c2.add n).1.shares ∧
    (c1.add n).1.remainder = (c2.add n).1.remainder := by
  unfold Counter.add
  simp only [hs, hr]
  exact ⟨trivial, trivial, trivial⟩

/-- a refused `AppendTx` leaves an equivalent state (any state) -/
theorem appendTx_refused (b : Builder) (t : Bytes) (h : (b.appendTx t).2 = false) : Equiv (b.appendTx t).1 b := by
  unfold Builder.appendTx at h ⊢
  simp only at h ⊢
  split
  · rename_i hc; rw [if_pos hc] at h; cases h
  · exact ⟨rfl, rfl, rfl, rfl, rfl, rfl, rfl, rfl, rfl, rfl⟩

/-- a refused `AppendBlobTx` leaves an equivalent state (any state) -/
theorem appendBlobTx_refused (b : Builder) (t : BlobTx) (h : (b.appendBlobTx t).2 = false) :
    Equiv (b.appendBlobTx t).1 b := by
  unfold Builder.appendBlobTx at h ⊢
  simp only at h ⊢
  split
  · rename_i hc; rw [if_pos hc] at h; cases h
  · exact ⟨rfl, rfl, rfl, rfl, rfl, rfl, rfl, rfl, rfl, rfl⟩

theorem appendTx_eq (b : Builder) (t : Bytes) :
    b.appendTx t = if b.currentSize + (b.txCounter.add t.length).2 ≤ ((b.maxSquareSize * b.maxSquareSize : Nat) : Int)
      then (b.acceptedTx t, true) else (b.refusedTx t, false) := by
  unfold Builder.appendTx Builder.canFit Builder.acceptedTx Builder.refusedTx
  simp only [decide_eq_true_eq]

theorem appendBlobTx_eq (b : Builder) (t : BlobTx) :
    b.appendBlobTx t =
      if b.currentSize + ((b.pfbCounter.add (newIndexWrapper t.tx (worstCaseShareIndexes t.blobs.length)).size).2 +
          (((elementsOf b.thr b.pfbs.length t).map Element.maxShareOffset).sum : Nat)) ≤
          ((b.maxSquareSize * b.maxSquareSize : Nat) : Int)
      then (b.acceptedBlobTx t, true) else (b.refusedBlobTx t, false) := by
  unfold Builder.appendBlobTx Builder.canFit Builder.acceptedBlobTx Builder.refusedBlobTx elementsOf
  simp only [decide_eq_true_eq]

/-- equivalent states take the same `AppendTx` decision and stay equivalent -/
theorem appendTx_equiv (b r : Builder) (t : Bytes) (h : Equiv b r) :
    (b.appendTx t).2 = (r.appendTx t).2 ∧ Equiv (b.appendTx t).1 (r.appendTx t).1 := by
  obtain ⟨a1, a2, a3⟩ := counter_add_congr t.length h.txS h.txR
  rw [appendTx_eq b, appendTx_eq r, a1, h.size, h.max]
  split
  · exact ⟨rfl, h.max, h.thr, by show b.currentSize + _ = r.currentSize + _; rw [h.size, a1],
      by show b.txs ++ _ = r.txs ++ _; rw [h.txs], a2, a3, h.pfbS, h.pfbR, h.pfbs, h.blobs⟩
  · exact ⟨rfl, h.max, h.thr, h.size, h.txs, h.txS, h.txR, h.pfbS, h.pfbR, h.pfbs, h.blobs⟩

/-- equivalent states take the same `AppendBlobTx` decision and stay equivalent -/
theorem appendBlobTx_equiv (b r : Builder) (t : BlobTx) (h : Equiv b r)
    (hn : (r.blobs ++ elementsOf r.thr r.pfbs.length t).Nodup) :
    (b.appendBlobTx t).2 = (r.appendBlobTx t).2 ∧ Equiv (b.appendBlobTx t).1 (r.appendBlobTx t).1 := by
  obtain ⟨a1, a2, a3⟩ := counter_add_congr
    (newIndexWrapper t.tx (worstCaseShareIndexes t.blobs.length)).size h.pfbS h.pfbR
  have hel : elementsOf b.thr b.pfbs.length t = elementsOf r.thr r.pfbs.length t := by
    rw [h.pfbs_length, h.thr]
  rw [appendBlobTx_eq b, appendBlobTx_eq r, a1, h.size, h.max, hel]
  split
  · refine ⟨rfl, h.max, h.thr, ?_, h.txs, h.txS, h.txR, a2, a3, ?_, ?_⟩
    · show b.currentSize + (_ + _) = r.currentSize + (_ + _)
      rw [h.size, a1, hel]
    · show (b.pfbs ++ _).map frame = (r.pfbs ++ _).map frame
      rw [List.map_append, List.map_append, h.pfbs]
    · show (b.blobs ++ elementsOf b.thr b.pfbs.length t).mergeSort elemLe =
        (r.blobs ++ elementsOf r.thr r.pfbs.length t).mergeSort elemLe
      rw [hel]
      exact (mergeSort_append_congr elemLe_trans elemLe_total hn h.blobs.symm).symm
  · exact ⟨rfl, h.max, h.thr, h.size, h.txs, h.txS, h.txR, h.pfbS, h.pfbR, h.pfbs, h.blobs⟩

/-! ### exports and queries -/

/-- the state a successful `Export` leaves: untouched (empty builder) or blobs sorted, start
    indexes recorded, done -/
theorem exportSquare_state (b b' : Builder) (sq : List Bytes) (h : b.exportSquare = .ok (b', sq)) :
    b' = b ∨ b' = { b with
      blobs := b.blobs.mergeSort elemLe
      pfbs := patchAll b.thr (b.txCounter.size + b.pfbCounter.size) (b.blobs.mergeSort elemLe) b.pfbs
      done := true } := by
  unfold Builder.exportSquare at h
  obtain ⟨⟨upd, sq'⟩, hcore, hrest⟩ := res_bind_ok' h
  cases upd with
  | none =>
    simp only [Except.ok.injEq, Prod.mk.injEq] at hrest
    exact Or.inl hrest.1.symm
  | some p =>
    obtain ⟨bl, pf⟩ := p
    simp only [Except.ok.injEq, Prod.mk.injEq] at hrest
    right
    rw [← hrest.1]
    unfold exportCore at hcore
    split at hcore
    · obtain ⟨s, _, hr⟩ := res_bind_ok' hcore
      cases hr
    · obtain ⟨txW0, _, hcore⟩ := res_bind_ok' hcore
      obtain ⟨txW, _, hcore⟩ := res_bind_ok' hcore
      obtain ⟨st, hloop, hcore⟩ := res_bind_ok' hcore
      obtain ⟨pfbW0, _, hcore⟩ := res_bind_ok' hcore
      obtain ⟨pfbW, _, hcore⟩ := res_bind_ok' hcore
      split at hcore
      · cases hcore
      · obtain ⟨sq'', _, hcore⟩ := res_bind_ok' hcore
        simp only [Except.ok.injEq, Prod.mk.injEq, Option.some.injEq] at hcore
        obtain ⟨⟨rfl, rfl⟩, _⟩ := hcore
        rw [blobLoop_pfbs _ _ _ _ _ hloop]

theorem mergeSort_elemLe_idem (l : List Element) : (l.mergeSort elemLe).mergeSort elemLe = l.mergeSort elemLe :=
  List.mergeSort_of_pairwise (List.pairwise_mergeSort (le := elemLe) elemLe_trans elemLe_total l)

/-- sorting the blobs, recording start indexes and setting the flag gives an equivalent state -/
theorem equiv_sorted_patched (b : Builder) (thr cur : Nat) (es : List Element) (d : Bool) :
    Equiv { b with blobs := b.blobs.mergeSort elemLe, pfbs := patchAll thr cur es b.pfbs, done := d } b :=
  ⟨rfl, rfl, rfl, rfl, rfl, rfl, rfl, rfl, patchAll_frame_map thr es cur b.pfbs, mergeSort_elemLe_idem b.blobs⟩

/-- **what Go can leave behind when `Export` or a query returns an error**: the builder untouched,
    or fully exported (the error came after a successful `Export` inside the query), or partially
    exported — `Export` sorts `b.Blobs` in place and records start indexes blob by blob before it
    fails, so the blobs are sorted and the first `k` blobs in write order have their index recorded. -/
def ErrState (b b' : Builder) : Prop :=
  b' = b ∨ (∃ sq, b.exportSquare = .ok (b', sq)) ∨
  ∃ k, b' = { b with
    blobs := b.blobs.mergeSort elemLe
    pfbs := patchAll b.thr (b.txCounter.size + b.pfbCounter.size) ((b.blobs.mergeSort elemLe).take k) b.pfbs }

theorem exported_equiv (b b' : Builder) (sq : List Bytes) (h : b.exportSquare = .ok (b', sq)) : Equiv b' b := by
  rcases exportSquare_state b b' sq h with rfl | rfl
  · exact Equiv.refl _
  · exact equiv_sorted_patched b _ _ _ true

theorem errState_equiv (b b' : Builder) (h : ErrState b b') : Equiv b' b := by
  rcases h with rfl | ⟨sq, h⟩ | ⟨k, rfl⟩
  · exact Equiv.refl _
  · exact exported_equiv b b' sq h
  · exact equiv_sorted_patched b _ _ _ b.done

theorem ensureExported_equiv (b b' : Builder) (h : b.ensureExported = .ok b') : Equiv b' b := by
  unfold Builder.ensureExported at h
  split at h
  · simp only [Except.ok.injEq] at h; subst h; exact Equiv.refl _
  · obtain ⟨⟨b1, sq⟩, he, h⟩ := res_bind_ok' h
    simp only [Except.ok.injEq] at h; subst h
    exact exported_equiv b b1 sq he

theorem findTxShareRange_state (b b' : Builder) (i : Int) (x : Nat × Nat)
    (h : b.findTxShareRange i = .ok (b', x)) : b.ensureExported = .ok b' := by
  unfold Builder.findTxShareRange at h
  obtain ⟨b1, he, h⟩ := res_bind_ok' h
  simp only [bind, Except.bind, throw, throwThe, MonadExceptOf.throw] at h
  split at h
  · cases h
  · split at h
    · cases h
    · simp only [Except.ok.injEq, Prod.mk.injEq] at h
      rw [he, h.1]

theorem findBlobStartingIndex_state (b b' : Builder) (p j : Int) (x : Nat)
    (h : b.findBlobStartingIndex p j = .ok (b', x)) : b.ensureExported = .ok b' := by
  unfold Builder.findBlobStartingIndex at h
  split at h
  · cases h
  · simp only at h
    split at h
    · cases h
    · split at h
      · cases h
      · obtain ⟨b1, he, h⟩ := res_bind_ok' h
        split at h
        · cases h
        · split at h
          · cases h
          · simp only [Except.ok.injEq, Prod.mk.injEq] at h
            rw [he, h.1]

theorem getWrappedPFB_state (b b' : Builder) (i : Int) (x : Proto.IndexWrapper)
    (h : b.getWrappedPFB i = .ok (b', x)) : b.ensureExported = .ok b' := by
  unfold Builder.getWrappedPFB at h
  split at h
  · cases h
  · split at h
    · cases h
    · split at h
      · cases h
      · obtain ⟨b1, he, h⟩ := res_bind_ok' h
        split at h
        · cases h
        · simp only [Except.ok.injEq, Prod.mk.injEq] at h
          rw [he, h.1]

/-! ### equivalent states export the same -/

/-- **`Export` does not distinguish a state from an equivalent append-only state.** `r` has kept
    exactly `N` and `B` (append-only history); `b` is equivalent to it. Then `exportCore` computes
    the very same result (square, sorted blobs, recorded indexes — or error) from both. -/
theorem exportCore_equiv (b r : Builder) (N : List Bytes) (B : List BlobTx) (h : Equiv b r) (hk : Kept r N B) :
    exportCore b.thr b.currentSize b.txs b.pfbs b.blobs b.txCounter.size b.pfbCounter.size =
    exportCore r.thr r.currentSize r.txs r.pfbs r.blobs r.txCounter.size r.pfbCounter.size := by
  rw [h.thr, h.size, h.txs, counter_size_congr h.txS h.txR, counter_size_congr h.pfbS h.pfbR]
  apply exportCore_congr r.thr r.currentSize r.txs r.pfbs b.pfbs r.blobs b.blobs _ _ h.blobs h.pfbs_length.symm
  have hsort : r.blobs.mergeSort elemLe = sortedElems r.thr B := by rw [hk.blobs]; rfl
  have hP : r.pfbs = worstWrappers B := hk.pfbs
  rw [hsort, hP]
  obtain ⟨hpw, hmem⟩ := allElements_keys r.thr B
  have hperm : (sortedElems r.thr B).Perm (allElements r.thr B) := List.mergeSort_perm _ _
  have hpw' : (sortedElems r.thr B).Pairwise
      (fun a b => ¬ (a.pfbIndex = b.pfbIndex ∧ a.blobIndex = b.blobIndex)) :=
    (List.Perm.pairwise_iff (fun {x y} h hc => h ⟨hc.1.symm, hc.2.symm⟩) hperm).mpr hpw
  apply patchAll_congr r.thr (sortedElems r.thr B) _ (worstWrappers B) b.pfbs hpw' (by rw [← hP]; exact h.pfbs.symm)
  · intro x hx
    obtain ⟨t, ht, bl, hbl, _⟩ := hmem x (hperm.mem_iff.mp hx)
    refine ⟨_, by rw [worstWrappers_getElem?, ht]; rfl, ?_⟩
    have := (List.getElem?_eq_some_iff.mp hbl).1
    simpa [newIndexWrapper, worstCaseShareIndexes] using this
  · intro p iw hp j hj
    rw [worstWrappers_getElem?] at hp
    cases hB : B[p]? with
    | none => rw [hB] at hp; cases hp
    | some t =>
      rw [hB] at hp
      simp only [Option.map_some, Option.some.injEq] at hp
      subst hp
      have hj' : j < t.blobs.length := by simpa [newIndexWrapper, worstCaseShareIndexes] using hj
      refine ⟨newElement t.blobs[j] p j r.thr, ?_, rfl, rfl⟩
      exact hperm.mem_iff.mpr (allElements_complete r.thr B p j t _ hB (List.getElem?_eq_getElem hj'))

theorem exportSquare_equiv (b r : Builder) (N : List Bytes) (B : List BlobTx) (h : Equiv b r) (hk : Kept r N B) :
    b.exportSquare.map (·.2) = r.exportSquare.map (·.2) := by
  unfold Builder.exportSquare
  rw [exportCore_equiv b r N B h hk]
  cases exportCore r.thr r.currentSize r.txs r.pfbs r.blobs r.txCounter.size r.pfbCounter.size with
  | error e => rfl
  | ok x =>
    obtain ⟨upd, sq⟩ := x
    cases upd with
    | none => rfl
    | some p => rfl

/-! ### operation histories -/

/-- the operations of a builder history -/
inductive Op where
  /-- `AppendTx` -/
  | tx (t : Bytes)
  /-- `AppendBlobTx` -/
  | blobTx (bt : BlobTx)
  /-- `Export` -/
  | export
  /-- `FindTxShareRange` -/
  | txRange (i : Int)
  /-- `FindBlobStartingIndex` -/
  | blobIdx (p j : Int)
  /-- `BlobShareLength` (reads only) -/
  | blobLen (p j : Int)
  /-- `GetWrappedPFB` -/
  | wrappedPFB (i : Int)
  deriving DecidableEq, Repr

/-- the builder state after one operation. For `Export` and the queries this is the state the Go
    method leaves in the receiver (the model functions return it). The model's `Res` drops the
    state when the method returns an error; there `err b op` stands for whatever Go leaves behind
    (constrained by `ErrState` in the theorems: untouched, exported, or partially exported). -/
def step (err : Builder → Op → Builder) (b : Builder) (op : Op) : Builder :=
  match op with
  | .tx t => (b.appendTx t).1
  | .blobTx bt => (b.appendBlobTx bt).1
  | .export => match b.exportSquare with
    | .ok (b', _) => b'
    | .error _ => err b op
  | .txRange i => match b.findTxShareRange i with
    | .ok (b', _) => b'
    | .error _ => err b op
  | .blobIdx p j => match b.findBlobStartingIndex p j with
    | .ok (b', _) => b'
    | .error _ => err b op
  | .blobLen _ _ => b
  | .wrappedPFB i => match b.getWrappedPFB i with
    | .ok (b', _) => b'
    | .error _ => err b op

/-- the builder state after a history -/
def run (err : Builder → Op → Builder) (b : Builder) (ops : List Op) : Builder := ops.foldl (step err) b

/-- is the operation an append that the builder accepts in state `b`? -/
def accepts (b : Builder) : Op → Bool
  | .tx t => (b.appendTx t).2
  | .blobTx bt => (b.appendBlobTx bt).2
  | _ => false

/-- the accepted appends of a history, in order (decided while running it) -/
def acceptedOps (err : Builder → Op → Builder) : Builder → List Op → List Op
  | _, [] => []
  | b, op :: ops =>
    if accepts b op then op :: acceptedOps err (step err b op) ops else acceptedOps err (step err b op) ops

/-- the ordinary transactions among a list of operations -/
def keptTxs (ops : List Op) : List Bytes := ops.filterMap (fun op => match op with | .tx t => some t | _ => none)

/-- the blob transactions among a list of operations -/
def keptBlobTxs (ops : List Op) : List BlobTx :=
  ops.filterMap (fun op => match op with | .blobTx bt => some bt | _ => none)

def isAppend : Op → Bool
  | .tx _ => true
  | .blobTx _ => true
  | _ => false

theorem run_cons (err : Builder → Op → Builder) (b : Builder) (op : Op) (ops : List Op) :
    run err b (op :: ops) = run err (step err b op) ops := rfl

/-- every operation that is not an accepted append leaves an equivalent state -/
theorem step_equiv_of_not_accepted (err : Builder → Op → Builder) (herr : ∀ b op, ErrState b (err b op))
    (b : Builder) (op : Op) (h : accepts b op = false) : Equiv (step err b op) b := by
  cases op with
  | tx t => exact appendTx_refused b t h
  | blobTx bt => exact appendBlobTx_refused b bt h
  | «export» =>
    simp only [step]
    cases he : b.exportSquare with
    | error e => exact errState_equiv _ _ (herr b _)
    | ok x => exact exported_equiv b x.1 x.2 he
  | txRange i =>
    simp only [step]
    cases he : b.findTxShareRange i with
    | error e => exact errState_equiv _ _ (herr b _)
    | ok x => exact ensureExported_equiv b x.1 (findTxShareRange_state b x.1 i x.2 he)
  | blobIdx p j =>
    simp only [step]
    cases he : b.findBlobStartingIndex p j with
    | error e => exact errState_equiv _ _ (herr b _)
    | ok x => exact ensureExported_equiv b x.1 (findBlobStartingIndex_state b x.1 p j x.2 he)
  | blobLen p j => exact Equiv.refl b
  | wrappedPFB i =>
    simp only [step]
    cases he : b.getWrappedPFB i with
    | error e => exact errState_equiv _ _ (herr b _)
    | ok x => exact ensureExported_equiv b x.1 (getWrappedPFB_state b x.1 i x.2 he)

/-- **the history invariant.** `b` is the real state, `r` an equivalent reference state that has kept
    exactly `N` and `B` by appends only. Running any history on `b` and only its accepted appends
    on `r` keeps the two equivalent; the reference accepts every replayed append and has kept
    exactly the accepted transactions. -/
theorem run_invariant (err : Builder → Op → Builder) (herr : ∀ b op, ErrState b (err b op)) :
    ∀ (ops : List Op) (b r : Builder) (N : List Bytes) (B : List BlobTx), Equiv b r → Kept r N B →
    Equiv (run err b ops) (run err r (acceptedOps err b ops)) ∧
    Kept (run err r (acceptedOps err b ops)) (N ++ keptTxs (acceptedOps err b ops))
      (B ++ keptBlobTxs (acceptedOps err b ops)) ∧
    acceptedOps err r (acceptedOps err b ops) = acceptedOps err b ops
  | [], b, r, N, B, h, hk => by
    simp only [acceptedOps, run, List.foldl_nil, keptTxs, keptBlobTxs, List.filterMap_nil, List.append_nil]
    exact ⟨h, hk, trivial⟩
  | op :: ops, b, r, N, B, h, hk => by
    by_cases ha : accepts b op = true
    · have hacc : acceptedOps err b (op :: ops) = op :: acceptedOps err (step err b op) ops := by
        simp only [acceptedOps, ha, if_true]
      rw [hacc, run_cons, run_cons]
      cases op with
      | tx t =>
        obtain ⟨hd, he⟩ := appendTx_equiv b r t h
        have har : (r.appendTx t).2 = true := by rw [← hd]; exact ha
        obtain ⟨hk1, _, _⟩ := (appendTx_spec r N B t hk).2.1 har
        obtain ⟨r1, r2, r3⟩ := run_invariant err herr ops (step err b (.tx t)) (step err r (.tx t)) (N ++ [t]) B he hk1
        refine ⟨r1, ?_, ?_⟩
        · simpa [keptTxs, keptBlobTxs] using r2
        · simp only [acceptedOps, accepts, har, if_true]
          rw [r3]
      | blobTx bt =>
        have hn : (r.blobs ++ elementsOf r.thr r.pfbs.length bt).Nodup := by
          have hpl : r.pfbs.length = B.length := by rw [hk.pfbs, List.length_map]
          rw [hk.blobs, hpl, ← allElements_append]
          exact allElements_nodup r.thr _
        obtain ⟨hd, he⟩ := appendBlobTx_equiv b r bt h hn
        have har : (r.appendBlobTx bt).2 = true := by rw [← hd]; exact ha
        obtain ⟨hk1, _, _⟩ := (appendBlobTx_spec r N B bt hk).2.1 har
        obtain ⟨r1, r2, r3⟩ := run_invariant err herr ops (step err b (.blobTx bt)) (step err r (.blobTx bt)) N
          (B ++ [bt]) he hk1
        refine ⟨r1, ?_, ?_⟩
        · simpa [keptTxs, keptBlobTxs] using r2
        · simp only [acceptedOps, accepts, har, if_true]
          rw [r3]
      | «export» => simp [accepts] at ha
      | txRange i => simp [accepts] at ha
      | blobIdx p j => simp [accepts] at ha
      | blobLen p j => simp [accepts] at ha
      | wrappedPFB i => simp [accepts] at ha
    · have ha' : accepts b op = false := by simpa using ha
      have hacc : acceptedOps err b (op :: ops) = acceptedOps err (step err b op) ops := by
        simp only [acceptedOps, ha', Bool.false_eq_true, if_false]
      rw [hacc, run_cons]
      exact run_invariant err herr ops (step err b op) r N B
        ((step_equiv_of_not_accepted err herr b op ha').trans h) hk

/-! ### the accepted appends as a history of their own -/

theorem acceptedOps_sublist (err : Builder → Op → Builder) : ∀ (ops : List Op) (b : Builder),
    (acceptedOps err b ops).Sublist ops
  | [], _ => List.Sublist.slnil
  | op :: ops, b => by
    simp only [acceptedOps]
    split
    · exact List.Sublist.cons_cons op (acceptedOps_sublist err ops _)
    · exact List.Sublist.cons op (acceptedOps_sublist err ops _)

theorem acceptedOps_isAppend (err : Builder → Op → Builder) : ∀ (ops : List Op) (b : Builder),
    ∀ op ∈ acceptedOps err b ops, isAppend op = true
  | [], _, op, h => by simp [acceptedOps] at h
  | o :: ops, b, op, h => by
    simp only [acceptedOps] at h
    split at h
    · rename_i ha
      rcases List.mem_cons.mp h with rfl | h'
      · cases op <;> simp [accepts] at ha <;> rfl
      · exact acceptedOps_isAppend err ops _ op h'
    · exact acceptedOps_isAppend err ops _ op h

/-- a history of appends only never consults the error behaviour -/
theorem run_appends_indep (err err' : Builder → Op → Builder) : ∀ (l : List Op) (b : Builder),
    (∀ op ∈ l, isAppend op = true) → run err b l = run err' b l
  | [], _, _ => rfl
  | op :: l, b, h => by
    have h1 : step err b op = step err' b op := by
      have := h op (by simp)
      cases op <;> simp [isAppend] at this <;> rfl
    rw [run_cons, run_cons, h1]
    exact run_appends_indep err err' l _ (fun o ho => h o (by simp [ho]))

/-! ### C14 (builder half) -/

/-- **The finally exported square depends only on the accepted appends** — from any append-only
    start state `b0` (one that has kept `N` and `B`), for every history `ops` of appends, exports
    and queries, and for every behaviour `err` on errors allowed by `ErrState`: the final `Export`
    returns the same square (or the same error) as after the accepted appends alone. -/
theorem export_depends_only_on_accepted_of_kept (err : Builder → Op → Builder)
    (herr : ∀ b op, ErrState b (err b op)) (b0 : Builder) (N : List Bytes) (B : List BlobTx) (hk : Kept b0 N B)
    (ops : List Op) :
    (run err b0 ops).exportSquare.map (·.2) = (run err b0 (acceptedOps err b0 ops)).exportSquare.map (·.2) := by
  obtain ⟨h1, h2, _⟩ := run_invariant err herr ops b0 b0 N B (Equiv.refl b0) hk
  exact exportSquare_equiv _ _ _ _ h1 h2

/-- **C14 (builder half).** For a fresh builder and every history `ops` — appends (accepted or
    refused), `Export`s, `FindTxShareRange`, `FindBlobStartingIndex`, `BlobShareLength` and
    `GetWrappedPFB` queries, interleaved in any way — the final `Export` returns exactly what a
    fresh builder returns that was fed only the accepted appends, in order. -/
theorem export_depends_only_on_accepted (err : Builder → Op → Builder)
    (herr : ∀ b op, ErrState b (err b op)) (max thr : Nat) (b0 : Builder) (h0 : Builder.new max thr = .ok b0)
    (ops : List Op) :
    (run err b0 ops).exportSquare.map (·.2) = (run err b0 (acceptedOps err b0 ops)).exportSquare.map (·.2) :=
  export_depends_only_on_accepted_of_kept err herr b0 [] [] (kept_new max thr b0 h0).1 ops

/-- what the reference history is: a sub-history of `ops` made of appends only, every one of which
    the fresh builder accepts again on replay; it ends in the append-only state that has kept
    exactly the accepted ordinary and blob transactions (`Kept`, hence the closed-form estimate,
    counters, placeholder wrappers and unsorted elements of Proofs/Builder.lean). -/
theorem accepted_history (err : Builder → Op → Builder) (herr : ∀ b op, ErrState b (err b op))
    (max thr : Nat) (b0 : Builder) (h0 : Builder.new max thr = .ok b0) (ops : List Op) :
    (acceptedOps err b0 ops).Sublist ops ∧
    (∀ op ∈ acceptedOps err b0 ops, isAppend op = true) ∧
    acceptedOps err b0 (acceptedOps err b0 ops) = acceptedOps err b0 ops ∧
    Kept (run err b0 (acceptedOps err b0 ops)) (keptTxs (acceptedOps err b0 ops))
      (keptBlobTxs (acceptedOps err b0 ops)) := by
  obtain ⟨_, h2, h3⟩ := run_invariant err herr ops b0 b0 [] [] (Equiv.refl b0) (kept_new max thr b0 h0).1
  exact ⟨acceptedOps_sublist err ops b0, acceptedOps_isAppend err ops b0, h3, by simpa using h2⟩

/-- two histories (possibly with different error behaviours) with the same accepted appends export
    the same square -/
theorem same_accepted_same_export (err1 err2 : Builder → Op → Builder)
    (herr1 : ∀ b op, ErrState b (err1 b op)) (herr2 : ∀ b op, ErrState b (err2 b op))
    (max thr : Nat) (b0 : Builder) (h0 : Builder.new max thr = .ok b0) (ops1 ops2 : List Op)
    (h : acceptedOps err1 b0 ops1 = acceptedOps err2 b0 ops2) :
    (run err1 b0 ops1).exportSquare.map (·.2) = (run err2 b0 ops2).exportSquare.map (·.2) := by
  rw [export_depends_only_on_accepted err1 herr1 max thr b0 h0 ops1,
    export_depends_only_on_accepted err2 herr2 max thr b0 h0 ops2, h,
    run_appends_indep err1 err2 _ b0 (acceptedOps_isAppend err2 ops2 b0)]

/-! ### the two deterministic resolutions of the error case -/

/-- an error leaves the builder untouched -/
def errUnchanged : Builder → Op → Builder := fun b _ => b

/-- an error leaves the builder exported whenever `Export` succeeds on it -/
def errExported : Builder → Op → Builder := fun b _ =>
  match b.exportSquare with
  | .ok (b', _) => b'
  | .error _ => b

theorem errUnchanged_ok (b : Builder) (op : Op) : ErrState b (errUnchanged b op) := Or.inl rfl

theorem errExported_ok (b : Builder) (op : Op) : ErrState b (errExported b op) := by
  unfold errExported
  cases h : b.exportSquare with
  | error e => exact Or.inl rfl
  | ok x => exact Or.inr (Or.inl ⟨x.2, h⟩)

theorem export_depends_only_on_accepted_unchanged (max thr : Nat) (b0 : Builder)
    (h0 : Builder.new max thr = .ok b0) (ops : List Op) :
    (run errUnchanged b0 ops).exportSquare.map (·.2) =
      (run errUnchanged b0 (acceptedOps errUnchanged b0 ops)).exportSquare.map (·.2) :=
  export_depends_only_on_accepted errUnchanged errUnchanged_ok max thr b0 h0 ops

theorem export_depends_only_on_accepted_exported (max thr : Nat) (b0 : Builder)
    (h0 : Builder.new max thr = .ok b0) (ops : List Op) :
    (run errExported b0 ops).exportSquare.map (·.2) =
      (run errExported b0 (acceptedOps errExported b0 ops)).exportSquare.map (·.2) :=
  export_depends_only_on_accepted errExported errExported_ok max thr b0 h0 ops

/-- `Export` is idempotent on reachable states: a second `Export` returns the same square -/
theorem export_twice (err : Builder → Op → Builder) (herr : ∀ b op, ErrState b (err b op))
    (max thr : Nat) (b0 : Builder) (h0 : Builder.new max thr = .ok b0) (ops : List Op)
    (b' : Builder) (sq : List Bytes) (h : (run err b0 ops).exportSquare = .ok (b', sq)) :
    b'.exportSquare.map (·.2) = .ok sq := by
  obtain ⟨h1, h2, _⟩ := run_invariant err herr ops b0 b0 [] [] (Equiv.refl b0) (kept_new max thr b0 h0).1
  have he : Equiv b' (run err b0 (acceptedOps err b0 ops)) := (exported_equiv _ b' sq h).trans h1
  rw [exportSquare_equiv _ _ _ _ he h2, ← exportSquare_equiv _ _ _ _ h1 h2, h]
  rfl

/-! ### a concrete history (non-vacuity) -/

def exBlob (x : UInt8) : Blob := { ns := List.replicate 28 0 ++ [x], data := [1, 2, 3], ver := 0, signer := none }

/-- appends before and after an `Export`, succeeding and failing queries (`blobIdx 2 0` exports
    again and finds the blob moved from share 2 to share 3; `wrappedPFB 7` is out of range), a
    refused blob transaction -/
def exOps : List Op :=
  [.tx [1, 2, 3], .blobTx { tx := [9], blobs := [exBlob 7] }, .export, .txRange 0,
   .tx (List.replicate 600 0), .blobIdx 2 0, .wrappedPFB 7,
   .blobTx { tx := [8], blobs := List.replicate 15 (exBlob 4) },
   .tx [4], .export, .blobLen 3 0]

def exB0 : Builder := { maxSquareSize := 4, thr := 64 }

example : Builder.new 4 64 = .ok exB0 := by rfl

example :
    acceptedOps errUnchanged exB0 exOps =
      [.tx [1, 2, 3], .blobTx { tx := [9], blobs := [exBlob 7] }, .tx (List.replicate 600 0), .tx [4]] ∧
    (run errUnchanged exB0 (exOps.take 3)).pfbs.map (·.shareIndexes) = [[2]] ∧
    (run errUnchanged exB0 (exOps.take 6)).pfbs.map (·.shareIndexes) = [[3]] ∧
    (match (run errUnchanged exB0 exOps).exportSquare with
      | .ok (b, sq) => sq.length == 4 && b.pfbs.map (·.shareIndexes) == [[3]]
      | .error _ => false) = true := by
  decide +kernel

end GoSquare.BuilderHistory
