import GoSquare.Proofs.Square
import GoSquare.Properties.C10
/-! `WriteSquare` as a concatenation: tx shares ‖ pfb shares ‖ reserved padding ‖ blob shares ‖
    tail padding. -/
namespace GoSquare
open Builder

/-- `copy(dst[i:], src)` when dst = a ++ b, |a| = i and src fits into b -/
theorem copyAt_append {α} (a b src : List α) (i : Nat) (hi : a.length = i) (hs : src.length ≤ b.length) :
    copyAt (a ++ b) i src = .ok (a ++ src ++ b.drop src.length) := by
  subst hi
  unfold copyAt
  have h1 : ¬ (a.length > (a ++ b).length) := by
    simp only [List.length_append]; omega
  rw [if_neg h1]
  have h2 : min src.length ((a ++ b).length - a.length) = src.length := by
    simp only [List.length_append]; omega
  simp only [h2]
  have h3 : (a ++ b).take a.length = a := List.take_left' rfl
  have h4 : src.take src.length = src := List.take_length
  have h5 : (a ++ b).drop (a.length + src.length) = b.drop src.length := by
    rw [← List.drop_drop, List.drop_left' rfl]
  rw [h3, h4, h5]

/-- `WriteSquare` is the concatenation tx shares ‖ pfb shares ‖ reserved padding ‖ blob shares ‖ tail padding -/
theorem writeSquare_concat (txW pfbW tw pw : CompactSplitter) (bs : List Bytes) (nrs ss : Nat)
    (sq txS pfbS : List Bytes)
    (htx : txW.exportShares = .ok (tw, txS)) (hpfb : pfbW.exportShares = .ok (pw, pfbS))
    (hl1 : txS.length = txW.count) (hl2 : pfbS.length = pfbW.count)
    (hbs : bs = [] → nrs = txW.count + pfbW.count)
    (h : writeSquare txW pfbW bs nrs ss = .ok sq) :
    sq = txS ++ pfbS ++
         List.replicate (nrs - (txW.count + pfbW.count)) (Spec.paddingShare primaryReservedPaddingNamespace 0) ++
         bs ++
         List.replicate (ss * ss - (nrs + bs.length)) (Spec.paddingShare tailPaddingNamespace 0) ∧
    txW.count + pfbW.count ≤ nrs ∧ nrs + bs.length ≤ ss * ss := by
  unfold writeSquare at h
  simp only [bind, Except.bind, pure, Except.pure, throw, throwThe, MonadExceptOf.throw] at h
  by_cases g1 : nrs < txW.count + pfbW.count
  · rw [if_pos g1] at h; cases h
  rw [if_neg g1] at h
  rw [(C10.reserved_and_tail_padding _).1] at h
  simp only [Except.mapError] at h
  by_cases g2 : ss * ss < nrs + bs.length
  · rw [if_pos g2] at h; cases h
  rw [if_neg g2] at h
  rw [htx, hpfb] at h
  simp only [] at h
  refine ⟨?_, by omega, by omega⟩
  -- first copy: tx shares
  have c1 : copyAt (List.replicate (ss * ss) ([] : Bytes)) 0 txS
      = .ok (txS ++ List.replicate (ss * ss - txW.count) []) := by
    have := copyAt_append ([] : List Bytes) (List.replicate (ss * ss) []) txS 0 rfl
      (by simp only [List.length_replicate]; omega)
    simpa only [List.nil_append, List.drop_replicate, hl1] using this
  rw [c1] at h
  simp only [] at h
  -- second copy: pfb shares
  have c2 : copyAt (txS ++ List.replicate (ss * ss - txW.count) ([] : Bytes)) txW.count pfbS
      = .ok (txS ++ pfbS ++ List.replicate (ss * ss - txW.count - pfbW.count) []) := by
    have := copyAt_append txS (List.replicate (ss * ss - txW.count) []) pfbS txW.count hl1
      (by simp only [List.length_replicate]; omega)
    simpa only [List.drop_replicate, hl2] using this
  rw [c2] at h
  simp only [] at h
  by_cases g3 : bs.length > 0
  · rw [if_pos g3] at h
    -- third copy: reserved padding
    have c3 : copyAt (txS ++ pfbS ++ List.replicate (ss * ss - txW.count - pfbW.count) ([] : Bytes))
        (txW.count + pfbW.count)
        (List.replicate (nrs - (txW.count + pfbW.count)) (Spec.paddingShare primaryReservedPaddingNamespace 0))
        = .ok (txS ++ pfbS ++
            List.replicate (nrs - (txW.count + pfbW.count)) (Spec.paddingShare primaryReservedPaddingNamespace 0) ++
            List.replicate (ss * ss - txW.count - pfbW.count - (nrs - (txW.count + pfbW.count))) []) := by
      have := copyAt_append (txS ++ pfbS) (List.replicate (ss * ss - txW.count - pfbW.count) [])
        (List.replicate (nrs - (txW.count + pfbW.count)) (Spec.paddingShare primaryReservedPaddingNamespace 0))
        (txW.count + pfbW.count) (by simp only [List.length_append]; omega)
        (by simp only [List.length_replicate]; omega)
      simpa only [List.drop_replicate, List.length_replicate] using this
    rw [c3] at h
    simp only [] at h
    -- fourth copy: blob shares
    have c4 : copyAt (txS ++ pfbS ++
            List.replicate (nrs - (txW.count + pfbW.count)) (Spec.paddingShare primaryReservedPaddingNamespace 0) ++
            List.replicate (ss * ss - txW.count - pfbW.count - (nrs - (txW.count + pfbW.count))) ([] : Bytes))
        nrs bs
        = .ok (txS ++ pfbS ++
            List.replicate (nrs - (txW.count + pfbW.count)) (Spec.paddingShare primaryReservedPaddingNamespace 0) ++
            bs ++ List.replicate (ss * ss - (nrs + bs.length)) []) := by
      have := copyAt_append (txS ++ pfbS ++
            List.replicate (nrs - (txW.count + pfbW.count)) (Spec.paddingShare primaryReservedPaddingNamespace 0))
        (List.replicate (ss * ss - txW.count - pfbW.count - (nrs - (txW.count + pfbW.count))) []) bs nrs
        (by simp only [List.length_append, List.length_replicate]; omega)
        (by simp only [List.length_replicate]; omega)
      rw [this, List.drop_replicate]
      have e : ss * ss - txW.count - pfbW.count - (nrs - (txW.count + pfbW.count)) - bs.length
          = ss * ss - (nrs + bs.length) := by omega
      rw [e]
    rw [c4] at h
    simp only [] at h
    by_cases g4 : ss * ss > nrs + bs.length
    · rw [if_pos g4] at h
      rw [(C10.reserved_and_tail_padding _).2] at h
      simp only [] at h
      have := copyAt_append (txS ++ pfbS ++
            List.replicate (nrs - (txW.count + pfbW.count)) (Spec.paddingShare primaryReservedPaddingNamespace 0) ++
            bs) (List.replicate (ss * ss - (nrs + bs.length)) ([] : Bytes))
        (List.replicate (ss * ss - (nrs + bs.length)) (Spec.paddingShare tailPaddingNamespace 0))
        (nrs + bs.length)
        (by simp only [List.length_append, List.length_replicate]; omega)
        (by simp only [List.length_replicate]; omega)
      rw [this] at h
      simp only [Except.ok.injEq, List.drop_replicate, List.length_replicate, Nat.sub_self,
        List.replicate_zero, List.append_nil] at h
      exact h.symm
    · rw [if_neg g4] at h
      have e : ss * ss - (nrs + bs.length) = 0 := by omega
      simp only [Except.ok.injEq] at h
      rw [e] at h ⊢
      simp only [List.replicate_zero, List.append_nil] at h ⊢
      exact h.symm
  · rw [if_neg g3] at h
    have hb : bs = [] := List.eq_nil_of_length_eq_zero (by omega)
    have hn := hbs hb
    subst hb
    simp only [List.length_nil, Nat.add_zero, List.append_nil] at h ⊢
    have e0 : nrs - (txW.count + pfbW.count) = 0 := by omega
    rw [e0]
    simp only [List.replicate_zero, List.append_nil]
    have e1 : ss * ss - txW.count - pfbW.count = ss * ss - nrs := by omega
    rw [e1] at h
    by_cases g4 : ss * ss > nrs
    · rw [if_pos g4] at h
      rw [(C10.reserved_and_tail_padding _).2] at h
      simp only [] at h
      have := copyAt_append (txS ++ pfbS) (List.replicate (ss * ss - nrs) ([] : Bytes))
        (List.replicate (ss * ss - nrs) (Spec.paddingShare tailPaddingNamespace 0))
        nrs
        (by simp only [List.length_append]; omega)
        (by simp only [List.length_replicate]; omega)
      rw [this] at h
      simp only [Except.ok.injEq, List.drop_replicate, List.length_replicate, Nat.sub_self,
        List.replicate_zero, List.append_nil] at h
      exact h.symm
    · rw [if_neg g4] at h
      have e : ss * ss - nrs = 0 := by omega
      simp only [Except.ok.injEq] at h
      rw [e] at h ⊢
      simp only [List.replicate_zero, List.append_nil] at h ⊢
      exact h.symm

end GoSquare
