import GoSquare.Properties.C02
import GoSquare.Properties.C03
import GoSquare.Properties.C06
import GoSquare.Properties.C07
import GoSquare.Properties.C19
/-! # The decoder hypotheses are local to the input list

`build dec txs max thr` and `construct dec txs max thr` take the blob-transaction decoder as a
parameter and only ever call it on the elements of `txs` (`build_congr`, `construct_congr`; the
same holds of the specification: `spec_build_congr`, `spec_construct_congr`). The main theorems
(C02, C03, C06, C07) assume `DecValid dec` / `C03.DecUser dec` for ALL byte strings, which the
modelled real decoder `unmarshalBlobTx` does not satisfy (it does not validate blob namespaces).
Here every such theorem is restated with the hypotheses restricted to the transactions that are
actually IN THE INPUT LIST (`DecValidOn dec txs`, `DecUserOn dec txs`), by transporting along the
decoder `restrict dec txs` that answers `.normal` outside `txs`. The last section shows that the
local hypotheses are satisfiable with `dec := unmarshalBlobTx`. -/
namespace GoSquare.DecLocal
open GoSquare Builder Spec

/-! ### 1. locality: only the values of `dec` on the input list matter -/

theorem buildLoop_congr (dec dec' : Bytes → Decoded) : ∀ (txs : List Bytes) (b : Builder) (n bl : List Bytes),
    (∀ t ∈ txs, dec t = dec' t) → buildLoop dec txs b n bl = buildLoop dec' txs b n bl
  | [], _, _, _, _ => by simp only [buildLoop]
  | t :: rest, b, n, bl, h => by
    have ht : dec t = dec' t := h t (by simp)
    have ih := fun b n bl => buildLoop_congr dec dec' rest b n bl (fun u hu => h u (by simp [hu]))
    simp only [buildLoop, ← ht, ih]

theorem appendAll_congr (dec dec' : Bytes → Decoded) : ∀ (txs : List Bytes) (b : Builder) (seen : Bool),
    (∀ t ∈ txs, dec t = dec' t) → appendAll dec txs b seen = appendAll dec' txs b seen
  | [], _, _, _ => by simp only [appendAll]
  | t :: rest, b, seen, h => by
    have ht : dec t = dec' t := h t (by simp)
    have ih := fun b seen => appendAll_congr dec dec' rest b seen (fun u hu => h u (by simp [hu]))
    simp only [appendAll, ← ht, ih]

/-- `Build` reads the decoder only on the transactions of the input list -/
theorem build_congr (dec dec' : Bytes → Decoded) (txs : List Bytes) (max thr : Nat)
    (h : ∀ t ∈ txs, dec t = dec' t) : build dec txs max thr = build dec' txs max thr := by
  unfold build
  simp only [buildLoop_congr dec dec' txs _ _ _ h]

/-- `Construct` reads the decoder only on the transactions of the input list -/
theorem construct_congr (dec dec' : Bytes → Decoded) (txs : List Bytes) (max thr : Nat)
    (h : ∀ t ∈ txs, dec t = dec' t) : construct dec txs max thr = construct dec' txs max thr := by
  unfold construct Builder.newWithTxs
  simp only [appendAll_congr dec dec' txs _ _ h]

theorem spec_select_congr (dec dec' : Bytes → Decoded) (max thr : Nat) : ∀ (txs : List Bytes) (n : List Bytes)
    (p : List PTx), (∀ t ∈ txs, dec t = dec' t) → Spec.select dec max thr txs n p = Spec.select dec' max thr txs n p
  | [], _, _, _ => by simp only [Spec.select]
  | t :: rest, n, p, h => by
    have ht : dec t = dec' t := h t (by simp)
    have ih := fun n p => spec_select_congr dec dec' max thr rest n p (fun u hu => h u (by simp [hu]))
    simp only [Spec.select, ← ht, ih]

/-- the specification `Spec.build` reads the decoder only on the input list -/
theorem spec_build_congr (dec dec' : Bytes → Decoded) (txs : List Bytes) (max thr : Nat)
    (h : ∀ t ∈ txs, dec t = dec' t) : Spec.build dec txs max thr = Spec.build dec' txs max thr := by
  unfold Spec.build
  simp only [spec_select_congr dec dec' max thr txs _ _ h]

/-- the specification `Spec.construct` reads the decoder only on the input list -/
theorem spec_construct_congr (dec dec' : Bytes → Decoded) (txs : List Bytes) (max thr : Nat)
    (h : ∀ t ∈ txs, dec t = dec' t) : Spec.construct dec txs max thr = Spec.construct dec' txs max thr := by
  -- the list of kinds (0 = ordinary, 1 = blob transaction) is the same
  have hk : ∀ M : Decoded → Nat, txs.map (fun t => M (dec t)) = txs.map (fun t => M (dec' t)) :=
    fun M => List.map_congr_left (fun t ht => by rw [h t ht])
  unfold Spec.construct
  rw [spec_select_congr dec dec' max thr txs _ _ h]
  split
  · rfl
  · exact congrArg (fun kinds : List Nat => if kinds ≠ kinds.mergeSort (· ≤ ·) then none else
        match select dec' max thr txs [] [] with
        | none => none
        | some (n, p) => if n.length + p.length ≠ txs.length then none else layout thr n p)
      (hk (fun d => match d with | .normal => 0 | _ => 1))

/-! ### 2. restriction of a decoder to the input list -/

/-- `dec` on the transactions of `txs`, "not a blob transaction" everywhere else -/
def restrict (dec : Bytes → Decoded) (txs : List Bytes) : Bytes → Decoded :=
  fun t => if t ∈ txs then dec t else .normal

/-- the blob transactions IN THE LIST decode to blob-valid blobs -/
def DecValidOn (dec : Bytes → Decoded) (txs : List Bytes) : Prop :=
  ∀ t ∈ txs, ∀ bt, dec t = .blobTx bt → ∀ b ∈ bt.blobs, b.BlobValid

/-- the blob transactions IN THE LIST decode to blobs in user namespaces -/
def DecUserOn (dec : Bytes → Decoded) (txs : List Bytes) : Prop :=
  ∀ t ∈ txs, ∀ bt, dec t = .blobTx bt → ∀ b ∈ bt.blobs, UserNs b.ns

theorem restrict_agrees (dec : Bytes → Decoded) (txs : List Bytes) : ∀ t ∈ txs, restrict dec txs t = dec t := by
  intro t ht
  simp only [restrict, ht, if_true]

theorem restrict_of_not_mem (dec : Bytes → Decoded) (txs : List Bytes) (t : Bytes) (ht : t ∉ txs) :
    restrict dec txs t = .normal := by
  simp only [restrict, ht, if_false]

theorem decValid_restrict {dec : Bytes → Decoded} {txs : List Bytes} (h : DecValidOn dec txs) :
    DecValid (restrict dec txs) := by
  intro t bt hbt
  by_cases ht : t ∈ txs
  · rw [restrict_agrees dec txs t ht] at hbt
    exact h t ht bt hbt
  · rw [restrict_of_not_mem dec txs t ht] at hbt
    cases hbt

theorem decUser_restrict {dec : Bytes → Decoded} {txs : List Bytes} (h : DecUserOn dec txs) :
    C03.DecUser (restrict dec txs) := by
  intro t bt hbt
  by_cases ht : t ∈ txs
  · rw [restrict_agrees dec txs t ht] at hbt
    exact h t ht bt hbt
  · rw [restrict_of_not_mem dec txs t ht] at hbt
    cases hbt

/-- the global hypotheses imply the local ones (the local theorems below are generalisations) -/
theorem decValidOn_of_decValid {dec : Bytes → Decoded} (h : DecValid dec) (txs : List Bytes) : DecValidOn dec txs :=
  fun t _ bt hbt => h t bt hbt

theorem decUserOn_of_decUser {dec : Bytes → Decoded} (h : C03.DecUser dec) (txs : List Bytes) : DecUserOn dec txs :=
  fun t _ bt hbt => h t bt hbt

theorem build_restrict (dec : Bytes → Decoded) (txs : List Bytes) (max thr : Nat) :
    build (restrict dec txs) txs max thr = build dec txs max thr :=
  build_congr _ _ txs max thr (restrict_agrees dec txs)

theorem construct_restrict (dec : Bytes → Decoded) (txs : List Bytes) (max thr : Nat) :
    construct (restrict dec txs) txs max thr = construct dec txs max thr :=
  construct_congr _ _ txs max thr (restrict_agrees dec txs)

theorem decB_restrict (dec : Bytes → Decoded) (txs : List Bytes) (t : Bytes) (ht : t ∈ txs) :
    decB (restrict dec txs) t = decB dec t := by
  unfold decB
  rw [restrict_agrees dec txs t ht]

theorem canon_restrict (dec : Bytes → Decoded) (pfbDec : Bytes → Res (List Nat)) (txs : List Bytes) (t : Bytes)
    (ht : t ∈ txs) (h : CanonBlobTx dec pfbDec t) : CanonBlobTx (restrict dec txs) pfbDec t := by
  obtain ⟨h1, h2, h3, h4, h5, h6⟩ := h
  refine ⟨?_, ?_, ?_, ?_, ?_, ?_⟩
  · rw [decB_restrict dec txs t ht, restrict_agrees dec txs t ht]; exact h1
  · rw [decB_restrict dec txs t ht]; exact h2
  · rw [decB_restrict dec txs t ht]; exact h3
  · rw [decB_restrict dec txs t ht]; exact h4
  · rw [decB_restrict dec txs t ht]; exact h5
  · rw [decB_restrict dec txs t ht]; exact h6

/-! ### 3. the properties with the decoder hypotheses restricted to the input list -/

/-- **C03 (`Build`)**, hypotheses only about the transactions in `txs`. -/
theorem build_wellformed_on (dec : Bytes → Decoded) (txs : List Bytes) (hdec : DecValidOn dec txs)
    (hus : DecUserOn dec txs) (max thr : Nat) (hmax : Nat.isPowerOfTwo max)
    (hsz : 478 * (max * max) < 4294967296) (sq kept : List Bytes)
    (h : build dec txs max thr = .ok (sq, kept)) : C03.WellFormed max sq :=
  C03.build_wellformed (restrict dec txs) (decValid_restrict hdec) (decUser_restrict hus) txs max thr hmax hsz sq kept
    (by rw [build_restrict]; exact h)

/-- **C03 (`Construct`)**, hypotheses only about the transactions in `txs`. -/
theorem construct_wellformed_on (dec : Bytes → Decoded) (txs : List Bytes) (hdec : DecValidOn dec txs)
    (hus : DecUserOn dec txs) (max thr : Nat) (hmax : Nat.isPowerOfTwo max)
    (hsz : 478 * (max * max) < 4294967296) (sq : List Bytes)
    (h : construct dec txs max thr = .ok sq) : C03.WellFormed max sq :=
  C03.construct_wellformed (restrict dec txs) (decValid_restrict hdec) (decUser_restrict hus) txs max thr hmax hsz sq
    (by rw [construct_restrict]; exact h)

/-- **C02** `Deconstruct (Construct txs) = txs`, hypotheses only about the transactions in `txs`. -/
theorem deconstruct_construct_on (dec : Bytes → Decoded) (pfbDec : Bytes → Res (List Nat)) (txs : List Bytes)
    (hdec : DecValidOn dec txs) (hus : DecUserOn dec txs) (max thr : Nat) (hmax : Nat.isPowerOfTwo max)
    (hsz : 478 * (max * max) < 4294967296)
    (hord : ∀ t ∈ txs, dec t = .normal → t ≠ [] ∧ t.length < 2 ^ 63)
    (hcanon : ∀ t ∈ txs, dec t = .blobTx (decB dec t) → CanonBlobTx dec pfbDec t)
    (sq : List Bytes) (h : construct dec txs max thr = .ok sq) : deconstruct sq pfbDec = .ok txs :=
  C02.deconstruct_construct (restrict dec txs) pfbDec (decValid_restrict hdec) (decUser_restrict hus) txs max thr hmax hsz
    (fun t ht hn => hord t ht (by rw [← restrict_agrees dec txs t ht]; exact hn))
    (fun t ht hb => canon_restrict dec pfbDec txs t ht
      (hcanon t ht (by rw [← restrict_agrees dec txs t ht, ← decB_restrict dec txs t ht]; exact hb)))
    sq (by rw [construct_restrict]; exact h)

/-- **C06 (greedy building returns no error)**, hypotheses only about the transactions in `txs`. -/
theorem build_returns_no_error_on (dec : Bytes → Decoded) (txs : List Bytes) (hdec : DecValidOn dec txs)
    (hall : ∀ t ∈ txs, dec t ≠ .badBlobTx) (max thr : Nat) (ht : 1 ≤ thr)
    (hcfg : isPowerOfTwo max = true) (hmaxp : Nat.isPowerOfTwo max) (hmax : max ≤ 512) :
    ∃ sq kept, build dec txs max thr = .ok (sq, kept) := by
  obtain ⟨sq, kept, h⟩ := C06.build_returns_no_error (restrict dec txs) (decValid_restrict hdec) txs
    (fun t htm => by rw [restrict_agrees dec txs t htm]; exact hall t htm) max thr ht hcfg hmaxp hmax
  exact ⟨sq, kept, by rw [← build_restrict]; exact h⟩

/-- **C07 (`Build` = the specification)**, hypotheses only about the transactions in `txs`. -/
theorem build_is_the_specified_layout_on (dec : Bytes → Decoded) (txs : List Bytes) (hdec : DecValidOn dec txs)
    (max thr : Nat) (ht : 1 ≤ thr) (hcfg : Spec.validConfig max = true) (hsz : 478 * (max * max) < 4294967296)
    (sq kept : List Bytes) (h : build dec txs max thr = .ok (sq, kept)) :
    Spec.build dec txs max thr = some (sq, kept) := by
  rw [← spec_build_congr (restrict dec txs) dec txs max thr (restrict_agrees dec txs)]
  exact C07.build_is_the_specified_layout (restrict dec txs) (decValid_restrict hdec) txs max thr ht hcfg hsz sq kept
    (by rw [build_restrict]; exact h)

/-- **C07 (`Construct` = the specification)**, hypotheses only about the transactions in `txs`. -/
theorem construct_is_the_specified_layout_on (dec : Bytes → Decoded) (txs : List Bytes) (hdec : DecValidOn dec txs)
    (max thr : Nat) (ht : 1 ≤ thr) (hcfg : Spec.validConfig max = true) (hsz : 478 * (max * max) < 4294967296)
    (sq : List Bytes) (h : construct dec txs max thr = .ok sq) :
    Spec.construct dec txs max thr = some sq := by
  rw [← spec_construct_congr (restrict dec txs) dec txs max thr (restrict_agrees dec txs)]
  exact C07.construct_is_the_specified_layout (restrict dec txs) (decValid_restrict hdec) txs max thr ht hcfg hsz sq
    (by rw [construct_restrict]; exact h)

/-! ### 4. the local hypotheses hold of the modelled real decoder -/

/-- a byte string that is what `MarshalBlobTx` returns for an inner transaction and a non-empty
    list of proto-representable (in particular blob-valid) blobs in user namespaces -/
def MarshalledValid (t : Bytes) : Prop :=
  ∃ (tx : Bytes) (blobs : List Blob), blobs ≠ [] ∧ (∀ b ∈ blobs, C19.ProtoBlob b) ∧ (∀ b ∈ blobs, UserNs b.ns) ∧
    C19.SmallBTx { tx, blobs := blobs.map Blob.toProto, typeId := blobTxTypeId } ∧ marshalBlobTx tx blobs = some t

/-- `UnmarshalBlobTx` of such a byte string is the blob transaction it was made from -/
theorem unmarshal_of_marshalledValid (t : Bytes) (h : MarshalledValid t) :
    ∃ bt, unmarshalBlobTx t = .blobTx bt ∧ bt.blobs ≠ [] ∧ (∀ b ∈ bt.blobs, b.BlobValid) ∧
      (∀ b ∈ bt.blobs, UserNs b.ns) ∧ marshalBlobTx bt.tx bt.blobs = some t := by
  obtain ⟨tx, blobs, hne, hb, hu, hs, hm⟩ := h
  obtain ⟨raw, hm', hun⟩ := C19.unmarshalBlobTx_marshal tx blobs hne hb hs
  rw [hm] at hm'
  simp only [Option.some.injEq] at hm'
  subst hm'
  exact ⟨{ tx, blobs }, hun, hne, fun b hbm => (hb b hbm).valid, hu, hm⟩

/-- **Satisfiability with the modelled real decoder.** If every transaction of the list is either
    ordinary for `UnmarshalBlobTx` or the `MarshalBlobTx` of valid parts, then the local hypotheses
    hold of `unmarshalBlobTx` — although `DecValid unmarshalBlobTx` does not. -/
theorem decOn_unmarshalBlobTx (txs : List Bytes)
    (h : ∀ t ∈ txs, unmarshalBlobTx t = .normal ∨ MarshalledValid t) :
    DecValidOn unmarshalBlobTx txs ∧ DecUserOn unmarshalBlobTx txs ∧ (∀ t ∈ txs, unmarshalBlobTx t ≠ .badBlobTx) := by
  refine ⟨?_, ?_, ?_⟩
  · intro t ht bt hbt b hb
    rcases h t ht with hn | hmv
    · rw [hn] at hbt; cases hbt
    · obtain ⟨bt', hun, _, hv, _, _⟩ := unmarshal_of_marshalledValid t hmv
      rw [hun] at hbt
      simp only [Decoded.blobTx.injEq] at hbt
      subst hbt
      exact hv b hb
  · intro t ht bt hbt b hb
    rcases h t ht with hn | hmv
    · rw [hn] at hbt; cases hbt
    · obtain ⟨bt', hun, _, _, hu, _⟩ := unmarshal_of_marshalledValid t hmv
      rw [hun] at hbt
      simp only [Decoded.blobTx.injEq] at hbt
      subst hbt
      exact hu b hb
  · intro t ht hbad
    rcases h t ht with hn | hmv
    · rw [hn] at hbad; cases hbad
    · obtain ⟨bt', hun, _⟩ := unmarshal_of_marshalledValid t hmv
      rw [hun] at hbad; cases hbad

/-- the same for a list of ordinary transactions followed by marshalled blob transactions -/
theorem decOn_unmarshalBlobTx_append (ordinary blobTxs : List Bytes)
    (ho : ∀ t ∈ ordinary, unmarshalBlobTx t = .normal) (hb : ∀ t ∈ blobTxs, MarshalledValid t) :
    DecValidOn unmarshalBlobTx (ordinary ++ blobTxs) ∧ DecUserOn unmarshalBlobTx (ordinary ++ blobTxs) ∧
      (∀ t ∈ ordinary ++ blobTxs, unmarshalBlobTx t ≠ .badBlobTx) :=
  decOn_unmarshalBlobTx _ (fun t ht => by
    rcases List.mem_append.mp ht with h | h
    · exact Or.inl (ho t h)
    · exact Or.inr (hb t h))

/-- C03 for `Construct` with the modelled real decoder, on ordinary transactions followed by
    marshalled blob transactions: no hypothesis about the decoder remains. -/
theorem construct_wellformed_unmarshalBlobTx (ordinary blobTxs : List Bytes)
    (ho : ∀ t ∈ ordinary, unmarshalBlobTx t = .normal) (hb : ∀ t ∈ blobTxs, MarshalledValid t)
    (max thr : Nat) (hmax : Nat.isPowerOfTwo max) (hsz : 478 * (max * max) < 4294967296) (sq : List Bytes)
    (h : construct unmarshalBlobTx (ordinary ++ blobTxs) max thr = .ok sq) : C03.WellFormed max sq := by
  obtain ⟨h1, h2, _⟩ := decOn_unmarshalBlobTx_append ordinary blobTxs ho hb
  exact construct_wellformed_on unmarshalBlobTx _ h1 h2 max thr hmax hsz sq h

/-- C06 for `Build` with the modelled real decoder: greedy building of such a list never fails. -/
theorem build_returns_no_error_unmarshalBlobTx (txs : List Bytes)
    (h : ∀ t ∈ txs, unmarshalBlobTx t = .normal ∨ MarshalledValid t) (max thr : Nat) (ht : 1 ≤ thr)
    (hcfg : isPowerOfTwo max = true) (hmaxp : Nat.isPowerOfTwo max) (hmax : max ≤ 512) :
    ∃ sq kept, build unmarshalBlobTx txs max thr = .ok (sq, kept) := by
  obtain ⟨h1, _, h3⟩ := decOn_unmarshalBlobTx txs h
  exact build_returns_no_error_on unmarshalBlobTx txs h1 h3 max thr ht hcfg hmaxp hmax

/-- C02 with the modelled real decoder, no hypothesis about the decoder: a list in which every
    transaction is either a non-empty ordinary one or the `MarshalBlobTx` of an inner transaction
    (whose blob sizes the PFB decoder reports) and proto-representable blobs in user namespaces
    round-trips through `Construct` and `Deconstruct`. -/
theorem deconstruct_construct_unmarshalBlobTx (pfbDec : Bytes → Res (List Nat)) (txs : List Bytes)
    (htx : ∀ t ∈ txs, (unmarshalBlobTx t = .normal ∧ t ≠ [] ∧ t.length < 2 ^ 63) ∨
      (∃ (tx : Bytes) (blobs : List Blob), blobs ≠ [] ∧ (∀ b ∈ blobs, C19.ProtoBlob b) ∧ (∀ b ∈ blobs, UserNs b.ns) ∧
        C19.SmallBTx { tx, blobs := blobs.map Blob.toProto, typeId := blobTxTypeId } ∧
        pfbDec tx = .ok (blobs.map (·.data.length)) ∧ blobs.length < 4294967296 ∧ marshalBlobTx tx blobs = some t))
    (max thr : Nat) (hmax : Nat.isPowerOfTwo max) (hsz : 478 * (max * max) < 4294967296)
    (sq : List Bytes) (h : construct unmarshalBlobTx txs max thr = .ok sq) : deconstruct sq pfbDec = .ok txs := by
  have hmv : ∀ t ∈ txs, unmarshalBlobTx t = .normal ∨ MarshalledValid t := by
    intro t ht
    rcases htx t ht with ⟨hn, _⟩ | ⟨tx, blobs, hne, hb, hu, hs, _, _, hm⟩
    · exact Or.inl hn
    · exact Or.inr ⟨tx, blobs, hne, hb, hu, hs, hm⟩
  obtain ⟨h1, h2, _⟩ := decOn_unmarshalBlobTx txs hmv
  refine deconstruct_construct_on unmarshalBlobTx pfbDec txs h1 h2 max thr hmax hsz ?_ ?_ sq h
  · intro t ht hn
    rcases htx t ht with ⟨_, h3, h4⟩ | ⟨tx, blobs, hne, hb, hu, hs, _, _, hm⟩
    · exact ⟨h3, h4⟩
    · obtain ⟨bt, hun, _⟩ := unmarshal_of_marshalledValid t ⟨tx, blobs, hne, hb, hu, hs, hm⟩
      rw [hun] at hn; cases hn
  · intro t ht hbt
    rcases htx t ht with ⟨hn, _⟩ | ⟨tx, blobs, hne, hb, _, hs, hpfb, hcount, hm⟩
    · rw [hn] at hbt; cases hbt
    · obtain ⟨raw, hm', hc⟩ := C02.canon_of_marshal pfbDec tx blobs hne hb hs hpfb hcount
      rw [hm] at hm'
      simp only [Option.some.injEq] at hm'
      subst hm'
      exact hc

end GoSquare.DecLocal
