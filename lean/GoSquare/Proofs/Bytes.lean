import GoSquare.Model.Bytes
/-! Helper lemmas about the byte-level primitives: big-endian uint32, varints. -/
namespace GoSquare

@[simp] theorem zeros_length (n : Nat) : (zeros n).length = n := by simp [zeros]
@[simp] theorem be32_length (n : Nat) : (be32 n).length = 4 := by simp [be32]

theorem toUInt8_toNat_of_lt {n : Nat} (h : n < 256) : n.toUInt8.toNat = n := by
  simp; omega

/-- `binary.BigEndian.Uint32(PutUint32(n)) = n` for every uint32 -/
theorem readBe32_be32 (n : Nat) (h : n < 4294967296) (rest : Bytes) : readBe32 (be32 n ++ rest) = n := by
  simp only [be32, List.cons_append, List.nil_append, readBe32]
  rw [toUInt8_toNat_of_lt (Nat.mod_lt _ (by omega)), toUInt8_toNat_of_lt (Nat.mod_lt _ (by omega)),
    toUInt8_toNat_of_lt (Nat.mod_lt _ (by omega)), toUInt8_toNat_of_lt (Nat.mod_lt _ (by omega))]
  omega

theorem uvarintLen_pos (n : Nat) : 1 ≤ uvarintLen n := by
  rw [uvarintLen]; split <;> omega

theorem uvarint_length (n : Nat) : (uvarint n).length = uvarintLen n := by
  induction n using Nat.strongRecOn with
  | _ n ih =>
    rw [uvarint, uvarintLen]
    split
    · simp
    · rename_i h
      simp [ih (n / 128) (by omega)]; omega

/-- the reader loop on a canonical varint followed by anything: value and bytes consumed.
    `i` bytes were read before; the varint must end within the 10-byte limit. -/
theorem readUvarintAux_uvarint (n : Nat) : ∀ (rest : Bytes) (i shift acc : Nat),
    i + uvarintLen n ≤ 9 →
    readUvarintAux (uvarint n ++ rest) i shift acc = some (acc + n * 2 ^ shift, i + uvarintLen n) := by
  induction n using Nat.strongRecOn with
  | _ n ih =>
    intro rest i shift acc hi
    rw [uvarint, uvarintLen] at *
    split
    · rename_i h
      rw [if_pos h] at hi
      simp only [List.cons_append, List.nil_append, readUvarintAux]
      have h1 : ¬ i ≥ 10 := by omega
      have h2 : n.toUInt8 < 128 := by rw [UInt8.lt_iff_toNat_lt]; simp; omega
      have h3 : ¬ (i = 9 ∧ n.toUInt8 > 1) := by omega
      have h4 : n.toUInt8.toNat = n := by simp; omega
      simp [h1, h2, h3, h4]
    · rename_i h
      rw [if_neg h] at hi
      simp only [List.cons_append, readUvarintAux]
      have h1 : ¬ i ≥ 10 := by omega
      have h2 : ¬ ((n % 128 + 128).toUInt8 < 128) := by rw [UInt8.lt_iff_toNat_lt]; simp; omega
      have h4 : (n % 128 + 128).toUInt8.toNat = n % 128 + 128 := by simp; omega
      simp only [h1, h2, if_false, h4]
      rw [ih (n / 128) (by omega) rest (i + 1) (shift + 7) _ (by omega)]
      · rw [Nat.add_sub_cancel, Nat.pow_add]
        have h5 : n = n % 128 + 128 * (n / 128) := by omega
        generalize 2 ^ shift = p
        have h6 : n / 128 * (p * 2 ^ 7) = 128 * (n / 128) * p := by
          rw [Nat.mul_comm p, ← Nat.mul_assoc, Nat.mul_comm (n / 128)]
        rw [h6, Nat.add_assoc, ← Nat.add_mul, ← h5]
        have e : i + 1 + uvarintLen (n / 128) = i + (1 + uvarintLen (n / 128)) := by omega
        rw [e]

/-- values below 2^63 have varints of at most 9 bytes -/
theorem uvarintLen_le_nine (n : Nat) (h : n < 2 ^ 63) : uvarintLen n ≤ 9 := by
  have step : ∀ k m, m < 128 ^ k → 1 ≤ k → uvarintLen m ≤ k := by
    intro k
    induction k with
    | zero => intro m _ hk; omega
    | succ k ih =>
      intro m hm _
      rw [uvarintLen]
      split
      · omega
      · rename_i h128
        have : m / 128 < 128 ^ k := by
          rw [Nat.pow_succ] at hm
          exact (Nat.div_lt_iff_lt_mul (by omega)).mpr hm
        have hk1 : 1 ≤ k := by
          rcases Nat.eq_zero_or_pos k with h0 | h0
          · subst h0; simp at this; omega
          · exact h0
        have := ih (m / 128) this hk1
        omega
  exact step 9 n (by calc n < 2 ^ 63 := h
    _ = 128 ^ 9 := by decide) (by omega)

/-- **uvarint round trip.** `binary.ReadUvarint(PutUvarint(n) ‖ rest) = (n, len)` -/
theorem readUvarint_uvarint (n : Nat) (h : n < 2 ^ 63) (rest : Bytes) :
    readUvarint (uvarint n ++ rest) = some (n, uvarintLen n) := by
  have := readUvarintAux_uvarint n rest 0 0 0 (by have := uvarintLen_le_nine n h; omega)
  simpa [readUvarint] using this

end GoSquare
