import GoSquare.Proofs.C20Core
import GoSquare.Properties.C10
import GoSquare.Proofs.SquareWF
import GoSquare.Model.Builder
/-! C02, first step: on a square `txS ++ pfbS ++ R` (tx-namespace shares, pay-for-blob-namespace
    shares, then shares of strictly larger namespaces) `square.Deconstruct` reduces to parsing the
    two compact runs and rebuilding the blob transactions from the wrapped PFBs. -/
namespace GoSquare
open Builder Spec

/-- the 1x1 empty square is the single tail padding share -/
theorem emptySquare_eq : Builder.emptySquare = .ok [Spec.paddingShare tailPaddingNamespace 0] := by
  unfold Builder.emptySquare
  rw [(C10.reserved_and_tail_padding 1).2]
  rfl

/-- a square whose first share does not carry the tail padding namespace is not the empty square -/
theorem squareIsEmpty_false_of_head (a : Bytes) (l : List Bytes)
    (h : Share.ns a ≠ tailPaddingNamespace) : squareIsEmpty (a :: l) = false := by
  unfold squareIsEmpty
  rw [emptySquare_eq]
  simp only [beq_eq_false_iff_ne, ne_eq]
  intro e
  have ha : a = Spec.paddingShare tailPaddingNamespace 0 := (List.cons.inj e).1
  apply h
  rw [ha]
  exact (paddingShare_wf tailPaddingNamespace 0 (by decide)).2

/-- a namespace above the pay-for-blob namespace is above the transaction namespace -/
theorem above_tx_of_above_pfb (n : Bytes) (h : cmpBytes n payForBlobNamespace = 1) :
    cmpBytes n txNamespace = 1 := by
  have h1 : payForBlobNamespace < n := (cmpBytes_gt_iff _ _).mp h
  have h2 : txNamespace < payForBlobNamespace :=
    (cmpBytes_gt_iff _ _).mp (by decide : cmpBytes payForBlobNamespace txNamespace = 1)
  exact (cmpBytes_gt_iff _ _).mpr (List.lt_trans h2 h1)

theorem slice_zero_left {α} (a b : List α) : slice (a ++ b) 0 a.length = .ok a := by
  simp [slice]

theorem slice_mid {α} (a b c : List α) :
    slice (a ++ b ++ c) (0 + a.length) (b.length + a.length) = .ok b := by
  simp [slice, List.append_assoc]
  omega

theorem sliceFrom_left {α} (a b : List α) : sliceFrom (a ++ b) a.length = .ok b := by
  simp [sliceFrom]

/-- **C02 (step).** `Deconstruct` on `txS ++ pfbS ++ R`. -/
theorem deconstruct_parts (txS pfbS R : List Bytes) (pfbDec : Bytes → Res (List Nat))
    (h1 : ∀ s ∈ txS, Share.ns s = txNamespace)
    (h2 : ∀ s ∈ pfbS, Share.ns s = payForBlobNamespace)
    (h3 : ∀ s ∈ R, cmpBytes (Share.ns s) payForBlobNamespace = 1)
    (hne : ¬ (txS = [] ∧ pfbS = [])) :
    deconstruct (txS ++ pfbS ++ R) pfbDec =
      (if pfbS = [] then parseTxs txS
       else do
        let txs ← parseTxs txS
        let wpfbs ← parseTxs pfbS
        let blobTxs ← deconstructPfbs (txS ++ pfbS ++ R) pfbDec wpfbs
        .ok (txs ++ blobTxs)) := by
  -- (a) the square is not the empty square
  have hE : squareIsEmpty (txS ++ pfbS ++ R) = false := by
    cases txS with
    | cons a l =>
      have := h1 a (by simp)
      exact squareIsEmpty_false_of_head a _ (by rw [this]; decide)
    | nil =>
      cases pfbS with
      | cons a l =>
        have := h2 a (by simp)
        exact squareIsEmpty_false_of_head a _ (by rw [this]; decide)
      | nil => exact absurd ⟨rfl, rfl⟩ hne
  -- (b) the transaction range
  have hTx : getShareRangeForNamespace (txS ++ pfbS ++ R) txNamespace =
      if txS = [] then (0, 0) else (0, txS.length) := by
    have := C20.lookup_returns_the_run txNamespace [] txS (pfbS ++ R) (by simp) h1 (by
      intro s hs
      rcases List.mem_append.mp hs with hs | hs
      · show cmpBytes (Share.ns s) txNamespace = 1
        rw [h2 s hs]; decide
      · exact above_tx_of_above_pfb _ (h3 s hs))
    simpa [List.append_assoc] using this
  -- (c) the pay-for-blob range on the rest
  have hW : getShareRangeForNamespace (pfbS ++ R) payForBlobNamespace =
      if pfbS = [] then (0, 0) else (0, pfbS.length) := by
    have := C20.lookup_returns_the_run payForBlobNamespace [] pfbS R (by simp) h2 h3
    simpa using this
  have hTx' : getShareRangeForNamespace (txS ++ pfbS ++ R) txNamespace = (0, txS.length) := by
    rw [hTx]; split
    · rename_i h; simp [h]
    · rfl
  unfold deconstruct
  rw [hE, hTx']
  simp only [Bool.false_eq_true, if_false]
  have hSF : sliceFrom (txS ++ pfbS ++ R) txS.length = .ok (pfbS ++ R) := by
    rw [List.append_assoc]; exact sliceFrom_left _ _
  have hS1 : slice (txS ++ pfbS ++ R) 0 txS.length = .ok txS := by
    rw [List.append_assoc]; exact slice_zero_left _ _
  rw [hSF, hS1]
  simp only [ne_eq, not_true_eq_false, if_false, bind, Except.bind, hW]
  by_cases hp : pfbS = []
  · simp [hp]
  · have hlen : pfbS.length ≠ 0 := fun h => hp (List.eq_nil_of_length_eq_zero h)
    simp only [hp, if_false, slice_mid, hlen, and_false, not_true_eq_false]

end GoSquare
