import GoSquare.Proofs.ExportKept
import GoSquare.Proofs.Namespace
/-! C04/C03: the write order of the blobs. `Builder.Export` sorts the elements with
    `sort.SliceStable` by namespace (`elemLe`), modelled by the stable `List.mergeSort`.
    Blobs are written ordered by namespace; ties are broken by the position of the blob
    transaction among the kept ones and then by the position inside the transaction. -/
namespace GoSquare
open Builder Spec List

theorem elemLe_trans (a b c : Element) : elemLe a b = true → elemLe b c = true → elemLe a c = true := by
  simp only [elemLe, decide_eq_true_eq]
  exact cmpBytes_le_trans _ _ _

theorem elemLe_total (a b : Element) : (elemLe a b || elemLe b a) = true := by
  simp only [elemLe, Bool.or_eq_true, decide_eq_true_eq]
  have := cmpBytes_swap a.blob.ns b.blob.ns
  omega

/-- the write order is sorted by namespace -/
theorem sortedElems_sorted (thr : Nat) (B : List BlobTx) :
    (sortedElems thr B).Pairwise (fun a b => cmpBytes a.blob.ns b.blob.ns ≤ 0) := by
  have h := List.pairwise_mergeSort (le := elemLe) elemLe_trans elemLe_total (allElements thr B)
  refine h.imp ?_
  intro a b hab
  simpa [elemLe] using hab

/-- the write order is a permutation of the elements -/
theorem sortedElems_perm (thr : Nat) (B : List BlobTx) : (sortedElems thr B).Perm (allElements thr B) :=
  List.mergeSort_perm _ _

/-- the (transaction position, blob position) lexicographic order -/
def elemLex (a b : Element) : Prop :=
  a.pfbIndex < b.pfbIndex ∨ (a.pfbIndex = b.pfbIndex ∧ a.blobIndex < b.blobIndex)

theorem pfbIndex_of_mem_elementsOf {thr p : Nat} {t : BlobTx} {e : Element}
    (h : e ∈ elementsOf thr p t) : e.pfbIndex = p := by
  simp only [elementsOf, List.mem_mapIdx] at h
  obtain ⟨i, hi, rfl⟩ := h
  rfl

theorem elementsOf_pairwise (thr p : Nat) (t : BlobTx) :
    (elementsOf thr p t).Pairwise (fun a b => a.blobIndex < b.blobIndex) := by
  rw [List.pairwise_iff_getElem]
  intro i j hi hj hij
  simp only [elementsOf, List.getElem_mapIdx, newElement]
  exact hij

/-- the append order is lexicographic in (transaction position, blob position) -/
theorem allElements_lex (thr : Nat) (B : List BlobTx) :
    (allElements thr B).Pairwise (fun a b => a.pfbIndex < b.pfbIndex ∨ (a.pfbIndex = b.pfbIndex ∧ a.blobIndex < b.blobIndex)) := by
  unfold allElements
  rw [List.pairwise_flatten]
  constructor
  · intro l hl
    simp only [List.mem_mapIdx] at hl
    obtain ⟨p, hp, rfl⟩ := hl
    refine (elementsOf_pairwise thr p B[p]).imp_of_mem ?_
    intro a b ha hb hab
    right
    exact ⟨by rw [pfbIndex_of_mem_elementsOf ha, pfbIndex_of_mem_elementsOf hb], hab⟩
  · rw [List.pairwise_iff_getElem]
    intro i j hi hj hij x hx y hy
    simp only [List.getElem_mapIdx] at hx hy
    left
    rw [pfbIndex_of_mem_elementsOf hx, pfbIndex_of_mem_elementsOf hy]
    exact hij

/-- the elements are pairwise distinct -/
theorem allElements_nodup (thr : Nat) (B : List BlobTx) : (allElements thr B).Nodup := by
  refine (allElements_lex thr B).imp ?_
  intro a b h hab
  subst hab
  omega

/-- two distinct members of a list occur in one of the two orders -/
theorem pair_sublist_or {α : Type} {a b : α} : ∀ {l : List α}, a ∈ l → b ∈ l → a ≠ b →
    [a, b] <+ l ∨ [b, a] <+ l
  | [], ha, _, _ => by simp at ha
  | x :: t, ha, hb, hne => by
    rcases List.mem_cons.mp ha with rfl | ha'
    · rcases List.mem_cons.mp hb with rfl | hb'
      · exact absurd rfl hne
      · left
        exact List.Sublist.cons_cons _ (List.singleton_sublist.mpr hb')
    · rcases List.mem_cons.mp hb with rfl | hb'
      · right
        exact List.Sublist.cons_cons _ (List.singleton_sublist.mpr ha')
      · rcases pair_sublist_or ha' hb' hne with h | h
        · exact Or.inl (List.Sublist.cons _ h)
        · exact Or.inr (List.Sublist.cons _ h)

/-- in a list without duplicates two members occur in one order only -/
theorem pair_sublist_asymm {α : Type} {a b : α} : ∀ {l : List α}, l.Nodup →
    [a, b] <+ l → [b, a] <+ l → False
  | [], _, h, _ => by simp at h
  | x :: t, hn, h1, h2 => by
    have hx : x ∉ t := (List.nodup_cons.mp hn).1
    have ht : t.Nodup := (List.nodup_cons.mp hn).2
    cases h1 with
    | cons _ h1 =>
      cases h2 with
      | cons _ h2 => exact pair_sublist_asymm ht h1 h2
      | cons_cons _ h2 =>
        exact hx (h1.subset (by simp))
    | cons_cons _ h1 =>
      have : b ∈ t := List.singleton_sublist.mp h1
      cases h2 with
      | cons _ h2 => exact hx (h2.subset (by simp))
      | cons_cons _ h2 => exact hx this

/-- stability of `mergeSort`, in `Pairwise` form: elements that compare equivalent keep the
    order they had in a duplicate-free input whose order is described by `R`. -/
theorem mergeSort_stable_pairwise {α : Type} {le : α → α → Bool} {R : α → α → Prop}
    (trans : ∀ (a b c : α), le a b → le b c → le a c)
    (total : ∀ (a b : α), le a b || le b a)
    {l : List α} (hn : l.Nodup) (hR : l.Pairwise R) :
    (l.mergeSort le).Pairwise (fun a b => le b a = true → R a b) := by
  rw [List.pairwise_iff_forall_sublist]
  intro a b hab hle
  have hsn : (l.mergeSort le).Nodup := ((List.mergeSort_perm l le).nodup_iff).mpr hn
  have hne : a ≠ b := by
    have := hab.nodup hsn
    simpa using this
  have ha : a ∈ l := List.mem_mergeSort.mp (hab.subset (by simp))
  have hb : b ∈ l := List.mem_mergeSort.mp (hab.subset (by simp))
  rcases pair_sublist_or ha hb hne with h | h
  · exact List.pairwise_iff_forall_sublist.mp hR h
  · exact (pair_sublist_asymm hsn hab (List.pair_sublist_mergeSort trans total hle h)).elim

/-- stability: among blobs with the same namespace the write order is (transaction position, blob position) -/
theorem sortedElems_stable (thr : Nat) (B : List BlobTx) :
    (sortedElems thr B).Pairwise (fun a b => a.blob.ns = b.blob.ns →
      (a.pfbIndex < b.pfbIndex ∨ (a.pfbIndex = b.pfbIndex ∧ a.blobIndex < b.blobIndex))) := by
  have h := mergeSort_stable_pairwise (le := elemLe) elemLe_trans elemLe_total
    (allElements_nodup thr B) (allElements_lex thr B)
  refine h.imp ?_
  intro a b hab hns
  apply hab
  simp only [elemLe, decide_eq_true_eq]
  rw [(cmpBytes_eq_iff _ _).mpr hns.symm]
  exact Int.le_refl 0

/-- sorting is idempotent (a second `Export` sees the same order) -/
theorem sortedElems_idem (thr : Nat) (B : List BlobTx) : (sortedElems thr B).mergeSort elemLe = sortedElems thr B :=
  List.mergeSort_of_pairwise
    (List.pairwise_mergeSort (le := elemLe) elemLe_trans elemLe_total (allElements thr B))

end GoSquare
