import GoSquare.Proofs.C04Core
/-! (C06) `Export` of a builder that has kept `N` and `B` never returns one of its defensive errors
    (maximum square size ≤ 512), and the shares actually occupied are at most the running estimate. -/
namespace GoSquare.ExportTotal
open GoSquare Builder Spec

/-! ### 1. the blob loop never errs -/

/-- aligning the cursor skips at most `subtree width − 1` shares (no side condition: the model's
    subtree width is positive for all arguments) -/
theorem padding_le (cur n thr : Nat) : nextShareIndex cur n thr - cur ≤ subTreeWidth n thr - 1 := by
  have hw := subTreeWidth_pos' n thr
  obtain ⟨_, h1, h2⟩ := roundUpByMultipleOf_spec cur (subTreeWidth n thr) hw
  unfold nextShareIndex; omega

/-- **the blob loop is total**: on elements created by `newElement` from blob-valid blobs whose
    wrapper position is in range, neither the padding guard, nor the index guard, nor the sparse
    writer can fail -/
theorem blobLoop_total (thr : Nat) : ∀ (es : List Element) (i : Nat) (st : BlobLoopState),
    (∀ e ∈ es, EOK e ∧ e.maxPadding = subTreeWidth e.numShares thr - 1 ∧ e.pfbIndex < st.pfbs.length) →
    st.cursor = st.endOfLastBlob →
    ((i = 0 ∧ st.shares = []) ∨ (0 < i ∧ ∃ p X, p.BlobValid ∧ st.shares = X ++ sparseSeq p)) →
    ∃ st', blobLoop thr es i st = .ok st'
  | [], i, st, _, _, _ => ⟨st, rfl⟩
  | e :: rest, i, st, hok, hce, hprev => by
    obtain ⟨⟨hbv, hns⟩, hmp, hpi⟩ := hok e (by simp)
    rw [blobLoop]
    simp only [bind, Except.bind, throw, throwThe, MonadExceptOf.throw, pure, Except.pure]
    have hpad : ¬ (nextShareIndex st.cursor e.numShares thr - st.endOfLastBlob > e.maxPadding) := by
      rw [← hce, hmp]
      have := padding_le st.cursor e.numShares thr
      omega
    have hidx : ¬ (e.pfbIndex ≥ st.pfbs.length) := by omega
    rw [if_neg hpad, if_neg hidx]
    rcases hprev with ⟨hi0, hsh⟩ | ⟨hipos, p, X, hpv, hsh⟩
    · subst hi0
      simp only [if_false, hsh, sparseWrite_eq_spec [] e.blob hbv.valid, List.nil_append,
        show ¬ (0 > 0) by omega]
      exact blobLoop_total thr rest 1 _
        (fun x hx => by
          obtain ⟨a, b, c⟩ := hok x (by simp [hx])
          exact ⟨a, b, by simpa using c⟩)
        rfl (Or.inr ⟨by omega, e.blob, [], hbv, by simp⟩)
    · have hi : i > 0 := hipos
      simp only [hi, if_true, hsh]
      rw [sparseWritePadding_after X p hpv]
      simp only [sparseWrite_eq_spec _ e.blob hbv.valid]
      exact blobLoop_total thr rest (i + 1) _
        (fun x hx => by
          obtain ⟨a, b, c⟩ := hok x (by simp [hx])
          exact ⟨a, b, by simpa using c⟩)
        rfl (Or.inr ⟨by omega, e.blob, _, hbv, rfl⟩)

/-! ### 2. the end cursor is within the reservations -/

/-- each step advances the cursor by at most the blob's shares plus its worst-case padding -/
theorem endCursor_le (thr : Nat) : ∀ (es : List Element) (cur : Nat),
    endCursor thr cur es ≤ cur + (es.map (fun e => e.numShares + (subTreeWidth e.numShares thr - 1))).sum
  | [], cur => by simp [endCursor]
  | e :: es, cur => by
    have ih := endCursor_le thr es (nextShareIndex cur e.numShares thr + e.numShares)
    have h1 := padding_le cur e.numShares thr
    have h2 := le_nextShareIndex cur e.numShares thr
    simp only [endCursor, List.map_cons, List.sum_cons]
    omega

theorem maxShareOffset_newElement (bl : Blob) (p j thr : Nat) :
    (newElement bl p j thr).numShares + (subTreeWidth (newElement bl p j thr).numShares thr - 1) =
      reservation thr bl := rfl

/-- the reservations of all elements, in append order, add up to the blob term of the estimate -/
theorem allElements_sum_aux (thr : Nat) : ∀ (B : List BlobTx) (p0 : Nat),
    (((B.mapIdx (fun p t => elementsOf thr (p0 + p) t)).flatten).map Element.maxShareOffset).sum =
      (B.map (fun t => (t.blobs.map (reservation thr)).sum)).sum
  | [], _ => rfl
  | t :: B, p0 => by
    rw [List.mapIdx_cons, List.flatten_cons, List.map_append, List.sum_append, List.map_cons, List.sum_cons,
      elements_sum]
    have ih := allElements_sum_aux thr B (p0 + 1)
    have e : (fun (p : Nat) (t : BlobTx) => elementsOf thr (p0 + 1 + p) t) =
        (fun (i : Nat) (t : BlobTx) => elementsOf thr (p0 + (i + 1)) t) := by
      funext p t; rw [Nat.add_assoc, Nat.add_comm 1 p]
    rw [e] at ih
    rw [ih]

theorem allElements_sum (thr : Nat) (B : List BlobTx) :
    ((allElements thr B).map Element.maxShareOffset).sum =
      (B.map (fun t => (t.blobs.map (reservation thr)).sum)).sum := by
  have := allElements_sum_aux thr B 0
  simpa [allElements] using this

theorem maxPadding_of_mem_allElements (thr : Nat) (B : List BlobTx) (e : Element) (he : e ∈ allElements thr B) :
    e.maxPadding = subTreeWidth e.numShares thr - 1 := by
  obtain ⟨t, _, bl, _, p, j, rfl⟩ := mem_allElements thr B e he
  rfl

theorem sortedElems_sum (thr : Nat) (B : List BlobTx) :
    ((sortedElems thr B).map (fun e => e.numShares + (subTreeWidth e.numShares thr - 1))).sum =
      (B.map (fun t => (t.blobs.map (reservation thr)).sum)).sum := by
  rw [← allElements_sum]
  have hp := (sortedElems_perm thr B).map (fun e => e.numShares + (subTreeWidth e.numShares thr - 1))
  rw [hp.sum_nat]
  congr 1
  apply List.map_congr_left
  intro e he
  unfold Element.maxShareOffset
  rw [maxPadding_of_mem_allElements thr B e he]

/-- **the cursor after the last blob is at most the estimate** -/
theorem endCursor_le_estimate (thr : Nat) (N : List Bytes) (B : List BlobTx) :
    endCursor thr (startOf N B) (sortedElems thr B) ≤ closedEstimate thr N B := by
  have h := endCursor_le thr (sortedElems thr B) (startOf N B)
  rw [sortedElems_sum] at h
  unfold closedEstimate
  unfold startOf txShareCount pfbShareCount at h
  exact h

theorem firstIdx_le_endCursor (thr cur : Nat) (es : List Element) : firstIdx thr cur es ≤ endCursor thr cur es := by
  cases es with
  | nil => exact Nat.le_refl _
  | cons e es =>
    have := endCursor_ge thr es (nextShareIndex cur e.numShares thr + e.numShares)
    simp only [firstIdx, endCursor]
    omega

theorem start_le_firstIdx (thr cur : Nat) (es : List Element) : cur ≤ firstIdx thr cur es := by
  cases es with
  | nil => exact Nat.le_refl _
  | cons e es => exact le_nextShareIndex cur e.numShares thr

/-- where the blob region ends -/
theorem region_end (thr cur : Nat) (es : List Element) (hok : ∀ e ∈ es, EOK e) :
    firstIdx thr cur es + (region thr cur none es).length = endCursor thr cur es := by
  cases es with
  | nil => simp [firstIdx, region, endCursor]
  | cons e es =>
    have h := region_length thr (e :: es) cur none hok (by simp)
    have h2 := firstIdx_le_endCursor thr cur (e :: es)
    simp only at h
    omega

/-! ### 3. the wrapped PFBs with recorded indexes are no longer than with placeholder indexes -/

theorem uvarintLen_mono : ∀ (a b : Nat), a ≤ b → uvarintLen a ≤ uvarintLen b := by
  intro a
  induction a using Nat.strongRecOn with
  | _ a ih =>
    intro b hab
    rw [uvarintLen, uvarintLen.eq_1 b]
    by_cases ha : a < 128
    · rw [if_pos ha]; split <;> omega
    · have hb : ¬ b < 128 := by omega
      rw [if_neg ha, if_neg hb]
      have := ih (a / 128) (by omega) (b / 128) (Nat.div_le_div_right hab)
      omega

theorem uvarintLen_le_three (v : Nat) (h : v < 2097152) : uvarintLen v ≤ 3 := by
  rw [uvarintLen]
  split
  · omega
  · rw [uvarintLen]
    split
    · omega
    · rw [uvarintLen]
      split
      · omega
      · omega

theorem uvarintLen_placeholder : uvarintLen worstCaseShareIndex = 3 := by
  unfold worstCaseShareIndex
  rw [uvarintLen]; simp only [show ¬ (128 * 128 < 128) by omega, if_false]
  rw [uvarintLen]; simp only [show ¬ (128 * 128 / 128 < 128) by omega, if_false]
  rw [uvarintLen]; simp only [show (128 * 128 / 128 / 128 < 128) by omega, if_true]

theorem unitBytes_mono {a b : Nat} (h : a ≤ b) : unitBytes a ≤ unitBytes b := by
  have := uvarintLen_mono a b h
  unfold unitBytes; omega

theorem packed_length (l : List Nat) : ((l.map uvarint).flatten).length = (l.map uvarintLen).sum := by
  induction l with
  | nil => rfl
  | cons v l ih => simp only [List.map_cons, List.flatten_cons, List.length_append, List.sum_cons, uvarint_length, ih]

theorem sum_le_three (l : List Nat) (h : ∀ v ∈ l, uvarintLen v ≤ 3) : (l.map uvarintLen).sum ≤ 3 * l.length := by
  induction l with
  | nil => simp
  | cons v l ih =>
    have h1 := h v (by simp)
    have h2 := ih (fun x hx => h x (by simp [hx]))
    simp only [List.map_cons, List.sum_cons, List.length_cons]
    omega

theorem sum_eq_three (l : List Nat) (h : ∀ v ∈ l, uvarintLen v = 3) : (l.map uvarintLen).sum = 3 * l.length := by
  induction l with
  | nil => simp
  | cons v l ih =>
    have h1 := h v (by simp)
    have h2 := ih (fun x hx => h x (by simp [hx]))
    simp only [List.map_cons, List.sum_cons, List.length_cons]
    omega

/-- a wrapper whose indexes all have varints of at most three bytes marshals to at most as many
    bytes as the same wrapper with three-byte indexes -/
theorem marshal_le (a b : Proto.IndexWrapper) (htx : a.tx = b.tx) (hty : a.typeId = b.typeId)
    (hlen : a.shareIndexes.length = b.shareIndexes.length)
    (ha : ∀ v ∈ a.shareIndexes, uvarintLen v ≤ 3) (hb : ∀ v ∈ b.shareIndexes, uvarintLen v = 3) :
    a.marshal.length ≤ b.marshal.length := by
  unfold Proto.IndexWrapper.marshal
  rw [htx, hty, hlen]
  simp only [List.length_append]
  by_cases h0 : b.shareIndexes.length = 0
  · simp only [h0, if_true]; omega
  · simp only [h0, if_false, List.length_append, uvarint_length, packed_length]
    have h1 := sum_le_three _ ha
    have h2 := sum_eq_three _ hb
    have h3 := uvarintLen_mono _ _ (show (a.shareIndexes.map uvarintLen).sum ≤ (b.shareIndexes.map uvarintLen).sum by omega)
    omega

/-- every recorded or placeholder index has a varint of at most three bytes -/
def SmallIdx (P : List Proto.IndexWrapper) : Prop := ∀ iw ∈ P, ∀ v ∈ iw.shareIndexes, uvarintLen v ≤ 3

theorem patchOne_small (P : List Proto.IndexWrapper) (e : Element) (idx : Nat) (hP : SmallIdx P)
    (hidx : uvarintLen (u32 idx) ≤ 3) : SmallIdx (patchOne P e idx) := by
  intro iw' hiw' v hv
  obtain ⟨p, hp⟩ := List.mem_iff_getElem?.mp hiw'
  rw [patchOne_getElem?] at hp
  cases hq : P[p]? with
  | none => rw [hq] at hp; cases hp
  | some iw =>
    rw [hq] at hp
    simp only [Option.map_some, Option.some.injEq] at hp
    have hmem : iw ∈ P := List.mem_of_getElem? hq
    by_cases hc : e.pfbIndex = p
    · rw [if_pos hc] at hp
      subst hp
      simp only at hv
      rcases List.mem_or_eq_of_mem_set hv with h | h
      · exact hP iw hmem v h
      · rw [h]; exact hidx
    · rw [if_neg hc] at hp
      subst hp
      exact hP iw hmem v hv

theorem patchAll_small (thr : Nat) : ∀ (es : List Element) (cur : Nat) (P : List Proto.IndexWrapper),
    SmallIdx P → endCursor thr cur es < 2097152 → SmallIdx (patchAll thr cur es P)
  | [], _, _, hP, _ => hP
  | e :: es, cur, P, hP, hend => by
    rw [patchAll]
    rw [endCursor] at hend
    have h1 := endCursor_ge thr es (nextShareIndex cur e.numShares thr + e.numShares)
    have hlt : nextShareIndex cur e.numShares thr < 2097152 := by omega
    have hu : u32 (nextShareIndex cur e.numShares thr) = nextShareIndex cur e.numShares thr :=
      Nat.mod_eq_of_lt (by omega)
    exact patchAll_small thr es _ _ (patchOne_small P e _ hP (by rw [hu]; exact uvarintLen_le_three _ hlt)) hend

theorem sum_map_le_of_getElem? {α} (f g : α → Nat) : ∀ (l m : List α), l.length = m.length →
    (∀ (i : Nat) a b, l[i]? = some a → m[i]? = some b → f a ≤ g b) → (l.map f).sum ≤ (m.map g).sum
  | [], [], _, _ => Nat.le_refl _
  | [], _ :: _, h, _ => by simp at h
  | _ :: _, [], h, _ => by simp at h
  | a :: l, b :: m, h, hp => by
    have h0 := hp 0 a b rfl rfl
    have ih := sum_map_le_of_getElem? f g l m (by simpa using h)
      (fun i x y hx hy => hp (i + 1) x y (by simpa using hx) (by simpa using hy))
    simp only [List.map_cons, List.sum_cons]
    omega

theorem worstWrappers_small (B : List BlobTx) :
    ∀ iw ∈ worstWrappers B, ∀ v ∈ iw.shareIndexes, uvarintLen v = 3 := by
  intro iw hiw v hv
  unfold worstWrappers at hiw
  obtain ⟨t, _, rfl⟩ := List.mem_map.mp hiw
  simp only [newIndexWrapper, worstCaseShareIndexes] at hv
  rw [(List.mem_replicate.mp hv).2]
  exact uvarintLen_placeholder

/-- **the stream of the wrapped PFBs with recorded indexes is at most the worst-case stream**,
    when every blob is placed below share index 2^21 -/
theorem patched_stream_le (thr : Nat) (N : List Bytes) (B : List BlobTx)
    (hend : endCursor thr (startOf N B) (sortedElems thr B) < 2097152) :
    (unitStream ((patched thr N B).map (·.marshal))).length ≤
      (unitStream ((worstWrappers B).map (·.marshal))).length := by
  rw [unitStream_length', unitStream_length', List.map_map, List.map_map]
  have hw := worstWrappers_small B
  have hsm : SmallIdx (patched thr N B) :=
    patchAll_small thr (sortedElems thr B) (startOf N B) (worstWrappers B)
      (fun iw hiw v hv => by rw [hw iw hiw v hv]; omega) hend
  obtain ⟨hlen, hfr⟩ := patchAll_frame thr (sortedElems thr B) (startOf N B) (worstWrappers B)
  apply sum_map_le_of_getElem? _ _ _ _ hlen
  intro i a b ha hb
  obtain ⟨a', ha', h1, h2, h3⟩ := hfr i b hb
  have hpa : (patched thr N B)[i]? = some a := ha
  have : (patched thr N B)[i]? = some a' := ha'
  rw [hpa] at this
  simp only [Option.some.injEq] at this
  subst this
  simp only [Function.comp]
  exact unitBytes_mono (marshal_le a b h1 h2 h3 (hsm a (List.mem_of_getElem? ha)) (hw b (List.mem_of_getElem? hb)))

/-- hence the PFB shares actually written are at most the PFB shares counted -/
theorem patched_size_le (thr : Nat) (N : List Bytes) (B : List BlobTx)
    (hend : endCursor thr (startOf N B) (sortedElems thr B) < 2097152) :
    (compactSeq payForBlobNamespace ((patched thr N B).map (·.marshal))).length ≤ pfbShareCount B := by
  rw [pfbShareCount_eq, compactSeq_length, compactSeq_length, ← sizeOf_eq_compactSharesNeeded,
    ← sizeOf_eq_compactSharesNeeded]
  exact sizeOf_mono (patched_stream_le thr N B hend)

/-! ### 4. `WriteSquare` never errs when everything fits -/

theorem copyAt_ok {α} (dst : List α) (i : Nat) (src : List α) (hi : i ≤ dst.length) :
    ∃ r, copyAt dst i src = .ok r ∧ r.length = dst.length := by
  unfold copyAt
  rw [if_neg (by omega)]
  refine ⟨_, rfl, ?_⟩
  simp only [List.length_append, List.length_take, List.length_drop]
  omega

theorem writeSquare_total (txW pfbW tw pw : CompactSplitter) (bs : List Bytes) (nrs ss : Nat)
    (txS pfbS : List Bytes)
    (htx : txW.exportShares = .ok (tw, txS)) (hpfb : pfbW.exportShares = .ok (pw, pfbS))
    (h1 : txW.count + pfbW.count ≤ nrs) (h2 : nrs + bs.length ≤ ss * ss) :
    ∃ sq, writeSquare txW pfbW bs nrs ss = .ok sq := by
  unfold writeSquare
  simp only [bind, Except.bind, pure, Except.pure, throw, throwThe, MonadExceptOf.throw]
  rw [if_neg (by omega)]
  rw [(C10.reserved_and_tail_padding _).1]
  simp only [Except.mapError]
  rw [if_neg (by omega)]
  rw [htx, hpfb]
  simp only []
  obtain ⟨s1, e1, l1⟩ := copyAt_ok (List.replicate (ss * ss) ([] : Bytes)) 0 txS (by omega)
  rw [e1]
  simp only []
  obtain ⟨s2, e2, l2⟩ := copyAt_ok s1 txW.count pfbS (by rw [l1, List.length_replicate]; omega)
  rw [e2]
  simp only []
  rw [List.length_replicate] at l1
  by_cases g3 : bs.length > 0
  · rw [if_pos g3]
    obtain ⟨s3, e3, l3⟩ := copyAt_ok s2 (txW.count + pfbW.count)
      (List.replicate (nrs - (txW.count + pfbW.count)) (Spec.paddingShare primaryReservedPaddingNamespace 0))
      (by rw [l2, l1]; omega)
    rw [e3]
    simp only []
    obtain ⟨s4, e4, l4⟩ := copyAt_ok s3 nrs bs (by rw [l3, l2, l1]; omega)
    rw [e4]
    simp only []
    by_cases g4 : ss * ss > nrs + bs.length
    · rw [if_pos g4, (C10.reserved_and_tail_padding _).2]
      simp only []
      obtain ⟨s5, e5, _⟩ := copyAt_ok s4 (nrs + bs.length)
        (List.replicate (ss * ss - (nrs + bs.length)) (Spec.paddingShare tailPaddingNamespace 0))
        (by rw [l4, l3, l2, l1]; omega)
      exact ⟨s5, e5⟩
    · rw [if_neg g4]; exact ⟨s4, rfl⟩
  · rw [if_neg g3]
    by_cases g4 : ss * ss > nrs + bs.length
    · rw [if_pos g4, (C10.reserved_and_tail_padding _).2]
      simp only []
      obtain ⟨s5, e5, _⟩ := copyAt_ok s2 (nrs + bs.length)
        (List.replicate (ss * ss - (nrs + bs.length)) (Spec.paddingShare tailPaddingNamespace 0))
        (by rw [l2, l1]; omega)
      exact ⟨s5, e5⟩
    · rw [if_neg g4]; exact ⟨s2, rfl⟩

/-! ### 5. `Export` never errs; the occupied shares are within the estimate -/

/-- **the shares actually occupied are at most the estimate**: the share index after the last blob
    share (= after the last occupied share) is at most the closed-form estimate -/
theorem occupied_le_estimate (thr : Nat) (N : List Bytes) (B : List BlobTx)
    (hv : ∀ t ∈ B, ∀ bl ∈ t.blobs, bl.BlobValid) :
    firstIdx thr (startOf N B) (sortedElems thr B) +
      (region thr (startOf N B) none (sortedElems thr B)).length ≤ closedEstimate thr N B := by
  rw [region_end thr (startOf N B) (sortedElems thr B) (eok_sortedElems thr B hv)]
  exact endCursor_le_estimate thr N B

theorem pfbIndex_lt (thr : Nat) (B : List BlobTx) (e : Element) (he : e ∈ allElements thr B) :
    e.pfbIndex < B.length := by
  obtain ⟨t, ht, _⟩ := (allElements_keys thr B).2 e he
  exact (List.getElem?_eq_some_iff.mp ht).1

/-- `Export` of a builder that has kept `N` and `B` never errs, when maximum squared is below 2^21 -/
theorem export_succeeds_of_small (b : Builder) (N : List Bytes) (B : List BlobTx) (hk : Kept b N B)
    (hv : ∀ t ∈ B, ∀ bl ∈ t.blobs, bl.BlobValid)
    (hmaxp : Nat.isPowerOfTwo b.maxSquareSize) (hsmall : b.maxSquareSize * b.maxSquareSize < 2097152) :
    ∃ b' sq, b.exportSquare = .ok (b', sq) := by
  have hs1 : b.txCounter.size = txShareCount N := Counter.size_of_at hk.txC
  have hs2 : b.pfbCounter.size = pfbShareCount B := Counter.size_of_at hk.pfbC
  have hfit := hk.fit
  have hle1 : txShareCount N ≤ closedEstimate b.thr N B := by unfold closedEstimate txShareCount; omega
  have hle2 : pfbShareCount B ≤ closedEstimate b.thr N B := by unfold closedEstimate pfbShareCount; omega
  have hst : startOf N B ≤ closedEstimate b.thr N B := by
    unfold closedEstimate startOf txShareCount pfbShareCount; omega
  suffices hcore : ∃ r, exportCore b.thr b.currentSize b.txs b.pfbs b.blobs b.txCounter.size b.pfbCounter.size = .ok r by
    obtain ⟨⟨upd, sq⟩, hr⟩ := hcore
    unfold Builder.exportSquare
    rw [hr]
    cases upd with
    | none => exact ⟨_, _, rfl⟩
    | some p => exact ⟨_, _, rfl⟩
  rw [hs1, hs2, hk.txs, hk.pfbs, hk.blobs, hk.size]
  unfold exportCore
  by_cases hc : (txShareCount N == 0 && pfbShareCount B == 0) = true
  · rw [if_pos hc]
    unfold emptySquare
    rw [(C10.reserved_and_tail_padding 1).2]
    exact ⟨_, rfl⟩
  · rw [if_neg hc]
    have hne : ¬ (txShareCount N = 0 ∧ pfbShareCount B = 0) := by
      intro h; apply hc; simp [h.1, h.2]
    have hE1 : 1 ≤ closedEstimate b.thr N B := by omega
    have hE52 : closedEstimate b.thr N B ≤ 2 ^ 52 := by
      have : (2097152 : Nat) ≤ 2 ^ 52 := by decide
      omega
    obtain ⟨_, hss, _, _⟩ := C06.side_is_minimal_and_bounded (closedEstimate b.thr N B) b.maxSquareSize hE1 hE52 hmaxp hfit
    simp only [Int.toNat_natCast]
    generalize hssd : blobMinSquareSize (closedEstimate b.thr N B) = ss at hss
    -- the tx writer
    obtain ⟨txW0, hnew1, hN1, _⟩ := new_spec txNamespace ⟨by decide, by decide⟩
    obtain ⟨txW, hw1, _⟩ := writeAll_spec txNamespace (zeros 4) ⟨by decide, by decide⟩ N txW0 [] hN1
    have hlt1 : (unitStream N).length < 4294967296 := by
      have := stream_le_shares (unitStream N).length
      rw [← compactSeq_length txNamespace, ← txShareCount_eq] at this
      omega
    obtain ⟨tw, hx1, hcnt1⟩ := compact_writer txNamespace ⟨by decide, by decide⟩ N hlt1 txW0 txW hnew1 hw1
    -- the blob loop
    have hsorted : (allElements b.thr B).mergeSort elemLe = sortedElems b.thr B := rfl
    have hww : B.map (fun t => newIndexWrapper t.tx (worstCaseShareIndexes t.blobs.length)) = worstWrappers B := rfl
    rw [hsorted, hww]
    have hsok := eok_sortedElems b.thr B hv
    have hwl : (worstWrappers B).length = B.length := by unfold worstWrappers; rw [List.length_map]
    obtain ⟨st, hloop⟩ := blobLoop_total b.thr (sortedElems b.thr B) 0
      { cursor := txShareCount N + pfbShareCount B, nonReservedStart := txShareCount N + pfbShareCount B,
        endOfLastBlob := txShareCount N + pfbShareCount B, pfbs := worstWrappers B, shares := [] }
      (fun e he => by
        have hm : e ∈ allElements b.thr B := (sortedElems_perm b.thr B).mem_iff.mp he
        refine ⟨hsok e he, maxPadding_of_mem_allElements b.thr B e hm, ?_⟩
        show e.pfbIndex < (worstWrappers B).length
        rw [hwl]; exact pfbIndex_lt b.thr B e hm)
      rfl (Or.inl ⟨rfl, rfl⟩)
    obtain ⟨r1, r2, _, _, r5⟩ := blobLoop_spec b.thr (sortedElems b.thr B) 0 _ st none hsok rfl
      (Or.inl ⟨rfl, rfl, rfl⟩) hloop
    simp only [List.nil_append, if_true] at r1 r2 r5
    have hst0 : txShareCount N + pfbShareCount B = startOf N B := rfl
    rw [hst0] at r1 r2 r5 hloop
    have r2' : st.pfbs = patched b.thr N B := r2
    have hnrs : st.nonReservedStart = firstIdx b.thr (startOf N B) (sortedElems b.thr B) := by
      rw [r5]; cases sortedElems b.thr B <;> rfl
    -- the pfb writer
    have hend : endCursor b.thr (startOf N B) (sortedElems b.thr B) < 2097152 := by
      have := endCursor_le_estimate b.thr N B
      omega
    have hpsz := patched_size_le b.thr N B hend
    obtain ⟨pfbW0, hnew2, hN2, _⟩ := new_spec payForBlobNamespace ⟨by decide, by decide⟩
    obtain ⟨pfbW, hw2', _⟩ := writeAll_spec payForBlobNamespace (zeros 4) ⟨by decide, by decide⟩
      (st.pfbs.map (·.marshal)) pfbW0 [] hN2
    have hw2 : st.pfbs.foldlM (fun w iw => w.writeTx iw.marshal) pfbW0 = .ok pfbW := by
      rw [← hw2', List.foldlM_map]
    have hlt2 : (unitStream (st.pfbs.map (·.marshal))).length < 4294967296 := by
      have := stream_le_shares (unitStream (st.pfbs.map (·.marshal))).length
      rw [← compactSeq_length payForBlobNamespace, r2'] at this
      rw [r2']
      omega
    obtain ⟨pw, hx2, hcnt2⟩ := compact_writer payForBlobNamespace ⟨by decide, by decide⟩ (st.pfbs.map (·.marshal))
      hlt2 pfbW0 pfbW hnew2 hw2'
    rw [r2'] at hcnt2
    have hg : ¬ (pfbShareCount B < pfbW.count) := by omega
    -- the square
    have hocc := occupied_le_estimate b.thr N B hv
    have hfi := start_le_firstIdx b.thr (startOf N B) (sortedElems b.thr B)
    have hso : startOf N B = txShareCount N + pfbShareCount B := rfl
    obtain ⟨sq, hsq⟩ := writeSquare_total txW pfbW tw pw st.shares st.nonReservedStart ss _ _ hx1 hx2
      (by rw [hnrs, hcnt1, hcnt2, ← txShareCount_eq]; omega)
      (by rw [hnrs, r1]; omega)
    simp only [bind, Except.bind, throw, throwThe, MonadExceptOf.throw]
    rw [hnew1]
    simp only []
    rw [hw1]
    simp only []
    rw [hst0, hloop]
    simp only []
    rw [hnew2]
    simp only []
    rw [hw2]
    simp only []
    rw [if_neg hg, hsq]
    exact ⟨_, rfl⟩

/-- **(C06) greedy building returns no error.** `Export` of a builder that has kept the ordinary
    transactions `N` and the blob transactions `B` (blob-valid blobs) returns a square: none of the
    defensive checks of `Export`, of its blob loop, or of `WriteSquare` can fire. -/
theorem export_succeeds (b : Builder) (N : List Bytes) (B : List BlobTx) (hk : Kept b N B)
    (hv : ∀ t ∈ B, ∀ bl ∈ t.blobs, bl.BlobValid) (ht : 1 ≤ b.thr)
    (hmaxp : Nat.isPowerOfTwo b.maxSquareSize) (hmax : b.maxSquareSize ≤ 512) :
    ∃ b' sq, b.exportSquare = .ok (b', sq) := by
  have _ := ht
  have h1 : b.maxSquareSize * b.maxSquareSize ≤ 512 * 512 := Nat.mul_le_mul hmax hmax
  exact export_succeeds_of_small b N B hk hv hmaxp (by omega)

/-! ### the result: the square, what it occupies, and the estimate -/

theorem sizeOf_pos {T : Nat} (h : 1 ≤ T) : 1 ≤ sizeOf T := by
  rw [sizeOf_eq_compactSharesNeeded]
  unfold compactSharesNeeded
  rw [if_neg (by omega)]
  split
  · exact Nat.le_refl 1
  · exact Nat.le_add_right 1 _

theorem closedEstimate_pos (thr : Nat) (N : List Bytes) (B : List BlobTx) (hne : ¬ (N = [] ∧ B = [])) :
    1 ≤ closedEstimate thr N B := by
  unfold closedEstimate
  cases N with
  | cons u us =>
    have h1 : 1 ≤ sizeOf (((u :: us).map (fun t => unitBytes t.length)).sum) := by
      apply sizeOf_pos
      have := uvarintLen_pos u.length
      simp only [List.map_cons, List.sum_cons, unitBytes]
      omega
    omega
  | nil =>
    cases B with
    | nil => exact absurd ⟨rfl, rfl⟩ hne
    | cons t ts =>
      have h1 : 1 ≤ sizeOf (((t :: ts).map (fun t => unitBytes (worstLen t))).sum) := by
        apply sizeOf_pos
        have := uvarintLen_pos (worstLen t)
        simp only [List.map_cons, List.sum_cons, unitBytes]
        omega
      omega

/-- in the closed-form square everything from the end of the blob region on is tail padding -/
theorem squareOf_tail (thr : Nat) (N : List Bytes) (B : List BlobTx) (ss : Nat)
    (h1 : (compactSeq txNamespace N).length +
        (compactSeq payForBlobNamespace ((patched thr N B).map (·.marshal))).length ≤
        firstIdx thr (startOf N B) (sortedElems thr B)) :
    (squareOf thr N B ss).drop (firstIdx thr (startOf N B) (sortedElems thr B) +
        (region thr (startOf N B) none (sortedElems thr B)).length) =
      List.replicate (ss * ss - (firstIdx thr (startOf N B) (sortedElems thr B) +
        (region thr (startOf N B) none (sortedElems thr B)).length)) (paddingShare tailPaddingNamespace 0) := by
  unfold squareOf
  simp only []
  apply List.drop_left'
  simp only [List.length_append, List.length_replicate]
  omega

/-- **(C06) `Export` returns no error, and the occupied shares are within the estimate.**
    For a builder that has kept `N` and `B`: `Export` succeeds; for a non-empty builder the square
    is the closed-form square of side `ss` = the least power of two whose area covers the estimate,
    `ss` is at most the maximum, the share index after the last occupied share
    (`firstIdx + |region|`) is at most the estimate, the estimate is at most `ss²`, and every share
    from that index on is tail padding. -/
theorem export_succeeds_within_estimate (b : Builder) (N : List Bytes) (B : List BlobTx) (hk : Kept b N B)
    (hv : ∀ t ∈ B, ∀ bl ∈ t.blobs, bl.BlobValid) (ht : 1 ≤ b.thr)
    (hmaxp : Nat.isPowerOfTwo b.maxSquareSize) (hmax : b.maxSquareSize ≤ 512) :
    ∃ b' sq, b.exportSquare = .ok (b', sq) ∧
      ((N = [] ∧ B = [] ∧ sq = [paddingShare tailPaddingNamespace 0] ∧ b' = b) ∨
       (¬ (N = [] ∧ B = []) ∧
        let ss := blobMinSquareSize (closedEstimate b.thr N B)
        let occupied := firstIdx b.thr (startOf N B) (sortedElems b.thr B) +
          (region b.thr (startOf N B) none (sortedElems b.thr B)).length
        sq = squareOf b.thr N B ss ∧
        occupied ≤ closedEstimate b.thr N B ∧
        closedEstimate b.thr N B ≤ ss * ss ∧ ss ≤ b.maxSquareSize ∧
        sq.drop occupied = List.replicate (ss * ss - occupied) (paddingShare tailPaddingNamespace 0))) := by
  obtain ⟨b', sq, h⟩ := export_succeeds b N B hk hv ht hmaxp hmax
  have h1 : b.maxSquareSize * b.maxSquareSize ≤ 512 * 512 := Nat.mul_le_mul hmax hmax
  refine ⟨b', sq, h, ?_⟩
  rcases export_kept b N B hk hv (by omega) b' sq h with hemp | ⟨hne, hsq, _, _, _, _, g1, _, _⟩
  · exact Or.inl hemp
  · right
    refine ⟨hne, ?_⟩
    have hfit := hk.fit
    have hE1 := closedEstimate_pos b.thr N B hne
    have hE52 : closedEstimate b.thr N B ≤ 2 ^ 52 := by
      have : (512 * 512 : Nat) ≤ 2 ^ 52 := by decide
      omega
    obtain ⟨_, hss, _, hle⟩ := C06.side_is_minimal_and_bounded (closedEstimate b.thr N B) b.maxSquareSize hE1 hE52 hmaxp hfit
    refine ⟨hsq, occupied_le_estimate b.thr N B hv, hss, hle, ?_⟩
    rw [hsq]
    exact squareOf_tail b.thr N B _ g1

end GoSquare.ExportTotal
