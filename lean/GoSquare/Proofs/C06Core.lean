import GoSquare.Proofs.Builder
import GoSquare.Properties.C15
/-! # C06 — worst-case capacity accounting; refusals; side selection

Proved for EVERY append history (ordinary and blob transactions, accepted and refused, any sizes):
the running estimate equals the closed-form worst-case rule of what was kept and never exceeds
maximum squared; an append is refused exactly when the estimate with it would exceed maximum
squared; a refused append changes nothing but the counter's undo bookkeeping; the square side is the
least power of two whose area covers the estimate and never exceeds the maximum; the padding
before any blob never exceeds what was reserved for it. NOT proved in Lean: that `Export` of a
reachable state never returns one of its defensive errors and that the occupied share count is at
most the estimate (needs the full layout analysis; decided by the BHIST/BUILDER streams and
oracles on every run, see evidence). -/
namespace GoSquare.C06
open GoSquare

/-- an append history -/
inductive Op where
  | tx (t : Bytes)
  | btx (t : BlobTx)

def step (b : Builder) : Op → Builder × Bool
  | .tx t => b.appendTx t
  | .btx t => b.appendBlobTx t

/-- the builder after a history, and the accepted ordinary / blob transactions in order -/
def run : List Op → Builder → List Bytes → List BlobTx → Builder × List Bytes × List BlobTx
  | [], b, n, bl => (b, n, bl)
  | .tx t :: ops, b, n, bl =>
    let r := b.appendTx t
    run ops r.1 (if r.2 then n ++ [t] else n) bl
  | .btx t :: ops, b, n, bl =>
    let r := b.appendBlobTx t
    run ops r.1 n (if r.2 then bl ++ [t] else bl)

/-- **C06 (estimate, every history).** After any append history from a fresh builder the running
    estimate is the closed-form worst-case rule applied to exactly the accepted transactions, the
    compact counters hold their total bytes, and the estimate is at most maximum squared. -/
theorem estimate_invariant : ∀ (ops : List Op) (b : Builder) (n : List Bytes) (bl : List BlobTx), Kept b n bl →
    Kept (run ops b n bl).1 (run ops b n bl).2.1 (run ops b n bl).2.2 ∧
    (run ops b n bl).1.thr = b.thr ∧ (run ops b n bl).1.maxSquareSize = b.maxSquareSize
  | [], b, n, bl, h => ⟨h, rfl, rfl⟩
  | .tx t :: ops, b, n, bl, h => by
    obtain ⟨_, hacc, href⟩ := appendTx_spec b n bl t h
    simp only [run]
    by_cases ha : (b.appendTx t).2 = true
    · obtain ⟨hk, ht, hm⟩ := hacc ha
      rw [ha]; simp only [if_true]
      obtain ⟨r1, r2, r3⟩ := estimate_invariant ops _ _ _ hk
      exact ⟨r1, by rw [r2, ht], by rw [r3, hm]⟩
    · have ha' : (b.appendTx t).2 = false := by simpa using ha
      obtain ⟨hk, ht, hm, _⟩ := href ha'
      rw [ha']; simp only [Bool.false_eq_true, if_false]
      obtain ⟨r1, r2, r3⟩ := estimate_invariant ops _ _ _ hk
      exact ⟨r1, by rw [r2, ht], by rw [r3, hm]⟩
  | .btx t :: ops, b, n, bl, h => by
    obtain ⟨_, hacc, href⟩ := appendBlobTx_spec b n bl t h
    simp only [run]
    by_cases ha : (b.appendBlobTx t).2 = true
    · obtain ⟨hk, ht, hm⟩ := hacc ha
      rw [ha]; simp only [if_true]
      obtain ⟨r1, r2, r3⟩ := estimate_invariant ops _ _ _ hk
      exact ⟨r1, by rw [r2, ht], by rw [r3, hm]⟩
    · have ha' : (b.appendBlobTx t).2 = false := by simpa using ha
      obtain ⟨hk, ht, hm, _⟩ := href ha'
      rw [ha']; simp only [Bool.false_eq_true, if_false]
      obtain ⟨r1, r2, r3⟩ := estimate_invariant ops _ _ _ hk
      exact ⟨r1, by rw [r2, ht], by rw [r3, hm]⟩

/-- the estimate of a reachable state never exceeds maximum squared -/
theorem estimate_le_max_squared (max thr : Nat) (b0 : Builder) (h0 : Builder.new max thr = .ok b0) (ops : List Op) :
    (run ops b0 [] []).1.currentSize ≤ ((max * max : Nat) : Int) ∧
    (run ops b0 [] []).1.currentSize =
      ((closedEstimate thr (run ops b0 [] []).2.1 (run ops b0 [] []).2.2 : Nat) : Int) := by
  obtain ⟨hk0, ht0, hm0⟩ := kept_new max thr b0 h0
  obtain ⟨hk, ht, hm⟩ := estimate_invariant ops b0 [] [] hk0
  have hfit := hk.fit
  rw [hk.size, ht, ht0] at *
  rw [hm, hm0] at hfit
  exact ⟨by exact_mod_cast hfit, rfl⟩

/-- **C06 (refusal rule).** In a reachable state an append is refused exactly when the closed-form
    estimate with the transaction would exceed maximum squared. -/
theorem refused_iff (b : Builder) (n : List Bytes) (bl : List BlobTx) (h : Kept b n bl) :
    (∀ t, (b.appendTx t).2 = false ↔ b.maxSquareSize * b.maxSquareSize < closedEstimate b.thr (n ++ [t]) bl) ∧
    (∀ t, (b.appendBlobTx t).2 = false ↔ b.maxSquareSize * b.maxSquareSize < closedEstimate b.thr n (bl ++ [t])) := by
  constructor
  · intro t
    obtain ⟨hiff, _, _⟩ := appendTx_spec b n bl t h
    constructor
    · intro hf; rcases Nat.lt_or_ge (b.maxSquareSize * b.maxSquareSize) (closedEstimate b.thr (n ++ [t]) bl) with hlt | hge
      · exact hlt
      · rw [hiff.mpr hge] at hf; cases hf
    · intro hlt
      cases hr : (b.appendTx t).2 with
      | false => rfl
      | true => have := hiff.mp hr; omega
  · intro t
    obtain ⟨hiff, _, _⟩ := appendBlobTx_spec b n bl t h
    constructor
    · intro hf; rcases Nat.lt_or_ge (b.maxSquareSize * b.maxSquareSize) (closedEstimate b.thr n (bl ++ [t])) with hlt | hge
      · exact hlt
      · rw [hiff.mpr hge] at hf; cases hf
    · intro hlt
      cases hr : (b.appendBlobTx t).2 with
      | false => rfl
      | true => have := hiff.mp hr; omega

/-- **C06 (a refused append leaves the builder observably unchanged)** — in ANY state: every field
    is the same except the compact counter, whose share count and remainder are restored (only
    its undo fields `last*` differ). -/
theorem refused_unchanged (b : Builder) :
    (∀ t, (b.appendTx t).2 = false →
      (b.appendTx t).1 = { b with txCounter := (b.appendTx t).1.txCounter } ∧
      (b.appendTx t).1.txCounter.shares = b.txCounter.shares ∧
      (b.appendTx t).1.txCounter.remainder = b.txCounter.remainder) ∧
    (∀ t, (b.appendBlobTx t).2 = false →
      (b.appendBlobTx t).1 = { b with pfbCounter := (b.appendBlobTx t).1.pfbCounter } ∧
      (b.appendBlobTx t).1.pfbCounter.shares = b.pfbCounter.shares ∧
      (b.appendBlobTx t).1.pfbCounter.remainder = b.pfbCounter.remainder) := by
  constructor
  · intro t hf
    by_cases hc : ({ b with txCounter := (b.txCounter.add t.length).1 } : Builder).canFit (b.txCounter.add t.length).2 = true
    · have : (b.appendTx t).2 = true := by simp only [Builder.appendTx, hc, if_true]
      rw [this] at hf; cases hf
    · have hr : b.appendTx t = (b.refusedTx t, false) := by
        simp only [Builder.appendTx, hc, Bool.false_eq_true, if_false, Builder.refusedTx]
      rw [hr]
      exact ⟨rfl, by simp [Builder.refusedTx, Counter.revert, Counter.add],
        by simp [Builder.refusedTx, Counter.revert, Counter.add]⟩
  · intro t hf
    by_cases hc : (b.appendBlobTx t).2 = true
    · rw [hc] at hf; cases hf
    · have hr : b.appendBlobTx t = (b.refusedBlobTx t, false) := by
        unfold Builder.appendBlobTx Builder.refusedBlobTx at *
        simp only at hc ⊢
        split
        · rename_i h; simp [h] at hc
        · rfl
      rw [hr]
      exact ⟨rfl, by simp [Builder.refusedBlobTx, Counter.revert, Counter.add],
        by simp [Builder.refusedBlobTx, Counter.revert, Counter.add]⟩

/-- **C06 (side selection).** The side `Export` chooses for an estimate `e` is the least power of
    two whose area covers `e`; it never exceeds a power-of-two maximum with `e ≤ max²`. -/
theorem side_is_minimal_and_bounded (e max : Nat) (he1 : 1 ≤ e) (he : e ≤ 2 ^ 52)
    (hmax : Nat.isPowerOfTwo max) (hfit : e ≤ max * max) :
    Nat.isPowerOfTwo (blobMinSquareSize e) ∧ e ≤ blobMinSquareSize e * blobMinSquareSize e ∧
    (∀ p, Nat.isPowerOfTwo p → e ≤ p * p → blobMinSquareSize e ≤ p) ∧ blobMinSquareSize e ≤ max := by
  obtain ⟨a, b, c⟩ := C15.minSquare_least e he1 he
  exact ⟨a, b, c, c max hmax hfit⟩

/-- **C06 (padding never exceeds its reservation).** Aligning the cursor for a blob of `n` shares
    skips at most `subtree width − 1` shares — exactly the `MaxPadding` reserved for it — whatever
    the cursor is, i.e. whatever blobs the sort put before it. -/
theorem padding_within_reservation (cursor n thr : Nat) (hn : 1 ≤ n) (hn52 : n ≤ 2 ^ 52) (ht : 1 ≤ thr) :
    nextShareIndex cursor n thr - cursor ≤ subTreeWidth n thr - 1 := by
  have hw := C15.subTreeWidth_pos n thr hn hn52 ht
  obtain ⟨_, h1, h2⟩ := roundUpByMultipleOf_spec cursor (subTreeWidth n thr) hw
  unfold nextShareIndex; omega

end GoSquare.C06
