import GoSquare.Proofs.Nmt
import GoSquare.Properties.C15
/-! # C05 — blob commitments computed in isolation match the square's row trees

For ARBITRARY leaf / node / empty hash functions (no collision-resistance assumption): every
subtree root derived from the blob alone is the value of an inner node of the namespaced Merkle
tree of the square row over the same shares, no subtree spans two rows, and the commitment is the
caller's Merkle root over exactly those roots. NMT's recursion (`Nmt.rootWith`, split at the
largest power of two below the length) is modelled from celestiaorg/nmt; the byte-level hashes are
exercised by the COMMIT correspondence stream against the real library. -/
namespace GoSquare.C05
open GoSquare GoSquare.Nmt GoSquare.C15

theorem pow2_dvd_of_le {a b : Nat} (ha : Pow2 a) (hb : Pow2 b) (h : a ≤ b) : a ∣ b := by
  obtain ⟨i, rfl⟩ := ha
  obtain ⟨j, rfl⟩ := hb
  rcases Nat.lt_or_ge j i with hlt | hge
  · exact absurd (Nat.pow_lt_pow_right (by omega : 1 < 2) hlt) (by omega)
  · exact dvd_two_pow_of_le hge

theorem dvd_sum {d : Nat} : ∀ {l : List Nat}, (∀ x ∈ l, d ∣ x) → d ∣ l.sum
  | [], _ => by simp
  | x :: xs, h => by
    rw [List.sum_cons]
    exact Nat.dvd_add (h x (by simp)) (dvd_sum (fun y hy => h y (by simp [hy])))

/-- in a non-increasing list of powers of two every element divides the sum of those before it -/
theorem prefix_dvd (l : List Nat) (hp : ∀ x ∈ l, Pow2 x) (hd : l.Pairwise (· ≥ ·)) (c : Nat) (hc : c < l.length) :
    l[c] ∣ (l.take c).sum := by
  apply dvd_sum
  intro x hx
  obtain ⟨i, hi, rfl⟩ := List.mem_iff_getElem.mp hx
  rw [List.length_take] at hi
  have hic : i < c := by omega
  rw [List.getElem_take]
  have hge : l[i] ≥ l[c] := (List.pairwise_iff_getElem.mp hd) i c (by omega) hc hic
  exact pow2_dvd_of_le (hp _ (List.getElem_mem _)) (hp _ (List.getElem_mem _)) hge

theorem take_sum_add_le (l : List Nat) (c : Nat) (hc : c < l.length) : (l.take c).sum + l[c] ≤ l.sum := by
  induction l generalizing c with
  | nil => simp at hc
  | cons x xs ih =>
    cases c with
    | zero => simp
    | succ c =>
      simp only [List.take_succ_cons, List.sum_cons, List.getElem_cons_succ]
      have := ih c (by simpa using hc)
      omega

/-- an aligned block whose size divides the row length does not cross a row boundary -/
theorem no_cross (side s p : Nat) (hs : s ∣ side) (hp : s ∣ p) (hside : 0 < side) (hs0 : 0 < s) :
    p % side + s ≤ side := by
  have h1 : s ∣ p % side := (Nat.dvd_mod_iff hs).mpr hp
  have h2 : p % side < side := Nat.mod_lt _ hside
  obtain ⟨a, ha⟩ := h1
  obtain ⟨b, hb⟩ := hs
  rw [ha, hb] at h2 ⊢
  have : a < b := Nat.lt_of_mul_lt_mul_left h2
  calc s * a + s = s * (a + 1) := by rw [Nat.mul_add, Nat.mul_one]
    _ ≤ s * b := Nat.mul_le_mul_left _ this

variable {α D : Type} (leafH : α → D) (nodeH : D → D → D) (emptyH : D)

/-- the leaves of row `r` of a square -/
def row (sq : List α) (side r : Nat) : List α := (sq.drop (r * side)).take side

/-- **C05 (structural core).** In a `2^k × 2^k` square, an aligned block of `2^j ≤ 2^k` leaves
    starting at `p` lies in one row, and the root of those leaves *computed in isolation* is the
    value of an inner node of that row's tree, at in-row offset `p % side`. -/
theorem aligned_block_is_row_inner_node (sq : List α) (k j p : Nat)
    (hlen : sq.length = 2 ^ k * 2 ^ k) (hj : j ≤ k) (hp : 2 ^ j ∣ p) (hfit : p + 2 ^ j ≤ sq.length) :
    (p + 2 ^ j - 1) / 2 ^ k = p / 2 ^ k ∧
    Inner leafH nodeH emptyH (row sq (2 ^ k) (p / 2 ^ k)) (p % 2 ^ k) (2 ^ j)
      (rootWith leafH nodeH emptyH ((sq.drop p).take (2 ^ j))) := by
  generalize hside : 2 ^ k = side at *
  have hsidepos : 0 < side := hside ▸ Nat.two_pow_pos k
  have hspos : 0 < 2 ^ j := Nat.two_pow_pos j
  have hsd : 2 ^ j ∣ side := hside ▸ dvd_two_pow_of_le hj
  have hnc := no_cross side (2 ^ j) p hsd hp hsidepos hspos
  have hdm := Nat.div_add_mod p side
  have hplt : p < side * side := by omega
  have hrlt : p / side < side := (Nat.div_lt_iff_lt_mul hsidepos).mpr hplt
  constructor
  · apply Nat.div_eq_of_lt_le
    · rw [Nat.mul_comm]; omega
    · rw [Nat.add_mul, Nat.one_mul, Nat.mul_comm]; omega
  · have hrowlen : (row sq side (p / side)).length = 2 ^ k := by
      unfold row
      rw [List.length_take, List.length_drop, hlen, hside]
      have : (p / side + 1) * side ≤ side * side := Nat.mul_le_mul_right side (by omega)
      rw [Nat.add_mul, Nat.one_mul] at this
      omega
    have hdvd' : 2 ^ j ∣ p % side := (Nat.dvd_mod_iff hsd).mpr hp
    have := aligned_inner leafH nodeH emptyH k (row sq side (p / side)) (p % side) j hrowlen hj hdvd'
      (by rw [hrowlen, hside]; exact hnc)
    have heq : ((row sq side (p / side)).drop (p % side)).take (2 ^ j) = (sq.drop p).take (2 ^ j) := by
      unfold row
      rw [List.drop_take, List.drop_drop, List.take_take]
      have e1 : p / side * side + p % side = p := by rw [Nat.mul_comm]; exact hdm
      rw [e1]
      congr 1; omega
    rw [heq] at this
    exact this

/-- **C05 (every subtree of a placed blob).** A blob of `n` shares placed at an index aligned to
    its subtree width inside a `2^k × 2^k` square: every mountain-range chunk lies in one row and
    its isolated root is an inner node of that row's tree. -/
theorem subtree_roots_are_row_inner_nodes (sq : List α) (k idx n thr : Nat)
    (hlen : sq.length = 2 ^ k * 2 ^ k) (hn1 : 1 ≤ n) (hn52 : n ≤ 2 ^ 52) (ht : 1 ≤ thr)
    (hal : subTreeWidth n thr ∣ idx) (hfit : idx + n ≤ sq.length)
    (c : Nat) (hc : c < (mmrSizes n (subTreeWidth n thr)).length) :
    let sizes := mmrSizes n (subTreeWidth n thr)
    let p := idx + (sizes.take c).sum
    (p + sizes[c] - 1) / 2 ^ k = p / 2 ^ k ∧
    Inner leafH nodeH emptyH (row sq (2 ^ k) (p / 2 ^ k)) (p % 2 ^ k) sizes[c]
      (rootWith leafH nodeH emptyH ((sq.drop p).take sizes[c])) := by
  intro sizes p
  obtain ⟨wpow, wle, _, _⟩ := subTreeWidth_spec n thr hn1 hn52 ht
  obtain ⟨m1, m2, m3⟩ := mmr_spec n (subTreeWidth n thr) wpow (Nat.le_trans hn52 (by decide))
  have hmem : sizes[c] ∈ sizes := List.getElem_mem _
  obtain ⟨⟨j, hj⟩, hsw⟩ := m1 _ hmem
  -- the chunk size divides the width, the width divides idx, the size divides the prefix sum
  have hd1 : sizes[c] ∣ subTreeWidth n thr := pow2_dvd_of_le ⟨j, hj⟩ wpow hsw
  have hd2 : sizes[c] ∣ (sizes.take c).sum := prefix_dvd sizes (fun x hx => (m1 x hx).1) m3 c hc
  have hdp : sizes[c] ∣ p := Nat.dvd_add (Nat.dvd_trans hd1 hal) hd2
  have hsum := take_sum_add_le sizes c hc
  rw [m2] at hsum
  -- the width is at most the minimal side for n, which is at most the side of any square holding n shares
  have hside : blobMinSquareSize n ≤ 2 ^ k := by
    obtain ⟨_, _, least⟩ := minSquare_least n hn1 hn52
    exact least _ ⟨k, rfl⟩ (by omega)
  have hjk : j ≤ k := by
    have : 2 ^ j ≤ 2 ^ k := by rw [← hj]; omega
    rcases Nat.lt_or_ge k j with h | h
    · exact absurd (Nat.pow_lt_pow_right (by omega : 1 < 2) h) (by omega)
    · exact h
  rw [hj] at hdp hsum ⊢
  exact aligned_block_is_row_inner_node leafH nodeH emptyH sq k j p hlen hjk hdp (by omega)

theorem chunks_length {β : Type} : ∀ (l : List β) (sizes : List Nat), (chunks l sizes).length = sizes.length
  | _, [] => rfl
  | l, s :: ss => by simp [chunks, chunks_length (l.drop s) ss]

/-- the `c`-th chunk of `GenerateSubtreeRoots` is the slice after the earlier chunks -/
theorem chunks_getElem {β : Type} : ∀ (l : List β) (sizes : List Nat) (c : Nat) (hc : c < (chunks l sizes).length),
    (chunks l sizes)[c] = (l.drop (sizes.take c).sum).take (sizes[c]'(by rw [chunks_length] at hc; exact hc))
  | l, [], c, hc => by simp [chunks] at hc
  | l, s :: ss, 0, _ => by simp [chunks]
  | l, s :: ss, c + 1, hc => by
    simp only [chunks, List.getElem_cons_succ, List.take_succ_cons, List.sum_cons]
    rw [chunks_getElem (l.drop s) ss c (by simpa [chunks] using hc), List.drop_drop]

/-- **C05 (commitment).** The share commitment is the caller's Merkle root over exactly the
    subtree roots, and those are a function of the blob (and threshold) alone: nothing about the
    square enters `generateSubtreeRoots` / `createCommitment`. -/
theorem commitment_is_merkle_root_of_subtree_roots (blob : Blob) (thr : Nat) {D' : Type} (merkleRoot : List Bytes → D')
    (roots : List Bytes) (h : generateSubtreeRoots blob thr = .ok roots) :
    createCommitment blob merkleRoot thr = .ok (merkleRoot roots) := by
  simp [createCommitment, h, bind, Except.bind]

/-- non-vacuity of the structural theorem: 11 leaves at index 4 of an 8 × 8 square, threshold 3:
    width 4 divides 4, mountains 4,4,2,1 -/
example : subTreeWidth 11 3 ∣ 4 ∧ 4 + 11 ≤ 2 ^ 3 * 2 ^ 3 ∧ (mmrSizes 11 (subTreeWidth 11 3)).length = 4 := by decide +kernel

end GoSquare.C05
