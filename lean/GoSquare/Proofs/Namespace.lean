import GoSquare.Model.Namespace
/-! Helper lemmas for C18: `cmpBytes` (Go `bytes.Compare`) against the lexicographic order of
    `List UInt8`. -/
namespace GoSquare

theorem cmpBytes_lt_iff : ∀ (a b : Bytes), cmpBytes a b = -1 ↔ a < b
  | [], [] => by simp [cmpBytes]
  | [], _ :: _ => by simp [cmpBytes]
  | _ :: _, [] => by simp [cmpBytes]
  | x :: as, y :: bs => by
    rw [cmpBytes, List.cons_lt_cons_iff]
    by_cases h1 : x < y
    · simp [h1]
    · by_cases h2 : y < x
      · have hne : x ≠ y := by intro h; subst h; exact h1 h2
        simp [h1, h2, hne]
      · have : x = y := by
          have a1 : ¬ x.toNat < y.toNat := by rwa [← UInt8.lt_iff_toNat_lt]
          have a2 : ¬ y.toNat < x.toNat := by rwa [← UInt8.lt_iff_toNat_lt]
          exact UInt8.toNat_inj.mp (by omega)
        subst this
        simp [h1, cmpBytes_lt_iff as bs]

theorem cmpBytes_eq_iff : ∀ (a b : Bytes), cmpBytes a b = 0 ↔ a = b
  | [], [] => by simp [cmpBytes]
  | [], _ :: _ => by simp [cmpBytes]
  | _ :: _, [] => by simp [cmpBytes]
  | x :: as, y :: bs => by
    rw [cmpBytes]
    by_cases h1 : x < y
    · have hne : x ≠ y := by intro h; subst h; exact absurd h1 (by simp [UInt8.lt_iff_toNat_lt])
      simp [h1, hne]
    · by_cases h2 : y < x
      · have hne : x ≠ y := by intro h; subst h; exact absurd h2 (by simp [UInt8.lt_iff_toNat_lt])
        simp [h1, h2, hne]
      · have : x = y := by
          have a1 : ¬ x.toNat < y.toNat := by rwa [← UInt8.lt_iff_toNat_lt]
          have a2 : ¬ y.toNat < x.toNat := by rwa [← UInt8.lt_iff_toNat_lt]
          exact UInt8.toNat_inj.mp (by omega)
        subst this
        simp [h1, cmpBytes_eq_iff as bs]

theorem cmpBytes_swap : ∀ (a b : Bytes), cmpBytes b a = - cmpBytes a b
  | [], [] => by simp [cmpBytes]
  | [], _ :: _ => by simp [cmpBytes]
  | _ :: _, [] => by simp [cmpBytes]
  | x :: as, y :: bs => by
    rw [cmpBytes, cmpBytes]
    by_cases h1 : x < y
    · have h2 : ¬ y < x := by
        rw [UInt8.lt_iff_toNat_lt] at *; omega
      simp [h1, h2]
    · by_cases h2 : y < x
      · simp [h1, h2]
      · simp [h1, h2, cmpBytes_swap as bs]

theorem cmpBytes_range (a b : Bytes) : cmpBytes a b = -1 ∨ cmpBytes a b = 0 ∨ cmpBytes a b = 1 := by
  induction a generalizing b with
  | nil => cases b <;> simp [cmpBytes]
  | cons x as ih =>
    cases b with
    | nil => simp [cmpBytes]
    | cons y bs =>
      rw [cmpBytes]
      by_cases h1 : x < y
      · simp [h1]
      · by_cases h2 : y < x
        · simp [h1, h2]
        · simp [h1, h2, ih bs]

theorem cmpBytes_gt_iff (a b : Bytes) : cmpBytes a b = 1 ↔ b < a := by
  rw [← cmpBytes_lt_iff b a, cmpBytes_swap a b]; omega

/-- transitivity of `≤` as computed by `bytes.Compare` -/
theorem cmpBytes_le_trans : ∀ (a b c : Bytes), cmpBytes a b ≤ 0 → cmpBytes b c ≤ 0 → cmpBytes a c ≤ 0
  | [], _, [] => by simp [cmpBytes]
  | [], _, _ :: _ => by simp [cmpBytes]
  | _ :: _, [], _ => by simp [cmpBytes]
  | _ :: _, _ :: _, [] => by simp [cmpBytes]
  | x :: as, y :: bs, z :: cs => by
    rw [cmpBytes, cmpBytes, cmpBytes]
    intro h1 h2
    by_cases xy : x < y
    · by_cases yz : y < z
      · have : x < z := by rw [UInt8.lt_iff_toNat_lt] at *; omega
        simp [this]
      · by_cases zy : z < y
        · simp [yz, zy] at h2
        · have : y = z := by
            have a1 : ¬ y.toNat < z.toNat := by rwa [← UInt8.lt_iff_toNat_lt]
            have a2 : ¬ z.toNat < y.toNat := by rwa [← UInt8.lt_iff_toNat_lt]
            exact UInt8.toNat_inj.mp (by omega)
          subst this; simp [xy]
    · by_cases yx : y < x
      · simp [xy, yx] at h1
      · have e : x = y := by
          have a1 : ¬ x.toNat < y.toNat := by rwa [← UInt8.lt_iff_toNat_lt]
          have a2 : ¬ y.toNat < x.toNat := by rwa [← UInt8.lt_iff_toNat_lt]
          exact UInt8.toNat_inj.mp (by omega)
        subst e
        simp only [xy, yx, if_false] at h1
        by_cases yz : x < z
        · simp [yz]
        · by_cases zy : z < x
          · simp [yz, zy] at h2
          · simp only [yz, zy, if_false] at h2 ⊢
            exact cmpBytes_le_trans as bs cs h1 h2

end GoSquare
