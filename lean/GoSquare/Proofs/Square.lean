import GoSquare.Proofs.Builder
/-! Structural facts about `WriteSquare`/`Export`: the square has exactly side² shares. -/
namespace GoSquare
open Builder

theorem copyAt_length {α} (dst : List α) (i : Nat) (src r : List α) (h : copyAt dst i src = .ok r) :
    r.length = dst.length := by
  unfold copyAt at h
  split at h
  · cases h
  · simp only [Except.ok.injEq] at h
    subst h
    simp only [List.length_append, List.length_take, List.length_drop]
    omega

theorem res_bind_ok' {α β} {x : Res α} {f : α → Res β} {r : β} (h : (x >>= f) = .ok r) :
    ∃ a, x = .ok a ∧ f a = .ok r := by
  cases x with
  | error e => cases h
  | ok a => exact ⟨a, rfl, h⟩

/-- `WriteSquare` returns exactly `squareSize²` shares. -/
theorem writeSquare_length (txW pfbW : CompactSplitter) (bs : List Bytes) (nrs ss : Nat) (sq : List Bytes)
    (h : writeSquare txW pfbW bs nrs ss = .ok sq) : sq.length = ss * ss := by
  unfold writeSquare at h
  simp only [bind, Except.bind, pure, Except.pure, throw, throwThe, MonadExceptOf.throw] at h
  split at h
  · cases h
  · split at h
    · cases h
    · split at h
      · cases h
      · split at h
        · cases h
        · split at h
          · cases h
          · split at h
            · cases h
            · rename_i sq1 hsq1
              have l1 := copyAt_length _ _ _ _ hsq1
              simp only [List.length_replicate] at l1
              split at h
              · cases h
              · rename_i sq2 hsq2
                have l2 := copyAt_length _ _ _ _ hsq2
                split at h
                · split at h
                  · cases h
                  · rename_i sq3 hsq3
                    have l3 := copyAt_length _ _ _ _ hsq3
                    split at h
                    · cases h
                    · rename_i sq4 hsq4
                      have l4 := copyAt_length _ _ _ _ hsq4
                      split at h
                      · split at h
                        · cases h
                        · have := copyAt_length _ _ _ _ h; omega
                      · simp only [Except.ok.injEq] at h
                        subst h; omega
                · split at h
                  · split at h
                    · cases h
                    · have := copyAt_length _ _ _ _ h; omega
                  · simp only [Except.ok.injEq] at h
                    subst h; omega


theorem emptySquare_length (sq : List Bytes) (h : emptySquare = .ok sq) : sq.length = 1 := by
  unfold emptySquare tailPaddingShares namespacePaddingShares at h
  simp only [show ¬ (1 = 0) by decide, if_false, bind, Except.bind] at h
  cases hp : namespacePaddingShare tailPaddingNamespace 0 with
  | error e => rw [hp] at h; cases h
  | ok s =>
    rw [hp] at h
    simp only [Except.mapError, Except.ok.injEq] at h
    subst h; rfl

/-- `Export` returns one share for an empty builder and otherwise exactly side² shares, the side
    being `BlobMinSquareSize` of the running estimate. -/
theorem exportCore_length (thr : Nat) (cs : Int) (txs : List Bytes) (pfbs : List Proto.IndexWrapper)
    (blobs : List Element) (txSize pfbSize : Nat) (upd : Option (List Element × List Proto.IndexWrapper))
    (sq : List Bytes) (h : exportCore thr cs txs pfbs blobs txSize pfbSize = .ok (upd, sq)) :
    sq.length = if txSize = 0 ∧ pfbSize = 0 then 1
      else blobMinSquareSize cs.toNat * blobMinSquareSize cs.toNat := by
  unfold exportCore at h
  by_cases hz : txSize = 0 ∧ pfbSize = 0
  · obtain ⟨rfl, rfl⟩ := hz
    simp only [beq_self_eq_true, Bool.and_self, if_true, bind, Except.bind] at h
    cases he : emptySquare with
    | error e => rw [he] at h; cases h
    | ok s =>
      rw [he] at h
      simp only [Except.ok.injEq, Prod.mk.injEq] at h
      obtain ⟨_, rfl⟩ := h
      simp [emptySquare_length s he]
  · have hc : (txSize == 0 && pfbSize == 0) = false := by
      rcases Nat.eq_zero_or_pos txSize with h0 | h0
      · have : pfbSize ≠ 0 := fun h1 => hz ⟨h0, h1⟩
        simp [this]
      · have : txSize ≠ 0 := by omega
        simp [this]
    rw [if_neg hz]
    simp only [hc, Bool.false_eq_true, if_false] at h
    obtain ⟨_, _, h⟩ := res_bind_ok' h
    obtain ⟨_, _, h⟩ := res_bind_ok' h
    obtain ⟨_, _, h⟩ := res_bind_ok' h
    obtain ⟨_, _, h⟩ := res_bind_ok' h
    obtain ⟨_, _, h⟩ := res_bind_ok' h
    split at h
    · cases h
    · obtain ⟨sq', hw, h⟩ := res_bind_ok' h
      simp only [Except.ok.injEq, Prod.mk.injEq] at h
      obtain ⟨_, rfl⟩ := h
      exact writeSquare_length _ _ _ _ _ _ hw

end GoSquare
