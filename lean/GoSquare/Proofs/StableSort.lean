import GoSquare.Proofs.SortOrder
import GoSquare.Spec.Layout
/-! C07: the specification's insertion sort (`Spec.stableSort`) and the model's merge sort
    (`List.mergeSort elemLe`, i.e. Go's `sort.SliceStable`) produce the same order.

    * `stable_sort_unique`: a stable sorted arrangement of a duplicate-free list is unique.
    * `stableSort_perm / _sorted / _stable`: the insertion sort is a stable sort.
    * `stableSort_eq_mergeSort_of_nodup`: `Spec.stableSort l = l.mergeSort le` for duplicate-free `l`.
    * `allBlobs_toElem`, `stableSort_eq_mergeSort`: the blobs of the specification, sorted by the
      insertion sort, are the elements of the builder, sorted by the merge sort. -/
namespace GoSquare.StableSort
open GoSquare Builder Spec List

/-! ### 1. uniqueness of stable sorting -/

/-- core of the uniqueness argument: two arrangements of the same elements, both sorted for `le`
    and both keeping elements with equivalent keys in the order of a duplicate-free list `l`,
    are equal. -/
theorem stable_sort_unique_of_perm {α : Type} {le : α → α → Bool} {l : List α} (hn : l.Nodup) :
    ∀ (l1 l2 : List α), l1.Perm l2 →
      l1.Pairwise (fun a b => le a b = true) → l2.Pairwise (fun a b => le a b = true) →
      l1.Pairwise (fun a b => le b a = true → [a, b] <+ l) →
      l2.Pairwise (fun a b => le b a = true → [a, b] <+ l) → l1 = l2
  | [], l2, hp, _, _, _, _ => (List.Perm.nil_eq hp)
  | a :: t1, [], hp, _, _, _, _ => absurd hp.symm (by simp)
  | a :: t1, b :: t2, hp, hs1, hs2, hst1, hst2 => by
    have hs1' := List.pairwise_cons.mp hs1
    have hs2' := List.pairwise_cons.mp hs2
    have hst1' := List.pairwise_cons.mp hst1
    have hst2' := List.pairwise_cons.mp hst2
    have hab : a = b := by
      apply Classical.byContradiction
      intro hne
      have ha2 : a ∈ t2 := by
        have : a ∈ b :: t2 := hp.subset (by simp)
        rcases List.mem_cons.mp this with h | h
        · exact absurd h hne
        · exact h
      have hb1 : b ∈ t1 := by
        have : b ∈ a :: t1 := hp.symm.subset (by simp)
        rcases List.mem_cons.mp this with h | h
        · exact absurd h.symm hne
        · exact h
      have hba : le b a = true := hs2'.1 a ha2
      have hab : le a b = true := hs1'.1 b hb1
      exact pair_sublist_asymm hn (hst1'.1 b hb1 hba) (hst2'.1 a ha2 hab)
    subst hab
    have ht : t1 = t2 :=
      stable_sort_unique_of_perm hn t1 t2 (List.Perm.cons_inv hp) hs1'.2 hs2'.2 hst1'.2 hst2'.2
    rw [ht]

/-- **uniqueness of stable sorting.** For a duplicate-free list `l`: two permutations of `l` that
    are both sorted for the key order `le` and both stable with respect to `l` (elements with
    equivalent keys keep the order they have in `l`) are equal. -/
theorem stable_sort_unique {α : Type} {le : α → α → Bool} {l l1 l2 : List α} (hn : l.Nodup)
    (hp1 : l1.Perm l) (hp2 : l2.Perm l)
    (hs1 : l1.Pairwise (fun a b => le a b = true)) (hs2 : l2.Pairwise (fun a b => le a b = true))
    (hst1 : l1.Pairwise (fun a b => le b a = true → [a, b] <+ l))
    (hst2 : l2.Pairwise (fun a b => le b a = true → [a, b] <+ l)) : l1 = l2 :=
  stable_sort_unique_of_perm hn l1 l2 (hp1.trans hp2.symm) hs1 hs2 hst1 hst2

/-- `mergeSort` is stable in the sublist form used by `stable_sort_unique`. -/
theorem mergeSort_stable_sublist {α : Type} {le : α → α → Bool}
    (trans : ∀ (a b c : α), le a b → le b c → le a c)
    (total : ∀ (a b : α), le a b || le b a)
    {l : List α} (hn : l.Nodup) :
    (l.mergeSort le).Pairwise (fun a b => le b a = true → [a, b] <+ l) :=
  mergeSort_stable_pairwise (R := fun a b => [a, b] <+ l) trans total hn
    (List.pairwise_iff_forall_sublist.mpr (fun h => h))

/-- any stable sorted permutation of a duplicate-free list is its `mergeSort`. -/
theorem eq_mergeSort_of_stable {α : Type} {le : α → α → Bool}
    (trans : ∀ (a b c : α), le a b → le b c → le a c)
    (total : ∀ (a b : α), le a b || le b a)
    {l l1 : List α} (hn : l.Nodup) (hp1 : l1.Perm l)
    (hs1 : l1.Pairwise (fun a b => le a b = true))
    (hst1 : l1.Pairwise (fun a b => le b a = true → [a, b] <+ l)) : l1 = l.mergeSort le :=
  stable_sort_unique hn hp1 (List.mergeSort_perm l le) hs1
    (List.pairwise_mergeSort trans total l) hst1 (mergeSort_stable_sublist trans total hn)

/-! ### 2. the insertion sort of the specification is a stable sort -/

/-- the key order of the specification's sort: namespace `≤` as computed by `bytes.Compare` -/
def pLe (x y : PBlob) : Bool := cmpBytes x.blob.ns y.blob.ns ≤ 0

theorem pLe_iff (x y : PBlob) : pLe x y = true ↔ cmpBytes x.blob.ns y.blob.ns ≤ 0 := by
  simp [pLe]

theorem pLe_trans (a b c : PBlob) : pLe a b = true → pLe b c = true → pLe a c = true := by
  simp only [pLe, decide_eq_true_eq]
  exact cmpBytes_le_trans _ _ _

theorem pLe_total (a b : PBlob) : (pLe a b || pLe b a) = true := by
  simp only [pLe, Bool.or_eq_true, decide_eq_true_eq]
  have := cmpBytes_swap a.blob.ns b.blob.ns
  omega

/-- `x` strictly below `y`, `y ≤ z`: then `z ≤ x` fails. -/
theorem not_pLe_of_lt_of_pLe {x y z : PBlob} (hxy : cmpBytes x.blob.ns y.blob.ns < 0)
    (hyz : pLe y z = true) : ¬ pLe z x = true := by
  intro hzx
  have hyx := pLe_trans y z x hyz hzx
  simp only [pLe, decide_eq_true_eq] at hyx
  have := cmpBytes_swap x.blob.ns y.blob.ns
  omega

theorem insertSorted_perm (x : PBlob) : ∀ (l : List PBlob), (insertSorted x l).Perm (x :: l)
  | [] => by simp [insertSorted]
  | y :: ys => by
    unfold insertSorted
    split
    · exact List.Perm.refl _
    · exact ((insertSorted_perm x ys).cons y).trans (List.Perm.swap x y ys)

theorem mem_insertSorted {x z : PBlob} {l : List PBlob} : z ∈ insertSorted x l ↔ z = x ∨ z ∈ l := by
  rw [(insertSorted_perm x l).mem_iff, List.mem_cons]

/-- inserting into a sorted list gives a sorted list -/
theorem insertSorted_sorted (x : PBlob) : ∀ (l : List PBlob),
    l.Pairwise (fun a b => pLe a b = true) → (insertSorted x l).Pairwise (fun a b => pLe a b = true)
  | [], _ => by simp [insertSorted]
  | y :: ys, h => by
    have h' := List.pairwise_cons.mp h
    unfold insertSorted
    split
    · rename_i hlt
      have hxy : pLe x y = true := by
        simp only [pLe, decide_eq_true_eq]; omega
      refine List.pairwise_cons.mpr ⟨?_, h⟩
      intro z hz
      rcases List.mem_cons.mp hz with rfl | hz
      · exact hxy
      · exact pLe_trans x y z hxy (h'.1 z hz)
    · rename_i hnlt
      have hyx : pLe y x = true := by
        simp only [pLe, decide_eq_true_eq]
        have := cmpBytes_swap x.blob.ns y.blob.ns
        omega
      refine List.pairwise_cons.mpr ⟨?_, insertSorted_sorted x ys h'.2⟩
      intro z hz
      rcases mem_insertSorted.mp hz with rfl | hz
      · exact hyx
      · exact h'.1 z hz

/-- inserting `x` keeps every pairwise relation `S` that holds on the list, holds from each old
    element to `x`, and is only required where the right element is `≤` the left one:
    `x` is put after all elements `≤ x`, and strictly before the others. -/
theorem insertSorted_stable (S : PBlob → PBlob → Prop) (x : PBlob) : ∀ (l : List PBlob),
    l.Pairwise (fun a b => pLe a b = true) →
    l.Pairwise (fun a b => pLe b a = true → S a b) →
    (∀ y, y ∈ l → S y x) →
    (insertSorted x l).Pairwise (fun a b => pLe b a = true → S a b)
  | [], _, _, _ => by simp [insertSorted]
  | y :: ys, hs, hS, hx => by
    have hs' := List.pairwise_cons.mp hs
    have hS' := List.pairwise_cons.mp hS
    unfold insertSorted
    split
    · rename_i hlt
      refine List.pairwise_cons.mpr ⟨?_, hS⟩
      intro z hz hzx
      exfalso
      rcases List.mem_cons.mp hz with rfl | hz
      · simp only [pLe, decide_eq_true_eq] at hzx
        have := cmpBytes_swap x.blob.ns z.blob.ns
        omega
      · exact not_pLe_of_lt_of_pLe hlt (hs'.1 z hz) hzx
    · refine List.pairwise_cons.mpr ⟨?_, insertSorted_stable S x ys hs'.2 hS'.2
        (fun z hz => hx z (List.mem_cons_of_mem _ hz))⟩
      intro z hz hzy
      rcases mem_insertSorted.mp hz with rfl | hz
      · exact hx y (by simp)
      · exact hS'.1 z hz hzy

/-- what it means for `acc` to be the stable sort of `pre` -/
structure IsStableSortOf (acc pre : List PBlob) : Prop where
  perm : acc.Perm pre
  sorted : acc.Pairwise (fun a b => pLe a b = true)
  stable : acc.Pairwise (fun a b => pLe b a = true → [a, b] <+ pre)

theorem IsStableSortOf.nil : IsStableSortOf [] [] :=
  ⟨List.Perm.refl _, List.Pairwise.nil, List.Pairwise.nil⟩

theorem IsStableSortOf.insert {acc pre : List PBlob} (h : IsStableSortOf acc pre) (x : PBlob) :
    IsStableSortOf (insertSorted x acc) (pre ++ [x]) := by
  refine ⟨?_, insertSorted_sorted x acc h.sorted, ?_⟩
  · exact ((insertSorted_perm x acc).trans (h.perm.cons x)).trans
      (List.perm_append_singleton x pre).symm
  · refine insertSorted_stable (fun a b => [a, b] <+ pre ++ [x]) x acc h.sorted ?_ ?_
    · refine h.stable.imp ?_
      intro a b hab hle
      exact (hab hle).trans (List.sublist_append_left pre [x])
    · intro y hy
      have hy' : y ∈ pre := h.perm.subset hy
      have h1 : [y] <+ pre := List.singleton_sublist.mpr hy'
      exact List.Sublist.append h1 (List.Sublist.refl [x])

theorem foldl_insertSorted_isStableSortOf : ∀ (l acc pre : List PBlob), IsStableSortOf acc pre →
    IsStableSortOf (l.foldl (fun acc x => insertSorted x acc) acc) (pre ++ l)
  | [], acc, pre, h => by simpa using h
  | x :: xs, acc, pre, h => by
    have := foldl_insertSorted_isStableSortOf xs (insertSorted x acc) (pre ++ [x]) (h.insert x)
    simpa [List.append_assoc] using this

theorem stableSort_isStableSortOf (l : List PBlob) : IsStableSortOf (stableSort l) l := by
  have := foldl_insertSorted_isStableSortOf l [] [] IsStableSortOf.nil
  simpa [stableSort] using this

/-- the insertion sort permutes its input -/
theorem stableSort_perm (l : List PBlob) : (stableSort l).Perm l := (stableSort_isStableSortOf l).perm

/-- the insertion sort sorts by namespace -/
theorem stableSort_sorted (l : List PBlob) :
    (stableSort l).Pairwise (fun a b => cmpBytes a.blob.ns b.blob.ns ≤ 0) :=
  (stableSort_isStableSortOf l).sorted.imp (fun h => (pLe_iff _ _).mp h)

/-- the insertion sort is stable: whenever `a` is put before `b` although `b`'s namespace is `≤`
    (hence equal to) `a`'s, `a` occurs before `b` in the input -/
theorem stableSort_stable (l : List PBlob) :
    (stableSort l).Pairwise (fun a b => cmpBytes b.blob.ns a.blob.ns ≤ 0 → [a, b] <+ l) :=
  (stableSort_isStableSortOf l).stable.imp (fun h hle => h ((pLe_iff _ _).mpr hle))

/-- stability, with equality of namespaces -/
theorem stableSort_stable_eq (l : List PBlob) :
    (stableSort l).Pairwise (fun a b => a.blob.ns = b.blob.ns → [a, b] <+ l) := by
  refine (stableSort_stable l).imp ?_
  intro a b h hns
  apply h
  rw [(cmpBytes_eq_iff _ _).mpr hns.symm]
  exact Int.le_refl 0

/-- on a duplicate-free list the specification's insertion sort *is* the stable merge sort -/
theorem stableSort_eq_mergeSort_of_nodup {l : List PBlob} (hn : l.Nodup) :
    stableSort l = l.mergeSort pLe :=
  eq_mergeSort_of_stable pLe_trans pLe_total hn (stableSort_isStableSortOf l).perm
    (stableSort_isStableSortOf l).sorted (stableSort_isStableSortOf l).stable

/-! ### 3. the specification's sorted blobs are the builder's sorted elements -/

/-- the builder element of a blob of the specification -/
def toElem (thr : Nat) (x : Spec.PBlob) : Element := newElement x.blob x.txPos x.blobPos thr

/-- the builder's blob transaction of a transaction of the specification -/
def toB (p : Spec.PTx) : BlobTx := { tx := p.tx, blobs := p.blobs }

theorem elemLe_toElem (thr : Nat) (x y : PBlob) : elemLe (toElem thr x) (toElem thr y) = pLe x y := rfl

theorem map_mapIdx' {α β γ : Type} (f : Nat → α → β) (g : β → γ) (l : List α) :
    (l.mapIdx f).map g = l.mapIdx (fun i a => g (f i a)) := by
  apply List.ext_getElem?
  intro i
  simp only [List.getElem?_mapIdx, List.getElem?_map, Option.map_map]
  rfl

theorem mapIdx_map' {α β γ : Type} (f : Nat → β → γ) (g : α → β) (l : List α) :
    (l.map g).mapIdx f = l.mapIdx (fun i a => f i (g a)) := by
  apply List.ext_getElem?
  intro i
  simp only [List.getElem?_mapIdx, List.getElem?_map, Option.map_map]
  rfl

/-- the blobs of the specification, with their coordinates, are the elements of the builder -/
theorem allBlobs_toElem (thr : Nat) (P : List Spec.PTx) :
    (Spec.allBlobs P).map (toElem thr) = allElements thr (P.map toB) := by
  unfold Spec.allBlobs allElements elementsOf
  rw [List.map_flatten, map_mapIdx', mapIdx_map']
  congr 1
  apply List.ext_getElem?
  intro i
  simp only [List.getElem?_mapIdx]
  cases P[i]? with
  | none => rfl
  | some p =>
    simp only [Option.map_some, map_mapIdx']
    rfl

/-- **the two sorts agree**: the specification's insertion sort of the blobs and the model's
    (Go's `sort.SliceStable`) merge sort of the elements give the same order. -/
theorem stableSort_eq_mergeSort (thr : Nat) (P : List Spec.PTx) :
    (Spec.stableSort (Spec.allBlobs P)).map (toElem thr) = sortedElems thr (P.map toB) := by
  have hI := stableSort_isStableSortOf (Spec.allBlobs P)
  unfold sortedElems
  refine eq_mergeSort_of_stable elemLe_trans elemLe_total (allElements_nodup thr (P.map toB)) ?_ ?_ ?_
  · rw [← allBlobs_toElem]
    exact hI.perm.map _
  · rw [List.pairwise_map]
    exact hI.sorted.imp (fun h => by rw [elemLe_toElem]; exact h)
  · rw [List.pairwise_map, ← allBlobs_toElem]
    refine hI.stable.imp ?_
    intro a b h hle
    rw [elemLe_toElem] at hle
    exact (h hle).map (toElem thr)

end GoSquare.StableSort
