import GoSquare.Proofs.Compact
/-! # C14 — incremental APIs are history-independent (compact share splitter half; the builder
half is decided by the BHIST correspondence stream and oracle, see evidence)

For EVERY interleaving of {WriteTx, Export, Count} on a compact share splitter, the shares finally
exported are exactly `Spec.compactSeq` of the transactions written — a function of the writes
alone. This is the property the `fix:` commit for F4 restored (Export used to leave zero padding
in the middle of the sequence). -/
namespace GoSquare.C14
open GoSquare Spec

inductive Op where
  | write (tx : Bytes)
  | exp
  | count
  deriving Repr

/-- the transactions written by a history -/
def writes : List Op → List Bytes
  | [] => []
  | .write t :: ops => t :: writes ops
  | _ :: ops => writes ops

/-- run one operation on the splitter (errors propagate) -/
def step (c : CompactSplitter) : Op → Res CompactSplitter
  | .write t => c.writeTx t
  | .exp => c.exportShares.map (·.1)
  | .count => .ok c

def run (c : CompactSplitter) (ops : List Op) : Res CompactSplitter := ops.foldlM step c

/-- the invariant between operations: after dropping the padded copy a pending `Export` left
    behind, the splitter is in the specified state for the transactions written so far; and while
    `done` is set its share list *is* the specified sequence -/
def J (ns : Bytes) (c : CompactSplitter) (units : List Bytes) : Prop :=
  ∃ x, x.length = 4 ∧ Normal ns x c.reopen units ∧
    (c.done = true → c.shares = Spec.compactSeq ns units ∧ (unitStream units).length ≠ 0)

theorem reopen_idem (c : CompactSplitter) : c.reopen.reopen = c.reopen := by
  unfold CompactSplitter.reopen
  by_cases h : c.done = true <;> simp [h]

theorem writeTx_reopen (c : CompactSplitter) (t : Bytes) : c.writeTx t = c.reopen.writeTx t := by
  unfold CompactSplitter.writeTx
  rw [reopen_idem]

theorem unitStream_mono (units : List Bytes) (t : Bytes) :
    (unitStream units).length ≤ (unitStream (units ++ [t])).length := by
  rw [unitStream_append]; simp

theorem J_step (ns : Bytes) (hc : CompactNs ns) (c : CompactSplitter) (units : List Bytes) (op : Op)
    (hJ : J ns c units) (hlt : (unitStream units).length < 4294967296) :
    ∃ c', step c op = .ok c' ∧ J ns c' (units ++ writes [op]) ∧
      (op = .exp → c.exportShares.map (·.2) = .ok (Spec.compactSeq ns units)) := by
  obtain ⟨x, hxl, hN, hdone⟩ := hJ
  cases op with
  | write t =>
    obtain ⟨c', hw, hN', _⟩ := writeTx_spec ns x hc c.reopen units t hN
    refine ⟨c', by simp only [step]; rw [writeTx_reopen]; exact hw, ⟨x, hxl, ?_, ?_⟩, fun h => by cases h⟩
    · rw [reopen_of_not_done c' hN'.1.done]; simpa [writes] using hN'
    · intro hd; rw [hN'.1.done] at hd; cases hd
  | count =>
    refine ⟨c, rfl, ?_, fun h => by cases h⟩
    rw [show writes [Op.count] = [] from rfl, List.append_nil]; exact ⟨x, hxl, hN, hdone⟩
  | exp =>
    by_cases hd : c.done = true
    · -- a second Export: the stored shares are returned
      obtain ⟨hsh, hne⟩ := hdone hd
      have hcnt : 1 ≤ (Spec.compactSeq ns units).length := by
        rw [compactSeq_eq, List.length_map, List.length_range, compactCount]
        split
        · omega
        · split <;> omega
      have hie : c.isEmpty = false := by
        have : c.shares.length ≠ 0 := by rw [hsh]; omega
        simp [CompactSplitter.isEmpty, this]
      have hex : c.exportShares = .ok (c, c.shares) := by
        simp [CompactSplitter.exportShares, hie, hd]
      refine ⟨c, by simp [step, hex, Except.map], ?_, fun _ => ?_⟩
      · rw [show writes [Op.exp] = [] from rfl, List.append_nil]; exact ⟨x, hxl, hN, hdone⟩
      · simp [hex, Except.map, hsh]
    · have hd' : c.done = false := by simpa using hd
      rw [reopen_of_not_done c hd'] at hN
      obtain ⟨c', x', hex, hxl', hN', _, h5, h6⟩ := export_spec ns x hc c units hN hxl hlt
      refine ⟨c', by simp [step, hex, Except.map], ?_, fun _ => by simp [hex, Except.map]⟩
      simp only [writes, List.append_nil]
      refine ⟨x', hxl', hN', ?_⟩
      intro hdc
      by_cases hz : (unitStream units).length = 0
      · rw [h6 hz, hd'] at hdc; cases hdc
      · exact ⟨(h5 hz).2, hz⟩

theorem writes_append (a b : List Op) : writes (a ++ b) = writes a ++ writes b := by
  induction a with
  | nil => rfl
  | cons op a ih => cases op <;> simp [writes, ih]

theorem unitStream_length_mono : ∀ (us vs : List Bytes), (unitStream us).length ≤ (unitStream (us ++ vs)).length := by
  intro us vs
  simp [unitStream]

theorem J_run (ns : Bytes) (hc : CompactNs ns) : ∀ (ops : List Op) (c : CompactSplitter) (units : List Bytes),
    J ns c units → (unitStream (units ++ writes ops)).length < 4294967296 →
    ∃ c', run c ops = .ok c' ∧ J ns c' (units ++ writes ops)
  | [], c, units, hJ, _ => ⟨c, rfl, by simpa [writes] using hJ⟩
  | op :: ops, c, units, hJ, hlt => by
    have hlt1 : (unitStream units).length < 4294967296 := Nat.lt_of_le_of_lt (unitStream_length_mono units _) hlt
    obtain ⟨c1, h1, hJ1, _⟩ := J_step ns hc c units op hJ hlt1
    have hw : units ++ writes (op :: ops) = (units ++ writes [op]) ++ writes ops := by
      rw [show op :: ops = [op] ++ ops from rfl, writes_append, List.append_assoc]
    obtain ⟨c2, h2, hJ2⟩ := J_run ns hc ops c1 (units ++ writes [op]) hJ1 (by rw [← hw]; exact hlt)
    refine ⟨c2, ?_, by rw [hw]; exact hJ2⟩
    simp only [run, List.foldlM_cons, h1] at h2 ⊢
    exact h2

/-- **C14 (compact share splitter, every history).** Whatever exports and counts are interleaved
    with the writes, the shares finally exported are the specified sequence of the transactions
    written — the same as a fresh splitter fed only the writes. -/
theorem splitter_history_independent (ns : Bytes) (hc : CompactNs ns) (ops : List Op)
    (hlt : (unitStream (writes ops)).length < 4294967296) :
    ∃ c0 c, CompactSplitter.new ns 0 = .ok c0 ∧ run c0 ops = .ok c ∧
      c.exportShares.map (·.2) = .ok (Spec.compactSeq ns (writes ops)) := by
  obtain ⟨c0, hnew, hN0, _⟩ := new_spec ns hc
  have hJ0 : J ns c0 [] := ⟨zeros 4, by simp, by rw [reopen_of_not_done c0 hN0.1.done]; exact hN0,
    fun hd => by rw [hN0.1.done] at hd; cases hd⟩
  obtain ⟨c, hrun, hJ⟩ := J_run ns hc ops c0 [] hJ0 (by simpa using hlt)
  simp only [List.nil_append] at hJ
  obtain ⟨_, _, _, hex⟩ := J_step ns hc c (writes ops) .exp hJ hlt
  exact ⟨c0, c, hnew, hrun, hex rfl⟩

/-- corollary in the words of the property: two histories with the same writes export the same shares -/
theorem same_writes_same_export (ns : Bytes) (hc : CompactNs ns) (ops₁ ops₂ : List Op) (hw : writes ops₁ = writes ops₂)
    (hlt : (unitStream (writes ops₁)).length < 4294967296) :
    ∃ c0 c₁ c₂, CompactSplitter.new ns 0 = .ok c0 ∧ run c0 ops₁ = .ok c₁ ∧ run c0 ops₂ = .ok c₂ ∧
      c₁.exportShares.map (·.2) = c₂.exportShares.map (·.2) := by
  obtain ⟨c0, c1, h0, h1, e1⟩ := splitter_history_independent ns hc ops₁ hlt
  obtain ⟨c0', c2, h0', h2, e2⟩ := splitter_history_independent ns hc ops₂ (by rw [← hw]; exact hlt)
  rw [h0] at h0'; cases h0'
  exact ⟨c0, c1, c2, h0, h1, h2, by rw [e1, e2, hw]⟩

/-- non-vacuity: the history of F4 (write, export, write, export) has the writes of a plain one -/
example : writes [.write [1], .exp, .write [2], .count, .exp] = [[1], [2]] := rfl
example : CompactNs txNamespace := ⟨by decide, by decide⟩

end GoSquare.C14
