import GoSquare.Proofs.C04Core
import GoSquare.Proofs.Deconstruct
/-! Every wrapped PFB of the closed-form square satisfies what the `Deconstruct` loop needs. -/
namespace GoSquare
open Builder Spec

/-- a canonically encoded blob transaction, as C02 quantifies over it: it has blobs, its PFB
    message declares exactly the blob sizes, re-marshalling its parts gives back its bytes -/
structure CanonBlobTx (dec : Bytes → Decoded) (pfbDec : Bytes → Res (List Nat)) (raw : Bytes) : Prop where
  isBlobTx : dec raw = .blobTx (decB dec raw)
  nonEmpty : (decB dec raw).blobs ≠ []
  sizes : pfbDec (decB dec raw).tx = .ok ((decB dec raw).blobs.map (·.data.length))
  marshal : marshalBlobTx (decB dec raw).tx (decB dec raw).blobs = some raw
  txSmall : (decB dec raw).tx.length < 2 ^ 63
  blobsSmall : (decB dec raw).blobs.length < 4294967296

theorem u32_lt (n : Nat) : u32 n < 4294967296 := Nat.mod_lt _ (by decide)

theorem flatten_uvarint_le : ∀ (idx : List Nat), (∀ v ∈ idx, v < 4294967296) →
    ((idx.map uvarint).flatten).length ≤ 9 * idx.length
  | [], _ => by simp
  | v :: idx, h => by
    have h9 := uvarintLen_le_nine v (by
      have := h v (by simp)
      have : (4294967296 : Nat) < 2 ^ 63 := by decide
      omega)
    have ih := flatten_uvarint_le idx (fun x hx => h x (by simp [hx]))
    simp only [List.map_cons, List.flatten_cons, List.length_append, uvarint_length, List.length_cons]
    omega

/-- the `p`-th wrapped PFB of the square: what `Deconstruct` reads from it -/
theorem pfbOK_of_patched (dec : Bytes → Decoded) (pfbDec : Bytes → Res (List Nat)) (thr : Nat) (N bl : List Bytes)
    (ss : Nat) (hv : ∀ t ∈ bl.map (decB dec), ∀ b ∈ t.blobs, b.BlobValid)
    (h1 : (compactSeq txNamespace N).length +
        (compactSeq payForBlobNamespace ((patched thr N (bl.map (decB dec))).map (·.marshal))).length ≤
        firstIdx thr (startOf N (bl.map (decB dec))) (sortedElems thr (bl.map (decB dec))))
    (hlen : (squareOf thr N (bl.map (decB dec)) ss).length < 4294967296)
    (p : Nat) (raw : Bytes) (iw : Proto.IndexWrapper) (hp : bl[p]? = some raw)
    (hiw : (patched thr N (bl.map (decB dec)))[p]? = some iw) (hc : CanonBlobTx dec pfbDec raw) :
    PfbOK (squareOf thr N (bl.map (decB dec)) ss) pfbDec iw (decB dec raw).blobs raw := by
  have hB : (bl.map (decB dec))[p]? = some (decB dec raw) := by rw [List.getElem?_map, hp]; rfl
  -- what is recorded for blob j
  have hrec : ∀ (j : Nat) (b : Blob), (decB dec raw).blobs[j]? = some b →
      ∃ idx, iw.tx = (decB dec raw).tx ∧ iw.typeId = indexWrapperTypeId ∧
        iw.shareIndexes.length = (decB dec raw).blobs.length ∧ iw.shareIndexes[j]? = some (u32 idx) ∧
        ((squareOf thr N (bl.map (decB dec)) ss).drop idx).take (sparseSeq b).length = sparseSeq b := by
    intro j b hj
    obtain ⟨k, idx, hpl⟩ := C04.every_blob_is_placed thr N (bl.map (decB dec)) p j _ b hB hj
    obtain ⟨⟨iw', t, r1, r2, r3, r4, r5, r6⟩, r7, r8, _⟩ :=
      C04.recorded_index_is_truthful thr N (bl.map (decB dec)) ss hv h1 k _ idx hpl
    simp only [newElement] at r1 r2 r6
    rw [hiw] at r1
    rw [hB] at r2
    simp only [Option.some.injEq] at r1 r2
    subst r1 r2
    have r8' : (newElement b p j thr).numShares = (sparseSeq b).length := r8
    have r7' : ((squareOf thr N (bl.map (decB dec)) ss).drop idx).take (newElement b p j thr).numShares = sparseSeq b := r7
    exact ⟨idx, r3, r4, r5, r6, by rw [← r8']; exact r7'⟩
  obtain ⟨b0, hb0⟩ : ∃ b0, (decB dec raw).blobs[0]? = some b0 := by
    cases hbs : (decB dec raw).blobs with
    | nil => exact absurd hbs hc.nonEmpty
    | cons x xs => exact ⟨x, rfl⟩
  obtain ⟨_, htx, htid, hlenI, _, _⟩ := hrec 0 b0 hb0
  have hall : ∀ v ∈ iw.shareIndexes, v < 4294967296 := by
    intro v hvm
    obtain ⟨j, hj, rfl⟩ := List.mem_iff_getElem.mp hvm
    have hjb : j < (decB dec raw).blobs.length := by omega
    obtain ⟨idx, _, _, _, h4, _⟩ := hrec j _ (List.getElem?_eq_getElem hjb)
    rw [List.getElem?_eq_getElem hj] at h4
    simp only [Option.some.injEq] at h4
    rw [h4]; exact u32_lt idx
  refine ⟨?_, ?_, hlenI, by rw [htx]; exact hc.sizes, ?_, ?_, by rw [htx]; exact hc.marshal⟩
  · -- unwrap
    have hform : iw = newIndexWrapper iw.tx iw.shareIndexes := by
      cases iw; simp only [newIndexWrapper] at htid ⊢; rw [htid]
    have hsmall : ((iw.shareIndexes.map uvarint).flatten).length < 2 ^ 63 := by
      have := flatten_uvarint_le iw.shareIndexes hall
      have h2 := hc.blobsSmall
      have : (9 * 4294967296 : Nat) < 2 ^ 63 := by decide
      omega
    have := C19.unmarshalIndexWrapper_marshal iw.tx iw.shareIndexes (by rw [htx]; exact hc.txSmall) hall hsmall
    unfold marshalIndexWrapper at this
    rw [← hform] at this
    exact this
  · rw [hlenI]
    intro h0; exact hc.nonEmpty (List.eq_nil_of_length_eq_zero h0)
  · intro b hb
    exact hv _ (List.mem_map.mpr ⟨raw, List.mem_of_getElem? hp, rfl⟩) b hb
  · intro j v b hjv hjb
    obtain ⟨idx, _, _, _, h4, h5⟩ := hrec j b hjb
    rw [hjv] at h4
    simp only [Option.some.injEq] at h4
    have hne : sparseSeq b ≠ [] := by simp [sparseSeq]
    have hpos : 0 < (sparseSeq b).length := List.length_pos_iff.mpr hne
    have hfull := congrArg List.length h5
    simp only [List.length_take, List.length_drop] at hfull
    have hidx : idx + (sparseSeq b).length ≤ (squareOf thr N (bl.map (decB dec)) ss).length := by omega
    have hu : u32 idx = idx := Nat.mod_eq_of_lt (by omega)
    rw [h4, hu]
    exact ⟨hidx, h5⟩

end GoSquare
