import GoSquare.Proofs.Counter
import GoSquare.Proofs.Sparse
/-! The compact writer refines the specified format (C09, C10, C13, C14b): an invariant of the
    streaming `CompactShareSplitter` against `Spec.compactSeq`, for every history of writes. -/
namespace GoSquare
open Spec

/-- a compact namespace (tx or pay-for-blob), 29 bytes -/
structure CompactNs (ns : Bytes) : Prop where
  len : ns.length = 29
  compact : isCompactNs ns = true

/-! ### positions -/

theorem posOf_fst_off (T : Nat) :
    compactOff (posOf T).1 ≤ T ∧ T < compactOff (posOf T).1 + compactCap (posOf T).1 ∧
    (posOf T).2 = T - compactOff (posOf T).1 := by
  unfold posOf compactOff compactCap
  by_cases h : T < 474
  · simp [h]
  · simp only [h, if_false]
    have hne : ¬ (1 + (T - 474) / 478 = 0) := by omega
    simp only [hne, if_false]
    have e : 1 + (T - 474) / 478 - 1 = (T - 474) / 478 := by omega
    rw [e]
    have := Nat.div_add_mod (T - 474) 478
    have := Nat.mod_lt (T - 474) (by omega : 0 < 478)
    refine ⟨by omega, by omega, by omega⟩

theorem compactOff_succ (k : Nat) : compactOff (k + 1) = compactOff k + compactCap k := by
  unfold compactOff compactCap
  by_cases h : k = 0
  · subst h; simp
  · simp [h]; omega

theorem compactOff_mono {j k : Nat} (h : j ≤ k) : compactOff j ≤ compactOff k := by
  induction k with
  | zero => have : j = 0 := by omega
            subst this; exact Nat.le_refl _
  | succ k ih =>
    rcases Nat.lt_or_ge j (k + 1) with hlt | hge
    · have := ih (by omega); rw [compactOff_succ]; omega
    · have : j = k + 1 := by omega
      subst this; exact Nat.le_refl _

theorem compactCap_pos (k : Nat) : 0 < compactCap k := by unfold compactCap; split <;> omega

/-- the share holding byte `T` is the unique `k` with `off k ≤ T < off k + cap k` -/
theorem posOf_unique (T k : Nat) (h1 : compactOff k ≤ T) (h2 : T < compactOff k + compactCap k) :
    (posOf T).1 = k := by
  obtain ⟨a1, a2, _⟩ := posOf_fst_off T
  rcases Nat.lt_trichotomy (posOf T).1 k with hlt | heq | hgt
  · have := compactOff_mono (show (posOf T).1 + 1 ≤ k by omega)
    rw [compactOff_succ] at this; omega
  · exact heq
  · have := compactOff_mono (show k + 1 ≤ (posOf T).1 by omega)
    rw [compactOff_succ] at this; omega

/-! ### headers, reserved bytes, the specified raw shares -/

/-- bytes before the reserved bytes of share `k`; `x` is the 4-byte sequence-length field of
    share 0 (zero while the share is pending, patched by every `Export` once it is stacked) -/
def hdrX (ns x : Bytes) (k : Nat) : Bytes :=
  if k = 0 then ns ++ [infoByte 0 true] ++ x else ns ++ [infoByte 0 false]

def hdr (ns : Bytes) (k : Nat) : Bytes := hdrX ns (zeros 4) k

theorem hdr_length (ns : Bytes) (k : Nat) (h : ns.length = 29) : (hdr ns k).length + 4 = compactHdr k := by
  unfold hdr hdrX compactHdr; split <;> simp [h]

/-- the reserved value of share `k`: in-share offset of the first unit starting in it, else 0 -/
def resOf (starts : List Nat) (k : Nat) : Nat :=
  match starts.find? (fun s => compactOff k ≤ s ∧ s < compactOff k + compactCap k) with
  | some s => compactHdr k + (s - compactOff k)
  | none => 0

/-- a stacked (full) share as the splitter holds it before the sequence length is patched in -/
def rawShare (ns x : Bytes) (D : Bytes) (starts : List Nat) (k : Nat) : Bytes :=
  hdrX ns x k ++ be32 (resOf starts k) ++ (D.drop (compactOff k)).take (compactCap k)

/-- the pending share's bytes -/
def pendingRaw (ns : Bytes) (D : Bytes) (starts : List Nat) (k : Nat) : Bytes :=
  hdr ns k ++ be32 (resOf starts k) ++ D.drop (compactOff k)

theorem resOf_lt (starts : List Nat) (k : Nat) : resOf starts k < 512 := by
  unfold resOf
  split
  · rename_i s hs
    have := List.find?_some hs
    simp only [decide_eq_true_eq] at this
    unfold compactHdr compactCap at *
    split <;> simp_all <;> omega
  · omega

theorem resOf_eq_zero_iff (starts : List Nat) (k : Nat) :
    resOf starts k = 0 ↔ ∀ s ∈ starts, ¬ (compactOff k ≤ s ∧ s < compactOff k + compactCap k) := by
  unfold resOf
  constructor
  · intro h
    split at h
    · unfold compactHdr at h; split at h <;> omega
    · rename_i hn
      intro s hs
      have := List.find?_eq_none.mp hn s hs
      simpa using this
  · intro h
    have : starts.find? (fun s => compactOff k ≤ s ∧ s < compactOff k + compactCap k) = none := by
      apply List.find?_eq_none.mpr
      intro s hs; simpa using h s hs
    rw [this]

theorem find?_append_single {p : Nat → Bool} (l : List Nat) (T : Nat) :
    (l ++ [T]).find? p = match l.find? p with
      | some s => some s
      | none => if p T then some T else none := by
  rw [List.find?_append]
  cases l.find? p with
  | some s => rfl
  | none => simp [List.find?_cons]; cases p T <;> rfl

/-- appending a start to the list: the first start in range stays, or the new one is it -/
theorem resOf_append (starts : List Nat) (T k : Nat) :
    resOf (starts ++ [T]) k =
      if resOf starts k ≠ 0 then resOf starts k
      else if compactOff k ≤ T ∧ T < compactOff k + compactCap k then compactHdr k + (T - compactOff k) else 0 := by
  have hpos : 0 < compactHdr k := by unfold compactHdr; split <;> omega
  unfold resOf
  rw [find?_append_single]
  cases starts.find? (fun s => decide (compactOff k ≤ s ∧ s < compactOff k + compactCap k)) with
  | some s =>
    have : compactHdr k + (s - compactOff k) ≠ 0 := by omega
    simp only [ne_eq, this, not_false_eq_true, if_true]
  | none =>
    by_cases hT : compactOff k ≤ T ∧ T < compactOff k + compactCap k
    · simp [hT]
    · simp [hT]

/-! ### the chunk loop -/

theorem rawShare_stable (ns x D d : Bytes) (S : List Nat) (j : Nat) (h : compactOff j + compactCap j ≤ D.length) :
    rawShare ns x (D ++ d) S j = rawShare ns x D S j := by
  unfold rawShare
  congr 1
  rw [List.drop_append_of_le_length (by omega), List.take_append_of_le_length (by simp [List.length_drop]; omega)]

theorem pendingRaw_length (ns D : Bytes) (S : List Nat) (k : Nat) (hns : ns.length = 29) :
    (pendingRaw ns D S k).length = compactHdr k + (D.length - compactOff k) := by
  have := hdr_length ns k hns
  simp only [pendingRaw, List.length_append, be32_length, List.length_drop]; omega

theorem pendingRaw_append (ns D d : Bytes) (S : List Nat) (k : Nat) (h : compactOff k ≤ D.length) :
    pendingRaw ns (D ++ d) S k = pendingRaw ns D S k ++ d := by
  simp only [pendingRaw, List.drop_append_of_le_length h, List.append_assoc]

theorem rawShare_of_full (ns x D : Bytes) (S : List Nat) (k : Nat) (h : D.length = compactOff k + compactCap k)
    (hx : k = 0 → x = zeros 4) : rawShare ns x D S k = pendingRaw ns D S k := by
  unfold rawShare pendingRaw hdr
  rw [List.take_of_length_le (by simp [List.length_drop]; omega)]
  by_cases hk : k = 0
  · rw [hx hk]
  · simp [hdrX, hk]

theorem compactHdr_cap (k : Nat) : compactHdr k + compactCap k = 512 := by
  unfold compactHdr compactCap; split <;> omega

/-- the state of a splitter that has written the stream `D` with unit starts `S`, where the last
    byte written (if any) lies in share `k`: `k` full shares stacked, share `k` pending (possibly
    exactly full, before `write` stacks it) -/
structure Holds (ns x : Bytes) (c : CompactSplitter) (D : Bytes) (S : List Nat) (k : Nat) : Prop where
  nsEq : c.ns = ns
  ver : c.ver = 0
  done : c.done = false
  shares : c.shares = (List.range k).map (rawShare ns x D S)
  sb : c.sb = { ns := ns, ver := 0, isFirst := decide (k = 0), isCompact := true, raw := pendingRaw ns D S k }

theorem newBuilder_cont_compact (ns : Bytes) (hc : CompactNs ns) (k : Nat) (hk : k ≠ 0) (D : Bytes) (S : List Nat)
    (hD : D.length = compactOff k) (hS : resOf S k = 0) :
    ShareBuilder.new ns 0 false =
      .ok { ns := ns, ver := 0, isFirst := decide (k = 0), isCompact := true, raw := pendingRaw ns D S k } := by
  have hdrop : D.drop (compactOff k) = [] := List.drop_of_length_le (by omega)
  simp [ShareBuilder.new, newInfoByte, hc.compact, bind, Except.bind, pendingRaw, hdr, hdrX, hk, hS, hdrop, infoByte, be32, zeros]

/-- `stackPending` on a pending share that is exactly full -/
theorem stackPending_spec (ns x : Bytes) (hc : CompactNs ns) (c : CompactSplitter) (D : Bytes) (S : List Nat) (k : Nat)
    (h : Holds ns x c D S k) (hfull : D.length = compactOff k + compactCap k)
    (hS : resOf S (k + 1) = 0) (hx : k = 0 → x = zeros 4) :
    ∃ c', c.stackPending = .ok c' ∧ Holds ns x c' D S (k + 1) ∧ c'.ranges = c.ranges := by
  have hlen : (pendingRaw ns D S k).length = 512 := by
    rw [pendingRaw_length _ _ _ _ hc.len, hfull]; have := compactHdr_cap k; omega
  have hnew := newBuilder_cont_compact ns hc (k + 1) (by omega) D S (by rw [compactOff_succ]; exact hfull) hS
  refine ⟨{ c with shares := c.shares ++ [pendingRaw ns D S k],
                   sb := { ns := ns, ver := 0, isFirst := decide (k + 1 = 0), isCompact := true, raw := pendingRaw ns D S (k + 1) } }, ?_, ?_, rfl⟩
  · simp [CompactSplitter.stackPending, ShareBuilder.build, h.sb, hlen, h.nsEq, h.ver, hnew, bind, Except.bind]
  · refine ⟨h.nsEq, h.ver, h.done, ?_, rfl⟩
    simp only [h.shares, List.range_succ, List.map_append, List.map_cons, List.map_nil, rawShare_of_full ns x D S k hfull hx]

/-- **the chunk loop.** From a state holding `D` (pending share `k` not full), adding the
    non-empty bytes `d` yields a state holding `D ++ d` whose last byte lies in share `k'`. -/
theorem addLoop_spec (ns x : Bytes) (hc : CompactNs ns) (S : List Nat) :
    ∀ (fuel : Nat) (c : CompactSplitter) (D d : Bytes) (k : Nat),
      Holds ns x c D S k → compactOff k ≤ D.length → D.length < compactOff k + compactCap k →
      (∀ j, k < j → resOf S j = 0) → d ≠ [] → d.length + 1 ≤ fuel → (k = 0 → x = zeros 4) →
      ∃ c', c.addLoop fuel d = .ok c' ∧ c'.ranges = c.ranges ∧
        Holds ns x c' (D ++ d) S (posOf (D.length + d.length - 1)).1
  | 0, _, _, d, _, _, _, _, _, _, hf, _ => by omega
  | fuel + 1, c, D, d, k, h, hlo, hhi, hS, hd, hf, hx => by
    have hdpos : 0 < d.length := List.length_pos_iff.mpr hd
    have hraw := pendingRaw_length ns D S k hc.len
    have hcap := compactHdr_cap k
    rw [CompactSplitter.addLoop]
    simp only [ShareBuilder.addData, h.sb]
    by_cases hfit : d.length ≤ 512 - (pendingRaw ns D S k).length
    · -- everything fits into the pending share
      simp only [hfit, if_true]
      have hk' : (posOf (D.length + d.length - 1)).1 = k := posOf_unique _ k (by omega) (by omega)
      rw [hk']
      refine ⟨_, rfl, rfl, h.nsEq, h.ver, h.done, ?_, ?_⟩
      · simp only [h.shares]
        apply List.map_congr_left
        intro j hj
        have hj' : j < k := List.mem_range.mp hj
        have := compactOff_mono (show j + 1 ≤ k by omega)
        rw [compactOff_succ] at this
        exact (rawShare_stable ns x D d S j (by omega)).symm
      · simp only [pendingRaw_append ns D d S k hlo]
    · -- fill the pending share, stack it, continue in a fresh continuation share
      simp only [hfit, if_false]
      have hleft : 512 - (pendingRaw ns D S k).length = compactOff k + compactCap k - D.length := by omega
      generalize hl : 512 - (pendingRaw ns D S k).length = left at hfit
      have hleftpos : 0 < left := by omega
      have hD1 : (D ++ d.take left).length = compactOff k + compactCap k := by
        simp only [List.length_append, List.length_take]; omega
      have hHolds1 : Holds ns x ({ c with sb := ShareBuilder.mk ns 0 (decide (k = 0)) true (pendingRaw ns D S k ++ d.take left) })
          (D ++ d.take left) S k := by
        refine ⟨h.nsEq, h.ver, h.done, ?_, ?_⟩
        · simp only [h.shares]
          apply List.map_congr_left
          intro j hj
          have hj' : j < k := List.mem_range.mp hj
          have := compactOff_mono (show j + 1 ≤ k by omega)
          rw [compactOff_succ] at this
          exact (rawShare_stable ns x D _ S j (by omega)).symm
        · simp only [pendingRaw_append ns D _ S k hlo]
      obtain ⟨c1, hc1, hH1, hr1⟩ := stackPending_spec ns x hc _ _ S k hHolds1 hD1 (hS (k + 1) (by omega)) hx
      simp only [hc1, bind, Except.bind]
      have hrest : d.drop left ≠ [] := by
        intro e; have := congrArg List.length e
        simp only [List.length_drop, List.length_nil] at this; omega
      obtain ⟨c', hc', hr', hH'⟩ := addLoop_spec ns x hc S fuel c1 (D ++ d.take left) (d.drop left) (k + 1) hH1
        (by rw [compactOff_succ]; omega) (by rw [hD1, compactOff_succ]; have := compactCap_pos (k + 1); omega)
        (fun j hj => hS j (by omega)) hrest (by simp only [List.length_drop]; omega) (by omega)
      refine ⟨c', hc', by rw [hr', hr1], ?_⟩
      have e1 : D ++ d.take left ++ d.drop left = D ++ d := by rw [List.append_assoc, List.take_append_drop]
      have e2 : (D ++ d.take left).length + (d.drop left).length - 1 = D.length + d.length - 1 := by
        simp only [List.length_append, List.length_take, List.length_drop]; omega
      rw [e1, e2] at hH'
      exact hH'

/-! ### one `WriteTx` -/

theorem unitStream_append (us : List Bytes) (u : Bytes) :
    unitStream (us ++ [u]) = unitStream us ++ (uvarint u.length ++ u) := by
  simp [unitStream]

theorem unitStream_length (us : List Bytes) :
    (unitStream us).length = (us.map (fun u => uvarintLen u.length + u.length)).sum := by
  induction us with
  | nil => rfl
  | cons u us ih => simp [unitStream, uvarint_length] at ih ⊢; omega

theorem unitStarts_append : ∀ (us : List Bytes) (off : Nat) (u : Bytes),
    unitStarts off (us ++ [u]) = unitStarts off us ++ [off + (unitStream us).length]
  | [], off, u => by simp [unitStarts, unitStream]
  | v :: vs, off, u => by
    simp only [List.cons_append, unitStarts, unitStarts_append vs _ u]
    simp [unitStream, uvarint_length]; omega

theorem unitStarts_lt : ∀ (us : List Bytes) (off : Nat), ∀ s ∈ unitStarts off us, s < off + (unitStream us).length
  | [], _, s, h => by simp [unitStarts] at h
  | v :: vs, off, s, h => by
    simp only [unitStarts, List.mem_cons] at h
    have hp := uvarintLen_pos v.length
    have hl : (unitStream (v :: vs)).length = uvarintLen v.length + v.length + (unitStream vs).length := by
      simp [unitStream, uvarint_length]; omega
    rcases h with rfl | h
    · omega
    · have := unitStarts_lt vs _ s h; omega

/-- the normal form between operations: the pending share is not full -/
def Normal (ns x : Bytes) (c : CompactSplitter) (units : List Bytes) : Prop :=
  Holds ns x c (unitStream units) (unitStarts 0 units) (posOf (unitStream units).length).1 ∧
  ((posOf (unitStream units).length).1 = 0 → x = zeros 4)

theorem Normal.xlen_of_zero {ns x : Bytes} {c : CompactSplitter} {units : List Bytes} (h : Normal ns x c units)
    (hk : (posOf (unitStream units).length).1 = 0) : x.length = 4 := by rw [h.2 hk]; simp

theorem pendingRaw_split (ns D : Bytes) (S : List Nat) (k : Nat) :
    pendingRaw ns D S k = hdr ns k ++ be32 (resOf S k) ++ D.drop (compactOff k) := rfl

theorem hdr_len_first (ns : Bytes) (k : Nat) (hns : ns.length = 29) :
    (hdr ns k).length = if k = 0 then 34 else 30 := by
  unfold hdr hdrX; split <;> simp [hns]

theorem res_bind_ok {α β} (v : α) (f : α → Res β) : ((Except.ok v : Res α) >>= f) = f v := rfl

/-- `MaybeWriteReservedBytes` records the start of the unit about to be written (at `T = |D|`) -/
theorem maybeWrite_spec (ns : Bytes) (hc : CompactNs ns) (D : Bytes) (S : List Nat) (k : Nat)
    (hlo : compactOff k ≤ D.length) (hhi : D.length < compactOff k + compactCap k) :
    ShareBuilder.maybeWriteReservedBytes
        { ns := ns, ver := 0, isFirst := decide (k = 0), isCompact := true, raw := pendingRaw ns D S k } =
      .ok { ns := ns, ver := 0, isFirst := decide (k = 0), isCompact := true,
            raw := pendingRaw ns D (S ++ [D.length]) k } := by
  have hh := hdr_len_first ns k hc.len
  have hidx : ShareBuilder.indexOfReservedBytes
      { ns := ns, ver := 0, isFirst := decide (k = 0), isCompact := true, raw := pendingRaw ns D S k } = (hdr ns k).length := by
    simp only [ShareBuilder.indexOfReservedBytes, hh]; by_cases h : k = 0 <;> simp [h]
  have hslice : slice (pendingRaw ns D S k) (hdr ns k).length ((hdr ns k).length + 4) = .ok (be32 (resOf S k)) := by
    unfold slice
    have hl : (hdr ns k).length + 4 ≤ (pendingRaw ns D S k).length := by
      simp [pendingRaw, List.length_append]
    rw [if_pos ⟨by omega, hl⟩]
    simp [pendingRaw, List.append_assoc, List.drop_left', List.take_left']
  have hres := resOf_lt S k
  have hparse : parseReservedBytes (be32 (resOf S k)) = .ok (resOf S k) := by
    have : readBe32 (be32 (resOf S k)) = resOf S k := by simpa using readBe32_be32 (resOf S k) (by omega) []
    simp [parseReservedBytes, this]; omega
  unfold ShareBuilder.maybeWriteReservedBytes
  simp only [Bool.not_true, Bool.false_eq_true, if_false, hidx]
  rw [hslice, res_bind_ok, hparse, res_bind_ok]
  have hrawlen := pendingRaw_length ns D S k hc.len
  have hcap := compactHdr_cap k
  have hra := resOf_append S D.length k
  by_cases h0 : resOf S k ≠ 0
  · rw [if_pos h0]
    rw [if_pos h0] at hra
    unfold pendingRaw
    rw [hra]
  · rw [if_neg h0]
    rw [if_neg h0, if_pos ⟨hlo, hhi⟩] at hra
    have hlt : ¬ (pendingRaw ns D S k).length ≥ 512 := by omega
    simp only [newReservedBytes, hlt, if_false, ShareBuilder.overwrite]
    rw [res_bind_ok]
    have hfit : (hdr ns k).length + (be32 (pendingRaw ns D S k).length).length ≤ (pendingRaw ns D S k).length := by
      simp [pendingRaw, List.length_append]
    rw [if_pos hfit, res_bind_ok]
    have hv : (pendingRaw ns D S k).length = resOf (S ++ [D.length]) k := by
      rw [hra, hrawlen]
    rw [hv]
    congr 2
    simp [pendingRaw, List.append_assoc, List.take_left', List.drop_left']

theorem resOf_zero_of_all_lt (S : List Nat) (j : Nat) (h : ∀ s ∈ S, s < compactOff j) : resOf S j = 0 := by
  apply (resOf_eq_zero_iff S j).mpr
  intro s hs hc
  have := h s hs; omega

theorem reopen_of_not_done (c : CompactSplitter) (h : c.done = false) : c.reopen = c := by
  simp [CompactSplitter.reopen, h]

/-- **one `WriteTx` keeps the splitter in the specified state** (ranges aside) -/
theorem writeTx_spec (ns x : Bytes) (hc : CompactNs ns) (c : CompactSplitter) (units : List Bytes) (u : Bytes)
    (h : Normal ns x c units) :
    ∃ c', c.writeTx u = .ok c' ∧ Normal ns x c' (units ++ [u]) ∧
      c'.ranges = CompactSplitter.setRange c.ranges u (c.shares.length, c'.count) := by
  unfold Normal at h ⊢
  obtain ⟨h, hx0⟩ := h
  generalize hD : unitStream units = D at h hx0
  generalize hS : unitStarts 0 units = S at h
  obtain ⟨hlo, hhi, _⟩ := posOf_fst_off D.length
  generalize hk : (posOf D.length).1 = k at h hlo hhi hx0
  have hraw : CompactSplitter.marshalDelimitedTx u = uvarint u.length ++ u := rfl
  generalize hrd : uvarint u.length ++ u = d at hraw
  have hdne : d ≠ [] := by
    rw [← hrd]; intro e
    have := congrArg List.length e
    simp [uvarint_length] at this
    have := uvarintLen_pos u.length; omega
  have hdpos : 0 < d.length := List.length_pos_iff.mpr hdne
  have hSlt : ∀ s ∈ S, s < D.length := by
    intro s hs; rw [← hS, ← hD] at *; simpa using unitStarts_lt units 0 s hs
  -- after MaybeWriteReservedBytes
  have hA : Holds ns x ({ c with sb := ShareBuilder.mk ns 0 (decide (k = 0)) true (pendingRaw ns D (S ++ [D.length]) k) })
      D (S ++ [D.length]) k := by
    refine ⟨h.nsEq, h.ver, h.done, ?_, rfl⟩
    simp only [h.shares]
    apply List.map_congr_left
    intro j hj
    have hj' : j < k := List.mem_range.mp hj
    have hmono := compactOff_mono (show j + 1 ≤ k by omega)
    rw [compactOff_succ] at hmono
    unfold rawShare
    have : resOf (S ++ [D.length]) j = resOf S j := by
      rw [resOf_append]
      by_cases h0 : resOf S j ≠ 0
      · rw [if_pos h0]
      · rw [if_neg h0, if_neg (by omega)]; omega
    rw [this]
  have hSz : ∀ j, k < j → resOf (S ++ [D.length]) j = 0 := by
    intro j hj
    apply resOf_zero_of_all_lt
    intro s hs
    have hmono := compactOff_mono (show k + 1 ≤ j by omega)
    rw [compactOff_succ] at hmono
    rcases List.mem_append.mp hs with hs | hs
    · have := hSlt s hs; omega
    · simp at hs; omega
  obtain ⟨c1, hc1, hr1, hH1⟩ := addLoop_spec ns x hc (S ++ [D.length]) (d.length + 2) _ D d k hA hlo hhi hSz hdne (by omega) hx0
  obtain ⟨hlo1, hhi1, _⟩ := posOf_fst_off (D.length + d.length - 1)
  generalize hk1 : (posOf (D.length + d.length - 1)).1 = k1 at hH1 hlo1 hhi1
  have hlen1 := pendingRaw_length ns (D ++ d) (S ++ [D.length]) k1 hc.len
  have hcap1 := compactHdr_cap k1
  have hDd : (D ++ d).length = D.length + d.length := by simp
  -- the final "stack if full" of `write`
  have hk1k : k1 = 0 → k = 0 := by
    intro e; subst e
    rcases Nat.eq_zero_or_pos k with h0 | h0
    · exact h0
    · have := compactOff_mono (show 1 ≤ k by omega)
      simp only [compactOff, compactCap] at *; simp at *; omega
  have hfinal : ∃ c2, (if c1.sb.availableBytes = 0 then c1.stackPending else .ok c1) = .ok c2 ∧
      Holds ns x c2 (D ++ d) (S ++ [D.length]) (posOf (D ++ d).length).1 ∧ c2.ranges = c1.ranges ∧
      ((posOf (D ++ d).length).1 = 0 → x = zeros 4) := by
    by_cases hav : c1.sb.availableBytes = 0
    · rw [if_pos hav]
      have hfull : (D ++ d).length = compactOff k1 + compactCap k1 := by
        simp only [ShareBuilder.availableBytes, hH1.sb] at hav; omega
      have hz : resOf (S ++ [D.length]) (k1 + 1) = 0 := by
        apply resOf_zero_of_all_lt
        intro s hs
        rw [compactOff_succ]
        rcases List.mem_append.mp hs with hs | hs
        · have := hSlt s hs; omega
        · simp at hs; omega
      obtain ⟨c2, hc2, hH2, hr2⟩ := stackPending_spec ns x hc c1 _ _ k1 hH1 hfull hz (fun e => hx0 (hk1k e))
      refine ⟨c2, hc2, ?_⟩
      have : (posOf (D ++ d).length).1 = k1 + 1 := posOf_unique _ _ (by rw [compactOff_succ]; omega)
        (by rw [compactOff_succ]; have := compactCap_pos (k1 + 1); omega)
      rw [this]; exact ⟨hH2, hr2, by intro e; omega⟩
    · rw [if_neg hav]
      have hnf : (D ++ d).length < compactOff k1 + compactCap k1 := by
        simp only [ShareBuilder.availableBytes, hH1.sb] at hav; omega
      have : (posOf (D ++ d).length).1 = k1 := posOf_unique _ _ (by omega) hnf
      exact ⟨c1, rfl, by rw [this]; exact hH1, rfl, by rw [this]; exact fun e => hx0 (hk1k e)⟩
  obtain ⟨c2, hc2, hH2, hr2, hx2⟩ := hfinal
  have hmw := maybeWrite_spec ns hc D S k hlo hhi
  refine ⟨{ c2 with ranges := CompactSplitter.setRange c2.ranges u (c.shares.length, c2.count) }, ?_, ?_, ?_⟩
  · unfold CompactSplitter.writeTx CompactSplitter.write
    simp only [hraw, reopen_of_not_done c h.done, h.sb, hmw, res_bind_ok]
    rw [hc1, res_bind_ok, hc2, res_bind_ok]
  · have e1 : unitStream (units ++ [u]) = D ++ d := by rw [unitStream_append, hD, hrd]
    have e2 : unitStarts 0 (units ++ [u]) = S ++ [D.length] := by
      rw [unitStarts_append, hS, hD]; simp
    rw [e1, e2]
    exact ⟨⟨hH2.nsEq, hH2.ver, hH2.done, hH2.shares, hH2.sb⟩, hx2⟩
  · simp only [hr2, hr1]
    rfl

/-! ### `NewCompactShareSplitter`, any number of writes -/

theorem new_spec (ns : Bytes) (hc : CompactNs ns) :
    ∃ c, CompactSplitter.new ns 0 = .ok c ∧ Normal ns (zeros 4) c [] ∧ c.ranges = [] := by
  refine ⟨{ shares := [], sb := ShareBuilder.mk ns 0 true true (pendingRaw ns [] [] 0), ns := ns, ver := 0,
            done := false, ranges := [] }, ?_, ⟨⟨rfl, rfl, rfl, rfl, rfl⟩, fun _ => rfl⟩, rfl⟩
  simp [CompactSplitter.new, ShareBuilder.new, newInfoByte, hc.compact, bind, Except.bind, Except.mapError, pendingRaw,
    hdr, hdrX, resOf, infoByte, be32, zeros]

theorem writeAll_spec (ns x : Bytes) (hc : CompactNs ns) : ∀ (us : List Bytes) (c : CompactSplitter) (units : List Bytes),
    Normal ns x c units → ∃ c', us.foldlM (fun w t => w.writeTx t) c = .ok c' ∧ Normal ns x c' (units ++ us)
  | [], c, units, h => ⟨c, rfl, by simpa using h⟩
  | u :: us, c, units, h => by
    obtain ⟨c1, h1, hN1, _⟩ := writeTx_spec ns x hc c units u h
    obtain ⟨c2, h2, hN2⟩ := writeAll_spec ns x hc us c1 (units ++ [u]) hN1
    refine ⟨c2, ?_, by simpa [List.append_assoc] using hN2⟩
    rw [List.foldlM_cons, h1]; exact h2

/-! ### `Count` and the share-count prediction (C13, C09 minimality) -/

theorem compactCount_eq_sizeOf (T : Nat) : compactCount T = sizeOf T := by
  unfold compactCount sizeOf posOf
  by_cases h0 : T = 0
  · subst h0; simp
  · by_cases h1 : T < 474
    · have : T ≤ 474 := by omega
      simp [h0, h1, this]
    · simp only [h0, h1, if_false]
      by_cases h2 : T ≤ 474
      · have : T = 474 := by omega
        subst this; simp
      · simp only [h2, if_false]
        by_cases h3 : (T - 474) % 478 = 0
        · simp only [h3, if_true]; omega
        · simp only [h3, if_false]; omega

/-- `Count()` of a splitter in normal form is the closed form of the bytes written -/
theorem count_spec (ns x : Bytes) (hc : CompactNs ns) (c : CompactSplitter) (units : List Bytes) (h : Normal ns x c units) :
    c.count = compactSharesNeeded (unitStream units).length := by
  obtain ⟨h, _⟩ := h
  obtain ⟨hlo, hhi, hr⟩ := posOf_fst_off (unitStream units).length
  rw [← sizeOf_eq_compactSharesNeeded]
  unfold CompactSplitter.count sizeOf
  generalize hk : (posOf (unitStream units).length).1 = k at *
  generalize hrr : (posOf (unitStream units).length).2 = r at *
  have hlen := pendingRaw_length ns (unitStream units) (unitStarts 0 units) k hc.len
  have hcl : c.shares.length = k := by simp [h.shares]
  have key : (pendingRaw ns (unitStream units) (unitStarts 0 units) k).length = compactHdr k + r := by omega
  have hch : 30 + (if (true : Bool) = true then 4 else 0) + (if (decide (k = 0) : Bool) = true then 4 else 0) = compactHdr k := by
    unfold compactHdr; by_cases hk0 : k = 0 <;> simp [hk0]
  have hch2 : compactHdr k = 34 + if k = 0 then 4 else 0 := by unfold compactHdr; split <;> rfl
  have hemp : c.sb.isEmptyShare = decide (r = 0) := by
    simp only [ShareBuilder.isEmptyShare, h.sb, key]
    by_cases hz : r = 0 <;> simp [hz, hch2] <;> omega
  simp only [hemp, h.done, hcl]
  by_cases hz : r = 0 <;> simp [hz]

/-! ### `Export` against `Spec.compactSeq` -/

/-- share `j` of the specified sequence -/
def specShare (ns D : Bytes) (S : List Nat) (j : Nat) : Bytes :=
  fill (ns ++ [infoByte 0 (j == 0)] ++ (if j = 0 then be32 D.length else []) ++ be32 (resOf S j) ++
        (D.drop (compactOff j)).take (compactCap j))

theorem compactSeq_eq (ns : Bytes) (units : List Bytes) :
    Spec.compactSeq ns units =
      (List.range (compactCount (unitStream units).length)).map (specShare ns (unitStream units) (unitStarts 0 units)) := by
  rfl

/-- what `writeSequenceLen` does to a stacked first share -/
def patch (s : Bytes) (n : Nat) : Bytes := s.take 30 ++ be32 n ++ s.drop 34

theorem writeSeqLen_spec (ns : Bytes) (hc : CompactNs ns) (c : CompactSplitter) (s0 : Bytes) (rest : List Bytes) (n : Nat)
    (hns : c.ns = ns) (hv : c.ver = 0) (hs : c.shares = s0 :: rest) (hl : s0.length = 512) :
    c.writeSeqLen n = .ok { c with shares := patch s0 n :: rest } := by
  have hne : c.isEmpty = false := by simp [CompactSplitter.isEmpty, hs]
  have hnew : ∃ b0, ShareBuilder.new ns 0 true = .ok b0 ∧ b0.isFirst = true := by
    simp [ShareBuilder.new, newInfoByte, bind, Except.bind]
  obtain ⟨b0, hb0, hf0⟩ := hnew
  unfold CompactSplitter.writeSeqLen
  simp only [hne, Bool.false_eq_true, if_false, hs, hns, hv, hb0, res_bind_ok, ShareBuilder.writeSequenceLen, hf0,
    Bool.not_true, ShareBuilder.overwrite]
  have h34 : 30 + (be32 n).length ≤ s0.length := by simp [hl]
  rw [if_pos h34, res_bind_ok]
  have hlen : (s0.take 30 ++ be32 n ++ s0.drop (30 + 4)).length = 512 := by
    simp [List.length_take, List.length_drop, hl]
  simp only [ShareBuilder.build, be32_length]
  rw [res_bind_ok]
  simp only
  rw [if_pos hlen, res_bind_ok]
  rfl

theorem fill_append_zeros (pre : Bytes) : fill pre = pre ++ zeros (512 - pre.length) := rfl

/-- a full continuation share is already the specified share -/
theorem specShare_full_cont (ns x D : Bytes) (S : List Nat) (j : Nat) (hns : ns.length = 29) (hj : j ≠ 0)
    (h : compactOff j + compactCap j ≤ D.length) : specShare ns D S j = rawShare ns x D S j := by
  have hb : (j == 0) = false := by simp [hj]
  have hlen : ((D.drop (compactOff j)).take (compactCap j)).length = 478 := by
    simp only [List.length_take, List.length_drop]; simp only [compactCap, hj, if_false] at h ⊢; omega
  unfold specShare rawShare hdrX
  simp only [hb, hj, if_false, List.append_nil]
  apply fill_of_length
  simp only [List.length_append, List.length_cons, List.length_nil, be32_length, hlen, hns]

/-- the full first share, once the sequence length is patched in -/
theorem specShare_full_first (ns x D : Bytes) (S : List Nat) (hns : ns.length = 29) (hx : x.length = 4)
    (h : 474 ≤ D.length) : specShare ns D S 0 = patch (rawShare ns x D S 0) D.length := by
  have hlen : ((D.drop (compactOff 0)).take (compactCap 0)).length = 474 := by
    simp [compactOff, compactCap, List.length_take]; omega
  unfold specShare rawShare hdrX patch
  simp only [beq_self_eq_true, if_true]
  rw [fill_of_length (by simp only [List.length_append, List.length_cons, List.length_nil, be32_length, hlen, hns])]
  have e30 : (ns ++ [infoByte 0 true] ++ x ++ be32 (resOf S 0) ++ (D.drop (compactOff 0)).take (compactCap 0)).take 30
      = ns ++ [infoByte 0 true] := by
    rw [List.append_assoc, List.append_assoc, List.take_left' (by simp [hns])]
  have e34 : (ns ++ [infoByte 0 true] ++ x ++ be32 (resOf S 0) ++ (D.drop (compactOff 0)).take (compactCap 0)).drop 34
      = be32 (resOf S 0) ++ (D.drop (compactOff 0)).take (compactCap 0) := by
    rw [List.append_assoc (ns ++ [infoByte 0 true] ++ x), List.drop_left' (by simp [hns, hx])]
  rw [e30, e34]
  simp only [List.append_assoc]

/-- the padded pending share, continuation case -/
theorem specShare_pending_cont (ns D : Bytes) (S : List Nat) (k : Nat) (hns : ns.length = 29) (hk : k ≠ 0)
    (hlo : compactOff k ≤ D.length) (hhi : D.length < compactOff k + compactCap k) :
    specShare ns D S k = pendingRaw ns D S k ++ zeros (512 - (pendingRaw ns D S k).length) := by
  have hb : (k == 0) = false := by simp [hk]
  have htake : (D.drop (compactOff k)).take (compactCap k) = D.drop (compactOff k) :=
    List.take_of_length_le (by simp only [List.length_drop]; omega)
  unfold specShare pendingRaw hdr hdrX
  simp only [hb, hk, if_false, List.append_nil, htake]
  rfl

/-- the padded pending first share with the sequence length patched in -/
theorem specShare_pending_first (ns D : Bytes) (S : List Nat) (hns : ns.length = 29) (hhi : D.length < 474) :
    specShare ns D S 0 = patch (pendingRaw ns D S 0 ++ zeros (512 - (pendingRaw ns D S 0).length)) D.length := by
  have htake : (D.drop (compactOff 0)).take (compactCap 0) = D.drop (compactOff 0) :=
    List.take_of_length_le (by simp [compactOff, compactCap]; omega)
  unfold specShare pendingRaw hdr hdrX patch
  simp only [beq_self_eq_true, if_true, htake]
  generalize hT : be32 (resOf S 0) ++ D.drop (compactOff 0) = tail
  have hpre : (ns ++ [infoByte 0 true] ++ zeros 4 ++ be32 (resOf S 0) ++ D.drop (compactOff 0)) =
      (ns ++ [infoByte 0 true]) ++ (zeros 4 ++ tail) := by rw [← hT]; simp only [List.append_assoc]
  have hpre2 : (ns ++ [infoByte 0 true] ++ be32 D.length ++ be32 (resOf S 0) ++ D.drop (compactOff 0)) =
      (ns ++ [infoByte 0 true]) ++ (be32 D.length ++ tail) := by rw [← hT]; simp only [List.append_assoc]
  rw [hpre, hpre2, fill_append_zeros]
  have hl1 : ((ns ++ [infoByte 0 true]) ++ (be32 D.length ++ tail)).length =
      ((ns ++ [infoByte 0 true]) ++ (zeros 4 ++ tail)).length := by simp
  rw [hl1]
  generalize zeros (512 - ((ns ++ [infoByte 0 true]) ++ (zeros 4 ++ tail)).length) = z
  have h30 : (ns ++ [infoByte 0 true]).length = 30 := by simp [hns]
  have e1 : (ns ++ [infoByte 0 true] ++ (zeros 4 ++ tail) ++ z).take 30 = ns ++ [infoByte 0 true] := by
    rw [List.append_assoc, List.take_left' h30]
  have e2 : (ns ++ [infoByte 0 true] ++ (zeros 4 ++ tail) ++ z).drop 34 = tail ++ z := by
    have : ns ++ [infoByte 0 true] ++ (zeros 4 ++ tail) ++ z = (ns ++ [infoByte 0 true] ++ zeros 4) ++ (tail ++ z) := by
      simp only [List.append_assoc]
    rw [this, List.drop_left' (by simp [hns])]
  rw [e1, e2]
  simp only [List.append_assoc]

theorem rawShare_x_irrel (ns x y D : Bytes) (S : List Nat) (j : Nat) (hj : j ≠ 0) :
    rawShare ns x D S j = rawShare ns y D S j := by
  simp [rawShare, hdrX, hj]

theorem patch_rawShare (ns x D : Bytes) (S : List Nat) (N : Nat) (hns : ns.length = 29) (hx : x.length = 4) :
    patch (rawShare ns x D S 0) N = rawShare ns (be32 N) D S 0 := by
  unfold rawShare hdrX patch
  simp only [if_true]
  have e30 : (ns ++ [infoByte 0 true] ++ x ++ be32 (resOf S 0) ++ (D.drop (compactOff 0)).take (compactCap 0)).take 30
      = ns ++ [infoByte 0 true] := by
    rw [List.append_assoc, List.append_assoc, List.take_left' (by simp [hns])]
  have e34 : (ns ++ [infoByte 0 true] ++ x ++ be32 (resOf S 0) ++ (D.drop (compactOff 0)).take (compactCap 0)).drop 34
      = be32 (resOf S 0) ++ (D.drop (compactOff 0)).take (compactCap 0) := by
    rw [List.append_assoc (ns ++ [infoByte 0 true] ++ x), List.drop_left' (by simp [hns, hx])]
  rw [e30, e34]
  simp only [List.append_assoc]

theorem patched_list (X Y : Nat → Bytes) (n N : Nat) (hn : 1 ≤ n) (h0 : Y 0 = patch (X 0) N)
    (hj : ∀ j, 1 ≤ j → j < n → Y j = X j) :
    (List.range n).map Y = patch (X 0) N :: ((List.range n).map X).tail := by
  obtain ⟨m, rfl⟩ : ∃ m, n = m + 1 := ⟨n - 1, by omega⟩
  rw [List.range_succ_eq_map]
  simp only [List.map_cons, List.map_map, List.tail_cons, h0]
  congr 1
  apply List.map_congr_left
  intro j hjm
  have := List.mem_range.mp hjm
  exact hj (j + 1) (by omega) (by omega)

/-- the stacked shares with the first one's sequence-length field replaced -/
theorem map_rawShare_patch (ns x D : Bytes) (S : List Nat) (k N : Nat) (hk : 1 ≤ k) (hns : ns.length = 29)
    (hx : x.length = 4) :
    (List.range k).map (rawShare ns (be32 N) D S) =
      patch (rawShare ns x D S 0) N :: ((List.range k).map (rawShare ns x D S)).tail :=
  patched_list (rawShare ns x D S) (rawShare ns (be32 N) D S) k N hk (patch_rawShare ns x D S N hns hx).symm
    (fun j hj _ => rawShare_x_irrel ns _ _ D S j (by omega))

theorem sequenceLen_spec (c : CompactSplitter) (n pad T : Nat) (hl : c.shares.length = n) (hn : 1 ≤ n)
    (hT : 474 + (n - 1) * 478 - pad = T) (hlt : T < 4294967296) : c.sequenceLen pad = T := by
  unfold CompactSplitter.sequenceLen
  rw [hl]
  have h0 : ¬ n = 0 := by omega
  simp only [h0, if_false]
  by_cases h1 : n = 1
  · subst h1; simp only [if_true] ; simp at hT; rw [hT]; exact Nat.mod_eq_of_lt hlt
  · simp only [h1, if_false]; rw [hT]; exact Nat.mod_eq_of_lt hlt

/-- **`Export` returns exactly the specified sequence**, and leaves the splitter in a state from
    which writing resumes where it stopped (the `fix:` for F4). `x'` is the sequence-length field
    now sitting in the stacked first share. -/
theorem export_spec (ns x : Bytes) (hc : CompactNs ns) (c : CompactSplitter) (units : List Bytes)
    (h : Normal ns x c units) (hxl : x.length = 4) (hlt : (unitStream units).length < 4294967296) :
    ∃ c' x', c.exportShares = .ok (c', Spec.compactSeq ns units) ∧ x'.length = 4 ∧
      Normal ns x' c'.reopen units ∧ c'.ranges = c.ranges ∧
      ((unitStream units).length ≠ 0 → c'.done = true ∧ c'.shares = Spec.compactSeq ns units) ∧
      ((unitStream units).length = 0 → c' = c) := by
  simp only [Normal] at h ⊢
  obtain ⟨hH, hx0⟩ := h
  rw [compactSeq_eq]
  generalize hD : unitStream units = D at *
  generalize hS : unitStarts 0 units = S at *
  obtain ⟨hlo, hhi, hr⟩ := posOf_fst_off D.length
  generalize hk : (posOf D.length).1 = k at *
  generalize hrr : (posOf D.length).2 = r at *
  have hraw := pendingRaw_length ns D S k hc.len
  have hcap := compactHdr_cap k
  have hcl : c.shares.length = k := by simp [hH.shares]
  have hch2 : compactHdr k = 34 + if k = 0 then 4 else 0 := by unfold compactHdr; split <;> rfl
  have hemp : c.sb.isEmptyShare = decide (r = 0) := by
    simp only [ShareBuilder.isEmptyShare, hH.sb, hraw]
    by_cases hz : r = 0 <;> simp [hz, hch2] <;> omega
  have hcount : compactCount D.length = if r = 0 then k else k + 1 := by
    rw [compactCount_eq_sizeOf]; unfold sizeOf; rw [hk, hrr]
  have hoff : compactOff k = if k = 0 then 0 else 474 + (k - 1) * 478 := rfl
  have hcapk : compactCap k = if k = 0 then 474 else 478 := rfl
  unfold CompactSplitter.exportShares
  by_cases hz : r = 0
  · by_cases hk0 : k = 0
    · -- nothing written
      have hD0 : D.length = 0 := by rw [hoff, if_pos hk0] at hlo hr; omega
      have hie : c.isEmpty = true := by simp [CompactSplitter.isEmpty, hcl, hk0, hemp, hz]
      refine ⟨c, x, ?_, hxl, ?_, rfl, fun hne => absurd hD0 hne, fun _ => rfl⟩
      · rw [if_pos hie, hD0]; rfl
      · rw [reopen_of_not_done c hH.done]; exact ⟨hH, hx0⟩
    · -- the stream ends exactly on a share boundary: no pending share to pad
      have hDlen : D.length = compactOff k := by omega
      have hie : c.isEmpty = false := by simp [CompactSplitter.isEmpty, hcl, hk0]
      obtain ⟨s0, rest, hs0⟩ : ∃ s0 rest, c.shares = s0 :: rest := by
        cases hcs : c.shares with
        | nil => rw [hcs] at hcl; simp at hcl; omega
        | cons a b => exact ⟨a, b, rfl⟩
      have hs0eq : s0 = rawShare ns x D S 0 := by
        have := hH.shares; rw [hs0] at this
        obtain ⟨m, rfl⟩ : ∃ m, k = m + 1 := ⟨k - 1, by omega⟩
        rw [List.range_succ_eq_map] at this
        simp only [List.map_cons, List.cons.injEq] at this
        exact this.1
      have hfull0 : 474 ≤ D.length := by rw [hDlen, hoff, if_neg hk0]; omega
      have hs0len : s0.length = 512 := by
        rw [hs0eq]
        have : ((D.drop (compactOff 0)).take (compactCap 0)).length = 474 := by
          simp [compactOff, compactCap, List.length_take]; omega
        simp only [rawShare, hdrX, if_true, List.length_append, List.length_cons, List.length_nil, be32_length, this, hc.len, hxl]
      have hseq : c.sequenceLen 0 = D.length := sequenceLen_spec c k 0 D.length hcl (by omega) (by
        rw [hDlen, hoff, if_neg hk0]; omega) hlt
      have hws := writeSeqLen_spec ns hc c s0 rest D.length hH.nsEq hH.ver hs0 hs0len
      have hlist : patch s0 D.length :: rest = (List.range k).map (specShare ns D S) := by
        rw [patched_list (rawShare ns x D S) (specShare ns D S) k D.length (by omega)
          (by rw [specShare_full_first ns x D S hc.len hxl hfull0])
          (fun j hj1 hjk => specShare_full_cont ns x D S j hc.len (by omega) (by
            have := compactOff_mono (show j + 1 ≤ k by omega); rw [compactOff_succ] at this; omega))]
        rw [← hH.shares, hs0, hs0eq]; rfl
      have hlist2 : patch s0 D.length :: rest = (List.range k).map (rawShare ns (be32 D.length) D S) := by
        rw [map_rawShare_patch ns x D S k D.length (by omega) hc.len hxl, ← hH.shares, hs0, hs0eq]; rfl
      refine ⟨{ c with shares := patch s0 D.length :: rest, done := true }, be32 D.length, ?_, by simp, ?_, rfl, ?_, ?_⟩
      · simp only [hie, Bool.false_eq_true, if_false, hH.done, hemp, hz, decide_true, Bool.not_true, pure, Except.pure,
          res_bind_ok, hseq, hws]
        simp only [hcount, hz, if_true]
        rw [hlist]
      · refine ⟨⟨hH.nsEq, hH.ver, by simp [CompactSplitter.reopen], ?_, ?_⟩, fun e => absurd e hk0⟩
        · simp only [CompactSplitter.reopen, if_true, hemp, hz, decide_true, Bool.not_true, Bool.false_eq_true, if_false]
          exact hlist2
        · simp only [CompactSplitter.reopen, if_true]; exact hH.sb
      · intro _; simp only [hcount, hz, if_true]; exact ⟨trivial, hlist⟩
      · intro hD0; omega
  · -- a partially filled pending share: Export appends a zero-padded copy
    have hrpos : 0 < r := Nat.pos_of_ne_zero hz
    have hie : c.isEmpty = false := by simp [CompactSplitter.isEmpty, hemp, hz]
    have hrawlt : ¬ (pendingRaw ns D S k).length ≥ 512 := by omega
    generalize hp : pendingRaw ns D S k ++ zeros (512 - (pendingRaw ns D S k).length) = p
    have hplen : p.length = 512 := by rw [← hp]; simp only [List.length_append, zeros_length]; omega
    have hpad : c.sb.zeroPadIfNecessary =
        ({ c.sb with raw := p }, 512 - (pendingRaw ns D S k).length) := by
      simp only [ShareBuilder.zeroPadIfNecessary, hH.sb, hrawlt, if_false, hp]
    -- the k+1 shares before the sequence length is patched in
    let X : Nat → Bytes := fun j => if j < k then rawShare ns x D S j else p
    have hL : c.shares ++ [p] = (List.range (k + 1)).map X := by
      rw [List.range_succ, List.map_append, hH.shares]
      simp only [List.map_cons, List.map_nil, X, Nat.lt_irrefl, if_false]
      congr 1
      apply List.map_congr_left
      intro j hj; simp [List.mem_range.mp hj]
    obtain ⟨s0, rest, hs0⟩ : ∃ s0 rest, c.shares ++ [p] = s0 :: rest := by
      cases hcs : c.shares ++ [p] with
      | nil => simp at hcs
      | cons a b => exact ⟨a, b, rfl⟩
    have hs0eq : s0 = X 0 := by
      have := hL; rw [hs0, List.range_succ_eq_map] at this
      simp only [List.map_cons, List.cons.injEq] at this
      exact this.1
    have hresteq : rest = ((List.range (k + 1)).map X).tail := by rw [← hL, hs0]; rfl
    have hX0len : (X 0).length = 512 := by
      simp only [X]
      by_cases hk0 : k = 0
      · simp [hk0, hplen]
      · have hpos : 0 < k := Nat.pos_of_ne_zero hk0
        simp only [hpos, if_true]
        have h474 : 474 ≤ D.length := by rw [hoff, if_neg hk0] at hlo; omega
        have : ((D.drop (compactOff 0)).take (compactCap 0)).length = 474 := by
          simp [compactOff, compactCap, List.length_take]; omega
        simp only [rawShare, hdrX, if_true, List.length_append, List.length_cons, List.length_nil, be32_length, this, hc.len, hxl]
    have key : (pendingRaw ns D S k).length = compactHdr k + r := by omega
    have hseq : ({ c with shares := c.shares ++ [p], done := false } : CompactSplitter).sequenceLen
        (512 - (pendingRaw ns D S k).length) = D.length :=
      sequenceLen_spec _ (k + 1) _ D.length (by simp [hcl]) (by omega) (by
        rw [key]
        by_cases hk0 : k = 0
        · subst hk0
          simp only [compactHdr, compactOff, compactCap, if_true] at hr hhi hlo ⊢; omega
        · simp only [compactHdr, compactOff, compactCap, hk0, if_false] at hr hhi hlo ⊢; omega) hlt
    have hws := writeSeqLen_spec ns hc ({ c with shares := c.shares ++ [p], done := false }) s0 rest D.length hH.nsEq hH.ver hs0
      (by rw [hs0eq]; exact hX0len)
    have hY0 : specShare ns D S 0 = patch (X 0) D.length := by
      simp only [X]
      by_cases hk0 : k = 0
      · subst hk0
        simp only [Nat.lt_irrefl, if_false, ← hp]
        exact specShare_pending_first ns D S hc.len (by simpa [compactOff, compactCap] using hhi)
      · have hpos : 0 < k := Nat.pos_of_ne_zero hk0
        simp only [hpos, if_true]
        exact specShare_full_first ns x D S hc.len hxl (by rw [hoff, if_neg hk0] at hlo; omega)
    have hYj : ∀ j, 1 ≤ j → j < k + 1 → specShare ns D S j = X j := by
      intro j hj1 hjk
      simp only [X]
      by_cases hjlt : j < k
      · simp only [hjlt, if_true]
        exact specShare_full_cont ns x D S j hc.len (by omega) (by
          have := compactOff_mono (show j + 1 ≤ k by omega); rw [compactOff_succ] at this; omega)
      · have hjk' : j = k := by omega
        subst hjk'
        simp only [Nat.lt_irrefl, if_false, ← hp]
        exact specShare_pending_cont ns D S j hc.len (by omega) hlo hhi
    have hlist : patch s0 D.length :: rest = (List.range (k + 1)).map (specShare ns D S) := by
      rw [patched_list X (specShare ns D S) (k + 1) D.length (by omega) hY0 hYj, hs0eq, hresteq]
    have hpb : ({ c.sb with raw := p } : ShareBuilder).build = .ok p := by simp [ShareBuilder.build, hplen]
    refine ⟨{ c with shares := patch s0 D.length :: rest, done := true },
      (if k = 0 then zeros 4 else be32 D.length), ?_, by split <;> simp, ?_, rfl, ?_, ?_⟩
    · simp only [hie, Bool.false_eq_true, if_false, hH.done, hemp, hz, decide_false, Bool.not_false, if_true, hpad,
        hpb, res_bind_ok, pure, Except.pure, hseq, hws]
      simp only [hcount, hz, if_false]
      rw [hlist]
    · -- reopening drops the padded copy again
      refine ⟨⟨hH.nsEq, hH.ver, by simp [CompactSplitter.reopen], ?_, ?_⟩, fun e => by simp [e]⟩
      · simp only [CompactSplitter.reopen, if_true, hemp, hz, decide_false, Bool.not_false]
        rw [hs0eq, hresteq]
        by_cases hk0 : k = 0
        · subst hk0; simp [List.range_succ_eq_map]
        · have hpos : 1 ≤ k := Nat.pos_of_ne_zero hk0
          simp only [hk0, if_false]
          rw [map_rawShare_patch ns x D S k D.length hpos hc.len hxl]
          have hX0 : X 0 = rawShare ns x D S 0 := by
            have h0k : 0 < k := hpos
            simp [X, h0k]
          rw [hX0]
          have htail : ((List.range (k + 1)).map X).tail = ((List.range k).map (rawShare ns x D S)).tail ++ [p] := by
            rw [← hL, hH.shares]
            obtain ⟨m, rfl⟩ : ∃ m, k = m + 1 := ⟨k - 1, by omega⟩
            rw [List.range_succ_eq_map]; simp
          rw [htail, ← List.cons_append, List.dropLast_concat]
      · simp only [CompactSplitter.reopen, if_true]; exact hH.sb
    · intro _; simp only [hcount, hz, if_false]; exact ⟨trivial, hlist⟩
    · intro hD0; omega

end GoSquare
