import GoSquare.Properties.C02
/-! `Square.WrappedPFBs` on the closed-form square: parsing the pay-for-blob shares gives back
    exactly the wrappers the builder recorded the indexes in (C04's "recorded in the square's
    wrapped pay-for-blob transaction"). -/
namespace GoSquare.WrappedPFBs
open GoSquare Builder Spec

/-- the shares after the two compact sequences -/
def restOf (thr : Nat) (N : List Bytes) (B : List BlobTx) (ss : Nat) : List Bytes :=
  List.replicate (firstIdx thr (startOf N B) (sortedElems thr B) -
      ((compactSeq txNamespace N).length + (compactSeq payForBlobNamespace ((patched thr N B).map (·.marshal))).length))
    (paddingShare primaryReservedPaddingNamespace 0) ++
  region thr (startOf N B) none (sortedElems thr B) ++
  List.replicate (ss * ss - (firstIdx thr (startOf N B) (sortedElems thr B) +
      (region thr (startOf N B) none (sortedElems thr B)).length)) (paddingShare tailPaddingNamespace 0)

theorem squareOf_parts (thr : Nat) (N : List Bytes) (B : List BlobTx) (ss : Nat)
    (hv : ∀ t ∈ B, ∀ bl ∈ t.blobs, bl.BlobValid) (hu : ∀ t ∈ B, ∀ bl ∈ t.blobs, UserNs bl.ns) :
    squareOf thr N B ss = compactSeq txNamespace N ++
      compactSeq payForBlobNamespace ((patched thr N B).map (·.marshal)) ++ restOf thr N B ss ∧
    (∀ s ∈ compactSeq txNamespace N, Share.ns s = txNamespace) ∧
    (∀ s ∈ compactSeq payForBlobNamespace ((patched thr N B).map (·.marshal)), Share.ns s = payForBlobNamespace) ∧
    (∀ s ∈ restOf thr N B ss, cmpBytes (Share.ns s) payForBlobNamespace = 1) := by
  refine ⟨by simp only [squareOf, restOf, List.append_assoc],
    fun s hs => (compactSeq_shares txNamespace ⟨by decide, by decide⟩ N s hs).2,
    fun s hs => (compactSeq_shares payForBlobNamespace ⟨by decide, by decide⟩ _ s hs).2, ?_⟩
  have hvalid : ∀ e ∈ sortedElems thr B, e.blob.Valid ∧ UserNs e.blob.ns := by
    intro e he
    obtain ⟨t, ht, hbt⟩ := sortedElems_mem thr B e he
    exact ⟨(hv t ht _ hbt).valid, hu t ht _ hbt⟩
  intro s hs
  unfold restOf at hs
  rcases List.mem_append.mp hs with hs | hs
  · rcases List.mem_append.mp hs with hs | hs
    · rw [List.eq_of_mem_replicate hs, (paddingShare_wf _ 0 (by decide)).2]; decide
    · obtain ⟨_, hor⟩ := region_shares thr (sortedElems thr B) (startOf N B) none (fun e he => (hvalid e he).1)
        (fun p hp => by cases hp) s hs
      rcases hor with ⟨p, hp, _⟩ | ⟨e, he, hns⟩
      · cases hp
      · obtain ⟨hlo, _⟩ := (hvalid e he).2
        rw [hns]
        have hpr : cmpBytes payForBlobNamespace primaryReservedPaddingNamespace ≤ 0 := by decide
        have := cmpBytes_le_trans _ _ _ hpr (by omega : cmpBytes primaryReservedPaddingNamespace e.blob.ns ≤ 0)
        have hsw := cmpBytes_swap payForBlobNamespace e.blob.ns
        rcases cmpBytes_range e.blob.ns payForBlobNamespace with hc | hc | hc
        · omega
        · exfalso
          have heq := (cmpBytes_eq_iff _ _).mp hc
          rw [heq] at hlo; revert hlo; decide
        · exact hc
  · rw [List.eq_of_mem_replicate hs, (paddingShare_wf _ 0 (by decide)).2]; decide

/-- `WrappedPFBs` of a three-part square returns the parse of the pay-for-blob run -/
theorem wrappedPFBs_parts (txS pfbS R : List Bytes)
    (h1 : ∀ s ∈ txS, Share.ns s = txNamespace) (h2 : ∀ s ∈ pfbS, Share.ns s = payForBlobNamespace)
    (h3 : ∀ s ∈ R, cmpBytes (Share.ns s) payForBlobNamespace = 1) (hne : pfbS ≠ []) :
    wrappedPFBs (txS ++ pfbS ++ R) = parseTxs pfbS := by
  have hl := C20.lookup_returns_the_run payForBlobNamespace txS pfbS R
    (fun s hs => by unfold C20.below; rw [h1 s hs]; decide) h2 h3
  rw [if_neg hne] at hl
  unfold wrappedPFBs
  rw [hl]
  simp only
  have hpos : 0 < pfbS.length := List.length_pos_iff.mpr hne
  rw [if_neg (by omega)]
  have hslice : slice (txS ++ pfbS ++ R) txS.length (txS.length + pfbS.length) = .ok pfbS := by
    unfold slice
    rw [if_pos ⟨by omega, by simp⟩]
    simp [List.append_assoc, List.drop_left']
  rw [hslice]
  rfl


theorem patched_typeId (thr : Nat) (N : List Bytes) (B : List BlobTx) :
    ∀ iw ∈ patched thr N B, iw.typeId = indexWrapperTypeId := by
  intro iw hiw
  obtain ⟨p, hp, rfl⟩ := List.mem_iff_getElem.mp hiw
  have hpw : p < (worstWrappers B).length := by
    have := (patchAll_frame thr (sortedElems thr B) (startOf N B) (worstWrappers B)).1
    unfold patched at hp; omega
  obtain ⟨iw', h1', _, h3', _⟩ := (patchAll_frame thr (sortedElems thr B) (startOf N B) (worstWrappers B)).2 p _
    (List.getElem?_eq_getElem hpw)
  have : (patched thr N B)[p]? = some (patched thr N B)[p] := List.getElem?_eq_getElem hp
  unfold patched at this
  rw [this] at h1'
  simp only [Option.some.injEq] at h1'
  unfold patched
  rw [h1', h3']
  simp [worstWrappers, newIndexWrapper]

/-- **C04 (recorded in the square).** Parsing the square's pay-for-blob shares returns exactly the
    marshalled wrappers `patched thr N B` — the ones `C04.recorded_index_is_truthful` speaks about. -/
theorem wrappedPFBs_squareOf (thr : Nat) (N : List Bytes) (B : List BlobTx) (ss : Nat)
    (hv : ∀ t ∈ B, ∀ bl ∈ t.blobs, bl.BlobValid) (hu : ∀ t ∈ B, ∀ bl ∈ t.blobs, UserNs bl.ns)
    (hB : B ≠ []) (hst2 : (unitStream ((patched thr N B).map (·.marshal))).length < 4294967296) :
    wrappedPFBs (squareOf thr N B ss) = .ok ((patched thr N B).map (·.marshal)) := by
  obtain ⟨hform, h1, h2, h3⟩ := squareOf_parts thr N B ss hv hu
  have hplen : (patched thr N B).length = B.length := by
    unfold patched; rw [(patchAll_frame thr _ _ _).1]; unfold worstWrappers; simp
  have hpne : (patched thr N B).map (·.marshal) ≠ [] := by
    intro hc
    have := congrArg List.length hc
    simp only [List.length_map, hplen, List.length_nil] at this
    exact hB (List.eq_nil_of_length_eq_zero this)
  have hunits : C09.NonEmptyUnits ((patched thr N B).map (·.marshal)) := by
    intro u hu'
    obtain ⟨iw, hiw, rfl⟩ := List.mem_map.mp hu'
    refine ⟨C02.marshal_ne_nil iw (patched_typeId thr N B iw hiw), ?_⟩
    have := C02.unit_le_stream _ _ hu'
    have : (4294967296 : Nat) < 2 ^ 63 := by decide
    omega
  have hparse := C09.parse_spec payForBlobNamespace ⟨by decide, by decide⟩ _ hpne hunits hst2
  have hne : compactSeq payForBlobNamespace ((patched thr N B).map (·.marshal)) ≠ [] := by
    intro hc
    rw [hc] at hparse
    have : parseTxs [] = .ok [] := rfl
    rw [this] at hparse
    simp only [Except.ok.injEq] at hparse
    exact hpne hparse.symm
  rw [hform, wrappedPFBs_parts _ _ _ h1 h2 h3 hne, hparse]

end GoSquare.WrappedPFBs
