import GoSquare.Proofs.ExportKept
/-! C04: the start index recorded in the wrapped pay-for-blob transaction for blob `j` of kept blob
    transaction `p` is the start index at which that blob was placed. -/
namespace GoSquare
open Builder Spec

/-- two elements do not share their key (transaction position, blob position) -/
abbrev KeyNe (a b : Element) : Prop := ¬ (a.pfbIndex = b.pfbIndex ∧ a.blobIndex = b.blobIndex)

theorem mem_elementsOf (thr p : Nat) (t : BlobTx) (e : Element) :
    e ∈ elementsOf thr p t ↔ ∃ (j : Nat) (h : j < t.blobs.length), e = newElement t.blobs[j] p j thr := by
  unfold elementsOf
  rw [List.mem_mapIdx]
  constructor
  · rintro ⟨j, hj, rfl⟩; exact ⟨j, hj, rfl⟩
  · rintro ⟨j, hj, rfl⟩; exact ⟨j, hj, rfl⟩

theorem mem_allElements_iff (thr : Nat) (B : List BlobTx) (e : Element) :
    e ∈ allElements thr B ↔
      ∃ (p : Nat) (hp : p < B.length) (j : Nat) (hj : j < B[p].blobs.length), e = newElement B[p].blobs[j] p j thr := by
  unfold allElements
  rw [List.mem_flatten]
  constructor
  · rintro ⟨l, hl, hel⟩
    rw [List.mem_mapIdx] at hl
    obtain ⟨p, hp, rfl⟩ := hl
    rw [mem_elementsOf] at hel
    obtain ⟨j, hj, rfl⟩ := hel
    exact ⟨p, hp, j, hj, rfl⟩
  · rintro ⟨p, hp, j, hj, rfl⟩
    refine ⟨elementsOf thr p B[p], ?_, ?_⟩
    · rw [List.mem_mapIdx]; exact ⟨p, hp, rfl⟩
    · rw [mem_elementsOf]; exact ⟨j, hj, rfl⟩

/-- the keys (transaction position, blob position) of all elements are pairwise distinct and in range -/
theorem allElements_keys (thr : Nat) (B : List BlobTx) :
    (allElements thr B).Pairwise (fun a b => ¬ (a.pfbIndex = b.pfbIndex ∧ a.blobIndex = b.blobIndex)) ∧
    ∀ e ∈ allElements thr B, ∃ t, B[e.pfbIndex]? = some t ∧ ∃ bl, t.blobs[e.blobIndex]? = some bl ∧
      e = newElement bl e.pfbIndex e.blobIndex thr := by
  constructor
  · unfold allElements
    rw [List.pairwise_flatten]
    constructor
    · intro l hl
      rw [List.mem_mapIdx] at hl
      obtain ⟨p, hp, rfl⟩ := hl
      unfold elementsOf
      rw [List.pairwise_iff_getElem]
      intro i j hi hj hij
      simp only [List.getElem_mapIdx]
      intro hc
      have : i = j := hc.2
      omega
    · rw [List.pairwise_iff_getElem]
      intro i j hi hj hij x hx y hy
      simp only [List.getElem_mapIdx] at hx hy
      rw [mem_elementsOf] at hx hy
      obtain ⟨a, ha, rfl⟩ := hx
      obtain ⟨c, hc, rfl⟩ := hy
      intro hcon
      have : i = j := hcon.1
      omega
  · intro e he
    rw [mem_allElements_iff] at he
    obtain ⟨p, hp, j, hj, rfl⟩ := he
    refine ⟨B[p], ?_, B[p].blobs[j], ?_, rfl⟩
    · exact List.getElem?_eq_getElem hp
    · exact List.getElem?_eq_getElem hj

/-- conversely every blob of every kept blob transaction has its element -/
theorem allElements_complete (thr : Nat) (B : List BlobTx) (p j : Nat) (t : BlobTx) (bl : Blob)
    (hp : B[p]? = some t) (hj : t.blobs[j]? = some bl) : newElement bl p j thr ∈ allElements thr B := by
  rw [mem_allElements_iff]
  obtain ⟨hp', rfl⟩ := List.getElem?_eq_some_iff.mp hp
  obtain ⟨hj', rfl⟩ := List.getElem?_eq_some_iff.mp hj
  exact ⟨p, hp', j, hj', rfl⟩

/-- one patch, entry by entry -/
theorem patchOne_getElem? (P : List Proto.IndexWrapper) (e : Element) (idx p : Nat) :
    (patchOne P e idx)[p]? =
      (P[p]?).map (fun iw => if e.pfbIndex = p then
        { iw with shareIndexes := iw.shareIndexes.set e.blobIndex (u32 idx) } else iw) := by
  unfold patchOne
  rw [List.getElem?_modify]
  rfl

theorem patchOne_frame (P : List Proto.IndexWrapper) (e : Element) (idx p : Nat) (iw : Proto.IndexWrapper)
    (h : P[p]? = some iw) :
    ∃ iw', (patchOne P e idx)[p]? = some iw' ∧ iw'.tx = iw.tx ∧ iw'.typeId = iw.typeId ∧
      iw'.shareIndexes.length = iw.shareIndexes.length := by
  rw [patchOne_getElem?, h]
  by_cases hc : e.pfbIndex = p
  · simp only [Option.map_some, hc, if_true]
    exact ⟨_, rfl, rfl, rfl, by simp⟩
  · simp only [Option.map_some, hc, if_false]
    exact ⟨_, rfl, rfl, rfl, rfl⟩

/-- patching changes only share indexes: same number of wrappers, same inner tx, same type id, same number of indexes -/
theorem patchAll_frame (thr : Nat) : ∀ (es : List Element) (cur : Nat) (P : List Proto.IndexWrapper),
    (patchAll thr cur es P).length = P.length ∧
    ∀ (p : Nat) (iw : Proto.IndexWrapper), P[p]? = some iw →
      ∃ iw', (patchAll thr cur es P)[p]? = some iw' ∧ iw'.tx = iw.tx ∧ iw'.typeId = iw.typeId ∧
      iw'.shareIndexes.length = iw.shareIndexes.length
  | [], cur, P => ⟨rfl, fun p iw h => ⟨iw, h, rfl, rfl, rfl⟩⟩
  | e :: es, cur, P => by
    obtain ⟨ih1, ih2⟩ := patchAll_frame thr es (nextShareIndex cur e.numShares thr + e.numShares)
      (patchOne P e (nextShareIndex cur e.numShares thr))
    refine ⟨?_, ?_⟩
    · rw [patchAll, ih1, patchOne_length]
    · intro p iw h
      obtain ⟨iw1, h1, a1, b1, c1⟩ := patchOne_frame P e (nextShareIndex cur e.numShares thr) p iw h
      obtain ⟨iw2, h2, a2, b2, c2⟩ := ih2 p iw1 h1
      rw [patchAll]
      exact ⟨iw2, h2, a2.trans a1, b2.trans b1, c2.trans c1⟩

/-- an index that no later element overwrites stays -/
theorem patchAll_untouched (thr : Nat) : ∀ (es : List Element) (cur : Nat) (P : List Proto.IndexWrapper)
    (p j : Nat) (iw : Proto.IndexWrapper) (v : Nat),
    (∀ e ∈ es, ¬ (e.pfbIndex = p ∧ e.blobIndex = j)) → P[p]? = some iw → iw.shareIndexes[j]? = some v →
    ∃ iw', (patchAll thr cur es P)[p]? = some iw' ∧ iw'.shareIndexes[j]? = some v
  | [], cur, P, p, j, iw, v, _, h1, h2 => ⟨iw, h1, h2⟩
  | e :: es, cur, P, p, j, iw, v, hne, h1, h2 => by
    rw [patchAll]
    have hne' := hne e (by simp)
    have hstep : ∃ iw1, (patchOne P e (nextShareIndex cur e.numShares thr))[p]? = some iw1 ∧
        iw1.shareIndexes[j]? = some v := by
      rw [patchOne_getElem?, h1]
      by_cases hc : e.pfbIndex = p
      · have hj : e.blobIndex ≠ j := fun hj => hne' ⟨hc, hj⟩
        simp only [Option.map_some, hc, if_true]
        refine ⟨_, rfl, ?_⟩
        simp only [List.getElem?_set_ne hj]
        exact h2
      · simp only [Option.map_some, hc, if_false]
        exact ⟨_, rfl, h2⟩
    obtain ⟨iw1, g1, g2⟩ := hstep
    exact patchAll_untouched thr es _ _ p j iw1 v (fun x hx => hne x (by simp [hx])) g1 g2

/-- the recorded index of the k-th written element is its placement index -/
theorem patchAll_lookup (thr : Nat) : ∀ (es : List Element) (cur : Nat) (P : List Proto.IndexWrapper),
    es.Pairwise (fun a b => ¬ (a.pfbIndex = b.pfbIndex ∧ a.blobIndex = b.blobIndex)) →
    (∀ e ∈ es, ∃ iw, P[e.pfbIndex]? = some iw ∧ e.blobIndex < iw.shareIndexes.length) →
    ∀ (k : Nat) (e : Element) (idx : Nat), es[k]? = some e → (placeIdx thr cur es)[k]? = some idx →
    ∃ iw', (patchAll thr cur es P)[e.pfbIndex]? = some iw' ∧ iw'.shareIndexes[e.blobIndex]? = some (u32 idx)
  | [], cur, P, _, _, k, e, idx, he, _ => by simp at he
  | a :: es, cur, P, hpw, hin, k, e, idx, he, hi => by
    rw [List.pairwise_cons] at hpw
    obtain ⟨hhead, htail⟩ := hpw
    rw [patchAll]
    cases k with
    | zero =>
      simp only [List.getElem?_cons_zero, Option.some.injEq] at he
      subst he
      simp only [placeIdx, List.getElem?_cons_zero, Option.some.injEq] at hi
      subst hi
      obtain ⟨iw, hiw, hlt⟩ := hin a (by simp)
      refine patchAll_untouched thr es _ _ a.pfbIndex a.blobIndex
        { iw with shareIndexes := iw.shareIndexes.set a.blobIndex (u32 (nextShareIndex cur a.numShares thr)) } _
        ?_ ?_ ?_
      · intro x hx hc
        exact hhead x hx ⟨hc.1.symm, hc.2.symm⟩
      · rw [patchOne_getElem?, hiw]
        simp
      · simp only [List.getElem?_set_self hlt]
    | succ k =>
      simp only [List.getElem?_cons_succ] at he
      simp only [placeIdx, List.getElem?_cons_succ] at hi
      refine patchAll_lookup thr es _ _ htail ?_ k e idx he hi
      intro x hx
      obtain ⟨iw, hiw, hlt⟩ := hin x (by simp [hx])
      obtain ⟨iw1, h1, _, _, c1⟩ := patchOne_frame P a (nextShareIndex cur a.numShares thr) x.pfbIndex iw hiw
      exact ⟨iw1, h1, by omega⟩

theorem worstWrappers_getElem? (B : List BlobTx) (p : Nat) :
    (worstWrappers B)[p]? = (B[p]?).map (fun t => newIndexWrapper t.tx (worstCaseShareIndexes t.blobs.length)) := by
  unfold worstWrappers
  rw [List.getElem?_map]

/-- (C04) in the exported builder state, the wrapper of kept blob transaction `e.pfbIndex` records,
    at position `e.blobIndex`, the start index of element `e` (the k-th in write order) -/
theorem patched_records (thr : Nat) (N : List Bytes) (B : List BlobTx) (k : Nat) (e : Element) (idx : Nat)
    (he : (sortedElems thr B)[k]? = some e) (hi : (placeIdx thr (startOf N B) (sortedElems thr B))[k]? = some idx) :
    ∃ iw t, (patched thr N B)[e.pfbIndex]? = some iw ∧ B[e.pfbIndex]? = some t ∧ iw.tx = t.tx ∧
      iw.typeId = indexWrapperTypeId ∧ iw.shareIndexes.length = t.blobs.length ∧
      iw.shareIndexes[e.blobIndex]? = some (u32 idx) := by
  obtain ⟨hpw, hmem⟩ := allElements_keys thr B
  have hperm : (sortedElems thr B).Perm (allElements thr B) := List.mergeSort_perm _ _
  have hpw' : (sortedElems thr B).Pairwise
      (fun a b => ¬ (a.pfbIndex = b.pfbIndex ∧ a.blobIndex = b.blobIndex)) :=
    (List.Perm.pairwise_iff (fun {x y} h hc => h ⟨hc.1.symm, hc.2.symm⟩) hperm).mpr hpw
  have hin : ∀ x ∈ sortedElems thr B, ∃ iw, (worstWrappers B)[x.pfbIndex]? = some iw ∧
      x.blobIndex < iw.shareIndexes.length := by
    intro x hx
    obtain ⟨t, ht, bl, hbl, _⟩ := hmem x (hperm.mem_iff.mp hx)
    refine ⟨_, by rw [worstWrappers_getElem?, ht]; rfl, ?_⟩
    have := (List.getElem?_eq_some_iff.mp hbl).1
    simpa [newIndexWrapper, worstCaseShareIndexes] using this
  obtain ⟨iw', h1, h2⟩ := patchAll_lookup thr (sortedElems thr B) (startOf N B) (worstWrappers B) hpw' hin k e idx he hi
  have hemem : e ∈ sortedElems thr B := List.mem_of_getElem? he
  obtain ⟨t, ht, _⟩ := hmem e (hperm.mem_iff.mp hemem)
  have hw : (worstWrappers B)[e.pfbIndex]? = some (newIndexWrapper t.tx (worstCaseShareIndexes t.blobs.length)) := by
    rw [worstWrappers_getElem?, ht]; rfl
  obtain ⟨iw2, g1, g2, g3, g4⟩ := (patchAll_frame thr (sortedElems thr B) (startOf N B) (worstWrappers B)).2 _ _ hw
  rw [h1] at g1
  simp only [Option.some.injEq] at g1
  subst g1
  refine ⟨iw', t, h1, ht, g2, g3, ?_, h2⟩
  rw [g4]
  simp [newIndexWrapper, worstCaseShareIndexes]

end GoSquare
