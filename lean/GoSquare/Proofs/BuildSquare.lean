import GoSquare.Proofs.ExportKept
/-! `Build` and `Construct` return the closed-form square of the kept transactions. -/
namespace GoSquare
open Builder Spec

/-- the transaction loop of `Construct` (`NewBuilder` with transactions): every transaction is
    kept, ordinary ones first. -/
theorem appendAll_spec (dec : Bytes → Decoded) : ∀ (txs : List Bytes) (b : Builder) (seen : Bool) (n bl : List Bytes)
    (b' : Builder),
    Kept b n (bl.map (decB dec)) → (∀ r ∈ bl, dec r = .blobTx (decB dec r)) → (∀ r ∈ n, dec r = .normal) →
    appendAll dec txs b seen = .ok b' →
    ∃ n' bl', txs = n' ++ bl' ∧ Kept b' (n ++ n') ((bl ++ bl').map (decB dec)) ∧
      b'.thr = b.thr ∧ b'.maxSquareSize = b.maxSquareSize ∧
      (∀ r ∈ bl ++ bl', dec r = .blobTx (decB dec r)) ∧ (∀ r ∈ n ++ n', dec r = .normal)
  | [], b, seen, n, bl, b', hk, hb, hn, h => by
    simp only [appendAll, Except.ok.injEq] at h
    subst h
    exact ⟨[], [], rfl, by simpa using hk, rfl, rfl, by simpa using hb, by simpa using hn⟩
  | t :: rest, b, seen, n, bl, b', hk, hb, hn, h => by
    rw [appendAll] at h
    cases hd : dec t with
    | badBlobTx => rw [hd] at h; cases h
    | normal =>
      rw [hd] at h
      simp only at h
      by_cases hs : seen = true
      · rw [if_pos hs] at h; cases h
      · rw [if_neg hs] at h
        obtain ⟨_, hacc, _⟩ := appendTx_spec b n (bl.map (decB dec)) t hk
        by_cases ha : (b.appendTx t).2 = true
        · obtain ⟨hk1, ht1, hm1⟩ := hacc ha
          rw [ha] at h
          simp only [if_true] at h
          obtain ⟨n', bl', e, r1, r2, r3, r4, r5⟩ := appendAll_spec dec rest _ false (n ++ [t]) bl b' hk1 hb
            (by intro r hr; rcases List.mem_append.mp hr with hr | hr
                · exact hn r hr
                · simp at hr; rw [hr]; exact hd) h
          -- no blob transaction may precede an ordinary one: the rest keeps normals first
          refine ⟨t :: n', bl', by rw [e]; rfl, by simpa [List.append_assoc] using r1, by rw [r2, ht1], by rw [r3, hm1], r4,
            by simpa [List.append_assoc] using r5⟩
        · have ha' : (b.appendTx t).2 = false := by simpa using ha
          rw [ha'] at h
          simp at h
    | blobTx bt =>
      rw [hd] at h
      simp only at h
      have hdb : decB dec t = bt := by simp [decB, hd]
      obtain ⟨_, hacc, _⟩ := appendBlobTx_spec b n (bl.map (decB dec)) bt hk
      by_cases ha : (b.appendBlobTx bt).2 = true
      · obtain ⟨hk1, ht1, hm1⟩ := hacc ha
        rw [ha] at h
        simp only [if_true] at h
        have hk1' : Kept (b.appendBlobTx bt).1 n ((bl ++ [t]).map (decB dec)) := by
          rw [List.map_append, List.map_cons, List.map_nil, hdb]; exact hk1
        obtain ⟨n', bl', e, r1, r2, r3, r4, r5⟩ := appendAll_spec dec rest _ true n (bl ++ [t]) b' hk1'
          (by intro r hr; rcases List.mem_append.mp hr with hr | hr
              · exact hb r hr
              · simp at hr; rw [hr, hdb]; exact hd) hn h
        -- after a blob transaction only blob transactions are accepted: n' = []
        have hn' : n' = [] := by
          cases n' with
          | nil => rfl
          | cons x xs =>
            exfalso
            -- `rest = x :: ...` starts with an ordinary transaction, which `appendAll … true` rejects
            rw [e] at h
            have hx : dec x = .normal := r5 x (by simp)
            simp only [List.cons_append, appendAll, hx, if_true] at h
            cases h
        subst hn'
        refine ⟨[], t :: bl', by rw [e]; rfl, by simpa [List.append_assoc] using r1, by rw [r2, ht1], by rw [r3, hm1],
          by simpa [List.append_assoc] using r4, r5⟩
      · have ha' : (b.appendBlobTx bt).2 = false := by simpa using ha
        rw [ha'] at h
        simp at h

/-- what the theorems assume of the blob-transaction decoder: blobs it returns are blob-valid
    (`blob.New` + `ValidateForBlob` in the real decoder path) -/
def DecValid (dec : Bytes → Decoded) : Prop := ∀ t bt, dec t = .blobTx bt → ∀ b ∈ bt.blobs, b.BlobValid

theorem decValid_kept (dec : Bytes → Decoded) (hdec : DecValid dec) (bl : List Bytes)
    (hb : ∀ r ∈ bl, dec r = .blobTx (decB dec r)) : ∀ t ∈ bl.map (decB dec), ∀ b ∈ t.blobs, b.BlobValid := by
  intro t ht b hbm
  obtain ⟨r, hr, rfl⟩ := List.mem_map.mp ht
  exact hdec r _ (hb r hr) b hbm

/-- the square of kept transactions `N` (ordinary) and `bl` (blob transactions, raw) -/
def IsSquareOf (dec : Bytes → Decoded) (thr : Nat) (N bl : List Bytes) (sq : List Bytes) : Prop :=
  let B := bl.map (decB dec)
  let ss := blobMinSquareSize (closedEstimate thr N B)
  (N = [] ∧ bl = [] ∧ sq = [paddingShare tailPaddingNamespace 0]) ∨
  (¬ (N = [] ∧ bl = []) ∧ sq = squareOf thr N B ss ∧
    (compactSeq txNamespace N).length +
      (compactSeq payForBlobNamespace ((patched thr N B).map (·.marshal))).length ≤
      firstIdx thr (startOf N B) (sortedElems thr B) ∧
    firstIdx thr (startOf N B) (sortedElems thr B) + (region thr (startOf N B) none (sortedElems thr B)).length ≤ ss * ss ∧
    (compactSeq payForBlobNamespace ((patched thr N B).map (·.marshal))).length ≤ pfbShareCount B)

theorem isSquareOf_of_export (dec : Bytes → Decoded) (hdec : DecValid dec) (b : Builder) (N bl : List Bytes)
    (hk : Kept b N (bl.map (decB dec))) (hb : ∀ r ∈ bl, dec r = .blobTx (decB dec r))
    (hsz : 478 * (b.maxSquareSize * b.maxSquareSize) < 4294967296)
    (b' : Builder) (sq : List Bytes) (h : b.exportSquare = .ok (b', sq)) :
    IsSquareOf dec b.thr N bl sq := by
  rcases export_kept b N _ hk (decValid_kept dec hdec bl hb) hsz b' sq h with ⟨h1, h2, h3, _⟩ | ⟨h1, h2⟩
  · left; exact ⟨h1, by simpa using h2, h3⟩
  · right
    simp only at h2
    obtain ⟨g1, _, _, _, _, g2, g3, g4⟩ := h2
    refine ⟨fun hc => h1 ⟨hc.1, by simp [hc.2]⟩, g1, g2, g3, g4⟩

/-- **`Build`** returns the kept transactions (ordinary first) and the closed-form square of them -/
theorem build_square (dec : Bytes → Decoded) (hdec : DecValid dec) (txs : List Bytes) (max thr : Nat)
    (hsz : 478 * (max * max) < 4294967296) (sq kept : List Bytes)
    (h : build dec txs max thr = .ok (sq, kept)) :
    ∃ N bl, kept = N ++ bl ∧ (∀ r ∈ N, dec r = .normal) ∧ (∀ r ∈ bl, dec r = .blobTx (decB dec r)) ∧
      closedEstimate thr N (bl.map (decB dec)) ≤ max * max ∧ IsSquareOf dec thr N bl sq := by
  unfold build at h
  obtain ⟨b0, hnew, h⟩ := res_bind_ok' h
  obtain ⟨⟨b, n, bl⟩, hloop, h⟩ := res_bind_ok' h
  obtain ⟨⟨b2, sq2⟩, hexp, h⟩ := res_bind_ok' h
  simp only [Except.ok.injEq, Prod.mk.injEq] at h
  obtain ⟨rfl, rfl⟩ := h
  obtain ⟨hk0, ht0, hm0⟩ := kept_new max thr b0 hnew
  obtain ⟨hk, hthr, hmx, hbl, hn, _, _⟩ := buildLoop_spec dec txs b0 [] [] b n bl
    (by simpa using hk0) (by simp) (by simp) hloop
  have hbthr : b.thr = thr := by rw [hthr, ht0]
  have hbmax : b.maxSquareSize = max := by rw [hmx, hm0]
  refine ⟨n, bl, rfl, hn, hbl, by rw [← hbthr, ← hbmax]; exact hk.fit, ?_⟩
  rw [← hbthr]
  exact isSquareOf_of_export dec hdec b n bl hk hbl (by rw [hbmax]; exact hsz) b2 sq2 hexp

/-- **`Construct`** keeps every transaction (ordinary ones first) and returns the closed-form square -/
theorem construct_square (dec : Bytes → Decoded) (hdec : DecValid dec) (txs : List Bytes) (max thr : Nat)
    (hsz : 478 * (max * max) < 4294967296) (sq : List Bytes)
    (h : construct dec txs max thr = .ok sq) :
    ∃ N bl, txs = N ++ bl ∧ (∀ r ∈ N, dec r = .normal) ∧ (∀ r ∈ bl, dec r = .blobTx (decB dec r)) ∧
      closedEstimate thr N (bl.map (decB dec)) ≤ max * max ∧ IsSquareOf dec thr N bl sq := by
  unfold construct Builder.newWithTxs at h
  obtain ⟨b, hb, h⟩ := res_bind_ok' h
  obtain ⟨b0, hnew, hall⟩ := res_bind_ok' hb
  obtain ⟨⟨b2, sq2⟩, hexp, h⟩ := res_bind_ok' h
  simp only [Except.ok.injEq] at h
  subst h
  obtain ⟨hk0, ht0, hm0⟩ := kept_new max thr b0 hnew
  obtain ⟨n, bl, e, hk, hthr, hmx, hbl, hn⟩ := appendAll_spec dec txs b0 false [] [] b
    (by simpa using hk0) (by simp) (by simp) hall
  simp only [List.nil_append] at hk hbl hn
  have hbthr : b.thr = thr := by rw [hthr, ht0]
  have hbmax : b.maxSquareSize = max := by rw [hmx, hm0]
  refine ⟨n, bl, e, hn, hbl, by rw [← hbthr, ← hbmax]; exact hk.fit, ?_⟩
  rw [← hbthr]
  exact isSquareOf_of_export dec hdec b n bl hk hbl (by rw [hbmax]; exact hsz) b2 sq2 hexp

end GoSquare
