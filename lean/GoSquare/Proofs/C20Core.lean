import GoSquare.Proofs.Namespace
import GoSquare.Model.Parse
/-! # C20 — namespace range lookup agrees with the share list (first half of the property)

`GetShareRangeForNamespace` on ANY namespace-ordered share list returns exactly the contiguous run
of shares carrying the queried namespace, or the empty range when it is absent. A sorted list is
a block of smaller namespaces, the run, and a block of larger namespaces; the theorem is stated
on that decomposition and `sorted_decomposition` shows every ordered list has one. -/
namespace GoSquare.C20
open GoSquare

/-- namespace of a share compared with the query -/
abbrev below (q : Bytes) (s : Bytes) : Prop := cmpBytes (Share.ns s) q = -1
abbrev at_ (q : Bytes) (s : Bytes) : Prop := Share.ns s = q
abbrev above (q : Bytes) (s : Bytes) : Prop := cmpBytes (Share.ns s) q = 1

theorem gt_false_of_below {q s : Bytes} (h : below q s) : Ns.isGreaterThan (Share.ns s) q = false := by
  unfold below at h; simp [Ns.isGreaterThan, Ns.compare, h]
theorem eq_false_of_below {q s : Bytes} (h : below q s) : Ns.equals q (Share.ns s) = false := by
  unfold below at h
  have : ¬ (Share.ns s = q) := by intro e; rw [(cmpBytes_eq_iff _ _).mpr e] at h; omega
  simp [Ns.equals]; intro e; exact this e.symm
theorem gt_false_of_at {q s : Bytes} (h : at_ q s) : Ns.isGreaterThan (Share.ns s) q = false := by
  have := (cmpBytes_eq_iff (Share.ns s) q).mpr h
  simp [Ns.isGreaterThan, Ns.compare, this]
theorem eq_true_of_at {q s : Bytes} (h : at_ q s) : Ns.equals q (Share.ns s) = true := by
  simp [Ns.equals, h.symm]
theorem gt_true_of_above {q s : Bytes} (h : above q s) : Ns.isGreaterThan (Share.ns s) q = true := by
  unfold above at h; simp [Ns.isGreaterThan, Ns.compare, h]
theorem eq_false_of_above {q s : Bytes} (h : above q s) : Ns.equals q (Share.ns s) = false := by
  unfold above at h
  have : ¬ (Share.ns s = q) := by intro e; rw [(cmpBytes_eq_iff _ _).mpr e] at h; omega
  simp [Ns.equals]; intro e; exact this e.symm

/-- scanning shares below the query does nothing -/
theorem loop_below (q : Bytes) (total : Nat) : ∀ (lt rest : List Bytes) (i : Nat), (∀ s ∈ lt, below q s) →
    rangeLoop q total (lt ++ rest) i none = rangeLoop q total rest (i + lt.length) none
  | [], rest, i, _ => by simp
  | s :: lt, rest, i, h => by
    have hs := h s (by simp)
    simp only [List.cons_append, rangeLoop, gt_false_of_below hs, eq_false_of_below hs, Bool.false_and,
      Bool.false_eq_true, if_false]
    rw [loop_below q total lt rest (i + 1) (fun x hx => h x (by simp [hx]))]
    simp only [List.length_cons]; congr 1; omega

/-- scanning the run keeps the recorded start -/
theorem loop_at (q : Bytes) (total st : Nat) : ∀ (eq rest : List Bytes) (i : Nat), (∀ s ∈ eq, at_ q s) →
    rangeLoop q total (eq ++ rest) i (some st) = rangeLoop q total rest (i + eq.length) (some st)
  | [], rest, i, _ => by simp
  | s :: eq, rest, i, h => by
    have hs := h s (by simp)
    simp only [List.cons_append, rangeLoop, gt_false_of_at hs, Bool.false_and, Bool.false_eq_true, if_false,
      Option.isNone_some, Bool.and_false]
    rw [loop_at q total st eq rest (i + 1) (fun x hx => h x (by simp [hx]))]
    simp only [List.length_cons]; congr 1; omega

/-- scanning shares above the query without a recorded start finds nothing -/
theorem loop_above_none (q : Bytes) (total : Nat) : ∀ (gt : List Bytes) (i : Nat), (∀ s ∈ gt, above q s) →
    rangeLoop q total gt i none = (0, 0)
  | [], i, _ => by simp [rangeLoop]
  | s :: gt, i, h => by
    have hs := h s (by simp)
    simp only [rangeLoop, Option.isSome_none, Bool.and_false, Bool.false_eq_true, if_false, eq_false_of_above hs,
      Bool.false_and]
    exact loop_above_none q total gt (i + 1) (fun x hx => h x (by simp [hx]))

/-- the last share of `lt ++ run ++ gt` is in `gt`, or in `run` when `gt` is empty -/
theorem last_of_decomposition (lt run gt : List Bytes) (d : Bytes) (hne : run ≠ []) :
    (gt ≠ [] → (lt ++ run ++ gt).getLast?.getD d ∈ gt) ∧ (gt = [] → (lt ++ run ++ gt).getLast?.getD d ∈ run) := by
  rw [List.getLast?_append, List.getLast?_append]
  constructor
  · intro hg
    rw [List.getLast?_eq_some_getLast hg]
    simp
  · intro hg
    subst hg
    rw [List.getLast?_eq_some_getLast hne]
    simp

/-- **C20 (range lookup).** On `lt ++ run ++ gt` with `lt` below, `run` at and `gt` above the
    queried namespace, the lookup returns exactly the run `[|lt|, |lt| + |run|)`, and the empty
    range `(0, 0)` when the run is empty. -/
theorem lookup_returns_the_run (q : Bytes) (lt run gt : List Bytes)
    (hlt : ∀ s ∈ lt, below q s) (hrun : ∀ s ∈ run, at_ q s) (hgt : ∀ s ∈ gt, above q s) :
    getShareRangeForNamespace (lt ++ run ++ gt) q =
      if run = [] then (0, 0) else (lt.length, lt.length + run.length) := by
  generalize hl : lt ++ run ++ gt = l
  have hloop : rangeLoop q l.length l 0 none = if run = [] then (0, 0) else (lt.length, lt.length + run.length) := by
    rw [← hl, List.append_assoc, loop_below q _ lt (run ++ gt) 0 hlt]
    cases run with
    | nil => simp [loop_above_none q _ gt _ hgt]
    | cons r rs =>
      have hr := hrun r (by simp)
      simp only [List.cons_append, rangeLoop, gt_false_of_at hr, Bool.false_and, Bool.false_eq_true, if_false,
        eq_true_of_at hr, Option.isNone_none, Bool.and_self, if_true, reduceCtorEq]
      rw [loop_at q _ _ rs gt _ (fun x hx => hrun x (by simp [hx]))]
      cases gt with
      | nil => simp [rangeLoop]
      | cons g gs =>
        have hg := hgt g (by simp)
        simp [rangeLoop, gt_true_of_above hg]; omega
  by_cases hre : run = []
  · -- no run: whichever way the function leaves, the result is the empty range
    simp only [hre, if_true] at hloop ⊢
    unfold getShareRangeForNamespace
    cases hlc : l with
    | nil => rfl
    | cons s0 rest =>
      simp only
      split
      · rfl
      · split
        · rfl
        · rw [← hlc]; exact hloop
  · -- a non-empty run: neither early exit fires
    simp only [hre, if_false] at hloop ⊢
    obtain ⟨r, rs, hrr⟩ := List.exists_cons_of_ne_nil hre
    unfold getShareRangeForNamespace
    cases hlc : l with
    | nil => rw [hlc] at hl; simp [hrr] at hl
    | cons s0 rest =>
      simp only
      have hfirst : Ns.isLessThan q (Share.ns s0) = false := by
        cases lt with
        | nil =>
          rw [hrr, hlc] at hl; simp at hl
          have : at_ q s0 := hl.1 ▸ hrun r (by simp [hrr])
          have := (cmpBytes_eq_iff q (Share.ns s0)).mpr this.symm
          simp [Ns.isLessThan, Ns.compare, this]
        | cons x xs =>
          rw [hlc] at hl; simp at hl
          have hb : below q s0 := hl.1 ▸ hlt x (by simp)
          unfold below at hb
          have : cmpBytes q (Share.ns s0) = 1 := by rw [cmpBytes_swap, hb]; rfl
          simp [Ns.isLessThan, Ns.compare, this]
      have hlast : Ns.isGreaterThan q (Share.ns ((s0 :: rest).getLast?.getD s0)) = false := by
        rw [← hlc, ← hl]
        obtain ⟨hA, hB⟩ := last_of_decomposition lt run gt s0 hre
        generalize (lt ++ run ++ gt).getLast?.getD s0 = x at hA hB ⊢
        by_cases hg : gt = []
        · have hat : at_ q _ := hrun _ (hB hg)
          have := (cmpBytes_eq_iff q _).mpr hat.symm
          simp [Ns.isGreaterThan, Ns.compare, this]
        · have hab : above q _ := hgt _ (hA hg)
          unfold above at hab
          have : cmpBytes q (Share.ns x) = -1 := by
            rw [cmpBytes_swap, hab]
          simp [Ns.isGreaterThan, Ns.compare, this]
      rw [hfirst, hlast]
      simp only [Bool.false_eq_true, if_false]
      rw [← hlc]; exact hloop

/-- a share list in non-decreasing namespace order -/
def Sorted (l : List Bytes) : Prop := l.Pairwise (fun a b => cmpBytes (Share.ns a) (Share.ns b) ≤ 0)

/-- every namespace-ordered list is (below the query) ++ (the run) ++ (above the query) -/
theorem sorted_decomposition (q : Bytes) : ∀ (l : List Bytes), Sorted l →
    ∃ lt run gt, l = lt ++ run ++ gt ∧ (∀ s ∈ lt, below q s) ∧ (∀ s ∈ run, at_ q s) ∧ (∀ s ∈ gt, above q s)
  | [], _ => ⟨[], [], [], rfl, by simp, by simp, by simp⟩
  | x :: xs, h => by
    have hx : ∀ y ∈ xs, cmpBytes (Share.ns x) (Share.ns y) ≤ 0 := (List.pairwise_cons.mp h).1
    obtain ⟨lt, run, gt, hl, h1, h2, h3⟩ := sorted_decomposition q xs (List.pairwise_cons.mp h).2
    rcases cmpBytes_range (Share.ns x) q with hc | hc | hc
    · exact ⟨x :: lt, run, gt, by simp [hl], by
        intro s hs; rcases List.mem_cons.mp hs with rfl | hs
        · exact hc
        · exact h1 s hs, h2, h3⟩
    · have hxq : Share.ns x = q := (cmpBytes_eq_iff _ _).mp hc
      have hlt : lt = [] := by
        apply List.eq_nil_iff_forall_not_mem.mpr
        intro y hy
        have a := hx y (by rw [hl]; simp [hy])
        have b : cmpBytes (Share.ns y) q = -1 := h1 y hy
        rw [hxq, cmpBytes_swap, b] at a
        omega
      subst hlt
      exact ⟨[], x :: run, gt, by simp [hl], by simp, by
        intro s hs; rcases List.mem_cons.mp hs with rfl | hs
        · exact hxq
        · exact h2 s hs, h3⟩
    · have hlt : lt = [] := by
        apply List.eq_nil_iff_forall_not_mem.mpr
        intro y hy
        have a := hx y (by rw [hl]; simp [hy])
        have b : cmpBytes (Share.ns y) q = -1 := h1 y hy
        have := cmpBytes_le_trans _ _ _ a (by omega : cmpBytes (Share.ns y) q ≤ 0)
        omega
      have hrun : run = [] := by
        apply List.eq_nil_iff_forall_not_mem.mpr
        intro y hy
        have a := hx y (by rw [hl]; simp [hy])
        have b : Share.ns y = q := h2 y hy
        rw [b] at a
        omega
      subst hlt; subst hrun
      exact ⟨[], [], x :: gt, by simp [hl], by simp, by simp, by
        intro s hs; rcases List.mem_cons.mp hs with rfl | hs
        · exact hc
        · exact h3 s hs⟩

/-- where the `i`-th share of `lt ++ run ++ gt` comes from -/
theorem getElem_decomposition (lt run gt : List Bytes) (i : Nat) (hi : i < (lt ++ run ++ gt).length) :
    (i < lt.length ∧ (lt ++ run ++ gt)[i] ∈ lt) ∨
    (lt.length ≤ i ∧ i < lt.length + run.length ∧ (lt ++ run ++ gt)[i] ∈ run) ∨
    (lt.length + run.length ≤ i ∧ (lt ++ run ++ gt)[i] ∈ gt) := by
  rw [List.getElem_append]
  split
  · rename_i h
    rw [List.getElem_append]
    split
    · rename_i h'
      exact Or.inl ⟨h', List.getElem_mem _⟩
    · rename_i h'
      rw [List.length_append] at h
      exact Or.inr (Or.inl ⟨by omega, by omega, List.getElem_mem _⟩)
  · rename_i h
    rw [List.length_append] at h
    exact Or.inr (Or.inr ⟨by omega, List.getElem_mem _⟩)

/-- **C20 (range lookup, on any namespace-ordered list).** The returned range contains exactly the
    indexes of the shares carrying the queried namespace; it is the empty range `(0,0)` when no
    share carries it. -/
theorem lookup_on_sorted (l : List Bytes) (q : Bytes) (h : Sorted l) :
    (∀ i (hi : i < l.length), Share.ns l[i] = q ↔
      (getShareRangeForNamespace l q).1 ≤ i ∧ i < (getShareRangeForNamespace l q).2) ∧
    ((∀ s ∈ l, Share.ns s ≠ q) → getShareRangeForNamespace l q = (0, 0)) := by
  obtain ⟨lt, run, gt, hl, h1, h2, h3⟩ := sorted_decomposition q l h
  have hr := lookup_returns_the_run q lt run gt h1 h2 h3
  rw [← hl] at hr
  have nb : ∀ s, below q s → Share.ns s ≠ q := by
    intro s hb e; unfold below at hb; rw [(cmpBytes_eq_iff _ _).mpr e] at hb; omega
  have na : ∀ s, above q s → Share.ns s ≠ q := by
    intro s hb e; unfold above at hb; rw [(cmpBytes_eq_iff _ _).mpr e] at hb; omega
  constructor
  · intro i hi
    rw [hr]
    subst hl
    have hd := getElem_decomposition lt run gt i hi
    by_cases hre : run = []
    · subst hre
      simp only [if_true]
      constructor
      · intro e
        rcases hd with ⟨_, hm⟩ | ⟨_, hlt0, _⟩ | ⟨_, hm⟩
        · exact absurd e (nb _ (h1 _ hm))
        · simp at hlt0; omega
        · exact absurd e (na _ (h3 _ hm))
      · intro ⟨_, hlt0⟩; omega
    · simp only [hre, if_false]
      rcases hd with ⟨a, hm⟩ | ⟨a, b, hm⟩ | ⟨a, hm⟩
      · constructor
        · intro e; exact absurd e (nb _ (h1 _ hm))
        · intro ⟨c, _⟩; omega
      · constructor
        · intro _; exact ⟨a, b⟩
        · intro _; exact h2 _ hm
      · constructor
        · intro e; exact absurd e (na _ (h3 _ hm))
        · intro ⟨_, c⟩; omega
  · intro hno
    rw [hr]
    have : run = [] := by
      apply List.eq_nil_iff_forall_not_mem.mpr
      intro y hy
      exact hno y (by rw [hl]; simp [hy]) (h2 y hy)
    simp [this]

/-- non-vacuity: a three-namespace list, run of length two in the middle -/
example : getShareRangeForNamespace
    [txNamespace ++ zeros 483, payForBlobNamespace ++ zeros 483, payForBlobNamespace ++ zeros 483, tailPaddingNamespace ++ zeros 483]
    payForBlobNamespace = (1, 3) := by decide

end GoSquare.C20
