import GoSquare.Proofs.Arith
/-! The float bridge of C15: `int(math.Ceil(math.Sqrt(float64(n))))` with a correctly rounded
    binary64 square root equals the exact integer ceiling square root for every `n ≤ 2^52`.
    All arithmetic is over `Nat` on scaled integers; no reals. -/
namespace GoSquare

/-- ⌈√n⌉ -/
def ceilSqrt (n : Nat) : Nat := if Nat.sqrt n * Nat.sqrt n = n then Nat.sqrt n else Nat.sqrt n + 1

/-- uniqueness of the integer square root -/
theorem sqrt_unique {n r : Nat} (h1 : r * r ≤ n) (h2 : n < (r + 1) * (r + 1)) : Nat.sqrt n = r := by
  have a1 := Nat.sqrt_le n
  have a2 := Nat.lt_succ_sqrt n
  have b1 : Nat.sqrt n < r + 1 := Nat.mul_self_lt_mul_self_iff.mp (Nat.lt_of_le_of_lt a1 h2)
  have b2 : r < Nat.sqrt n + 1 := Nat.mul_self_lt_mul_self_iff.mp (Nat.lt_of_le_of_lt h1 a2)
  omega

theorem f64OfNat_exact (n : Nat) (h : n < 2 ^ 53) : f64OfNat n = n := by
  unfold f64OfNat
  by_cases h0 : n = 0
  · simp [h0]
  · have : Nat.log2 n < 53 := (Nat.log2_lt h0).mpr h
    simp only
    rw [if_pos (Or.inr (by omega))]

theorem ceilSqrtF64_exact (x : Nat) (hx1 : 1 ≤ x) (hx : x ≤ 2 ^ 52) : ceilSqrtF64 x = ceilSqrt x := by
  have hx0 : x ≠ 0 := by omega
  unfold ceilSqrtF64 ceilSqrt
  simp only [hx0, if_false]
  generalize hr0 : Nat.sqrt x = r0
  have h1 : r0 * r0 ≤ x := hr0 ▸ Nat.sqrt_le x
  have h2 : x < (r0 + 1) * (r0 + 1) := hr0 ▸ Nat.lt_succ_sqrt x
  have hr0le : r0 ≤ 2 ^ 26 := by
    apply Nat.mul_self_le_mul_self_iff.mp
    calc r0 * r0 ≤ x := h1
      _ ≤ 2 ^ 52 := hx
      _ = 2 ^ 26 * 2 ^ 26 := by decide
  have hr0pos : 1 ≤ r0 := by
    rcases Nat.eq_zero_or_pos r0 with h | h
    · subst h; simp at h2; omega
    · exact h
  have hr0ne : r0 ≠ 0 := by omega
  generalize hb : Nat.log2 r0 + 1 = b
  have hblo : 2 ^ (b - 1) ≤ r0 := by
    have := Nat.log2_self_le hr0ne
    have e : b - 1 = Nat.log2 r0 := by omega
    rw [e]; exact this
  have hbhi : r0 < 2 ^ b := by rw [← hb]; exact Nat.lt_log2_self
  have hb27 : b ≤ 27 := by
    have : 2 ^ (b - 1) < 2 ^ 27 := by
      calc 2 ^ (b - 1) ≤ r0 := hblo
        _ ≤ 2 ^ 26 := hr0le
        _ < 2 ^ 27 := by decide
    have := two_pow_lt_two_pow this
    omega
  generalize hs : 53 - b = s
  have hs26 : 26 ≤ s := by omega
  generalize hP : 2 ^ s = P
  have hPpos : 0 < P := hP ▸ Nat.two_pow_pos s
  have h4 : 4 ^ s = P * P := by
    rw [← hP, ← Nat.mul_pow]
  rw [h4]
  have hP26 : 2 ^ 26 ≤ P := hP ▸ Nat.pow_le_pow_right (by omega) hs26
  generalize hq : Nat.sqrt (x * (P * P)) = q
  have q1 : q * q ≤ x * (P * P) := hq ▸ Nat.sqrt_le _
  have q2 : x * (P * P) < (q + 1) * (q + 1) := hq ▸ Nat.lt_succ_sqrt _
  have sqP : ∀ a : Nat, (a * P) * (a * P) = a * a * (P * P) := by
    intro a; rw [Nat.mul_mul_mul_comm]
  by_cases hsq : r0 * r0 = x
  · -- perfect square: the square root is exact
    simp only [hsq, if_true]
    have hqe : q = r0 * P := by
      rw [← hq]; apply sqrt_unique
      · rw [sqP, hsq]; exact Nat.le_refl _
      · rw [← hsq, ← sqP]
        exact Nat.mul_self_lt_mul_self (by omega)
    have : x * (P * P) - q * q = 0 := by rw [hqe, sqP, hsq]; omega
    rw [this]
    have : ¬ (0 > q) := by omega
    simp only [this, if_false]
    rw [hqe]
    apply Nat.div_eq_of_lt_le
    · omega
    · rw [Nat.add_mul, Nat.one_mul]; omega
  · -- not a perfect square: rounding to nearest cannot return r0
    simp only [hsq, if_false]
    have hlt : r0 * r0 < x := Nat.lt_of_le_of_ne h1 hsq
    have hr0lt : r0 < 2 ^ 26 := by
      rcases Nat.lt_or_ge r0 (2 ^ 26) with h | h
      · exact h
      · have e : r0 = 2 ^ 26 := by omega
        have : r0 * r0 = 2 ^ 52 := by rw [e]
        omega
    have hqlo : r0 * P ≤ q := by
      have : (r0 * P) * (r0 * P) < (q + 1) * (q + 1) := by
        rw [sqP]
        exact Nat.lt_of_le_of_lt (Nat.mul_le_mul_right _ h1) q2
      have := Nat.mul_self_lt_mul_self_iff.mp this
      omega
    have hqhi : q < (r0 + 1) * P := by
      have : q * q < ((r0 + 1) * P) * ((r0 + 1) * P) := by
        rw [sqP]
        exact Nat.lt_of_le_of_lt q1 (Nat.mul_lt_mul_of_lt_of_le h2 (Nat.le_refl _) (Nat.mul_pos hPpos hPpos))
      exact Nat.mul_self_lt_mul_self_iff.mp this
    -- the rounded significand r
    generalize hr : (if x * (P * P) - q * q > q then q + 1 else q) = r
    have hrlo : r0 * P < r := by
      rcases Nat.lt_or_ge (r0 * P) q with h | h
      · rw [← hr]; split <;> omega
      · have hqe : q = r0 * P := by omega
        have : x * (P * P) - q * q > q := by
          rw [hqe, sqP]
          have : (r0 * r0 + 1) * (P * P) ≤ x * (P * P) := Nat.mul_le_mul_right _ hlt
          rw [Nat.add_mul, Nat.one_mul] at this
          have hPP : r0 * P < P * P := Nat.mul_lt_mul_of_lt_of_le (by omega) (Nat.le_refl _) hPpos
          omega
        rw [← hr, if_pos this]; omega
    have hrhi : r ≤ (r0 + 1) * P := by
      rw [← hr]; split <;> omega
    apply Nat.div_eq_of_lt_le
    · rw [Nat.add_mul, Nat.one_mul]; omega
    · rw [Nat.add_mul, Nat.add_mul, Nat.one_mul] at *; omega

end GoSquare
