import GoSquare.Proofs.ExportKept
import GoSquare.Proofs.CompactParse
import GoSquare.Proofs.Namespace
/-! C03: the exported square `squareOf` is well formed: `ss * ss` shares of 512 bytes each, in
    non-decreasing namespace order (transaction shares, pay-for-blob shares, reserved padding,
    blobs with their namespace padding, tail padding). -/
namespace GoSquare
open Builder Spec

/-- a user (blob) namespace lies strictly between the primary reserved padding namespace and the tail padding namespace -/
def UserNs (ns : Bytes) : Prop :=
  cmpBytes primaryReservedPaddingNamespace ns < 0 ∧ cmpBytes ns tailPaddingNamespace < 0

/-- the order on namespaces computed by `bytes.Compare` -/
abbrev NsLe (a b : Bytes) : Prop := cmpBytes a b ≤ 0

theorem nsLe_refl (a : Bytes) : NsLe a a := by
  have := (cmpBytes_eq_iff a a).mpr rfl
  unfold NsLe; omega

theorem nsLe_trans {a b c : Bytes} (h1 : NsLe a b) (h2 : NsLe b c) : NsLe a c :=
  cmpBytes_le_trans a b c h1 h2

theorem nsLe_total (a b : Bytes) : NsLe a b ∨ NsLe b a := by
  have h1 := cmpBytes_swap a b
  have h2 := cmpBytes_range a b
  unfold NsLe
  omega

/-- a list all of whose entries are the same value is sorted -/
theorem pairwise_const {l : List Bytes} (x : Bytes) (h : ∀ a ∈ l, a = x) : l.Pairwise NsLe := by
  induction l with
  | nil => exact List.Pairwise.nil
  | cons a l ih =>
    refine List.Pairwise.cons ?_ (ih (fun b hb => h b (by simp [hb])))
    intro b hb
    rw [h a (by simp), h b (by simp [hb])]
    exact nsLe_refl x

/-- every share of a specified compact sequence has 512 bytes and carries the sequence's namespace -/
theorem compactSeq_shares (ns : Bytes) (hc : CompactNs ns) (units : List Bytes) :
    ∀ s ∈ compactSeq ns units, s.length = 512 ∧ Share.ns s = ns := by
  intro s hs
  rw [compactSeq_eq] at hs
  obtain ⟨j, _, rfl⟩ := List.mem_map.mp hs
  by_cases hj : j = 0
  · subst hj
    rw [specShare_form0 ns _ _ hc.len]
    refine ⟨?_, ns_of_cons _ _ _ hc.len⟩
    simp [hc.len, compactPayload_length, compactCap]
  · rw [specShare_formJ ns _ _ j hj hc.len]
    refine ⟨?_, ns_of_cons _ _ _ hc.len⟩
    simp [hc.len, compactPayload_length, compactCap, hj]

theorem paddingShare_wf (ns : Bytes) (ver : Nat) (hns : ns.length = 29) :
    (paddingShare ns ver).length = 512 ∧ Share.ns (paddingShare ns ver) = ns := by
  constructor
  · simp [paddingShare, fill, hns]
  · simp [paddingShare, Share.ns, fill, List.append_assoc, hns]

theorem compactNs_tx : CompactNs txNamespace := ⟨by decide, by decide⟩
theorem compactNs_pfb : CompactNs payForBlobNamespace := ⟨by decide, by decide⟩

/-! ### the blob region -/

theorem region_cons (thr cur : Nat) (prev : Option Blob) (e : Element) (es : List Element) :
    region thr cur prev (e :: es) =
      (match prev with
        | some p => List.replicate (nextShareIndex cur e.numShares thr - cur) (paddingShare p.ns p.ver)
        | none => []) ++
      sparseSeq e.blob ++ region thr (nextShareIndex cur e.numShares thr + e.numShares) (some e.blob) es := rfl

/-- every share of the blob region has 512 bytes, and its namespace is that of the preceding blob
    or of one of the region's blobs -/
theorem region_shares (thr : Nat) : ∀ (es : List Element) (cur : Nat) (prev : Option Blob),
    (∀ e ∈ es, e.blob.Valid) → (∀ p, prev = some p → p.ns.length = 29) →
    ∀ s ∈ region thr cur prev es, s.length = 512 ∧
      ((∃ p, prev = some p ∧ Share.ns s = p.ns) ∨ ∃ e ∈ es, Share.ns s = e.blob.ns)
  | [], _, _, _, _, s, hs => by simp [region] at hs
  | e :: es, cur, prev, hv, hp, s, hs => by
    have hev : e.blob.Valid := hv e (by simp)
    rw [region_cons] at hs
    rcases List.mem_append.mp hs with hs | hs
    · rcases List.mem_append.mp hs with hs | hs
      · cases prev with
        | none => simp at hs
        | some p =>
          simp only at hs
          have := (List.mem_replicate.mp hs).2
          subst this
          have hw := paddingShare_wf p.ns p.ver (hp p rfl)
          exact ⟨hw.1, Or.inl ⟨p, rfl, hw.2⟩⟩
      · have hw := sparseSeq_shares e.blob hev s hs
        exact ⟨hw.1, Or.inr ⟨e, by simp, hw.2⟩⟩
    · have ih := region_shares thr es _ (some e.blob) (fun x hx => hv x (by simp [hx]))
        (fun p hpe => by cases hpe; exact hev.nsLen) s hs
      refine ⟨ih.1, Or.inr ?_⟩
      rcases ih.2 with ⟨p, hpe, hns⟩ | ⟨x, hx, hns⟩
      · cases hpe; exact ⟨e, by simp, hns⟩
      · exact ⟨x, by simp [hx], hns⟩

/-- the namespaces of the blob region are sorted, when the blobs are -/
theorem region_ns_sorted (thr : Nat) : ∀ (es : List Element) (cur : Nat) (prev : Option Blob),
    (∀ e ∈ es, e.blob.Valid) → (∀ p, prev = some p → p.ns.length = 29) →
    (es.map (·.blob.ns)).Pairwise NsLe →
    (∀ p, prev = some p → ∀ e ∈ es, NsLe p.ns e.blob.ns) →
    ((region thr cur prev es).map Share.ns).Pairwise NsLe
  | [], _, _, _, _, _, _ => by simp [region]
  | e :: es, cur, prev, hv, hp, hsort, hle => by
    have hev : e.blob.Valid := hv e (by simp)
    have hves : ∀ x ∈ es, x.blob.Valid := fun x hx => hv x (by simp [hx])
    rw [List.map_cons, List.pairwise_cons] at hsort
    obtain ⟨hhead, htail⟩ := hsort
    have hhead' : ∀ x ∈ es, NsLe e.blob.ns x.blob.ns := fun x hx =>
      hhead _ (List.mem_map.mpr ⟨x, hx, rfl⟩)
    have hpe : ∀ p, some e.blob = some p → p.ns.length = 29 := fun p h => by cases h; exact hev.nsLen
    have ih := region_ns_sorted thr es (nextShareIndex cur e.numShares thr + e.numShares) (some e.blob)
      hves hpe htail (fun p h x hx => by cases h; exact hhead' x hx)
    -- namespaces in the recursive part are ≥ the blob's
    have hrest : ∀ b ∈ (region thr (nextShareIndex cur e.numShares thr + e.numShares) (some e.blob) es).map Share.ns,
        NsLe e.blob.ns b := by
      intro b hb
      obtain ⟨s, hs, rfl⟩ := List.mem_map.mp hb
      rcases (region_shares thr es _ (some e.blob) hves hpe s hs).2 with ⟨p, h, hns⟩ | ⟨x, hx, hns⟩
      · cases h; rw [hns]; exact nsLe_refl _
      · rw [hns]; exact hhead' x hx
    have hblob : ∀ b ∈ (sparseSeq e.blob).map Share.ns, b = e.blob.ns := by
      intro b hb
      obtain ⟨s, hs, rfl⟩ := List.mem_map.mp hb
      exact (sparseSeq_shares e.blob hev s hs).2
    rw [region_cons, List.map_append, List.map_append, List.pairwise_append, List.pairwise_append]
    refine ⟨⟨?_, pairwise_const _ hblob, ?_⟩, ih, ?_⟩
    · cases prev with
      | none => simp
      | some p =>
        apply pairwise_const p.ns
        intro b hb
        obtain ⟨s, hs, rfl⟩ := List.mem_map.mp hb
        have := (List.mem_replicate.mp hs).2
        subst this
        exact (paddingShare_wf p.ns p.ver (hp p rfl)).2
    · intro a ha b hb
      rw [hblob b hb]
      cases prev with
      | none => simp at ha
      | some p =>
        obtain ⟨s, hs, rfl⟩ := List.mem_map.mp ha
        have := (List.mem_replicate.mp hs).2
        subst this
        rw [(paddingShare_wf p.ns p.ver (hp p rfl)).2]
        exact hle p rfl e (by simp)
    · intro a ha b hb
      have hb' := hrest b hb
      rcases List.mem_append.mp ha with ha | ha
      · cases prev with
        | none => simp at ha
        | some p =>
          obtain ⟨s, hs, rfl⟩ := List.mem_map.mp ha
          have := (List.mem_replicate.mp hs).2
          subst this
          rw [(paddingShare_wf p.ns p.ver (hp p rfl)).2]
          exact nsLe_trans (hle p rfl e (by simp)) hb'
      · rw [hblob a ha]; exact hb'

/-! ### the sorted blobs -/

theorem sortedElems_mem (thr : Nat) (B : List BlobTx) (e : Element) (he : e ∈ sortedElems thr B) :
    ∃ t ∈ B, e.blob ∈ t.blobs := by
  unfold sortedElems at he
  rw [List.mem_mergeSort] at he
  obtain ⟨t, ht, bl, hbl, p, j, rfl⟩ := mem_allElements thr B e he
  exact ⟨t, ht, hbl⟩

theorem sortedElems_ns_sorted (thr : Nat) (B : List BlobTx) :
    ((sortedElems thr B).map (·.blob.ns)).Pairwise NsLe := by
  rw [List.pairwise_map]
  have h := List.pairwise_mergeSort (le := elemLe)
    (fun a b c h1 h2 => by
      simp only [elemLe, decide_eq_true_eq] at h1 h2 ⊢
      exact cmpBytes_le_trans _ _ _ h1 h2)
    (fun a b => by
      simp only [elemLe, Bool.or_eq_true, decide_eq_true_eq]
      exact nsLe_total _ _)
    (allElements thr B)
  unfold sortedElems
  refine h.imp ?_
  intro a b hab
  simpa [elemLe] using hab

/-! ### C03 -/

/-- (C03) every share of the square has exactly 512 bytes -/
theorem squareOf_shares_512 (thr : Nat) (N : List Bytes) (B : List BlobTx) (ss : Nat)
    (hv : ∀ t ∈ B, ∀ bl ∈ t.blobs, bl.BlobValid) :
    ∀ s ∈ squareOf thr N B ss, s.length = 512 := by
  intro s hs
  have hves : ∀ e ∈ sortedElems thr B, e.blob.Valid := by
    intro e he
    obtain ⟨t, ht, hbl⟩ := sortedElems_mem thr B e he
    exact (hv t ht _ hbl).valid
  simp only [squareOf, List.mem_append, List.mem_replicate] at hs
  rcases hs with (((hs | hs) | hs) | hs) | hs
  · exact (compactSeq_shares _ compactNs_tx _ s hs).1
  · exact (compactSeq_shares _ compactNs_pfb _ s hs).1
  · rw [hs.2]; exact (paddingShare_wf _ 0 (by decide)).1
  · exact (region_shares thr _ _ none hves (fun p h => by cases h) s hs).1
  · rw [hs.2]; exact (paddingShare_wf _ 0 (by decide)).1

/-- (C03) the shares are in non-decreasing namespace order -/
theorem squareOf_ns_sorted (thr : Nat) (N : List Bytes) (B : List BlobTx) (ss : Nat)
    (hv : ∀ t ∈ B, ∀ bl ∈ t.blobs, bl.BlobValid) (hu : ∀ t ∈ B, ∀ bl ∈ t.blobs, UserNs bl.ns) :
    ((squareOf thr N B ss).map Share.ns).Pairwise (fun a b => cmpBytes a b ≤ 0) := by
  show ((squareOf thr N B ss).map Share.ns).Pairwise NsLe
  have hves : ∀ e ∈ sortedElems thr B, e.blob.Valid := by
    intro e he
    obtain ⟨t, ht, hbl⟩ := sortedElems_mem thr B e he
    exact (hv t ht _ hbl).valid
  have hues : ∀ e ∈ sortedElems thr B, UserNs e.blob.ns := by
    intro e he
    obtain ⟨t, ht, hbl⟩ := sortedElems_mem thr B e he
    exact hu t ht _ hbl
  -- the five parts
  have htx : ∀ a ∈ (compactSeq txNamespace N).map Share.ns, a = txNamespace := by
    intro a ha
    obtain ⟨s, hs, rfl⟩ := List.mem_map.mp ha
    exact (compactSeq_shares _ compactNs_tx _ s hs).2
  have hpfb : ∀ a ∈ (compactSeq payForBlobNamespace ((patched thr N B).map (·.marshal))).map Share.ns,
      a = payForBlobNamespace := by
    intro a ha
    obtain ⟨s, hs, rfl⟩ := List.mem_map.mp ha
    exact (compactSeq_shares _ compactNs_pfb _ s hs).2
  have hpad : ∀ k, ∀ a ∈ (List.replicate k (paddingShare primaryReservedPaddingNamespace 0)).map Share.ns,
      a = primaryReservedPaddingNamespace := by
    intro k a ha
    obtain ⟨s, hs, rfl⟩ := List.mem_map.mp ha
    rw [(List.mem_replicate.mp hs).2]
    exact (paddingShare_wf _ 0 (by decide)).2
  have htail : ∀ k, ∀ a ∈ (List.replicate k (paddingShare tailPaddingNamespace 0)).map Share.ns,
      a = tailPaddingNamespace := by
    intro k a ha
    obtain ⟨s, hs, rfl⟩ := List.mem_map.mp ha
    rw [(List.mem_replicate.mp hs).2]
    exact (paddingShare_wf _ 0 (by decide)).2
  have hreg : ∀ a ∈ (region thr (startOf N B) none (sortedElems thr B)).map Share.ns, UserNs a := by
    intro a ha
    obtain ⟨s, hs, rfl⟩ := List.mem_map.mp ha
    rcases (region_shares thr _ _ none hves (fun p h => by cases h) s hs).2 with ⟨p, h, _⟩ | ⟨e, he, hns⟩
    · cases h
    · rw [hns]; exact hues e he
  have hregS := region_ns_sorted thr (sortedElems thr B) (startOf N B) none hves (fun p h => by cases h)
    (sortedElems_ns_sorted thr B) (fun p h => by cases h)
  -- order of the constants
  have c1 : NsLe txNamespace payForBlobNamespace := by decide
  have c2 : NsLe payForBlobNamespace primaryReservedPaddingNamespace := by decide
  have c3 : NsLe primaryReservedPaddingNamespace tailPaddingNamespace := by decide
  have hlo : ∀ a, UserNs a → NsLe primaryReservedPaddingNamespace a := fun a h => by
    have := h.1; unfold NsLe; omega
  have hhi : ∀ a, UserNs a → NsLe a tailPaddingNamespace := fun a h => by
    have := h.2; unfold NsLe; omega
  simp only [squareOf, List.map_append]
  rw [List.pairwise_append, List.pairwise_append, List.pairwise_append, List.pairwise_append]
  refine ⟨⟨⟨⟨pairwise_const _ htx, pairwise_const _ hpfb, ?_⟩, pairwise_const _ (hpad _), ?_⟩, hregS, ?_⟩,
    pairwise_const _ (htail _), ?_⟩
  · intro a ha b hb
    rw [htx a ha, hpfb b hb]; exact c1
  · intro a ha b hb
    rw [hpad _ b hb]
    rcases List.mem_append.mp ha with ha | ha
    · rw [htx a ha]; exact nsLe_trans c1 c2
    · rw [hpfb a ha]; exact c2
  · intro a ha b hb
    have hb' := hlo b (hreg b hb)
    rcases List.mem_append.mp ha with ha | ha
    · rcases List.mem_append.mp ha with ha | ha
      · rw [htx a ha]; exact nsLe_trans (nsLe_trans c1 c2) hb'
      · rw [hpfb a ha]; exact nsLe_trans c2 hb'
    · rw [hpad _ a ha]; exact hb'
  · intro a ha b hb
    rw [htail _ b hb]
    rcases List.mem_append.mp ha with ha | ha
    · rcases List.mem_append.mp ha with ha | ha
      · rcases List.mem_append.mp ha with ha | ha
        · rw [htx a ha]; exact nsLe_trans (nsLe_trans c1 c2) c3
        · rw [hpfb a ha]; exact nsLe_trans c2 c3
      · rw [hpad _ a ha]; exact c3
    · exact hhi a (hreg a ha)

/-- (C03) exactly ss*ss shares, given the two inequalities `Export` checks -/
theorem squareOf_length (thr : Nat) (N : List Bytes) (B : List BlobTx) (ss : Nat)
    (h1 : (compactSeq txNamespace N).length +
        (compactSeq payForBlobNamespace ((patched thr N B).map (·.marshal))).length ≤
        firstIdx thr (startOf N B) (sortedElems thr B))
    (h2 : firstIdx thr (startOf N B) (sortedElems thr B) +
        (region thr (startOf N B) none (sortedElems thr B)).length ≤ ss * ss) :
    (squareOf thr N B ss).length = ss * ss := by
  simp only [squareOf, List.length_append, List.length_replicate]
  omega

end GoSquare
