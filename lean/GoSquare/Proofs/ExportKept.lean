import GoSquare.Proofs.Export
/-! `Export` of a builder that has kept `N` and `B`: the square as a closed-form function of the
    kept transactions. -/
namespace GoSquare
open Builder Spec

/-- the wrapped PFBs with placeholder indexes, as the builder holds them before `Export` -/
def worstWrappers (B : List BlobTx) : List Proto.IndexWrapper :=
  B.map (fun t => newIndexWrapper t.tx (worstCaseShareIndexes t.blobs.length))

def txShareCount (N : List Bytes) : Nat := sizeOf ((N.map (fun t => unitBytes t.length)).sum)
def pfbShareCount (B : List BlobTx) : Nat := sizeOf ((B.map (fun t => unitBytes (worstLen t))).sum)

/-- the blobs in write order: stably sorted by namespace -/
def sortedElems (thr : Nat) (B : List BlobTx) : List Element := (allElements thr B).mergeSort elemLe

/-- the cursor at which blob placement starts: worst-case tx + pfb share counts -/
def startOf (N : List Bytes) (B : List BlobTx) : Nat := txShareCount N + pfbShareCount B

/-- the wrapped PFBs with the recorded start indexes -/
def patched (thr : Nat) (N : List Bytes) (B : List BlobTx) : List Proto.IndexWrapper :=
  patchAll thr (startOf N B) (sortedElems thr B) (worstWrappers B)

/-- **the square, as a function of the kept transactions** -/
def squareOf (thr : Nat) (N : List Bytes) (B : List BlobTx) (ss : Nat) : List Bytes :=
  let txS := compactSeq txNamespace N
  let pfbS := compactSeq payForBlobNamespace ((patched thr N B).map (·.marshal))
  let first := firstIdx thr (startOf N B) (sortedElems thr B)
  let reg := region thr (startOf N B) none (sortedElems thr B)
  txS ++ pfbS ++ List.replicate (first - (txS.length + pfbS.length)) (paddingShare primaryReservedPaddingNamespace 0) ++
    reg ++ List.replicate (ss * ss - (first + reg.length)) (paddingShare tailPaddingNamespace 0)

theorem unitStream_length' (us : List Bytes) :
    (unitStream us).length = (us.map (fun t => unitBytes t.length)).sum := by
  induction us with
  | nil => rfl
  | cons u us ih =>
    simp only [unitStream, List.map_cons, List.flatten_cons, List.length_append, List.sum_cons, uvarint_length] at ih ⊢
    rw [ih]; unfold unitBytes; omega

theorem txShareCount_eq (N : List Bytes) : txShareCount N = (compactSeq txNamespace N).length := by
  rw [compactSeq_length, unitStream_length', ← sizeOf_eq_compactSharesNeeded]; rfl

theorem pfbShareCount_eq (B : List BlobTx) :
    pfbShareCount B = (compactSeq payForBlobNamespace ((worstWrappers B).map (·.marshal))).length := by
  rw [compactSeq_length, unitStream_length', ← sizeOf_eq_compactSharesNeeded]
  unfold pfbShareCount worstWrappers
  rw [List.map_map, List.map_map]
  rfl

theorem mem_allElements (thr : Nat) (B : List BlobTx) (e : Element) (he : e ∈ allElements thr B) :
    ∃ t ∈ B, ∃ bl ∈ t.blobs, ∃ p j, e = newElement bl p j thr := by
  unfold allElements at he
  rw [List.mem_flatten] at he
  obtain ⟨l, hl, hel⟩ := he
  rw [List.mem_mapIdx] at hl
  obtain ⟨p, hp, rfl⟩ := hl
  unfold elementsOf at hel
  rw [List.mem_mapIdx] at hel
  obtain ⟨j, hj, rfl⟩ := hel
  exact ⟨B[p], List.getElem_mem hp, B[p].blobs[j], List.getElem_mem hj, p, j, rfl⟩

theorem eok_newElement (bl : Blob) (hv : bl.BlobValid) (p j thr : Nat) : EOK (newElement bl p j thr) := by
  refine ⟨hv, ?_⟩
  have hu : u32 bl.data.length = bl.data.length := Nat.mod_eq_of_lt hv.valid.dataLt
  simp only [newElement, hu]
  exact (sparseSeq_length bl hv.valid).symm

/-- **`Export` of a builder that has kept `N` and `B`.** -/
theorem export_kept (b : Builder) (N : List Bytes) (B : List BlobTx) (hk : Kept b N B)
    (hv : ∀ t ∈ B, ∀ bl ∈ t.blobs, bl.BlobValid)
    (hsz : 478 * (b.maxSquareSize * b.maxSquareSize) < 4294967296)
    (b' : Builder) (sq : List Bytes) (h : b.exportSquare = .ok (b', sq)) :
    (N = [] ∧ B = [] ∧ sq = [paddingShare tailPaddingNamespace 0] ∧ b' = b) ∨
    (¬ (N = [] ∧ B = []) ∧
      let ss := blobMinSquareSize (closedEstimate b.thr N B)
      sq = squareOf b.thr N B ss ∧
      b'.blobs = sortedElems b.thr B ∧ b'.pfbs = patched b.thr N B ∧ b'.txs = N ∧ b'.done = true ∧
      (compactSeq txNamespace N).length +
        (compactSeq payForBlobNamespace ((patched b.thr N B).map (·.marshal))).length ≤
        firstIdx b.thr (startOf N B) (sortedElems b.thr B) ∧
      firstIdx b.thr (startOf N B) (sortedElems b.thr B) +
        (region b.thr (startOf N B) none (sortedElems b.thr B)).length ≤ ss * ss ∧
      (compactSeq payForBlobNamespace ((patched b.thr N B).map (·.marshal))).length ≤ pfbShareCount B) := by
  have hs1 : b.txCounter.size = txShareCount N := Counter.size_of_at hk.txC
  have hs2 : b.pfbCounter.size = pfbShareCount B := Counter.size_of_at hk.pfbC
  have hfit := hk.fit
  have hle1 : txShareCount N ≤ closedEstimate b.thr N B := by unfold closedEstimate txShareCount; omega
  have hle2 : pfbShareCount B ≤ closedEstimate b.thr N B := by unfold closedEstimate pfbShareCount; omega
  have e1 : txShareCount N = 0 ↔ N = [] := by
    unfold txShareCount
    constructor
    · intro hz
      have : (N.map (fun t => unitBytes t.length)).sum = 0 := by
        unfold sizeOf posOf at hz; split at hz <;> split at hz <;> simp_all <;> omega
      cases N with
      | nil => rfl
      | cons u us =>
        simp only [List.map_cons, List.sum_cons] at this
        have := uvarintLen_pos u.length
        unfold unitBytes at *; omega
    · intro hN; subst hN; simp [sizeOf, posOf]
  have e2 : pfbShareCount B = 0 ↔ B = [] := by
    unfold pfbShareCount
    constructor
    · intro hz
      have : (B.map (fun t => unitBytes (worstLen t))).sum = 0 := by
        unfold sizeOf posOf at hz; split at hz <;> split at hz <;> simp_all <;> omega
      cases B with
      | nil => rfl
      | cons u us =>
        simp only [List.map_cons, List.sum_cons] at this
        have := uvarintLen_pos (worstLen u)
        unfold unitBytes at *; omega
    · intro hB; subst hB; simp [sizeOf, posOf]
  unfold Builder.exportSquare at h
  obtain ⟨⟨upd, sq'⟩, hcore, hrest⟩ := res_bind_ok' h
  rw [hs1, hs2, hk.txs, hk.pfbs, hk.blobs, hk.size] at hcore
  by_cases hemp : N = [] ∧ B = []
  · left
    obtain ⟨rfl, rfl⟩ := hemp
    unfold exportCore at hcore
    have z1 : txShareCount [] = 0 := e1.mpr rfl
    have z2 : pfbShareCount [] = 0 := e2.mpr rfl
    simp only [z1, z2, beq_self_eq_true, Bool.and_self, if_true] at hcore
    obtain ⟨s, hs, hr⟩ := res_bind_ok' hcore
    simp only [Except.ok.injEq, Prod.mk.injEq] at hr
    obtain ⟨rfl, rfl⟩ := hr
    simp only [Except.ok.injEq, Prod.mk.injEq] at hrest
    obtain ⟨rfl, rfl⟩ := hrest
    refine ⟨rfl, rfl, ?_, rfl⟩
    have := (C10.reserved_and_tail_padding 1).2
    unfold emptySquare at hs
    rw [this] at hs
    simp only [Except.mapError, Except.ok.injEq] at hs
    rw [← hs]; rfl
  · right
    refine ⟨hemp, ?_⟩
    have hne : ¬ (txShareCount N = 0 ∧ pfbShareCount B = 0) := fun hc => hemp ⟨e1.mp hc.1, e2.mp hc.2⟩
    have hok : ∀ e ∈ allElements b.thr B, EOK e := by
      intro e he
      obtain ⟨t, ht, bl, hbl, p, j, rfl⟩ := mem_allElements b.thr B e he
      exact eok_newElement bl (hv t ht bl hbl) p j b.thr
    obtain ⟨r1, r2, r3, r4, r5⟩ := exportCore_layout b.thr _ N _ (allElements b.thr B) (txShareCount N) (pfbShareCount B)
      upd sq' hne hok (txShareCount_eq N) (fun _ => pfbShareCount_eq B) (by omega) (by omega) hcore
    subst r1
    simp only [Except.ok.injEq, Prod.mk.injEq] at hrest
    obtain ⟨rfl, rfl⟩ := hrest
    simp only [Int.toNat_natCast] at r2 r4
    exact ⟨r2, rfl, rfl, hk.txs, rfl, r3, r4, r5⟩

end GoSquare
