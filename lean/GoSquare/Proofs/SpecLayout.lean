import GoSquare.Proofs.C07Core
import GoSquare.Proofs.StableSort
import GoSquare.Proofs.BuildSquare
import GoSquare.Proofs.C04Core
/-! # C07 — `Build` and `Construct` are the specified layout function, byte for byte

`build_square` / `construct_square` show that whatever the transliterated builder returns is the
closed form `squareOf` (derived from the structure of the code). `Spec.layout` is an independent
specification written from the layout rules. This file proves that the two coincide:

* `place_snd`, `place_fst`: `Spec.place` computes the builder's start indexes (`placeIdx`);
* `blobRegion_eq`: `Spec.blobRegion` is the builder's blob `region`;
* `pfbs_eq`: the wrapped PFBs the specification builds by looking indexes up by coordinates are
  the builder's in-place patched wrappers;
* `layout_eq_squareOf`: `Spec.layout = some (squareOf …)`;
* `build_eq_spec`, `construct_eq_spec`: the deliverables. -/
namespace GoSquare.SpecLayout
open GoSquare Builder Spec

/-! ### (a) `Spec.place` computes the builder's start indexes -/

/-- `Spec.alignUp` (⌈c / w⌉ · w) is `roundUpByMultipleOf` -/
theorem alignUp_eq (c w : Nat) (hw : 0 < w) : Spec.alignUp c w = roundUpByMultipleOf c w := by
  unfold Spec.alignUp Spec.ceilDiv roundUpByMultipleOf
  have hdm := Nat.div_add_mod c w
  have hlt := Nat.mod_lt c hw
  generalize c / w = q at hdm ⊢
  generalize hr : c % w = r at hdm hlt ⊢
  subst hdm
  by_cases h : r = 0
  · simp only [h, if_true]
    have e : w * q + 0 + w - 1 = w * q + (w - 1) := by omega
    have e2 : (w - 1) / w = 0 := Nat.div_eq_of_lt (by omega)
    rw [e, Nat.mul_add_div hw, e2, Nat.add_zero, Nat.add_zero, Nat.mul_comm]
  · simp only [h, if_false]
    have e : w * q + r + w - 1 = w * (q + 1) + (r - 1) := by
      rw [Nat.mul_add, Nat.mul_one]; omega
    have e2 : (r - 1) / w = 0 := Nat.div_eq_of_lt (by omega)
    rw [e, Nat.mul_add_div hw, e2]

theorem C07_toB_eq : C07.toB = StableSort.toB := rfl

/-- the share count of the builder's element is the specification's share count -/
theorem numShares_toElem (thr : Nat) (x : Spec.PBlob) (h : C07.BlobOK x.blob) :
    (StableSort.toElem thr x).numShares = Spec.blobShares x.blob :=
  (C07.blobShares_eq x.blob h).symm

theorem blob_toElem (thr : Nat) (x : Spec.PBlob) : (StableSort.toElem thr x).blob = x.blob := rfl

/-- the specification's aligned index is `NextShareIndex` -/
theorem aligned_eq (thr : Nat) (ht : 1 ≤ thr) (cur : Nat) (x : Spec.PBlob) (h : C07.BlobOK x.blob) :
    Spec.alignUp cur (Spec.subTreeWidth (Spec.blobShares x.blob) thr) =
      nextShareIndex cur (StableSort.toElem thr x).numShares thr := by
  obtain ⟨h1, h2⟩ := C07.blobShares_bounds x.blob h
  rw [C07.subTreeWidth_eq _ thr h1 h2 ht, numShares_toElem thr x h,
    alignUp_eq _ _ (subTreeWidth_pos' _ _)]
  rfl

/-- the blobs `Spec.place` returns are its input, in order -/
theorem place_fst (thr : Nat) : ∀ (l : List Spec.PBlob) (cur : Nat),
    (Spec.place thr cur l).map (·.1) = l
  | [], _ => rfl
  | x :: l, cur => by
    simp only [Spec.place, List.map_cons, place_fst thr l]

/-- **(a)** the indexes `Spec.place` returns are the builder's start indexes -/
theorem place_snd (thr : Nat) (ht : 1 ≤ thr) : ∀ (l : List Spec.PBlob) (cur : Nat),
    (∀ x ∈ l, C07.BlobOK x.blob) →
    (Spec.place thr cur l).map (·.2) = placeIdx thr cur (l.map (StableSort.toElem thr))
  | [], _, _ => rfl
  | x :: l, cur, hok => by
    have hx := hok x (by simp)
    simp only [Spec.place, List.map_cons, placeIdx]
    rw [aligned_eq thr ht cur x hx, ← numShares_toElem thr x hx,
      place_snd thr ht l _ (fun y hy => hok y (by simp [hy]))]

theorem place_length (thr : Nat) (l : List Spec.PBlob) (cur : Nat) :
    (Spec.place thr cur l).length = l.length := by
  have := congrArg List.length (place_fst thr l cur)
  simpa using this

/-! ### (b) `Spec.blobRegion` is the builder's blob region -/

/-- **(b)**, general form: with a preceding blob both pad from the same cursor; without one the
    specification's cursor argument is irrelevant -/
theorem blobRegion_eq' (thr : Nat) (ht : 1 ≤ thr) : ∀ (l : List Spec.PBlob) (cur c' : Nat) (prev : Option Blob),
    (∀ x ∈ l, C07.BlobOK x.blob) → (prev ≠ none → c' = cur) →
    Spec.blobRegion c' prev (Spec.place thr cur l) = region thr cur prev (l.map (StableSort.toElem thr))
  | [], _, _, _, _, _ => rfl
  | x :: l, cur, c', prev, hok, hc => by
    have hx := hok x (by simp)
    simp only [Spec.place, Spec.blobRegion, List.map_cons, region]
    rw [aligned_eq thr ht cur x hx, ← numShares_toElem thr x hx,
      blobRegion_eq' thr ht l _ _ (some x.blob) (fun y hy => hok y (by simp [hy])) (fun _ => rfl)]
    cases prev with
    | none => rfl
    | some p => rw [hc (by simp)]; rfl

/-- **(b)** -/
theorem blobRegion_eq (thr : Nat) (ht : 1 ≤ thr) (l : List Spec.PBlob) (cur c' : Nat)
    (hok : ∀ x ∈ l, C07.BlobOK x.blob) :
    Spec.blobRegion c' none (Spec.place thr cur l) = region thr cur none (l.map (StableSort.toElem thr)) :=
  blobRegion_eq' thr ht l cur c' none hok (fun h => absurd rfl h)

/-- where the specification starts the blob region is where the builder does -/
theorem firstBlob_eq (thr : Nat) (ht : 1 ≤ thr) (l : List Spec.PBlob) (cur : Nat)
    (hok : ∀ x ∈ l, C07.BlobOK x.blob) :
    (match (Spec.place thr cur l).head? with
      | some e => e.2
      | none => cur) = firstIdx thr cur (l.map (StableSort.toElem thr)) := by
  cases l with
  | nil => rfl
  | cons x l =>
    simp only [Spec.place, List.head?_cons, List.map_cons, firstIdx]
    exact aligned_eq thr ht cur x (hok x (by simp))

/-! ### (c) the wrapped PFBs -/

/-- the specification's index lookup by coordinates -/
def idxOf (placed : List (Spec.PBlob × Nat)) (i j : Nat) : Nat :=
  match placed.find? (fun e => e.1.txPos == i && e.1.blobPos == j) with
  | some e => e.2
  | none => 0

/-- with pairwise distinct coordinates, the lookup returns the index of the (unique) entry with
    those coordinates -/
theorem idxOf_eq : ∀ (placed : List (Spec.PBlob × Nat)) (k : Nat) (y : Spec.PBlob × Nat) (i j : Nat),
    (placed.map (·.1)).Pairwise (fun a b => ¬ (a.txPos = b.txPos ∧ a.blobPos = b.blobPos)) →
    placed[k]? = some y → y.1.txPos = i → y.1.blobPos = j → idxOf placed i j = y.2
  | [], k, y, i, j, _, h, _, _ => by simp at h
  | z :: rest, 0, y, i, j, _, h, hi, hj => by
    simp only [List.getElem?_cons_zero, Option.some.injEq] at h
    subst h
    simp [idxOf, hi, hj]
  | z :: rest, k + 1, y, i, j, hpw, h, hi, hj => by
    simp only [List.getElem?_cons_succ] at h
    simp only [List.map_cons, List.pairwise_cons] at hpw
    have hz : ¬ (z.1.txPos = y.1.txPos ∧ z.1.blobPos = y.1.blobPos) :=
      hpw.1 y.1 (List.mem_map.mpr ⟨y, List.mem_of_getElem? h, rfl⟩)
    have ih := idxOf_eq rest k y i j hpw.2 h hi hj
    have hf : (z.1.txPos == i && z.1.blobPos == j) = false := by
      cases hc : (z.1.txPos == i && z.1.blobPos == j) with
      | false => rfl
      | true =>
        exfalso
        simp only [Bool.and_eq_true, beq_iff_eq] at hc
        exact hz ⟨by rw [hc.1, hi], by rw [hc.2, hj]⟩
    unfold idxOf at ih ⊢
    rw [List.find?_cons, hf]
    exact ih

theorem mem_allBlobs (P : List Spec.PTx) (x : Spec.PBlob) (h : x ∈ Spec.allBlobs P) :
    ∃ p ∈ P, x.blob ∈ p.blobs := by
  unfold Spec.allBlobs at h
  rw [List.mem_flatten] at h
  obtain ⟨l, hl, hx⟩ := h
  rw [List.mem_mapIdx] at hl
  obtain ⟨i, hi, rfl⟩ := hl
  rw [List.mem_mapIdx] at hx
  obtain ⟨j, hj, rfl⟩ := hx
  exact ⟨P[i], List.getElem_mem hi, List.getElem_mem hj⟩

theorem sorted_ok (P : List Spec.PTx) (hok : ∀ p ∈ P, ∀ b ∈ p.blobs, C07.BlobOK b) :
    ∀ x ∈ Spec.stableSort (Spec.allBlobs P), C07.BlobOK x.blob := by
  intro x hx
  obtain ⟨p, hp, hb⟩ := mem_allBlobs P x ((StableSort.stableSort_perm _).mem_iff.mp hx)
  exact hok p hp _ hb

/-- the cursor at which the specification starts placing blobs is the builder's -/
theorem worstStart_eq (N : List Bytes) (P : List Spec.PTx) :
    compactCount ((N.map (fun t => Spec.unitBytes t.length)).sum) +
      compactCount ((P.map (fun p => Spec.unitBytes (Spec.worstWrapLen p))).sum) =
    startOf N (P.map StableSort.toB) := by
  unfold startOf txShareCount pfbShareCount
  rw [compactCount_eq_sizeOf, compactCount_eq_sizeOf, List.map_map]
  have e1 : (N.map (fun t => Spec.unitBytes t.length)).sum = (N.map (fun t => unitBytes t.length)).sum :=
    C07.map_sum_congr _ _ N (fun t _ => by unfold Spec.unitBytes unitBytes; omega)
  have e2 : (P.map (fun p => Spec.unitBytes (Spec.worstWrapLen p))).sum =
      (P.map ((fun t => unitBytes (worstLen t)) ∘ StableSort.toB)).sum :=
    C07.map_sum_congr _ _ P (fun p _ => by
      simp only [Function.comp]
      show Spec.unitBytes (worstLen (C07.toB p)) = _
      unfold Spec.unitBytes unitBytes; rw [C07_toB_eq]; omega)
  rw [e1, e2]

theorem sortedElems_keys (thr : Nat) (B : List BlobTx) :
    (sortedElems thr B).Pairwise (fun a b => ¬ (a.pfbIndex = b.pfbIndex ∧ a.blobIndex = b.blobIndex)) :=
  (List.Perm.pairwise_iff (fun h hc => h ⟨hc.1.symm, hc.2.symm⟩) (sortedElems_perm thr B)).mpr
    (allElements_keys thr B).1

theorem patched_length (thr : Nat) (N : List Bytes) (B : List BlobTx) : (patched thr N B).length = B.length := by
  unfold patched
  rw [(patchAll_frame thr _ _ _).1]
  simp [worstWrappers]

/-- **(c)** the wrapped PFBs of the specification (indexes looked up by coordinates among the
    placed blobs) are the builder's patched wrappers, marshalled -/
theorem pfbs_eq (thr : Nat) (ht : 1 ≤ thr) (N : List Bytes) (P : List Spec.PTx)
    (hok : ∀ p ∈ P, ∀ b ∈ p.blobs, C07.BlobOK b)
    (hidx : ∀ idx ∈ placeIdx thr (startOf N (P.map StableSort.toB)) (sortedElems thr (P.map StableSort.toB)),
      idx < 4294967296) :
    P.mapIdx (fun i p => Spec.wrap p.tx ((List.range p.blobs.length).map
      (idxOf (Spec.place thr (startOf N (P.map StableSort.toB)) (Spec.stableSort (Spec.allBlobs P))) i))) =
    (patched thr N (P.map StableSort.toB)).map (·.marshal) := by
  have hS := StableSort.stableSort_eq_mergeSort thr P
  generalize hSd : Spec.stableSort (Spec.allBlobs P) = S at hS
  have hSok : ∀ x ∈ S, C07.BlobOK x.blob := by rw [← hSd]; exact sorted_ok P hok
  generalize hBd : P.map StableSort.toB = B at hS hidx ⊢
  generalize hpl : Spec.place thr (startOf N B) S = placed
  have hfst : placed.map (·.1) = S := by rw [← hpl]; exact place_fst thr S _
  have hsnd : placed.map (·.2) = placeIdx thr (startOf N B) (sortedElems thr B) := by
    rw [← hpl, place_snd thr ht S _ hSok, hS]
  have hkeys : (placed.map (·.1)).Pairwise (fun a b => ¬ (a.txPos = b.txPos ∧ a.blobPos = b.blobPos)) := by
    rw [hfst]
    have := sortedElems_keys thr B
    rw [← hS, List.pairwise_map] at this
    exact this
  apply List.ext_getElem
  · rw [List.length_mapIdx, List.length_map, patched_length, ← hBd, List.length_map]
  · intro i h1 h2
    rw [List.length_mapIdx] at h1
    rw [List.getElem_mapIdx, List.getElem_map]
    have hB : B[i]? = some (StableSort.toB P[i]) := by
      rw [← hBd, List.getElem?_map, List.getElem?_eq_getElem h1]; rfl
    have hw : (worstWrappers B)[i]? =
        some (newIndexWrapper (StableSort.toB P[i]).tx (worstCaseShareIndexes (StableSort.toB P[i]).blobs.length)) := by
      rw [worstWrappers_getElem?, hB]; rfl
    obtain ⟨iw, g1, g2, g3, g4⟩ := (patchAll_frame thr (sortedElems thr B) (startOf N B) (worstWrappers B)).2 _ _ hw
    have hpi : (patched thr N B)[i]? = some iw := g1
    have hpe : (patched thr N B)[i]'(by simpa using h2) = iw := by
      have := List.getElem?_eq_some_iff.mp hpi
      exact this.2
    rw [hpe]
    have g2' : iw.tx = P[i].tx := g2
    have g3' : iw.typeId = indexWrapperTypeId := g3
    have g4' : iw.shareIndexes.length = P[i].blobs.length := by
      rw [g4]; simp [newIndexWrapper, worstCaseShareIndexes, StableSort.toB]
    have hsi : (List.range P[i].blobs.length).map (idxOf placed i) = iw.shareIndexes := by
      apply List.ext_getElem
      · rw [List.length_map, List.length_range, g4']
      · intro j hj1 hj2
        rw [List.length_map, List.length_range] at hj1
        rw [List.getElem_map, List.getElem_range]
        have hbj : (StableSort.toB P[i]).blobs[j]? = some (P[i].blobs[j]) := List.getElem?_eq_getElem hj1
        obtain ⟨k, idx, hke, hki⟩ := C04.every_blob_is_placed thr N B i j _ _ hB hbj
        obtain ⟨iw2, t, r1, _, _, _, _, r6⟩ := patched_records thr N B k _ idx hke hki
        simp only [newElement] at r1 r6
        rw [hpi] at r1
        simp only [Option.some.injEq] at r1
        subst r1
        have hlt : idx < 4294967296 := hidx idx (List.mem_of_getElem? hki)
        have hu : u32 idx = idx := Nat.mod_eq_of_lt hlt
        rw [hu] at r6
        have hje : iw.shareIndexes[j] = idx := by
          have := List.getElem?_eq_some_iff.mp r6
          exact this.2
        rw [hje]
        -- the placed entry
        rw [← hS, List.getElem?_map, Option.map_eq_some_iff] at hke
        obtain ⟨x, hx, hxe⟩ := hke
        have h1' : (placed.map (·.1))[k]? = some x := by rw [hfst]; exact hx
        rw [List.getElem?_map, Option.map_eq_some_iff] at h1'
        obtain ⟨y, hy, hyx⟩ := h1'
        have h2' : (placed.map (·.2))[k]? = some idx := by rw [hsnd]; exact hki
        rw [List.getElem?_map, hy] at h2'
        simp only [Option.map_some, Option.some.injEq] at h2'
        have hti : y.1.txPos = i := by
          rw [hyx]; exact congrArg Element.pfbIndex hxe
        have hbi : y.1.blobPos = j := by
          rw [hyx]; exact congrArg Element.blobIndex hxe
        rw [idxOf_eq placed k y i j hkeys hy hti hbi, h2']
    rw [hsi]
    unfold Spec.wrap
    rw [← g2', ← g3']

/-! ### (d) `Spec.layout` is the closed-form square -/

/-- where the specification starts the blob region -/
def firstOf (placed : List (Spec.PBlob × Nat)) (cur : Nat) : Nat :=
  match placed.head? with
  | some e => e.2
  | none => cur

/-- the last part of `Spec.layout`: assembling the shares -/
def layoutWith (side : Nat) (txShares pfbShares : List Bytes) (placed : List (Spec.PBlob × Nat))
    (firstBlob : Nat) : Option (List Bytes) :=
  if firstBlob < txShares.length + pfbShares.length then none
  else if side * side <
      (txShares ++ pfbShares ++
        (if placed.isEmpty then [] else
          List.replicate (firstBlob - (txShares.length + pfbShares.length)) (paddingShare primaryReservedPaddingNamespace 0)) ++
        Spec.blobRegion firstBlob none placed).length then none
  else some ((txShares ++ pfbShares ++
        (if placed.isEmpty then [] else
          List.replicate (firstBlob - (txShares.length + pfbShares.length)) (paddingShare primaryReservedPaddingNamespace 0)) ++
        Spec.blobRegion firstBlob none placed) ++
      List.replicate (side * side - (txShares ++ pfbShares ++
        (if placed.isEmpty then [] else
          List.replicate (firstBlob - (txShares.length + pfbShares.length)) (paddingShare primaryReservedPaddingNamespace 0)) ++
        Spec.blobRegion firstBlob none placed).length) (paddingShare tailPaddingNamespace 0))

/-- `Spec.layout`, with its local definitions named -/
theorem layout_unfold (thr : Nat) (N : List Bytes) (P : List Spec.PTx) :
    Spec.layout thr N P =
      if N.isEmpty ∧ P.isEmpty then some [paddingShare tailPaddingNamespace 0]
      else layoutWith (Spec.minSide (Spec.estimate thr N P)) (compactSeq txNamespace N)
        (compactSeq payForBlobNamespace (P.mapIdx (fun i p => Spec.wrap p.tx ((List.range p.blobs.length).map
          (idxOf (Spec.place thr (compactCount ((N.map (fun t => Spec.unitBytes t.length)).sum) +
            compactCount ((P.map (fun p => Spec.unitBytes (Spec.worstWrapLen p))).sum))
            (Spec.stableSort (Spec.allBlobs P))) i)))))
        (Spec.place thr (compactCount ((N.map (fun t => Spec.unitBytes t.length)).sum) +
            compactCount ((P.map (fun p => Spec.unitBytes (Spec.worstWrapLen p))).sum))
            (Spec.stableSort (Spec.allBlobs P)))
        (firstOf (Spec.place thr (compactCount ((N.map (fun t => Spec.unitBytes t.length)).sum) +
            compactCount ((P.map (fun p => Spec.unitBytes (Spec.worstWrapLen p))).sum))
            (Spec.stableSort (Spec.allBlobs P)))
          (compactCount ((N.map (fun t => Spec.unitBytes t.length)).sum) +
            compactCount ((P.map (fun p => Spec.unitBytes (Spec.worstWrapLen p))).sum))) := rfl

theorem firstOf_eq (thr : Nat) (ht : 1 ≤ thr) (l : List Spec.PBlob) (cur : Nat)
    (hok : ∀ x ∈ l, C07.BlobOK x.blob) :
    firstOf (Spec.place thr cur l) cur = firstIdx thr cur (l.map (StableSort.toElem thr)) :=
  firstBlob_eq thr ht l cur hok

theorem place_isEmpty (thr : Nat) (l : List Spec.PBlob) (cur : Nat) :
    (Spec.place thr cur l).isEmpty = l.isEmpty := by
  cases l <;> rfl

theorem blobOK_of_valid (b : Blob) (h : b.BlobValid) : C07.BlobOK b :=
  ⟨h.valid.dataPos, h.valid.dataLt, h.valid.ver⟩

/-- every start index lies inside the blob region -/
theorem placeIdx_lt (thr cur : Nat) (es : List Element) (hok : ∀ e ∈ es, EOK e) :
    ∀ idx ∈ placeIdx thr cur es, idx < firstIdx thr cur es + (region thr cur none es).length := by
  intro idx hidx
  obtain ⟨k, hk, hke⟩ := List.mem_iff_getElem.mp hidx
  have hk' : k < es.length := by rw [placeIdx_length] at hk; exact hk
  obtain ⟨hb, hat⟩ := region_blob_at thr es cur none hok k hk'
  simp only at hb hat
  rw [hke] at hb hat
  have hns := (hok _ (List.getElem_mem hk')).2
  have hne : sparseSeq (es[k]).blob ≠ [] := by simp [sparseSeq]
  have hpos : 0 < (sparseSeq (es[k]).blob).length := List.length_pos_iff.mpr hne
  have hl := congrArg List.length hat
  rw [List.length_take, List.length_drop] at hl
  omega

/-- **(d)** `Spec.layout` of the kept transactions is the closed-form square `squareOf` -/
theorem layout_eq_squareOf (thr : Nat) (ht : 1 ≤ thr) (N : List Bytes) (P : List Spec.PTx)
    (hv : ∀ p ∈ P, ∀ b ∈ p.blobs, b.BlobValid)
    (hne : ¬ (N = [] ∧ P = []))
    (hest : closedEstimate thr N (P.map StableSort.toB) ≤ 2 ^ 52)
    (h1 : (compactSeq txNamespace N).length +
        (compactSeq payForBlobNamespace ((patched thr N (P.map StableSort.toB)).map (·.marshal))).length ≤
        firstIdx thr (startOf N (P.map StableSort.toB)) (sortedElems thr (P.map StableSort.toB)))
    (h2 : firstIdx thr (startOf N (P.map StableSort.toB)) (sortedElems thr (P.map StableSort.toB)) +
        (region thr (startOf N (P.map StableSort.toB)) none (sortedElems thr (P.map StableSort.toB))).length ≤
        blobMinSquareSize (closedEstimate thr N (P.map StableSort.toB)) *
          blobMinSquareSize (closedEstimate thr N (P.map StableSort.toB)))
    (hss : blobMinSquareSize (closedEstimate thr N (P.map StableSort.toB)) *
          blobMinSquareSize (closedEstimate thr N (P.map StableSort.toB)) < 4294967296) :
    Spec.layout thr N P =
      some (squareOf thr N (P.map StableSort.toB) (blobMinSquareSize (closedEstimate thr N (P.map StableSort.toB)))) := by
  have hok : ∀ p ∈ P, ∀ b ∈ p.blobs, C07.BlobOK b := fun p hp b hb => blobOK_of_valid b (hv p hp b hb)
  have hSok := sorted_ok P hok
  have hS := StableSort.stableSort_eq_mergeSort thr P
  have hvB : ∀ t ∈ P.map StableSort.toB, ∀ bl ∈ t.blobs, bl.BlobValid := by
    intro t htm bl hbl
    obtain ⟨p, hp, rfl⟩ := List.mem_map.mp htm
    exact hv p hp bl hbl
  have heok := eok_sortedElems thr (P.map StableSort.toB) hvB
  have hidx : ∀ idx ∈ placeIdx thr (startOf N (P.map StableSort.toB)) (sortedElems thr (P.map StableSort.toB)),
      idx < 4294967296 := by
    intro idx hi
    have := placeIdx_lt thr _ _ heok idx hi
    omega
  -- the estimate is positive
  have hpos : 1 ≤ closedEstimate thr N (P.map StableSort.toB) := by
    have e1 : (sizeOf (N.map (fun t => unitBytes t.length)).sum = 0) ↔ N = [] := by
      rw [C07.sizeOf_eq_zero]; exact C07.unit_sum_eq_zero (fun t : Bytes => t.length) N
    have e2 : (sizeOf ((P.map StableSort.toB).map (fun t => unitBytes (worstLen t))).sum = 0) ↔ P = [] := by
      rw [C07.sizeOf_eq_zero, C07.unit_sum_eq_zero worstLen]; simp
    unfold closedEstimate
    rcases Nat.eq_zero_or_pos (sizeOf (N.map (fun t => unitBytes t.length)).sum) with z1 | z1
    · rcases Nat.eq_zero_or_pos (sizeOf ((P.map StableSort.toB).map (fun t => unitBytes (worstLen t))).sum) with z2 | z2
      · exact absurd ⟨e1.mp z1, e2.mp z2⟩ hne
      · omega
    · omega
  have hestEq : Spec.estimate thr N P = closedEstimate thr N (P.map StableSort.toB) :=
    C07.estimate_eq thr ht N P hok
  rw [layout_unfold, if_neg (by
    intro hc
    exact hne ⟨List.isEmpty_iff.mp hc.1, List.isEmpty_iff.mp hc.2⟩)]
  rw [worstStart_eq, pfbs_eq thr ht N P hok hidx, firstOf_eq thr ht _ _ hSok, hS, hestEq,
    C07.minSide_eq _ hpos hest]
  unfold layoutWith squareOf
  simp only []
  rw [blobRegion_eq thr ht _ _ _ hSok, hS, place_isEmpty]
  generalize hss' : blobMinSquareSize (closedEstimate thr N (P.map StableSort.toB)) = ss at h2 hss ⊢
  generalize hB : P.map StableSort.toB = B at *
  generalize htx : compactSeq txNamespace N = txS at *
  generalize hpf : compactSeq payForBlobNamespace ((patched thr N B).map (·.marshal)) = pfbS at *
  generalize hfi : firstIdx thr (startOf N B) (sortedElems thr B) = first at *
  generalize hrg : region thr (startOf N B) none (sortedElems thr B) = reg at *
  -- the reserved padding
  have hres : (if (Spec.stableSort (Spec.allBlobs P)).isEmpty = true then []
      else List.replicate (first - (txS.length + pfbS.length)) (paddingShare primaryReservedPaddingNamespace 0)) =
      List.replicate (first - (txS.length + pfbS.length)) (paddingShare primaryReservedPaddingNamespace 0) := by
    by_cases hem : (Spec.stableSort (Spec.allBlobs P)).isEmpty = true
    · rw [if_pos hem]
      have hnil : sortedElems thr B = [] := by
        rw [← hS, List.isEmpty_iff.mp hem]; rfl
      have hp : patched thr N B = worstWrappers B := by
        unfold patched; rw [hnil]; rfl
      have hf : first = startOf N B := by rw [← hfi, hnil]; rfl
      have : first - (txS.length + pfbS.length) = 0 := by
        rw [hf, ← htx, ← hpf, hp, ← txShareCount_eq, ← pfbShareCount_eq]
        unfold startOf; omega
      rw [this]; rfl
    · rw [if_neg hem]
  rw [hres]
  have hlen : (txS ++ pfbS ++ List.replicate (first - (txS.length + pfbS.length))
      (paddingShare primaryReservedPaddingNamespace 0) ++ reg).length = first + reg.length := by
    simp only [List.length_append, List.length_replicate]; omega
  rw [hlen, if_neg (by omega), if_neg (by omega)]

theorem layout_empty (thr : Nat) : Spec.layout thr [] [] = some [paddingShare tailPaddingNamespace 0] := rfl

/-! ### (e) `Build` and `Construct` are `Spec.build` and `Spec.construct` -/

theorem closedEstimate_pos (thr : Nat) (N : List Bytes) (B : List BlobTx) (hne : ¬ (N = [] ∧ B = [])) :
    1 ≤ closedEstimate thr N B := by
  have e1 : (sizeOf (N.map (fun t => unitBytes t.length)).sum = 0) ↔ N = [] := by
    rw [C07.sizeOf_eq_zero]; exact C07.unit_sum_eq_zero (fun t : Bytes => t.length) N
  have e2 : (sizeOf (B.map (fun t => unitBytes (worstLen t))).sum = 0) ↔ B = [] := by
    rw [C07.sizeOf_eq_zero, C07.unit_sum_eq_zero worstLen]
  unfold closedEstimate
  rcases Nat.eq_zero_or_pos (sizeOf (N.map (fun t => unitBytes t.length)).sum) with z1 | z1
  · rcases Nat.eq_zero_or_pos (sizeOf (B.map (fun t => unitBytes (worstLen t))).sum) with z2 | z2
    · exact absurd ⟨e1.mp z1, e2.mp z2⟩ hne
    · omega
  · omega

theorem pow2_of_validConfig (max : Nat) (h : Spec.validConfig max = true) : C15.Pow2 max := by
  show Nat.isPowerOfTwo max
  rw [← Nat.ne_zero_and_sub_one_eq_zero_iff_isPowerOfTwo]
  simpa [Spec.validConfig] using h

theorem decOK_of_decValid (dec : Bytes → Decoded) (hdec : DecValid dec) : C07.DecOK dec :=
  fun t bt h b hb => blobOK_of_valid b (hdec t bt h b hb)

/-- the closed-form square of the kept transactions is the specification's layout of them -/
theorem layout_of_isSquareOf (dec : Bytes → Decoded) (hdec : DecValid dec) (thr : Nat) (ht : 1 ≤ thr)
    (max : Nat) (hpow : C15.Pow2 max) (hsz : 478 * (max * max) < 4294967296)
    (N bl : List Bytes) (hbl : ∀ r ∈ bl, dec r = .blobTx (decB dec r))
    (hfit : closedEstimate thr N (bl.map (decB dec)) ≤ max * max)
    (sq : List Bytes) (h : IsSquareOf dec thr N bl sq) :
    Spec.layout thr N (bl.map (C07.toP dec)) = some sq := by
  rcases h with ⟨hN, hb, hs⟩ | ⟨hne, hs, g1, g2, _⟩
  · subst hN hb hs; rfl
  · have hB : (bl.map (C07.toP dec)).map StableSort.toB = bl.map (decB dec) := C07.toB_toP dec bl
    have hv : ∀ p ∈ bl.map (C07.toP dec), ∀ b ∈ p.blobs, b.BlobValid := by
      intro p hp b hb
      obtain ⟨r, hr, rfl⟩ := List.mem_map.mp hp
      exact hdec r _ (hbl r hr) b hb
    have hne' : ¬ (N = [] ∧ bl.map (decB dec) = []) := by
      intro hc; exact hne ⟨hc.1, by simpa using hc.2⟩
    have hne'' : ¬ (N = [] ∧ bl.map (C07.toP dec) = []) := by
      intro hc; exact hne ⟨hc.1, by simpa using hc.2⟩
    have hpos := closedEstimate_pos thr N _ hne'
    have h52 : closedEstimate thr N (bl.map (decB dec)) ≤ 2 ^ 52 := by
      have : (2:Nat) ^ 52 = 4503599627370496 := by decide
      omega
    have hle : blobMinSquareSize (closedEstimate thr N (bl.map (decB dec))) ≤ max :=
      (C15.minSquare_least _ hpos h52).2.2 max hpow hfit
    have hss : blobMinSquareSize (closedEstimate thr N (bl.map (decB dec))) *
        blobMinSquareSize (closedEstimate thr N (bl.map (decB dec))) < 4294967296 := by
      have := Nat.mul_le_mul hle hle
      omega
    have := layout_eq_squareOf thr ht N (bl.map (C07.toP dec)) hv hne''
      (by rw [hB]; exact h52) (by rw [hB]; exact g1) (by rw [hB]; exact g2) (by rw [hB]; exact hss)
    rw [hB] at this
    rw [this, hs]

theorem map_raw_toP (dec : Bytes → Decoded) (bl : List Bytes) : (bl.map (C07.toP dec)).map (·.raw) = bl := by
  rw [List.map_map]
  exact (List.map_congr_left (fun r _ => rfl)).trans (List.map_id' bl)

/-- **C07, `Build`.** Whenever `Build` succeeds, its square and its kept transactions are exactly
    those of the specification `Spec.build` (greedy selection by the closed-form estimate, then
    `Spec.layout`). -/
theorem build_eq_spec (dec : Bytes → Decoded) (hdec : DecValid dec) (txs : List Bytes) (max thr : Nat)
    (ht : 1 ≤ thr) (hcfg : Spec.validConfig max = true) (hsz : 478 * (max * max) < 4294967296)
    (sq kept : List Bytes) (h : build dec txs max thr = .ok (sq, kept)) :
    Spec.build dec txs max thr = some (sq, kept) := by
  have hdok := decOK_of_decValid dec hdec
  have hpow := pow2_of_validConfig max hcfg
  unfold build at h
  obtain ⟨b0, hnew, h⟩ := res_bind_ok' h
  obtain ⟨⟨b, n, bl⟩, hloop, h⟩ := res_bind_ok' h
  obtain ⟨⟨b2, sq2⟩, hexp, h⟩ := res_bind_ok' h
  simp only [Except.ok.injEq, Prod.mk.injEq] at h
  obtain ⟨rfl, rfl⟩ := h
  obtain ⟨hk0, ht0, hm0⟩ := kept_new max thr b0 hnew
  obtain ⟨hk, hthr, hmx, hbl, hn, _, _⟩ := buildLoop_spec dec txs b0 [] [] b n bl
    (by simpa using hk0) (by simp) (by simp) hloop
  have hsel := C07.select_eq dec hdok thr ht txs b0 [] [] b n bl (by simpa using hk0) ht0 (by simp) hloop
  rw [hm0] at hsel
  simp only [List.map_nil] at hsel
  have hbthr : b.thr = thr := by rw [hthr, ht0]
  have hbmax : b.maxSquareSize = max := by rw [hmx, hm0]
  have hfit : closedEstimate thr n (bl.map (decB dec)) ≤ max * max := by
    rw [← hbthr, ← hbmax]; exact hk.fit
  have hsq : IsSquareOf dec thr n bl sq2 := by
    rw [← hbthr]
    exact isSquareOf_of_export dec hdec b n bl hk hbl (by rw [hbmax]; exact hsz) b2 sq2 hexp
  have hlay := layout_of_isSquareOf dec hdec thr ht max hpow hsz n bl hbl hfit sq2 hsq
  unfold Spec.build
  rw [hcfg, hsel]
  simp only [Bool.not_true, Bool.false_eq_true, if_false]
  rw [hlay, map_raw_toP]
  rfl

/-- `Spec.select` keeps every transaction `Construct`'s transaction loop accepts -/
theorem select_all (dec : Bytes → Decoded) (hdec : C07.DecOK dec) (thr : Nat) (ht : 1 ≤ thr) :
    ∀ (txs : List Bytes) (b : Builder) (seen : Bool) (n bl : List Bytes) (b' : Builder) (n' bl' : List Bytes),
    Kept b n (bl.map (decB dec)) → b.thr = thr → (∀ r ∈ bl, dec r = .blobTx (decB dec r)) →
    appendAll dec txs b seen = .ok b' →
    txs = n' ++ bl' → (∀ r ∈ n', dec r = .normal) → (∀ r ∈ bl', dec r = .blobTx (decB dec r)) →
    Spec.select dec b.maxSquareSize thr txs n (bl.map (C07.toP dec)) =
      some (n ++ n', (bl ++ bl').map (C07.toP dec))
  | [], b, seen, n, bl, b', n', bl', _, _, _, _, e, _, _ => by
    obtain ⟨hn', hbl'⟩ := List.append_eq_nil_iff.mp e.symm
    subst hn' hbl'
    simp [Spec.select]
  | t :: rest, b, seen, n, bl, b', n', bl', hk, hthr, hb, h, e, hn', hbl' => by
    rw [appendAll] at h
    rw [Spec.select]
    cases hd : dec t with
    | badBlobTx => rw [hd] at h; cases h
    | normal =>
      rw [hd] at h
      simp only at h ⊢
      cases n' with
      | nil =>
        exfalso
        simp only [List.nil_append] at e
        have := hbl' t (by rw [← e]; simp)
        rw [hd] at this; cases this
      | cons t' n'' =>
        simp only [List.cons_append, List.cons.injEq] at e
        obtain ⟨rfl, e⟩ := e
        by_cases hs : seen = true
        · rw [if_pos hs] at h; cases h
        · rw [if_neg hs] at h
          obtain ⟨hiff, hacc, _⟩ := appendTx_spec b n (bl.map (decB dec)) t hk
          rw [C07.estimate_eq thr ht _ _ (C07.toP_ok dec hdec bl hb), C07.toB_toP]
          rw [hthr] at hiff
          by_cases ha : (b.appendTx t).2 = true
          · obtain ⟨hk1, ht1, hm1⟩ := hacc ha
            rw [ha] at h
            simp only [if_true] at h
            rw [if_pos (hiff.mp ha), ← hm1]
            have := select_all dec hdec thr ht rest _ false (n ++ [t]) bl b' n'' bl' hk1 (by rw [ht1, hthr]) hb h e
              (fun r hr => hn' r (by simp [hr])) hbl'
            rw [this, List.append_assoc]; rfl
          · have ha' : (b.appendTx t).2 = false := by simpa using ha
            rw [ha'] at h
            simp at h
    | blobTx bt =>
      rw [hd] at h
      simp only at h ⊢
      have hdb : decB dec t = bt := by simp [decB, hd]
      cases n' with
      | cons t' n'' =>
        exfalso
        simp only [List.cons_append, List.cons.injEq] at e
        have := hn' t' (by simp)
        rw [← e.1, hd] at this; cases this
      | nil =>
        simp only [List.nil_append] at e
        subst e
        obtain ⟨hiff, hacc, _⟩ := appendBlobTx_spec b n (bl.map (decB dec)) bt hk
        have hq : bl.map (C07.toP dec) ++ [({ raw := t, tx := bt.tx, blobs := bt.blobs } : Spec.PTx)] =
            (bl ++ [t]).map (C07.toP dec) := by
          rw [List.map_append, List.map_cons, List.map_nil]; simp only [C07.toP, hdb]
        have hb1 : ∀ r ∈ bl ++ [t], dec r = .blobTx (decB dec r) := by
          intro r hr; rcases List.mem_append.mp hr with hr | hr
          · exact hb r hr
          · simp at hr; rw [hr, hdb]; exact hd
        rw [hq, C07.estimate_eq thr ht _ _ (C07.toP_ok dec hdec _ hb1), C07.toB_toP, List.map_append,
          List.map_cons, List.map_nil, hdb]
        rw [hthr] at hiff
        by_cases ha : (b.appendBlobTx bt).2 = true
        · obtain ⟨hk1, ht1, hm1⟩ := hacc ha
          rw [ha] at h
          simp only [if_true] at h
          rw [if_pos (hiff.mp ha), ← hm1]
          have hk1' : Kept (b.appendBlobTx bt).1 n ((bl ++ [t]).map (decB dec)) := by
            rw [List.map_append, List.map_cons, List.map_nil, hdb]; exact hk1
          have := select_all dec hdec thr ht rest _ true n (bl ++ [t]) b' [] rest hk1' (by rw [ht1, hthr]) hb1 h
            rfl (by simp) (fun r hr => hbl' r (by simp [hr]))
          rw [this, List.append_assoc]; rfl
        · have ha' : (b.appendBlobTx bt).2 = false := by simpa using ha
          rw [ha'] at h
          simp at h

/-- ordinary transactions before blob transactions: the list of kinds is sorted -/
theorem kinds_sorted (k : Bytes → Nat) (N bl : List Bytes) (h0 : ∀ r ∈ N, k r = 0) (h1 : ∀ r ∈ bl, k r = 1) :
    ((N ++ bl).map k).mergeSort (· ≤ ·) = (N ++ bl).map k := by
  apply List.mergeSort_of_pairwise
  rw [List.pairwise_map, List.pairwise_append]
  refine ⟨?_, ?_, ?_⟩
  · exact List.pairwise_of_forall_mem_list (fun a ha c hc => by rw [h0 a ha, h0 c hc]; rfl)
  · exact List.pairwise_of_forall_mem_list (fun a ha c hc => by rw [h1 a ha, h1 c hc]; rfl)
  · intro a ha c hc; rw [h0 a ha, h1 c hc]; rfl

/-- **C07, `Construct`.** Whenever `Construct` succeeds, its square is exactly the one the
    specification `Spec.construct` returns. -/
theorem construct_eq_spec (dec : Bytes → Decoded) (hdec : DecValid dec) (txs : List Bytes) (max thr : Nat)
    (ht : 1 ≤ thr) (hcfg : Spec.validConfig max = true) (hsz : 478 * (max * max) < 4294967296)
    (sq : List Bytes) (h : construct dec txs max thr = .ok sq) :
    Spec.construct dec txs max thr = some sq := by
  have hdok := decOK_of_decValid dec hdec
  have hpow := pow2_of_validConfig max hcfg
  unfold construct Builder.newWithTxs at h
  obtain ⟨b, hb, h⟩ := res_bind_ok' h
  obtain ⟨b0, hnew, hall⟩ := res_bind_ok' hb
  obtain ⟨⟨b2, sq2⟩, hexp, h⟩ := res_bind_ok' h
  simp only [Except.ok.injEq] at h
  subst h
  obtain ⟨hk0, ht0, hm0⟩ := kept_new max thr b0 hnew
  obtain ⟨n, bl, e, hk, hthr, hmx, hbl, hn⟩ := appendAll_spec dec txs b0 false [] [] b
    (by simpa using hk0) (by simp) (by simp) hall
  simp only [List.nil_append] at hk hbl hn
  have hsel := select_all dec hdok thr ht txs b0 false [] [] b n bl (by simpa using hk0) ht0 (by simp) hall e hn hbl
  rw [hm0] at hsel
  simp only [List.map_nil, List.nil_append] at hsel
  have hbthr : b.thr = thr := by rw [hthr, ht0]
  have hbmax : b.maxSquareSize = max := by rw [hmx, hm0]
  have hfit : closedEstimate thr n (bl.map (decB dec)) ≤ max * max := by
    rw [← hbthr, ← hbmax]; exact hk.fit
  have hsq : IsSquareOf dec thr n bl sq2 := by
    rw [← hbthr]
    exact isSquareOf_of_export dec hdec b n bl hk hbl (by rw [hbmax]; exact hsz) b2 sq2 hexp
  have hlay := layout_of_isSquareOf dec hdec thr ht max hpow hsz n bl hbl hfit sq2 hsq
  unfold Spec.construct
  rw [hcfg, hsel]
  simp only [Bool.not_true, Bool.false_eq_true, if_false]
  split
  · rename_i hc
    exfalso
    apply hc
    rw [e]
    exact (kinds_sorted _ n bl (fun r hr => by simp only [hn r hr]) (fun r hr => by simp only [hbl r hr])).symm
  · rw [if_neg (by rw [e]; simp), hlay]

end GoSquare.SpecLayout
