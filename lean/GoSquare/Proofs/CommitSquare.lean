import GoSquare.Proofs.C05Core
import GoSquare.Proofs.C04Core
import GoSquare.Proofs.SquareWF
/-! # C05 on constructed squares

`Properties/C05.lean` proves the structural half of C05 over an abstract leaf type: a run of `n`
leaves placed at an index aligned to its subtree width inside a `2^k × 2^k` square. Here that is
instantiated on the squares `Construct` actually returns (`construct_square`, `C04`): for every
blob of every blob transaction, at the share index recorded for it, every subtree root computed
from the blob alone is an inner node of the namespaced Merkle tree of one square row, over the
same shares; and the share commitment is the Merkle root over exactly those inner nodes.
Leaf / node / empty hashes are arbitrary throughout (nothing about SHA-256 is used). -/
namespace GoSquare.CommitSquare
open GoSquare Builder Spec
open GoSquare.Nmt (rootWith Inner)

/-- the leaves pushed into the square's row trees, row-major: every share prefixed by its own
    namespace (`share[:29] ‖ share`, as the row tree of the original-data square does) -/
def squareLeaves (sq : List Bytes) : List Bytes := sq.map (fun s => Share.ns s ++ s)

/-- the leaves `GenerateSubtreeRoots` pushes for a blob: the blob's namespace before each share -/
def blobLeaves (b : Blob) : List Bytes := (sparseSeq b).map (fun s => b.ns ++ s)

/-- **Leaf lemma.** On the blob's own shares the leaf `blob.ns ‖ share` of the commitment tree
    is the leaf `share.ns ‖ share` of the square's row tree. -/
theorem blob_leaves_eq_square_leaves (b : Blob) (hb : b.Valid) :
    (sparseSeq b).map (fun s => b.ns ++ s) = (sparseSeq b).map (fun s => Share.ns s ++ s) := by
  apply List.map_congr_left
  intro s hs
  rw [(sparseSeq_shares b hb s hs).2]

/-- chunking commutes with mapping the elements -/
theorem chunks_map {β γ : Type} (f : β → γ) : ∀ (sizes : List Nat) (l : List β),
    chunks (l.map f) sizes = (chunks l sizes).map (List.map f)
  | [], _ => rfl
  | s :: ss, l => by
    simp only [chunks, List.map_cons, List.map_take]
    rw [← List.map_drop, chunks_map f ss]

/-- where the blob's shares lie in the square, its leaves lie in the square's leaves -/
theorem blobLeaves_at (sq : List Bytes) (b : Blob) (hb : b.Valid) (idx : Nat)
    (hat : (sq.drop idx).take (sparseSeq b).length = sparseSeq b) :
    ((squareLeaves sq).drop idx).take (sparseSeq b).length = blobLeaves b := by
  unfold squareLeaves blobLeaves
  rw [blob_leaves_eq_square_leaves b hb, ← List.map_drop, ← List.map_take, hat]

/-- a slice of a slice -/
theorem slice_slice {β : Type} (l : List β) (i n j m : Nat) (h : j + m ≤ n) :
    (((l.drop i).take n).drop j).take m = (l.drop (i + j)).take m := by
  rw [List.drop_take, List.drop_drop, List.take_take]
  congr 1; omega

/-- a block that does not cross a row boundary is a slice of its row -/
theorem row_slice {β : Type} (l : List β) (side p m : Nat) (hside : 0 < side) (hm : 1 ≤ m)
    (hnc : (p + m - 1) / side = p / side) :
    ((C05.row l side (p / side)).drop (p % side)).take m = (l.drop p).take m := by
  have h1 := Nat.div_add_mod (p + m - 1) side
  have h2 := Nat.mod_lt (p + m - 1) hside
  have h3 := Nat.div_add_mod p side
  rw [hnc] at h1
  unfold C05.row
  rw [List.drop_take, List.drop_drop, List.take_take]
  have e1 : p / side * side + p % side = p := by rw [Nat.mul_comm]; exact h3
  rw [e1]
  congr 1; omega

/-- **C05 for one placed blob.** In a `2^k × 2^k` square `sq` that carries the shares of the
    valid blob `b` verbatim at an index `idx` aligned to the blob's subtree width: the `c`-th
    subtree of the blob's mountain range (of `size` leaves, `chunk` being the `c`-th chunk of the
    blob's own leaves) lies in one row of the square, occupies there exactly the leaves
    `[pos % side, pos % side + size)` of the row, and its root *computed from the blob alone* is the
    value of the inner node of that row's tree covering those leaves. -/
theorem placed_blob_subtree {D : Type} (leafH : Bytes → D) (nodeH : D → D → D) (emptyH : D)
    (sq : List Bytes) (k : Nat) (hlen : sq.length = 2 ^ k * 2 ^ k)
    (b : Blob) (hb : b.Valid) (thr idx : Nat) (ht : 1 ≤ thr)
    (hn52 : (sparseSeq b).length ≤ 2 ^ 52)
    (hat : (sq.drop idx).take (sparseSeq b).length = sparseSeq b)
    (hal : idx % subTreeWidth (sparseSeq b).length thr = 0)
    (c size : Nat) (chunk : List Bytes)
    (hsize : (mmrSizes (sparseSeq b).length (subTreeWidth (sparseSeq b).length thr))[c]? = some size)
    (hchunk : (chunks (blobLeaves b)
      (mmrSizes (sparseSeq b).length (subTreeWidth (sparseSeq b).length thr)))[c]? = some chunk) :
    let pos := idx + ((mmrSizes (sparseSeq b).length (subTreeWidth (sparseSeq b).length thr)).take c).sum
    (pos + size - 1) / 2 ^ k = pos / 2 ^ k ∧
    ((C05.row (squareLeaves sq) (2 ^ k) (pos / 2 ^ k)).drop (pos % 2 ^ k)).take size = chunk ∧
    Inner leafH nodeH emptyH (C05.row (squareLeaves sq) (2 ^ k) (pos / 2 ^ k)) (pos % 2 ^ k) size
      (rootWith leafH nodeH emptyH chunk) := by
  generalize hn : (sparseSeq b).length = n at *
  generalize hsz : mmrSizes n (subTreeWidth n thr) = sizes at *
  intro pos
  have hn1 : 1 ≤ n := by rw [← hn]; simp [sparseSeq]
  obtain ⟨hc, hsc⟩ := List.getElem?_eq_some_iff.mp hsize
  obtain ⟨hc', hcc⟩ := List.getElem?_eq_some_iff.mp hchunk
  -- the blob fits
  have hfit : idx + n ≤ sq.length := by
    have := congrArg List.length hat
    rw [List.length_take, List.length_drop, hn] at this
    omega
  have hleaves := blobLeaves_at sq b hb idx (by rw [hn]; exact hat)
  rw [hn] at hleaves
  have hll : (squareLeaves sq).length = 2 ^ k * 2 ^ k := by unfold squareLeaves; rw [List.length_map, hlen]
  obtain ⟨wpow, _, _, _⟩ := C15.subTreeWidth_spec n thr hn1 hn52 ht
  obtain ⟨m1, m2, _⟩ := C15.mmr_spec n (subTreeWidth n thr) wpow (Nat.le_trans hn52 (by decide))
  rw [hsz] at m1 m2
  have hsum := C05.take_sum_add_le sizes c hc
  rw [m2, hsc] at hsum
  have hspos : 1 ≤ size := by
    obtain ⟨⟨j, hj⟩, _⟩ := m1 size (by rw [← hsc]; exact List.getElem_mem _)
    rw [hj]; exact Nat.one_le_two_pow
  -- the chunk of the blob's leaves is the corresponding slice of the square's leaves
  have hck : chunk = ((squareLeaves sq).drop pos).take size := by
    rw [← hcc, C05.chunks_getElem, hsc, ← hleaves]
    exact slice_slice _ idx n _ size hsum
  have key := C05.subtree_roots_are_row_inner_nodes leafH nodeH emptyH (squareLeaves sq) k idx n thr hll hn1 hn52 ht
    (Nat.dvd_of_mod_eq_zero hal) (by rw [hll, ← hlen]; exact hfit) c (by rw [hsz]; exact hc)
  simp only [hsz, hsc] at key
  obtain ⟨k1, k2⟩ := key
  refine ⟨k1, ?_, ?_⟩
  · rw [hck]
    exact row_slice _ (2 ^ k) pos size (Nat.two_pow_pos k) hspos k1
  · rw [hck]; exact k2

/-! ### the squares `Construct` returns -/

/-- the side `Export` chooses is a power of two, whatever the estimate -/
theorem minSquare_pow2 (e : Nat) (he : e ≤ 2 ^ 52) : ∃ k, blobMinSquareSize e = 2 ^ k := by
  by_cases h0 : e = 0
  · subst h0; exact ⟨0, C15.minSquare_zero⟩
  · exact (C15.minSquare_least e (by omega) he).1

/-- a valid blob (data below 4 GiB) has far fewer than `2^52` shares -/
theorem sparseSeq_le (b : Blob) (hb : b.Valid) : (sparseSeq b).length ≤ 2 ^ 52 := by
  have hd := hb.dataLt
  have h52 : (2:Nat) ^ 52 = 4503599627370496 := by decide
  rw [sparseSeq_length b hb, h52]
  unfold sparseSharesNeededWithSigner
  simp only
  repeat' split
  all_goals omega

/-- **`Construct` places every blob.** A square returned by `Construct` is a `2^k × 2^k` square,
    and every blob `j` of every blob transaction `p` (counted among the blob transactions `bl`) is
    valid and has its share encoding verbatim at the share index `idx` recorded for it in the
    wrapped pay-for-blob transaction, which is a multiple of the blob's subtree width. -/
theorem construct_places (dec : Bytes → Decoded) (hdec : DecValid dec) (txs : List Bytes) (max thr : Nat)
    (hsz : 478 * (max * max) < 4294967296) (sq : List Bytes) (h : construct dec txs max thr = .ok sq) :
    ∃ k N bl, sq.length = 2 ^ k * 2 ^ k ∧ txs = N ++ bl ∧
      ∀ (p j : Nat) (raw : Bytes) (b : Blob), bl[p]? = some raw → (decB dec raw).blobs[j]? = some b →
        b.Valid ∧
        ∃ idx iw, (patched thr N (bl.map (decB dec)))[p]? = some iw ∧ iw.tx = (decB dec raw).tx ∧
          iw.shareIndexes[j]? = some (u32 idx) ∧
          (sq.drop idx).take (sparseSeq b).length = sparseSeq b ∧
          idx % subTreeWidth (sparseSeq b).length thr = 0 := by
  obtain ⟨N, bl, e, _, hbl, hfit, hsq⟩ := construct_square dec hdec txs max thr hsz sq h
  have hv := decValid_kept dec hdec bl hbl
  have h52 : closedEstimate thr N (bl.map (decB dec)) ≤ 2 ^ 52 := by
    have : (2:Nat) ^ 52 = 4503599627370496 := by decide
    omega
  obtain ⟨k, hk⟩ := minSquare_pow2 _ h52
  rcases hsq with ⟨_, hbe, hsqe⟩ | ⟨_, hsqe, g1, g2, _⟩
  · refine ⟨0, N, bl, by rw [hsqe]; rfl, e, ?_⟩
    intro p j raw b hp
    subst hbe; simp at hp
  · refine ⟨k, N, bl, by rw [hsqe, squareOf_length thr N _ _ g1 g2, hk], e, ?_⟩
    intro p j raw b hp hj
    have hB : (bl.map (decB dec))[p]? = some (decB dec raw) := by rw [List.getElem?_map, hp]; rfl
    have hbv : b.BlobValid := hv _ (List.mem_of_getElem? hB) b (List.mem_of_getElem? hj)
    obtain ⟨kk, idx, hpl⟩ := C04.every_blob_is_placed thr N (bl.map (decB dec)) p j _ b hB hj
    obtain ⟨⟨iw, t, r1, r2, r3, _, _, r6⟩, r7, r8, r9⟩ :=
      C04.recorded_index_is_truthful thr N (bl.map (decB dec)) _ hv g1 kk _ idx hpl
    simp only [newElement] at r1 r2 r6
    rw [hB] at r2
    simp only [Option.some.injEq] at r2
    subst r2
    have r8' : (newElement b p j thr).numShares = (sparseSeq b).length := r8
    have r7' : ((squareOf thr N (bl.map (decB dec)) (blobMinSquareSize (closedEstimate thr N (bl.map (decB dec))))).drop idx).take
        (newElement b p j thr).numShares = sparseSeq b := r7
    refine ⟨hbv.valid, idx, iw, r1, r3, r6, ?_, ?_⟩
    · rw [hsqe, ← r8']; exact r7'
    · rw [← r8']; exact r9

/-! ### the model's `GenerateSubtreeRoots` / `CreateCommitment` -/

/-- `GenerateSubtreeRoots` of a valid blob succeeds and returns, in order, the tree root of every
    mountain-range chunk of the blob's leaves (`blob.ns ‖ share`) — a function of the blob and the
    threshold alone -/
theorem subtreeRootsWith_eq {D : Type} (rootOf : List Bytes → D) (b : Blob) (hb : b.Valid) (thr : Nat) :
    subtreeRootsWith rootOf b thr = .ok ((chunks (blobLeaves b)
      (mmrSizes (sparseSeq b).length (subTreeWidth (sparseSeq b).length thr))).map rootOf) := by
  obtain ⟨sh, h1, h2, _⟩ := toShares_length b hb
  subst h2
  unfold subtreeRootsWith blobLeaves
  simp only [h1, bind, Except.bind]
  rw [chunks_map, List.map_map]
  rfl

/-- What C05 claims of the list `roots` of subtree roots of a blob whose commitment-tree leaves
    are `bleaves` and whose mountain range is `sizes`, when the blob sits at share index `idx` of
    the `2^k × 2^k` square `sq`. There is one root per mountain, and for the `c`-th one, covering
    the `size` blob leaves from `start` on, i.e. the square leaves from `pos = idx + start` on:
    * the last of those leaves is in the same row `r` as the first (no subtree spans two rows);
    * the leaves `[off, off + size)` of row `r` (`off` the in-row offset of `pos`) are exactly
      those blob leaves (the same shares);
    * `root` is the tree root of those blob leaves alone; and
    * `root` is the value of the inner node of the tree over row `r` that covers the leaves
      `[off, off + size)`. -/
def RowInnerNodes {D : Type} (leafH : Bytes → D) (nodeH : D → D → D) (emptyH : D)
    (sq : List Bytes) (k idx : Nat) (bleaves : List Bytes) (sizes : List Nat) (roots : List D) : Prop :=
  roots.length = sizes.length ∧
  ∀ (c size : Nat) (root : D), sizes[c]? = some size → roots[c]? = some root →
    let start := (sizes.take c).sum
    let pos := idx + start
    let r := pos / 2 ^ k
    let off := pos % 2 ^ k
    (pos + size - 1) / 2 ^ k = r ∧
    ((C05.row (squareLeaves sq) (2 ^ k) r).drop off).take size = (bleaves.drop start).take size ∧
    root = rootWith leafH nodeH emptyH ((bleaves.drop start).take size) ∧
    Inner leafH nodeH emptyH (C05.row (squareLeaves sq) (2 ^ k) r) off size root

/-- **C05 for one placed blob, on the model's `GenerateSubtreeRoots`** (arbitrary hashes). -/
theorem placed_blob_roots {D : Type} (leafH : Bytes → D) (nodeH : D → D → D) (emptyH : D)
    (sq : List Bytes) (k : Nat) (hlen : sq.length = 2 ^ k * 2 ^ k)
    (b : Blob) (hb : b.Valid) (thr idx : Nat) (ht : 1 ≤ thr)
    (hat : (sq.drop idx).take (sparseSeq b).length = sparseSeq b)
    (hal : idx % subTreeWidth (sparseSeq b).length thr = 0) :
    ∃ roots, subtreeRootsWith (rootWith leafH nodeH emptyH) b thr = .ok roots ∧
      RowInnerNodes leafH nodeH emptyH sq k idx (blobLeaves b)
        (mmrSizes (sparseSeq b).length (subTreeWidth (sparseSeq b).length thr)) roots := by
  refine ⟨_, subtreeRootsWith_eq _ b hb thr, ?_, ?_⟩
  · rw [List.length_map, C05.chunks_length]
  · intro c size root hsize hroot
    rw [List.getElem?_map] at hroot
    obtain ⟨chunk, hchunk, rfl⟩ := Option.map_eq_some_iff.mp hroot
    obtain ⟨p1, p2, p3⟩ := placed_blob_subtree leafH nodeH emptyH sq k hlen b hb thr idx ht (sparseSeq_le b hb)
      hat hal c size chunk hsize hchunk
    obtain ⟨hc, hsc⟩ := List.getElem?_eq_some_iff.mp hsize
    obtain ⟨hc', hcc⟩ := List.getElem?_eq_some_iff.mp hchunk
    have hck : chunk = ((blobLeaves b).drop
        ((mmrSizes (sparseSeq b).length (subTreeWidth (sparseSeq b).length thr)).take c).sum).take size := by
      rw [← hcc, C05.chunks_getElem, hsc]
    intro start pos r off
    refine ⟨p1, ?_, ?_, p3⟩
    · rw [← hck]; exact p2
    · rw [← hck]

/-- **C05 on `Construct`, for arbitrary leaf / node / empty hashes.** Whenever `Construct` returns
    a square `sq`, it is a `2^k × 2^k` square and, for every blob `j` of every blob transaction `p`
    (counted among the blob transactions `bl`), with `idx` the share index recorded for it in the
    wrapped pay-for-blob transaction `iw`: the blob's shares are at `idx`, `GenerateSubtreeRoots`
    (run on the blob alone) succeeds, and each root it returns is the inner node, over the same
    shares, of the tree of one row of the square (`RowInnerNodes`); no subtree spans two rows. -/
theorem construct_subtree_roots_are_row_inner_nodes {D : Type} (leafH : Bytes → D) (nodeH : D → D → D) (emptyH : D)
    (dec : Bytes → Decoded) (hdec : DecValid dec) (txs : List Bytes) (max thr : Nat)
    (hsz : 478 * (max * max) < 4294967296) (ht : 1 ≤ thr) (sq : List Bytes)
    (h : construct dec txs max thr = .ok sq) :
    ∃ k N bl, sq.length = 2 ^ k * 2 ^ k ∧ txs = N ++ bl ∧
      ∀ (p j : Nat) (raw : Bytes) (b : Blob), bl[p]? = some raw → (decB dec raw).blobs[j]? = some b →
        ∃ idx iw roots, (patched thr N (bl.map (decB dec)))[p]? = some iw ∧ iw.tx = (decB dec raw).tx ∧
          iw.shareIndexes[j]? = some (u32 idx) ∧
          (sq.drop idx).take (sparseSeq b).length = sparseSeq b ∧
          subtreeRootsWith (rootWith leafH nodeH emptyH) b thr = .ok roots ∧
          RowInnerNodes leafH nodeH emptyH sq k idx (blobLeaves b)
            (mmrSizes (sparseSeq b).length (subTreeWidth (sparseSeq b).length thr)) roots := by
  obtain ⟨k, N, bl, hlen, e, hall⟩ := construct_places dec hdec txs max thr hsz sq h
  refine ⟨k, N, bl, hlen, e, ?_⟩
  intro p j raw b hp hj
  obtain ⟨hb, idx, iw, r1, r2, r3, hat, hal⟩ := hall p j raw b hp hj
  obtain ⟨roots, g1, g2⟩ := placed_blob_roots leafH nodeH emptyH sq k hlen b hb thr idx ht hat hal
  exact ⟨idx, iw, roots, r1, r2, r3, hat, g1, g2⟩

/-- **C05 on `Construct`** (the model's NMT hashes). Whenever `Construct` returns a square `sq`, it
    is a `2^k × 2^k` square and, for every blob `j` of every blob transaction `p` (counted among
    the blob transactions `bl`), with `idx` the share index recorded for it in the wrapped
    pay-for-blob transaction `iw`:
    * the blob's shares are at `idx` of the square;
    * `GenerateSubtreeRoots`, run on the blob alone, returns `roots`, and each of them equals the
      inner node of the namespaced Merkle tree of one square row over the same shares, no subtree
      spanning two rows (`RowInnerNodes`);
    * the share commitment is the caller's Merkle root over exactly those inner nodes. -/
theorem construct_commitments (dec : Bytes → Decoded) (hdec : DecValid dec) (txs : List Bytes) (max thr : Nat)
    (hsz : 478 * (max * max) < 4294967296) (ht : 1 ≤ thr) (sq : List Bytes)
    (h : construct dec txs max thr = .ok sq) :
    ∃ k N bl, sq.length = 2 ^ k * 2 ^ k ∧ txs = N ++ bl ∧
      ∀ (p j : Nat) (raw : Bytes) (b : Blob), bl[p]? = some raw → (decB dec raw).blobs[j]? = some b →
        ∃ idx iw roots, (patched thr N (bl.map (decB dec)))[p]? = some iw ∧ iw.tx = (decB dec raw).tx ∧
          iw.shareIndexes[j]? = some (u32 idx) ∧
          (sq.drop idx).take (sparseSeq b).length = sparseSeq b ∧
          generateSubtreeRoots b thr = .ok roots ∧
          RowInnerNodes Nmt.hashLeaf Nmt.hashNode Nmt.emptyRoot sq k idx (blobLeaves b)
            (mmrSizes (sparseSeq b).length (subTreeWidth (sparseSeq b).length thr)) roots ∧
          ∀ {D' : Type} (merkleRoot : List Bytes → D'),
            createCommitment b merkleRoot thr = .ok (merkleRoot roots) := by
  obtain ⟨k, N, bl, hlen, e, hall⟩ :=
    construct_subtree_roots_are_row_inner_nodes Nmt.hashLeaf Nmt.hashNode Nmt.emptyRoot dec hdec txs max thr hsz ht sq h
  refine ⟨k, N, bl, hlen, e, ?_⟩
  intro p j raw b hp hj
  obtain ⟨idx, iw, roots, r1, r2, r3, hat, g1, g2⟩ := hall p j raw b hp hj
  have hg : generateSubtreeRoots b thr = .ok roots := g1
  exact ⟨idx, iw, roots, r1, r2, r3, hat, hg, g2,
    fun merkleRoot => C05.commitment_is_merkle_root_of_subtree_roots b thr merkleRoot roots hg⟩

end GoSquare.CommitSquare
