import GoSquare.Proofs.BuildSquare
import GoSquare.Proofs.BlobAt
import GoSquare.Proofs.Patched
import GoSquare.Proofs.SortOrder
/-! # C04 — recorded blob share indexes are truthful and satisfy the alignment rule

`Build`/`Construct` return the closed-form square `squareOf` of the kept transactions
(`build_square`, `construct_square`: refinement of the transliterated builder, proved for every
transaction list). On that square, for EVERY blob of EVERY kept blob transaction: the index
recorded in its wrapped pay-for-blob transaction is where the blob's share encoding appears
verbatim; it is a multiple of the blob's subtree width; blob ranges are pairwise disjoint, written
in namespace order, ties broken by transaction position then blob position. -/
namespace GoSquare.C04
open GoSquare Builder Spec

/-- element `e` is the `k`-th blob in write order and was placed at share index `idx` -/
def Placed (thr : Nat) (N : List Bytes) (B : List BlobTx) (k : Nat) (e : Element) (idx : Nat) : Prop :=
  (sortedElems thr B)[k]? = some e ∧ (placeIdx thr (startOf N B) (sortedElems thr B))[k]? = some idx

/-- every blob of every kept blob transaction is placed somewhere -/
theorem every_blob_is_placed (thr : Nat) (N : List Bytes) (B : List BlobTx) (p j : Nat) (t : BlobTx) (bl : Blob)
    (hp : B[p]? = some t) (hj : t.blobs[j]? = some bl) :
    ∃ k idx, Placed thr N B k (newElement bl p j thr) idx := by
  have hmem : newElement bl p j thr ∈ sortedElems thr B :=
    (sortedElems_perm thr B).mem_iff.mpr (allElements_complete thr B p j t bl hp hj)
  obtain ⟨k, hk, hke⟩ := List.mem_iff_getElem.mp hmem
  have hk' : k < (placeIdx thr (startOf N B) (sortedElems thr B)).length := by rw [placeIdx_length]; exact hk
  exact ⟨k, _, by rw [List.getElem?_eq_getElem hk, hke], List.getElem?_eq_getElem hk'⟩

/-- **C04 (truthful, aligned).** For the `k`-th written blob `e` placed at `idx`: the wrapper of its
    blob transaction (`e.pfbIndex`) — the one marshalled into the square's pay-for-blob shares —
    keeps the inner transaction and type id, has one index per blob and records `idx` at position
    `e.blobIndex`; the blob's own share encoding appears verbatim at share index `idx` of the
    square; `idx` is a multiple of the blob's subtree width. -/
theorem recorded_index_is_truthful (thr : Nat) (N : List Bytes) (B : List BlobTx) (ss : Nat)
    (hv : ∀ t ∈ B, ∀ bl ∈ t.blobs, bl.BlobValid)
    (h1 : (compactSeq txNamespace N).length +
        (compactSeq payForBlobNamespace ((patched thr N B).map (·.marshal))).length ≤
        firstIdx thr (startOf N B) (sortedElems thr B))
    (k : Nat) (e : Element) (idx : Nat) (hpl : Placed thr N B k e idx) :
    (∃ iw t, (patched thr N B)[e.pfbIndex]? = some iw ∧ B[e.pfbIndex]? = some t ∧ iw.tx = t.tx ∧
      iw.typeId = indexWrapperTypeId ∧ iw.shareIndexes.length = t.blobs.length ∧
      iw.shareIndexes[e.blobIndex]? = some (u32 idx)) ∧
    ((squareOf thr N B ss).drop idx).take e.numShares = sparseSeq e.blob ∧
    e.numShares = (sparseSeq e.blob).length ∧
    idx % subTreeWidth e.numShares thr = 0 := by
  obtain ⟨he, hi⟩ := hpl
  obtain ⟨hk, hke⟩ := List.getElem?_eq_some_iff.mp he
  obtain ⟨hk', hki⟩ := List.getElem?_eq_some_iff.mp hi
  refine ⟨patched_records thr N B k e idx he hi, ?_, ?_, ?_⟩
  · have := squareOf_blob_at thr N B ss hv h1 k hk
    rw [hke, hki] at this
    exact this
  · have := eok_sortedElems thr B hv e (by rw [← hke]; exact List.getElem_mem hk)
    exact this.2
  · have := placeIdx_aligned' thr (sortedElems thr B) (startOf N B) k hk
    rw [hke, hki] at this
    exact this

/-- **C04 (disjoint, ordered).** Blobs written earlier end before blobs written later begin; the
    write order is the namespace order, and among equal namespaces the order of (transaction
    position, blob position). -/
theorem ranges_disjoint_and_ordered (thr : Nat) (N : List Bytes) (B : List BlobTx)
    (k1 k2 : Nat) (e1 e2 : Element) (i1 i2 : Nat) (hlt : k1 < k2)
    (h1 : Placed thr N B k1 e1 i1) (h2 : Placed thr N B k2 e2 i2) :
    i1 + e1.numShares ≤ i2 ∧ cmpBytes e1.blob.ns e2.blob.ns ≤ 0 ∧
    (e1.blob.ns = e2.blob.ns →
      (e1.pfbIndex < e2.pfbIndex ∨ (e1.pfbIndex = e2.pfbIndex ∧ e1.blobIndex < e2.blobIndex))) := by
  obtain ⟨he1, hi1⟩ := h1
  obtain ⟨he2, hi2⟩ := h2
  obtain ⟨hk1, hke1⟩ := List.getElem?_eq_some_iff.mp he1
  obtain ⟨hk2, hke2⟩ := List.getElem?_eq_some_iff.mp he2
  obtain ⟨hk1', hki1⟩ := List.getElem?_eq_some_iff.mp hi1
  obtain ⟨hk2', hki2⟩ := List.getElem?_eq_some_iff.mp hi2
  refine ⟨?_, ?_, ?_⟩
  · have := placeIdx_ordered thr (sortedElems thr B) (startOf N B) k1 k2 hlt hk2
    rw [hke1, hki1, hki2] at this
    exact this
  · have := List.pairwise_iff_getElem.mp (sortedElems_sorted thr B) k1 k2 hk1 hk2 hlt
    rw [hke1, hke2] at this
    exact this
  · have := List.pairwise_iff_getElem.mp (sortedElems_stable thr B) k1 k2 hk1 hk2 hlt
    rw [hke1, hke2] at this
    exact this

/-- **C04 on `Construct`.** Whenever `Construct` returns a square, every blob `j` of every blob
    transaction `p` (counted among the blob transactions) has a recorded, truthful, aligned index. -/
theorem construct_indexes (dec : Bytes → Decoded) (hdec : DecValid dec) (txs : List Bytes) (max thr : Nat)
    (hsz : 478 * (max * max) < 4294967296) (sq : List Bytes) (h : construct dec txs max thr = .ok sq) :
    ∃ N bl, txs = N ++ bl ∧
      ∀ (p j : Nat) (raw : Bytes) (b : Blob), bl[p]? = some raw → (decB dec raw).blobs[j]? = some b →
        ∃ k idx iw, Placed thr N (bl.map (decB dec)) k (newElement b p j thr) idx ∧
          (patched thr N (bl.map (decB dec)))[p]? = some iw ∧ iw.tx = (decB dec raw).tx ∧
          iw.shareIndexes[j]? = some (u32 idx) ∧
          (sq.drop idx).take (sparseSeq b).length = sparseSeq b ∧
          idx % subTreeWidth (sparseSeq b).length thr = 0 := by
  obtain ⟨N, bl, e, _, hbl, _, hsq⟩ := construct_square dec hdec txs max thr hsz sq h
  refine ⟨N, bl, e, ?_⟩
  intro p j raw b hp hj
  have hB : (bl.map (decB dec))[p]? = some (decB dec raw) := by rw [List.getElem?_map, hp]; rfl
  obtain ⟨k, idx, hpl⟩ := every_blob_is_placed thr N (bl.map (decB dec)) p j _ b hB hj
  rcases hsq with ⟨_, hbe, _⟩ | ⟨_, hsqe, g1, _, _⟩
  · subst hbe; simp at hp
  · have hv := decValid_kept dec hdec bl hbl
    obtain ⟨⟨iw, t, r1, r2, r3, _, _, r6⟩, r7, r8, r9⟩ :=
      recorded_index_is_truthful thr N (bl.map (decB dec)) _ hv g1 k _ idx hpl
    simp only [newElement] at r1 r2 r6
    rw [hB] at r2
    simp only [Option.some.injEq] at r2
    subst r2
    have r8' : (newElement b p j thr).numShares = (sparseSeq b).length := r8
    have r7' : ((squareOf thr N (bl.map (decB dec)) (blobMinSquareSize (closedEstimate thr N (bl.map (decB dec))))).drop idx).take
        (newElement b p j thr).numShares = sparseSeq b := r7
    refine ⟨k, idx, iw, hpl, r1, r3, r6, ?_, ?_⟩
    · rw [hsqe, ← r8']; exact r7'
    · rw [← r8']; exact r9

end GoSquare.C04
