import GoSquare.Model.Arith
/-! Helper lemmas for C13: the three phases of `Counter.add` against the closed-form position. -/
namespace GoSquare

/-- (stacked shares, bytes used in the pending share) after `T` bytes of a compact sequence. -/
def posOf (T : Nat) : Nat × Nat :=
  if T < 474 then (0, T) else (1 + (T - 474) / 478, (T - 474) % 478)

/-- number of shares a compact sequence of `T` bytes occupies. -/
def sizeOf (T : Nat) : Nat := if (posOf T).2 = 0 then (posOf T).1 else (posOf T).1 + 1

/-- the state of a counter that has counted `T` bytes (the `last*` fields are free). -/
def Counter.At (c : Counter) (T : Nat) : Prop := c.shares = (posOf T).1 ∧ c.remainder = (posOf T).2

theorem posOf_rem_lt (T : Nat) : (posOf T).2 < 478 := by
  unfold posOf; split <;> simp <;> omega

theorem Counter.size_of_at {c : Counter} {T : Nat} (h : c.At T) : c.size = sizeOf T := by
  unfold Counter.size sizeOf; rw [h.1, h.2]

theorem sizeOf_eq_compactSharesNeeded (T : Nat) : sizeOf T = compactSharesNeeded T := by
  unfold sizeOf posOf compactSharesNeeded
  by_cases h0 : T = 0
  · subst h0; simp
  · by_cases h1 : T < 474
    · simp [h0, h1]
    · simp only [h0, h1, if_false]
      by_cases h2 : (T - 474) % 478 = 0
      · simp [h2]
      · have : (T - 474) % 478 > 0 := by omega
        simp [h2, this]; omega

/-- the phases of `Add` move the closed-form position by `d` bytes -/
theorem Counter.advance_pos (T d : Nat) : Counter.advance (posOf T).1 (posOf T).2 d = posOf (T + d) := by
  unfold Counter.advance posOf
  by_cases h1 : T < 474
  · simp only [h1, if_true]
    by_cases h2 : d ≥ 474 - T
    · simp only [h2, if_true]
      have hT : ¬ (T + d < 474) := by omega
      by_cases h3 : d - (474 - T) ≥ 478 - 0
      · simp only [h3, if_true]
        by_cases h4 : d - (474 - T) - (478 - 0) > 0
        · simp only [h4, if_true, hT, if_false]
          ext <;> simp <;> omega
        · simp only [h4, if_false, hT]
          ext <;> simp <;> omega
      · simp only [h3, if_false]
        simp [hT]
        omega
    · simp only [h2, if_false]
      have : (0 ≥ 478 - (T + d)) = False := by simp; omega
      simp [this]
      omega
  · simp only [h1, if_false]
    have hs : ¬ (1 + (T - 474) / 478 = 0) := by omega
    have hT : ¬ (T + d < 474) := by omega
    simp only [hs, if_false, hT]
    by_cases h3 : d ≥ 478 - (T - 474) % 478
    · simp only [h3, if_true]
      by_cases h4 : d - (478 - (T - 474) % 478) > 0
      · simp only [h4, if_true]
        ext <;> simp <;> omega
      · simp only [h4, if_false]
        ext <;> simp <;> omega
    · simp only [h3, if_false]
      have : ¬ (0 > 0) := by omega
      simp only [this, if_false]
      ext <;> simp <;> omega

/-- One `Add` from a state that has counted `T` bytes reaches the state for `T + d`, where
    `d = dataLen + delimLen dataLen`, and remembers the previous state. -/
theorem Counter.add_at (c : Counter) (T n : Nat) (h : c.At T) :
    (c.add n).1.At (T + (n + uvarintLen n)) ∧
    (c.add n).1.lastShares = c.shares ∧ (c.add n).1.lastRemainder = c.remainder := by
  obtain ⟨hs, hr⟩ := h
  unfold Counter.add Counter.At
  simp only
  rw [hs, hr, Counter.advance_pos]
  exact ⟨⟨rfl, rfl⟩, trivial, trivial⟩

/-- `Add` returns exactly the change of `Size()` — in every state. -/
theorem Counter.add_diff (c : Counter) (n : Nat) :
    (c.add n).2 = ((c.add n).1.size : Int) - (c.size : Int) := by
  unfold Counter.add Counter.size
  simp only
  generalize Counter.advance c.shares c.remainder (n + uvarintLen n) = p
  obtain ⟨s, r⟩ := p
  simp only
  by_cases h1 : c.remainder = 0 <;> by_cases h2 : r = 0 <;> simp [h1, h2] <;> omega

end GoSquare
