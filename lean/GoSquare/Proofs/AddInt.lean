import GoSquare.Model.Namespace
import GoSquare.Proofs.Bytes
/-! C18, arithmetic part: `Namespace.AddInt` (`Ns.addInt`, the transliteration of go-square's
    byte-wise add/subtract-with-carry loop) is exact big-endian integer addition.

    Everything below is fully proved (nothing assumed, only the three standard axioms) for every byte string `n` with
    `8 ≤ n.length` (namespaces have 29 bytes) and every Go `int` value `-(2^63) ≤ val < 2^63`,
    including `val = 0` (returned unchanged) and `val = MinInt64` (magnitude `2^63`):

    * `beVal` is the big-endian value of a byte string (`beVal_nil`, `beVal_append_singleton`,
      `beVal_cons`, `beVal_lt`), injective on strings of equal length (`beVal_inj`).
    * `addLoop_inv`: the carry-loop invariant (little-endian values, carry in `{-1,0,1}`).
    * `addInt_exact`: if `0 ≤ beVal n + val < 256 ^ n.length` then `addInt n val = some r` with
      `r.length = n.length` and `beVal r = beVal n + val`; otherwise `addInt n val = none`.
    * `addInt_eq_some_iff`, `addInt_eq_none_iff`: the same as two iff characterisations
      (`none` exactly on underflow `beVal n + val < 0` or overflow `256 ^ n.length ≤ beVal n + val`).
    * `addInt_neg_undoes`: if `addInt n val = some r` and `-(2^63) < val` then
      `addInt r (-val) = some n`.
    * concrete instances checked by `decide`.

    The hypothesis `8 ≤ n.length` is needed because the model zero-extends/truncates the 29-byte
    addend to the length of `n`; with fewer than 8 bytes the magnitude itself would be truncated. -/
namespace GoSquare

/-- little-endian value (least significant byte first): the order in which the loop runs -/
def leVal : Bytes → Nat
  | [] => 0
  | b :: bs => b.toNat + 256 * leVal bs

/-- big-endian value of a byte string (most significant byte first) -/
def beVal (bs : Bytes) : Nat := bs.foldl (fun acc b => 256 * acc + b.toNat) 0

theorem leVal_append (l1 l2 : Bytes) : leVal (l1 ++ l2) = leVal l1 + 256 ^ l1.length * leVal l2 := by
  induction l1 with
  | nil => simp [leVal]
  | cons a l1 ih =>
    simp only [List.cons_append, leVal, ih, List.length_cons, Nat.pow_succ]
    grind

theorem foldl_be (l : Bytes) (acc : Nat) :
    l.foldl (fun acc b => 256 * acc + b.toNat) acc = acc * 256 ^ l.length + leVal l.reverse := by
  induction l generalizing acc with
  | nil => simp [leVal]
  | cons a l ih =>
    simp only [List.foldl_cons, ih, List.reverse_cons, leVal_append, List.length_cons, Nat.pow_succ, leVal, List.length_reverse]
    grind

theorem beVal_eq_leVal_reverse (l : Bytes) : beVal l = leVal l.reverse := by
  simp [beVal, foldl_be]

@[simp] theorem beVal_nil : beVal [] = 0 := rfl

theorem beVal_append_singleton (bs : Bytes) (b : UInt8) :
    beVal (bs ++ [b]) = 256 * beVal bs + b.toNat := by
  simp [beVal]

theorem beVal_cons (b : UInt8) (bs : Bytes) :
    beVal (b :: bs) = b.toNat * 256 ^ bs.length + beVal bs := by
  rw [beVal_eq_leVal_reverse, beVal_eq_leVal_reverse, List.reverse_cons, leVal_append]
  simp [leVal, Nat.mul_comm, Nat.add_comm]

theorem leVal_lt (l : Bytes) : leVal l < 256 ^ l.length := by
  induction l with
  | nil => simp [leVal]
  | cons a l ih =>
    have := a.toNat_lt
    simp only [leVal, List.length_cons, Nat.pow_succ]
    omega

theorem addLoop_inv (neg : Bool) : ∀ (as bs : Bytes) (c : Int), (c = -1 ∨ c = 0 ∨ c = 1) →
    (Ns.addLoop neg as bs c).1.length = as.length ∧
    ((Ns.addLoop neg as bs c).2 = -1 ∨ (Ns.addLoop neg as bs c).2 = 0 ∨ (Ns.addLoop neg as bs c).2 = 1) ∧
    (leVal (Ns.addLoop neg as bs c).1 : Int) + (Ns.addLoop neg as bs c).2 * ((256 ^ as.length : Nat) : Int)
      = (leVal as : Int) + (if neg then -(leVal (bs.take as.length) : Int) else (leVal (bs.take as.length) : Int)) + c := by
  intro as
  induction as with
  | nil => intro bs c hc; simp [Ns.addLoop, leVal, hc]
  | cons a as ih =>
    intro bs c hc
    have ha := a.toNat_lt
    have hb := (bs.headD 0).toNat_lt
    have htake : leVal (bs.take (as.length + 1)) = (bs.headD 0).toNat + 256 * leVal (bs.tail.take as.length) := by
      cases bs <;> simp [leVal]
    simp only [Ns.addLoop, List.length_cons, htake]
    generalize hs : (if neg = true then (a.toNat : Int) - (bs.headD 0).toNat + c else (a.toNat : Int) + (bs.headD 0).toNat + c) = sum
    have hsum : sum = (a.toNat : Int) + (if neg then -((bs.headD 0).toNat : Int) else (bs.headD 0).toNat) + c := by
      subst hs; cases neg <;> simp <;> omega
    generalize hp : (if sum > 255 then (sum - 256, (1:Int)) else if sum < 0 then (sum + 256, (-1:Int)) else (sum, (0:Int))) = p
    obtain ⟨s, c1⟩ := p
    have hsc : 0 ≤ s ∧ s ≤ 255 ∧ s + 256 * c1 = sum ∧ (c1 = -1 ∨ c1 = 0 ∨ c1 = 1) := by
      have hbnd : -256 ≤ sum ∧ sum ≤ 511 := by
        cases neg <;> simp at hsum <;> omega
      by_cases h1 : sum > 255
      · simp [h1] at hp; omega
      · by_cases h2 : sum < 0
        · simp [h1, h2] at hp; omega
        · simp [h1, h2] at hp; omega
    obtain ⟨hs0, hs1, hs2, hc1⟩ := hsc
    obtain ⟨i1, i2, i3⟩ := ih bs.tail c1 hc1
    simp only
    generalize Ns.addLoop neg as bs.tail c1 = q at i1 i2 i3 ⊢
    obtain ⟨rest, c'⟩ := q
    simp only at i1 i2 i3 ⊢
    have hbyte : (s.toNat.toUInt8).toNat = s.toNat := toUInt8_toNat_of_lt (by omega)
    refine ⟨by omega, i2, ?_⟩
    simp only [leVal, hbyte, Nat.pow_succ]
    generalize 256 ^ as.length = P at i3 ⊢
    generalize leVal (List.take as.length (List.tail bs)) = T at i3 ⊢
    have hst : ((s.toNat : Nat) : Int) = s := Int.toNat_of_nonneg hs0
    cases neg
    · simp only [Bool.false_eq_true, if_false] at i3 hsum ⊢
      rcases i2 with h | h | h <;> subst h <;> omega
    · simp only [if_true] at i3 hsum ⊢
      rcases i2 with h | h | h <;> subst h <;> omega

theorem leVal_zeros (k : Nat) : leVal (zeros k) = 0 := by
  induction k with
  | zero => simp [zeros, leVal]
  | succ k ih => simp only [zeros, List.replicate_succ, leVal] at ih ⊢; simp [ih]

theorem leVal_be64_reverse (m : Nat) (h : m < 2 ^ 64) : leVal (be64 m).reverse = m := by
  simp only [be64, be32, List.cons_append, List.nil_append, List.reverse_cons, List.reverse_nil, leVal]
  repeat rw [toUInt8_toNat_of_lt (Nat.mod_lt _ (by omega))]
  omega

theorem leVal_addend_take (m k : Nat) (h : m < 2 ^ 64) (hk : 8 ≤ k) :
    leVal ((zeros 21 ++ be64 m).reverse.take k) = m := by
  have hl : (be64 m).reverse.length = 8 := by simp [be64]
  rw [List.reverse_append, List.take_append, List.take_of_length_le (by omega), leVal_append]
  have : List.take (k - (be64 m).reverse.length) (zeros 21).reverse = zeros (min (k - 8) 21) := by
    rw [hl]; unfold zeros; rw [List.reverse_replicate, List.take_replicate]
  rw [this, leVal_zeros, leVal_be64_reverse m h]; simp

theorem addInt_core (n : Bytes) (val : Int) (hlen : 8 ≤ n.length) (hne : val ≠ 0)
    (hlo : -(2 ^ 63 : Int) ≤ val) (hhi : val < 2 ^ 63) :
    ∃ (res : Bytes) (carry : Int), (carry = -1 ∨ carry = 0 ∨ carry = 1) ∧ res.length = n.length ∧
      (beVal res : Int) + carry * ((256 ^ n.length : Nat) : Int) = (beVal n : Int) + val ∧
      Ns.addInt n val = if carry ≠ 0 then none else some res := by
  generalize hm : (if val > 0 then val.toNat else (-val).toNat) % 18446744073709551616 = mag
  have hmag : mag < 2 ^ 64 ∧ (if decide (val < 0) = true then -(mag : Int) else (mag : Int)) = val := by
    subst hm
    by_cases hp : val > 0
    · have : ¬ val < 0 := by omega
      simp only [hp, if_true, this, decide_false, Bool.false_eq_true, if_false]
      omega
    · have : val < 0 := by omega
      simp only [hp, if_false, this, decide_true, if_true]
      omega
  obtain ⟨hmag, hval⟩ := hmag
  obtain ⟨i1, i2, i3⟩ := addLoop_inv (decide (val < 0)) n.reverse (zeros 21 ++ be64 mag).reverse 0 (by simp)
  rw [List.length_reverse, leVal_addend_take mag n.length hmag hlen, hval] at i3
  rw [List.length_reverse] at i1
  refine ⟨(Ns.addLoop (decide (val < 0)) n.reverse (zeros 21 ++ be64 mag).reverse 0).1.reverse,
    (Ns.addLoop (decide (val < 0)) n.reverse (zeros 21 ++ be64 mag).reverse 0).2, i2, by simpa using i1, ?_, ?_⟩
  · rw [beVal_eq_leVal_reverse, beVal_eq_leVal_reverse, List.reverse_reverse]; omega
  · simp only [Ns.addInt, hne, if_false, hm]

theorem beVal_lt (l : Bytes) : beVal l < 256 ^ l.length := by
  rw [beVal_eq_leVal_reverse]; simpa using leVal_lt l.reverse

theorem leVal_inj : ∀ (a b : Bytes), a.length = b.length → leVal a = leVal b → a = b
  | [], [], _, _ => rfl
  | [], _ :: _, h, _ => by simp at h
  | _ :: _, [], h, _ => by simp at h
  | x :: as, y :: bs, h, hv => by
    have hx := x.toNat_lt
    have hy := y.toNat_lt
    simp only [leVal] at hv
    have h1 : x.toNat = y.toNat := by omega
    have h2 : leVal as = leVal bs := by omega
    rw [UInt8.toNat_inj.mp h1, leVal_inj as bs (by simpa using h) h2]

/-- The big-endian value is injective on byte strings of equal length. -/
theorem beVal_inj {a b : Bytes} (hl : a.length = b.length) (hv : beVal a = beVal b) : a = b := by
  rw [beVal_eq_leVal_reverse, beVal_eq_leVal_reverse] at hv
  exact List.reverse_inj.mp (leVal_inj _ _ (by simpa using hl) hv)

/-- Nat-cast form of `addInt_exact` (the power is a `Nat` power cast to `Int`). -/
theorem addInt_exact_aux (n : Bytes) (val : Int) (hlen : 8 ≤ n.length)
    (hlo : -(2 ^ 63 : Int) ≤ val) (hhi : val < 2 ^ 63) :
    (0 ≤ (beVal n : Int) + val ∧ (beVal n : Int) + val < ((256 ^ n.length : Nat) : Int) →
      ∃ r, Ns.addInt n val = some r ∧ r.length = n.length ∧ (beVal r : Int) = (beVal n : Int) + val) ∧
    (¬ (0 ≤ (beVal n : Int) + val ∧ (beVal n : Int) + val < ((256 ^ n.length : Nat) : Int)) →
      Ns.addInt n val = none) := by
  by_cases hz : val = 0
  · subst hz
    have := beVal_lt n
    refine ⟨fun _ => ⟨n, by simp [Ns.addInt], rfl, by simp⟩, fun h => absurd ?_ h⟩
    omega
  · obtain ⟨res, carry, hc, hl, hv, he⟩ := addInt_core n val hlen hz hlo hhi
    have hr := beVal_lt res
    rw [hl] at hr
    generalize 256 ^ n.length = P at hv hr ⊢
    rw [he]
    constructor
    · intro ⟨h0, h1⟩
      have : carry = 0 := by rcases hc with h | h | h <;> subst h <;> omega
      subst this
      exact ⟨res, by simp, hl, by omega⟩
    · intro h
      have : carry ≠ 0 := by
        intro h0; subst h0; apply h; omega
      simp [this]

/-- **AddInt is exact big-endian addition and fails exactly on overflow/underflow.**
    For a Go `int` `val` (int64 range) and a byte string of at least 8 bytes (namespaces: 29):
    in range, the result has the same length and value `beVal n + val`; out of range, an error. -/
theorem addInt_exact (n : Bytes) (val : Int) (hlen : 8 ≤ n.length)
    (hlo : -(2 ^ 63 : Int) ≤ val) (hhi : val < 2 ^ 63) :
    (0 ≤ (beVal n : Int) + val ∧ (beVal n : Int) + val < 256 ^ n.length →
      ∃ r, Ns.addInt n val = some r ∧ r.length = n.length ∧ (beVal r : Int) = (beVal n : Int) + val) ∧
    (¬ (0 ≤ (beVal n : Int) + val ∧ (beVal n : Int) + val < 256 ^ n.length) →
      Ns.addInt n val = none) := by
  have h := addInt_exact_aux n val hlen hlo hhi
  rwa [Int.natCast_pow] at h

/-- `AddInt` returns `r` iff `r` is the same-length string whose value is `beVal n + val`. -/
theorem addInt_eq_some_iff (n r : Bytes) (val : Int) (hlen : 8 ≤ n.length)
    (hlo : -(2 ^ 63 : Int) ≤ val) (hhi : val < 2 ^ 63) :
    Ns.addInt n val = some r ↔ r.length = n.length ∧ (beVal r : Int) = (beVal n : Int) + val := by
  obtain ⟨hs, hf⟩ := addInt_exact_aux n val hlen hlo hhi
  constructor
  · intro h
    by_cases hin : 0 ≤ (beVal n : Int) + val ∧ (beVal n : Int) + val < ((256 ^ n.length : Nat) : Int)
    · obtain ⟨r', he, hl, hv⟩ := hs hin
      rw [h] at he; cases he
      exact ⟨hl, hv⟩
    · rw [hf hin] at h; cases h
  · intro ⟨hl, hv⟩
    have hr := beVal_lt r
    rw [hl] at hr
    obtain ⟨r', he, hl', hv'⟩ := hs (by omega)
    rw [he, beVal_inj (a := r') (b := r) (by omega) (by omega)]

/-- `AddInt` errors iff the exact sum underflows (`< 0`) or overflows (`≥ 256 ^ length`). -/
theorem addInt_eq_none_iff (n : Bytes) (val : Int) (hlen : 8 ≤ n.length)
    (hlo : -(2 ^ 63 : Int) ≤ val) (hhi : val < 2 ^ 63) :
    Ns.addInt n val = none ↔
      (beVal n : Int) + val < 0 ∨ 256 ^ n.length ≤ (beVal n : Int) + val := by
  obtain ⟨hs, hf⟩ := addInt_exact n val hlen hlo hhi
  constructor
  · intro h
    by_cases hin : 0 ≤ (beVal n : Int) + val ∧ (beVal n : Int) + val < 256 ^ n.length
    · obtain ⟨r', he, _, _⟩ := hs hin
      rw [h] at he; cases he
    · omega
  · intro h
    exact hf (by omega)

/-- **Adding the negation undoes an addition** (whenever `-val` is itself an int64). -/
theorem addInt_neg_undoes (n r : Bytes) (val : Int) (hlen : 8 ≤ n.length)
    (hlo : -(2 ^ 63 : Int) < val) (hhi : val < 2 ^ 63)
    (h : Ns.addInt n val = some r) : Ns.addInt r (-val) = some n := by
  obtain ⟨hl, hv⟩ := (addInt_eq_some_iff n r val hlen (by omega) hhi).mp h
  exact (addInt_eq_some_iff r n (-val) (by omega) (by omega) (by omega)).mpr ⟨hl.symm, by omega⟩

/-- the 29-byte namespace instance of `addInt_exact` -/
theorem addInt_exact_29 (n : Bytes) (val : Int) (hlen : n.length = 29)
    (hlo : -(2 ^ 63 : Int) ≤ val) (hhi : val < 2 ^ 63) :
    (0 ≤ (beVal n : Int) + val ∧ (beVal n : Int) + val < 256 ^ 29 →
      ∃ r, Ns.addInt n val = some r ∧ r.length = 29 ∧ (beVal r : Int) = (beVal n : Int) + val) ∧
    (¬ (0 ≤ (beVal n : Int) + val ∧ (beVal n : Int) + val < 256 ^ 29) →
      Ns.addInt n val = none) := by
  have h := addInt_exact n val (by omega) hlo hhi
  rwa [hlen] at h

/-! Concrete instances. -/

/-- `0x00…00FF + 1 = 0x00…0100` -/
example : Ns.addInt (zeros 27 ++ [0x00, 0xFF]) 1 = some (zeros 27 ++ [0x01, 0x00]) := by decide
/-- and back -/
example : Ns.addInt (zeros 27 ++ [0x01, 0x00]) (-1) = some (zeros 27 ++ [0x00, 0xFF]) := by decide
/-- overflow: all-`0xFF` plus one -/
example : Ns.addInt (List.replicate 29 0xFF) 1 = none := by decide
/-- underflow: zero minus one -/
example : Ns.addInt (zeros 29) (-1) = none := by decide
/-- `MinInt64`: the magnitude is `2^63` -/
example : Ns.addInt (zeros 20 ++ [0x01] ++ zeros 8) (-9223372036854775808) =
    some (zeros 21 ++ [0x80] ++ zeros 7) := by decide
example : beVal (zeros 27 ++ [0x01, 0x00]) = 256 := by decide

end GoSquare
