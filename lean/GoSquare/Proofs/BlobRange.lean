import GoSquare.Proofs.C04Core
/-! C04, last clause: `square.BlobShareRange` returns exactly the recorded start index of the blob
    and the end of the blob's own shares. -/
namespace GoSquare
open Builder Spec

/-! ### the `done` flag after `NewBuilder(max, thr, txs...)` -/

theorem appendTx_done (b : Builder) (t : Bytes) (h : (b.appendTx t).2 = true) :
    (b.appendTx t).1.done = false := by
  unfold Builder.appendTx at h ⊢
  simp only at h ⊢
  split
  · rfl
  · rename_i hc
    rw [if_neg hc] at h
    cases h

theorem appendBlobTx_done (b : Builder) (t : BlobTx) (h : (b.appendBlobTx t).2 = true) :
    (b.appendBlobTx t).1.done = false := by
  unfold Builder.appendBlobTx at h ⊢
  simp only at h ⊢
  split
  · rfl
  · rename_i hc
    rw [if_neg hc] at h
    cases h

/-- the transaction loop of `NewBuilder` never leaves the builder in the exported state -/
theorem appendAll_done (dec : Bytes → Decoded) : ∀ (txs : List Bytes) (b : Builder) (seen : Bool) (b' : Builder),
    appendAll dec txs b seen = .ok b' → b.done = false → b'.done = false
  | [], b, seen, b', h, hd => by
    simp only [appendAll, Except.ok.injEq] at h
    subst h
    exact hd
  | t :: rest, b, seen, b', h, hd => by
    rw [appendAll] at h
    cases hdt : dec t with
    | badBlobTx => rw [hdt] at h; cases h
    | normal =>
      rw [hdt] at h
      simp only at h
      by_cases hs : seen = true
      · rw [if_pos hs] at h; cases h
      · rw [if_neg hs] at h
        by_cases ha : (b.appendTx t).2 = true
        · rw [ha] at h
          simp only [if_true] at h
          exact appendAll_done dec rest _ false b' h (appendTx_done b t ha)
        · have ha' : (b.appendTx t).2 = false := by simpa using ha
          rw [ha'] at h
          simp at h
    | blobTx bt =>
      rw [hdt] at h
      simp only at h
      by_cases ha : (b.appendBlobTx bt).2 = true
      · rw [ha] at h
        simp only [if_true] at h
        exact appendAll_done dec rest _ true b' h (appendBlobTx_done b bt ha)
      · have ha' : (b.appendBlobTx bt).2 = false := by simpa using ha
        rw [ha'] at h
        simp at h

theorem new_done (max thr : Nat) (b : Builder) (h : Builder.new max thr = .ok b) : b.done = false := by
  unfold Builder.new at h
  split at h
  · cases h
  · split at h
    · cases h
    · simp only [Except.ok.injEq] at h
      subst h
      rfl

/-! ### lookup by key in a list with pairwise distinct keys -/

theorem find?_key (p j : Nat) : ∀ (l : List Element) (e : Element),
    l.Pairwise KeyNe → e ∈ l → e.pfbIndex = p → e.blobIndex = j →
    l.find? (fun x => x.pfbIndex == p && x.blobIndex == j) = some e
  | [], e, _, he, _, _ => by simp at he
  | a :: l, e, hpw, he, hp, hj => by
    rw [List.pairwise_cons] at hpw
    obtain ⟨hhead, htail⟩ := hpw
    by_cases hae : a = e
    · subst hae
      rw [List.find?_cons]
      simp [hp, hj]
    · have hel : e ∈ l := by
        rcases List.mem_cons.mp he with h | h
        · exact absurd h.symm hae
        · exact h
      have hne : ¬ (a.pfbIndex = e.pfbIndex ∧ a.blobIndex = e.blobIndex) := hhead e hel
      rw [hp, hj] at hne
      rw [List.find?_cons]
      have : (a.pfbIndex == p && a.blobIndex == j) = false := by
        cases h1 : (a.pfbIndex == p && a.blobIndex == j) with
        | false => rfl
        | true =>
          exfalso
          simp only [Bool.and_eq_true, beq_iff_eq] at h1
          exact hne h1
      rw [this]
      exact find?_key p j l e htail hel hp hj

theorem sortedElems_keys (thr : Nat) (B : List BlobTx) : (sortedElems thr B).Pairwise KeyNe :=
  (List.Perm.pairwise_iff (fun {x y} (h : KeyNe x y) hc => h ⟨hc.1.symm, hc.2.symm⟩) (sortedElems_perm thr B)).mpr
    (allElements_keys thr B).1

/-! ### `BlobShareRange` -/

/-- (C04) `square.BlobShareRange(txs, txIndex, blobIndex)` returns exactly the recorded start index
    and the end of the blob's own shares. `txIndex = N.length + p` is the position of the blob
    transaction in the input list (ordinary transactions first), `j` the blob's position in it. -/
theorem blobShareRange_spec (dec : Bytes → Decoded) (hdec : DecValid dec) (txs : List Bytes) (max thr : Nat)
    (hsz : 478 * (max * max) < 4294967296) (b0 : Builder) (hb0 : Builder.newWithTxs dec max thr txs = .ok b0) :
    ∃ N bl, txs = N ++ bl ∧ (∀ r ∈ N, dec r = .normal) ∧ (∀ r ∈ bl, dec r = .blobTx (decB dec r)) ∧
      ∀ (p j : Nat) (raw : Bytes) (blob : Blob), bl[p]? = some raw → (decB dec raw).blobs[j]? = some blob →
        ∀ (sq : List Bytes) (b1 : Builder), b0.exportSquare = .ok (b1, sq) →
        ∃ k idx, C04.Placed thr N (bl.map (decB dec)) k (newElement blob p j thr) idx ∧
          blobShareRange dec txs ((N.length + p : Nat) : Int) ((j : Nat) : Int) max thr =
            .ok (u32 idx, u32 idx + (sparseSeq blob).length) := by
  have hb0' := hb0
  unfold Builder.newWithTxs at hb0'
  obtain ⟨bn, hnew, hall⟩ := res_bind_ok' hb0'
  obtain ⟨hk0, ht0, hm0⟩ := kept_new max thr bn hnew
  obtain ⟨N, bl, e, hk, hthr, hmx, hbl, hn⟩ := appendAll_spec dec txs bn false [] [] b0
    (by simpa using hk0) (by simp) (by simp) hall
  simp only [List.nil_append] at hk hbl hn
  have hbthr : b0.thr = thr := by rw [hthr, ht0]
  have hbmax : b0.maxSquareSize = max := by rw [hmx, hm0]
  have hdone : b0.done = false := appendAll_done dec txs bn false b0 hall (new_done max thr bn hnew)
  refine ⟨N, bl, e, hn, hbl, ?_⟩
  intro p j raw blob hp hj sq b1 hexp
  have hB : (bl.map (decB dec))[p]? = some (decB dec raw) := by rw [List.getElem?_map, hp]; rfl
  obtain ⟨k, idx, hpl⟩ := C04.every_blob_is_placed thr N (bl.map (decB dec)) p j _ blob hB hj
  refine ⟨k, idx, hpl, ?_⟩
  have hv := decValid_kept dec hdec bl hbl
  have hplt : p < bl.length := (List.getElem?_eq_some_iff.mp hp).1
  rcases export_kept b0 N _ hk hv (by rw [hbmax]; exact hsz) b1 sq hexp with ⟨_, h2, _⟩ | ⟨_, h2⟩
  · exfalso
    have : bl = [] := by simpa using h2
    subst this
    simp at hp
  · simp only at h2
    obtain ⟨_, g1, g2, g3, _, _⟩ := h2
    rw [hbthr] at g1 g2
    obtain ⟨iw, t, r1, _, _, _, _, r6⟩ := patched_records thr N (bl.map (decB dec)) k _ idx hpl.1 hpl.2
    simp only [newElement] at r1 r6
    have hpfl : b0.pfbs.length = bl.length := by rw [hk.pfbs, List.length_map, List.length_map]
    have hpfl1 : b1.pfbs.length = bl.length := by
      rw [g2]
      unfold patched
      rw [(patchAll_frame thr _ _ _).1]
      unfold worstWrappers
      rw [List.length_map, List.length_map]
    have hcast : (((N.length + p : Nat) : Int) - (N.length : Int)).toNat = p := by omega
    have hens : b0.ensureExported = .ok b1 := by
      unfold Builder.ensureExported
      rw [hdone]
      simp only [Bool.false_eq_true, if_false]
      rw [hexp]
      rfl
    have hfind : b0.findBlobStartingIndex ((N.length + p : Nat) : Int) ((j : Nat) : Int) = .ok (b1, u32 idx) := by
      unfold Builder.findBlobStartingIndex
      rw [hk.txs]
      rw [if_neg (by omega)]
      simp only [hcast]
      rw [if_neg (by omega), if_neg (by omega), hens]
      show (match b1.pfbs[p]? with
        | none => Except.error Err.panic
        | some iw => match iw.shareIndexes[((j : Nat) : Int).toNat]? with
          | none => Except.error Err.err
          | some v => Except.ok (b1, v)) = _
      rw [g2, r1]
      simp only [Int.toNat_natCast]
      rw [r6]
    have hmem : newElement blob p j thr ∈ sortedElems thr (bl.map (decB dec)) := List.mem_of_getElem? hpl.1
    have hnum : (newElement blob p j thr).numShares = (sparseSeq blob).length :=
      (eok_sortedElems thr _ hv _ hmem).2
    have hlen : b1.blobShareLength ((N.length + p : Nat) : Int) ((j : Nat) : Int) = .ok (sparseSeq blob).length := by
      unfold Builder.blobShareLength
      rw [g3]
      rw [if_neg (by omega)]
      simp only [hcast]
      rw [if_neg (by omega), if_neg (by omega)]
      simp only [Int.toNat_natCast]
      rw [g1, find?_key p j _ _ (sortedElems_keys thr _) hmem rfl rfl]
      show Except.ok (newElement blob p j thr).numShares = _
      rw [hnum]
    unfold blobShareRange
    rw [hb0]
    show (b0.findBlobStartingIndex _ _ >>= _) = _
    rw [hfind]
    show (b1.blobShareLength _ _ >>= _) = _
    rw [hlen]
    rfl

end GoSquare
