import GoSquare.Proofs.Counter
import GoSquare.Model.Builder
/-! The builder's running estimate against the closed-form worst-case rule (C06, C01, C07):
    an invariant over every append history. -/
namespace GoSquare

/-- bytes a unit occupies in a compact sequence -/
def unitBytes (n : Nat) : Nat := n + uvarintLen n

/-- worst-case wrapped PFB size of a blob transaction (placeholder index for every blob) -/
def worstLen (t : BlobTx) : Nat := (newIndexWrapper t.tx (worstCaseShareIndexes t.blobs.length)).size

/-- shares reserved for one blob: its shares plus worst-case padding (subtree width − 1) -/
def reservation (thr : Nat) (b : Blob) : Nat :=
  (newElement b 0 0 thr).maxShareOffset

theorem reservation_eq (thr : Nat) (b : Blob) (p j : Nat) : (newElement b p j thr).maxShareOffset = reservation thr b := rfl

/-- the closed-form worst-case estimate after keeping `normals` and `btxs` -/
def closedEstimate (thr : Nat) (normals : List Bytes) (btxs : List BlobTx) : Nat :=
  sizeOf ((normals.map (fun t => unitBytes t.length)).sum) +
  sizeOf ((btxs.map (fun t => unitBytes (worstLen t))).sum) +
  ((btxs.map (fun t => (t.blobs.map (reservation thr)).sum)).sum)

/-- the elements `AppendBlobTx` creates for the `p`-th kept blob transaction -/
def elementsOf (thr p : Nat) (t : BlobTx) : List Element := t.blobs.mapIdx (fun j b => newElement b p j thr)

/-- all elements of the kept blob transactions, in append order -/
def allElements (thr : Nat) (btxs : List BlobTx) : List Element :=
  (btxs.mapIdx (fun p t => elementsOf thr p t)).flatten

/-- the state of a builder that has kept exactly `normals` and `btxs` (append-only history) -/
structure Kept (b : Builder) (normals : List Bytes) (btxs : List BlobTx) : Prop where
  txs : b.txs = normals
  pfbs : b.pfbs = btxs.map (fun t => newIndexWrapper t.tx (worstCaseShareIndexes t.blobs.length))
  blobs : b.blobs = allElements b.thr btxs
  txC : b.txCounter.At ((normals.map (fun t => unitBytes t.length)).sum)
  pfbC : b.pfbCounter.At ((btxs.map (fun t => unitBytes (worstLen t))).sum)
  size : b.currentSize = (closedEstimate b.thr normals btxs : Nat)
  fit : closedEstimate b.thr normals btxs ≤ b.maxSquareSize * b.maxSquareSize

theorem sizeOf_mono {a b : Nat} (h : a ≤ b) : sizeOf a ≤ sizeOf b := by
  rw [sizeOf_eq_compactSharesNeeded, sizeOf_eq_compactSharesNeeded]
  unfold compactSharesNeeded
  by_cases ha0 : a = 0
  · simp [ha0]
  · have hb0 : ¬ b = 0 := by omega
    simp only [ha0, hb0, if_false]
    by_cases ha : a < 474
    · simp only [ha, if_true]; split <;> omega
    · have hb : ¬ b < 474 := by omega
      simp only [ha, hb, if_false]
      have h1 : (a - 474) / 478 ≤ (b - 474) / 478 := Nat.div_le_div_right (by omega)
      by_cases hma : (a - 474) % 478 > 0 <;> by_cases hmb : (b - 474) % 478 > 0 <;> simp [hma, hmb] <;> omega

theorem sum_map_append {α} (f : α → Nat) (l : List α) (x : α) : ((l ++ [x]).map f).sum = (l.map f).sum + f x := by
  simp

/-- the two possible results of `AppendTx` -/
def Builder.acceptedTx (b : Builder) (t : Bytes) : Builder :=
  { b with txCounter := (b.txCounter.add t.length).1, txs := b.txs ++ [t],
           currentSize := b.currentSize + (b.txCounter.add t.length).2, done := false }
def Builder.refusedTx (b : Builder) (t : Bytes) : Builder :=
  { b with txCounter := (b.txCounter.add t.length).1.revert }

/-- `AppendTx`: accepted exactly when the closed-form estimate with the transaction still fits;
    the new state keeps it; a refusal changes nothing but the counter's `last*` bookkeeping. -/
theorem appendTx_spec (b : Builder) (normals : List Bytes) (btxs : List BlobTx) (t : Bytes) (h : Kept b normals btxs) :
    ((b.appendTx t).2 = true ↔ closedEstimate b.thr (normals ++ [t]) btxs ≤ b.maxSquareSize * b.maxSquareSize) ∧
    ((b.appendTx t).2 = true → Kept (b.appendTx t).1 (normals ++ [t]) btxs ∧
        (b.appendTx t).1.thr = b.thr ∧ (b.appendTx t).1.maxSquareSize = b.maxSquareSize) ∧
    ((b.appendTx t).2 = false → Kept (b.appendTx t).1 normals btxs ∧
        (b.appendTx t).1.thr = b.thr ∧ (b.appendTx t).1.maxSquareSize = b.maxSquareSize ∧
        (b.appendTx t).1.done = b.done) := by
  generalize hT : (normals.map (fun t => unitBytes t.length)).sum = T
  have htxC : b.txCounter.At T := hT ▸ h.txC
  obtain ⟨hat, hls, hlr⟩ := Counter.add_at b.txCounter T t.length htxC
  have hdiff := Counter.add_diff b.txCounter t.length
  have hs0 : b.txCounter.size = sizeOf T := Counter.size_of_at htxC
  have hs1 : (b.txCounter.add t.length).1.size = sizeOf (T + unitBytes t.length) := Counter.size_of_at hat
  have hmono : sizeOf T ≤ sizeOf (T + unitBytes t.length) := sizeOf_mono (by omega)
  have hce : closedEstimate b.thr (normals ++ [t]) btxs =
      closedEstimate b.thr normals btxs - sizeOf T + sizeOf (T + unitBytes t.length) := by
    unfold closedEstimate
    rw [sum_map_append, hT]; omega
  have hcel : sizeOf T ≤ closedEstimate b.thr normals btxs := by
    unfold closedEstimate; rw [hT]; omega
  have hfit : (b.currentSize + (b.txCounter.add t.length).2 ≤ ((b.maxSquareSize * b.maxSquareSize : Nat) : Int)) ↔
      closedEstimate b.thr (normals ++ [t]) btxs ≤ b.maxSquareSize * b.maxSquareSize := by
    rw [h.size, hdiff, hs0, hs1, hce]; omega
  by_cases hacc : closedEstimate b.thr (normals ++ [t]) btxs ≤ b.maxSquareSize * b.maxSquareSize
  · have hd : ({ b with txCounter := (b.txCounter.add t.length).1 } : Builder).canFit (b.txCounter.add t.length).2 = true := by
      simp only [Builder.canFit]; exact decide_eq_true (hfit.mpr hacc)
    have hres : b.appendTx t = (b.acceptedTx t, true) := by
      simp only [Builder.appendTx, hd, if_true, Builder.acceptedTx]
    rw [hres]
    refine ⟨⟨fun _ => hacc, fun _ => rfl⟩, fun _ => ⟨⟨?_, h.pfbs, h.blobs, ?_, h.pfbC, ?_, hacc⟩, rfl, rfl⟩, fun hf => ?_⟩
    · show b.txs ++ [t] = normals ++ [t]
      rw [h.txs]
    · show (b.txCounter.add t.length).1.At _
      rw [sum_map_append, hT]; exact hat
    · show b.currentSize + (b.txCounter.add t.length).2 = ((closedEstimate b.thr (normals ++ [t]) btxs : Nat) : Int)
      rw [h.size, hdiff, hs0, hs1, hce]; omega
    · cases hf
  · have hd : ({ b with txCounter := (b.txCounter.add t.length).1 } : Builder).canFit (b.txCounter.add t.length).2 = false := by
      simp only [Builder.canFit]; exact decide_eq_false (fun hc => hacc (hfit.mp hc))
    have hres : b.appendTx t = (b.refusedTx t, false) := by
      simp only [Builder.appendTx, hd, Bool.false_eq_true, if_false, Builder.refusedTx]
    rw [hres]
    refine ⟨⟨fun hf => ?_, fun hc => absurd hc hacc⟩, fun hf => ?_,
      fun _ => ⟨⟨h.txs, h.pfbs, h.blobs, ?_, h.pfbC, h.size, h.fit⟩, rfl, rfl, rfl⟩⟩
    · cases hf
    · cases hf
    · -- the counter was reverted: it is back at T
      show (b.txCounter.add t.length).1.revert.At _
      simp only [Counter.revert, Counter.At, hls, hlr]
      rw [hT]; exact htxC

/-! ### `AppendBlobTx` -/

theorem map_mapIdx_const {α β γ} (g : β → γ) (h : α → γ) : ∀ (l : List α) (f : Nat → α → β),
    (∀ i a, g (f i a) = h a) → (l.mapIdx f).map g = l.map h
  | [], _, _ => rfl
  | a :: l, f, hf => by
    rw [List.mapIdx_cons, List.map_cons, List.map_cons, hf 0 a,
      map_mapIdx_const g h l (fun i => f (i + 1)) (fun i a => hf (i + 1) a)]

theorem elements_sum (thr p : Nat) (t : BlobTx) :
    ((elementsOf thr p t).map Element.maxShareOffset).sum = (t.blobs.map (reservation thr)).sum := by
  unfold elementsOf
  rw [map_mapIdx_const Element.maxShareOffset (reservation thr) t.blobs _ (fun j b => reservation_eq thr b p j)]

theorem allElements_append (thr : Nat) (btxs : List BlobTx) (t : BlobTx) :
    allElements thr (btxs ++ [t]) = allElements thr btxs ++ elementsOf thr btxs.length t := by
  simp [allElements, List.mapIdx_concat]

def Builder.acceptedBlobTx (b : Builder) (t : BlobTx) : Builder :=
  let iw := newIndexWrapper t.tx (worstCaseShareIndexes t.blobs.length)
  { b with pfbCounter := (b.pfbCounter.add iw.size).1,
           blobs := b.blobs ++ elementsOf b.thr b.pfbs.length t,
           pfbs := b.pfbs ++ [iw],
           currentSize := b.currentSize + ((b.pfbCounter.add iw.size).2 +
             (((elementsOf b.thr b.pfbs.length t).map Element.maxShareOffset).sum : Nat)),
           done := false }
def Builder.refusedBlobTx (b : Builder) (t : BlobTx) : Builder :=
  { b with pfbCounter := (b.pfbCounter.add (newIndexWrapper t.tx (worstCaseShareIndexes t.blobs.length)).size).1.revert }

/-- `AppendBlobTx`: accepted exactly when the closed-form estimate with the blob transaction
    (worst-case wrapped PFB size, every blob reserving its shares plus subtree width − 1 padding)
    still fits. -/
theorem appendBlobTx_spec (b : Builder) (normals : List Bytes) (btxs : List BlobTx) (t : BlobTx)
    (h : Kept b normals btxs) :
    ((b.appendBlobTx t).2 = true ↔ closedEstimate b.thr normals (btxs ++ [t]) ≤ b.maxSquareSize * b.maxSquareSize) ∧
    ((b.appendBlobTx t).2 = true → Kept (b.appendBlobTx t).1 normals (btxs ++ [t]) ∧
        (b.appendBlobTx t).1.thr = b.thr ∧ (b.appendBlobTx t).1.maxSquareSize = b.maxSquareSize) ∧
    ((b.appendBlobTx t).2 = false → Kept (b.appendBlobTx t).1 normals btxs ∧
        (b.appendBlobTx t).1.thr = b.thr ∧ (b.appendBlobTx t).1.maxSquareSize = b.maxSquareSize ∧
        (b.appendBlobTx t).1.done = b.done) := by
  generalize hT : (btxs.map (fun t => unitBytes (worstLen t))).sum = T
  have hpC : b.pfbCounter.At T := hT ▸ h.pfbC
  have hw : (newIndexWrapper t.tx (worstCaseShareIndexes t.blobs.length)).size = worstLen t := rfl
  obtain ⟨hat, hls, hlr⟩ := Counter.add_at b.pfbCounter T (worstLen t) hpC
  have hdiff := Counter.add_diff b.pfbCounter (worstLen t)
  have hs0 : b.pfbCounter.size = sizeOf T := Counter.size_of_at hpC
  have hs1 : (b.pfbCounter.add (worstLen t)).1.size = sizeOf (T + unitBytes (worstLen t)) := Counter.size_of_at hat
  have hmono : sizeOf T ≤ sizeOf (T + unitBytes (worstLen t)) := sizeOf_mono (by omega)
  have hpl : b.pfbs.length = btxs.length := by rw [h.pfbs, List.length_map]
  have hsum := elements_sum b.thr b.pfbs.length t
  generalize hR : (t.blobs.map (reservation b.thr)).sum = R at hsum
  have hce : closedEstimate b.thr normals (btxs ++ [t]) =
      closedEstimate b.thr normals btxs - sizeOf T + sizeOf (T + unitBytes (worstLen t)) + R := by
    unfold closedEstimate
    rw [sum_map_append, sum_map_append, hT, hR]; omega
  have hcel : sizeOf T ≤ closedEstimate b.thr normals btxs := by
    unfold closedEstimate; rw [hT]; omega
  have hfit : (b.currentSize + ((b.pfbCounter.add (worstLen t)).2 + (R : Nat)) ≤ ((b.maxSquareSize * b.maxSquareSize : Nat) : Int)) ↔
      closedEstimate b.thr normals (btxs ++ [t]) ≤ b.maxSquareSize * b.maxSquareSize := by
    rw [h.size, hdiff, hs0, hs1, hce]; omega
  have hmapidx : t.blobs.mapIdx (fun idx blob => newElement blob b.pfbs.length idx b.thr) = elementsOf b.thr b.pfbs.length t := rfl
  by_cases hacc : closedEstimate b.thr normals (btxs ++ [t]) ≤ b.maxSquareSize * b.maxSquareSize
  · have hres : b.appendBlobTx t = (b.acceptedBlobTx t, true) := by
      unfold Builder.appendBlobTx Builder.acceptedBlobTx
      simp only [hw, hmapidx, Builder.canFit, hsum]
      rw [if_pos (by simpa using hfit.mpr hacc)]
    rw [hres]
    refine ⟨⟨fun _ => hacc, fun _ => rfl⟩, fun _ => ⟨⟨h.txs, ?_, ?_, h.txC, ?_, ?_, hacc⟩, rfl, rfl⟩, fun hf => ?_⟩
    · show b.pfbs ++ [newIndexWrapper t.tx (worstCaseShareIndexes t.blobs.length)] = _
      rw [h.pfbs, List.map_append]; rfl
    · show b.blobs ++ elementsOf b.thr b.pfbs.length t = allElements b.thr (btxs ++ [t])
      rw [allElements_append, h.blobs, hpl]
    · show (b.pfbCounter.add (worstLen t)).1.At _
      rw [sum_map_append, hT]; exact hat
    · show b.currentSize + ((b.pfbCounter.add (worstLen t)).2 +
          ((((elementsOf b.thr b.pfbs.length t).map Element.maxShareOffset).sum : Nat) : Int)) =
        ((closedEstimate b.thr normals (btxs ++ [t]) : Nat) : Int)
      rw [hsum, h.size, hdiff, hs0, hs1, hce]; omega
    · cases hf
  · have hres : b.appendBlobTx t = (b.refusedBlobTx t, false) := by
      unfold Builder.appendBlobTx Builder.refusedBlobTx
      simp only [hw, hmapidx, Builder.canFit, hsum]
      rw [if_neg (by simpa using fun hc => hacc (hfit.mp hc))]
    rw [hres]
    refine ⟨⟨fun hf => ?_, fun hc => absurd hc hacc⟩, fun hf => ?_,
      fun _ => ⟨⟨h.txs, h.pfbs, h.blobs, h.txC, ?_, h.size, h.fit⟩, rfl, rfl, rfl⟩⟩
    · cases hf
    · cases hf
    · show (b.pfbCounter.add (worstLen t)).1.revert.At _
      simp only [Counter.revert, Counter.At, hls, hlr]
      rw [hT]; exact hpC

/-! ### monotonicity of the estimate, Build and Construct -/

theorem sum_take_le (l : List Nat) (k : Nat) : (l.take k).sum ≤ l.sum := by
  induction l generalizing k with
  | nil => simp
  | cons x xs ih =>
    cases k with
    | zero => simp
    | succ k => simp only [List.take_succ_cons, List.sum_cons]; have := ih k; omega

theorem closedEstimate_mono (thr : Nat) (N : List Bytes) (B : List BlobTx) (i j : Nat) :
    closedEstimate thr (N.take i) (B.take j) ≤ closedEstimate thr N B := by
  unfold closedEstimate
  have h1 := sizeOf_mono (by
    rw [List.map_take]; exact sum_take_le (N.map (fun t => unitBytes t.length)) i :
    ((N.take i).map (fun t => unitBytes t.length)).sum ≤ (N.map (fun t => unitBytes t.length)).sum)
  have h2 := sizeOf_mono (by
    rw [List.map_take]; exact sum_take_le (B.map (fun t => unitBytes (worstLen t))) j :
    ((B.take j).map (fun t => unitBytes (worstLen t))).sum ≤ (B.map (fun t => unitBytes (worstLen t))).sum)
  have h3 : ((B.take j).map (fun t => (t.blobs.map (reservation thr)).sum)).sum ≤
      (B.map (fun t => (t.blobs.map (reservation thr)).sum)).sum := by
    rw [List.map_take]; exact sum_take_le _ j
  omega

/-- the decoded form of a kept blob transaction -/
def decB (dec : Bytes → Decoded) (raw : Bytes) : BlobTx :=
  match dec raw with
  | .blobTx bt => bt
  | _ => { tx := [], blobs := [] }

theorem kept_new (max thr : Nat) (b : Builder) (h : Builder.new max thr = .ok b) :
    Kept b [] [] ∧ b.thr = thr ∧ b.maxSquareSize = max := by
  unfold Builder.new at h
  split at h
  · cases h
  · split at h
    · cases h
    · simp only [Except.ok.injEq] at h
      subst h
      refine ⟨⟨rfl, rfl, rfl, ⟨rfl, rfl⟩, ⟨rfl, rfl⟩, ?_, ?_⟩, rfl, rfl⟩
      · simp [closedEstimate, sizeOf, posOf]
      · simp [closedEstimate, sizeOf, posOf]

/-- **the loop of `Build`.** It ends in a builder that has kept exactly the returned lists; the
    kept ordinary (blob) transactions are a sublist of the input's ordinary (blob) transactions,
    in input order. -/
theorem buildLoop_spec (dec : Bytes → Decoded) : ∀ (txs : List Bytes) (b : Builder) (n bl : List Bytes)
    (b' : Builder) (n' bl' : List Bytes),
    Kept b n (bl.map (decB dec)) → (∀ r ∈ bl, dec r = .blobTx (decB dec r)) → (∀ r ∈ n, dec r = .normal) →
    buildLoop dec txs b n bl = .ok (b', n', bl') →
    Kept b' n' (bl'.map (decB dec)) ∧ b'.thr = b.thr ∧ b'.maxSquareSize = b.maxSquareSize ∧
    (∀ r ∈ bl', dec r = .blobTx (decB dec r)) ∧ (∀ r ∈ n', dec r = .normal) ∧
    (∃ kn, kn.Sublist (txs.filter (fun t => dec t == .normal)) ∧ n' = n ++ kn) ∧
    (∃ kb, kb.Sublist (txs.filter (fun t => dec t != .normal)) ∧ bl' = bl ++ kb)
  | [], b, n, bl, b', n', bl', hk, hb, hn, h => by
    simp only [buildLoop, Except.ok.injEq, Prod.mk.injEq] at h
    obtain ⟨rfl, rfl, rfl⟩ := h
    exact ⟨hk, rfl, rfl, hb, hn, ⟨[], List.Sublist.refl _, by simp⟩, ⟨[], List.Sublist.refl _, by simp⟩⟩
  | t :: rest, b, n, bl, b', n', bl', hk, hb, hn, h => by
    rw [buildLoop] at h
    cases hd : dec t with
    | badBlobTx => rw [hd] at h; cases h
    | normal =>
      rw [hd] at h
      simp only at h
      obtain ⟨hiff, hacc, href⟩ := appendTx_spec b n (bl.map (decB dec)) t hk
      by_cases ha : (b.appendTx t).2 = true
      · obtain ⟨hk1, ht1, hm1⟩ := hacc ha
        rw [ha] at h
        simp only [if_true] at h
        obtain ⟨r1, r2, r3, r4, r5, ⟨kn, hkn, hn'⟩, ⟨kb, hkb, hb'⟩⟩ := buildLoop_spec dec rest _ _ _ _ _ _ hk1 hb
          (by intro r hr; rcases List.mem_append.mp hr with hr | hr
              · exact hn r hr
              · simp at hr; rw [hr]; exact hd) h
        refine ⟨r1, by rw [r2, ht1], by rw [r3, hm1], r4, r5, ⟨t :: kn, ?_, by rw [hn']; simp⟩, ⟨kb, ?_, hb'⟩⟩
        · simp only [List.filter_cons, hd, beq_self_eq_true, if_true]; exact List.Sublist.cons₂ t hkn
        · simp only [List.filter_cons, hd, bne_self_eq_false, Bool.false_eq_true, if_false]; exact hkb
      · have ha' : (b.appendTx t).2 = false := by simpa using ha
        obtain ⟨hk1, ht1, hm1, _⟩ := href ha'
        rw [ha'] at h
        simp only [Bool.false_eq_true, if_false] at h
        obtain ⟨r1, r2, r3, r4, r5, ⟨kn, hkn, hn'⟩, ⟨kb, hkb, hb'⟩⟩ := buildLoop_spec dec rest _ _ _ _ _ _ hk1 hb hn h
        refine ⟨r1, by rw [r2, ht1], by rw [r3, hm1], r4, r5, ⟨kn, ?_, hn'⟩, ⟨kb, ?_, hb'⟩⟩
        · simp only [List.filter_cons, hd, beq_self_eq_true, if_true]; exact List.Sublist.cons t hkn
        · simp only [List.filter_cons, hd, bne_self_eq_false, Bool.false_eq_true, if_false]; exact hkb
    | blobTx bt =>
      rw [hd] at h
      simp only at h
      have hdb : decB dec t = bt := by simp [decB, hd]
      obtain ⟨hiff, hacc, href⟩ := appendBlobTx_spec b n (bl.map (decB dec)) bt hk
      by_cases ha : (b.appendBlobTx bt).2 = true
      · obtain ⟨hk1, ht1, hm1⟩ := hacc ha
        rw [ha] at h
        simp only [if_true] at h
        have hk1' : Kept (b.appendBlobTx bt).1 n ((bl ++ [t]).map (decB dec)) := by
          rw [List.map_append, List.map_cons, List.map_nil, hdb]; exact hk1
        obtain ⟨r1, r2, r3, r4, r5, ⟨kn, hkn, hn'⟩, ⟨kb, hkb, hb'⟩⟩ := buildLoop_spec dec rest _ _ _ _ _ _ hk1'
          (by intro r hr; rcases List.mem_append.mp hr with hr | hr
              · exact hb r hr
              · simp at hr; rw [hr, hdb]; exact hd) hn h
        refine ⟨r1, by rw [r2, ht1], by rw [r3, hm1], r4, r5, ⟨kn, ?_, hn'⟩, ⟨t :: kb, ?_, by rw [hb']; simp⟩⟩
        · simp only [List.filter_cons, hd]; exact hkn
        · simp only [List.filter_cons, hd]; exact List.Sublist.cons₂ t hkb
      · have ha' : (b.appendBlobTx bt).2 = false := by simpa using ha
        obtain ⟨hk1, ht1, hm1, _⟩ := href ha'
        rw [ha'] at h
        simp only [Bool.false_eq_true, if_false] at h
        obtain ⟨r1, r2, r3, r4, r5, ⟨kn, hkn, hn'⟩, ⟨kb, hkb, hb'⟩⟩ := buildLoop_spec dec rest _ _ _ _ _ _ hk1 hb hn h
        refine ⟨r1, by rw [r2, ht1], by rw [r3, hm1], r4, r5, ⟨kn, ?_, hn'⟩, ⟨kb, ?_, hb'⟩⟩
        · simp only [List.filter_cons, hd]; exact hkn
        · simp only [List.filter_cons, hd]; exact List.Sublist.cons t hkb

end GoSquare
