import GoSquare.Model.Json
import GoSquare.Properties.C19
namespace GoSquare.JsonProofs
open GoSquare GoSquare.Json GoSquare.Proto

/-! # JSON encodings: round trips and acceptance (proofs about Model/Json.lean)

base64.StdEncoding round trip on every byte string; namespace, share, BlobProto and Blob JSON round
trips; what the JSON decoders accept is what the constructors accept. -/

/-! ### base64 -/

theorem decChar_encChar_fin : ∀ i : Fin 64, decChar (encChar i.val) = some i.val := by decide

theorem decChar_encChar (i : Nat) (h : i < 64) : decChar (encChar i) = some i :=
  decChar_encChar_fin ⟨i, h⟩

theorem encChar_plain_fin : ∀ i : Fin 64,
    encChar i.val ≠ 61 ∧ encChar i.val ≠ 10 ∧ encChar i.val ≠ 13 ∧ encChar i.val ≠ 34 ∧ encChar i.val ≠ 92 ∧ ¬ (encChar i.val < 32) := by decide

/-- alphabet characters are ordinary string characters: not padding, not skipped, no quote/backslash/control -/
theorem encChar_plain (i : Nat) (h : i < 64) :
    encChar i ≠ 61 ∧ encChar i ≠ 10 ∧ encChar i ≠ 13 ∧ encChar i ≠ 34 ∧ encChar i ≠ 92 ∧ ¬ (encChar i < 32) :=
  encChar_plain_fin ⟨i, h⟩

theorem core_full (c0 c1 c2 c3 : UInt8) (rest : Bytes) (a b c d : Nat) (r : Bytes) (h3 : c3 ≠ 61)
    (h0 : decChar c0 = some a) (h1 : decChar c1 = some b) (h2 : decChar c2 = some c) (h3' : decChar c3 = some d)
    (hr : b64DecodeCore rest = some r) :
    b64DecodeCore (c0 :: c1 :: c2 :: c3 :: rest) =
        some ((a * 4 + b / 16).toUInt8 :: (b % 16 * 16 + c / 4).toUInt8 :: (c % 4 * 64 + d).toUInt8 :: r) := by
  rw [b64DecodeCore]
  · rw [h0, h1, h2, h3', hr]
  all_goals simp_all

theorem core_pad1 (c0 c1 c2 : UInt8) (a b c : Nat) (h2 : c2 ≠ 61)
    (h0 : decChar c0 = some a) (h1 : decChar c1 = some b) (h2' : decChar c2 = some c) :
    b64DecodeCore [c0, c1, c2, 61] = some [(a * 4 + b / 16).toUInt8, (b % 16 * 16 + c / 4).toUInt8] := by
  rw [b64DecodeCore]
  · rw [h0, h1, h2']
  all_goals simp_all

theorem core_pad2 (c0 c1 : UInt8) (a b : Nat)
    (h0 : decChar c0 = some a) (h1 : decChar c1 = some b) :
    b64DecodeCore [c0, c1, 61, 61] = some [(a * 4 + b / 16).toUInt8] := by
  rw [b64DecodeCore, h0, h1]


theorem toU8_eq (x : UInt8) (n : Nat) (h : n = x.toNat) : n.toUInt8 = x := by
  subst h; simp

theorem b64DecodeCore_encode (b : Bytes) : b64DecodeCore (b64Encode b) = some b := by
  fun_induction b64Encode b with
  | case1 a b c rest ih =>
    have ha := a.toNat_lt; have hb := b.toNat_lt; have hc := c.toNat_lt
    rw [core_full _ _ _ _ _ _ _ _ _ _ (encChar_plain _ (by omega)).1
      (decChar_encChar _ (by omega)) (decChar_encChar _ (by omega)) (decChar_encChar _ (by omega))
      (decChar_encChar _ (by omega)) ih]
    rw [toU8_eq a _ (by omega), toU8_eq b _ (by omega), toU8_eq c _ (by omega)]
  | case2 a b =>
    have ha := a.toNat_lt; have hb := b.toNat_lt
    rw [core_pad1 _ _ _ _ _ _ (encChar_plain _ (by omega)).1
      (decChar_encChar _ (by omega)) (decChar_encChar _ (by omega)) (decChar_encChar _ (by omega))]
    rw [toU8_eq a _ (by omega), toU8_eq b _ (by omega)]
  | case3 a =>
    have ha := a.toNat_lt
    rw [core_pad2 _ _ _ _ (decChar_encChar _ (by omega)) (decChar_encChar _ (by omega))]
    rw [toU8_eq a _ (by omega)]
  | case4 => rfl


/-- a character that a string body carries through unchanged and base64 decoding does not skip -/
def Plain (c : UInt8) : Prop := c ≠ 10 ∧ c ≠ 13 ∧ c ≠ 34 ∧ c ≠ 92 ∧ ¬ (c < 32)

theorem plain_encChar (i : Nat) (h : i < 64) : Plain (encChar i) := (encChar_plain i h).2
theorem plain_pad : Plain 61 := by unfold Plain; decide

theorem b64Encode_plain (b : Bytes) : ∀ c ∈ b64Encode b, Plain c := by
  fun_induction b64Encode b with
  | case1 a b c rest ih =>
    have ha := a.toNat_lt; have hb := b.toNat_lt; have hc := c.toNat_lt
    intro x hx
    simp only [List.mem_cons] at hx
    rcases hx with rfl | rfl | rfl | rfl | hx
    · exact plain_encChar _ (by omega)
    · exact plain_encChar _ (by omega)
    · exact plain_encChar _ (by omega)
    · exact plain_encChar _ (by omega)
    · exact ih x hx
  | case2 a b =>
    have ha := a.toNat_lt; have hb := b.toNat_lt
    intro x hx
    simp only [List.mem_cons, List.not_mem_nil, or_false] at hx
    rcases hx with rfl | rfl | rfl | rfl
    · exact plain_encChar _ (by omega)
    · exact plain_encChar _ (by omega)
    · exact plain_encChar _ (by omega)
    · exact plain_pad
  | case3 a =>
    have ha := a.toNat_lt
    intro x hx
    simp only [List.mem_cons, List.not_mem_nil, or_false] at hx
    rcases hx with rfl | rfl | rfl | rfl
    · exact plain_encChar _ (by omega)
    · exact plain_encChar _ (by omega)
    · exact plain_pad
    · exact plain_pad
  | case4 => intro x hx; cases hx

theorem filter_plain (s : Bytes) (h : ∀ c ∈ s, Plain c) : s.filter (fun c => c != 10 && c != 13) = s := by
  rw [List.filter_eq_self]
  intro c hc
  have := h c hc
  simp [this.1, this.2.1]

/-- base64 round trip, every byte string -/
theorem b64_roundtrip (b : Bytes) : b64Decode (b64Encode b) = some b := by
  unfold b64Decode
  rw [filter_plain _ (b64Encode_plain b), b64DecodeCore_encode]

theorem b64Encode_injective (a b : Bytes) (h : b64Encode a = b64Encode b) : a = b := by
  have h1 := b64DecodeCore_encode a
  rw [h, b64DecodeCore_encode] at h1
  exact (Option.some.inj h1).symm

theorem strBody_plain (s rest : Bytes) (h : ∀ c ∈ s, Plain c) : strBody (s ++ quote :: rest) = some (s, rest) := by
  induction s with
  | nil => simp [strBody]
  | cons c s ih =>
    have hc := h c (by simp)
    have h1 : c ≠ quote := hc.2.2.1
    have h2 : ¬ (c = 92 ∨ c < 32) := by
      intro h'; rcases h' with h' | h'
      · exact hc.2.2.2.1 h'
      · exact hc.2.2.2.2 h'
    rw [List.cons_append, strBody, if_neg h1, if_neg h2, ih (fun x hx => h x (by simp [hx]))]

theorem strBody_b64 (b rest : Bytes) : strBody (b64Encode b ++ quote :: rest) = some (b64Encode b, rest) :=
  strBody_plain _ _ (b64Encode_plain b)

theorem bytesValue_jsonOfBytes (b rest : Bytes) : bytesValue (jsonOfBytes b ++ rest) = .ok (some b, rest) := by
  have : jsonOfBytes b ++ rest = 34 :: (b64Encode b ++ quote :: rest) := by
    simp [jsonOfBytes, quote]
  rw [this, bytesValue]
  simp only [strBody_b64, b64_roundtrip]

theorem unmarshalBytes_jsonOfBytes (b : Bytes) : unmarshalBytes (jsonOfBytes b) = .ok (some b) := by
  have := bytesValue_jsonOfBytes b []
  rw [List.append_nil] at this
  simp [unmarshalBytes, this]

/-- Namespace JSON round trip -/
theorem ns_json_roundtrip (ns : Bytes) (h : Ns.fromBytes ns = some ns) : unmarshalNs (marshalNs ns) = .ok ns := by
  simp [unmarshalNs, marshalNs, unmarshalBytes_jsonOfBytes, h]

/-- whatever Namespace.UnmarshalJSON accepts is what NewNamespaceFromBytes accepts -/
theorem unmarshalNs_ok (doc ns : Bytes) (h : unmarshalNs doc = .ok ns) : ∃ b, Ns.fromBytes b = some ns := by
  unfold unmarshalNs at h
  split at h
  · rename_i v _
    split at h
    · rename_i ns' hns
      cases h
      exact ⟨_, hns⟩
    · cases h
  · cases h
  · cases h

/-- Share JSON round trip -/
theorem share_json_roundtrip (s : Bytes) (h : s.length = 512) : unmarshalShare (marshalShare s) = .ok s := by
  simp [unmarshalShare, marshalShare, unmarshalBytes_jsonOfBytes, h]

theorem unmarshalShare_ok (doc s : Bytes) (h : unmarshalShare doc = .ok s) : s.length = 512 := by
  unfold unmarshalShare at h
  split at h
  · split at h
    · rename_i hl
      cases h
      exact hl
    · cases h
  · cases h
  · cases h


/-! ### decimal numbers -/

theorem natToDigits_eq (n : Nat) :
    natToDigits n = if n < 10 then [(48 + n).toUInt8] else natToDigits (n / 10) ++ [(48 + n % 10).toUInt8] := by
  unfold natToDigits
  rw [Nat.toDigits_eq_if (by decide)]
  split
  · rename_i h
    simp [Nat.toNat_digitChar_of_lt_ten h]
  · have : n % 10 < 10 := Nat.mod_lt _ (by decide)
    simp [Nat.toNat_digitChar_of_lt_ten this]

theorem natOfDigits_snoc (d : Bytes) (c : UInt8) : natOfDigits (d ++ [c]) = natOfDigits d * 10 + (c.toNat - 48) := by
  simp [natOfDigits, List.foldl_append]

theorem dig_toNat (k : Nat) (h : k < 10) : ((48 + k).toUInt8).toNat = 48 + k := by
  simp; omega

theorem natOfDigits_natToDigits (n : Nat) : natOfDigits (natToDigits n) = n := by
  induction n using Nat.strongRecOn with
  | _ n ih =>
    rw [natToDigits_eq]
    split
    · rename_i h
      simp only [natOfDigits, List.foldl_cons, List.foldl_nil, dig_toNat n h]; omega
    · rename_i h
      rw [natOfDigits_snoc, ih (n / 10) (by omega), dig_toNat _ (Nat.mod_lt _ (by decide))]; omega

def IsDig (c : UInt8) : Prop := 48 ≤ c ∧ c ≤ 57

theorem isDig_dig (k : Nat) (h : k < 10) : IsDig (48 + k).toUInt8 := by
  unfold IsDig
  rw [UInt8.le_iff_toNat_le, UInt8.le_iff_toNat_le, dig_toNat k h]
  simp; omega

theorem natToDigits_isDig (n : Nat) : ∀ c ∈ natToDigits n, IsDig c := by
  induction n using Nat.strongRecOn with
  | _ n ih =>
    rw [natToDigits_eq]
    split
    · rename_i h
      intro c hc
      simp only [List.mem_singleton] at hc
      subst hc; exact isDig_dig n h
    · rename_i h
      intro c hc
      simp only [List.mem_append, List.mem_singleton] at hc
      rcases hc with hc | hc
      · exact ih (n / 10) (by omega) c hc
      · subst hc; exact isDig_dig _ (Nat.mod_lt _ (by decide))

theorem digits_append (d rest : Bytes) (hd : ∀ c ∈ d, IsDig c) (hr : ∀ c r, rest = c :: r → ¬ (48 ≤ c ∧ c ≤ 57)) :
    digits (d ++ rest) = (d, rest) := by
  induction d with
  | nil =>
    cases rest with
    | nil => rfl
    | cons c r => simp [digits, hr c r rfl]
  | cons c d ih =>
    have hc : 48 ≤ c ∧ c ≤ 57 := hd c (by simp)
    rw [List.cons_append, digits, if_pos hc, ih (fun x hx => hd x (by simp [hx]))]

/-- the digits of a number are read back whole when something that is not a digit (or nothing) follows -/
theorem digits_natToDigits (n : Nat) (rest : Bytes) (hr : ∀ c r, rest = c :: r → ¬ (48 ≤ c ∧ c ≤ 57)) :
    digits (natToDigits n ++ rest) = (natToDigits n, rest) :=
  digits_append _ _ (natToDigits_isDig n) hr

/-- no leading zero -/
theorem natToDigits_head (n : Nat) (h : 0 < n) : ∃ c t, natToDigits n = c :: t ∧ c ≠ 48 ∧ IsDig c := by
  induction n using Nat.strongRecOn with
  | _ n ih =>
    rw [natToDigits_eq]
    split
    · rename_i hlt
      refine ⟨_, [], rfl, ?_, isDig_dig n hlt⟩
      intro he
      have := congrArg UInt8.toNat he
      rw [dig_toNat n hlt] at this
      simp at this; omega
    · rename_i hlt
      obtain ⟨c, t, he, hc, hd⟩ := ih (n / 10) (by omega) (by omega)
      exact ⟨c, t ++ [(48 + n % 10).toUInt8], by rw [he]; rfl, hc, hd⟩


/-! ### members -/

/-- what may follow a member: the closing brace ending the document, or a comma -/
def Follow (rest : Bytes) : Prop := rest = [125] ∨ ∃ r, rest = 44 :: r

theorem u32Value_natToDigits (n : Nat) (h0 : 0 < n) (hn : n < 4294967296) (rest : Bytes) (hf : Follow rest) :
    u32Value (natToDigits n ++ rest) = .ok (some n, rest) := by
  obtain ⟨c, t, he, hc48, hcd⟩ := natToDigits_head n h0
  have hnd : ∀ c r, rest = c :: r → ¬ (48 ≤ c ∧ c ≤ 57) := by
    intro c r hr
    rcases hf with hf | ⟨r', hf⟩
    · rw [hf] at hr; cases hr; decide
    · rw [hf] at hr; cases hr; decide
  have hdg := digits_natToDigits n rest hnd
  have hval := natOfDigits_natToDigits n
  rw [he] at hdg hval
  rw [he]
  unfold u32Value
  split
  · rename_i r heq
    rw [List.cons_append] at heq
    have hc : c = 110 := (List.cons.inj heq).1
    subst hc
    exact absurd hcd (by unfold IsDig; decide)
  · rw [hdg]
    simp only [List.head?_cons, Option.some.injEq, hc48, and_false, if_false, hval, hn, if_true]
    rcases hf with hf | ⟨r', hf⟩ <;> subst hf <;> rfl

/-! ### the member names as byte lists -/

theorem toList_loop_eq (bs : ByteArray) (i : Nat) (r : List UInt8) :
    ByteArray.toList.loop bs i r = r.reverse ++ bs.data.toList.drop i := by
  fun_induction ByteArray.toList.loop bs i r with
  | case1 i r h ih =>
    rw [ih]
    have h' : i < bs.data.toList.length := by rw [Array.length_toList]; exact h
    rw [List.drop_eq_getElem_cons h']
    have : bs.get! i = bs.data.toList[i] := by
      cases bs with
      | mk d =>
        simp only [ByteArray.get!]
        simp at h'
        simp [h']
    simp [this]
  | case2 i r h =>
    have h' : bs.data.toList.length ≤ i := by rw [Array.length_toList]; exact Nat.le_of_not_lt h
    simp [List.drop_eq_nil_of_le h']

theorem toByteArray_toList (l : List UInt8) : l.toByteArray.toList = l := by
  unfold ByteArray.toList
  rw [toList_loop_eq]
  simp

theorem utf8_toList (cs : List Char) : (String.ofList cs).toUTF8.toList = cs.flatMap String.utf8EncodeChar := by
  rw [String.toUTF8_eq_toByteArray, String.toByteArray_ofList, List.utf8Encode, toByteArray_toList]

theorem keyData_eq : keyData = [100, 97, 116, 97] := by
  show (String.ofList ['d','a','t','a']).toUTF8.toList = _
  rw [utf8_toList]; decide
theorem keyNamespaceId_eq : keyNamespaceId = [110, 97, 109, 101, 115, 112, 97, 99, 101, 95, 105, 100] := by
  show (String.ofList "namespace_id".toList).toUTF8.toList = _
  rw [utf8_toList]; decide

theorem keyShareVersion_eq : keyShareVersion = [115, 104, 97, 114, 101, 95, 118, 101, 114, 115, 105, 111, 110] := by
  show (String.ofList "share_version".toList).toUTF8.toList = _
  rw [utf8_toList]; decide
theorem keyNamespaceVersion_eq :
    keyNamespaceVersion = [110, 97, 109, 101, 115, 112, 97, 99, 101, 95, 118, 101, 114, 115, 105, 111, 110] := by
  show (String.ofList "namespace_version".toList).toUTF8.toList = _
  rw [utf8_toList]; decide
theorem keySigner_eq : keySigner = [115, 105, 103, 110, 101, 114] := by
  show (String.ofList "signer".toList).toUTF8.toList = _
  rw [utf8_toList]; decide

instance (c : UInt8) : Decidable (Plain c) := by unfold Plain; exact inferInstance

theorem keyNamespaceId_plain : ∀ c ∈ keyNamespaceId, Plain c := by rw [keyNamespaceId_eq]; decide
theorem keyData_plain : ∀ c ∈ keyData, Plain c := by rw [keyData_eq]; decide
theorem keyShareVersion_plain : ∀ c ∈ keyShareVersion, Plain c := by rw [keyShareVersion_eq]; decide
theorem keyNamespaceVersion_plain : ∀ c ∈ keyNamespaceVersion, Plain c := by rw [keyNamespaceVersion_eq]; decide
theorem keySigner_plain : ∀ c ∈ keySigner, Plain c := by rw [keySigner_eq]; decide

theorem keys_distinct :
    keyData ≠ keyNamespaceId ∧ keySigner ≠ keyNamespaceId ∧ keySigner ≠ keyData ∧
    keyShareVersion ≠ keyNamespaceId ∧ keyShareVersion ≠ keyData ∧ keyShareVersion ≠ keySigner ∧
    keyNamespaceVersion ≠ keyNamespaceId ∧ keyNamespaceVersion ≠ keyData ∧ keyNamespaceVersion ≠ keySigner ∧
    keyNamespaceVersion ≠ keyShareVersion := by
  rw [keyData_eq, keyNamespaceId_eq, keySigner_eq, keyShareVersion_eq, keyNamespaceVersion_eq]; decide

theorem member_shape (key v rest : Bytes) :
    quote :: (key ++ [quote, 58] ++ v) ++ rest = 34 :: (key ++ quote :: (58 :: (v ++ rest))) := by
  simp [quote]

theorem member_namespaceId (p : DecodedProto) (v rest : Bytes) :
    member p (quote :: (keyNamespaceId ++ [quote, 58] ++ jsonOfBytes v) ++ rest) =
      .ok ({ p with pb := { p.pb with namespaceId := v } }, rest) := by
  rw [member_shape]
  unfold member
  simp only [strBody_plain _ _ keyNamespaceId_plain, if_true, bytesValue_jsonOfBytes, Option.getD_some]

theorem member_data (p : DecodedProto) (v rest : Bytes) :
    member p (quote :: (keyData ++ [quote, 58] ++ jsonOfBytes v) ++ rest) =
      .ok ({ p with pb := { p.pb with data := v } }, rest) := by
  rw [member_shape]
  unfold member
  simp only [strBody_plain _ _ keyData_plain, keys_distinct.1, if_true, if_false, bytesValue_jsonOfBytes, Option.getD_some]

theorem member_signer (p : DecodedProto) (v rest : Bytes) (hv : v ≠ []) :
    member p (quote :: (keySigner ++ [quote, 58] ++ jsonOfBytes v) ++ rest) =
      .ok ({ pb := { p.pb with signer := v }, signerEmptyNonNil := false }, rest) := by
  rw [member_shape]
  unfold member
  have hb : (some v == some ([] : Bytes)) = false := by simp [hv]
  simp only [strBody_plain _ _ keySigner_plain, keys_distinct.2.1, keys_distinct.2.2.1, if_true, if_false,
    bytesValue_jsonOfBytes, Option.getD_some, hb]

theorem member_shareVersion (p : DecodedProto) (n : Nat) (h0 : 0 < n) (hn : n < 4294967296) (rest : Bytes) (hf : Follow rest) :
    member p (quote :: (keyShareVersion ++ [quote, 58] ++ natToDigits n) ++ rest) =
      .ok ({ p with pb := { p.pb with shareVersion := n } }, rest) := by
  rw [member_shape]
  unfold member
  simp only [strBody_plain _ _ keyShareVersion_plain, keys_distinct.2.2.2.1, keys_distinct.2.2.2.2.1,
    keys_distinct.2.2.2.2.2.1, if_true, if_false, u32Value_natToDigits n h0 hn rest hf, Option.getD_some]

theorem member_namespaceVersion (p : DecodedProto) (n : Nat) (h0 : 0 < n) (hn : n < 4294967296) (rest : Bytes) (hf : Follow rest) :
    member p (quote :: (keyNamespaceVersion ++ [quote, 58] ++ natToDigits n) ++ rest) =
      .ok ({ p with pb := { p.pb with namespaceVersion := n } }, rest) := by
  rw [member_shape]
  unfold member
  simp only [strBody_plain _ _ keyNamespaceVersion_plain, keys_distinct.2.2.2.2.2.2.1, keys_distinct.2.2.2.2.2.2.2.1,
    keys_distinct.2.2.2.2.2.2.2.2.1, keys_distinct.2.2.2.2.2.2.2.2.2, if_true, if_false,
    u32Value_natToDigits n h0 hn rest hf, Option.getD_some]


/-! ### the member loop -/

abbrev Step := Bytes × (DecodedProto → DecodedProto)

/-- a member text with its effect: parsed whole whenever a comma or the final brace follows -/
def GoodStep (s : Step) : Prop :=
  s.1 ≠ [] ∧ ∀ p rest, Follow rest → member p (s.1 ++ rest) = .ok (s.2 p, rest)

theorem members_steps : ∀ (steps : List Step), steps ≠ [] → (∀ s ∈ steps, GoodStep s) →
    ∀ fuel, steps.length ≤ fuel → ∀ p,
      members fuel p (joinComma (steps.map (·.1)) ++ [125]) = .ok (steps.foldl (fun q s => s.2 q) p)
  | [], hne, _, _, _, _ => absurd rfl hne
  | [s], _, hg, fuel, hf, p => by
    cases fuel with
    | zero => simp at hf
    | succ fuel =>
      have h := (hg s (by simp)).2 p [125] (Or.inl rfl)
      simp only [List.map_cons, List.map_nil, joinComma, List.foldl_cons, List.foldl_nil]
      rw [members, h]
      rfl
  | s :: s' :: ss, _, hg, fuel, hf, p => by
    cases fuel with
    | zero => simp at hf
    | succ fuel =>
      have h := (hg s (by simp)).2 p (44 :: (joinComma ((s' :: ss).map (·.1)) ++ [125])) (Or.inr ⟨_, rfl⟩)
      have ih := members_steps (s' :: ss) (by simp) (fun x hx => hg x (by simp [hx])) fuel
        (by simp at hf ⊢; omega) (s.2 p)
      have shape : joinComma ((s :: s' :: ss).map (·.1)) ++ [125] =
          s.1 ++ 44 :: (joinComma ((s' :: ss).map (·.1)) ++ [125]) := by
        simp [joinComma]
      rw [shape, members, h]
      simp only [List.foldl_cons] at ih ⊢
      exact ih

theorem joinComma_length : ∀ (ms : List Bytes), (∀ m ∈ ms, m ≠ []) → ms.length ≤ (joinComma ms).length
  | [], _ => by simp [joinComma]
  | [m], h => by
    have := h m (by simp)
    have : 0 < m.length := List.length_pos_iff.mpr this
    simp [joinComma]; omega
  | m :: m' :: ms, h => by
    have ih := joinComma_length (m' :: ms) (fun x hx => h x (by simp [hx]))
    simp only [joinComma, List.length_append, List.length_cons] at ih ⊢
    omega

theorem unmarshalBlobProto_cons (c : UInt8) (t : Bytes) (h : t ≠ []) :
    unmarshalBlobProto (123 :: c :: t) = members (123 :: c :: t).length emptyProto (c :: t) := by
  unfold unmarshalBlobProto
  split
  · rename_i heq
    simp at heq
    exact absurd heq.2 h
  · rename_i rest _ heq
    cases heq
    rfl
  · rename_i h2
    exact absurd rfl (h2 _)

theorem unmarshalBlobProto_steps (steps : List Step) (hg : ∀ s ∈ steps, GoodStep s) :
    unmarshalBlobProto (123 :: (joinComma (steps.map (·.1)) ++ [125])) =
      .ok (steps.foldl (fun q s => s.2 q) emptyProto) := by
  by_cases hnil : steps = []
  · subst hnil; rfl
  · have hne : ∀ m ∈ steps.map (·.1), m ≠ [] := by
      intro m hm
      obtain ⟨s, hs, rfl⟩ := List.mem_map.mp hm
      exact (hg s hs).1
    have hlen := joinComma_length _ hne
    have hpos : 0 < steps.length := List.length_pos_iff.mpr hnil
    rw [List.length_map] at hlen
    have hm := members_steps steps hnil hg (123 :: (joinComma (steps.map (·.1)) ++ [125])).length
      (by simp only [List.length_cons, List.length_append, List.length_nil]; omega) emptyProto
    generalize hJ : joinComma (steps.map (·.1)) = J at *
    cases J with
    | nil => simp at hlen; exact absurd hlen hnil
    | cons c t =>
      rw [List.cons_append] at hm ⊢
      rw [unmarshalBlobProto_cons c _ (by simp)]
      exact hm


/-! ### BlobProto and Blob -/

def stepB (key v : Bytes) (f : DecodedProto → DecodedProto) : List Step :=
  if v.length = 0 then [] else [(quote :: (key ++ [quote, 58] ++ jsonOfBytes v), f)]
def stepN (key : Bytes) (n : Nat) (f : DecodedProto → DecodedProto) : List Step :=
  if n = 0 then [] else [(quote :: (key ++ [quote, 58] ++ natToDigits n), f)]

theorem map_stepB (key v : Bytes) (f) : (stepB key v f).map (·.1) = memberBytes key v := by
  unfold stepB memberBytes; split <;> rfl
theorem map_stepN (key : Bytes) (n : Nat) (f) : (stepN key n f).map (·.1) = memberU32 key n := by
  unfold stepN memberU32; split <;> rfl

def stepsOf (p : BlobProto) : List Step :=
  stepB keyNamespaceId p.namespaceId (fun d => { d with pb := { d.pb with namespaceId := p.namespaceId } }) ++
  stepB keyData p.data (fun d => { d with pb := { d.pb with data := p.data } }) ++
  stepN keyShareVersion p.shareVersion (fun d => { d with pb := { d.pb with shareVersion := p.shareVersion } }) ++
  stepN keyNamespaceVersion p.namespaceVersion
    (fun d => { d with pb := { d.pb with namespaceVersion := p.namespaceVersion } }) ++
  stepB keySigner p.signer (fun d => { pb := { d.pb with signer := p.signer }, signerEmptyNonNil := false })

theorem marshal_eq_steps (p : BlobProto) :
    marshalBlobProto p = 123 :: (joinComma ((stepsOf p).map (·.1)) ++ [125]) := by
  simp only [marshalBlobProto, stepsOf, List.map_append, map_stepB, map_stepN]

theorem stepsOf_good (p : BlobProto) (hsv : p.shareVersion < 4294967296) (hnv : p.namespaceVersion < 4294967296) :
    ∀ s ∈ stepsOf p, GoodStep s := by
  intro s hs
  simp only [stepsOf, List.mem_append] at hs
  rcases hs with (((hs | hs) | hs) | hs) | hs
  · unfold stepB at hs; split at hs
    · cases hs
    · simp only [List.mem_singleton] at hs; subst hs
      exact ⟨by simp, fun d rest _ => member_namespaceId d _ rest⟩
  · unfold stepB at hs; split at hs
    · cases hs
    · simp only [List.mem_singleton] at hs; subst hs
      exact ⟨by simp, fun d rest _ => member_data d _ rest⟩
  · unfold stepN at hs; split at hs
    · cases hs
    · rename_i h0
      simp only [List.mem_singleton] at hs; subst hs
      exact ⟨by simp, fun d rest hf => member_shareVersion d _ (by omega) hsv rest hf⟩
  · unfold stepN at hs; split at hs
    · cases hs
    · rename_i h0
      simp only [List.mem_singleton] at hs; subst hs
      exact ⟨by simp, fun d rest hf => member_namespaceVersion d _ (by omega) hnv rest hf⟩
  · unfold stepB at hs; split at hs
    · cases hs
    · rename_i h0
      simp only [List.mem_singleton] at hs; subst hs
      exact ⟨by simp, fun d rest _ => member_signer d _ rest (fun e => h0 (by simp [e]))⟩

theorem stepsOf_fold (p : BlobProto) :
    (stepsOf p).foldl (fun q s => s.2 q) emptyProto = { pb := p, signerEmptyNonNil := false } := by
  obtain ⟨a, b, c, d, e⟩ := p
  simp only [stepsOf, stepB, stepN, emptyProto]
  by_cases ha : a.length = 0 <;> by_cases hb : b.length = 0 <;> by_cases hc : c = 0 <;> by_cases hd : d = 0 <;>
    by_cases he : e.length = 0 <;>
    simp [ha, hb, hc, hd, he] <;>
    simp_all [C19.eq_nil_of_length_zero]

/-- BlobProto JSON round trip (omitempty members and all) -/
theorem blobProto_json_roundtrip (p : BlobProto) (hsv : p.shareVersion < 4294967296) (hnv : p.namespaceVersion < 4294967296) :
    unmarshalBlobProto (marshalBlobProto p) = .ok { pb := p, signerEmptyNonNil := false } := by
  rw [marshal_eq_steps, unmarshalBlobProto_steps _ (stepsOf_good p hsv hnv), stepsOf_fold]

/-- Blob JSON round trip: every blob the constructors accept -/
theorem blob_json_roundtrip (b : Blob) (hb : C19.ProtoBlob b) : unmarshalBlob (marshalBlob b) = .ok b := by
  have hv : b.ver ≤ 1 := by rcases hb.valid.valid.ver with h | h <;> omega
  have hn : Ns.version b.ns < 256 := by
    unfold Ns.version; exact (b.ns.headD 0).toNat_lt
  unfold unmarshalBlob marshalBlob
  rw [blobProto_json_roundtrip _ (by show b.ver < _; omega) (by show Ns.version b.ns < _; omega)]
  simp [C19.fromProto_toProto b hb]

/-- acceptance through JSON is NewBlobFromProto's acceptance -/
theorem unmarshalBlob_ok (doc : Bytes) (b : Blob) (h : unmarshalBlob doc = .ok b) : ∃ pb, Blob.fromProto pb = some b := by
  unfold unmarshalBlob at h
  split at h
  · rename_i d _
    split at h
    · cases h
    · split at h
      · rename_i b' hb'
        cases h
        exact ⟨_, hb'⟩
      · cases h
  · cases h
  · cases h

end GoSquare.JsonProofs
