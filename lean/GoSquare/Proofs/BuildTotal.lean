import GoSquare.Proofs.ExportTotal
import GoSquare.Proofs.BuildSquare
/-! Greedy building never returns an error when every blob transaction decodes (C06). -/
namespace GoSquare.BuildTotal
open GoSquare Builder Spec

/-- the transaction loop of `Build` errs only on a transaction whose blob-tx envelope fails to decode -/
theorem buildLoop_total (dec : Bytes → Decoded) : ∀ (txs : List Bytes) (b : Builder) (n bl : List Bytes),
    (∀ t ∈ txs, dec t ≠ .badBlobTx) → ∃ r, buildLoop dec txs b n bl = .ok r
  | [], b, n, bl, _ => ⟨_, rfl⟩
  | t :: rest, b, n, bl, h => by
    rw [buildLoop]
    cases hd : dec t with
    | badBlobTx => exact absurd hd (h t (by simp))
    | normal => exact buildLoop_total dec rest _ _ _ (fun x hx => h x (by simp [hx]))
    | blobTx bt => exact buildLoop_total dec rest _ _ _ (fun x hx => h x (by simp [hx]))

/-- **C06 (greedy building returns no error).** For every input whose blob transactions decode
    (to blob-valid blobs), every valid configuration with maxSquareSize ≤ 512: `Build` returns a
    square and a kept list. -/
theorem build_never_errs (dec : Bytes → Decoded) (hdec : DecValid dec) (txs : List Bytes)
    (hall : ∀ t ∈ txs, dec t ≠ .badBlobTx) (max thr : Nat) (ht : 1 ≤ thr)
    (hcfg : isPowerOfTwo max = true) (hmaxp : Nat.isPowerOfTwo max) (hmax : max ≤ 512) :
    ∃ sq kept, build dec txs max thr = .ok (sq, kept) := by
  have h0 : max ≠ 0 := by
    obtain ⟨k, rfl⟩ := hmaxp
    exact Nat.ne_of_gt (Nat.two_pow_pos k)
  have hnew : Builder.new max thr = .ok { maxSquareSize := max, thr := thr } := by
    unfold Builder.new; simp [h0, hcfg]
  obtain ⟨hk0, ht0, hm0⟩ := kept_new max thr _ hnew
  obtain ⟨⟨b, n, bl⟩, hloop⟩ := buildLoop_total dec txs { maxSquareSize := max, thr := thr } [] [] hall
  obtain ⟨hk, hthr, hmx, hbl, _, _, _⟩ := buildLoop_spec dec txs _ [] [] b n bl
    (by simpa using hk0) (by simp) (by simp) hloop
  have hbthr : b.thr = thr := by rw [hthr]
  have hbmax : b.maxSquareSize = max := by rw [hmx]
  obtain ⟨b', sq, hexp⟩ := ExportTotal.export_succeeds b n (bl.map (decB dec)) hk
    (decValid_kept dec hdec bl hbl) (by rw [hbthr]; exact ht) (by rw [hbmax]; exact hmaxp) (by rw [hbmax]; exact hmax)
  refine ⟨sq, n ++ bl, ?_⟩
  unfold build
  simp only [hnew, bind, Except.bind, hloop, hexp]

end GoSquare.BuildTotal
