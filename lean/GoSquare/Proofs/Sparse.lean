import GoSquare.Proofs.Bytes
import GoSquare.Spec.Format
/-! The sparse writer refines the specified format: `sparseWrite acc blob = acc ++ Spec.sparseSeq blob`
    (C10, and the base of C08 / C13 / C05). -/
namespace GoSquare
open Spec

/-- what the theorems assume of a blob: what `NewBlob` + `ValidateForBlob` establish -/
structure Blob.Valid (b : Blob) : Prop where
  nsLen : b.ns.length = 29
  notCompact : isCompactNs b.ns = false
  ver : b.ver = 0 ∨ b.ver = 1
  signer : (b.ver = 0 → b.signer = none) ∧ (b.ver = 1 → ∃ s, b.signer = some s ∧ s.length = 20)
  dataPos : 1 ≤ b.data.length
  dataLt : b.data.length < 4294967296

theorem chunksOf_nil (n : Nat) : chunksOf n [] = [] := by rw [chunksOf]; simp
theorem chunksOf_cons (n : Nat) (d : Bytes) (hd : d ≠ []) (hn : n ≠ 0) :
    chunksOf n d = d.take n :: chunksOf n (d.drop n) := by
  rw [chunksOf]; simp [hd, hn]

theorem fill_of_length {pre : Bytes} (h : pre.length = 512) : fill pre = pre := by
  simp [fill, h, zeros]

theorem newBuilder_cont (ns : Bytes) (ver : Nat) (hv : ver ≤ 127) (hc : isCompactNs ns = false) :
    ShareBuilder.new ns ver false =
      .ok { ns, ver, isFirst := false, isCompact := false, raw := ns ++ [infoByte ver false] } := by
  have : ¬ ver > 127 := by omega
  simp [ShareBuilder.new, newInfoByte, this, hc, infoByte, bind, Except.bind]

/-- the chunk loop of `SparseShareSplitter.Write` from a builder holding `pre` -/
theorem sparseLoop_spec (ns : Bytes) (ver : Nat) (hns : ns.length = 29) (hv : ver ≤ 127)
    (hc : isCompactNs ns = false) :
    ∀ (fuel : Nat) (b : ShareBuilder) (data : Bytes) (acc : List Bytes),
      data.length + 1 ≤ fuel → data ≠ [] → b.raw.length < 512 →
      sparseLoop ns ver fuel b data acc =
        .ok (acc ++ [fill (b.raw ++ data.take (512 - b.raw.length))] ++
          (chunksOf 482 (data.drop (512 - b.raw.length))).map (fun c => fill (ns ++ [infoByte ver false] ++ c)))
  | 0, _, _, _, h, _, _ => by omega
  | fuel + 1, b, data, acc, hf, hd, hp => by
    rw [sparseLoop]
    simp only [ShareBuilder.addData]
    by_cases hfit : data.length ≤ 512 - b.raw.length
    · simp only [hfit, if_true]
      have hlen : (b.raw ++ data).length ≤ 512 := by simp; omega
      simp only [ShareBuilder.zeroPadIfNecessary, ShareBuilder.build, bind, Except.bind]
      have htake : data.take (512 - b.raw.length) = data := List.take_of_length_le hfit
      have hdrop : data.drop (512 - b.raw.length) = [] := List.drop_of_length_le hfit
      rw [htake, hdrop, chunksOf_nil]
      by_cases hfull : (b.raw ++ data).length ≥ 512
      · have h512 : (b.raw ++ data).length = 512 := by omega
        simp [hfull, h512, fill_of_length h512]
      · simp only [hfull, if_false]
        have e : b.raw.length + (data.length + (512 - (b.raw.length + data.length))) = 512 := by
          simp only [List.length_append] at hlen; omega
        simp [fill, e]
    · simp only [hfit, if_false]
      have hlen : (b.raw ++ data.take (512 - b.raw.length)).length = 512 := by
        simp only [List.length_append, List.length_take]; omega
      simp only [ShareBuilder.build, hlen, if_true, bind, Except.bind, newBuilder_cont ns ver hv hc]
      have hrest : data.drop (512 - b.raw.length) ≠ [] := by
        intro e
        have := congrArg List.length e
        simp only [List.length_drop, List.length_nil] at this; omega
      have hpre : (ns ++ [infoByte ver false]).length = 30 := by simp [hns]
      rw [sparseLoop_spec ns ver hns hv hc fuel _ (data.drop (512 - b.raw.length)) _
        (by simp only [List.length_drop]; omega) hrest (by simp [hns])]
      simp only [hpre]
      rw [chunksOf_cons 482 _ hrest (by omega), fill_of_length hlen]
      simp [List.append_assoc]

theorem overwrite_seqLen (ns : Bytes) (info : UInt8) (tail : Bytes) (n : Nat) (hns : ns.length = 29) :
    ShareBuilder.overwrite (ns ++ [info] ++ zeros 4 ++ tail) 30 (be32 n) = .ok (ns ++ [info] ++ be32 n ++ tail) := by
  unfold ShareBuilder.overwrite
  have hl : 30 + (be32 n).length ≤ (ns ++ [info] ++ zeros 4 ++ tail).length := by simp [hns]; omega
  rw [if_pos hl]
  have h30 : (ns ++ [info]).length = 30 := by simp [hns]
  have e1 : (ns ++ [info] ++ zeros 4 ++ tail).take 30 = ns ++ [info] := by
    rw [List.append_assoc (ns ++ [info]), List.take_append_of_le_length (by omega), List.take_of_length_le (by omega)]
  have e2 : (ns ++ [info] ++ zeros 4 ++ tail).drop (30 + (be32 n).length) = tail := by
    have : (ns ++ [info] ++ zeros 4).length = 30 + (be32 n).length := by simp [hns]
    rw [← this, List.drop_left]
  rw [e1, e2]

/-- **the sparse writer emits exactly the specified shares** -/
theorem sparseWrite_eq_spec (acc : List Bytes) (b : Blob) (hb : b.Valid) :
    sparseWrite acc b = .ok (acc ++ Spec.sparseSeq b) := by
  obtain ⟨hns, hc, hver, hsig, hd1, hd2⟩ := hb
  have hv127 : b.ver ≤ 127 := by omega
  have hvok : (b.ver == 0 || b.ver == 1) = true := by rcases hver with h | h <;> simp [h]
  have hdne : b.data ≠ [] := by intro e; rw [e] at hd1; simp at hd1
  unfold sparseWrite
  simp only [hvok, Bool.not_true, Bool.false_eq_true, if_false]
  have hnew : ShareBuilder.new b.ns b.ver true =
      .ok { ns := b.ns, ver := b.ver, isFirst := true, isCompact := false,
            raw := b.ns ++ [infoByte b.ver true] ++ zeros 4 ++ [] } := by
    have : ¬ b.ver > 127 := by omega
    simp [ShareBuilder.new, newInfoByte, this, hc, infoByte, bind, Except.bind]
  simp only [hnew, bind, Except.bind, ShareBuilder.writeSequenceLen, Bool.not_true, Bool.false_eq_true, if_false,
    overwrite_seqLen b.ns _ [] _ hns]
  have hu32 : u32 b.data.length = b.data.length := Nat.mod_eq_of_lt hd2
  rw [hu32]
  rcases hver with h0 | h1
  · -- version 0: no signer
    have hs := hsig.1 h0
    have hne : ¬ b.ver = 1 := by omega
    simp only [hne, if_false]
    rw [sparseLoop_spec b.ns b.ver hns hv127 hc _ _ b.data acc (Nat.le_refl _) hdne (by simp [hns])]
    simp only [Spec.sparseSeq, hne, if_false, List.append_nil, List.length_nil, Nat.sub_zero]
    have : (b.ns ++ [infoByte b.ver true] ++ be32 b.data.length).length = 34 := by simp [hns]
    simp [this, hns, List.append_assoc]
  · -- version 1: the signer follows the sequence length
    obtain ⟨sg, hsg, hsl⟩ := hsig.2 h1
    simp only [h1, if_true, ShareBuilder.writeSigner, Bool.not_true, Bool.false_or, bne_self_eq_false,
      Bool.false_eq_true, if_false, hsg, Option.getD_some]
    rw [sparseLoop_spec b.ns 1 hns (by omega) hc _ _ b.data acc (Nat.le_refl _) hdne (by simp [hns, hsl])]
    simp only [Spec.sparseSeq, h1, if_true, hsg, Option.getD_some, hsl, List.append_nil]
    have : (b.ns ++ [infoByte 1 true] ++ be32 b.data.length ++ sg).length = 54 := by simp [hns, hsl]
    simp [this, hns, hsl, List.append_assoc]

end GoSquare

namespace GoSquare
open Spec

/-! ### consequences: share count, namespace prefix, size -/

theorem chunksOf_length (n : Nat) (hn : 1 ≤ n) : ∀ (d : Bytes), (chunksOf n d).length = (d.length + n - 1) / n := by
  intro d
  induction hd : d.length using Nat.strongRecOn generalizing d with
  | _ m ih =>
    by_cases he : d = []
    · subst he
      rw [chunksOf_nil]
      simp only [List.length_nil] at hd ⊢
      subst hd
      symm; apply Nat.div_eq_of_lt <;> omega
    · have hpos : 0 < d.length := List.length_pos_iff.mpr he
      rw [chunksOf_cons n d he (by omega), List.length_cons,
        ih (d.drop n).length (by simp only [List.length_drop]; omega) (d.drop n) rfl, List.length_drop]
      subst hd
      by_cases hle : d.length ≤ n
      · have e1 : d.length - n = 0 := by omega
        rw [e1]
        have : (0 + n - 1) / n = 0 := Nat.div_eq_of_lt (by omega)
        rw [this]
        symm; apply Nat.div_eq_of_lt_le <;> omega
      · have e : d.length + n - 1 = (d.length - n + n - 1) + n := by omega
        rw [e, Nat.add_div_right _ (by omega : 0 < n)]

/-- **C13 (sparse prediction).** The specified sequence of a blob has exactly the predicted number
    of shares, for share versions 0 and 1. -/
theorem sparseSeq_length (b : Blob) (hb : b.Valid) :
    (Spec.sparseSeq b).length = sparseSharesNeededWithSigner b.data.length (b.ver == 1) := by
  obtain ⟨hns, hc, hver, hsig, hd1, hd2⟩ := hb
  unfold Spec.sparseSeq sparseSharesNeededWithSigner
  simp only [List.length_cons, List.length_map, chunksOf_length 482 (by omega), List.length_drop]
  have h0 : ¬ b.data.length = 0 := by omega
  simp only [h0, if_false]
  rcases hver with h | h
  · have hs := hsig.1 h
    have hne : ¬ b.ver = 1 := by omega
    simp only [h, show ¬ ((0:Nat) = 1) from by decide, if_false, List.length_nil, Nat.sub_zero,
      show ((0:Nat) == 1) = false from rfl, Bool.false_eq_true]
    by_cases hlt : b.data.length < 478
    · simp only [hlt, if_true]
      have : (b.data.length - 478 + 482 - 1) / 482 = 0 := Nat.div_eq_of_lt (by omega)
      omega
    · simp only [hlt, if_false]
      by_cases hm : (b.data.length - 478) % 482 > 0
      · simp only [hm, if_true]
        have : (b.data.length - 478 + 482 - 1) / 482 = (b.data.length - 478) / 482 + 1 := by omega
        omega
      · simp only [hm, if_false]
        have : (b.data.length - 478 + 482 - 1) / 482 = (b.data.length - 478) / 482 := by omega
        omega
  · obtain ⟨sg, hsg, hsl⟩ := hsig.2 h
    simp only [h, if_true, hsg, Option.getD_some, hsl, show ((1:Nat) == 1) = true from rfl]
    by_cases hlt : b.data.length < 478 - 20
    · simp only [hlt, if_true]
      have : (b.data.length - (478 - 20) + 482 - 1) / 482 = 0 := Nat.div_eq_of_lt (by omega)
      omega
    · simp only [hlt, if_false]
      by_cases hm : (b.data.length - (478 - 20)) % 482 > 0
      · simp only [hm, if_true]
        have : (b.data.length - (478 - 20) + 482 - 1) / 482 = (b.data.length - (478 - 20)) / 482 + 1 := by omega
        omega
      · simp only [hm, if_false]
        have : (b.data.length - (478 - 20) + 482 - 1) / 482 = (b.data.length - (478 - 20)) / 482 := by omega
        omega

/-- `Blob.ToShares` produces exactly the predicted number of shares -/
theorem toShares_length (b : Blob) (hb : b.Valid) :
    ∃ sh, b.toShares = .ok sh ∧ sh = Spec.sparseSeq b ∧
      sh.length = sparseSharesNeededWithSigner b.data.length (b.ver == 1) := by
  refine ⟨Spec.sparseSeq b, ?_, rfl, sparseSeq_length b hb⟩
  simpa [Blob.toShares] using sparseWrite_eq_spec [] b hb

theorem chunksOf_le (n : Nat) : ∀ (d : Bytes), ∀ c ∈ chunksOf n d, c.length ≤ n := by
  intro d
  induction hd : d.length using Nat.strongRecOn generalizing d with
  | _ m ih =>
    intro c hc
    by_cases he : d = [] ∨ n = 0
    · rw [chunksOf] at hc; simp [he] at hc
    · have h1 : d ≠ [] := fun e => he (Or.inl e)
      have h2 : n ≠ 0 := fun e => he (Or.inr e)
      have hpos : 0 < d.length := List.length_pos_iff.mpr h1
      rw [chunksOf_cons n d h1 h2] at hc
      rcases List.mem_cons.mp hc with rfl | hc
      · simp [List.length_take]; omega
      · exact ih (d.drop n).length (by subst hd; simp only [List.length_drop]; omega) (d.drop n) rfl c hc

/-- every specified share of a valid blob is 512 bytes long and carries the blob's namespace -/
theorem sparseSeq_shares (b : Blob) (hb : b.Valid) :
    ∀ s ∈ Spec.sparseSeq b, s.length = 512 ∧ Share.ns s = b.ns := by
  obtain ⟨hns, hc, hver, hsig, hd1, hd2⟩ := hb
  intro s hs
  unfold Spec.sparseSeq at hs
  have hsl : (if b.ver = 1 then b.signer.getD [] else ([] : Bytes)).length ≤ 20 := by
    rcases hver with h | h
    · have : ¬ b.ver = 1 := by omega
      simp [this]
    · obtain ⟨sg, hsg, hl⟩ := hsig.2 h
      simp [h, hsg, hl]
  rcases List.mem_cons.mp hs with rfl | hs
  · constructor
    · simp only [fill, List.length_append, zeros_length, List.length_take, be32_length, List.length_cons, List.length_nil]
      omega
    · simp [Share.ns, fill, List.append_assoc, List.take_append_of_le_length, hns]
  · obtain ⟨c, hc', rfl⟩ := List.mem_map.mp hs
    have := chunksOf_le 482 _ c hc'
    constructor
    · simp only [fill, List.length_append, zeros_length, List.length_cons, List.length_nil]; omega
    · simp [Share.ns, fill, List.append_assoc, List.take_append_of_le_length, hns]

end GoSquare
