import GoSquare.Model.Arith
import GoSquare.Spec.Arith
/-! Helper lemmas for C15: power-of-two rounding, alignment. Core Lean only. -/
namespace GoSquare

theorem two_pow_lt_two_pow {a b : Nat} (h : 2 ^ a < 2 ^ b) : a < b := by
  rcases Nat.lt_or_ge a b with h' | h'
  · exact h'
  · exact absurd (Nat.pow_le_pow_right (by omega : 0 < 2) h') (by omega)

/-- the doubling loop started at `2^k`: with enough fuel it returns the least power of two
    `≥ input` that is `≥ 2^k`. -/
theorem roundUpPow2Aux_spec : ∀ (fuel k input : Nat), input ≤ 2 ^ (k + fuel) →
    ∃ j, k ≤ j ∧ roundUpPow2Aux fuel (2 ^ k) input = 2 ^ j ∧ input ≤ 2 ^ j ∧ (j = k ∨ 2 ^ (j - 1) < input)
  | 0, k, input, h => ⟨k, Nat.le_refl _, rfl, by simpa using h, Or.inl rfl⟩
  | fuel + 1, k, input, h => by
    rw [roundUpPow2Aux]
    by_cases hlt : 2 ^ k < input
    · simp only [hlt, if_true]
      have : 2 ^ k * 2 = 2 ^ (k + 1) := by rw [Nat.pow_succ]
      rw [this]
      obtain ⟨j, hj, he, hle, hor⟩ := roundUpPow2Aux_spec fuel (k + 1) input (by
        have : k + 1 + fuel = k + (fuel + 1) := by omega
        rw [this]; exact h)
      refine ⟨j, by omega, he, hle, Or.inr ?_⟩
      rcases hor with rfl | hor
      · simpa using hlt
      · exact hor
    · simp only [hlt, if_false]
      exact ⟨k, Nat.le_refl _, rfl, by omega, Or.inl rfl⟩

/-- `RoundUpPowerOfTwo` (64-bit loop): for inputs up to 2^63 the result is a power of two, at least
    the input, and below twice the input (hence the least such power of two). -/
theorem roundUpPow2_spec (n : Nat) (h : n ≤ 2 ^ 63) :
    ∃ j, roundUpPow2 n = 2 ^ j ∧ n ≤ 2 ^ j ∧ (j = 0 ∨ 2 ^ (j - 1) < n) := by
  obtain ⟨j, _, he, hle, hor⟩ := roundUpPow2Aux_spec 64 0 n (by
    calc n ≤ 2 ^ 63 := h
      _ ≤ 2 ^ (0 + 64) := Nat.pow_le_pow_right (by omega) (by omega))
  exact ⟨j, by simpa [roundUpPow2] using he, hle, hor⟩

theorem roundUpPow2_least (n : Nat) (h : n ≤ 2 ^ 63) (m : Nat) (hm : n ≤ 2 ^ m) : roundUpPow2 n ≤ 2 ^ m := by
  obtain ⟨j, he, _, hor⟩ := roundUpPow2_spec n h
  rw [he]
  rcases hor with rfl | hor
  · exact Nat.one_le_two_pow
  · have : 2 ^ (j - 1) < 2 ^ m := Nat.lt_of_lt_of_le hor hm
    have := two_pow_lt_two_pow this
    exact Nat.pow_le_pow_right (by omega) (by omega)

theorem roundUpPow2_pos (n : Nat) (h : n ≤ 2 ^ 63) : 0 < roundUpPow2 n := by
  obtain ⟨j, he, _, _⟩ := roundUpPow2_spec n h
  rw [he]; exact Nat.two_pow_pos j

/-- `RoundUpByMultipleOf`: the least multiple of `v` at or after the cursor. -/
theorem roundUpByMultipleOf_spec (c v : Nat) (hv : 0 < v) :
    v ∣ roundUpByMultipleOf c v ∧ c ≤ roundUpByMultipleOf c v ∧ roundUpByMultipleOf c v < c + v := by
  unfold roundUpByMultipleOf
  by_cases h : c % v = 0
  · simp only [h, if_true]
    exact ⟨Nat.dvd_of_mod_eq_zero h, Nat.le_refl _, by omega⟩
  · simp only [h, if_false]
    have hdm := Nat.div_add_mod c v
    have hlt := Nat.mod_lt c hv
    refine ⟨Nat.dvd_mul_left _ _, ?_, ?_⟩
    · rw [Nat.add_mul, Nat.one_mul, Nat.mul_comm]; omega
    · rw [Nat.add_mul, Nat.one_mul, Nat.mul_comm]; omega

/-- any multiple of `v` at or after the cursor is at least the returned index -/
theorem roundUpByMultipleOf_least (c v m : Nat) (hv : 0 < v) (hd : v ∣ m) (hc : c ≤ m) :
    roundUpByMultipleOf c v ≤ m := by
  obtain ⟨hdvd, _, hlt⟩ := roundUpByMultipleOf_spec c v hv
  obtain ⟨a, rfl⟩ := hd
  obtain ⟨b, hb⟩ := hdvd
  rw [hb] at hlt ⊢
  apply Nat.mul_le_mul_left
  -- v * b < c + v ≤ v * a + v = v * (a + 1)
  have : v * b < v * (a + 1) := by rw [Nat.mul_add, Nat.mul_one]; omega
  have := Nat.lt_of_mul_lt_mul_left this
  omega

end GoSquare
