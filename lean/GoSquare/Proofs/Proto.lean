import GoSquare.Proofs.Bytes
import GoSquare.Model.Proto
/-! Round trips of the modelled protobuf wire codec (C19): a list of well-formed fields encodes to
    bytes that the decoder parses back to exactly that list. -/
namespace GoSquare
namespace Proto

/-- wire encoding of one field (bytes or varint) -/
def encField : Nat × Val → Bytes
  | (num, .bytes v) => tagBytes num 2 ++ uvarint v.length ++ v
  | (num, .varint v) => tagBytes num 0 ++ uvarint v
  | _ => []

/-- a field the encoder produces: number in range, payload sizes below 2^63 -/
def FieldOk : Nat × Val → Prop
  | (num, .bytes v) => 1 ≤ num ∧ num ≤ 536870911 ∧ v.length < 2 ^ 63
  | (num, .varint v) => 1 ≤ num ∧ num ≤ 536870911 ∧ v < 2 ^ 63
  | _ => False

theorem consumeVarint_uvarint (n : Nat) (h : n < 2 ^ 63) (rest : Bytes) :
    consumeVarint (uvarint n ++ rest) = some (n, rest) := by
  unfold consumeVarint
  rw [readUvarint_uvarint n h rest]
  simp only
  rw [← uvarint_length, List.drop_left]

theorem nextField_encField (f : Nat × Val) (hf : FieldOk f) (rest : Bytes) :
    ∃ typ, nextField (encField f ++ rest) = some (f.1, typ, f.2, rest) := by
  obtain ⟨num, v⟩ := f
  cases v with
  | bytes b =>
    obtain ⟨h1, h2, h3⟩ := hf
    refine ⟨2, ?_⟩
    have htag : num * 8 + 2 < 2 ^ 63 := by
      have : (536870911 : Nat) * 8 + 2 < 2 ^ 63 := by decide
      omega
    simp only [encField, tagBytes, List.append_assoc, nextField]
    rw [consumeVarint_uvarint _ htag]
    have e1 : (num * 8 + 2) / 8 = num := by omega
    have e2 : (num * 8 + 2) % 8 = 2 := by omega
    simp only [e1, e2]
    have hr : ¬ (num < 1 ∨ num > 536870911) := by omega
    simp only [hr, if_false, consumeBytes]
    rw [consumeVarint_uvarint _ h3]
    simp
  | varint x =>
    obtain ⟨h1, h2, h3⟩ := hf
    refine ⟨0, ?_⟩
    have htag : num * 8 + 0 < 2 ^ 63 := by
      have : (536870911 : Nat) * 8 + 0 < 2 ^ 63 := by decide
      omega
    simp only [encField, tagBytes, List.append_assoc, nextField]
    rw [consumeVarint_uvarint _ htag]
    have e1 : (num * 8 + 0) / 8 = num := by omega
    have e2 : (num * 8 + 0) % 8 = 0 := by omega
    simp only [e1, e2]
    have hr : ¬ (num < 1 ∨ num > 536870911) := by omega
    simp only [hr, if_false]
    rw [consumeVarint_uvarint _ h3]
    simp
  | fixed64 => exact absurd hf (by simp [FieldOk])
  | fixed32 => exact absurd hf (by simp [FieldOk])
  | group => exact absurd hf (by simp [FieldOk])

theorem encField_length_pos (f : Nat × Val) (hf : FieldOk f) : 1 ≤ (encField f).length := by
  obtain ⟨num, v⟩ := f
  cases v <;> simp [FieldOk] at hf <;> simp [encField, tagBytes, uvarint_length] <;>
    (have := uvarintLen_pos (num * 8 + 2); have := uvarintLen_pos (num * 8); omega)

/-- the field loop on an encoded field list -/
theorem fields_enc : ∀ (fs : List (Nat × Val)) (fuel : Nat), (∀ f ∈ fs, FieldOk f) →
    ((fs.map encField).flatten).length + 1 ≤ fuel →
    fields fuel ((fs.map encField).flatten) = some fs
  | [], fuel, _, h => by
    cases fuel with
    | zero => simp at h
    | succ n => simp [fields]
  | f :: fs, fuel, hok, h => by
    cases fuel with
    | zero => simp at h
    | succ n =>
      have hf := hok f (by simp)
      have hpos := encField_length_pos f hf
      simp only [List.map_cons, List.flatten_cons, List.length_append] at h ⊢
      rw [fields]
      have hne : ¬ (encField f ++ (fs.map encField).flatten).length = 0 := by
        intro h0; rw [List.length_append] at h0; omega
      simp only [hne, if_false]
      obtain ⟨typ, hn⟩ := nextField_encField f hf ((fs.map encField).flatten)
      rw [hn]
      simp only
      rw [fields_enc fs n (fun x hx => hok x (by simp [hx])) (by omega)]
      rfl

theorem parseFields_enc (fs : List (Nat × Val)) (hok : ∀ f ∈ fs, FieldOk f) :
    parseFields ((fs.map encField).flatten) = some fs :=
  fields_enc fs _ hok (Nat.le_refl _)

/-- proto3 omits zero values: the field list of an optional bytes / varint field -/
def optBytes (num : Nat) (v : Bytes) : List (Nat × Val) := if v.length = 0 then [] else [(num, .bytes v)]
def optVarint (num v : Nat) : List (Nat × Val) := if v = 0 then [] else [(num, .varint v)]

theorem encBytesField_eq (num : Nat) (v : Bytes) : encBytesField num v = ((optBytes num v).map encField).flatten := by
  unfold encBytesField optBytes; split <;> simp [encField]
theorem encVarintField_eq (num v : Nat) : encVarintField num v = ((optVarint num v).map encField).flatten := by
  unfold encVarintField optVarint; split <;> simp [encField]

theorem flatten_map_append {α β} (f : α → List β) (a b : List α) :
    ((a ++ b).map f).flatten = (a.map f).flatten ++ (b.map f).flatten := by simp

end Proto
end GoSquare
