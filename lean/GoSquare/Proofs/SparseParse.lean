import GoSquare.Proofs.Sparse
import GoSquare.Model.Parse
/-! The sparse reader on specified shares (C08): accessors on the specified encoding, the share
    loop of `parseSparseShares`, payload reassembly. -/
namespace GoSquare
open Spec

/-- a blob as C08 quantifies over it: valid, in a blob-valid namespace -/
structure Blob.BlobValid (b : Blob) : Prop where
  valid : b.Valid
  notTail : Ns.isTailPadding b.ns = false
  notResPad : Ns.isPrimaryReservedPadding b.ns = false
  nsVer : Ns.version b.ns = 0

/-! ### accessors on `ns ++ info :: rest` -/

theorem ns_of_cons (ns : Bytes) (info : UInt8) (rest : Bytes) (h : ns.length = 29) :
    Share.ns (ns ++ info :: rest) = ns := by
  simp [Share.ns, List.take_append_of_le_length, h]

theorem info_of_cons (ns : Bytes) (info : UInt8) (rest : Bytes) (h : ns.length = 29) :
    Share.infoByte (ns ++ info :: rest) = info := by
  simp [Share.infoByte, List.getD_eq_getElem?_getD, List.getElem?_append_right, h]

theorem drop30_of_cons (ns : Bytes) (info : UInt8) (rest : Bytes) (h : ns.length = 29) :
    (ns ++ info :: rest).drop 30 = rest := by
  have : (ns ++ info :: rest) = (ns ++ [info]) ++ rest := by simp
  rw [this, List.drop_left' (by simp [h])]

theorem infoByte_toNat (ver : Nat) (start : Bool) (h : ver ≤ 127) :
    (infoByte ver start).toNat = ver * 2 + (if start then 1 else 0) := by
  unfold infoByte
  have : ver * 2 + (if start then 1 else 0) < 256 := by split <;> omega
  simp; omega

structure ShareDecoded (s : Bytes) (ns : Bytes) (ver : Nat) (start : Bool) : Prop where
  ns : Share.ns s = ns
  version : Share.version s = ver
  start : Share.isSequenceStart s = start

theorem decoded_of_cons (ns : Bytes) (ver : Nat) (start : Bool) (rest : Bytes) (hns : ns.length = 29) (hv : ver ≤ 127) :
    ShareDecoded (ns ++ infoByte ver start :: rest) ns ver start := by
  refine ⟨ns_of_cons _ _ _ hns, ?_, ?_⟩
  · simp only [Share.version, info_of_cons _ _ _ hns, infoByte_toNat ver start hv]
    cases start <;> simp <;> omega
  · simp only [Share.isSequenceStart, info_of_cons _ _ _ hns, infoByte_toNat ver start hv]
    cases start <;> simp <;> omega

/-! ### payload reassembly -/

/-- payload bytes the reader sees in a continuation share holding chunk `c` -/
def contPayload (c : Bytes) : Bytes := c ++ zeros (512 - (30 + c.length))

theorem reassemble (cap : Nat) (hcap : 1 ≤ cap) : ∀ (d : Bytes),
    ∃ k, (d.take cap ++ zeros (cap - (d.take cap).length)) ++ ((chunksOf 482 (d.drop cap)).map contPayload).flatten
      = d ++ zeros k := by
  intro d
  induction hd : d.length using Nat.strongRecOn generalizing d cap with
  | _ m ih =>
    by_cases hle : d.length ≤ cap
    · refine ⟨cap - d.length, ?_⟩
      rw [List.take_of_length_le hle, List.drop_of_length_le hle, chunksOf_nil]
      simp
    · have hlt : cap < d.length := by omega
      have htl : (d.take cap).length = cap := by simp [List.length_take]; omega
      have hne : d.drop cap ≠ [] := by
        intro e; have := congrArg List.length e; simp at this; omega
      rw [htl, Nat.sub_self, chunksOf_cons 482 _ hne (by omega)]
      simp only [List.map_cons, List.flatten_cons, contPayload]
      obtain ⟨k, hk⟩ := ih (d.drop cap).length (by subst hd; simp only [List.length_drop]; omega) 482 (by omega) (d.drop cap) rfl
      refine ⟨k, ?_⟩
      have e : 512 - (30 + ((d.drop cap).take 482).length) = 482 - ((d.drop cap).take 482).length := by omega
      have hk' : (d.drop cap).take 482 ++ zeros (512 - (30 + ((d.drop cap).take 482).length)) ++
          ((chunksOf 482 ((d.drop cap).drop 482)).map contPayload).flatten = d.drop cap ++ zeros k := by
        rw [e]; exact hk
      simp only [zeros, List.replicate_zero, List.append_nil, List.append_assoc] at hk' ⊢
      rw [hk', ← List.append_assoc, List.take_append_drop]

/-! ### the share loop -/

def mkSeq (s : Bytes) : SparseSeq :=
  { ns := Share.ns s, ver := Share.version s, data := Share.rawData s, seqLen := Share.sequenceLen s,
    signer := Share.signer s }

def IsPad (s : Bytes) : Prop := Share.checkVersionSupported s = true ∧ Share.isPadding s = true
def IsCont (s : Bytes) : Prop :=
  Share.checkVersionSupported s = true ∧ Share.isPadding s = false ∧ Share.isSequenceStart s = false
def IsFirst (s : Bytes) : Prop :=
  Share.checkVersionSupported s = true ∧ Share.isPadding s = false ∧ Share.isSequenceStart s = true

theorem loop_pad : ∀ (pads rest : List Bytes) (seqs : List SparseSeq), (∀ p ∈ pads, IsPad p) →
    parseSparseLoop (pads ++ rest) seqs = parseSparseLoop rest seqs
  | [], _, _, _ => rfl
  | p :: ps, rest, seqs, h => by
    obtain ⟨h1, h2⟩ := h p (by simp)
    simp only [List.cons_append, parseSparseLoop, h1, h2, Bool.not_true, Bool.false_eq_true, if_false, if_true]
    exact loop_pad ps rest seqs (fun x hx => h x (by simp [hx]))

theorem loop_first (s : Bytes) (rest : List Bytes) (seqs : List SparseSeq) (h : IsFirst s) :
    parseSparseLoop (s :: rest) seqs = parseSparseLoop rest (seqs ++ [mkSeq s]) := by
  obtain ⟨h1, h2, h3⟩ := h
  simp [parseSparseLoop, h1, h2, h3, mkSeq]

theorem loop_cont : ∀ (conts rest : List Bytes) (seqs : List SparseSeq) (q : SparseSeq), (∀ c ∈ conts, IsCont c) →
    parseSparseLoop (conts ++ rest) (seqs ++ [q]) =
      parseSparseLoop rest (seqs ++ [{ q with data := q.data ++ (conts.map Share.rawData).flatten }])
  | [], _, _, _, _ => by simp
  | c :: cs, rest, seqs, q, h => by
    obtain ⟨h1, h2, h3⟩ := h c (by simp)
    simp only [List.cons_append, parseSparseLoop, h1, h2, h3, Bool.not_true, Bool.false_eq_true, if_false,
      List.getLast?_append, List.getLast?_singleton, Option.some_or, List.dropLast_concat]
    rw [loop_cont cs rest seqs _ (fun x hx => h x (by simp [hx]))]
    simp [List.append_assoc]

/-! ### the specified shares as the reader sees them -/

theorem isCompactShare_eq (s : Bytes) : Share.isCompactShare s = isCompactNs (Share.ns s) := rfl

theorem spec_cont_share (b : Blob) (hb : b.BlobValid) (c : Bytes) (hc : c.length ≤ 482) :
    IsCont (fill (b.ns ++ [infoByte b.ver false] ++ c)) ∧
    Share.rawData (fill (b.ns ++ [infoByte b.ver false] ++ c)) = contPayload c := by
  obtain ⟨⟨hns, hnc, hver, hsig, hd1, hd2⟩, hnt, hnr, hnv⟩ := hb
  have hv : b.ver ≤ 127 := by omega
  have hform : fill (b.ns ++ [infoByte b.ver false] ++ c) =
      b.ns ++ infoByte b.ver false :: (c ++ zeros (512 - (30 + c.length))) := by
    have e : 512 - (b.ns ++ [infoByte b.ver false] ++ c).length = 512 - (30 + c.length) := by
      simp only [List.length_append, List.length_cons, List.length_nil, hns]
    simp only [fill]; rw [e]; simp only [List.append_assoc, List.cons_append, List.nil_append]
  rw [hform]
  obtain ⟨d1, d2, d3⟩ := decoded_of_cons b.ns b.ver false (c ++ zeros (512 - (30 + c.length))) hns hv
  have hsup : Share.checkVersionSupported (b.ns ++ infoByte b.ver false :: (c ++ zeros (512 - (30 + c.length)))) = true := by
    rw [Share.checkVersionSupported, d2]; rcases hver with h | h <;> simp [h]
  have hpad : Share.isPadding (b.ns ++ infoByte b.ver false :: (c ++ zeros (512 - (30 + c.length)))) = false := by
    simp [Share.isPadding, Share.isNamespacePadding, d1, d3, hnt, hnr]
  refine ⟨⟨hsup, hpad, d3⟩, ?_⟩
  simp only [Share.rawData, Share.rawDataStartIndex, d3, isCompactShare_eq, d1, hnc, Bool.false_and,
    Bool.false_eq_true, if_false, Nat.add_zero]
  rw [drop30_of_cons _ _ _ hns]; rfl

theorem spec_first_share (b : Blob) (hb : b.BlobValid) :
    let signer : Bytes := if b.ver = 1 then b.signer.getD [] else []
    let cap0 := 478 - signer.length
    let first := fill (b.ns ++ [infoByte b.ver true] ++ be32 b.data.length ++ signer ++ b.data.take cap0)
    IsFirst first ∧ mkSeq first =
      { ns := b.ns, ver := b.ver, data := b.data.take cap0 ++ zeros (cap0 - (b.data.take cap0).length),
        seqLen := b.data.length, signer := b.signer } := by
  obtain ⟨⟨hns, hnc, hver, hsig, hd1, hd2⟩, hnt, hnr, hnv⟩ := hb
  have hv : b.ver ≤ 127 := by omega
  intro signer cap0 first
  have hsl : signer.length = (if b.ver = 1 then 20 else 0) := by
    rcases hver with h | h
    · have : ¬ b.ver = 1 := by omega
      simp [signer, this]
    · obtain ⟨sg, hsg, hl⟩ := hsig.2 h
      simp [signer, h, hsg, hl]
  have hcap : (b.data.take cap0).length ≤ cap0 := by simp [List.length_take]; omega
  have hform : first = b.ns ++ infoByte b.ver true ::
      (be32 b.data.length ++ (signer ++ (b.data.take cap0 ++ zeros (cap0 - (b.data.take cap0).length)))) := by
    have : 512 - (b.ns ++ [infoByte b.ver true] ++ be32 b.data.length ++ signer ++ b.data.take cap0).length
        = cap0 - (b.data.take cap0).length := by
      simp only [List.length_append, be32_length, List.length_cons, List.length_nil, hns]
      split at hsl <;> omega
    simp only [first, fill]; rw [this]; simp only [List.append_assoc, List.cons_append, List.nil_append]
  obtain ⟨d1, d2, d3⟩ := decoded_of_cons b.ns b.ver true
    (be32 b.data.length ++ (signer ++ (b.data.take cap0 ++ zeros (cap0 - (b.data.take cap0).length)))) hns hv
  rw [← hform] at d1 d2 d3
  have hseq : Share.sequenceLen first = b.data.length := by
    simp only [Share.sequenceLen, d3, Bool.not_true, Bool.false_eq_true, if_false]
    rw [hform, drop30_of_cons _ _ _ hns, readBe32_be32 _ hd2]
  have hsup : Share.checkVersionSupported first = true := by
    rw [Share.checkVersionSupported, d2]; rcases hver with h | h <;> simp [h]
  have hpad : Share.isPadding first = false := by
    have : ¬ b.data.length = 0 := by omega
    simp [Share.isPadding, Share.isNamespacePadding, d1, d3, hnt, hnr, hseq, this]
  refine ⟨⟨hsup, hpad, d3⟩, ?_⟩
  have hdrop34 : first.drop 34 = signer ++ (b.data.take cap0 ++ zeros (cap0 - (b.data.take cap0).length)) := by
    have : first.drop 34 = (first.drop 30).drop 4 := by rw [List.drop_drop]
    rw [this, hform, drop30_of_cons _ _ _ hns, List.drop_left' (be32_length _)]
  rcases hver with h0 | h1
  · have hne : ¬ b.ver = 1 := by omega
    have hs0 : signer = [] := by simp [signer, hne]
    have hraw : Share.rawData first = b.data.take cap0 ++ zeros (cap0 - (b.data.take cap0).length) := by
      simp only [Share.rawData, Share.rawDataStartIndex, d3, isCompactShare_eq, d1, hnc, d2, h0, if_true,
        Bool.false_eq_true, if_false, Bool.true_and, show ((0:Nat) == 1) = false from rfl]
      rw [hdrop34, hs0]; rfl
    have hsg : Share.signer first = b.signer := by
      simp [Share.signer, d2, h0, hsig.1 h0]
    simp only [mkSeq, d1, d2, hraw, hseq, hsg]
  · obtain ⟨sg, hsgv, hl⟩ := hsig.2 h1
    have hs1 : signer = sg := by simp [signer, h1, hsgv]
    have hraw : Share.rawData first = b.data.take cap0 ++ zeros (cap0 - (b.data.take cap0).length) := by
      simp only [Share.rawData, Share.rawDataStartIndex, d3, isCompactShare_eq, d1, hnc, d2, h1, if_true,
        Bool.false_eq_true, if_false, Bool.true_and, show ((1:Nat) == 1) = true from rfl]
      have : first.drop (30 + 4 + 0 + 20) = (first.drop 34).drop 20 := by rw [List.drop_drop]
      rw [this, hdrop34, hs1, List.drop_left' hl]
    have hsg : Share.signer first = b.signer := by
      simp only [Share.signer, d2, h1, d3, Bool.not_true, Bool.false_eq_true, if_false, ne_eq, not_true_eq_false]
      rw [hdrop34, hs1, List.take_left' hl, hsgv]
    simp only [mkSeq, d1, d2, hraw, hseq, hsg]

/-- every specified share of a blob carries the blob's share version -/
theorem sparseSeq_version (b : Blob) (hb : b.BlobValid) : ∀ s ∈ Spec.sparseSeq b, Share.version s = b.ver := by
  intro s hs
  have hf := spec_first_share b hb
  simp only at hf
  obtain ⟨_, hmk⟩ := hf
  unfold Spec.sparseSeq at hs
  rcases List.mem_cons.mp hs with rfl | hs
  · have := congrArg SparseSeq.ver hmk
    simpa [mkSeq] using this
  · obtain ⟨c, hc, rfl⟩ := List.mem_map.mp hs
    obtain ⟨⟨hns, _, hver, _, _, _⟩, _⟩ := hb
    have hcl := chunksOf_le 482 _ c hc
    have hform : fill (b.ns ++ [infoByte b.ver false] ++ c) =
        b.ns ++ infoByte b.ver false :: (c ++ zeros (512 - (30 + c.length))) := by
      have e : 512 - (b.ns ++ [infoByte b.ver false] ++ c).length = 512 - (30 + c.length) := by
        simp only [List.length_append, List.length_cons, List.length_nil, hns]
      simp only [fill]; rw [e]; simp only [List.append_assoc, List.cons_append, List.nil_append]
    rw [hform]
    exact (decoded_of_cons b.ns b.ver false _ hns (by omega)).version

/-- **padding shares are emitted exactly as specified** (`NamespacePaddingShare`) -/
theorem namespacePaddingShare_eq_spec (ns : Bytes) (ver : Nat) (hns : ns.length = 29) (hv : ver ≤ 127)
    (hc : isCompactNs ns = false) : namespacePaddingShare ns ver = .ok (Spec.paddingShare ns ver) := by
  have hnew : ShareBuilder.new ns ver true =
      .ok { ns := ns, ver := ver, isFirst := true, isCompact := false,
            raw := ns ++ [infoByte ver true] ++ zeros 4 ++ [] } := by
    have : ¬ ver > 127 := by omega
    simp [ShareBuilder.new, newInfoByte, this, hc, infoByte, bind, Except.bind]
  have hlen : (ns ++ [infoByte ver true] ++ be32 0 ++ []).length = 34 := by simp [hns]
  simp only [namespacePaddingShare, hnew, bind, Except.bind, ShareBuilder.writeSequenceLen, Bool.not_true,
    Bool.false_eq_true, if_false, overwrite_seqLen ns _ [] _ hns, ShareBuilder.addData, hlen, zeros_length]
  simp [ShareBuilder.build, hns, Spec.paddingShare, fill, List.append_assoc]

theorem namespacePaddingShares_eq_spec (ns : Bytes) (ver n : Nat) (hns : ns.length = 29) (hv : ver ≤ 127)
    (hc : isCompactNs ns = false) :
    namespacePaddingShares ns ver n = .ok (List.replicate n (Spec.paddingShare ns ver)) := by
  unfold namespacePaddingShares
  by_cases h : n = 0
  · simp [h]
  · simp [h, namespacePaddingShare_eq_spec ns ver hns hv hc, bind, Except.bind]

end GoSquare
