import GoSquare.Proofs.BlobLoop
import GoSquare.Proofs.WriteSquare
import GoSquare.Properties.C09
/-! `Export` in closed form: the square is
    tx shares ‖ pfb shares ‖ reserved padding ‖ blob region ‖ tail padding. -/
namespace GoSquare
open Builder Spec

theorem compactSeq_length (ns : Bytes) (units : List Bytes) :
    (compactSeq ns units).length = compactSharesNeeded (unitStream units).length := by
  rw [compactSeq_eq, List.length_map, List.length_range, compactCount_eq_sizeOf, sizeOf_eq_compactSharesNeeded]

/-- the count of the compact writer needs no size bound -/
theorem compact_writer_count (ns : Bytes) (hc : CompactNs ns) (units : List Bytes) (c0 c : CompactSplitter)
    (h0 : CompactSplitter.new ns 0 = .ok c0) (h1 : units.foldlM (fun w t => w.writeTx t) c0 = .ok c) :
    c.count = (compactSeq ns units).length := by
  obtain ⟨c0', g0, hN0, _⟩ := new_spec ns hc
  rw [h0] at g0
  simp only [Except.ok.injEq] at g0
  subst g0
  obtain ⟨c', g1, hN⟩ := writeAll_spec ns (zeros 4) hc units c0 [] hN0
  rw [h1] at g1
  simp only [Except.ok.injEq] at g1
  subst g1
  simp only [List.nil_append] at hN
  rw [count_spec ns _ hc c units hN, compactSeq_length]

/-- a stream is at most 478 bytes per share it needs -/
theorem stream_le_shares (L : Nat) : L ≤ 478 * compactSharesNeeded L := by
  rw [← sizeOf_eq_compactSharesNeeded]
  unfold sizeOf posOf
  by_cases h : L < 474
  · simp only [h, if_true]; split <;> omega
  · simp only [h, if_false]; split <;> omega

/-- the compact writer, as `Export` uses it -/
theorem compact_writer (ns : Bytes) (hc : CompactNs ns) (units : List Bytes)
    (hlt : (unitStream units).length < 4294967296) (c0 c : CompactSplitter)
    (h0 : CompactSplitter.new ns 0 = .ok c0) (h1 : units.foldlM (fun w t => w.writeTx t) c0 = .ok c) :
    ∃ tw, c.exportShares = .ok (tw, compactSeq ns units) ∧ c.count = (compactSeq ns units).length := by
  obtain ⟨c0', c', g0, g1, g2, g3⟩ := C09.writer_eq_spec ns hc units hlt
  rw [h0] at g0
  simp only [Except.ok.injEq] at g0
  subst g0
  rw [h1] at g1
  simp only [Except.ok.injEq] at g1
  subst g1
  cases he : c.exportShares with
  | error e => rw [he] at g2; cases g2
  | ok r =>
    rw [he] at g2
    simp only [Except.map, Except.ok.injEq] at g2
    exact ⟨r.1, by rw [← g2], by rw [g3, compactSeq_length]⟩

theorem region_nil_iff (thr cur : Nat) (prev : Option Blob) (es : List Element) :
    region thr cur prev es = [] ↔ es = [] := by
  cases es with
  | nil => simp [region]
  | cons e es => simp [region, sparseSeq]

/-- where the blob region starts -/
def firstIdx (thr start : Nat) : List Element → Nat
  | [] => start
  | e :: _ => nextShareIndex start e.numShares thr

/-- **`Export` in closed form.** -/
theorem exportCore_layout (thr : Nat) (cs : Int) (txs : List Bytes) (pfbs : List Proto.IndexWrapper)
    (blobs : List Element) (txSize pfbSize : Nat) (upd : Option (List Element × List Proto.IndexWrapper))
    (sq : List Bytes)
    (hne : ¬ (txSize = 0 ∧ pfbSize = 0))
    (hok : ∀ e ∈ blobs, EOK e)
    (htx : txSize = (compactSeq txNamespace txs).length)
    (hpfb0 : blobs = [] → pfbSize = (compactSeq payForBlobNamespace (pfbs.map (·.marshal))).length)
    (hsz1 : 478 * txSize < 4294967296) (hsz2 : 478 * pfbSize < 4294967296)
    (h : exportCore thr cs txs pfbs blobs txSize pfbSize = .ok (upd, sq)) :
    let sorted := blobs.mergeSort elemLe
    let start := txSize + pfbSize
    let pf := patchAll thr start sorted pfbs
    let txS := compactSeq txNamespace txs
    let pfbS := compactSeq payForBlobNamespace (pf.map (·.marshal))
    let reg := region thr start none sorted
    let ss := blobMinSquareSize cs.toNat
    upd = some (sorted, pf) ∧
    sq = txS ++ pfbS ++
      List.replicate (firstIdx thr start sorted - (txS.length + pfbS.length)) (paddingShare primaryReservedPaddingNamespace 0) ++
      reg ++
      List.replicate (ss * ss - (firstIdx thr start sorted + reg.length)) (paddingShare tailPaddingNamespace 0) ∧
    txS.length + pfbS.length ≤ firstIdx thr start sorted ∧ firstIdx thr start sorted + reg.length ≤ ss * ss ∧
    pfbS.length ≤ pfbSize := by
  intro sorted start pf txS pfbS reg ss
  unfold exportCore at h
  have hc : (txSize == 0 && pfbSize == 0) = false := by
    rcases Nat.eq_zero_or_pos txSize with h0 | h0
    · have : pfbSize ≠ 0 := fun h1 => hne ⟨h0, h1⟩
      simp [this]
    · have : txSize ≠ 0 := by omega
      simp [this]
  simp only [hc, Bool.false_eq_true, if_false] at h
  obtain ⟨txW0, hnew1, h⟩ := res_bind_ok' h
  obtain ⟨txW, hw1, h⟩ := res_bind_ok' h
  obtain ⟨st, hloop, h⟩ := res_bind_ok' h
  obtain ⟨pfbW0, hnew2, h⟩ := res_bind_ok' h
  obtain ⟨pfbW, hw2, h⟩ := res_bind_ok' h
  have hsok : ∀ e ∈ sorted, EOK e := fun e he => hok e (List.mem_mergeSort.mp he)
  obtain ⟨r1, r2, r3, r4, r5⟩ := blobLoop_spec thr sorted 0 _ st none hsok rfl (Or.inl ⟨rfl, rfl, rfl⟩) hloop
  simp only [List.nil_append, if_true] at r1 r2 r5
  have hpl : ∀ (es : List Element) (cur : Nat) (p : List Proto.IndexWrapper), (patchAll thr cur es p).length = p.length := by
    intro es
    induction es with
    | nil => intro cur p; rfl
    | cons e es ih => intro cur p; rw [patchAll, ih, patchOne_length]
  have hlt1 : (unitStream txs).length < 4294967296 := by
    have := stream_le_shares (unitStream txs).length
    rw [← compactSeq_length txNamespace, ← htx] at this
    omega
  obtain ⟨tw, hx1, hcnt1⟩ := compact_writer txNamespace ⟨by decide, by decide⟩ txs hlt1 txW0 txW hnew1 hw1
  have hw2' : (st.pfbs.map (·.marshal)).foldlM (fun w t => w.writeTx t) pfbW0 = .ok pfbW := by
    rw [List.foldlM_map]; exact hw2
  have hcnt2' := compact_writer_count payForBlobNamespace ⟨by decide, by decide⟩ (st.pfbs.map (·.marshal)) pfbW0 pfbW hnew2 hw2'
  split at h
  · cases h
  · rename_i hsz
    have hlt2 : (unitStream (st.pfbs.map (·.marshal))).length < 4294967296 := by
      have := stream_le_shares (unitStream (st.pfbs.map (·.marshal))).length
      rw [← compactSeq_length payForBlobNamespace, ← hcnt2'] at this
      omega
    obtain ⟨pw, hx2, hcnt2⟩ := compact_writer payForBlobNamespace ⟨by decide, by decide⟩ (st.pfbs.map (·.marshal))
      hlt2 pfbW0 pfbW hnew2 hw2'
    obtain ⟨sq', hws, h⟩ := res_bind_ok' h
    simp only [Except.ok.injEq, Prod.mk.injEq] at h
    obtain ⟨hu, rfl⟩ := h
    have hnrs : st.nonReservedStart = firstIdx thr start sorted := by
      rw [r5]; cases sorted <;> rfl
    have hbs : st.shares = [] → st.nonReservedStart = txW.count + pfbW.count := by
      intro hs
      rw [r1, region_nil_iff] at hs
      have hb : blobs = [] := by
        have := List.length_mergeSort (le := elemLe) blobs
        rw [show blobs.mergeSort elemLe = sorted from rfl, hs] at this
        exact List.length_eq_zero_iff.mp this.symm
      rw [hnrs, hs, firstIdx, hcnt1, hcnt2, r2, hs, patchAll, ← hpfb0 hb, ← htx]
    obtain ⟨e1, e2, e3⟩ := writeSquare_concat txW pfbW tw pw st.shares st.nonReservedStart _ sq' _ _ hx1 hx2
      hcnt1.symm hcnt2.symm hbs hws
    rw [hcnt1, hcnt2, r2, hnrs, r1] at e1
    rw [hcnt1, hcnt2, r2, hnrs] at e2
    rw [hnrs, r1] at e3
    refine ⟨by rw [← hu, r2], e1, e2, e3, ?_⟩
    rw [hcnt2, r2] at hsz
    exact Nat.le_of_not_lt hsz

end GoSquare
