import GoSquare.Tie.Counter
import GoSquare.Properties.C13
/-! C13 on the source, for every history: the counter TRANSLATED FROM share/counter.go, driven by any
    sequence of `Add` / `Revert` calls from `NewCompactShareCounter()`, is at every step the image of the
    model's counter (a refinement, by induction over the history with the invariant `OK`), hence its
    `Size()` is the closed form `CompactSharesNeeded` of the effective transactions' length-prefixed total. -/
namespace GoSquare.Tie.Laws
open GoSquare GoSquare.Tie GoSquare.C13

/-- one call on the translated counter -/
def srcStep (c : Src.share.CompactShareCounter) : Op → Src.share.CompactShareCounter
  | .add n => (Src.share.CompactShareCounter.Add c (n : Int)).1
  | .revert => Src.share.CompactShareCounter.Revert c

/-- lengths a Go `int` can hold -/
def Bounded (ops : List Op) : Prop := ∀ op ∈ ops, match op with | .add n => n < 2 ^ 63 | .revert => True

theorem srcRun_refines : ∀ (ops : List Op) (c : Counter), Bounded ops → OK c →
    ops.foldl srcStep (up c) = up (ops.foldl step c) ∧ OK (ops.foldl step c)
  | [], c, _, hc => ⟨rfl, hc⟩
  | op :: ops, c, hb, hc => by
    have hb' : Bounded ops := fun o ho => hb o (List.mem_cons_of_mem _ ho)
    have h0 := hb op (List.mem_cons_self ..)
    simp only [List.foldl_cons]
    cases op with
    | add n =>
      have hn : n < 2 ^ 63 := h0
      have e : srcStep (up c) (.add n) = up (step c (.add n)) := by
        simp only [srcStep, step, Add_tie c n hn hc]
      rw [e]
      exact srcRun_refines ops _ hb' (Add_OK c n hc)
    | revert =>
      have e : srcStep (up c) .revert = up (step c .revert) := by
        simp only [srcStep, step, Revert_tie]
      rw [e]
      exact srcRun_refines ops _ hb' (Revert_OK c hc)

/-- the zero value of the Go struct (`NewCompactShareCounter()` returns `&CompactShareCounter{}`) -/
def srcNew : Src.share.CompactShareCounter := { lastShares := 0, lastRemainder := 0, shares := 0, remainder := 0 }

/-- **C13 on the source, every history.** After any sequence of `Add` and `Revert` calls on the counter as
    translated from the Go source, `Size()` is `CompactSharesNeeded` (also as translated) of what the
    effective transactions occupy, and the counter itself is left unchanged by `Size()`. -/
theorem Counter_history (ops : List Op) (hb : Bounded ops) (hlen : total (eff ops) < 2 ^ 32) :
    let c := ops.foldl srcStep srcNew
    Src.share.CompactShareCounter.Size c = (c, Src.share.CompactSharesNeeded (total (eff ops) : Int)) := by
  intro c
  have hnew : srcNew = up {} := rfl
  obtain ⟨hr, _⟩ := srcRun_refines ops {} hb OK_init
  have hc : c = up (run ops) := by
    show ops.foldl srcStep srcNew = _
    rw [hnew, hr]; rfl
  rw [hc, CounterSize_tie, (counter_history ops).1, CompactSharesNeeded_tie _ hlen]

/-- non-vacuity: the hypotheses hold for a concrete history with a refused (reverted) addition -/
example : Bounded [Op.add 100, .add 400, .revert, .revert, .add 500] := by
  intro op h
  simp only [List.mem_cons, List.mem_nil_iff, or_false] at h
  rcases h with rfl | rfl | rfl | rfl | rfl <;> simp

end GoSquare.Tie.Laws
