import GoSquare.Tie.Basic
import GoSquare.Model.Builder
/-! Source tie for the integer projection of builder.go (`Builder.canFit`, `CurrentSize`,
    `SubtreeRootThreshold`, `Element.maxShareOffset`: the acceptance decision of C06 / C01) and of
    share/range.go (`Range`). Structs are translated as their integer and boolean fields only. -/
namespace GoSquare.Tie
open GoSquare

/-- the model's builder, seen through the integer fields of the Go struct -/
def upB (b : Builder) : Src.square.Builder :=
  { maxSquareSize := b.maxSquareSize, currentSize := b.currentSize, done := b.done, subtreeRootThreshold := b.thr }

def upE (e : Element) : Src.square.Element :=
  { PfbIndex := e.pfbIndex, BlobIndex := e.blobIndex, NumShares := e.numShares, MaxPadding := e.maxPadding }

/-- `canFit`: the translated acceptance test is the model's, and leaves the builder unchanged. -/
theorem canFit_tie (b : Builder) (n : Int) :
    Src.square.Builder.canFit (upB b) n = (upB b, b.canFit n) := by
  unfold Src.square.Builder.canFit Builder.canFit upB
  simp only [Prod.mk.injEq, true_and]
  have e : ((b.maxSquareSize : Int) * (b.maxSquareSize : Int)) = ((b.maxSquareSize * b.maxSquareSize : Nat) : Int) := by
    push_cast; rfl
  rw [e]

theorem CurrentSize_tie (b : Builder) : Src.square.Builder.CurrentSize (upB b) = (upB b, b.currentSize) := rfl

theorem SubtreeRootThreshold_tie (b : Builder) :
    Src.square.Builder.SubtreeRootThreshold (upB b) = (upB b, (b.thr : Int)) := rfl

theorem maxShareOffset_tie (e : Element) :
    Src.square.Element.maxShareOffset (upE e) = ((e.maxShareOffset : Nat) : Int) := by
  unfold Src.square.Element.maxShareOffset Element.maxShareOffset upE
  push_cast; rfl

/-! `share.Range` (end-exclusive share ranges, C12 / C20): facts read off the translated source. -/

theorem Range_Add (a b v : Int) :
    Src.share.Range.Add (Src.share.NewRange a b) v = Src.share.NewRange (a + v) (b + v) := rfl

theorem Range_IsEmpty (a b : Int) : Src.share.Range.IsEmpty (Src.share.NewRange a b) = true ↔ a = 0 ∧ b = 0 := by
  unfold Src.share.Range.IsEmpty Src.share.NewRange
  simp

theorem EmptyRange_IsEmpty : Src.share.Range.IsEmpty Src.share.EmptyRange = true := by decide

end GoSquare.Tie
