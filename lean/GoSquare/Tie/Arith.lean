import GoSquare.Tie.Basic
import GoSquare.Proofs.Arith
import GoSquare.Proofs.Sqrt
import GoSquare.Properties.C15
/-! Source tie for inclusion/blob_share_commitment_rules.go, square.go (Size, RoundUpPowerOfTwo),
    builder.go (IsPowerOfTwo): the generated definitions equal the model's (C15, and the alignment
    arithmetic C04/C06/C07 rest on). -/
namespace GoSquare.Tie
open GoSquare

/-- once the doubling loop has left through its condition, more fuel changes nothing. -/
theorem roundUpPow2Aux_stable : ∀ (f g r n : Nat), n ≤ roundUpPow2Aux f r n →
    roundUpPow2Aux (f + g) r n = roundUpPow2Aux f r n
  | 0, g, r, n, h => by
    have hr : n ≤ r := by simpa [roundUpPow2Aux] using h
    cases g with
    | zero => rfl
    | succ g => simp [roundUpPow2Aux, Nat.not_lt.2 hr]
  | f + 1, g, r, n, h => by
    have e : f + 1 + g = (f + g) + 1 := by omega
    rw [e, roundUpPow2Aux, roundUpPow2Aux]
    rw [roundUpPow2Aux] at h
    by_cases hlt : r < n
    · simp only [hlt, if_true] at h ⊢
      exact roundUpPow2Aux_stable f g (r * 2) n h
    · simp only [hlt, if_false]

theorem loop_tie_inclusion : ∀ (fuel r n : Nat),
    Src.inclusion.RoundUpPowerOfTwo.loop1 fuel (r : Int) (n : Int) = ((roundUpPow2Aux fuel r n : Nat) : Int)
  | 0, r, n => by simp [Src.inclusion.RoundUpPowerOfTwo.loop1, roundUpPow2Aux]
  | fuel + 1, r, n => by
    rw [Src.inclusion.RoundUpPowerOfTwo.loop1, roundUpPow2Aux]
    have e : ((r : Int) * 2) = ((r * 2 : Nat) : Int) := by omega
    by_cases hlt : r < n
    · have : (r : Int) < n := by omega
      simp only [this, hlt, decide_true, if_true, e]
      exact loop_tie_inclusion fuel (r * 2) n
    · have : ¬ (r : Int) < n := by omega
      simp [this, hlt]

theorem loop_tie_square : ∀ (fuel r n : Nat),
    Src.square.RoundUpPowerOfTwo.loop1 fuel (r : Int) (n : Int) = ((roundUpPow2Aux fuel r n : Nat) : Int)
  | 0, r, n => by simp [Src.square.RoundUpPowerOfTwo.loop1, roundUpPow2Aux]
  | fuel + 1, r, n => by
    rw [Src.square.RoundUpPowerOfTwo.loop1, roundUpPow2Aux]
    have e : ((r : Int) * 2) = ((r * 2 : Nat) : Int) := by omega
    by_cases hlt : r < n
    · have : (r : Int) < n := by omega
      simp only [this, hlt, decide_true, if_true, e]
      exact loop_tie_square fuel (r * 2) n
    · have : ¬ (r : Int) < n := by omega
      simp [this, hlt]

theorem le_roundUpPow2 (n : Nat) (h : n ≤ 2 ^ 63) : n ≤ roundUpPow2 n := by
  obtain ⟨j, he, hle, _⟩ := roundUpPow2_spec n h
  rw [he]; exact hle

theorem fuel_split : Src.Prims.loopFuel = 64 + (Src.Prims.loopFuel - 64) := by
  unfold Src.Prims.loopFuel; omega

/-- `inclusion.RoundUpPowerOfTwo` as translated from the source = the model's `roundUpPow2`, for every
    input the 64-bit loop terminates on. -/
theorem RoundUpPowerOfTwo_tie (n : Nat) (h : n ≤ 2 ^ 63) :
    Src.inclusion.RoundUpPowerOfTwo (n : Int) = ((roundUpPow2 n : Nat) : Int) := by
  unfold Src.inclusion.RoundUpPowerOfTwo
  have := loop_tie_inclusion Src.Prims.loopFuel 1 n
  rw [show ((1 : Nat) : Int) = 1 from rfl] at this
  show Src.inclusion.RoundUpPowerOfTwo.loop1 Src.Prims.loopFuel 1 ↑n = _
  rw [this, fuel_split, roundUpPow2Aux_stable 64 _ 1 n (le_roundUpPow2 n h)]
  rfl

theorem square_RoundUpPowerOfTwo_tie (n : Nat) (h : n ≤ 2 ^ 63) :
    Src.square.RoundUpPowerOfTwo (n : Int) = ((roundUpPow2 n : Nat) : Int) := by
  unfold Src.square.RoundUpPowerOfTwo
  have := loop_tie_square Src.Prims.loopFuel 1 n
  rw [show ((1 : Nat) : Int) = 1 from rfl] at this
  show Src.square.RoundUpPowerOfTwo.loop1 Src.Prims.loopFuel 1 ↑n = _
  rw [this, fuel_split, roundUpPow2Aux_stable 64 _ 1 n (le_roundUpPow2 n h)]
  rfl

/-- the translated loop leaves through its condition (not through the fuel): the result is not below
    the input. -/
theorem RoundUpPowerOfTwo_exits (n : Nat) (h : n ≤ 2 ^ 63) :
    ¬ (Src.inclusion.RoundUpPowerOfTwo (n : Int) < (n : Int)) := by
  rw [RoundUpPowerOfTwo_tie n h]
  have := le_roundUpPow2 n h
  omega

/-- negative inputs (a Go `int`): the loop body never runs. -/
theorem loop_neg : ∀ (fuel : Nat) (x : Int), x ≤ 1 → Src.inclusion.RoundUpPowerOfTwo.loop1 fuel 1 x = 1
  | 0, x, _ => by simp [Src.inclusion.RoundUpPowerOfTwo.loop1]
  | fuel + 1, x, h => by
    rw [Src.inclusion.RoundUpPowerOfTwo.loop1]
    have : ¬ (1 : Int) < x := by omega
    simp [this]

theorem RoundUpPowerOfTwo_neg (x : Int) (h : x ≤ 1) : Src.inclusion.RoundUpPowerOfTwo x = 1 := by
  unfold Src.inclusion.RoundUpPowerOfTwo
  exact loop_neg _ x h

theorem RoundUpByMultipleOf_tie (c v : Nat) :
    Src.inclusion.RoundUpByMultipleOf (c : Int) (v : Int) = ((roundUpByMultipleOf c v : Nat) : Int) := by
  unfold Src.inclusion.RoundUpByMultipleOf roundUpByMultipleOf
  simp only [decide_eq_true_eq, tdiv_nn (Int.natCast_nonneg c), tmod_nn (Int.natCast_nonneg c)]
  have e1 : ((c : Int) % (v : Int)) = ((c % v : Nat) : Int) := by simp
  have e2 : ((c : Int) / (v : Int)) = ((c / v : Nat) : Int) := by simp
  by_cases h : c % v = 0
  · have hi : (c : Int) % (v : Int) = 0 := by rw [e1]; omega
    rw [if_pos hi, if_pos h]
  · have hi : ¬ (c : Int) % (v : Int) = 0 := by rw [e1]; omega
    rw [if_neg hi, if_neg h, e2]
    push_cast
    rfl

theorem getMin_tie (a b : Nat) : Src.inclusion.getMin (a : Int) (b : Int) = ((min a b : Nat) : Int) := by
  unfold Src.inclusion.getMin
  simp only [decide_eq_true_eq]
  split <;> omega

theorem ceilSqrt_tie (n : Nat) : Src.Prims.ceilSqrt (n : Int) = ((ceilSqrtF64 (f64OfNat n) : Nat) : Int) := by
  simp [Src.Prims.ceilSqrt]

/-- bound used to know that the doubling loop terminates on the square root -/
theorem ceilSqrtF64_le (n : Nat) (h : n ≤ 2 ^ 52) : ceilSqrtF64 (f64OfNat n) ≤ 2 ^ 63 := by
  have hf : f64OfNat n = n := by
    unfold f64OfNat
    by_cases h0 : n = 0
    · simp [h0]
    · have : Nat.log2 n + 1 ≤ 53 := by
        have : n < 2 ^ 53 := Nat.lt_of_le_of_lt h (by decide)
        have := (Nat.log2_lt h0).2 this
        omega
      simp [this]
  rw [hf]
  by_cases h0 : n = 0
  · subst h0; decide
  · rw [ceilSqrtF64_exact n (by omega) h]
    have hs := (GoSquare.C15.ceilSqrt_spec n (by omega)).2.1
    -- (c-1)^2 < n ≤ 2^52 gives c ≤ 2^52 + 1
    rcases Nat.lt_or_ge (2 ^ 63) (ceilSqrt n) with hgt | hle
    · exfalso
      have h1 : 2 ^ 52 ≤ ceilSqrt n - 1 := by omega
      have := Nat.mul_le_mul h1 h1
      have : (2:Nat) ^ 52 ≤ 2 ^ 52 * 2 ^ 52 := Nat.le_mul_of_pos_right _ (Nat.two_pow_pos 52)
      omega
    · exact hle

theorem BlobMinSquareSize_tie (n : Nat) (h : n ≤ 2 ^ 52) :
    Src.inclusion.BlobMinSquareSize (n : Int) = ((blobMinSquareSize n : Nat) : Int) := by
  unfold Src.inclusion.BlobMinSquareSize blobMinSquareSize
  rw [ceilSqrt_tie, RoundUpPowerOfTwo_tie _ (ceilSqrtF64_le n h)]

theorem Size_tie (n : Nat) (h : n ≤ 2 ^ 52) :
    Src.square.Size (n : Int) = ((blobMinSquareSize n : Nat) : Int) := by
  unfold Src.square.Size blobMinSquareSize
  rw [ceilSqrt_tie, square_RoundUpPowerOfTwo_tie _ (ceilSqrtF64_le n h)]

theorem SubTreeWidth_tie (n t : Nat) (h : n ≤ 2 ^ 52) :
    Src.inclusion.SubTreeWidth (n : Int) (t : Int) = ((subTreeWidth n t : Nat) : Int) := by
  unfold Src.inclusion.SubTreeWidth subTreeWidth
  simp only [decide_eq_true_eq, tdiv_nn (Int.natCast_nonneg n), tmod_nn (Int.natCast_nonneg n)]
  have e1 : ((n : Int) % (t : Int)) = ((n % t : Nat) : Int) := by simp
  have e2 : ((n : Int) / (t : Int)) = ((n / t : Nat) : Int) := by simp
  have hdiv : n / t ≤ 2 ^ 52 := Nat.le_trans (Nat.div_le_self n t) h
  have e4 : (if (n : Int) % (t : Int) ≠ 0 then (n : Int) / (t : Int) + 1 else (n : Int) / (t : Int))
      = (((if (n % t != 0) = true then n / t + 1 else n / t) : Nat) : Int) := by
    by_cases hm : n % t = 0
    · have hi : (n : Int) % (t : Int) = 0 := by rw [e1]; omega
      simp [hm, hi]
    · have hi : ¬ (n : Int) % (t : Int) = 0 := by rw [e1]; omega
      simp [hm, hi]
  rw [e4, BlobMinSquareSize_tie n h, RoundUpPowerOfTwo_tie _ (by split <;> omega), getMin_tie]

theorem NextShareIndex_tie (c n t : Nat) (h : n ≤ 2 ^ 52) :
    Src.inclusion.NextShareIndex (c : Int) (n : Int) (t : Int) = ((nextShareIndex c n t : Nat) : Int) := by
  unfold Src.inclusion.NextShareIndex nextShareIndex
  rw [SubTreeWidth_tie n t h, RoundUpByMultipleOf_tie]

theorem RoundDownPowerOfTwo_tie (n : Nat) (h : n ≤ 2 ^ 63) :
    Src.inclusion.RoundDownPowerOfTwo (n : Int) =
      (match roundDownPow2 n with | none => ((0 : Int), true) | some v => ((v : Int), false)) := by
  unfold Src.inclusion.RoundDownPowerOfTwo roundDownPow2
  by_cases h0 : n = 0
  · subst h0; simp
  · have : ¬ ((n : Int) ≤ 0) := by omega
    simp only [decide_eq_true_eq, this, if_false, h0]
    rw [RoundUpPowerOfTwo_tie n h]
    by_cases he : roundUpPow2 n = n
    · have : ((roundUpPow2 n : Nat) : Int) = (n : Int) := by omega
      simp [he, this]
    · have : ¬ ((roundUpPow2 n : Nat) : Int) = (n : Int) := by omega
      simp only [this, if_false, he]
      rw [tdiv_nn (Int.natCast_nonneg _)]
      simp

theorem IsPowerOfTwo_tie (n : Nat) : Src.square.IsPowerOfTwo (n : Int) = isPowerOfTwo n := by
  unfold Src.square.IsPowerOfTwo isPowerOfTwo Src.Prims.band
  have e : ((n : Int) - 1).toNat = n - 1 := by omega
  simp only [Int.toNat_natCast, e]
  by_cases h0 : n = 0
  · subst h0; simp
  · by_cases hb : n &&& (n - 1) = 0
    · simp [hb, h0]
    · have : ¬ ((n &&& (n - 1) : Nat) : Int) = 0 := by omega
      simp [hb, this]

end GoSquare.Tie
