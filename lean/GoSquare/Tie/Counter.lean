import GoSquare.Tie.Counts
import GoSquare.Proofs.Counter
/-! Source tie for share/counter.go (`CompactShareCounter`, C13 / C06 / C01) and share/info_byte.go. -/
namespace GoSquare.Tie
open GoSquare

/-- the model's counter state as the translated struct -/
def up (c : Counter) : Src.share.CompactShareCounter :=
  { lastShares := c.lastShares, lastRemainder := c.lastRemainder, shares := c.shares, remainder := c.remainder }

/-- the pending share of the current state is not full (this is all `Add_tie` needs; it was the whole
    of `OK` before `Revert` was tied). -/
def OKcur (c : Counter) : Prop := (c.shares = 0 → c.remainder < 474) ∧ c.remainder < 478

/-- the same for the remembered state (`lastShares`, `lastRemainder`), which `Revert` restores. -/
def OKlast (c : Counter) : Prop := (c.lastShares = 0 → c.lastRemainder < 474) ∧ c.lastRemainder < 478

/-- what every reachable counter state satisfies: neither the pending share nor the remembered pending
    share is full.
    NOTE (strengthened): `OK` used to be `OKcur` only. That is NOT preserved by `Revert` from an
    arbitrary state (counterexample: `{lastShares := 0, lastRemainder := 500, shares := 0, remainder := 0}`
    satisfies `OKcur`, its `revert` has shares = 0 and remainder = 500), because `Counter.At` leaves the
    `last*` fields free. `OK` therefore also constrains the `last*` fields; it holds of the zero counter
    (`OK_init`) and is preserved by `Add` (`Add_OK`) and by `Revert` (`Revert_OK`), hence holds of every
    reachable state. `OK_of_At` needs the remembered fields to be a position too; `OKcur_of_At` is the old
    lemma. -/
def OK (c : Counter) : Prop := OKcur c ∧ OKlast c

theorem OKcur_of_At {c : Counter} {T : Nat} (h : c.At T) : OKcur c := by
  obtain ⟨h1, h2⟩ := h
  unfold OKcur; rw [h1, h2]; unfold posOf
  split <;> simp <;> omega

theorem OK_of_At {c : Counter} {T T' : Nat} (h : c.At T)
    (hl : c.lastShares = (posOf T').1 ∧ c.lastRemainder = (posOf T').2) : OK c := by
  refine ⟨OKcur_of_At h, ?_⟩
  obtain ⟨h1, h2⟩ := hl
  unfold OKlast; rw [h1, h2]; unfold posOf
  split <;> simp <;> omega

theorem OK_init : OK {} := by
  unfold OK OKcur OKlast; simp

/-! ### `Add`: a staged case analysis. The three phases are decided on the `Nat` side (`by_cases`), the
    corresponding `Int` facts are stated next to them, and one `simp only` with exactly these facts
    removes the `if`s of both sides (no blind `split`: that takes minutes). -/

/-- closes what is left of a leaf: equalities between casts, and the two small `if`s of `diff`. -/
local macro "add_fin" : tactic => `(tactic| (
  repeat' apply And.intro
  all_goals first
    | trivial
    | omega
    | (repeat' split) <;> omega))

set_option linter.unusedSimpArgs false in
/-- `Add` on explicit fields, with `e = dataLen + delimLen dataLen` already a `Nat`. -/
theorem Add_tie_fields (ls lr s r d : Nat) (hd : d < 2 ^ 63) (h1 : s = 0 → r < 474) (h2 : r < 478) :
    Src.share.CompactShareCounter.Add (up ⟨ls, lr, s, r⟩) (d : Int)
      = (up ((Counter.mk ls lr s r).add d).1, ((Counter.mk ls lr s r).add d).2) := by
  unfold Src.share.CompactShareCounter.Add Counter.add Counter.advance up
  rw [wrap64 (by omega) (by omega), delimLen_tie, ← Int.natCast_add]
  generalize d + uvarintLen d = e
  clear hd d
  have z1 : ¬ ((0 : Int) > 0) := by omega
  have z2 : ¬ ((0 : Nat) > 0) := by omega
  by_cases hs : s = 0
  · have h1 := h1 hs
    have fs : ((s : Int) = 0) = True := eq_true (by omega)
    have hs := eq_true hs
    by_cases hA : e ≥ 474 - r
    · have fA : (e : Int) ≥ 474 - r := by omega
      by_cases hB : e - (474 - r) ≥ 478 - 0
      · have fB : (e : Int) - (474 - r) ≥ 478 - 0 := by omega
        by_cases hC : e - (474 - r) - (478 - 0) > 0
        · have fC : (e : Int) - (474 - r) - (478 - 0) > 0 := by omega
          have fN : 0 ≤ (e : Int) - (474 - r) - (478 - 0) := by omega
          simp only [decide_eq_true_eq, Bool.and_eq_true, if_false, if_true, Prod.mk.injEq,
            Src.share.CompactShareCounter.mk.injEq, and_true, true_and, and_false, false_and, z1, z2,
            hs, fs, hA, fA, hB, fB, hC, fC, tdiv_nn fN, tmod_nn fN]
          have ex : (e : Int) - (474 - r) - (478 - 0) = ((e - (474 - r) - (478 - 0) : Nat) : Int) := by omega
          rw [ex]
          generalize e - (474 - r) - (478 - 0) = x at hC ⊢
          clear ex fN fC fB hB fA hA
          add_fin
        · have fC : ¬ ((e : Int) - (474 - r) - (478 - 0) > 0) := by omega
          simp only [decide_eq_true_eq, Bool.and_eq_true, if_false, if_true, Prod.mk.injEq,
            Src.share.CompactShareCounter.mk.injEq, and_true, true_and, and_false, false_and, z1, z2,
            hs, fs, hA, fA, hB, fB, hC, fC]
          add_fin
      · have fB : ¬ ((e : Int) - (474 - r) ≥ 478 - 0) := by omega
        simp only [decide_eq_true_eq, Bool.and_eq_true, if_false, if_true, Prod.mk.injEq,
          Src.share.CompactShareCounter.mk.injEq, and_true, true_and, and_false, false_and, z1, z2,
          hs, fs, hA, fA, hB, fB]
        add_fin
    · have fA : ¬ ((e : Int) ≥ 474 - r) := by omega
      have hB : ¬ (0 ≥ 478 - (r + e)) := by omega
      have fB : ¬ ((0 : Int) ≥ 478 - (r + e)) := by omega
      simp only [decide_eq_true_eq, Bool.and_eq_true, if_false, if_true, Prod.mk.injEq,
        Src.share.CompactShareCounter.mk.injEq, and_true, true_and, and_false, false_and, z1, z2,
        hs, fs, hA, fA, hB, fB]
      add_fin
  · have fs : ¬ ((s : Int) = 0) := by omega
    by_cases hB : e ≥ 478 - r
    · have fB : (e : Int) ≥ 478 - r := by omega
      by_cases hC : e - (478 - r) > 0
      · have fC : (e : Int) - (478 - r) > 0 := by omega
        have fN : 0 ≤ (e : Int) - (478 - r) := by omega
        simp only [decide_eq_true_eq, Bool.and_eq_true, if_false, if_true, Prod.mk.injEq,
          Src.share.CompactShareCounter.mk.injEq, and_true, true_and, and_false, false_and, z1, z2,
          hs, fs, hB, fB, hC, fC, tdiv_nn fN, tmod_nn fN]
        have ex : (e : Int) - (478 - r) = ((e - (478 - r) : Nat) : Int) := by omega
        rw [ex]
        generalize e - (478 - r) = x at hC ⊢
        clear ex fN fC fB hB
        add_fin
      · have fC : ¬ ((e : Int) - (478 - r) > 0) := by omega
        simp only [decide_eq_true_eq, Bool.and_eq_true, if_false, if_true, Prod.mk.injEq,
          Src.share.CompactShareCounter.mk.injEq, and_true, true_and, and_false, false_and, z1, z2,
          hs, fs, hB, fB, hC, fC]
        add_fin
    · have fB : ¬ ((e : Int) ≥ 478 - r) := by omega
      simp only [decide_eq_true_eq, Bool.and_eq_true, if_false, if_true, Prod.mk.injEq,
        Src.share.CompactShareCounter.mk.injEq, and_true, true_and, and_false, false_and, z1, z2,
        hs, fs, hB, fB]
      add_fin

/-- `Add` needs only the current half of the invariant. -/
theorem Add_tie_cur (c : Counter) (d : Nat) (hd : d < 2 ^ 63) (hc : OKcur c) :
    Src.share.CompactShareCounter.Add (up c) (d : Int) = (up (c.add d).1, (c.add d).2) := by
  obtain ⟨ls, lr, s, r⟩ := c
  exact Add_tie_fields ls lr s r d hd hc.1 hc.2

/-- `CompactShareCounter.Add` as translated from the source = the model's `Counter.add`, from every
    state satisfying the invariant and for every `dataLen` a Go `int` can hold. -/
theorem Add_tie (c : Counter) (d : Nat) (hd : d < 2 ^ 63) (hc : OK c) :
    Src.share.CompactShareCounter.Add (up c) (d : Int) = (up (c.add d).1, (c.add d).2) :=
  Add_tie_cur c d hd hc.1

theorem Revert_tie (c : Counter) : Src.share.CompactShareCounter.Revert (up c) = up c.revert := rfl

theorem CounterSize_tie (c : Counter) : Src.share.CompactShareCounter.Size (up c) = (up c, (c.size : Int)) := by
  unfold Src.share.CompactShareCounter.Size Counter.size up
  by_cases h : c.remainder = 0
  · simp [h]
  · simp [h]

theorem Remainder_tie (c : Counter) :
    Src.share.CompactShareCounter.Remainder (up c) = (up c, (c.remainder : Int)) := rfl

/-- the three phases keep the pending share not full -/
theorem advance_OK (s r e : Nat) (h1 : s = 0 → r < 474) (h2 : r < 478) :
    ((Counter.advance s r e).1 = 0 → (Counter.advance s r e).2 < 474) ∧ (Counter.advance s r e).2 < 478 := by
  unfold Counter.advance
  by_cases hs : s = 0
  · have h1 := h1 hs
    by_cases hA : e ≥ 474 - r
    · by_cases hB : e - (474 - r) ≥ 478 - 0
      · by_cases hC : e - (474 - r) - (478 - 0) > 0
        · simp only [hs, hA, hB, hC, if_true]; exact ⟨fun h0 => by first | omega | exact h0.elim, by omega⟩
        · simp only [hs, hA, hB, hC, if_true, if_false]; exact ⟨fun h0 => by first | omega | exact h0.elim, by omega⟩
      · have z : ¬ (0 > 0) := by omega
        simp only [hs, hA, hB, z, if_true, if_false]; exact ⟨fun h0 => by first | omega | exact h0.elim, by omega⟩
    · have hB : ¬ (0 ≥ 478 - (r + e)) := by omega
      have z : ¬ (0 > 0) := by omega
      simp only [hs, hA, hB, z, if_true, if_false]; exact ⟨fun h0 => by first | omega | exact h0.elim, by omega⟩
  · by_cases hB : e ≥ 478 - r
    · by_cases hC : e - (478 - r) > 0
      · simp only [hs, hB, hC, if_true, if_false]; exact ⟨fun h0 => by first | omega | exact h0.elim, by omega⟩
      · simp only [hs, hB, hC, if_true, if_false]; exact ⟨fun h0 => by first | omega | exact h0.elim, by omega⟩
    · have z : ¬ (0 > 0) := by omega
      simp only [hs, hB, z, if_false]; exact ⟨fun h0 => by first | omega | exact h0.elim, by omega⟩

/-- the invariant is preserved by `Add` (the remembered state is the old current state). -/
theorem Add_OK_cur (c : Counter) (d : Nat) (hc : OKcur c) : OK (c.add d).1 := by
  obtain ⟨ls, lr, s, r⟩ := c
  exact ⟨advance_OK s r (d + uvarintLen d) hc.1 hc.2, hc⟩

theorem Add_OK (c : Counter) (d : Nat) (hc : OK c) : OK (c.add d).1 := Add_OK_cur c d hc.1

/-- the invariant is preserved by `Revert` (this is what the `last*` half of `OK` is for). -/
theorem Revert_OK (c : Counter) (hc : OK c) : OK c.revert := ⟨hc.2, hc.2⟩

end GoSquare.Tie
