import GoSquare.Model.Arith
/-! Primitives the generated file `Gen/Src.lean` refers to. They are the only hand-written part of the
    source-level translation: the floating-point square root (`int(math.Ceil(math.Sqrt(float64(n))))`),
    the length `binary.PutUvarint` returns, bitwise `&` on non-negative operands, and the number of
    iterations a translated `for` loop is given. -/
namespace GoSquare.Src.Prims

/-- iterations given to a translated `for cond { }` loop; `Tie` proves for every loop that the state it
    ends in falsifies the loop condition, i.e. that the fuel was not what ended it. -/
def loopFuel : Nat := 18446744073709551616

/-- `int(math.Ceil(math.Sqrt(float64(n))))` (model of the binary64 operations: `Model/Arith.lean`). -/
def ceilSqrt (n : Int) : Int := Int.ofNat (GoSquare.ceilSqrtF64 (GoSquare.f64OfNat n.toNat))

/-- the value `binary.PutUvarint(buf, x)` returns: the length of the varint encoding of `x`. -/
def uvarintLen (x : Int) : Int := Int.ofNat (GoSquare.uvarintLen x.toNat)

/-- `a & b` for non-negative operands. -/
def band (a b : Int) : Int := Int.ofNat (a.toNat &&& b.toNat)

end GoSquare.Src.Prims
