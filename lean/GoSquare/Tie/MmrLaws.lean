import GoSquare.Tie.Mmr
import GoSquare.Properties.C15
/-! C15 on the source: `MerkleMountainRangeSizes` and `RoundDownPowerOfTwo` as translated from the Go
    source satisfy their laws. -/
namespace GoSquare.Tie.Laws
open GoSquare GoSquare.Tie GoSquare.C15

/-- **C15 on the source (mountain ranges).** For a power-of-two width the translated
    `MerkleMountainRangeSizes` returns no error and a list of non-increasing powers of two, none above
    the width, that sum to the total. -/
theorem MerkleMountainRangeSizes_spec (n w : Nat) (hw : Pow2 w) (hn : n < 2 ^ 63) :
    ∃ l : List Nat, Src.inclusion.MerkleMountainRangeSizes (n : Int) (w : Int) = (l.map (fun (x : Nat) => (x : Int)), false) ∧
      (∀ x ∈ l, Pow2 x ∧ x ≤ w) ∧ l.sum = n ∧ l.Pairwise (· ≥ ·) := by
  have hw1 : 1 ≤ w := by obtain ⟨k, rfl⟩ := hw; exact Nat.one_le_two_pow
  exact ⟨mmrSizes n w, MerkleMountainRangeSizes_tie n w hn hw1, mmr_spec n w hw (by omega)⟩

/-- **C15 on the source (RoundDownPowerOfTwo).** An error exactly for 0; otherwise the greatest power
    of two at or below the input. -/
theorem RoundDownPowerOfTwo_spec (n : Nat) (h : n ≤ 2 ^ 63) :
    ((Src.inclusion.RoundDownPowerOfTwo (n : Int)).2 = true ↔ n = 0) ∧
    (1 ≤ n → ∃ j, Src.inclusion.RoundDownPowerOfTwo (n : Int) = (((2 ^ j : Nat) : Int), false) ∧ 2 ^ j ≤ n ∧ n < 2 ^ (j + 1)) := by
  obtain ⟨a, b⟩ := roundDown_greatest_pow2 n h
  rw [RoundDownPowerOfTwo_tie n h]
  constructor
  · constructor
    · intro hx
      cases hr : roundDownPow2 n with
      | none => exact a.1 hr
      | some v => rw [hr] at hx; simp at hx
    · intro h0; rw [a.2 h0]
  · intro h1
    obtain ⟨j, hj, h2, h3⟩ := b h1
    exact ⟨j, by rw [hj], h2, h3⟩

end GoSquare.Tie.Laws
