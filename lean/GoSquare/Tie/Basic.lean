import GoSquare.Gen.Src
/-! Tactics and small lemmas shared by the source-tie proofs (`Tie/*.lean`): the generated definitions
    of `Gen/Src.lean` (translated from the Go source on every run) are proved equal to the hand-written
    model definitions the property theorems are about. -/
namespace GoSquare.Tie
open GoSquare

theorem wrap32 {x : Int} (h0 : 0 ≤ x) (h1 : x < 4294967296) : x % 4294967296 = x := Int.emod_eq_of_lt h0 h1
theorem wrap64 {x : Int} (h0 : 0 ≤ x) (h1 : x < 18446744073709551616) : x % 18446744073709551616 = x :=
  Int.emod_eq_of_lt h0 h1
theorem wrap8 {x : Int} (h0 : 0 ≤ x) (h1 : x < 256) : x % 256 = x := Int.emod_eq_of_lt h0 h1
theorem tdiv_nn {a b : Int} (h : 0 ≤ a) : Int.tdiv a b = a / b := Int.tdiv_eq_ediv_of_nonneg h
theorem tmod_nn {a b : Int} (h : 0 ≤ a) : Int.tmod a b = a % b := Int.tmod_eq_emod_of_nonneg h

/-- unfold nothing; split every `if`, remove the unsigned wrap-arounds and truncating divisions whose
    side conditions `omega` can discharge, finish with `omega`. -/
macro "tie_arith" : tactic => `(tactic| (
  simp only [decide_eq_true_eq]
  repeat' split
  all_goals (try simp (disch := omega) only [wrap32, wrap64, wrap8, tdiv_nn, tmod_nn] at *)
  all_goals (try omega)))

end GoSquare.Tie
