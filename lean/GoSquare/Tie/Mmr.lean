import GoSquare.Tie.Arith
/-! Source tie for inclusion/commitment.go (`MerkleMountainRangeSizes`, C15): the translated loop, run
    with the translator's fuel, ends with `totalSize = 0` (so the fuel is not what ended it) and has
    appended exactly the model's `mmrSizes`. -/
namespace GoSquare.Tie
open GoSquare

/-- the greatest power of two at or below a positive number, as the model computes it -/
theorem roundDownPow2_pos (n : Nat) (h : n ≤ 2 ^ 63) (h1 : 1 ≤ n) :
    ∃ t, roundDownPow2 n = some t ∧ 1 ≤ t ∧ t ≤ n := by
  obtain ⟨j, he, hle, _⟩ := (GoSquare.C15.roundDown_greatest_pow2 n h).2 h1
  exact ⟨2 ^ j, he, Nat.one_le_two_pow, hle⟩

/-- every iteration removes at least 1 from `total`, so any two fuels at or above `total` give the same
    list. -/
theorem mmrSizesAux_fuel (m : Nat) (hm : 1 ≤ m) : ∀ (f g total : Nat), total ≤ f → total ≤ g → total ≤ 2 ^ 63 →
    mmrSizesAux f total m = mmrSizesAux g total m
  | 0, 0, _, _, _, _ => rfl
  | 0, g + 1, total, hf, _, _ => by
    have h0 : total = 0 := by omega
    simp [mmrSizesAux, h0]
  | f + 1, 0, total, _, hg, _ => by
    have h0 : total = 0 := by omega
    simp [mmrSizesAux, h0]
  | f + 1, g + 1, total, hf, hg, hb => by
    rw [mmrSizesAux, mmrSizesAux]
    by_cases h0 : total = 0
    · simp only [h0, if_true]
    · simp only [h0, if_false]
      by_cases hge : total ≥ m
      · simp only [hge, if_true]
        rw [mmrSizesAux_fuel m hm f g (total - m) (by omega) (by omega) (by omega)]
      · simp only [hge, if_false]
        obtain ⟨t, ht, ht1, ht2⟩ := roundDownPow2_pos total hb (by omega)
        simp only [ht]
        rw [mmrSizesAux_fuel m hm f g (total - t) (by omega) (by omega) (by omega)]

/-- the translated loop with fuel at least `total`: it leaves through its condition (`totalSize = 0`),
    never through the error return, and appends the model's list. -/
theorem mmr_loop_tie (m : Nat) (hm : 1 ≤ m) : ∀ (fuel total : Nat) (acc : List Int), total ≤ fuel → total < 2 ^ 63 →
    Src.inclusion.MerkleMountainRangeSizes.loop1 fuel (total : Int) (m : Int) acc
      = Sum.inr ((0 : Int), acc ++ (mmrSizesAux fuel total m).map (fun (x : Nat) => (x : Int)))
  | 0, total, acc, hf, _ => by
    have h0 : total = 0 := by omega
    subst h0
    simp [Src.inclusion.MerkleMountainRangeSizes.loop1, mmrSizesAux]
  | fuel + 1, total, acc, hf, hb => by
    rw [Src.inclusion.MerkleMountainRangeSizes.loop1, mmrSizesAux]
    by_cases h0 : total = 0
    · subst h0
      simp
    · have i0 : (total : Int) ≠ 0 := by omega
      simp only [decide_eq_true_eq, ne_eq, i0, h0, not_false_eq_true, if_true, if_false]
      by_cases hge : total ≥ m
      · have ige : (total : Int) ≥ (m : Int) := by omega
        have e : ((total : Int) - (m : Int)) % 18446744073709551616 = ((total - m : Nat) : Int) := by
          rw [wrap64 (by omega) (by omega)]; omega
        simp only [ige, hge, if_true, e]
        rw [mmr_loop_tie m hm fuel (total - m) _ (by omega) (by omega)]
        simp
      · have ige : ¬ ((total : Int) ≥ (m : Int)) := by omega
        have ilt : (total : Int) < (m : Int) := by omega
        obtain ⟨t, ht, ht1, ht2⟩ := roundDownPow2_pos total (by omega) (by omega)
        have e : ((total : Int) - (t : Int)) % 18446744073709551616 = ((total - t : Nat) : Int) := by
          rw [wrap64 (by omega) (by omega)]; omega
        simp only [ige, hge, ilt, if_true, if_false, RoundDownPowerOfTwo_tie total (by omega), ht,
          Bool.false_eq_true, e]
        rw [mmr_loop_tie m hm fuel (total - t) _ (by omega) (by omega)]
        simp

/-- `inclusion.MerkleMountainRangeSizes` as translated from the source = the model's `mmrSizes`, and no
    error, for every `totalSize` a Go `int` holds and every `maxTreeSize ≥ 1` (with `maxTreeSize = 0`
    the Go loop does not terminate). -/
theorem MerkleMountainRangeSizes_tie (total maxTree : Nat) (ht : total < 2 ^ 63) (hm : 1 ≤ maxTree) :
    Src.inclusion.MerkleMountainRangeSizes (total : Int) (maxTree : Int)
      = ((mmrSizes total maxTree).map (fun (x : Nat) => (x : Int)), false) := by
  unfold Src.inclusion.MerkleMountainRangeSizes mmrSizes
  have hf : total ≤ Src.Prims.loopFuel := by unfold Src.Prims.loopFuel; omega
  simp only [mmr_loop_tie maxTree hm Src.Prims.loopFuel total [] hf ht, List.nil_append]
  rw [mmrSizesAux_fuel maxTree hm Src.Prims.loopFuel total total hf (Nat.le_refl _) (by omega)]

end GoSquare.Tie
