import GoSquare.Tie.Arith
import GoSquare.Tie.Counts
import GoSquare.Properties.C13
import GoSquare.Proofs.Sparse
import GoSquare.Properties.C15
/-! The laws of C15 and C13, stated directly on the definitions GENERATED from the Go source
    (`Gen/Src.lean`), by rewriting with the source ties. These are the statements a reader can check
    against the Go code without reading the hand-written model: the only hand-written definitions
    they mention are the specification notions (`Pow2`, divisibility, the encoders' output). -/
namespace GoSquare.Tie.Laws
open GoSquare GoSquare.Tie GoSquare.C15

/-- C15 on the source: `inclusion.RoundUpPowerOfTwo` returns the least power of two ≥ its input. -/
theorem RoundUpPowerOfTwo_least (n : Nat) (h : n ≤ 2 ^ 63) :
    ∃ r : Nat, Src.inclusion.RoundUpPowerOfTwo (n : Int) = r ∧ Pow2 r ∧ n ≤ r ∧ ∀ p, Pow2 p → n ≤ p → r ≤ p :=
  ⟨roundUpPow2 n, RoundUpPowerOfTwo_tie n h, C15.roundUp_least_pow2 n h⟩

/-- C15 on the source: `inclusion.BlobMinSquareSize` and `square.Size` return the least power-of-two side
    whose square holds `n` shares, for every `n` up to 2^52 (including the float64 computation). -/
theorem BlobMinSquareSize_least (n : Nat) (h1 : 1 ≤ n) (h : n ≤ 2 ^ 52) :
    ∃ r : Nat, Src.inclusion.BlobMinSquareSize (n : Int) = r ∧ Src.square.Size (n : Int) = r ∧
      Pow2 r ∧ n ≤ r * r ∧ ∀ p, Pow2 p → n ≤ p * p → r ≤ p :=
  ⟨blobMinSquareSize n, BlobMinSquareSize_tie n h, Size_tie n h, C15.minSquare_least n h1 h⟩

/-- C15 on the source: `inclusion.SubTreeWidth` is a power of two, at most the minimal square side, and
    the least power of two `w` with `⌈n/w⌉ ≤ threshold` unless capped by that side. -/
theorem SubTreeWidth_spec (n t : Nat) (hn : 1 ≤ n) (hn52 : n ≤ 2 ^ 52) (ht : 1 ≤ t) :
    ∃ w : Nat, Src.inclusion.SubTreeWidth (n : Int) (t : Int) = w ∧ Pow2 w ∧ w ≤ blobMinSquareSize n ∧
      w = min (roundUpPow2 ((n + t - 1) / t)) (blobMinSquareSize n) ∧
      (∀ v, Pow2 v → (n + v - 1) / v ≤ t → roundUpPow2 ((n + t - 1) / t) ≤ v) := by
  obtain ⟨a, b, c, _, _, d⟩ := C15.subTreeWidth_spec n t hn hn52 ht
  exact ⟨subTreeWidth n t, SubTreeWidth_tie n t hn52, a, b, c, d⟩

/-- C15 on the source: `inclusion.NextShareIndex` is the least multiple of the subtree width at or after
    the cursor. -/
theorem NextShareIndex_least (cursor n t : Nat) (hn : 1 ≤ n) (hn52 : n ≤ 2 ^ 52) (ht : 1 ≤ t) :
    ∃ i w : Nat, Src.inclusion.NextShareIndex (cursor : Int) (n : Int) (t : Int) = i ∧
      Src.inclusion.SubTreeWidth (n : Int) (t : Int) = w ∧
      w ∣ i ∧ cursor ≤ i ∧ ∀ m, w ∣ m → cursor ≤ m → i ≤ m := by
  have hw := C15.subTreeWidth_pos n t hn hn52 ht
  exact ⟨nextShareIndex cursor n t, subTreeWidth n t, NextShareIndex_tie cursor n t hn52, SubTreeWidth_tie n t hn52,
    C15.nextShareIndex_least cursor n t hw⟩

/-- C15 on the source: `IsPowerOfTwo` decides `Pow2`. -/
theorem IsPowerOfTwo_spec (n : Nat) : Src.square.IsPowerOfTwo (n : Int) = true ↔ Pow2 n := by
  rw [IsPowerOfTwo_tie]; exact C15.isPowerOfTwo_spec n

/-- C13 on the source: the share count `SparseSharesNeededWithSigner` predicts for a blob is the number
    of shares the sparse encoder produces for it (both share versions). -/
theorem SparseSharesNeeded_is_produced (b : Blob) (hb : b.Valid) :
    ∃ sh, b.toShares = .ok sh ∧
      Src.share.SparseSharesNeededWithSigner (b.data.length : Int) (b.ver == 1) = (sh.length : Int) := by
  obtain ⟨sh, h1, _, h3⟩ := toShares_length b hb
  exact ⟨sh, h1, by rw [SparseSharesNeededWithSigner_tie _ _ hb.dataLt, h3]⟩

/-- C13 on the source: `CompactSharesNeeded` and `AvailableBytesFromCompactShares` are inverse at the
    boundaries (n shares hold exactly that many bytes; one byte more needs n + 1). -/
theorem Compact_inverse (n : Nat) (hn : 1 ≤ n) (hb : availableBytesFromCompactShares n + 1 < 2 ^ 32) :
    Src.share.CompactSharesNeeded (Src.share.AvailableBytesFromCompactShares (n : Int)) = n ∧
    Src.share.CompactSharesNeeded (Src.share.AvailableBytesFromCompactShares (n : Int) + 1) = n + 1 := by
  obtain ⟨a, b⟩ := C13.compact_inverse n hn
  rw [AvailableBytesFromCompactShares_tie]
  refine ⟨by rw [CompactSharesNeeded_tie _ (by omega), a], ?_⟩
  have e : ((availableBytesFromCompactShares n : Nat) : Int) + 1 = ((availableBytesFromCompactShares n + 1 : Nat) : Int) := by omega
  rw [e, CompactSharesNeeded_tie _ hb, b]; omega

theorem Sparse_inverse (n : Nat) (hn : 1 ≤ n) (hb : availableBytesFromSparseShares n + 1 < 2 ^ 32) :
    Src.share.SparseSharesNeeded (Src.share.AvailableBytesFromSparseShares (n : Int)) = n ∧
    Src.share.SparseSharesNeeded (Src.share.AvailableBytesFromSparseShares (n : Int) + 1) = n + 1 := by
  obtain ⟨a, b⟩ := C13.sparse_inverse n hn
  rw [AvailableBytesFromSparseShares_tie]
  refine ⟨by rw [SparseSharesNeeded_tie _ (by omega), a], ?_⟩
  have e : ((availableBytesFromSparseShares n : Nat) : Int) + 1 = ((availableBytesFromSparseShares n + 1 : Nat) : Int) := by omega
  rw [e, SparseSharesNeeded_tie _ hb, b]; omega

/-- non-vacuity: concrete values computed on the generated definitions themselves -/
example : Src.share.SparseSharesNeededWithSigner 478 true = 2 ∧ Src.share.SparseSharesNeededWithSigner 478 false = 1
    ∧ Src.share.SparseSharesNeededWithSigner 479 false = 2 ∧ Src.share.CompactSharesNeeded 474 = 1
    ∧ Src.share.CompactSharesNeeded 475 = 2 := by decide

end GoSquare.Tie.Laws
