import GoSquare.Tie.InfoByte
/-! C10 on the source: the info byte as translated from share/info_byte.go. -/
namespace GoSquare.Tie.Laws
open GoSquare GoSquare.Tie

/-- **C10 on the source (info byte).** `NewInfoByte(version, start)` fails exactly for versions above
    127; otherwise it returns a byte from which `Version` and `IsSequenceStart` read the two arguments
    back, and which `ParseInfoByte` accepts unchanged. -/
theorem InfoByte_roundtrip (v : Nat) (s : Bool) (hv : v < 256) :
    ((Src.share.NewInfoByte (v : Int) s).2 = true ↔ 127 < v) ∧
    (v ≤ 127 →
      ∃ b : Nat, b < 256 ∧ Src.share.NewInfoByte (v : Int) s = ((b : Int), false) ∧ b = 2 * v + (if s then 1 else 0) ∧
        Src.share.InfoByte.Version (b : Int) = (v : Int) ∧ Src.share.InfoByte.IsSequenceStart (b : Int) = s ∧
        Src.share.ParseInfoByte (b : Int) = ((b : Int), false)) := by
  constructor
  · unfold Src.share.NewInfoByte
    by_cases h : (v : Int) > 127
    · simp only [decide_eq_true_eq, h, if_true, true_iff]; omega
    · simp only [decide_eq_true_eq, h, if_false]
      constructor
      · intro hx; cases s <;> simp at hx
      · intro hx; omega
  · intro hle
    refine ⟨2 * v + (if s then 1 else 0), by cases s <;> simp <;> omega, ?_, rfl, ?_, ?_, ?_⟩
    · unfold Src.share.NewInfoByte
      have h : ¬ (v : Int) > 127 := by omega
      simp only [decide_eq_true_eq, h, if_false]
      cases s
      · simp only [Bool.false_eq_true, if_false, Nat.add_zero]
        rw [wrap8 (by omega) (by omega)]; congr 1; omega
      · simp only [if_true]
        rw [wrap8 (x := (v : Int) * 2) (by omega) (by omega), wrap8 (by omega) (by omega)]; congr 1; omega
    · rw [Version_tie]; cases s <;> simp <;> omega
    · rw [IsSequenceStart_tie]; cases s <;> simp <;> omega
    · exact ParseInfoByte_total _ (by cases s <;> simp <;> omega)

end GoSquare.Tie.Laws
