import GoSquare.Tie.Basic
/-! Source tie for share/share_sequence.go and share/utils.go (share-count predictions, C13). -/
namespace GoSquare.Tie
open GoSquare

theorem CompactSharesNeeded_tie (n : Nat) (h : n < 2 ^ 32) :
    Src.share.CompactSharesNeeded (n : Int) = ((compactSharesNeeded n : Nat) : Int) := by
  unfold Src.share.CompactSharesNeeded compactSharesNeeded
  tie_arith

theorem SparseSharesNeededWithSigner_tie (n : Nat) (b : Bool) (h : n < 2 ^ 32) :
    Src.share.SparseSharesNeededWithSigner (n : Int) b = ((sparseSharesNeededWithSigner n b : Nat) : Int) := by
  unfold Src.share.SparseSharesNeededWithSigner sparseSharesNeededWithSigner
  cases b <;> tie_arith

theorem SparseSharesNeeded_tie (n : Nat) (h : n < 2 ^ 32) :
    Src.share.SparseSharesNeeded (n : Int) = ((sparseSharesNeeded n : Nat) : Int) := by
  unfold Src.share.SparseSharesNeeded sparseSharesNeeded
  exact SparseSharesNeededWithSigner_tie n false h

theorem AvailableBytesFromCompactShares_tie (n : Nat) :
    Src.share.AvailableBytesFromCompactShares (n : Int) = ((availableBytesFromCompactShares n : Nat) : Int) := by
  unfold Src.share.AvailableBytesFromCompactShares availableBytesFromCompactShares
  tie_arith

theorem AvailableBytesFromSparseShares_tie (n : Nat) :
    Src.share.AvailableBytesFromSparseShares (n : Int) = ((availableBytesFromSparseShares n : Nat) : Int) := by
  unfold Src.share.AvailableBytesFromSparseShares availableBytesFromSparseShares
  tie_arith

/-- negative arguments (a Go `int`): both functions answer 0. -/
theorem AvailableBytes_neg (x : Int) (h : x ≤ 0) :
    Src.share.AvailableBytesFromCompactShares x = 0 ∧ Src.share.AvailableBytesFromSparseShares x = 0 := by
  unfold Src.share.AvailableBytesFromCompactShares Src.share.AvailableBytesFromSparseShares
  constructor <;> tie_arith

theorem delimLen_tie (n : Nat) : Src.share.delimLen (n : Int) = ((uvarintLen n : Nat) : Int) := by
  unfold Src.share.delimLen Src.Prims.uvarintLen
  simp

end GoSquare.Tie
