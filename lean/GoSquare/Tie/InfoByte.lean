import GoSquare.Tie.Basic
import GoSquare.Model.Share
/-! Source tie for share/info_byte.go (C10: the info byte). -/
namespace GoSquare.Tie
open GoSquare

theorem NewInfoByte_tie (v : Nat) (s : Bool) (hv : v < 256) :
    Src.share.NewInfoByte (v : Int) s =
      (match newInfoByte v s with | .ok b => ((b.toNat : Int), false) | .error _ => ((0 : Int), true)) := by
  unfold Src.share.NewInfoByte newInfoByte
  by_cases h : v > 127
  · have : (v : Int) > 127 := by omega
    simp [h, this]
  · have : ¬ (v : Int) > 127 := by omega
    simp only [h, this, decide_false, if_false, Bool.false_eq_true]
    cases s
    · simp only [Bool.false_eq_true, if_false, Nat.add_zero]
      rw [wrap8 (by omega) (by omega)]
      have : (v * 2).toUInt8.toNat = v * 2 := by simp [Nat.toUInt8]; omega
      simp [this]; omega
    · simp only [if_true]
      rw [wrap8 (x := (v : Int) * 2) (by omega) (by omega), wrap8 (by omega) (by omega)]
      have : (v * 2 + 1).toUInt8.toNat = v * 2 + 1 := by simp [Nat.toUInt8]; omega
      simp [this]; omega

theorem Version_tie (b : Nat) : Src.share.InfoByte.Version (b : Int) = ((b / 2 : Nat) : Int) := by
  unfold Src.share.InfoByte.Version; simp

theorem IsSequenceStart_tie (b : Nat) : Src.share.InfoByte.IsSequenceStart (b : Int) = (b % 2 == 1) := by
  unfold Src.share.InfoByte.IsSequenceStart
  by_cases h : b % 2 = 1
  · have : (b : Int) % 2 = 1 := by omega
    simp [h, this]
  · have : ¬ (b : Int) % 2 = 1 := by omega
    simp [h, this]

/-- `ParseInfoByte` never fails on a byte and returns it unchanged. -/
theorem ParseInfoByte_total (b : Nat) (hb : b < 256) : Src.share.ParseInfoByte (b : Int) = ((b : Int), false) := by
  unfold Src.share.ParseInfoByte Src.share.NewInfoByte
  have h1 : ¬ ((b : Int) / 2 > 127) := by omega
  simp only [decide_eq_true_eq, h1, if_false]
  by_cases h : (b : Int) % 2 = 1
  · simp only [h, if_true]
    rw [wrap8 (x := (b : Int) / 2 * 2) (by omega) (by omega), wrap8 (by omega) (by omega)]
    congr 1; omega
  · simp only [h, if_false]
    rw [wrap8 (by omega) (by omega)]
    congr 1; omega

end GoSquare.Tie
