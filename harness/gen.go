package main

import (
	"bytes"
	"encoding/binary"
	"fmt"
	"sort"

	v1 "github.com/celestiaorg/go-square/v2/proto/blob/v1"
	"github.com/celestiaorg/go-square/v2/share"
	"github.com/celestiaorg/go-square/v2/tx"
	"google.golang.org/protobuf/proto"
)

// ---- namespaces ----

func nsBytes(ver byte, id []byte) []byte { return append([]byte{ver}, id...) }

func v0ns(sub ...byte) share.Namespace {
	ns, err := share.NewV0Namespace(sub)
	if err != nil {
		panic(err)
	}
	return ns
}

// userNamespaces returns k distinct blob-valid namespaces in random order.
func (c *Ctx) userNamespaces(k int) []share.Namespace {
	out := make([]share.Namespace, 0, k)
	seen := map[string]bool{}
	for len(out) < k {
		var sub []byte
		switch c.rng.Intn(4) {
		case 0:
			sub = []byte{byte(c.rng.Range(1, 255))}
		case 1:
			sub = []byte{1, byte(c.rng.Intn(256))} // just above the primary reserved range
		case 2:
			sub = c.rng.Bytes(10)
		default:
			sub = bytes.Repeat([]byte{0xff}, c.rng.Range(1, 10))
		}
		if c.rng.Chance(1, 5) {
			// look-alikes of the reserved namespaces: the low bytes of a reserved constant (tx 01, pay-for-blob 04,
			// reserved padding ff) with ONE non-zero byte elsewhere in the 10-byte user part
			sub = make([]byte, 10)
			sub[9] = byte(c.rng.Pick([]int{0x01, 0x04, 0xff, 0x02}))
			sub[c.rng.Intn(9)] = byte(c.rng.Pick([]int{0x01, 0x80, 0xab, 0xff}))
		}
		ns, err := share.NewV0Namespace(sub)
		if err != nil || ns.ValidateForBlob() != nil || seen[string(ns.Bytes())] {
			continue
		}
		seen[string(ns.Bytes())] = true
		out = append(out, ns)
	}
	return out
}

// ---- lengths ----

// compactLen returns a tx length around the compact-share fill points and varint widths.
func (c *Ctx) compactLen() int {
	switch c.rng.Intn(12) {
	case 0:
		return c.rng.Range(1, 5)
	case 1:
		return c.rng.Range(120, 135) // 1/2 byte prefix
	case 2:
		return c.rng.Range(465, 482) // first-share fill (474 incl. prefix)
	case 3:
		return c.rng.Range(940, 960)
	case 4:
		return c.rng.Range(16370, 16400) // 2/3 byte prefix
	case 5:
		return 474 + 478*c.rng.Range(0, 4) - c.rng.Range(0, 6)
	case 6:
		return c.rng.Range(1, 3000)
	case 7:
		return c.rng.Range(1, 40)
	case 8:
		return c.rng.Range(1400, 1450)
	default:
		return c.rng.Range(1, 600)
	}
}

// sparseLen returns a blob length around the sparse-share capacity boundaries.
func (c *Ctx) sparseLen(maxShares int) int {
	k := c.rng.Range(0, maxShares-1)
	base := 478 + 482*k
	switch c.rng.Intn(8) {
	case 0:
		return c.rng.Range(1, 10)
	case 1:
		return base + c.rng.Range(-2, 2)
	case 2:
		return base - c.rng.Range(-1, 21) // the whole 20-byte window in which a signer adds a share
	case 3:
		return c.rng.Range(1, 478)
	default:
		n := c.rng.Range(1, 478+482*(maxShares-1))
		return n
	}
}

// ---- blobs and blob transactions ----

type blobSpec struct {
	ns     []byte
	ver    uint8
	signer []byte // nil = none
	data   []byte
}

func (b blobSpec) String() string {
	s := "nil"
	if b.signer != nil {
		s = hx(b.signer)
	}
	return fmt.Sprintf("%s:%d:%s:%s", hx(b.ns), b.ver, s, hx(b.data))
}

func (b blobSpec) blob() (*share.Blob, error) {
	ns, err := share.NewNamespaceFromBytes(b.ns)
	if err != nil {
		return nil, err
	}
	return share.NewBlob(ns, b.data, b.ver, b.signer)
}

func blobStr(b *share.Blob) string {
	s := "nil"
	if b.Signer() != nil {
		s = hx(b.Signer())
	}
	return fmt.Sprintf("%s:%d:%s:%d:%s", hx(b.Namespace().Bytes()), b.ShareVersion(), s, len(b.Data()), dig(b.Data()))
}

func blobsStr(bs []*share.Blob) string {
	out := "["
	for i, b := range bs {
		if i > 0 {
			out += ","
		}
		out += blobStr(b)
	}
	return out + "]"
}

// payload returns n bytes of blob / transaction content: mostly random, sometimes structured so that
// content can be mistaken for format (zero runs at the offsets where a continuation share's payload
// begins, all zero, all 0xff, bytes that look like a share header)
func (c *Ctx) payload(n int) []byte {
	b := c.rng.Bytes(n)
	if n == 0 {
		return b
	}
	switch c.rng.Intn(14) {
	case 0:
		for i := range b {
			b[i] = 0
		}
		b[n-1] = byte(c.rng.Range(0, 1)) // all zero, or all zero but the last byte
	case 1:
		for i := range b {
			b[i] = 0xff
		}
	case 2, 3:
		// zero runs where the payload of a continuation share begins: sparse 478+482k (458+482k with signer),
		// compact 474+478k (and the byte before / after)
		for _, base := range []int{478, 458, 474} {
			step := 482
			if base == 474 {
				step = 478
			}
			for off := base; off < n; off += step {
				if c.rng.Chance(2, 3) {
					st := off + c.rng.Pick([]int{0, 0, 0, -1, 1})
					for i := st; i < st+c.rng.Pick([]int{4, 4, 8, 30}) && i < n; i++ {
						if i >= 0 {
							b[i] = 0
						}
					}
				}
			}
		}
	case 4:
		// content that looks like a share header: a namespace followed by an info byte and a length
		hdr := append(append([]byte(nil), share.TxNamespace.Bytes()...), 1, 0, 0, 0, 0)
		if c.rng.Bool() {
			hdr = append(append([]byte(nil), share.TailPaddingNamespace.Bytes()...), 1, 0, 0, 0, 0)
		}
		for off := c.rng.Pick([]int{0, 478, 458}); off < n; off += 482 {
			copy(b[off:], hdr)
		}
	case 5:
		b[n-1] = 0 // ends in a zero byte
		if n > 1 && c.rng.Bool() {
			b[n-2] = 0
		}
	}
	return b
}

func (c *Ctx) randBlob(ns share.Namespace, n int, v1 bool) blobSpec {
	b := blobSpec{ns: ns.Bytes(), data: c.payload(n)}
	if v1 {
		b.ver = 1
		b.signer = c.rng.Bytes(20)
		// boundary signers: all zero (looks like zero fill), all 0xff, a single set bit at either end
		switch c.rng.Intn(12) {
		case 0:
			b.signer = make([]byte, 20)
		case 1:
			b.signer = bytes.Repeat([]byte{0xff}, 20)
		case 2:
			b.signer = make([]byte, 20)
			b.signer[19] = 1
		case 3:
			b.signer = make([]byte, 20)
			b.signer[0] = 0x80
		}
	}
	return b
}

// mockPFB is the inner transaction of a generated blob tx: [count] ++ be32 sizes ++ filler.
// Driver.mockPfbDecoder is its Lean twin.
func mockPFB(sizes []int, filler []byte) []byte {
	out := []byte{byte(len(sizes))}
	for _, s := range sizes {
		out = binary.BigEndian.AppendUint32(out, uint32(s))
	}
	return append(out, filler...)
}

func decodeMockPFB(txb []byte) ([]uint32, error) {
	if len(txb) == 0 {
		return nil, fmt.Errorf("empty")
	}
	n := int(txb[0])
	if len(txb)-1 < 4*n {
		return nil, fmt.Errorf("short")
	}
	out := make([]uint32, n)
	for i := range out {
		out[i] = binary.BigEndian.Uint32(txb[1+4*i:])
	}
	return out, nil
}

func (c *Ctx) makeBlobTx(specs []blobSpec, fillerLen int) []byte {
	sizes := make([]int, len(specs))
	// encoded with the protobuf library directly - field for field what tx.MarshalBlobTx is specified to
	// write - so that the inputs of every stream do not depend on the encoder under test
	msg := &v1.BlobTx{TypeId: "BLOB"}
	for i, s := range specs {
		if _, err := s.blob(); err != nil {
			panic(fmt.Sprintf("generator produced an invalid blob: %v", err))
		}
		sizes[i] = len(s.data)
		msg.Blobs = append(msg.Blobs, &v1.BlobProto{NamespaceId: s.ns[1:], NamespaceVersion: uint32(s.ns[0]), Data: s.data, ShareVersion: uint32(s.ver), Signer: s.signer})
	}
	msg.Tx = mockPFB(sizes, c.rng.Bytes(fillerLen))
	raw, err := proto.Marshal(msg)
	if err != nil {
		panic(err)
	}
	return raw
}

// mustBlobTx decodes a blob transaction the generator made, independently of tx.UnmarshalBlobTx (protobuf
// library + the blob constructor); never nil
func mustBlobTx(raw []byte) *tx.BlobTx {
	var msg v1.BlobTx
	out := &tx.BlobTx{}
	if proto.Unmarshal(raw, &msg) != nil {
		return out
	}
	out.Tx = msg.Tx
	for _, pb := range msg.Blobs {
		ns, err := share.NewNamespace(uint8(pb.NamespaceVersion), pb.NamespaceId)
		if err != nil {
			continue
		}
		if b, err := share.NewBlob(ns, pb.Data, uint8(pb.ShareVersion), pb.Signer); err == nil {
			out.Blobs = append(out.Blobs, b)
		}
	}
	return out
}

// normalTx returns random bytes that UnmarshalBlobTx does not recognise as a blob tx.
func (c *Ctx) normalTx(n int) []byte {
	for {
		b := c.payload(n)
		if _, is, _ := tx.UnmarshalBlobTx(b); !is {
			return b
		}
	}
}

func sharesToBytes(sh []share.Share) [][]byte {
	out := make([][]byte, len(sh))
	for i := range sh {
		out[i] = sh[i].ToBytes()
	}
	return out
}

func sortedCopy(xs []string) []string {
	o := append([]string(nil), xs...)
	sort.Strings(o)
	return o
}
